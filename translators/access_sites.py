"""Extract the shared-memory access sites of mtbl/threadpool.c: (function, struct, field, read/write, mutexes held).
Lexical, statement by statement, in source order; the lock set is tracked through pthread_mutex_lock/unlock calls
(the file's critical sections are linear in the source, which the extractor checks: every function must end with no
mutex held)."""
import re

STRUCTS = {"thread", "resultq", "threadpool", "result_handler"}
FIELD_TYPES = {("thread", "pool"): "threadpool", ("thread", "rq"): "resultq", ("thread", "next"): "thread",
               ("result_handler", "rq"): "resultq", ("threadpool", "head"): "thread", ("resultq", "head"): "thread"}
LOCKNAME = {"threadpool": "pool", "resultq": "rq", "thread": "thr"}
SYNC_FIELDS = {"m", "c", "t", "thread"}      # mutex, condvar, pthread_t: handed to pthread functions, not data


STRICT = True


class ExtractError(Exception):
    pass


def strip_comments(src):
    src = re.sub(r"/\*.*?\*/", lambda m: " " * 0 + "".join("\n" for c in m.group(0) if c == "\n"), src, flags=re.S)
    return re.sub(r"//[^\n]*", "", src)


def functions(src):
    """yield (name, params, body) for every top-level function definition"""
    out = []
    for m in re.finditer(r"^(\w+)\s*\(([^;{}]*?)\)\s*\{", src, re.M):
        name = m.group(1)
        if name in ("if", "while", "for", "switch"):
            continue
        i = m.end(); depth = 1
        while i < len(src) and depth:
            if src[i] == "{":
                depth += 1
            elif src[i] == "}":
                depth -= 1
            i += 1
        out.append((name, m.group(2), src[m.end():i - 1]))
    return out


def var_types(params, body):
    t = {}
    for m in re.finditer(r"struct\s+(\w+)\s*\*\s*(\*?)\s*(\w+)", params + ";" + body):
        if m.group(1) in STRUCTS:
            if not m.group(2):
                t[m.group(3)] = m.group(1)
            else:
                t[m.group(3) + "__deref"] = m.group(1)      # struct X **p : (*p) is written p__deref by the caller
    return t


def type_of(expr, vt):
    """type of a pointer expression like thr, thr->pool, rh->rq"""
    parts = expr.split("->")
    ty = vt.get(parts[0])
    for f in parts[1:]:
        if ty is None:
            return None
        ty = FIELD_TYPES.get((ty, f))
    return ty


def configure(structs, field_types, lockname=None, sync_fields=None):
    global STRUCTS, FIELD_TYPES, LOCKNAME, SYNC_FIELDS
    STRUCTS, FIELD_TYPES = set(structs), dict(field_types)
    if lockname is not None:
        LOCKNAME = dict(lockname)
    if sync_fields is not None:
        SYNC_FIELDS = set(sync_fields)


THREADPOOL_CFG = (set(STRUCTS), dict(FIELD_TYPES), dict(LOCKNAME), set(SYNC_FIELDS))
READER_CFG = ({"mtbl_reader", "reader_iter", "block", "block_iter"},
              {("reader_iter", "r"): "mtbl_reader", ("reader_iter", "b"): "block", ("reader_iter", "bi"): "block_iter",
               ("reader_iter", "index_iter"): "block_iter", ("mtbl_reader", "index"): "block", ("block_iter", "block"): "block"},
              {}, set())


def extract(src):
    src = strip_comments(src)
    src = re.sub(r"\(\s*\*\s*(\w+)\s*\)", r"\1__deref", src)
    sites = []
    for name, params, body in functions(src):
        vt = var_types(params, body)
        # `struct threadpool *pool = *poolp;` style aliases are ordinary locals (handled by var_types)
        held = []
        stmts = re.split(r"[;{}]", body)
        for st in stmts:
            st = st.strip()
            if not st:
                continue
            m = re.search(r"pthread_mutex_(lock|unlock)\s*\(\s*&\s*([\w>-]+?)->m\s*\)", st)
            if m:
                ty = type_of(m.group(2), vt)
                if ty is None:
                    raise ExtractError("%s: cannot type the mutex owner %r" % (name, m.group(2)))
                ln = LOCKNAME[ty]
                # the expression that names the mutex is itself read (e.g. thr->pool in &thr->pool->m)
                for acc in member_accesses(m.group(2) + "->m", vt, name)[:-1]:
                    sites.append((name,) + acc + (tuple(sorted(held)),))
                if m.group(1) == "lock":
                    if ln in held:
                        raise ExtractError("%s: %s mutex locked twice" % (name, ln))
                    held.append(ln)
                else:
                    if ln not in held:
                        raise ExtractError("%s: unlock of %s mutex that is not held" % (name, ln))
                    held.remove(ln)
                continue
            # pthread calls: their &x->m / &x->c / x->t arguments are not data accesses, but the path to them is
            call = re.search(r"pthread_\w+\s*\((.*)\)", st)
            text = st
            if call:
                for arg in re.findall(r"&?\s*([\w>-]+->(?:m|c|t|thread))\b", call.group(1)):
                    for acc in member_accesses(arg, vt, name)[:-1]:
                        sites.append((name,) + acc + (tuple(sorted(held)),))
                text = st[:call.start()] + st[call.end():]
            for acc in statement_accesses(text, vt, name):
                sites.append((name,) + acc + (tuple(sorted(held)),))
        if held:
            raise ExtractError("%s ends with %r held: critical sections are not linear in the source" % (name, held))
    # dedupe, keep order
    seen = set(); out = []
    for s in sites:
        if s not in seen:
            seen.add(s); out.append(s)
    return out


def member_accesses(chain, vt, fn):
    """a->b->c  =>  [(type(a),'b',False), (type(a->b),'c',False)]  (reads along the path)"""
    parts = chain.split("->")
    out = []
    ty = vt.get(parts[0])
    for f in parts[1:]:
        if ty is None:
            if STRICT:
                raise ExtractError("%s: cannot type %r" % (fn, chain))
            return out
        out.append((ty, f, False))
        ty = FIELD_TYPES.get((ty, f))
    return out


def statement_accesses(st, vt, fn):
    out = []
    for m in re.finditer(r"(?:(?<![&*\w])([*&]))?\s*\b(\w+(?:->\w+)+)", st):
        deref, addr, chain = (m.group(1) == "*"), (m.group(1) == "&"), m.group(2)
        base = chain.split("->")[0]
        if base not in vt:
            continue
        acc = member_accesses(chain, vt, fn)
        rest = re.sub(r"^(\s*\.\w+|\s*\[[^\]]*\])*", "", st[m.end():]).lstrip()     # x->f.g = …, x->f[i] = … write (into) f
        before = st[:m.start()].rstrip()
        is_write = bool(re.match(r"(=(?!=)|\+\+|--|\+=|-=|\*=)", rest)) or before.endswith("++") or before.endswith("--")
        rmw = bool(re.match(r"(\+\+|--|\+=|-=|\*=)", rest))
        last = acc[-1]
        if last[1] in SYNC_FIELDS:
            out += acc[:-1]; continue
        if addr:
            out += acc[:-1]            # &x->f: the address, not the value
            continue
        if deref:
            # *x->f (= ...): x->f is read, the location it points to is read or written
            out += acc
            out.append((last[0], "*" + last[1], is_write))
            continue
        out += acc[:-1]
        if is_write:
            if rmw:
                out.append((last[0], last[1], False))
            out.append((last[0], last[1], True))
        else:
            out.append(last)
    return out


def lean_text(sites, reader_sites=()):
    L = ["/- GENERATED by translators/gen.py from mtbl/threadpool.c, mtbl/reader.c, mtbl/block.c — do not edit.",
         "   accessSites: every access to a field of struct thread / resultq / threadpool / result_handler, with the mutexes held.",
         "   readerWrites: every WRITE to a field of struct mtbl_reader / reader_iter / block / block_iter in reader.c and block.c. -/",
         "namespace Mtbl.Generated", "",
         "structure Site where", "  fn : String", "  obj : String", "  field : String", "  write : Bool", "  locks : List String",
         "deriving DecidableEq, Repr", "",
         "def accessSites : List Site := ["]
    rows = []
    for fn, obj, field, w, locks in sites:
        rows.append('  ⟨"%s", "%s", "%s", %s, [%s]⟩' % (fn, obj, field, "true" if w else "false", ", ".join('"%s"' % l for l in locks)))
    L.append(",\n".join(rows))
    L += ["]", "", "def readerWrites : List Site := ["]
    rows = []
    for fn, obj, field, w, locks in reader_sites:
        if w:
            rows.append('  ⟨"%s", "%s", "%s", true, []⟩' % (fn, obj, field))
    L.append(",\n".join(rows))
    L += ["]", "", "end Mtbl.Generated", ""]
    return "\n".join(L)


def extract_reader(reader_src, block_src):
    global STRICT
    saved = (STRUCTS, FIELD_TYPES, LOCKNAME, SYNC_FIELDS)
    configure(*READER_CFG)
    STRICT = False
    try:
        return extract(reader_src) + extract(block_src)
    finally:
        STRICT = True
        configure(*saved)


if __name__ == "__main__":
    import sys
    s = extract(open(sys.argv[1] if len(sys.argv) > 1 else "/repo/mtbl/threadpool.c").read())
    for x in s:
        print(x)
    print(len(s))
    r = extract_reader(open("/repo/mtbl/reader.c").read(), open("/repo/mtbl/block.c").read())
    for x in r:
        if x[3]:
            print(x)
