"""Extract, per function of mtbl/writer.c and mtbl/sorter.c, every access to a field of the writer / sorter object
(`w->f`, `(*w)->f`, `s->opt.g`, ...), in source order, with
  * write / read (assignment, compound assignment, ++/--, or address taken = conservatively a write),
  * the pool context: "pool" inside the then-branch of `if (x->pool != NULL)`, "nopool" inside its else-branch, "" elsewhere,
  * a marker site `<join>` where result_handler_destroy() is called and `<call:F>` where another function of the file
    is called with the object (so that "after the join" can be checked in source order).
Also: every assignment to the CRC function pointer `my_crc32c` in libmy/*.c and mtbl/*.c.
Lexical (comments stripped, statements split at ; { }), like access_sites.py."""
import re
from access_sites import strip_comments, ExtractError


def functions(src):
    """(name, params, body) of every top-level function definition; the name may be preceded by its return type on the
    same line (`static void f(...) {`); bodies are indented, so only column-0 text can start a definition"""
    out = []
    for m in re.finditer(r"^(?:[A-Za-z_][\w \t\*]*?[ \t\*])?(\w+)[ \t]*\(([^;{}]*?)\)\s*\{", src, re.M):
        name = m.group(1)
        if name in ("if", "while", "for", "switch"):
            continue
        i = m.end(); depth = 1
        while i < len(src) and depth:
            depth += src[i] == "{"; depth -= src[i] == "}"; i += 1
        out.append((name, m.group(2), src[m.end():i - 1]))
    return out

CFG = {
    "writer": {"file": "mtbl/writer.c", "struct": "mtbl_writer", "min_sites": 40},
    "sorter": {"file": "mtbl/sorter.c", "struct": "mtbl_sorter", "min_sites": 25},
}


def obj_vars(params, body, struct):
    """names of variables of type `struct S *` (v) and `struct S **` (v, used as (*v))"""
    single, double = set(), set()
    for m in re.finditer(r"struct\s+%s\s*\*\s*(\*?)\s*(\w+)" % struct, params + ";" + body):
        (double if m.group(1) else single).add(m.group(2))
    return single, double


def branch_ctx(body):
    """map character offset -> pool context, from `if (x->pool != NULL) {...} else {...}`"""
    ctx = [""] * (len(body) + 1)
    for m in re.finditer(r"if\s*\(\s*[\w>()*-]+->pool\s*(!=|==)\s*NULL\s*\)\s*\{", body):
        pos = m.group(1) == "!="
        i = m.end(); depth = 1
        while i < len(body) and depth:
            depth += body[i] == "{"; depth -= body[i] == "}"; i += 1
        for k in range(m.end(), i):
            ctx[k] = "pool" if pos else "nopool"
        e = re.match(r"\s*else\s*\{", body[i:])
        if e:
            j = i + e.end(); depth = 1
            while j < len(body) and depth:
                depth += body[j] == "{"; depth -= body[j] == "}"; j += 1
            for k in range(i + e.end(), j):
                ctx[k] = "nopool" if pos else "pool"
    return ctx


def extract_file(src, struct):
    src = strip_comments(src)
    fns = functions(src)
    names = {f[0] for f in fns}
    sites = []
    for name, params, body in fns:
        single, double = obj_vars(params, body, struct)
        if not single and not double:
            continue
        b = body
        for v in double:
            b = re.sub(r"\(\s*\*\s*%s\s*\)\s*->" % v, v + "->", b)       # (*w)->f  ==>  w->f
        vars_ = single | double
        ctx = branch_ctx(b)
        events = []
        for m in re.finditer(r"(&\s*\(?\s*)?\b(\w+)->(\w+(?:\.\w+)*)", b):
            if m.group(2) not in vars_:
                continue
            field = m.group(3)
            rest = b[m.end():].lstrip()
            rest = re.sub(r"^\)+\s*", "", rest)
            before = b[:m.start()].rstrip()
            w = bool(re.match(r"(=(?!=)|\+\+|--|\+=|-=|\*=|\|=|&=)", rest)) or before.endswith("++") or before.endswith("--") \
                or bool(m.group(1))
            events.append((m.start(), (name, struct, field, w, ctx[m.start()])))
        for m in re.finditer(r"\bresult_handler_destroy\s*\(", b):
            events.append((m.start() - 0.5, (name, "marker", "<join>", False, ctx[m.start()])))
        for m in re.finditer(r"\b(\w+)\s*\(", b):
            if m.group(1) in names and m.group(1) != name:
                events.append((m.start() - 0.5, (name, "marker", "<call:%s>" % m.group(1), False, ctx[m.start()])))
        events.sort(key=lambda e: e[0])
        sites += [e[1] for e in events]
    return sites


def crc_pointer_sites(files):
    """(file, function, value) for every assignment to my_crc32c; ('<init>') for the static initialiser; plus whether the
    detection function carries the constructor attribute"""
    out = []
    ctor = False
    for rel, src in files:
        src = strip_comments(src)
        if re.search(r"__attribute__\s*\(\(\s*constructor\s*\)\)\s*(#endif\s*)?static\s+void\s+my_crc32c_runtime_detection", src):
            ctor = True
        src = re.sub(r"__attribute__\s*\(\(.*?\)\)", "", src)
        src = re.sub(r"^[ \t]*#.*$", "", src, flags=re.M)
        m = re.search(r"^my_crc32c_fp\s+my_crc32c\s*=\s*(\w+)\s*;", src, re.M)
        if m:
            out.append((rel, "<init>", m.group(1)))
        for name, params, body in functions(src):
            for a in re.finditer(r"(?<![\w.>])my_crc32c\s*=(?!=)\s*(\w+)", body):
                out.append((rel, name, a.group(1)))
    return out, ctor


def signal_sites(src):
    """(function, owner of the condition variable: pool / rq / thr, enclosing if/else/while headers) for every
    pthread_cond_signal(&x->c) of threadpool.c, in source order"""
    import access_sites as A
    src = strip_comments(src)
    out = []
    signal_sites.locks = []        # (function, owner of the condition variable, mutexes held at the call — in text order)
    for name, params, body in A.functions(src):
        vt = A.var_types(params, body)
        stack = []; i = 0; last = 0; held = []
        while i < len(body):
            ch = body[i]
            if ch == "{":
                stack.append(body[last:i].strip()); last = i + 1
            elif ch == "}":
                if stack:
                    stack.pop()
                last = i + 1
            elif ch == ";":
                st = body[last:i + 1]
                for lm in re.finditer(r"pthread_mutex_(lock|unlock)\s*\(\s*&\s*([\w>-]+?)->m\s*\)", st):
                    lty = A.type_of(lm.group(2), vt)
                    if lty is None:
                        raise ExtractError("%s: cannot type the owner of the mutex %r" % (name, lm.group(2)))
                    ln = A.LOCKNAME.get(lty, str(lty))
                    if lm.group(1) == "lock":
                        held.append(ln)
                    elif ln in held:
                        held.remove(ln)
                m = re.search(r"pthread_cond_signal\s*\(\s*&\s*([\w>-]+?)->c\s*\)", st)
                if m:
                    ty = A.type_of(m.group(1), vt)
                    if ty is None:
                        raise ExtractError("%s: cannot type the owner of the condition variable %r" % (name, m.group(1)))
                    signal_sites.locks.append((name, A.LOCKNAME.get(ty, str(ty)), list(held)))
                    pre = st[:m.start()].strip()
                    guards = [re.sub(r"\s+", " ", h) for h in stack if re.match(r"(if|else|while|for)\b", h)]
                    if re.match(r"(if|else|while)\b", pre):
                        guards.append(re.sub(r"\s+", " ", pre))
                    out.append((name, A.LOCKNAME.get(ty, str(ty)), " && ".join(guards).replace('"', "'")))
                last = i + 1
            i += 1
    return out


def lean_text(wsites, ssites, crc, ctor, signals=()):
    L = ["/- GENERATED by translators/gen.py from mtbl/writer.c, mtbl/sorter.c, libmy/crc32c*.c, mtbl/*.c — do not edit.",
         "   writerSites / sorterSites: every access to a field of struct mtbl_writer / mtbl_sorter, in source order per function;",
         "   `locks` holds the pool context (\"pool\" / \"nopool\") of the enclosing `if (x->pool != NULL)` branch;",
         "   sites with obj = \"marker\": field `<join>` marks a call of result_handler_destroy, `<call:F>` a call of another function of the file.",
         "   crcPointerWrites: (file, function, value) of every assignment to the function pointer my_crc32c. -/",
         "import MtblModel.Generated.AccessSites",
         "namespace Mtbl.Generated", ""]
    for nm, sites in (("writerSites", wsites), ("sorterSites", ssites)):
        L.append("def %s : List Site := [" % nm)
        L.append(",\n".join('  ⟨"%s", "%s", "%s", %s, [%s]⟩' % (fn, obj, f, "true" if w else "false", ('"%s"' % c) if c else "")
                            for fn, obj, f, w, c in sites))
        L += ["]", ""]
    L.append("def crcPointerWrites : List (String × String × String) := [" +
             ", ".join('("%s", "%s", "%s")' % x for x in crc) + "]")
    L.append("def crcDetectionIsConstructor : Bool := %s" % ("true" if ctor else "false"))
    L.append("/-- every pthread_cond_signal of threadpool.c: (function, whose condition variable, enclosing if/else/while headers) -/")
    L.append("def signalSites : List (String × String × String) := [" + ", ".join('("%s", "%s", "%s")' % x for x in signals) + "]")
    L.append("/-- the mutexes held (lock/unlock calls of the function in text order) at each of those pthread_cond_signal calls -/")
    L.append("def signalLocks : List (String × String × List String) := [" +
             ", ".join('("%s", "%s", [%s])' % (f, o, ", ".join('"%s"' % h for h in hs)) for f, o, hs in getattr(signal_sites, "locks", [])) + "]")
    L += ["", "end Mtbl.Generated", ""]
    return "\n".join(L)


if __name__ == "__main__":
    import glob, os
    for k, c in CFG.items():
        s = extract_file(open("/repo/" + c["file"]).read(), c["struct"])
        for x in s:
            print(x)
        print(k, len(s))
    files = [(os.path.relpath(p, "/repo"), open(p).read()) for p in sorted(glob.glob("/repo/libmy/crc32c*.c") + glob.glob("/repo/mtbl/*.c"))]
    print(crc_pointer_sites(files))
