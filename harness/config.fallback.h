/* config.h.  Generated from config.h.in by configure.  */
/* config.h.in.  Generated from configure.ac by autoheader.  */

/* Define if building universal (internal helper macro) */
/* #undef AC_APPLE_UNIVERSAL_BUILD */

/* Define to 1 if you have the `clock_gettime' function. */
#define HAVE_CLOCK_GETTIME 1

/* Define to 1 if you have the <dlfcn.h> header file. */
#define HAVE_DLFCN_H 1

/* Define to 1 if you have the <endian.h> header file. */
#define HAVE_ENDIAN_H 1

/* Define to 1 if you have the <inttypes.h> header file. */
#define HAVE_INTTYPES_H 1

/* Define to 1 if you have the `snappy' library (-lsnappy). */
#define HAVE_LIBSNAPPY 1

/* Define to 1 if you have the `z' library (-lz). */
#define HAVE_LIBZ 1

/* Define to 1 if you have the `madvise' function. */
#define HAVE_MADVISE 1

/* Define to 1 if you have the <minix/config.h> header file. */
/* #undef HAVE_MINIX_CONFIG_H */

/* Define to 1 if you have the `posix_madvise' function. */
#define HAVE_POSIX_MADVISE 1

/* Have PTHREAD_PRIO_INHERIT. */
#define HAVE_PTHREAD_PRIO_INHERIT 1

/* Define to 1 if you have the <stdint.h> header file. */
#define HAVE_STDINT_H 1

/* Define to 1 if you have the <stdio.h> header file. */
#define HAVE_STDIO_H 1

/* Define to 1 if you have the <stdlib.h> header file. */
#define HAVE_STDLIB_H 1

/* Define to 1 if you have the <strings.h> header file. */
#define HAVE_STRINGS_H 1

/* Define to 1 if you have the <string.h> header file. */
#define HAVE_STRING_H 1

/* Define to 1 if you have the <sys/endian.h> header file. */
/* #undef HAVE_SYS_ENDIAN_H */

/* Define to 1 if you have the <sys/stat.h> header file. */
#define HAVE_SYS_STAT_H 1

/* Define to 1 if you have the <sys/types.h> header file. */
#define HAVE_SYS_TYPES_H 1

/* Define to 1 if you have the <unistd.h> header file. */
#define HAVE_UNISTD_H 1

/* Define to 1 if you have the <wchar.h> header file. */
#define HAVE_WCHAR_H 1

/* Define to the sub-directory where libtool stores uninstalled libraries. */
#define LT_OBJDIR ".libs/"

/* Name of package */
#define PACKAGE "mtbl"

/* Define to the address where bug reports for this package should be sent. */
#define PACKAGE_BUGREPORT "https://github.com/farsightsec/mtbl/issues"

/* Define to the full name of this package. */
#define PACKAGE_NAME "mtbl"

/* Define to the full name and version of this package. */
#define PACKAGE_STRING "mtbl 1.7.1"

/* Define to the one symbol short name of this package. */
#define PACKAGE_TARNAME "mtbl"

/* Define to the home page for this package. */
#define PACKAGE_URL "https://github.com/farsightsec/mtbl"

/* Define to the version of this package. */
#define PACKAGE_VERSION "1.7.1"

/* Define to necessary symbol if this constant uses a non-standard name on
   your system. */
/* #undef PTHREAD_CREATE_JOINABLE */

/* Define to 1 if all of the C90 standard headers exist (not just the ones
   required in a freestanding environment). This macro is provided for
   backward compatibility; new code need not use it. */
#define STDC_HEADERS 1

/* Enable extensions on AIX 3, Interix.  */
#ifndef _ALL_SOURCE
# define _ALL_SOURCE 1
#endif
/* Enable general extensions on macOS.  */
#ifndef _DARWIN_C_SOURCE
# define _DARWIN_C_SOURCE 1
#endif
/* Enable general extensions on Solaris.  */
#ifndef __EXTENSIONS__
# define __EXTENSIONS__ 1
#endif
/* Enable GNU extensions on systems that have them.  */
#ifndef _GNU_SOURCE
# define _GNU_SOURCE 1
#endif
/* Enable X/Open compliant socket functions that do not require linking
   with -lxnet on HP-UX 11.11.  */
#ifndef _HPUX_ALT_XOPEN_SOCKET_API
# define _HPUX_ALT_XOPEN_SOCKET_API 1
#endif
/* Identify the host operating system as Minix.
   This macro does not affect the system headers' behavior.
   A future release of Autoconf may stop defining this macro.  */
#ifndef _MINIX
/* # undef _MINIX */
#endif
/* Enable general extensions on NetBSD.
   Enable NetBSD compatibility extensions on Minix.  */
#ifndef _NETBSD_SOURCE
# define _NETBSD_SOURCE 1
#endif
/* Enable OpenBSD compatibility extensions on NetBSD.
   Oddly enough, this does nothing on OpenBSD.  */
#ifndef _OPENBSD_SOURCE
# define _OPENBSD_SOURCE 1
#endif
/* Define to 1 if needed for POSIX-compatible behavior.  */
#ifndef _POSIX_SOURCE
/* # undef _POSIX_SOURCE */
#endif
/* Define to 2 if needed for POSIX-compatible behavior.  */
#ifndef _POSIX_1_SOURCE
/* # undef _POSIX_1_SOURCE */
#endif
/* Enable POSIX-compatible threading on Solaris.  */
#ifndef _POSIX_PTHREAD_SEMANTICS
# define _POSIX_PTHREAD_SEMANTICS 1
#endif
/* Enable extensions specified by ISO/IEC TS 18661-5:2014.  */
#ifndef __STDC_WANT_IEC_60559_ATTRIBS_EXT__
# define __STDC_WANT_IEC_60559_ATTRIBS_EXT__ 1
#endif
/* Enable extensions specified by ISO/IEC TS 18661-1:2014.  */
#ifndef __STDC_WANT_IEC_60559_BFP_EXT__
# define __STDC_WANT_IEC_60559_BFP_EXT__ 1
#endif
/* Enable extensions specified by ISO/IEC TS 18661-2:2015.  */
#ifndef __STDC_WANT_IEC_60559_DFP_EXT__
# define __STDC_WANT_IEC_60559_DFP_EXT__ 1
#endif
/* Enable extensions specified by ISO/IEC TS 18661-4:2015.  */
#ifndef __STDC_WANT_IEC_60559_FUNCS_EXT__
# define __STDC_WANT_IEC_60559_FUNCS_EXT__ 1
#endif
/* Enable extensions specified by ISO/IEC TS 18661-3:2015.  */
#ifndef __STDC_WANT_IEC_60559_TYPES_EXT__
# define __STDC_WANT_IEC_60559_TYPES_EXT__ 1
#endif
/* Enable extensions specified by ISO/IEC TR 24731-2:2010.  */
#ifndef __STDC_WANT_LIB_EXT2__
# define __STDC_WANT_LIB_EXT2__ 1
#endif
/* Enable extensions specified by ISO/IEC 24747:2009.  */
#ifndef __STDC_WANT_MATH_SPEC_FUNCS__
# define __STDC_WANT_MATH_SPEC_FUNCS__ 1
#endif
/* Enable extensions on HP NonStop.  */
#ifndef _TANDEM_SOURCE
# define _TANDEM_SOURCE 1
#endif
/* Enable X/Open extensions.  Define to 500 only if necessary
   to make mbstate_t available.  */
#ifndef _XOPEN_SOURCE
/* # undef _XOPEN_SOURCE */
#endif


/* Version number of package */
#define VERSION "1.7.1"

/* Define WORDS_BIGENDIAN to 1 if your processor stores words with the most
   significant byte first (like Motorola and SPARC, unlike Intel). */
#if defined AC_APPLE_UNIVERSAL_BUILD
# if defined __BIG_ENDIAN__
#  define WORDS_BIGENDIAN 1
# endif
#else
# ifndef WORDS_BIGENDIAN
/* #  undef WORDS_BIGENDIAN */
# endif
#endif

/* Number of bits in a file offset, on hosts where this is settable. */
/* #undef _FILE_OFFSET_BITS */

/* Define for large files, on AIX-style hosts. */
/* #undef _LARGE_FILES */
