/* fileset histories: the harness owns the directory, the setfile (mtime bumped on every rewrite) and the clock */
#define _GNU_SOURCE
#include <fcntl.h>
#include <stdbool.h>
#include <stdio.h>
#include <stdlib.h>
#include <string.h>
#include <sys/stat.h>
#include <time.h>
#include <unistd.h>
#include "mtbl.h"
#include "shims/shims.h"
#include "exec.h"

struct mstate { int mode; uint8_t *failkey; size_t lfk; long calls; };
extern void vf_merge_union(void *, const uint8_t *, size_t, const uint8_t *, size_t, const uint8_t *, size_t, uint8_t **, size_t *);
extern int iter_next_op(struct obj *o);
extern int iter_seek_op(struct obj *o, const char *khex);
extern struct mtbl_iter *vf_make_iter(const struct mtbl_source *src, char **a, int n);
extern void destroy_obj(struct obj *o);

#define MAXTAB 64
static struct { int n; uint8_t *k[64], *v[64]; size_t kl[64], vl[64]; } tabs[MAXTAB];
static char fsdir[300], fsdir2[310], setfile[340];
/* "@name" = a file in a second directory, outside the setfile's own: always listed by absolute path */
static void fs_path(char *b, size_t n, const char *name)
{
	if (name[0] == '@') snprintf(b, n, "%s/%s", fsdir2, name + 1);
	else snprintf(b, n, "%s/%s", fsdir, name[0] == '/' ? name + 1 : name);
}
static long set_version;
static struct mstate fs_mstate;

struct faux { char namef[64]; long minent; };

static bool name_filter(const char *fname, void *clos)
{
	struct faux *a = clos;
	const char *b = strrchr(fname, '/'); b = b ? b + 1 : fname;
	return strstr(b, a->namef) != NULL;
}
static bool reader_filter(struct mtbl_reader *r, void *clos)
{
	struct faux *a = clos;
	return (long)mtbl_metadata_count_entries(mtbl_reader_metadata(r)) >= a->minent;
}

void destroy_fileset(struct obj *o)
{
	struct mtbl_fileset *f = o->p; if (f) mtbl_fileset_destroy(&f);
	free(o->aux);
}

static struct mtbl_fileset_options *mkopts(struct obj *o, char **kvs, int n)
{
	struct faux *a = calloc(1, sizeof *a); o->aux = a;
	struct mtbl_fileset_options *fo = mtbl_fileset_options_init();
	const char *iv = kv(kvs, n, "interval");
	mtbl_fileset_options_set_reload_interval(fo, iv && !strcmp(iv, "never") ? MTBL_FILESET_RELOAD_INTERVAL_NEVER : (uint32_t)kvnum(kvs, n, "interval", 60));
	mtbl_fileset_options_set_merge_func(fo, vf_merge_union, &fs_mstate);
	const char *nf = kv(kvs, n, "namef");
	if (nf && strcmp(nf, "-")) { snprintf(a->namef, sizeof a->namef, "%s", nf); mtbl_fileset_options_set_filename_filter_func(fo, name_filter, a); }
	long me = kvnum(kvs, n, "minent", -1);
	if (me >= 0) { a->minent = me; mtbl_fileset_options_set_reader_filter_func(fo, reader_filter, a); }
	return fo;
}

int ops_fileset(char **args, int na)
{
	const char *op = args[0];
	if (!strcmp(op, "fs.begin")) {
		snprintf(fsdir, sizeof fsdir, "%s/fs", vf_tmpdir); mkdir(fsdir, 0700);
		snprintf(fsdir2, sizeof fsdir2, "%s/other-dir", vf_tmpdir); mkdir(fsdir2, 0700);
		snprintf(setfile, sizeof setfile, "%s/set.fileset", fsdir);
		FILE *f = fopen(setfile, "w"); if (!f) return -1; fclose(f);
		set_version = 0;
		vf_clock_armed = 1; vf_clock_now.tv_sec = 1000; vf_clock_now.tv_nsec = 0;
		vf_min_block_size = 16;
		puts("ok"); return 0;
	}
	if (!strcmp(op, "fs.table") && na >= 2) {
		long t = strtol(args[1], NULL, 10); if (t < 0 || t >= MAXTAB) return -1;
		tabs[t].n = 0;
		for (int i = 2; i + 1 < na && tabs[t].n < 64; i += 2) {
			int j = tabs[t].n++;
			if (unhex(args[i], &tabs[t].k[j], &tabs[t].kl[j]) || unhex(args[i + 1], &tabs[t].v[j], &tabs[t].vl[j])) return -1;
		}
		puts("ok"); return 0;
	}
	if (!strcmp(op, "fs.file") && na == 3) {
		char path[700]; fs_path(path, sizeof path, args[1]);
		unlink(path);
		if (!strcmp(args[2], "nt")) {
			FILE *f = fopen(path, "w"); if (!f) return -1; fputs("this is not a table\n", f); fclose(f);
		} else {
			long t = strtol(args[2], NULL, 10); if (t < 0 || t >= MAXTAB) return -1;
			struct mtbl_writer_options *wo = mtbl_writer_options_init();
			mtbl_writer_options_set_compression(wo, MTBL_COMPRESSION_NONE);
			mtbl_writer_options_set_block_size(wo, 32);
			struct mtbl_writer *w = mtbl_writer_init(path, wo); mtbl_writer_options_destroy(&wo);
			if (!w) return -1;
			for (int j = 0; j < tabs[t].n; j++)
				if (mtbl_writer_add(w, tabs[t].k[j], tabs[t].kl[j], tabs[t].v[j], tabs[t].vl[j]) != mtbl_res_success) return -1;
			mtbl_writer_destroy(&w);
		}
		puts("ok"); return 0;
	}
	if (!strcmp(op, "fs.rm") && na == 2) {
		char path[700]; fs_path(path, sizeof path, args[1]); unlink(path); puts("ok"); return 0;
	}
	if (!strcmp(op, "fs.set")) {
		/* rewrite the setfile and make sure its (inode, mtime) identity changes, in every way an edit can change it:
		 * in place with a NEWER mtime, in place with an OLDER mtime (cp -p, rsync -t, a restore from backup), or replaced
		 * by rename (new inode) with the SAME mtime as before */
		static long last_mt = 1000000;
		int how = set_version % 4;              /* 0,1: newer; 2: older; 3: rename, same mtime */
		char tmp[800]; snprintf(tmp, sizeof tmp, "%s.new", setfile);
		FILE *f = fopen(how == 3 ? tmp : setfile, "w"); if (!f) return -1;
		/* every third version of the setfile ends WITHOUT a final newline (a text file's last line need not have one) */
		for (int i = 1; i < na; i++) {
			const char *nl = (i == na - 1 && set_version % 3 == 1) ? "" : "\n";
			if (args[i][0] == '/') fprintf(f, "%s%s%s", fsdir, args[i], nl);     /* "/name" = listed by absolute path */
			else if (args[i][0] == '@') fprintf(f, "%s/%s%s", fsdir2, args[i] + 1, nl);
			else fprintf(f, "%s%s", args[i], nl);
		}
		fclose(f);
		set_version++;
		long mt = how == 3 ? last_mt : how == 2 ? 900000 - set_version : 1000000 + set_version;
		struct timespec ts[2] = { { mt, 0 }, { mt, 0 } };
		utimensat(AT_FDCWD, how == 3 ? tmp : setfile, ts, 0);
		if (how == 3 && rename(tmp, setfile) != 0) return -1;
		last_mt = mt;
		puts("ok"); return 0;
	}
	if (!strcmp(op, "fs.tick") && na == 2) { vf_clock_now.tv_sec += strtol(args[1], NULL, 10); puts("ok"); return 0; }
	if (!strcmp(op, "fs.init") && na >= 2) {
		struct obj *o = newobj(args[1], K_FILESET); if (!o) return -1;
		struct mtbl_fileset_options *fo = mkopts(o, args + 2, na - 2);
		o->p = mtbl_fileset_init(setfile, fo);
		mtbl_fileset_options_destroy(&fo);
		puts(o->p ? "ok" : "null"); return 0;
	}
	if (!strcmp(op, "fs.dup") && na >= 3) {
		struct obj *src = getobj(args[1], K_FILESET); if (!src) return -1;
		struct obj *o = newobj(args[2], K_FILESET); if (!o) return -1;
		struct mtbl_fileset_options *fo = mkopts(o, args + 3, na - 3);
		o->p = mtbl_fileset_dup(src->p, fo);
		mtbl_fileset_options_destroy(&fo);
		puts("ok"); return 0;
	}
	if (!strcmp(op, "fs.reload") && na == 2) { struct obj *o = getobj(args[1], K_FILESET); if (!o) return -1; mtbl_fileset_reload(o->p); puts("ok"); return 0; }
	if (!strcmp(op, "fs.now") && na == 2) { struct obj *o = getobj(args[1], K_FILESET); if (!o) return -1; mtbl_fileset_reload_now(o->p); puts("ok"); return 0; }
	if (!strcmp(op, "fs.it") && na >= 4) {
		struct obj *f = getobj(args[1], K_FILESET); if (!f) return -1;
		struct obj *o = newobj(args[2], K_ITER); if (!o) return -1;
		o->p = vf_make_iter(mtbl_fileset_source(f->p), args + 3, na - 3);
		puts(o->p ? "ok" : "null"); return 0;
	}
	if (!strcmp(op, "fs.next") && na == 2) { struct obj *o = getobj(args[1], K_ITER); if (!o) return -1; return iter_next_op(o); }
	if (!strcmp(op, "fs.seek") && na == 3) { struct obj *o = getobj(args[1], K_ITER); if (!o) return -1; return iter_seek_op(o, args[2]); }
	if (!strcmp(op, "fs.close") && na == 2) { struct obj *o = getobj(args[1], K_ITER); if (!o) return -1; destroy_obj(o); puts("ok"); return 0; }
	if (!strcmp(op, "fs.destroy") && na == 2) { struct obj *o = getobj(args[1], K_FILESET); if (!o) return -1; destroy_fileset(o); o->kind = K_NONE; o->p = NULL; puts("ok"); return 0; }
	if (!strcmp(op, "fs.end")) { vf_clock_armed = 0; puts("ok"); return 0; }
	return -1;
}
