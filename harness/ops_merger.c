/* merger operations: sources are real tables (writer + reader) or a user-defined source that poisons the
 * buffers it handed out as soon as it is called again */
#define _GNU_SOURCE
#include <fcntl.h>
#include <stdbool.h>
#include <sys/wait.h>
#include <stdio.h>
#include <stdlib.h>
#include <string.h>
#include <unistd.h>
#include "mtbl.h"
#include "shims/shims.h"
#include "exec.h"

/* ---- merge / dupsort callbacks ---- */
struct mstate { int mode; uint8_t *failkey; size_t lfk; long calls; };   /* mode 0 = token-multiset union, 1 = additionally fail whenever called for key failkey, 2 = longest common prefix */

/* the closure handed to the dupsort callback must be the one configured for it (and not, say, the merge callback's) */
#define VF_DS_MAGIC 0x44535f4f4bull
struct dsclos { uint64_t magic; };
static struct dsclos vf_ds_clos = { VF_DS_MAGIC };
static int tokcmp(const void *a, const void *b) { return memcmp(a, b, 2); }
/* values are sequences of 2-byte tokens; merge = sorted multiset union (order-free, so any fold order gives the same bytes) */
void vf_merge_union(void *clos, const uint8_t *key, size_t lk, const uint8_t *v0, size_t l0, const uint8_t *v1, size_t l1,
		    uint8_t **out, size_t *lout)
{
	struct mstate *st = clos;
	if (st == (void *)&vf_ds_clos) { static int said; if (!said++) printf("#!merge callback called with the dupsort closure\n"); st = NULL; }
	if (st) {
		st->calls++;
		if (st->mode == 1 && lk == st->lfk && memcmp(key, st->failkey, lk) == 0) { *out = NULL; *lout = 0; return; }
	}
	if (st && st->mode == 2) {
		/* longest common prefix: commutative and associative, and the result is never longer than either operand */
		size_t l = 0; while (l < l0 && l < l1 && v0[l] == v1[l]) l++;
		uint8_t *b = malloc(l + 1); memcpy(b, v0, l); *out = b; *lout = l; return;
	}
	size_t n = l0 + l1;
	uint8_t *b = malloc(n + 2);
	memcpy(b, v0, l0); memcpy(b + l0, v1, l1);
	qsort(b, n / 2, 2, tokcmp);      /* an odd trailing byte (never generated) stays in place */
	*out = b; *lout = n;
}
int vf_dupsort(void *clos, const uint8_t *key, size_t lk, const uint8_t *v0, size_t l0, const uint8_t *v1, size_t l1)
{
	(void)key; (void)lk;
	if (clos != &vf_ds_clos) { static int said; if (!said++) printf("#!dupsort callback called with a closure that is not the one configured for it\n"); }
	size_t l = l0 < l1 ? l0 : l1; int r = memcmp(v0, v1, l);
	if (r) return r;
	return l0 < l1 ? -1 : l0 > l1 ? 1 : 0;
}

/* ---- user-defined source ---- */
struct uent { uint8_t *k, *v; size_t kl, vl; };
struct usrc { struct uent *es; int n; };
struct uiter { struct usrc *s; int pos; int kind; uint8_t *b0; size_t l0; uint8_t *b1; size_t l1; uint8_t *lastk, *lastv; size_t lkl, lvl; bool stuck; };

static int ucmp(const uint8_t *a, size_t la, const uint8_t *b, size_t lb)
{
	size_t l = la < lb ? la : lb; int r = memcmp(a, b, l);
	if (r) return r;
	return la < lb ? -1 : la > lb ? 1 : 0;
}
static void upoison(struct uiter *it)
{
	if (it->lastk) { memset(it->lastk, 0xDD, it->lkl); free(it->lastk); it->lastk = NULL; }
	if (it->lastv) { memset(it->lastv, 0xDD, it->lvl); free(it->lastv); it->lastv = NULL; }
}
static mtbl_res uiter_next(void *v, const uint8_t **k, size_t *kl, const uint8_t **val, size_t *vl)
{
	struct uiter *it = v;
	upoison(it);
	if (it->stuck || it->pos >= it->s->n) { it->stuck = true; return mtbl_res_failure; }
	struct uent *e = &it->s->es[it->pos];
	bool in = true;
	if (it->kind == 1) in = ucmp(e->k, e->kl, it->b0, it->l0) == 0;
	else if (it->kind == 2) in = e->kl >= it->l0 && memcmp(e->k, it->b0, it->l0) == 0;
	else if (it->kind == 3) in = ucmp(e->k, e->kl, it->b1, it->l1) <= 0;
	if (!in) { it->stuck = true; return mtbl_res_failure; }
	it->pos++;
	it->lastk = malloc(e->kl + 1); memcpy(it->lastk, e->k, e->kl); it->lkl = e->kl;
	it->lastv = malloc(e->vl + 1); memcpy(it->lastv, e->v, e->vl); it->lvl = e->vl;
	*k = it->lastk; *kl = e->kl; *val = it->lastv; *vl = e->vl;
	return mtbl_res_success;
}
static int ulb(struct usrc *s, const uint8_t *k, size_t kl)
{
	int i = 0; while (i < s->n && ucmp(s->es[i].k, s->es[i].kl, k, kl) < 0) i++; return i;
}
static mtbl_res uiter_seek(void *v, const uint8_t *k, size_t kl)
{
	struct uiter *it = v;
	upoison(it);
	it->pos = ulb(it->s, k, kl); it->stuck = false;
	return mtbl_res_success;
}
static void uiter_free(void *v)
{
	struct uiter *it = v; upoison(it); free(it->b0); free(it->b1); free(it);
}
static struct mtbl_iter *umk(struct usrc *s, int kind, const uint8_t *a, size_t la, const uint8_t *b, size_t lb)
{
	struct uiter *it = calloc(1, sizeof *it);
	it->s = s; it->kind = kind;
	it->b0 = malloc(la + 1); memcpy(it->b0, a, la); it->l0 = la;
	it->b1 = malloc(lb + 1); memcpy(it->b1, b, lb); it->l1 = lb;
	it->pos = kind == 0 ? 0 : ulb(s, a, la);
	return mtbl_iter_init(uiter_seek, uiter_next, uiter_free, it);
}
static struct mtbl_iter *u_iter(void *c) { return umk(c, 0, NULL, 0, NULL, 0); }
static struct mtbl_iter *u_get(void *c, const uint8_t *k, size_t l) { return umk(c, 1, k, l, k, l); }
static struct mtbl_iter *u_pfx(void *c, const uint8_t *k, size_t l) { return umk(c, 2, k, l, k, l); }
static struct mtbl_iter *u_range(void *c, const uint8_t *a, size_t la, const uint8_t *b, size_t lb) { return umk(c, 3, a, la, b, lb); }
static void u_free(void *c)
{
	struct usrc *s = c;
	for (int i = 0; i < s->n; i++) { free(s->es[i].k); free(s->es[i].v); }
	free(s->es); free(s);
}

/* ---- merger object ---- */
#define MAXSRC 16
struct maux {
	struct mtbl_merger_options *mo; struct mstate st;
	int nsrc; struct mtbl_reader *rd[MAXSRC]; struct mtbl_source *us[MAXSRC]; char path[MAXSRC][320];
};

void destroy_merger(struct obj *o)
{
	struct maux *a = o->aux;
	struct mtbl_merger *m = o->p; mtbl_merger_destroy(&m);
	for (int i = 0; i < a->nsrc; i++) {
		if (a->rd[i]) { mtbl_reader_destroy(&a->rd[i]); unlink(a->path[i]); }
		if (a->us[i]) mtbl_source_destroy(&a->us[i]);
	}
	mtbl_merger_options_destroy(&a->mo);
	free(a);
}

extern int iter_next_op(struct obj *o);
extern int iter_seek_op(struct obj *o, const char *khex);
extern struct mtbl_iter *vf_make_iter(const struct mtbl_source *src, char **a, int n);
extern void destroy_obj(struct obj *o);

int ops_merger(char **args, int na)
{
	const char *op = args[0];
	if (!strcmp(op, "m.new") && na >= 2) {
		struct obj *o = newobj(args[1], K_MERGER); if (!o) return -1;
		struct maux *a = calloc(1, sizeof *a); o->aux = a;
		a->mo = mtbl_merger_options_init();
		const char *mg = kv(args + 2, na - 2, "merge");
		if (mg && !strcmp(mg, "union")) { a->st.mode = 0; mtbl_merger_options_set_merge_func(a->mo, vf_merge_union, &a->st); }
		else if (mg && !strcmp(mg, "lcp")) { a->st.mode = 2; mtbl_merger_options_set_merge_func(a->mo, vf_merge_union, &a->st); }
		else if (mg && !strncmp(mg, "fail:", 5)) { a->st.mode = 1; if (unhex(mg + 5, &a->st.failkey, &a->st.lfk)) return -1; mtbl_merger_options_set_merge_func(a->mo, vf_merge_union, &a->st); }
		if (kvnum(args + 2, na - 2, "dupsort", 0)) mtbl_merger_options_set_dupsort_func(a->mo, vf_dupsort, &vf_ds_clos);
		o->p = mtbl_merger_init(a->mo);
		puts("ok"); return 0;
	}
	if (!strcmp(op, "m.src") && na >= 3) {
		/* m.src <mid> kind=t|u bs=<n> ri=<n> <khex> <vhex> ... */
		struct obj *o = getobj(args[1], K_MERGER); if (!o) return -1;
		struct maux *a = o->aux; if (a->nsrc >= MAXSRC) return -1;
		int i = 2; char **kvs = args + 2; int nkv = 0;
		while (i < na && strchr(args[i], '=')) { i++; nkv++; }
		const char *kind = kv(kvs, nkv, "kind"); if (!kind) kind = "t";
		int ne = (na - i) / 2; int s = a->nsrc;
		if (!strcmp(kind, "n")) {
			/* another merger object as a source (its own sources were added before) */
			struct obj *sub = getobj(kv(kvs, nkv, "sub") ? kv(kvs, nkv, "sub") : "-1", K_MERGER); if (!sub) return -1;
			mtbl_merger_add_source(o->p, mtbl_merger_source(sub->p));
		} else if (!strcmp(kind, "u")) {
			struct usrc *us = calloc(1, sizeof *us); us->n = ne; us->es = calloc(ne + 1, sizeof *us->es);
			for (int j = 0; j < ne; j++) {
				if (unhex(args[i + 2 * j], &us->es[j].k, &us->es[j].kl) || unhex(args[i + 2 * j + 1], &us->es[j].v, &us->es[j].vl)) return -1;
			}
			a->us[s] = mtbl_source_init(u_iter, u_get, u_pfx, u_range, u_free, us);
			mtbl_merger_add_source(o->p, a->us[s]);
		} else {
			struct mtbl_writer_options *wo = mtbl_writer_options_init();
			mtbl_writer_options_set_compression(wo, MTBL_COMPRESSION_NONE);
			vf_min_block_size = 16;
			mtbl_writer_options_set_block_size(wo, kvnum(kvs, nkv, "bs", 32));
			mtbl_writer_options_set_block_restart_interval(wo, kvnum(kvs, nkv, "ri", 2));
			snprintf(a->path[s], sizeof a->path[s], "%s/m%d_s%d.mtbl", vf_tmpdir, o->id, s);
			unlink(a->path[s]);
			struct mtbl_writer *w = mtbl_writer_init(a->path[s], wo);
			mtbl_writer_options_destroy(&wo);
			if (!w) return -1;
			for (int j = 0; j < ne; j++) {
				uint8_t *k, *v; size_t kl, vl;
				if (unhex(args[i + 2 * j], &k, &kl) || unhex(args[i + 2 * j + 1], &v, &vl)) return -1;
				if (mtbl_writer_add(w, k, kl, v, vl) != mtbl_res_success) { puts("unsorted-source"); return 0; }
				free(k); free(v);
			}
			mtbl_writer_destroy(&w);
			a->rd[s] = mtbl_reader_init(a->path[s], NULL);
			if (!a->rd[s]) return -1;
			mtbl_merger_add_source(o->p, mtbl_reader_source(a->rd[s]));
		}
		a->nsrc++;
		puts("ok"); return 0;
	}
	if (!strcmp(op, "m.write") && na >= 2) {
		/* mtbl_source_write(merger source, fresh writer); reply: ok|fail <bytes of the finished file> */
		struct obj *m = getobj(args[1], K_MERGER); if (!m) return -1;
		struct mtbl_writer_options *wo = mtbl_writer_options_init();
		mtbl_writer_options_set_compression(wo, MTBL_COMPRESSION_NONE);
		vf_min_block_size = 16;
		mtbl_writer_options_set_block_size(wo, kvnum(args + 2, na - 2, "bs", 32));
		mtbl_writer_options_set_block_restart_interval(wo, kvnum(args + 2, na - 2, "ri", 2));
		char path[320]; snprintf(path, sizeof path, "%s/m%d_out.mtbl", vf_tmpdir, m->id); unlink(path);
		struct mtbl_writer *w = mtbl_writer_init(path, wo);
		mtbl_writer_options_destroy(&wo);
		if (!w) return -1;
		mtbl_res r = mtbl_source_write(mtbl_merger_source(m->p), w);
		mtbl_writer_destroy(&w);
		size_t n = 0; uint8_t *f = read_file(path, &n); unlink(path);
		if (!f) return -1;
		printf("%s ", r == mtbl_res_success ? "ok" : "fail"); puthex(stdout, f, n); putchar('\n'); free(f);
		return 0;
	}
	if (!strcmp(op, "m.tool") && na >= 2) {
		/* src/mtbl_merge built from the tree, with the test merge DSO, over the table files of this merger's sources (the
		 * generator issues it only when every source is a table); reply: ents <k> <v> ... read back from the output file,
		 * or "tool exit=<n>" */
		struct obj *m = getobj(args[1], K_MERGER); if (!m) return -1;
		struct maux *a = m->aux;
		extern char vf_tooldir[];
		char outp[320]; snprintf(outp, sizeof outp, "%s/m%d_tool.mtbl", vf_tmpdir, m->id); unlink(outp);
		char cmd[8000]; int n = snprintf(cmd, sizeof cmd, "MTBL_MERGE_DSO='%s/merge_dso.so' MTBL_MERGE_FUNC_PREFIX=vfm LC_ALL=C '%s/mtbl_merge' -c %s -b %ld",
			vf_tooldir, vf_tooldir, kv(args + 2, na - 2, "c") ? kv(args + 2, na - 2, "c") : "none", kvnum(args + 2, na - 2, "b", 1024));
		long th = kvnum(args + 2, na - 2, "t", -1); if (th >= 0) n += snprintf(cmd + n, sizeof cmd - n, " -t %ld", th);
		int nt = 0;
		for (int i = 0; i < a->nsrc; i++) if (a->rd[i]) { n += snprintf(cmd + n, sizeof cmd - n, " '%s'", a->path[i]); nt++; }
		if (nt != a->nsrc || nt == 0) { puts("tool skipped"); return 0; }
		snprintf(cmd + n, sizeof cmd - n, " '%s' >/dev/null 2>&1", outp);
		fflush(stdout);
		int st = system(cmd);
		if (!WIFEXITED(st) || WEXITSTATUS(st) != 0) { printf("tool exit=%d\n", WIFEXITED(st) ? WEXITSTATUS(st) : -WTERMSIG(st)); unlink(outp); return 0; }
		struct mtbl_reader *r = mtbl_reader_init(outp, NULL);
		if (!r) { puts("tool output-does-not-open"); unlink(outp); return 0; }
		struct mtbl_iter *it = mtbl_source_iter(mtbl_reader_source(r));
		const uint8_t *k, *v; size_t kl, vl;
		printf("ents");
		while (mtbl_iter_next(it, &k, &kl, &v, &vl) == mtbl_res_success) { putchar(' '); puthex(stdout, k, kl); putchar(' '); puthex(stdout, v, vl); }
		putchar('\n');
		mtbl_iter_destroy(&it); mtbl_reader_destroy(&r); unlink(outp);
		return 0;
	}
	if (!strcmp(op, "m.it") && na >= 4) {
		struct obj *m = getobj(args[1], K_MERGER); if (!m) return -1;
		struct obj *o = newobj(args[2], K_ITER); if (!o) return -1;
		o->p = vf_make_iter(mtbl_merger_source(m->p), args + 3, na - 3);
		puts(o->p ? "ok" : "null"); return 0;
	}
	if (!strcmp(op, "m.next") && na == 2) { struct obj *o = getobj(args[1], K_ITER); if (!o) return -1; return iter_next_op(o); }
	if (!strcmp(op, "m.seek") && na == 3) { struct obj *o = getobj(args[1], K_ITER); if (!o) return -1; return iter_seek_op(o, args[2]); }
	if (!strcmp(op, "m.close") && na == 2) { struct obj *o = getobj(args[1], K_ITER); if (!o) return -1; destroy_obj(o); puts("ok"); return 0; }
	if (!strcmp(op, "m.calls") && na == 2) { struct obj *o = getobj(args[1], K_MERGER); if (!o) return -1; printf("calls %ld\n", ((struct maux *)o->aux)->st.calls); return 0; }
	return -1;
}
