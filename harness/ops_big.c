/* rv.big4g: a well-formed v2 table, written by an independent encoder in this file, whose first data block has an entry
 * region of more than 4 GiB (two values of 2 GiB of zeros, left as holes in a sparse file), hence a 64-bit restart array
 * with restart offsets above 2^32; read back through the public API (iteration, get, get_prefix, get_range, seeks).
 * reply: "big ok checks=<n>" | "big wrong=<k> first=<what>" | "big skipped <why>"
 * The encoder is independent of the library: own varints, own CRC-32C (byte table for the literal parts, GF(2) matrix
 * powers for the zero runs), own trailer layout. */
#define _GNU_SOURCE
#include <fcntl.h>
#include <stdbool.h>
#include <stdint.h>
#include <stdio.h>
#include <stdlib.h>
#include <string.h>
#include <sys/stat.h>
#include <unistd.h>
#include "mtbl.h"
#include "shims/shims.h"
#include "exec.h"

/* ---- CRC-32C, reflected, register level (init ~0, final ~) ---- */
static uint32_t ctab[256];
static void ctab_init(void)
{
	for (uint32_t i = 0; i < 256; i++) { uint32_t c = i; for (int k = 0; k < 8; k++) c = (c & 1) ? (c >> 1) ^ 0x82F63B78u : c >> 1; ctab[i] = c; }
}
static uint32_t creg_bytes(uint32_t reg, const uint8_t *p, size_t n) { while (n--) reg = ctab[(reg ^ *p++) & 0xff] ^ (reg >> 8); return reg; }
static uint32_t gf2_times(const uint32_t *mat, uint32_t vec) { uint32_t s = 0; while (vec) { if (vec & 1) s ^= *mat; vec >>= 1; mat++; } return s; }
static void gf2_square(uint32_t *sq, const uint32_t *mat) { for (int n = 0; n < 32; n++) sq[n] = gf2_times(mat, mat[n]); }
/* register after n zero bytes */
static uint32_t creg_zeros(uint32_t reg, uint64_t n)
{
	uint32_t odd[32], even[32];
	/* operator for one zero BIT */
	odd[0] = 0x82F63B78u; for (int i = 1; i < 32; i++) odd[i] = 1u << (i - 1);
	gf2_square(even, odd);   /* 2 bits */
	gf2_square(odd, even);   /* 4 bits */
	/* now square to 8 bits = one byte, then apply by binary expansion of n */
	do {
		gf2_square(even, odd);                 /* even = 1 byte, 4 bytes, ... */
		if (n & 1) reg = gf2_times(even, reg);
		n >>= 1;
		if (!n) break;
		gf2_square(odd, even);
		if (n & 1) reg = gf2_times(odd, reg);
		n >>= 1;
	} while (n);
	return reg;
}

/* ---- sparse writer with a running CRC register ---- */
struct out { int fd; uint64_t off; uint32_t reg; };
static void o_bytes(struct out *o, const void *p, size_t n)
{
	if (pwrite(o->fd, p, n, (off_t)o->off) != (ssize_t)n) abort();
	o->reg = creg_bytes(o->reg, p, n); o->off += n;
}
static void o_hole(struct out *o, uint64_t n) { o->reg = creg_zeros(o->reg, n); o->off += n; }
static size_t vput(uint8_t *b, uint64_t v) { size_t n = 0; while (v >= 128) { b[n++] = (uint8_t)(v | 128); v >>= 7; } b[n++] = (uint8_t)v; return n; }
static void o_varint(struct out *o, uint64_t v) { uint8_t b[10]; o_bytes(o, b, vput(b, v)); }
static void o_le(struct out *o, uint64_t v, int w) { uint8_t b[8]; for (int i = 0; i < w; i++) b[i] = (uint8_t)(v >> (8 * i)); o_bytes(o, b, (size_t)w); }

#define NA 42
#define NB 10
#define HUGE ((uint64_t)1 << 31)
struct ent { char key[8]; uint64_t vlen; char val[12]; };
static struct ent E[NA + NB];

static int is_restart_a(int i) { static const int r[] = { 0, 5, 9, 10, 11, 20, 29, 30, 31, 36, 40 }; for (unsigned k = 0; k < sizeof r / sizeof *r; k++) if (r[k] == i) return 1; return 0; }

/* entries region of a block: returns its length; restart offsets collected */
static uint64_t put_entries(struct out *o, int first, int n, int (*is_restart)(int), uint64_t *rs, int *nrs)
{
	uint64_t start = o->off; const char *prev = "";
	*nrs = 0;
	for (int i = 0; i < n; i++) {
		struct ent *e = &E[first + i];
		size_t kl = strlen(e->key), sh = 0;
		if (is_restart(i)) rs[(*nrs)++] = o->off - start;
		else while (sh < kl && sh < strlen(prev) && prev[sh] == e->key[sh]) sh++;
		o_varint(o, sh); o_varint(o, kl - sh); o_varint(o, e->vlen);
		o_bytes(o, e->key + sh, kl - sh);
		if (e->vlen == HUGE) o_hole(o, HUGE); else o_bytes(o, e->val, e->vlen);
		prev = e->key;
	}
	return o->off - start;
}
static int every4(int i) { return i % 4 == 0; }
static int only0(int i) { return i == 0; }

static int nwrong; static char firstwrong[200]; static long nchecks;
static void check(int ok, const char *fmt, const char *a, const char *b)
{
	nchecks++;
	if (!ok) { if (!nwrong) snprintf(firstwrong, sizeof firstwrong, fmt, a, b); nwrong++; }
}
static const char *got(mtbl_res r, const uint8_t *k, size_t kl, char *buf) { if (r != mtbl_res_success) return "(end)"; snprintf(buf, 16, "%.*s", (int)(kl < 15 ? kl : 15), (const char *)k); return buf; }

int ops_big(char **args, int na)
{
	if (strcmp(args[0], "rv.big4g")) return -1;
	int verify = na > 1 ? atoi(args[1]) : 0;
	ctab_init();
	for (int i = 0; i < NA; i++) { snprintf(E[i].key, 8, "k%03d", i); snprintf(E[i].val, 12, "val-%03d", i); E[i].vlen = strlen(E[i].val); }
	E[10].vlen = HUGE; E[30].vlen = HUGE;
	for (int i = 0; i < NB; i++) { snprintf(E[NA + i].key, 8, "m%03d", i); snprintf(E[NA + i].val, 12, "w%02d", i); E[NA + i].vlen = strlen(E[NA + i].val); }
	char path[320]; snprintf(path, sizeof path, "%s/big4g.mtbl", vf_tmpdir); unlink(path);
	int fd = open(path, O_RDWR | O_CREAT | O_EXCL, 0600); if (fd < 0) { puts("big skipped cannot-create"); return 0; }
	struct out o = { fd, 0, 0 };
	const char pre[] = "foreign-13-by";   /* 13 leading foreign bytes */
	o_bytes(&o, pre, 13);
	/* --- data block A: frame = varint(len) crc32c payload; the payload is laid out first at its final place --- */
	uint64_t rs[64]; int nrs;
	/* region length is needed for the length prefix: compute it with a dry run */
	struct out dry = { open("/dev/null", O_WRONLY), 0, 0 };
	uint64_t regA = put_entries(&dry, 0, NA, is_restart_a, rs, &nrs); close(dry.fd);
	uint64_t lenA = regA + 8ull * (uint64_t)nrs + 4;                  /* 64-bit restart array: region > UINT32_MAX */
	uint64_t offA = o.off;
	uint8_t lp[10]; size_t lpn = vput(lp, lenA);
	struct out pa = { fd, offA + lpn + 4, 0xffffffffu };
	put_entries(&pa, 0, NA, is_restart_a, rs, &nrs);
	for (int i = 0; i < nrs; i++) o_le(&pa, rs[i], 8);
	o_le(&pa, (uint64_t)nrs, 4);
	uint32_t crcA = ~pa.reg;
	o.off = offA; o_bytes(&o, lp, lpn); o_le(&o, crcA, 4); o.off = pa.off;
	/* --- data block B (small, 32-bit restart array) --- */
	uint64_t offB = o.off;
	dry = (struct out){ open("/dev/null", O_WRONLY), 0, 0 };
	uint64_t regB = put_entries(&dry, NA, NB, every4, rs, &nrs); close(dry.fd);
	uint64_t lenB = regB + 4ull * (uint64_t)nrs + 4;
	lpn = vput(lp, lenB);
	struct out pb = { fd, offB + lpn + 4, 0xffffffffu };
	put_entries(&pb, NA, NB, every4, rs, &nrs);
	for (int i = 0; i < nrs; i++) o_le(&pb, rs[i], 4);
	o_le(&pb, (uint64_t)nrs, 4);
	o.off = offB; o_bytes(&o, lp, lpn); o_le(&o, ~pb.reg, 4); o.off = pb.off;
	/* --- index block: separator "l" -> offA, "n" -> offB (values are varint offsets) --- */
	uint64_t offI = o.off;
	uint8_t ib[128]; size_t il = 0; uint8_t vb[10]; size_t vn;
	vn = vput(vb, offA); ib[il++] = 0; ib[il++] = 1; ib[il++] = (uint8_t)vn; ib[il++] = 'l'; memcpy(ib + il, vb, vn); il += vn;
	vn = vput(vb, offB); ib[il++] = 0; ib[il++] = 1; ib[il++] = (uint8_t)vn; ib[il++] = 'n'; memcpy(ib + il, vb, vn); il += vn;
	memset(ib + il, 0, 4); il += 4;                       /* one restart at 0 */
	ib[il++] = 1; ib[il++] = 0; ib[il++] = 0; ib[il++] = 0;
	lpn = vput(lp, il); o_bytes(&o, lp, lpn); o_le(&o, ~creg_bytes(0xffffffffu, ib, il), 4); o_bytes(&o, ib, il);
	/* --- trailer: nine 64-bit little-endian fields, zero padding, magic in the last four bytes --- */
	uint64_t bk = 0, bv = 0; for (int i = 0; i < NA + NB; i++) { bk += strlen(E[i].key); bv += E[i].vlen; }
	uint64_t f[9] = { offI, 8192, 0, NA + NB, 2, offI - 13, o.off - offI, bk, bv };
	uint8_t t[512]; memset(t, 0, sizeof t);
	for (int i = 0; i < 9; i++) for (int b = 0; b < 8; b++) t[8 * i + b] = (uint8_t)(f[i] >> (8 * b));
	t[508] = 0x4C; t[509] = 0x42; t[510] = 0x54; t[511] = 0x4D;      /* MTBL_MAGIC 0x4D54424C as a little-endian 32-bit word */
	o_bytes(&o, t, 512);
	close(fd);
	struct stat sb; if (stat(path, &sb) == 0 && (uint64_t)sb.st_blocks * 512 > ((uint64_t)1 << 30)) { unlink(path); puts("big skipped no-sparse-files"); return 0; }

	/* ---- read it back ---- */
	nwrong = 0; nchecks = 0; firstwrong[0] = 0;
	struct mtbl_reader_options *ro = mtbl_reader_options_init();
	mtbl_reader_options_set_verify_checksums(ro, verify);
	struct mtbl_reader *r = mtbl_reader_init(path, ro); mtbl_reader_options_destroy(&ro);
	if (!r) { unlink(path); puts("big wrong=1 first=well-formed-file-does-not-open"); return 0; }
	const struct mtbl_source *src = mtbl_reader_source(r);
	const uint8_t *k, *v; size_t kl, vl; char gb[16];
	struct mtbl_iter *it = mtbl_source_iter(src);
	for (int i = 0; i < NA + NB; i++) {
		mtbl_res rr = mtbl_iter_next(it, &k, &kl, &v, &vl);
		check(rr == mtbl_res_success && kl == strlen(E[i].key) && !memcmp(k, E[i].key, kl) && vl == E[i].vlen && (vl == HUGE ? v[0] == 0 && v[vl - 1] == 0 : !memcmp(v, E[i].val, vl)),
		      "iteration: expected %s, got %s", E[i].key, got(rr, k, kl, gb));
	}
	check(mtbl_iter_next(it, &k, &kl, &v, &vl) != mtbl_res_success, "iteration: expected end%s, got %s", "", "an entry");
	/* seeks ascending then descending on the same iterator */
	for (int pass = 0; pass < 2; pass++)
		for (int j = 0; j < NA + NB; j++) {
			int i = pass ? NA + NB - 1 - j : j;
			mtbl_iter_seek(it, (const uint8_t *)E[i].key, strlen(E[i].key));
			mtbl_res rr = mtbl_iter_next(it, &k, &kl, &v, &vl);
			check(rr == mtbl_res_success && kl == strlen(E[i].key) && !memcmp(k, E[i].key, kl) && vl == E[i].vlen, "seek(%s) then next: got %s", E[i].key, got(rr, k, kl, gb));
		}
	mtbl_iter_destroy(&it);
	for (int i = 0; i < NA + NB; i++) {
		it = mtbl_source_get(src, (const uint8_t *)E[i].key, strlen(E[i].key));
		mtbl_res rr = it ? mtbl_iter_next(it, &k, &kl, &v, &vl) : mtbl_res_failure;
		check(rr == mtbl_res_success && kl == strlen(E[i].key) && !memcmp(k, E[i].key, kl) && vl == E[i].vlen, "get(%s): got %s", E[i].key, got(rr, k, kl, gb));
		if (it) { check(mtbl_iter_next(it, &k, &kl, &v, &vl) != mtbl_res_success, "get(%s): a second entry%s", E[i].key, ""); mtbl_iter_destroy(&it); }
	}
	const char *absent[] = { "k", "k0005", "k041x", "l", "j", "m0", "z" };
	for (unsigned a = 0; a < sizeof absent / sizeof *absent; a++) {
		it = mtbl_source_get(src, (const uint8_t *)absent[a], strlen(absent[a]));
		mtbl_res rr = it ? mtbl_iter_next(it, &k, &kl, &v, &vl) : mtbl_res_failure;
		check(rr != mtbl_res_success, "get(%s) of an absent key: got %s", absent[a], got(rr, k, kl, gb));
		if (it) mtbl_iter_destroy(&it);
	}
	/* prefix k01 -> k010..k019; range k005..k012 */
	it = mtbl_source_get_prefix(src, (const uint8_t *)"k01", 3);
	for (int i = 10; i < 20; i++) { mtbl_res rr = it ? mtbl_iter_next(it, &k, &kl, &v, &vl) : mtbl_res_failure; check(rr == mtbl_res_success && !memcmp(k, E[i].key, 4), "get_prefix(k01): expected %s, got %s", E[i].key, got(rr, k, kl, gb)); }
	check(!it || mtbl_iter_next(it, &k, &kl, &v, &vl) != mtbl_res_success, "get_prefix(k01): entry past k019%s%s", "", ""); if (it) mtbl_iter_destroy(&it);
	it = mtbl_source_get_range(src, (const uint8_t *)"k005", 4, (const uint8_t *)"k012", 4);
	for (int i = 5; i <= 12; i++) { mtbl_res rr = it ? mtbl_iter_next(it, &k, &kl, &v, &vl) : mtbl_res_failure; check(rr == mtbl_res_success && !memcmp(k, E[i].key, 4), "get_range(k005,k012): expected %s, got %s", E[i].key, got(rr, k, kl, gb)); }
	check(!it || mtbl_iter_next(it, &k, &kl, &v, &vl) != mtbl_res_success, "get_range(k005,k012): entry past k012%s%s", "", ""); if (it) mtbl_iter_destroy(&it);
	mtbl_reader_destroy(&r);
	unlink(path);
	if (nwrong) printf("big wrong=%d first=%s\n", nwrong, firstwrong); else printf("big ok checks=%ld\n", nchecks);
	return 0;
}
