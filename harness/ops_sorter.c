/* sorter operations (sorter.c is compiled through tu_sorter.c: run-time minimum memory, recording mkstemp) */
#define _GNU_SOURCE
#include <dirent.h>
#include <stdbool.h>
#include <stdio.h>
#include <stdlib.h>
#include <string.h>
#include <sys/stat.h>
#include <unistd.h>
#include "mtbl.h"
#include "shims/shims.h"
#include "exec.h"

struct mstate { int mode; uint8_t *failkey; size_t lfk; long calls; };
extern void vf_merge_union(void *, const uint8_t *, size_t, const uint8_t *, size_t, const uint8_t *, size_t, uint8_t **, size_t *);
extern int iter_next_op(struct obj *o);

struct saux { struct mstate st; struct mtbl_threadpool *tp; char tmpdir[300]; char realdir[320]; int mk0; int gone; };

static int count_dir(const char *d)
{
	DIR *dp = opendir(d); if (!dp) return -1;
	int n = 0; struct dirent *e;
	while ((e = readdir(dp))) if (strcmp(e->d_name, ".") && strcmp(e->d_name, "..")) n++;
	closedir(dp); return n;
}

void destroy_sorter(struct obj *o)
{
	struct saux *a = o->aux;
	struct mtbl_sorter *s = o->p; if (s) mtbl_sorter_destroy(&s);
	if (a) { if (a->tp) mtbl_threadpool_destroy(&a->tp); if (a->realdir[0]) { unlink(a->tmpdir); rmdir(a->realdir); } else rmdir(a->tmpdir); free(a->st.failkey); free(a); }
}

int ops_sorter(char **args, int na)
{
	const char *op = args[0];
	if (!strcmp(op, "sys.info")) {
		printf("info pid=%ld eo=%zu minmem=%zu minbs=%zu\n", (long)getpid(), vf_sizeof_sorter_entry(), vf_real_min_sorter_memory, vf_real_min_block_size);
		return 0;
	}
	if (!strcmp(op, "s.new") && na >= 2) {
		struct obj *o = newobj(args[1], K_SORTER); if (!o) return -1;
		struct saux *a = calloc(1, sizeof *a); o->aux = a;
		char **kvs = args + 2; int n = na - 2;
		struct mtbl_sorter_options *so = mtbl_sorter_options_init();
		vf_min_sorter_memory = kvnum(kvs, n, "minmem", (long)vf_real_min_sorter_memory);
		mtbl_sorter_options_set_max_memory(so, kvnum(kvs, n, "mem", 1 << 30));
		const char *mg = kv(kvs, n, "merge");
		if (mg && !strcmp(mg, "union")) mtbl_sorter_options_set_merge_func(so, vf_merge_union, &a->st);
		else if (mg && !strcmp(mg, "lcp")) { a->st.mode = 2; mtbl_sorter_options_set_merge_func(so, vf_merge_union, &a->st); }
		else if (mg && !strncmp(mg, "fail:", 5)) { a->st.mode = 1; if (unhex(mg + 5, &a->st.failkey, &a->st.lfk)) return -1; mtbl_sorter_options_set_merge_func(so, vf_merge_union, &a->st); }
		snprintf(a->tmpdir, sizeof a->tmpdir, "%s/sort%d", vf_tmpdir, o->id);
		/* tdir=plain: an existing directory; symlink: the configured path is a symbolic link to a directory;
		   late: the directory is created only after the option has been set and the sorter initialised */
		const char *td = kv(kvs, n, "tdir"); int late = td && !strcmp(td, "late");
		if (td && !strcmp(td, "symlink")) {
			snprintf(a->realdir, sizeof a->realdir, "%s/sortreal%d", vf_tmpdir, o->id);
			mkdir(a->realdir, 0700);
			if (symlink(a->realdir, a->tmpdir)) return -1;
		} else if (!late) mkdir(a->tmpdir, 0700);
		mtbl_sorter_options_set_temp_dir(so, a->tmpdir);
		long pool = kvnum(kvs, n, "pool", -1);
		if (pool >= 0) { a->tp = mtbl_threadpool_init(pool); mtbl_sorter_options_set_threadpool(so, a->tp); }
		a->mk0 = vf_mkstemp_n;
		o->p = mtbl_sorter_init(so);
		mtbl_sorter_options_destroy(&so);
		if (late) mkdir(a->tmpdir, 0700);
		puts("ok"); return 0;
	}
	if (!strcmp(op, "s.vanish") && na == 2) {
		/* the configured temporary directory disappears after the sorter has been set up (removed, renamed away, unmounted):
		 * from now on a spill has nowhere to go — the library stops (assert on the mkstemp result); it must not put the
		 * chunk anywhere else */
		struct obj *o = getobj(args[1], K_SORTER); if (!o) return -1;
		struct saux *a = o->aux;
		if (a->realdir[0]) { unlink(a->tmpdir); rmdir(a->realdir); }
		else rmdir(a->tmpdir);
		a->gone = 1;
		puts("ok"); return 0;
	}
	if (!strcmp(op, "s.add") && na == 4) {
		struct obj *o = getobj(args[1], K_SORTER); if (!o) return -1;
		uint8_t *k, *v; size_t kl, vl; if (unhex(args[2], &k, &kl) || unhex(args[3], &v, &vl)) return -1;
		mtbl_res r = mtbl_sorter_add(o->p, k, kl, v, vl);
		memset(k, 0xA5, kl); memset(v, 0xA5, vl); free(k); free(v);
		puts(r == mtbl_res_success ? "ok" : "fail"); return 0;
	}
	if (!strcmp(op, "s.iter") && na == 3) {
		struct obj *s = getobj(args[1], K_SORTER); if (!s) return -1;
		struct obj *o = newobj(args[2], K_ITER); if (!o) return -1;
		o->p = mtbl_sorter_iter(s->p);
		puts(o->p ? "ok" : "null"); return 0;
	}
	if (!strcmp(op, "s.write") && na == 3) {
		struct obj *s = getobj(args[1], K_SORTER), *w = getobj(args[2], K_WRITER); if (!s || !w || !w->p) return -1;
		puts(mtbl_sorter_write(s->p, w->p) == mtbl_res_success ? "ok" : "fail"); return 0;
	}
	if (!strcmp(op, "s.spills") && na == 2) {
		struct obj *o = getobj(args[1], K_SORTER); if (!o) return -1;
		struct saux *a = o->aux;
		int n = vf_mkstemp_n - a->mk0; int okt = 1;
		char want[400]; snprintf(want, sizeof want, "%s/.mtbl.%ld.XXXXXX", a->tmpdir, (long)getpid());
		for (int i = a->mk0; i < vf_mkstemp_n && i < VF_MAXTMPL; i++) if (strcmp(vf_mkstemp_templates[i], want)) okt = 0;
		/* the directory part is harness-specific: report the template relative to the configured directory */
		printf("spills %d tmpl=%s leftover=%d\n", n, okt ? "DIR/.mtbl.PID.XXXXXX" : vf_mkstemp_templates[a->mk0 < VF_MAXTMPL ? a->mk0 : 0], a->gone ? 0 : count_dir(a->tmpdir));
		return 0;
	}
	if (!strcmp(op, "s.destroy") && na == 2) {
		struct obj *o = getobj(args[1], K_SORTER); if (!o) return -1;
		destroy_sorter(o); o->kind = K_NONE; puts("ok"); return 0;
	}
	return -1;
}
