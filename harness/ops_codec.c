/* varint / fixed codecs, CRC: direct calls with controlled alignment */
#define _GNU_SOURCE
#include <pthread.h>
#include <stdbool.h>
#include <sys/mman.h>
#include <fcntl.h>
#include <unistd.h>
#include <stdio.h>
#include <stdlib.h>
#include <string.h>
#include "mtbl.h"
#include "exec.h"

uint32_t my_crc32c_slicing(const uint8_t *, size_t);
bool my_crc32c_sse42_supported(void);
uint32_t my_crc32c_sse42(const uint8_t *, size_t);

/* the FIRST call of the process through the dispatch pointer, made before the library's own constructor has replaced the
 * initial trampoline (constructor priority 101 runs before the default-priority constructors of the objects linked in):
 * the value it returned, and whether the call replaced the pointer (= the trampoline really ran) */
#include "libmy/crc32c.h"
static uint32_t early_val[2]; static int early_tramp, early_done;
static const uint8_t early_buf[] = "\0\0\0""123456789 first call through the trampoline, 53 bytes.";
__attribute__((constructor(101))) static void early_crc(void)
{
	my_crc32c_fp fp0 = my_crc32c;
	early_val[0] = mtbl_crc32c(early_buf + 3, 9);
	early_tramp = (fp0 != my_crc32c);
	early_val[1] = mtbl_crc32c(early_buf + 3, sizeof early_buf - 4);
	early_done = 1;
}

/* a buffer whose first byte sits at address ≡ align (mod 8), with exactly n accessible bytes before a poisoned tail */
static uint8_t *aligned_buf(size_t n, int align, uint8_t **base)
{
	uint8_t *b = malloc(n + 16 + 8);
	*base = b;
	uintptr_t a = (uintptr_t)b;
	uint8_t *p = b + ((8 - (a & 7)) & 7) + (align & 7);
	return p;
}

struct sweep { uint64_t lo, hi, bad; uint64_t first_bad; };
static void *sweep32(void *arg)
{
	struct sweep *s = arg;
	uint8_t buf[16];
	for (uint64_t v = s->lo; v < s->hi; v++) {
		/* closed form: number of 7-bit groups, bytes = groups with continuation bits */
		unsigned len = 1; for (uint64_t t = v; t >= 128; t >>= 7) len++;
		size_t n = mtbl_varint_encode32(buf, (uint32_t)v);
		int ok = n == len && mtbl_varint_length(v) == len;
		for (unsigned i = 0; ok && i < len; i++) {
			uint8_t want = (uint8_t)(((v >> (7 * i)) & 0x7f) | (i + 1 < len ? 0x80 : 0));
			if (buf[i] != want) ok = 0;
		}
		uint32_t d32; uint64_t d64; uint8_t b64[16];
		if (ok && (mtbl_varint_decode32(buf, &d32) != len || d32 != (uint32_t)v)) ok = 0;
		if (ok && (mtbl_varint_decode64(buf, &d64) != len || d64 != v)) ok = 0;
		if (ok && (mtbl_varint_encode64(b64, v) != len || memcmp(b64, buf, len))) ok = 0;
		if (ok && mtbl_varint_length_packed(buf, len) != len) ok = 0;
		if (ok && len > 1 && mtbl_varint_length_packed(buf, len - 1) != 0) ok = 0;
		if (!ok) { if (!s->bad) s->first_bad = v; s->bad++; }
	}
	return NULL;
}

struct crcmt { uint8_t *base, *p; size_t len; long calls, wrong; uint32_t want; };
static void *crcmt_main(void *v)
{
	struct crcmt *c = v;
	for (long i = 0; i < c->calls; i++) if (mtbl_crc32c(c->p, c->len) != c->want) c->wrong++;
	return NULL;
}
int ops_codec(char **args, int na)
{
	const char *op = args[0];
	uint8_t *base = NULL;
	if ((!strcmp(op, "venc32") || !strcmp(op, "venc64") || !strcmp(op, "vlen")) && na >= 2) {
		uint64_t v = strtoull(args[1], NULL, 10);
		int align = na > 2 ? atoi(args[2]) : 0;
		if (!strcmp(op, "vlen")) { printf("n %u\n", mtbl_varint_length(v)); return 0; }
		uint8_t *p = aligned_buf(10, align, &base);
		size_t n = op[4] == '3' ? mtbl_varint_encode32(p, (uint32_t)v) : mtbl_varint_encode64(p, v);
		printf("bytes "); puthex(stdout, p, n); putchar('\n'); free(base); return 0;
	}
	if ((!strcmp(op, "vdec32") || !strcmp(op, "vdec64") || !strcmp(op, "vlenp")) && na >= 2) {
		uint8_t *d; size_t n; if (unhex(args[1], &d, &n)) return -1;
		int align = na > 2 ? atoi(args[2]) : 0;
		/* optional 4th argument alias<off>: the caller's result object OVERLAPS the encoded bytes (it lives at data + off;
		 * the prototypes have no restrict and the bytes are read through uint8_t, so this is a legal call) */
		long alias = (na > 3 && !strncmp(args[3], "alias", 5)) ? atol(args[3] + 5) : -1;
		uint8_t *p = aligned_buf(n + 24, align, &base); memcpy(p, d, n); free(d);
		if (!strcmp(op, "vlenp")) { printf("n %u\n", mtbl_varint_length_packed(p, n)); free(base); return 0; }
		if (alias >= 0 && alias <= (long)n + 8 && ((uintptr_t)(p + alias) & 7) == 0) {
			if (op[4] == '3') { uint32_t *vp = (uint32_t *)(void *)(p + alias); size_t l = mtbl_varint_decode32(p, vp); uint32_t v; memcpy(&v, vp, 4); printf("val %lu %zu\n", (unsigned long)v, l); }
			else { uint64_t *vp = (uint64_t *)(void *)(p + alias); size_t l = mtbl_varint_decode64(p, vp); uint64_t v; memcpy(&v, vp, 8); printf("val %lu %zu\n", (unsigned long)v, l); }
			free(base); return 0;
		}
		if (op[4] == '3') { uint32_t v = 0xdeadbeef; size_t l = mtbl_varint_decode32(p, &v); printf("val %lu %zu\n", (unsigned long)v, l); }
		else { uint64_t v = 0xdeadbeef; size_t l = mtbl_varint_decode64(p, &v); printf("val %lu %zu\n", (unsigned long)v, l); }
		free(base); return 0;
	}
	if (!strcmp(op, "vlenpbig") && na >= 3) {
		/* mtbl_varint_length_packed over a REAL readable region of 2^32 + extra bytes (anonymous, untouched pages):
		   the bytes-available argument does not fit 32 bits */
		uint8_t *d; size_t n; if (unhex(args[1], &d, &n)) return -1;
		size_t total = ((size_t)1 << 32) + (size_t)strtoull(args[2], NULL, 10);
		uint8_t *m = mmap(NULL, total, PROT_READ | PROT_WRITE, MAP_PRIVATE | MAP_ANONYMOUS | MAP_NORESERVE, -1, 0);
		if (m == MAP_FAILED) { free(d); puts("nomem"); return 0; }
		memcpy(m, d, n); free(d);
		printf("n %u\n", mtbl_varint_length_packed(m, total));
		munmap(m, total); return 0;
	}
	if ((!strcmp(op, "fix32") || !strcmp(op, "fix64")) && na >= 2) {
		uint64_t v = strtoull(args[1], NULL, 10);
		int align = na > 2 ? atoi(args[2]) : 0;
		uint8_t *p = aligned_buf(8, align, &base);
		size_t n = op[3] == '3' ? mtbl_fixed_encode32(p, (uint32_t)v) : mtbl_fixed_encode64(p, v);
		printf("bytes "); puthex(stdout, p, n); putchar('\n'); free(base); return 0;
	}
	if ((!strcmp(op, "dfix32") || !strcmp(op, "dfix64")) && na >= 2) {
		uint8_t *d; size_t n; if (unhex(args[1], &d, &n)) return -1;
		int align = na > 2 ? atoi(args[2]) : 0;
		if (n < (op[4] == '3' ? 4u : 8u)) { free(d); return -1; }
		uint8_t *p = aligned_buf(n, align, &base); memcpy(p, d, n); free(d);
		if (op[4] == '3') printf("val %lu\n", (unsigned long)mtbl_fixed_decode32(p));
		else printf("val %lu\n", (unsigned long)mtbl_fixed_decode64(p));
		free(base); return 0;
	}
	if (!strcmp(op, "codec.sweep32") && na == 3) {
		/* exhaustive sweep [lo, hi) of the 32-bit codec against a closed form, in C (the tie for the theorem) */
		uint64_t lo = strtoull(args[1], NULL, 10), hi = strtoull(args[2], NULL, 10);
		enum { NT = 16 }; pthread_t th[NT]; struct sweep s[NT];
		uint64_t step = (hi - lo + NT - 1) / NT;
		for (int i = 0; i < NT; i++) {
			s[i].lo = lo + i * step; s[i].hi = s[i].lo + step > hi ? hi : s[i].lo + step; s[i].bad = 0; s[i].first_bad = 0;
			if (s[i].lo > hi) s[i].lo = hi;
			pthread_create(&th[i], NULL, sweep32, &s[i]);
		}
		uint64_t bad = 0, fb = 0;
		for (int i = 0; i < NT; i++) { pthread_join(th[i], NULL); if (s[i].bad && !bad) fb = s[i].first_bad; bad += s[i].bad; }
		printf("swept %lu bad %lu first %lu\n", (unsigned long)(hi - lo), (unsigned long)bad, (unsigned long)fb);
		return 0;
	}
	if (!strcmp(op, "crc") && na == 4) {
		/* crc <impl: api|slicing|sse42> <align 0..7> <hex> */
		uint8_t *d; size_t n; if (unhex(args[3], &d, &n)) return -1;
		uint8_t *p = aligned_buf(n, atoi(args[2]), &base); memcpy(p, d, n); free(d);
		uint32_t c;
		if (!strcmp(args[1], "api")) c = mtbl_crc32c(p, n);
		else if (!strcmp(args[1], "slicing")) c = my_crc32c_slicing(p, n);
		else if (!strcmp(args[1], "sse42")) { if (!my_crc32c_sse42_supported()) { free(base); puts("unsupported"); return 0; } c = my_crc32c_sse42(p, n); }
		else { free(base); return -1; }
		printf("crc %lu\n", (unsigned long)c); free(base); return 0;
	}
	if (!strcmp(op, "crc.big") && na == 3) {
		/* crc.big <len> <align>: a buffer of <len> bytes (4 GiB and more) made by mapping one 4 MiB file over and over into a
		 * single reservation (costs 4 MiB of page cache); the three entry points must agree.
		 * reply: big api=<crc> slicing=<crc> sse42=<crc|unsupported> */
		size_t len = strtoull(args[1], NULL, 10); int al = atoi(args[2]);
		size_t piece = 4u << 20, total = ((len + al + piece - 1) / piece + 1) * piece;
		char path[400]; snprintf(path, sizeof path, "%s/crcbig.bin", vf_tmpdir);
		int fd = open(path, O_RDWR | O_CREAT | O_TRUNC, 0600); if (fd < 0) return -1;
		uint8_t *blk = malloc(piece); uint64_t x = 88172645463325252ull;
		for (size_t i = 0; i < piece; i++) { x ^= x << 13; x ^= x >> 7; x ^= x << 17; blk[i] = (uint8_t)x; }
		if (write(fd, blk, piece) != (ssize_t)piece) { close(fd); free(blk); return -1; }
		free(blk);
		uint8_t *base0 = mmap(NULL, total, PROT_NONE, MAP_PRIVATE | MAP_ANONYMOUS | MAP_NORESERVE, -1, 0);
		if (base0 == MAP_FAILED) { close(fd); unlink(path); puts("big unavailable"); return 0; }
		for (size_t off = 0; off < total; off += piece)
			if (mmap(base0 + off, piece, PROT_READ, MAP_PRIVATE | MAP_FIXED, fd, 0) == MAP_FAILED) { munmap(base0, total); close(fd); unlink(path); puts("big unavailable"); return 0; }
		const uint8_t *p = base0 + al;
		uint32_t a = mtbl_crc32c(p, len), sl = my_crc32c_slicing(p, len);
		char ref[40] = "";
		if (len <= ((size_t)64 << 20)) {
			/* an independent bytewise reference (reflected polynomial 0x82F63B78) for buffers up to 64 MiB */
			static uint32_t tab[256]; if (!tab[1]) for (uint32_t i = 0; i < 256; i++) { uint32_t c = i; for (int k = 0; k < 8; k++) c = (c & 1) ? (c >> 1) ^ 0x82F63B78u : c >> 1; tab[i] = c; }
			uint32_t c = 0xffffffffu; for (size_t i = 0; i < len; i++) c = tab[(c ^ p[i]) & 0xff] ^ (c >> 8);
			snprintf(ref, sizeof ref, " ref=%lu", (unsigned long)(c ^ 0xffffffffu));
		}
		if (my_crc32c_sse42_supported()) printf("big api=%lu slicing=%lu sse42=%lu%s\n", (unsigned long)a, (unsigned long)sl, (unsigned long)my_crc32c_sse42(p, len), ref);
		else printf("big api=%lu slicing=%lu sse42=unsupported%s\n", (unsigned long)a, (unsigned long)sl, ref);
		munmap(base0, total); close(fd); unlink(path);
		return 0;
	}
	if (!strcmp(op, "crc.mt") && na == 4) {
		/* crc.mt <threads> <len> <calls>: mtbl_crc32c is a pure function — several threads checksum their own (misaligned,
		 * differently filled) buffers at the same time; every result must be the bytewise reference of that buffer.
		 * reply: mt ok calls=<n> | mt wrong=<k> first=thread<i> */
		int nt = atoi(args[1]); size_t len = strtoull(args[2], NULL, 10); long calls = atol(args[3]);
		if (nt < 1 || nt > 16) return -1;
		struct crcmt *cx = calloc((size_t)nt, sizeof *cx); pthread_t th[16];
		static uint32_t tab[256]; if (!tab[1]) for (uint32_t i = 0; i < 256; i++) { uint32_t c = i; for (int k = 0; k < 8; k++) c = (c & 1) ? (c >> 1) ^ 0x82F63B78u : c >> 1; tab[i] = c; }
		for (int t = 0; t < nt; t++) {
			cx[t].base = malloc(len + 16); cx[t].p = cx[t].base + 1 + (t % 7); cx[t].len = len; cx[t].calls = calls;
			uint64_t x = 88172645463325252ull + (uint64_t)t * 7919;
			for (size_t i = 0; i < len; i++) { x ^= x << 13; x ^= x >> 7; x ^= x << 17; cx[t].p[i] = (uint8_t)x; }
			uint32_t c = 0xffffffffu; for (size_t i = 0; i < len; i++) c = tab[(c ^ cx[t].p[i]) & 0xff] ^ (c >> 8);
			cx[t].want = c ^ 0xffffffffu;
		}
		for (int t = 0; t < nt; t++) pthread_create(&th[t], NULL, crcmt_main, &cx[t]);
		long wrong = 0; int first = -1;
		for (int t = 0; t < nt; t++) { pthread_join(th[t], NULL); if (cx[t].wrong) { wrong += cx[t].wrong; if (first < 0) first = t; } free(cx[t].base); }
		free(cx);
		if (wrong) printf("mt wrong=%ld first=thread%d\n", wrong, first); else printf("mt ok calls=%ld\n", calls * nt);
		return 0;
	}
	if (!strcmp(op, "crc.edge") && na == 2) {
		/* crc.edge <span>: buffers that begin, end or cross a 4 KiB page boundary, at every start within <span> bytes of the
		 * boundary and every length 0..2*span, and buffers that END at the last byte before an unmapped page (an implementation
		 * that reads past the buffer dies there); the three entry points against a bytewise reference.
		 * reply: edge ok n=<buffers> | edge wrong=<k> first=<impl>:start<offset mod 4096>:len<n> */
		long span = atol(args[1]); if (span < 1 || span > 2048) return -1;
		uint8_t *m = mmap(NULL, 3 * 4096, PROT_READ | PROT_WRITE, MAP_PRIVATE | MAP_ANONYMOUS, -1, 0);
		if (m == MAP_FAILED) { puts("edge unavailable"); return 0; }
		uint64_t x = 0x9E3779B97F4A7C15ull;
		for (size_t i = 0; i < 2 * 4096; i++) { x ^= x << 13; x ^= x >> 7; x ^= x << 17; m[i] = (uint8_t)(x >> 11); }
		mprotect(m + 2 * 4096, 4096, PROT_NONE);
		static uint32_t tab[256]; if (!tab[1]) for (uint32_t i = 0; i < 256; i++) { uint32_t c = i; for (int k = 0; k < 8; k++) c = (c & 1) ? (c >> 1) ^ 0x82F63B78u : c >> 1; tab[i] = c; }
		int hw = my_crc32c_sse42_supported(); long nbuf = 0, wrong = 0; char first[80] = "";
		for (int pass = 0; pass < 2; pass++)
			for (long st = -span; st <= span; st++)
				for (long n = 0; n <= 2 * span; n++) {
					const uint8_t *p;
					if (pass == 0) p = m + 4096 + st;                       /* around the boundary between two mapped pages */
					else { if (st > 0 || n > span) continue; p = m + 2 * 4096 - n + 0 * st; if (st != 0) continue; }  /* ends at the guard page */
					uint32_t c = 0xffffffffu; for (long i = 0; i < n; i++) c = tab[(c ^ p[i]) & 0xff] ^ (c >> 8);
					c ^= 0xffffffffu; nbuf++;
					uint32_t got[3] = { mtbl_crc32c(p, (size_t)n), my_crc32c_slicing(p, (size_t)n), hw ? my_crc32c_sse42(p, (size_t)n) : c };
					static const char *nm[3] = { "api", "slicing", "sse42" };
					for (int k = 0; k < 3; k++) if (got[k] != c) { if (!wrong) snprintf(first, sizeof first, "%s:start%lu:len%ld", nm[k], (unsigned long)((uintptr_t)p & 4095), n); wrong++; }
				}
		munmap(m, 3 * 4096);
		if (wrong) printf("edge wrong=%ld first=%s\n", wrong, first); else printf("edge ok n=%ld\n", nbuf);
		return 0;
	}
	if (!strcmp(op, "crc.hist") && na == 3) {
		/* crc.hist <len> <rounds>: the checksum is a function of the bytes only, not of what was checksummed before — the SAME
		 * buffer (same address, same length) is checksummed again and again through the public entry point and both
		 * implementations, with one byte changed between calls somewhere in the middle (first and last bytes untouched on odd
		 * rounds), against a bytewise reference.   reply: hist ok n=<calls> | hist wrong=<k> first=<impl>:round<r> */
		size_t len = strtoull(args[1], NULL, 10); long rounds = atol(args[2]);
		if (len < 32 || len > (1u << 24)) return -1;
		uint8_t *b = malloc(len + 8); uint8_t *p = b + 3;
		uint64_t x = 0x2545F4914F6CDD1Dull;
		for (size_t i = 0; i < len; i++) { x ^= x << 13; x ^= x >> 7; x ^= x << 17; p[i] = (uint8_t)(x >> 9); }
		static uint32_t tab[256]; if (!tab[1]) for (uint32_t i = 0; i < 256; i++) { uint32_t c = i; for (int k = 0; k < 8; k++) c = (c & 1) ? (c >> 1) ^ 0x82F63B78u : c >> 1; tab[i] = c; }
		int hw = my_crc32c_sse42_supported(); long wrong = 0, calls = 0; char first[64] = "";
		for (long r = 0; r < rounds; r++) {
			x ^= x << 13; x ^= x >> 7; x ^= x << 17;
			size_t at = (r & 1) ? 16 + (size_t)(x % (len - 32)) : (size_t)(x % len);
			p[at] ^= (uint8_t)(1u << (x >> 60 & 7));
			uint32_t c = 0xffffffffu; for (size_t i = 0; i < len; i++) c = tab[(c ^ p[i]) & 0xff] ^ (c >> 8);
			c ^= 0xffffffffu;
			uint32_t got[3] = { mtbl_crc32c(p, len), my_crc32c_slicing(p, len), hw ? my_crc32c_sse42(p, len) : c };
			static const char *nm[3] = { "api", "slicing", "sse42" };
			for (int k = 0; k < 3; k++) { calls++; if (got[k] != c) { if (!wrong) snprintf(first, sizeof first, "%s:round%ld", nm[k], r); wrong++; } }
		}
		free(b);
		if (wrong) printf("hist wrong=%ld first=%s\n", wrong, first); else printf("hist ok n=%ld\n", calls);
		return 0;
	}
	if (!strcmp(op, "crc.early")) {
		/* reply: early ok trampoline=<0|1> | early wrong first=<hex> want=<hex> trampoline=<0|1> */
		uint32_t w0 = my_crc32c_slicing(early_buf + 3, 9), w1 = my_crc32c_slicing(early_buf + 3, sizeof early_buf - 4);
		if (!early_done) { puts("early unavailable"); return 0; }
		if (early_val[0] != w0 || w0 != 0xe3069283u) printf("early wrong first=%08x want=%08x trampoline=%d\n", early_val[0], w0, early_tramp);
		else if (early_val[1] != w1) printf("early wrong second=%08x want=%08x trampoline=%d\n", early_val[1], w1, early_tramp);
		else printf("early ok trampoline=%d\n", early_tramp);
		return 0;
	}
	if (!strcmp(op, "crc.cpu")) { puts(my_crc32c_sse42_supported() ? "sse42 1" : "sse42 0"); return 0; }
	return -1;
}
