/* C18: API life-cycle histories with a resource ledger.
 *
 * Objects live in a table of their own (ids 0..63).  After every request the process's resources can be read with
 * res.count: open descriptors (/proc/self/fd), live reader mappings (the mmap shim's counter), files in the sorter's
 * temporary directory; res.end additionally reports the heap bytes in use (AddressSanitizer's allocator statistics)
 * relative to res.begin.  Everything the harness itself allocates for a history is released before res.end answers.
 *
 *   res.begin                                   baseline
 *   res.table <t> <n> <stride> <off>            write table file t with keys k%05d for i*stride+off (writer life cycle)
 *   res.bad <t>                                 file t = bytes that are not a table
 *   res.setfile <s> <t,t,..|->                  write setfile s listing those table files
 *   res.pool <id> <n>
 *   res.writer <id> <t>                         mtbl_writer_init on a fresh path                 -> ok | null
 *   res.wadd <id> <keynum> <vallen>             mtbl_writer_add                                  -> ok | fail
 *   res.reader <id> <t>                         mtbl_reader_init                                 -> ok | null
 *   res.merger <id> <merge: cat|fail<keynum>> <src ids,..|->
 *   res.sorter <id> mem=<n> pool=<id|-> merge=<cat|fail<keynum>>
 *   res.sadd <id> <keynum> <vallen>                                                             -> ok | fail
 *   res.siter <id> <sorter>                     mtbl_sorter_iter                                 -> ok | null
 *   res.swrite <sorter> <writer>                mtbl_sorter_write                                -> ok | fail
 *   res.fileset <id> <s>                        mtbl_fileset_init (reload interval: never)
 *   res.fsdup <id> <fileset>
 *   res.fsreload <fileset>                      mtbl_fileset_reload_now
 *   res.iter <id> <src> <iter|get|pfx|range> [keynum [keynum]]   iterator on a reader/merger/fileset source   -> ok | null
 *   res.next <id> <n>                           n x mtbl_iter_next
 *   res.seek <id> <keynum>
 *   res.destroy <id>
 *   res.count                                   -> fds=<d> maps=<d> tmp=<n>
 *   res.end [warm]                              -> fds=<d> maps=<d> tmp=<n> heap=<d>   (warm: heap reported as 0)
 */
#define _GNU_SOURCE
#include <dirent.h>
#include <pthread.h>
#include <fcntl.h>
#include <stdbool.h>
#include <stdint.h>
#include <stdio.h>
#include <stdlib.h>
#include <string.h>
#include <sys/stat.h>
#include <unistd.h>
#include "mtbl.h"
#include "shims/shims.h"
#include <pthread.h>
#include "exec.h"

size_t __sanitizer_get_current_allocated_bytes(void) __attribute__((weak));

enum rk { R_NONE, R_POOL, R_WRITER, R_READER, R_MERGER, R_SORTER, R_FILESET, R_ITER };
struct robj { enum rk k; void *p; void *opt; int failkey; char path[360]; };
static struct robj R[64];
static char rdir[300], rtmp[320];
static long base_fds, base_maps; static size_t base_heap; static int serial;

static long count_fds(void)
{
	DIR *d = opendir("/proc/self/fd"); if (!d) return -1;
	long n = 0; struct dirent *e;
	while ((e = readdir(d))) if (e->d_name[0] != '.') n++;
	closedir(d);
	return n - 1;                      /* minus the directory stream's own descriptor */
}
static long count_tmp(void)
{
	DIR *d = opendir(rtmp); if (!d) return -1;
	long n = 0; struct dirent *e;
	while ((e = readdir(d))) if (strcmp(e->d_name, ".") && strcmp(e->d_name, "..")) n++;
	closedir(d); return n;
}
static size_t heap_now(void) { return __sanitizer_get_current_allocated_bytes ? __sanitizer_get_current_allocated_bytes() : 0; }
static void tpath(char *b, size_t n, const char *t) { snprintf(b, n, "%s/t%s.mtbl", rdir, t); }
#define KB 2100
static long g_kpad;      /* res.kpad: every key starts with this many 'P' bytes (order unchanged) */
static void keyof(char *b, long k) { memset(b, 'P', (size_t)g_kpad); sprintf(b + g_kpad, "k%05ld", k); }

static void merge_cat(void *clos, const uint8_t *key, size_t lk, const uint8_t *v0, size_t l0, const uint8_t *v1, size_t l1, uint8_t **out, size_t *lo)
{
	int *failkey = clos; char kb[KB];
	if (failkey && *failkey >= 0) { keyof(kb, *failkey); if (lk == strlen(kb) && !memcmp(key, kb, lk)) { *out = NULL; *lo = 0; return; } }
	*out = malloc(l0 + l1 + 1); memcpy(*out, v0, l0); memcpy(*out + l0, v1, l1); *lo = l0 + l1;
}
static int parse_merge(const char *s) { return !strncmp(s, "fail", 4) ? atoi(s + 4) : -1; }

static const struct mtbl_source *source_of(struct robj *o)
{
	switch (o->k) {
	case R_READER: return o->p ? mtbl_reader_source(o->p) : NULL;
	case R_MERGER: return mtbl_merger_source(o->p);
	case R_FILESET: return mtbl_fileset_source(o->p);
	default: return NULL;
	}
}
static void rdestroy(struct robj *o)
{
	switch (o->k) {
	case R_POOL: { struct mtbl_threadpool *p = o->p; mtbl_threadpool_destroy(&p); break; }
	case R_WRITER: { struct mtbl_writer *w = o->p; if (w) mtbl_writer_destroy(&w); unlink(o->path); break; }
	case R_READER: { struct mtbl_reader *r = o->p; if (r) mtbl_reader_destroy(&r); break; }
	case R_MERGER: { struct mtbl_merger *m = o->p; mtbl_merger_destroy(&m); break; }
	case R_SORTER: { struct mtbl_sorter *s = o->p; mtbl_sorter_destroy(&s); break; }
	case R_FILESET: { struct mtbl_fileset *f = o->p; mtbl_fileset_destroy(&f); break; }
	case R_ITER: { struct mtbl_iter *it = o->p; if (it) mtbl_iter_destroy(&it); break; }
	default: break;
	}
	memset(o, 0, sizeof *o);
}

/* thread creation leaves allocations behind that are not the library's: glibc keeps the stacks of joined threads (with their
 * TLS / dtv blocks, which come from malloc) in a cache and reuses them.  How many threads a pool actually starts depends on
 * timing (an idle worker is reused, a busy one is not), so the cache could grow in the measured pass and not in the warm-up
 * pass.  Filling the cache once, with more concurrent threads than any history uses, takes that out of the heap ledger. */
static volatile int warm_go;
static void *warm_thread(void *p) { (void)p; while (!warm_go) usleep(500); return NULL; }
static void warm_thread_cache(void)
{
	static int done; if (done) return; done = 1;
	enum { NW = 32 }; pthread_t th[NW]; int n = 0;
	for (int i = 0; i < NW; i++) if (pthread_create(&th[n], NULL, warm_thread, NULL) == 0) n++;
	warm_go = 1;
	for (int i = 0; i < n; i++) pthread_join(th[i], NULL);
}

int ops_res(char **a, int na)
{
	const char *op = a[0];
	if (!strcmp(op, "res.begin")) {
		warm_thread_cache();
		for (int i = 0; i < 64; i++) if (R[i].k != R_NONE) rdestroy(&R[i]);
		snprintf(rdir, sizeof rdir, "%s/res", vf_tmpdir); mkdir(rdir, 0700);
		snprintf(rtmp, sizeof rtmp, "%s/res/tmp", vf_tmpdir); mkdir(rtmp, 0700);
		vf_min_block_size = 64; vf_min_sorter_memory = 64; g_kpad = 0;
		fflush(stdout);
		base_fds = count_fds(); base_maps = vf_mmap_live; base_heap = heap_now();
		puts("ok"); return 0;
	}
	if (!strcmp(op, "res.kpad") && na == 2) {
		g_kpad = atol(a[1]); if (g_kpad < 0 || g_kpad > KB - 32) g_kpad = 0;
		puts("ok"); return 0;
	}
	if (!strcmp(op, "res.table") && na >= 5) {
		/* res.table <t> <n> <stride> <off> [codec [vlen]]: vlen > 0 pads every value with that many identical bytes
		   (blocks that compress far better than any first guess of a decompressor) */
		char p[360]; tpath(p, sizeof p, a[1]); unlink(p); rmdir(p);
		long codec = na > 5 ? atol(a[5]) : 0, vlen = na > 6 ? atol(a[6]) : 0;
		struct mtbl_writer_options *wo = mtbl_writer_options_init(); mtbl_writer_options_set_block_size(wo, vlen ? 8192 : 64);
		mtbl_writer_options_set_compression(wo, (mtbl_compression_type)codec);
		struct mtbl_writer *w = mtbl_writer_init(p, wo); mtbl_writer_options_destroy(&wo);
		if (!w) { puts("null"); return 0; }
		long n = atol(a[2]), stride = atol(a[3]), off = atol(a[4]); char kb[KB]; char *vb = malloc(64 + (size_t)vlen);
		for (long i = 0; i < n; i++) {
			keyof(kb, i * stride + off); int m = sprintf(vb, "v%s.%ld;", a[1], i);
			memset(vb + m, 'z', (size_t)vlen);
			mtbl_writer_add(w, (uint8_t *)kb, strlen(kb), (uint8_t *)vb, (size_t)m + (size_t)vlen);
		}
		free(vb);
		mtbl_writer_destroy(&w); puts("ok"); return 0;
	}
	if (!strcmp(op, "res.bad") && na == 3 && !strcmp(a[2], "dir")) {
		/* a directory where a table is expected: it opens, its size passes the gate, mapping it fails */
		char p[360]; tpath(p, sizeof p, a[1]); unlink(p); rmdir(p);
		if (mkdir(p, 0700)) return -1;
		puts("ok"); return 0;
	}
	if (!strcmp(op, "res.bad") && na == 2) {
		char p[360]; tpath(p, sizeof p, a[1]); rmdir(p); FILE *f = fopen(p, "w"); if (!f) return -1;
		for (int i = 0; i < 700; i++) fputc("not a table "[i % 12], f);
		fclose(f); puts("ok"); return 0;
	}
	if (!strcmp(op, "res.setfile") && na == 3) {
		char p[360]; snprintf(p, sizeof p, "%s/s%s.fileset", rdir, a[1]);
		FILE *f = fopen(p, "w"); if (!f) return -1;
		if (strcmp(a[2], "-")) { char *dup = strdup(a[2]); for (char *t = strtok(dup, ","); t; t = strtok(NULL, ",")) fprintf(f, "t%s.mtbl\n", t); free(dup); }
		fclose(f);
		struct timespec ts[2]; serial++; ts[0].tv_sec = ts[1].tv_sec = 1000000 + serial * 10; ts[0].tv_nsec = ts[1].tv_nsec = 0; utimensat(AT_FDCWD, p, ts, 0);
		puts("ok"); return 0;
	}
	if (!strcmp(op, "res.count") || !strcmp(op, "res.end")) {
		fflush(stdout);
		long fds = count_fds() - base_fds, maps = vf_mmap_live - base_maps, tmp = count_tmp();
		if (!strcmp(op, "res.count")) printf("fds=%+ld maps=%+ld tmp=%ld\n", fds, maps, tmp);
		else {
			long heap = (long)heap_now() - (long)base_heap;
			if (na > 1 && !strcmp(a[1], "warm")) heap = 0;
			if (heap != 0) printf("#heap bytes=%+ld\n", heap);
			printf("fds=%+ld maps=%+ld tmp=%ld heap=%s\n", fds, maps, tmp, heap == 0 ? "+0" : "LEAK");
		}
		return 0;
	}
	if (na < 2) return -1;
	long id = strtol(a[1], NULL, 10); if (id < 0 || id >= 64) return -1;
	struct robj *o = &R[id];
	if (!strcmp(op, "res.pool") && na == 3) { o->k = R_POOL; o->p = mtbl_threadpool_init(atoi(a[2])); puts("ok"); return 0; }
	if (!strcmp(op, "res.writer") && na == 3) {
		snprintf(o->path, sizeof o->path, "%s/w%s.%d.mtbl", rdir, a[2], ++serial); unlink(o->path);
		struct mtbl_writer_options *wo = mtbl_writer_options_init(); mtbl_writer_options_set_block_size(wo, 64);
		o->k = R_WRITER; o->p = mtbl_writer_init(o->path, wo); mtbl_writer_options_destroy(&wo);
		puts(o->p ? "ok" : "null"); return 0;
	}
	if (!strcmp(op, "res.wadd") && na == 4 && o->k == R_WRITER) {
		char kb[KB]; keyof(kb, atol(a[2])); size_t vl = atol(a[3]); uint8_t *v = malloc(vl + 1); memset(v, 'v', vl);
		mtbl_res r = mtbl_writer_add(o->p, (uint8_t *)kb, strlen(kb), v, vl); free(v);
		puts(r == mtbl_res_success ? "ok" : "fail"); return 0;
	}
	if (!strcmp(op, "res.reader") && na == 3) {
		char p[360]; tpath(p, sizeof p, a[2]);
		o->k = R_READER; o->p = mtbl_reader_init(p, NULL);
		puts(o->p ? "ok" : "null"); return 0;
	}
	if (!strcmp(op, "res.merger") && na == 4) {
		struct mtbl_merger_options *mo = mtbl_merger_options_init();
		o->failkey = parse_merge(a[2]);
		mtbl_merger_options_set_merge_func(mo, merge_cat, &o->failkey);
		o->k = R_MERGER; o->p = mtbl_merger_init(mo); mtbl_merger_options_destroy(&mo);
		if (strcmp(a[3], "-")) { char *dup = strdup(a[3]); for (char *t = strtok(dup, ","); t; t = strtok(NULL, ",")) { const struct mtbl_source *s = source_of(&R[atoi(t)]); if (s) mtbl_merger_add_source(o->p, s); } free(dup); }
		puts("ok"); return 0;
	}
	if (!strcmp(op, "res.sorter")) {
		struct mtbl_sorter_options *so = mtbl_sorter_options_init();
		mtbl_sorter_options_set_temp_dir(so, rtmp);
		mtbl_sorter_options_set_max_memory(so, kvnum(a + 2, na - 2, "mem", 1000));
		const char *pl = kv(a + 2, na - 2, "pool"); if (pl && strcmp(pl, "-")) mtbl_sorter_options_set_threadpool(so, R[atoi(pl)].p);
		const char *mg = kv(a + 2, na - 2, "merge"); o->failkey = parse_merge(mg ? mg : "cat");
		mtbl_sorter_options_set_merge_func(so, merge_cat, &o->failkey);
		o->k = R_SORTER; o->p = mtbl_sorter_init(so); mtbl_sorter_options_destroy(&so);
		puts("ok"); return 0;
	}
	if (!strcmp(op, "res.sadd") && na == 4 && o->k == R_SORTER) {
		char kb[KB]; keyof(kb, atol(a[2])); size_t vl = atol(a[3]); uint8_t *v = malloc(vl + 1); memset(v, 's', vl);
		mtbl_res r = mtbl_sorter_add(o->p, (uint8_t *)kb, strlen(kb), v, vl); free(v);
		puts(r == mtbl_res_success ? "ok" : "fail"); return 0;
	}
	if (!strcmp(op, "res.siter") && na == 3) {
		struct robj *s = &R[atoi(a[2])]; if (s->k != R_SORTER) return -1;
		o->k = R_ITER; o->p = mtbl_sorter_iter(s->p);
		puts(o->p ? "ok" : "null"); return 0;
	}
	if (!strcmp(op, "res.swrite") && na == 3 && o->k == R_SORTER) {
		struct robj *w = &R[atoi(a[2])]; if (w->k != R_WRITER || !w->p) return -1;
		puts(mtbl_sorter_write(o->p, w->p) == mtbl_res_success ? "ok" : "fail"); return 0;
	}
	if (!strcmp(op, "res.fileset") && na == 3) {
		char p[360]; snprintf(p, sizeof p, "%s/s%s.fileset", rdir, a[2]);
		struct mtbl_fileset_options *fo = mtbl_fileset_options_init();
		mtbl_fileset_options_set_reload_interval(fo, MTBL_FILESET_RELOAD_INTERVAL_NEVER);
		o->failkey = -1; mtbl_fileset_options_set_merge_func(fo, merge_cat, &o->failkey);
		o->k = R_FILESET; o->p = mtbl_fileset_init(p, fo); mtbl_fileset_options_destroy(&fo);
		puts("ok"); return 0;
	}
	if (!strcmp(op, "res.fsdup") && na == 3) {
		struct robj *f = &R[atoi(a[2])]; if (f->k != R_FILESET) return -1;
		struct mtbl_fileset_options *fo = mtbl_fileset_options_init();
		mtbl_fileset_options_set_reload_interval(fo, MTBL_FILESET_RELOAD_INTERVAL_NEVER);
		o->failkey = -1; mtbl_fileset_options_set_merge_func(fo, merge_cat, &o->failkey);
		o->k = R_FILESET; o->p = mtbl_fileset_dup(f->p, fo); mtbl_fileset_options_destroy(&fo);
		puts("ok"); return 0;
	}
	if (!strcmp(op, "res.fsreload") && na == 2 && o->k == R_FILESET) { mtbl_fileset_reload_now(o->p); puts("ok"); return 0; }
	if (!strcmp(op, "res.iter") && na >= 4) {
		const struct mtbl_source *s = source_of(&R[atoi(a[2])]); if (!s) return -1;
		char k0[KB] = "", k1[KB] = ""; if (na > 4) keyof(k0, atol(a[4])); if (na > 5) keyof(k1, atol(a[5]));
		struct mtbl_iter *it = NULL;
		if (!strcmp(a[3], "iter")) it = mtbl_source_iter(s);
		else if (!strcmp(a[3], "get")) it = mtbl_source_get(s, (uint8_t *)k0, strlen(k0));
		else if (!strcmp(a[3], "pfx")) it = mtbl_source_get_prefix(s, (uint8_t *)k0, strlen(k0) > 4 ? 4 : strlen(k0));
		else if (!strcmp(a[3], "range")) it = mtbl_source_get_range(s, (uint8_t *)k0, strlen(k0), (uint8_t *)k1, strlen(k1));
		else return -1;
		o->k = R_ITER; o->p = it; puts("ok"); return 0;
	}
	if (!strcmp(op, "res.next") && na == 3 && o->k == R_ITER) {
		long n = atol(a[2]), got = 0; const uint8_t *k, *v; size_t lk, lv;
		for (long i = 0; i < n && o->p; i++) if (mtbl_iter_next(o->p, &k, &lk, &v, &lv) == mtbl_res_success) got++;
		(void)got; puts("ok"); return 0;
	}
	if (!strcmp(op, "res.seek") && na == 3 && o->k == R_ITER) {
		char kb[KB]; keyof(kb, atol(a[2])); if (o->p) mtbl_iter_seek(o->p, (uint8_t *)kb, strlen(kb));
		puts("ok"); return 0;
	}
	if (!strcmp(op, "res.destroy") && na == 2) { rdestroy(o); puts("ok"); return 0; }
	return -1;
}
