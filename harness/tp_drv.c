/* C13/C14 tie: mtbl/threadpool.c (unmodified, #included below) run under a deterministic, externally driven scheduler.
 *
 * Every pthread_* call of threadpool.c is routed to vs_* below.  Exactly one of the program's threads runs at a time;
 * a thread runs from one scheduling point to the next and then parks.  Scheduling points are placed so that one
 * "turn" of a thread is one step of the Lean transition system MtblModel/Tp.lean (or a fixed short run of steps of
 * the same thread, see Driver: tpTurn): a lock ATTEMPT (the turn that follows is the critical section, and whatever
 * unlocked code comes after it, up to the next attempt), pthread_cond_wait (the thread sleeps until signalled or
 * woken spuriously by the controller), entry of pthread_create for worker threads, pthread_join, thread exit.
 *
 * The controller (main thread, reading requests from stdin) decides who takes the next turn:
 *   tp.new max=<m> jobs=<n> ord=<0|1>      start a run: caller thread = threadpool_init, result_handler_init,
 *                                          n x threadpool_dispatch, result_handler_destroy, threadpool_destroy
 *   tp.step c | h | w<i> | s:c | s:h | s:w<i>   give one turn to the caller / result handler / i-th worker created;
 *                                          s: = spurious wake-up of that (sleeping) thread
 *   tp.auto <r>                            pick the turn from the enabled set with the random number r (same rule as the model)
 * reply: "dis" (not enabled) or the visible state after the turn:
 *   st count=.. idle=[..] q=[..] nth=.. fin=.. del=[..] thr=[running/cb/res/rq;..] en=[..] sl=[..]
 * Object addresses are canonicalised to creation-order ids; jobs are numbered 0.. and a job's result is its number.
 */
#define _GNU_SOURCE
#include <pthread.h>
#include <semaphore.h>
#include <stdbool.h>
#include <stdint.h>
#include <stdio.h>
#include <stdlib.h>
#include <string.h>

#define MAXT 64
enum tst { T_UNUSED, T_READY, T_COND, T_JOIN, T_DONE };
struct vthr {
	enum tst st; pthread_t real; sem_t go;
	void *(*fn)(void *); void *arg;
	pthread_mutex_t *want;        /* READY: the mutex about to be locked (NULL = none) */
	pthread_cond_t *cond; pthread_mutex_t *cmutex; int signalled;
	int join_target;
	int fresh;                    /* the first lock attempt after the thread starts is not a scheduling point */
	int role, ridx;               /* tp.multi: 0 owner, 1 client, 2 handler, 3 worker; index within the role */
};
static struct vthr T[MAXT]; static int nT;
static sem_t back;
static __thread int me = -1;
#define MAXM 256
static pthread_mutex_t *mkey[MAXM]; static int mowner[MAXM]; static int nM;
static char problem[256];

static int *owner_of(pthread_mutex_t *m)
{
	for (int i = 0; i < nM; i++) if (mkey[i] == m) return &mowner[i];
	mkey[nM] = m; mowner[nM] = -1; return &mowner[nM++];
}
static void park(void) { sem_post(&back); sem_wait(&T[me].go); }

static int vs_mutex_init(pthread_mutex_t *m, const pthread_mutexattr_t *a) { (void)a; *owner_of(m) = -1; return 0; }
static int vs_mutex_destroy(pthread_mutex_t *m) { int *o = owner_of(m); if (*o != -1) snprintf(problem, sizeof problem, "destroy of a locked mutex"); *o = -2; return 0; }
static int vs_cond_init(pthread_cond_t *c, const pthread_condattr_t *a) { (void)c; (void)a; return 0; }
static int vs_cond_destroy(pthread_cond_t *c)
{
	for (int i = 0; i < nT; i++) if (T[i].st == T_COND && T[i].cond == c) snprintf(problem, sizeof problem, "destroy of a condition variable with a waiter");
	return 0;
}
static int vs_mutex_lock(pthread_mutex_t *m)
{
	if (T[me].fresh) T[me].fresh = 0;
	else { T[me].want = m; park(); T[me].want = NULL; }
	int *o = owner_of(m);
	if (*o != -1) snprintf(problem, sizeof problem, "thread %d granted a mutex that is %s", me, *o == -2 ? "destroyed" : "held");
	*o = me; return 0;
}
static int vs_mutex_unlock(pthread_mutex_t *m)
{
	int *o = owner_of(m);
	if (*o != me) snprintf(problem, sizeof problem, "thread %d unlocks a mutex it does not hold", me);
	*o = -1; return 0;
}
static int vs_cond_wait(pthread_cond_t *c, pthread_mutex_t *m)
{
	int *o = owner_of(m);
	if (*o != me) snprintf(problem, sizeof problem, "cond_wait without the mutex");
	*o = -1;
	T[me].st = T_COND; T[me].cond = c; T[me].cmutex = m; T[me].signalled = 0;
	park();                                     /* resumed only when signalled or woken spuriously */
	T[me].st = T_READY; T[me].cond = NULL;
	if (*o != -1) snprintf(problem, sizeof problem, "woken thread %d cannot re-acquire its mutex", me);
	*o = me; return 0;
}
static int vs_cond_signal(pthread_cond_t *c)
{
	for (int i = 0; i < nT; i++)
		if (T[i].st == T_COND && T[i].cond == c && !T[i].signalled) { T[i].signalled = 1; break; }
	return 0;
}
static void *tramp(void *p)
{
	me = (int)(intptr_t)p;
	sem_wait(&T[me].go);
	void *r = T[me].fn(T[me].arg);
	T[me].st = T_DONE;
	sem_post(&back);
	return r;
}
static int ncreate, g_multi, g_nworkers;
static void *client_main(void *p);
static void *thread_worker(void *arg);
static int vs_create(pthread_t *t, const pthread_attr_t *a, void *(*fn)(void *), void *arg)
{
	(void)a;
	if (ncreate++ > 0) park();                 /* worker threads: the creation is a step of its own; the handler (first) is not */
	int id = nT++;
	T[id].st = T_READY; T[id].fn = fn; T[id].arg = arg; T[id].fresh = 1; T[id].want = NULL;
	if (g_multi) {
		if (fn == client_main) { T[id].role = 1; T[id].ridx = (int)(intptr_t)arg; }
		else if (fn == thread_worker) { T[id].role = 3; T[id].ridx = g_nworkers++; }
		else { T[id].role = 2; T[id].ridx = T[me].ridx; }      /* the result handler of the creating client */
	}
	sem_init(&T[id].go, 0, 0);
	pthread_create(&T[id].real, NULL, tramp, (void *)(intptr_t)id);
	*t = T[id].real;
	return 0;
}
static int vs_join(pthread_t t, void **ret)
{
	int id = -1;
	for (int i = 1; i < nT; i++) if (pthread_equal(T[i].real, t)) id = i;
	T[me].st = T_JOIN; T[me].join_target = id;
	park();                                     /* resumed only when the target is done */
	T[me].st = T_READY;
	return pthread_join(t, ret);
}

#define pthread_mutex_init vs_mutex_init
#define pthread_mutex_destroy vs_mutex_destroy
#define pthread_mutex_lock vs_mutex_lock
#define pthread_mutex_unlock vs_mutex_unlock
#define pthread_cond_init vs_cond_init
#define pthread_cond_destroy vs_cond_destroy
#define pthread_cond_wait vs_cond_wait
#define pthread_cond_signal vs_cond_signal
#define pthread_create vs_create
#define pthread_join vs_join
#include "mtbl/threadpool.c"
#undef pthread_create
#undef pthread_join

/* ------------------------------------------------------------------ the program under test */
static struct threadpool *g_pool; static struct result_handler *g_rh; static struct resultq *g_rq;
static int g_max, g_jobs, g_ord;
static long delivered[4096]; static int ndel;
static void *job(void *a) { return a; }
static void rcb(void *res, void *cbdata) { (void)cbdata; delivered[ndel++] = (long)(intptr_t)res - 1; }
static void *caller_main(void *p)
{
	(void)p;
	g_pool = threadpool_init(g_max);
	g_rh = result_handler_init(rcb, NULL);
	g_rq = g_rh->rq;
	for (int j = 0; j < g_jobs; j++)
		threadpool_dispatch(g_pool, g_rh, g_ord, job, (void *)(intptr_t)(j + 1));
	result_handler_destroy(&g_rh);
	threadpool_destroy(&g_pool);
	return NULL;
}

/* ------------------------------------------------------------------ several clients sharing one pool (tp.multi)
 * thread 0 = pool owner: threadpool_init, starts the clients, joins them, threadpool_destroy;
 * each client: result_handler_init, n x threadpool_dispatch, result_handler_destroy.  No Lean machine runs alongside
 * (the machine has one client); the scheduler itself reports a dead-lock (nobody enabled before the owner is done), mutex
 * misuse, and the run reports every client's deliveries and the largest worker count seen. */
#define MAXC 8
static int g_clients; static long mdel[MAXC][4096]; static int mndel[MAXC]; static size_t g_maxcount;
static struct resultq *g_rqs[MAXC];
static void mrcb(void *res, void *cbdata) { int c = (int)(intptr_t)cbdata; if (mndel[c] < 4096) mdel[c][mndel[c]++] = (long)(intptr_t)res - 1; }
static void *client_main(void *p)
{
	int c = (int)(intptr_t)p;
	struct result_handler *rh = result_handler_init(mrcb, (void *)(intptr_t)c);
	g_rqs[c] = rh->rq;
	for (int j = 0; j < g_jobs; j++)
		threadpool_dispatch(g_pool, rh, g_ord, job, (void *)(intptr_t)(j + 1));
	result_handler_destroy(&rh);
	return NULL;
}
static void *owner_main(void *p)
{
	(void)p;
	pthread_t th[MAXC];
	g_pool = threadpool_init(g_max);
	for (int c = 0; c < g_clients; c++) vs_create(&th[c], NULL, client_main, (void *)(intptr_t)c);
	for (int c = 0; c < g_clients; c++) vs_join(th[c], NULL);
	threadpool_destroy(&g_pool);
	return NULL;
}
static int enabled(int i);
/* canonical thread order and names (the Lean machine's): o, c0, h0, c1, h1, ..., w0, w1, ... */
static int mrank(int i) { return T[i].role == 0 ? 0 : T[i].role == 1 ? 1 + 2 * T[i].ridx : T[i].role == 2 ? 2 + 2 * T[i].ridx : 1 + 2 * MAXC + T[i].ridx; }
static void mname(int i, char *b) { if (T[i].role == 0) strcpy(b, "o"); else sprintf(b, "%c%d", T[i].role == 1 ? 'c' : T[i].role == 2 ? 'h' : 'w', T[i].ridx); }
static int msorted(int *out) { int n = 0; for (int i = 0; i < nT; i++) out[n++] = i; for (int a = 1; a < n; a++) for (int b = a; b > 0 && mrank(out[b - 1]) > mrank(out[b]); b--) { int t = out[b]; out[b] = out[b - 1]; out[b - 1] = t; } return n; }
static int mwidx(struct thread *t) { for (int i = 0; i < nT; i++) if (T[i].role == 3 && T[i].st != T_DONE && T[i].arg == t) return T[i].ridx; return -1; }
static int mhandler_done(int c) { for (int i = 0; i < nT; i++) if (T[i].role == 2 && T[i].ridx == c) return T[i].st == T_DONE; return 0; }
static int mrqidx(struct resultq *rq) { for (int c = 0; c < g_clients; c++) if (g_rqs[c] == rq) return c; return -1; }
static char mcache[MAXC][400];
static void print_multi(void)
{
	static char out[32768]; char *p = out;
	if (T[0].st != T_DONE && g_pool && g_pool->count > g_maxcount) g_maxcount = g_pool->count;
	if (T[0].st == T_DONE) {
		p += sprintf(p, "mst done");
		for (int c = 0; c < g_clients; c++) {
			p += sprintf(p, " del%d=[", c);
			for (int i = 0; i < mndel[c]; i++) p += sprintf(p, "%s%ld", i ? "," : "", mdel[c][i]);
			p += sprintf(p, "]");
		}
		if (problem[0]) p += sprintf(p, " PROBLEM=%s", problem);
		puts(out); return;
	}
	p += sprintf(p, "mst run count=%zu idle=[", g_pool ? g_pool->count : 0);
	if (g_pool) { int k = 0; for (struct thread *t = g_pool->head; t && k < 100; t = t->next, k++) p += sprintf(p, "%s%d", k ? "," : "", mwidx(t)); }
	p += sprintf(p, "] thr=[");
	int ord[MAXT], n = msorted(ord), first = 1;
	for (int a = 0; a < n; a++) {
		int i = ord[a]; if (T[i].role != 3) continue;
		struct thread *t = T[i].arg;
		if (!first) p += sprintf(p, ";"); first = 0;
		if (T[i].st == T_DONE) p += sprintf(p, "x");
		else p += sprintf(p, "%d/%ld/%ld/%d", t->running ? 1 : 0, t->cb ? (long)(intptr_t)t->arg - 1 : -1L, t->res ? (long)(intptr_t)t->res - 1 : -1L, t->rq ? mrqidx(t->rq) : -1);
	}
	p += sprintf(p, "]");
	for (int c = 0; c < g_clients; c++) {
		if (!mcache[c][0]) strcpy(mcache[c], "[] nth=0 fin=0");
		if (g_rqs[c] && !mhandler_done(c)) {
			char *q = mcache[c]; q += sprintf(q, "["); int k = 0;
			for (struct thread *t = g_rqs[c]->head; t && k < 60; t = t->next, k++) q += sprintf(q, "%s%d", k ? "," : "", mwidx(t));
			sprintf(q, "] nth=%lld fin=%d", (long long)(int64_t)g_rqs[c]->nthreads, g_rqs[c]->finished ? 1 : 0);
		}
		p += sprintf(p, " q%d=%s del%d=[", c, mcache[c], c);
		for (int i = 0; i < mndel[c]; i++) p += sprintf(p, "%s%ld", i ? "," : "", mdel[c][i]);
		p += sprintf(p, "]");
	}
	char nb[16]; int k = 0;
	p += sprintf(p, " en=[");
	for (int a = 0; a < n; a++) if (enabled(ord[a])) { mname(ord[a], nb); p += sprintf(p, "%s%s", k++ ? "," : "", nb); }
	p += sprintf(p, "] sl=["); k = 0;
	for (int a = 0; a < n; a++) if (T[ord[a]].st == T_COND && !T[ord[a]].signalled) { mname(ord[a], nb); p += sprintf(p, "%s%s", k++ ? "," : "", nb); }
	p += sprintf(p, "]");
	if (problem[0]) p += sprintf(p, " PROBLEM=%s", problem);
	puts(out);
}

/* ------------------------------------------------------------------ controller */
static int enabled(int i)
{
	if (i >= nT) return 0;
	switch (T[i].st) {
	case T_READY: return T[i].want == NULL || *owner_of(T[i].want) == -1 || *owner_of(T[i].want) == i;
	case T_COND: return T[i].signalled && *owner_of(T[i].cmutex) == -1;
	case T_JOIN: return T[i].join_target >= 0 && T[T[i].join_target].st == T_DONE;
	default: return 0;
	}
}
/* thread ids: 0 = caller, 1 = handler, 2.. = workers in creation order */
static int widx(struct thread *t) { for (int i = 2; i < nT; i++) if (T[i].arg == t) return i - 2; return -1; }
static char cache_rq[512] = "q=[] nth=0 fin=0";
static int thr_freed[MAXT];
static void name_of(int i, char *b) { if (i == 0) strcpy(b, "c"); else if (i == 1) strcpy(b, "h"); else sprintf(b, "w%d", i - 2); }

static void print_state(void)
{
	static char out[8192]; char *p = out;
	if (T[0].st == T_DONE) {
		/* everything has been freed */
		p += sprintf(p, "st done del=[");
		for (int i = 0; i < ndel; i++) p += sprintf(p, "%s%ld", i ? "," : "", delivered[i]);
		p += sprintf(p, "]");
		puts(out); return;
	}
	p += sprintf(p, "st count=%zu idle=[", g_pool ? g_pool->count : 0);
	if (g_pool) { int k = 0; for (struct thread *t = g_pool->head; t && k < 100; t = t->next, k++) p += sprintf(p, "%s%d", k ? "," : "", widx(t)); }
	p += sprintf(p, "] ");
	if (T[1].st != T_DONE && g_rq) {
		char *q = cache_rq; q += sprintf(q, "q=["); int k = 0;
		for (struct thread *t = g_rq->head; t && k < 100; t = t->next, k++) q += sprintf(q, "%s%d", k ? "," : "", widx(t));
		sprintf(q, "] nth=%lld fin=%d", (long long)(int64_t)g_rq->nthreads, g_rq->finished ? 1 : 0);
	}
	p += sprintf(p, "%s del=[", cache_rq);
	for (int i = 0; i < ndel; i++) p += sprintf(p, "%s%ld", i ? "," : "", delivered[i]);
	p += sprintf(p, "] thr=[");
	for (int i = 2; i < nT; i++) {
		struct thread *t = T[i].arg;
		if (i > 2) p += sprintf(p, ";");
		if (T[i].st == T_DONE) p += sprintf(p, "x");
		else p += sprintf(p, "%d/%ld/%ld/%d", t->running ? 1 : 0, t->cb ? (long)(intptr_t)t->arg - 1 : -1L, t->res ? (long)(intptr_t)t->res - 1 : -1L, t->rq ? 1 : 0);
	}
	p += sprintf(p, "] en=[");
	int k = 0; char nb[16];
	for (int i = 0; i < nT; i++) if (enabled(i)) { name_of(i, nb); p += sprintf(p, "%s%s", k++ ? "," : "", nb); }
	p += sprintf(p, "] sl=[");
	k = 0;
	for (int i = 0; i < nT; i++) if (T[i].st == T_COND && !T[i].signalled) { name_of(i, nb); p += sprintf(p, "%s%s", k++ ? "," : "", nb); }
	p += sprintf(p, "]");
	if (problem[0]) p += sprintf(p, " PROBLEM=%s", problem);
	puts(out);
}

static int parse_who(const char *s)
{
	if (!strcmp(s, "c")) return 0;
	if (!strcmp(s, "h")) return 1;
	if (s[0] == 'w') return 2 + atoi(s + 1);
	return -1;
}
static void turn(int i) { sem_post(&T[i].go); sem_wait(&back); }

int main(void)
{
	static char line[4096];
	setvbuf(stdout, NULL, _IOLBF, 0);
	int started = 0;
	while (fgets(line, sizeof line, stdin)) {
		char *nl = strchr(line, '\n'); if (nl) *nl = 0;
		if (!strncmp(line, "tp.new", 6)) {
			if (started) { puts("bad-op"); continue; }          /* one run per process */
			started = 1;
			g_max = 1; g_jobs = 0; g_ord = 1;
			char *s;
			if ((s = strstr(line, "max="))) g_max = atoi(s + 4);
			if ((s = strstr(line, "jobs="))) g_jobs = atoi(s + 5);
			if ((s = strstr(line, "ord="))) g_ord = atoi(s + 4);
			sem_init(&back, 0, 0);
			nT = 1; T[0].st = T_READY; T[0].fresh = 0; sem_init(&T[0].go, 0, 0); T[0].fn = caller_main;
			pthread_create(&T[0].real, NULL, tramp, (void *)(intptr_t)0);
			turn(0);                                            /* runs the initialisation up to the first scheduling point */
			print_state();
			continue;
		}
		if (!strncmp(line, "tp.multi", 8)) {
			if (started) { puts("bad-op"); continue; }
			started = 2;
			g_max = 1; g_jobs = 0; g_ord = 1; g_clients = 2;
			char *s;
			if ((s = strstr(line, "max="))) g_max = atoi(s + 4);
			if ((s = strstr(line, "jobs="))) g_jobs = atoi(s + 5);
			if ((s = strstr(line, "ord="))) g_ord = atoi(s + 4);
			if ((s = strstr(line, "clients="))) g_clients = atoi(s + 8);
			if (g_clients < 1 || g_clients > MAXC) { puts("bad-op"); continue; }
			sem_init(&back, 0, 0);
			nT = 1; T[0].st = T_READY; T[0].fresh = 0; sem_init(&T[0].go, 0, 0); T[0].fn = owner_main;
			ncreate = 1;                                        /* every creation is a scheduling point here */
			g_multi = 1; T[0].role = 0; T[0].ridx = 0;
			pthread_create(&T[0].real, NULL, tramp, (void *)(intptr_t)0);
			turn(0);
			print_multi();
			continue;
		}
		if (!started) { puts("bad-op"); continue; }
		if (started == 2 && !strncmp(line, "tp.auto ", 8)) {
			unsigned long r = strtoul(line + 8, NULL, 10);
			int ord[MAXT], n = msorted(ord), cand[MAXT], nc = 0, sl[MAXT], ns = 0; char nb[16];
			for (int a = 0; a < n; a++) { int i = ord[a]; if (enabled(i)) cand[nc++] = i; if (T[i].st == T_COND && !T[i].signalled) sl[ns++] = i; }
			if (ns > 0 && (r >> 16) % 8 == 0) { int i = sl[(r >> 8) % ns]; T[i].signalled = 1; mname(i, nb); printf("pick s:%s ", nb); print_multi(); continue; }
			if (nc == 0) { printf("pick none "); print_multi(); continue; }
			int i = cand[r % nc]; mname(i, nb); printf("pick %s ", nb);
			turn(i); print_multi(); continue;
		}
		if (!strncmp(line, "tp.step ", 8)) {
			const char *w = line + 8; int spur = 0;
			if (!strncmp(w, "s:", 2)) { spur = 1; w += 2; }
			int i = parse_who(w);
			if (i < 0 || i >= nT) { puts("dis"); continue; }
			if (spur) {
				if (T[i].st != T_COND || T[i].signalled) { puts("dis"); continue; }
				T[i].signalled = 1;                                 /* woken without a signal: takes no turn yet */
				print_state(); continue;
			}
			if (!enabled(i)) { puts("dis"); continue; }
			turn(i);
			print_state();
			continue;
		}
		if (!strncmp(line, "tp.auto ", 8)) {
			unsigned long r = strtoul(line + 8, NULL, 10);
			int cand[MAXT], nc = 0, sl[MAXT], ns = 0;
			for (int i = 0; i < nT; i++) { if (enabled(i)) cand[nc++] = i; if (T[i].st == T_COND && !T[i].signalled) sl[ns++] = i; }
			char nb[16];
			if (ns > 0 && (r >> 16) % 8 == 0) {
				int i = sl[(r >> 8) % ns]; T[i].signalled = 1; name_of(i, nb); printf("pick s:%s ", nb); print_state(); continue;
			}
			if (nc == 0) { printf("pick none "); print_state(); continue; }
			int i = cand[r % nc]; name_of(i, nb); printf("pick %s ", nb);
			turn(i); print_state(); continue;
		}
		puts("bad-op");
	}
	return 0;
}
