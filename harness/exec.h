#ifndef VF_EXEC_H
#define VF_EXEC_H
#include <stdio.h>
#include <stdint.h>
#include <stddef.h>
#define MAXOBJ 4096
#define MAXARGS 8192
enum { K_NONE = 0, K_ANY = -1, K_WRITER = 1, K_READER, K_ITER, K_BLOB, K_MERGER, K_SORTER, K_FILESET, K_POOL };
struct obj {
	int kind, id;
	void *p;            /* the library object */
	void *aux;          /* family-specific */
	char path[300];
	size_t pre;         /* writer: prefix length */
	int comp;
	int fd;
	int is_null;        /* iterator: library returned NULL */
	int truncate_at_fin; /* writer: bytes followed the initial offset; cut the file at the writer's end */
};
extern struct obj objs[];
extern const char *vf_tmpdir;
int unhex(const char *s, uint8_t **out, size_t *len);
void puthex(FILE *f, const uint8_t *b, size_t n);
const char *kv(char **args, int nargs, const char *name);
long kvnum(char **args, int nargs, const char *name, long dflt);
uint8_t *read_file(const char *path, size_t *len);
struct obj *getobj(const char *ids, int kind);
struct obj *newobj(const char *ids, int kind);
int ops_table(char **args, int na);
int ops_codec(char **args, int na);
int ops_merger(char **args, int na);
int ops_mt(char **args, int na);
int ops_big(char **args, int na);
int ops_res(char **args, int na);
int ops_sorter(char **args, int na);
int ops_fileset(char **args, int na);
int ops_misc(char **args, int na);
void destroy_fileset(struct obj *o);
void destroy_sorter(struct obj *o);
void destroy_merger(struct obj *o);
#endif
