/*
 * Line-protocol executor: runs the operations of a script against the real library (compiled from
 * /repo's current working tree) and prints one observation per request.  Lines starting with '#'
 * on stdout are side-channel data for the orchestrator (compression tables, counters).
 */
#define _GNU_SOURCE
#include <sys/stat.h>
#include <sys/wait.h>
#include <assert.h>
#include <errno.h>
#include <fcntl.h>
#include <stdbool.h>
#include <stdint.h>
#include <stdio.h>
#include <stdlib.h>
#include <string.h>
#include <unistd.h>
#include "mtbl.h"
#include "shims/shims.h"
#include "exec.h"

const char *vf_tmpdir = "/tmp";
char vf_tooldir[400] = ".";
struct obj objs[MAXOBJ];

/* ---------- helpers ---------- */
static int hexval(int c) { if (c >= '0' && c <= '9') return c - '0'; if (c >= 'a' && c <= 'f') return c - 'a' + 10; return -1; }
int unhex(const char *s, uint8_t **out, size_t *len)
{
	if (strcmp(s, "-") == 0) { *out = malloc(1); *len = 0; return 0; }
	size_t n = strlen(s); if (n % 2) return -1;
	uint8_t *b = malloc(n / 2 + 1);
	for (size_t i = 0; i < n / 2; i++) {
		int a = hexval(s[2 * i]), c = hexval(s[2 * i + 1]);
		if (a < 0 || c < 0) { free(b); return -1; }
		b[i] = (uint8_t)(a * 16 + c);
	}
	*out = b; *len = n / 2; return 0;
}
void puthex(FILE *f, const uint8_t *b, size_t n)
{
	static const char *d = "0123456789abcdef";
	if (n == 0) { fputc('-', f); return; }
	for (size_t i = 0; i < n; i++) { fputc(d[b[i] >> 4], f); fputc(d[b[i] & 15], f); }
}
const char *kv(char **args, int nargs, const char *name)
{
	size_t l = strlen(name);
	for (int i = 0; i < nargs; i++)
		if (strncmp(args[i], name, l) == 0 && args[i][l] == '=') return args[i] + l + 1;
	return NULL;
}
long kvnum(char **args, int nargs, const char *name, long dflt)
{
	const char *v = kv(args, nargs, name);
	return v ? strtol(v, NULL, 10) : dflt;
}
uint8_t *read_file(const char *path, size_t *len)
{
	FILE *f = fopen(path, "rb"); if (!f) return NULL;
	fseek(f, 0, SEEK_END); long n = ftell(f); fseek(f, 0, SEEK_SET);
	uint8_t *b = malloc(n + 1); if (fread(b, 1, n, f) != (size_t)n) { fclose(f); free(b); return NULL; }
	fclose(f); *len = n; return b;
}
struct obj *getobj(const char *ids, int kind)
{
	long id = strtol(ids, NULL, 10);
	if (id < 0 || id >= MAXOBJ) return NULL;
	if (kind != K_ANY && objs[id].kind != kind) return NULL;
	return &objs[id];
}
struct obj *newobj(const char *ids, int kind)
{
	long id = strtol(ids, NULL, 10);
	if (id < 0 || id >= MAXOBJ) return NULL;
	memset(&objs[id], 0, sizeof objs[id]);
	objs[id].kind = kind; objs[id].id = (int)id;
	return &objs[id];
}

/* ---------- dispatcher ---------- */
int main(int argc, char **argv)
{
	if (argc > 1) vf_tmpdir = argv[1];
	{ char *sl = strrchr(argv[0], '/'); if (sl) { size_t l = sl - argv[0]; if (l < sizeof vf_tooldir) { memcpy(vf_tooldir, argv[0], l); vf_tooldir[l] = 0; } } }
	setvbuf(stdout, NULL, _IOLBF, 0);
	char *line = NULL; size_t cap = 0; ssize_t n;
	while ((n = getline(&line, &cap, stdin)) > 0) {
		while (n > 0 && (line[n - 1] == '\n' || line[n - 1] == '\r' || line[n - 1] == ' ')) line[--n] = 0;
		static char *args[MAXARGS]; int na = 0;
		for (char *p = strtok(line, " "); p && na < MAXARGS; p = strtok(NULL, " ")) args[na++] = p;
		if (na == 0) { puts("bad-op"); continue; }
		int r = -1;
		if (!strncmp(args[0], "w.", 2) || !strncmp(args[0], "r.", 2) || !strcmp(args[0], "blob") || !strcmp(args[0], "open.probe") || !strcmp(args[0], "excl.probe") || !strcmp(args[0], "reset") || !strcmp(args[0], "cfg"))
			r = ops_table(args, na);
		if (r < 0) r = ops_codec(args, na);
		if (r < 0 && !strncmp(args[0], "m.", 2)) r = ops_merger(args, na);
		if (r < 0 && !strncmp(args[0], "fs.", 3)) r = ops_fileset(args, na);
		if (r < 0 && (!strncmp(args[0], "cz.", 3) || !strncmp(args[0], "wa.", 3) || !strncmp(args[0], "tool.", 5) || !strncmp(args[0], "rv.", 3))) r = ops_misc(args, na);
		if (r < 0 && !strcmp(args[0], "rv.big4g")) r = ops_big(args, na);
		if (r < 0 && !strncmp(args[0], "res.", 4)) r = ops_res(args, na);
		if (r < 0 && (!strncmp(args[0], "s.", 2) || !strncmp(args[0], "sys.", 4))) r = ops_sorter(args, na);
		if (r < 0 && !strncmp(args[0], "mt.", 3)) r = ops_mt(args, na);
		if (r < 0) puts("bad-op");
		fflush(stdout);
	}
	return 0;
}
