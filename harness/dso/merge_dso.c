/* test merge DSO for src/mtbl_merge (MTBL_MERGE_DSO / MTBL_MERGE_FUNC_PREFIX=vfm): values are sequences of 2-byte tokens,
 * merge = sorted multiset union (the same function the merger family uses in-process) */
#include <stdint.h>
#include <stdlib.h>
#include <string.h>
static int tokcmp(const void *a, const void *b) { return memcmp(a, b, 2); }
void *vfm_init_func(void) { return calloc(1, 8); }
void vfm_free_func(void *clos) { free(clos); }
void vfm_func(void *clos, const uint8_t *key, size_t lk, const uint8_t *v0, size_t l0, const uint8_t *v1, size_t l1,
	      uint8_t **out, size_t *lout)
{
	(void)key; (void)lk;
	if (clos) ++*(long *)clos;
	size_t n = l0 + l1;
	uint8_t *b = malloc(n + 2);
	memcpy(b, v0, l0); memcpy(b + l0, v1, l1);
	qsort(b, n / 2, 2, tokcmp);
	*out = b; *lout = n;
}
