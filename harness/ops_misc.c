/* compression wrappers (C15), direct library calls for the level-clamping tie, write(2) scripts (C20) */
#define _GNU_SOURCE
#include <sys/wait.h>
#include <fcntl.h>
#include <limits.h>
#include <signal.h>
#include <stdbool.h>
#include <sys/mman.h>
#include <stdio.h>
#include <stdlib.h>
#include <string.h>
#include <unistd.h>
#include <lz4.h>
#include <lz4hc.h>
#include <snappy-c.h>
#include <zlib.h>
#include <zstd.h>
#include "mtbl.h"
#include "shims/shims.h"
#include "exec.h"

static mtbl_res wrap_compress(int algo, const char *level, const uint8_t *in, size_t n, uint8_t **out, size_t *on)
{
	if (!strcmp(level, "d")) return mtbl_compress(algo, in, n, out, on);
	return mtbl_compress_level(algo, atoi(level), in, n, out, on);
}


/* run mtbl_compress() / mtbl_decompress() in a child process with the library interposers reporting into a pipe.
 * which = 'c': args algo level input ; which = 'd': args algo stored.  Side lines: the "#lib" facts.
 * reply: ok <hex> | fail | abort | asan | crash:<sig> */
extern int vf_lib_fd; void vf_lib_levels(void);
static int cz_child_call(char which, int algo, const char *level, const uint8_t *in, size_t n)
{
	int pfd[2]; if (pipe(pfd)) return -1;
	fflush(stdout);
	pid_t pid = fork();
	if (pid == 0) {
		close(pfd[0]);
		int devnull = open("/dev/null", O_WRONLY); if (devnull >= 0) dup2(devnull, 2);
		vf_lib_fd = pfd[1];
		if (which == 'c' && algo == MTBL_COMPRESSION_ZSTD) vf_lib_levels();
		uint8_t *out = NULL; size_t on = 0;
		mtbl_res r = which == 'c' ? wrap_compress(algo, level, in, n, &out, &on) : mtbl_decompress(algo, in, n, &out, &on);
		vf_lib_fd = -1;
		FILE *p = fdopen(pfd[1], "w");
		if (r != mtbl_res_success) fputs("=fail\n", p);
		else { fputs("=ok ", p); puthex(p, out, on); fputc('\n', p); }
		fflush(p);
		_exit(10);
	}
	close(pfd[1]);
	FILE *rp = fdopen(pfd[0], "r");
	char *line = NULL; size_t cap = 0; ssize_t k; char *reply = NULL;
	while ((k = getline(&line, &cap, rp)) > 0) {
		if (line[0] == '#') fputs(line, stdout);
		else if (line[0] == '=') { free(reply); reply = strdup(line + 1); }
	}
	free(line); fclose(rp);
	int st = 0; waitpid(pid, &st, 0);
	if (WIFEXITED(st) && WEXITSTATUS(st) == 10 && reply) fputs(reply, stdout);
	else if (WIFEXITED(st) && WEXITSTATUS(st) == 99) puts("asan");
	else if (WIFSIGNALED(st) && WTERMSIG(st) == SIGABRT) puts("abort");
	else if (WIFSIGNALED(st)) printf("crash:%d\n", WTERMSIG(st));
	else printf("exit:%d\n", WEXITSTATUS(st));
	free(reply);
	return 0;
}

/* deterministic test buffers: kind in {zero, ff, period<k>, text, random, mixed, ramp} */
static uint64_t gz_s;
static uint64_t gz_rnd(void) { gz_s += 0x9e3779b97f4a7c15ull; uint64_t z = gz_s; z = (z ^ (z >> 30)) * 0xbf58476d1ce4e5b9ull; z = (z ^ (z >> 27)) * 0x94d049bb133111ebull; return z ^ (z >> 31); }
static void cz_fill(uint8_t *b, size_t n, const char *kind, uint64_t seed)
{
	gz_s = seed * 1000003 + 17;
	if (!strcmp(kind, "zero")) memset(b, 0, n);
	else if (!strcmp(kind, "ff")) memset(b, 0xff, n);
	else if (!strncmp(kind, "period", 6)) { int p = atoi(kind + 6); if (p < 1) p = 1; for (size_t i = 0; i < n; i++) b[i] = (uint8_t)(0x41 + (i % p) * 7); }
	else if (!strcmp(kind, "text")) { static const char *w[] = {"the ", "quick ", "brown ", "fox ", "mtbl ", "key ", "value ", "0123 "}; size_t i = 0; while (i < n) { const char *x = w[gz_rnd() % 8]; for (; *x && i < n; x++) b[i++] = *x; } }
	else if (!strcmp(kind, "random")) for (size_t i = 0; i < n; i++) b[i] = (uint8_t)gz_rnd();
	else if (!strcmp(kind, "ramp")) for (size_t i = 0; i < n; i++) b[i] = (uint8_t)i;
	else { size_t i = 0; while (i < n) { size_t run = 1 + gz_rnd() % 5000; int mode = gz_rnd() % 3; uint8_t c = (uint8_t)gz_rnd(); for (; run && i < n; run--, i++) b[i] = mode == 0 ? c : mode == 1 ? (uint8_t)gz_rnd() : (uint8_t)(i & 7); } }
}

int ops_misc(char **args, int na)
{
	const char *op = args[0];
	if (!strcmp(op, "cz.c") && na == 4) {
		uint8_t *in; size_t n; if (unhex(args[3], &in, &n)) return -1;
		int r = cz_child_call('c', atoi(args[1]), args[2], in, n); free(in); return r;
	}
	if (!strcmp(op, "cz.d") && na == 3) {
		uint8_t *in; size_t n; if (unhex(args[2], &in, &n)) return -1;
		int r = cz_child_call('d', atoi(args[1]), NULL, in, n); free(in); return r;
	}
	if (!strcmp(op, "cz.gen") && na == 4) {
		/* cz.gen <kind> <n> <seed> -> buf <hex> : deterministic buffer (real-only; its hex is bound to a variable) */
		size_t n = strtoul(args[2], NULL, 10); uint8_t *b = malloc(n + 1);
		cz_fill(b, n, args[1], strtoull(args[3], NULL, 10));
		printf("buf "); puthex(stdout, b, n); putchar('\n'); free(b); return 0;
	}
	if (!strcmp(op, "cz.big") && na == 6) {
		/* cz.big <algo> <level> <kind> <n> <seed>: round trip of a large generated buffer entirely on the real side
		 * (no model run: megabyte inputs are outside what the line protocol carries comfortably).
		 * reply: ok <stored length> | cfail | dfail | mismatch | abort | asan | crash */
		size_t n = strtoul(args[4], NULL, 10); uint8_t *in = malloc(n + 1); cz_fill(in, n, args[3], strtoull(args[5], NULL, 10));
		fflush(stdout);
		pid_t pid = fork();
		if (pid == 0) {
			int devnull = open("/dev/null", O_WRONLY); if (devnull >= 0) dup2(devnull, 2);
			uint8_t *out = NULL, *back = NULL; size_t on = 0, bn = 0;
			if (wrap_compress(atoi(args[1]), args[2], in, n, &out, &on) != mtbl_res_success) _exit(11);
			if (mtbl_decompress(atoi(args[1]), out, on, &back, &bn) != mtbl_res_success) _exit(12);
			if (bn != n || (n && memcmp(back, in, n))) _exit(13);
			_exit(10);
		}
		int st = 0; waitpid(pid, &st, 0); free(in);
		if (WIFEXITED(st) && WEXITSTATUS(st) == 10) puts("ok");
		else if (WIFEXITED(st) && WEXITSTATUS(st) == 11) puts("cfail");
		else if (WIFEXITED(st) && WEXITSTATUS(st) == 12) puts("dfail");
		else if (WIFEXITED(st) && WEXITSTATUS(st) == 13) puts("mismatch");
		else if (WIFEXITED(st) && WEXITSTATUS(st) == 99) puts("asan");
		else if (WIFSIGNALED(st) && WTERMSIG(st) == SIGABRT) puts("abort");
		else if (WIFSIGNALED(st)) printf("crash:%d\n", WTERMSIG(st));
		else printf("exit:%d\n", WEXITSTATUS(st));
		return 0;
	}
	if (!strcmp(op, "cz.huge") && (na == 4 || na == 5)) {
		/* cz.huge <algo> <level> <n>: n bytes of untouched anonymous zero pages (nothing is reserved) through compress and, when it
		 * reports success, decompress: sizes around the codecs' own input limits (LZ4_MAX_INPUT_SIZE = 0x7E000000, INT_MAX).
		 * reply as cz.big, or nomem */
		size_t n = strtoull(args[3], NULL, 10);
		int rnd = na == 5 && !strcmp(args[4], "random");      /* incompressible contents: the pages are really written */
		uint8_t *in = mmap(NULL, n + 8, PROT_READ | (rnd ? PROT_WRITE : 0), MAP_PRIVATE | MAP_ANONYMOUS | MAP_NORESERVE, -1, 0);
		if (in == MAP_FAILED) { puts("nomem"); return 0; }
		if (rnd) { uint64_t x = 0x9E3779B97F4A7C15ull ^ n; for (size_t i = 0; i < n; i += 8) { x ^= x << 13; x ^= x >> 7; x ^= x << 17; memcpy(in + i, &x, 8); } }
		fflush(stdout);
		pid_t pid = fork();
		if (pid == 0) {
			int devnull = open("/dev/null", O_WRONLY); if (devnull >= 0) dup2(devnull, 2);
			uint8_t *out = NULL, *back = NULL; size_t on = 0, bn = 0;
			if (wrap_compress(atoi(args[1]), args[2], in, n, &out, &on) != mtbl_res_success) _exit(11);
			if (mtbl_decompress(atoi(args[1]), out, on, &back, &bn) != mtbl_res_success) _exit(12);
			if (bn != n) _exit(13);
			if (rnd) { if (memcmp(back, in, n)) _exit(13); }
			else for (size_t i = 0; i < n; i += 4096) if (back[i]) _exit(13);
			_exit(10);
		}
		int st = 0; waitpid(pid, &st, 0); munmap(in, n + 8);
		if (WIFEXITED(st) && WEXITSTATUS(st) == 10) puts("ok");
		else if (WIFEXITED(st) && WEXITSTATUS(st) == 11) puts("cfail");
		else if (WIFEXITED(st) && WEXITSTATUS(st) == 12) puts("dfail");
		else if (WIFEXITED(st) && WEXITSTATUS(st) == 13) puts("mismatch");
		else if (WIFEXITED(st) && WEXITSTATUS(st) == 99) puts("asan");
		else if (WIFSIGNALED(st) && WTERMSIG(st) == SIGABRT) puts("abort");
		else if (WIFSIGNALED(st)) printf("crash:%d\n", WTERMSIG(st));
		else printf("exit:%d\n", WEXITSTATUS(st));
		return 0;
	}
	if (!strcmp(op, "cz.raw") && na == 4) {
		uint8_t *in; size_t n; if (unhex(args[3], &in, &n)) return -1;
		uint8_t *out = NULL; size_t on = 0;
		mtbl_res r = wrap_compress(atoi(args[1]), args[2], in, n, &out, &on);
		free(in);
		if (r != mtbl_res_success) { puts("fail"); return 0; }
		printf("stored "); puthex(stdout, out, on); putchar('\n'); free(out); return 0;
	}
	if (!strcmp(op, "cz.dec") && na == 3) {
		uint8_t *in; size_t n; if (unhex(args[2], &in, &n)) return -1;
		uint8_t *out = NULL; size_t on = 0;
		mtbl_res r = mtbl_decompress(atoi(args[1]), in, n, &out, &on);
		free(in);
		if (r != mtbl_res_success) { puts("fail"); return 0; }
		printf("raw "); puthex(stdout, out, on); putchar('\n'); free(out); return 0;
	}
	if (!strcmp(op, "cz.rt") && na == 4) {
		/* compress + decompress in a child so that an abort is a result.
		 * reply: ok <stored hex> | cfail | dfail | mismatch | abort | asan | crash:<sig> */
		uint8_t *in; size_t n; if (unhex(args[3], &in, &n)) return -1;
		int pfd[2]; if (pipe(pfd)) return -1;
		fflush(stdout);
		pid_t pid = fork();
		if (pid == 0) {
			close(pfd[0]);
			int devnull = open("/dev/null", O_WRONLY); if (devnull >= 0) dup2(devnull, 2);
			uint8_t *out = NULL, *back = NULL; size_t on = 0, bn = 0;
			if (wrap_compress(atoi(args[1]), args[2], in, n, &out, &on) != mtbl_res_success) _exit(11);
			FILE *p = fdopen(pfd[1], "w"); puthex(p, out, on); fflush(p);
			if (mtbl_decompress(atoi(args[1]), out, on, &back, &bn) != mtbl_res_success) _exit(12);
			if (bn != n || (n && memcmp(back, in, n))) _exit(13);
			_exit(10);
		}
		close(pfd[1]);
		static char buf[1 << 22]; size_t got = 0; ssize_t k;
		while ((k = read(pfd[0], buf + got, sizeof buf - 1 - got)) > 0) got += k;
		buf[got] = 0; close(pfd[0]);
		int st = 0; waitpid(pid, &st, 0); free(in);
		if (WIFEXITED(st) && WEXITSTATUS(st) == 10) printf("ok %s\n", buf);
		else if (WIFEXITED(st) && WEXITSTATUS(st) == 11) puts("cfail");
		else if (WIFEXITED(st) && WEXITSTATUS(st) == 12) puts("dfail");
		else if (WIFEXITED(st) && WEXITSTATUS(st) == 13) puts("mismatch");
		else if (WIFEXITED(st) && WEXITSTATUS(st) == 99) puts("asan");
		else if (WIFSIGNALED(st) && WTERMSIG(st) == SIGABRT) puts("abort");
		else if (WIFSIGNALED(st)) printf("crash:%d\n", WTERMSIG(st));
		else printf("exit:%d\n", WEXITSTATUS(st));
		return 0;
	}
	if (!strcmp(op, "cz.direct") && na == 4) {
		/* the library called directly with an explicit level and a destination of its own bound size:
		 * what the wrapper must produce if it clamps the level as the model says */
		int algo = atoi(args[1]); int level = atoi(args[2]);
		uint8_t *in; size_t n; if (unhex(args[3], &in, &n)) return -1;
		uint8_t *out = NULL; size_t on = 0; int ok = 1;
		if (algo == MTBL_COMPRESSION_ZLIB) {
			z_stream zs; memset(&zs, 0, sizeof zs);
			if (deflateInit(&zs, level) != Z_OK) ok = 0;
			else {
				on = deflateBound(&zs, n); out = malloc(on + 1);
				zs.avail_in = n; zs.next_in = in; zs.avail_out = on; zs.next_out = out;
				if (deflate(&zs, Z_FINISH) != Z_STREAM_END) ok = 0;
				on = zs.total_out; deflateEnd(&zs);
			}
		} else if (algo == MTBL_COMPRESSION_LZ4HC || algo == MTBL_COMPRESSION_LZ4) {
			int cap = LZ4_compressBound(n); out = malloc(cap + 4 + 1);
			int r = algo == MTBL_COMPRESSION_LZ4HC ? LZ4_compress_HC((char *)in, (char *)out + 4, n, cap, level)
							       : LZ4_compress_default((char *)in, (char *)out + 4, n, cap);
			if (r == 0) ok = 0;
			on = r + 4; mtbl_fixed_encode32(out, (uint32_t)n);
		} else if (algo == MTBL_COMPRESSION_ZSTD) {
			size_t cap = ZSTD_compressBound(n); out = malloc(cap + 1);
			size_t r = ZSTD_compress(out, cap, in, n, level);
			if (ZSTD_isError(r)) ok = 0;
			on = r;
		} else if (algo == MTBL_COMPRESSION_SNAPPY) {
			on = snappy_max_compressed_length(n); out = malloc(on + 1);
			if (snappy_compress((char *)in, n, (char *)out, &on) != SNAPPY_OK) ok = 0;
		} else ok = 0;
		free(in);
		if (!ok) { free(out); puts("fail"); return 0; }
		printf("stored "); puthex(stdout, out, on); putchar('\n'); free(out); return 0;
	}
	if ((!strcmp(op, "wa.file") || !strcmp(op, "wa.gen")) && na >= 2) {
		/* write a table (compression none) with write(2) outcomes taken from a script, in a child process.
		 * reply: ok file=<hex> calls=<sizes> | abort file=<hex of what reached the descriptor> calls=<sizes> */
		int i = 1; char **kvs = args + 1; int nkv = 0;
		while (i < na && strchr(args[i], '=')) { i++; nkv++; }
		char path[320]; snprintf(path, sizeof path, "%s/wa.mtbl", vf_tmpdir); unlink(path);
		char cpath[320]; snprintf(cpath, sizeof cpath, "%s/wa.calls", vf_tmpdir); unlink(cpath);
		const char *sc = kv(kvs, nkv, "script");
		fflush(stdout);
		pid_t pid = fork();
		if (pid == 0) {
			int devnull = open("/dev/null", O_WRONLY); if (devnull >= 0) dup2(devnull, 2);
			vf_write_script_len = 0; vf_write_script_pos = 0; vf_write_ncalls = 0;
			if (sc && strcmp(sc, "-")) {
				char *dup = strdup(sc);
				for (char *t = strtok(dup, ","); t && vf_write_script_len < VF_MAXSCRIPT; t = strtok(NULL, ",")) {
					int o = VF_W_FULL;
					if (t[0] == 'e') o = VF_W_EINTR; else if (t[0] == 'z') o = VF_W_ZERO; else if (t[0] == 'x') o = VF_W_ERR;
					else if (t[0] == 'p') o = atoi(t + 1);
					vf_write_script[vf_write_script_len++] = o;
				}
			}
			struct mtbl_writer_options *wo = mtbl_writer_options_init();
			mtbl_writer_options_set_compression(wo, MTBL_COMPRESSION_NONE);
			vf_min_block_size = kvnum(kvs, nkv, "minbs", 16);
			mtbl_writer_options_set_block_size(wo, kvnum(kvs, nkv, "bs", 64));
			mtbl_writer_options_set_block_restart_interval(wo, kvnum(kvs, nkv, "ri", 2));
			/* pool=<n>: the same writer with a thread pool — the blocks are then written by the result-handler thread,
			   in order, so the sequence of write(2) calls (and the script position of each) is unchanged */
			long npool = kvnum(kvs, nkv, "pool", -1);
			struct mtbl_threadpool *tp = NULL;
			if (npool >= 0) { tp = mtbl_threadpool_init((size_t)npool); mtbl_writer_options_set_threadpool(wo, tp); }
			int fd = open(path, O_RDWR | O_CREAT | O_EXCL, 0644);
			/* off=<n>: the writer gets a descriptor that already stands n bytes into the file (reserved leading bytes) */
			long off0 = kvnum(kvs, nkv, "off", 0);
			for (long q = 0; q < off0; q++) { uint8_t b = 0xEE; if (write(fd, &b, 1) != 1) _exit(5); }
			struct mtbl_writer *w = mtbl_writer_init_fd(fd, wo);
			vf_write_armed = 1;
			/* record the calls even if we abort: flush them from an atexit-free path by writing after every add is not
			 * possible, so install a SIGABRT handler that dumps the call log */
			extern void vf_dump_calls_on_abort(const char *);
			vf_dump_calls_on_abort(cpath);
			for (int j = i; j + 1 < na; j += 2) {
				uint8_t *k, *v; size_t kl, vl;
				if (unhex(args[j], &k, &kl) || unhex(args[j + 1], &v, &vl)) _exit(3);
				if (mtbl_writer_add(w, k, kl, v, vl) != mtbl_res_success) _exit(4);
			}
			/* gen=<n>x<vlen>: n generated entries with values of vlen pseudo-random bytes (megabytes of output without
			   carrying them over the line protocol) */
			const char *gen = kv(kvs, nkv, "gen");
			if (gen) {
				long gn = atol(gen); const char *x = strchr(gen, 'x'); long gv = x ? atol(x + 1) : 100;
				uint8_t *v = malloc((size_t)gv + 1); uint64_t r = 0x9E3779B97F4A7C15ull;
				for (long e = 0; e < gn; e++) {
					char kb[24]; int kl = snprintf(kb, sizeof kb, "g%07ld", e);
					for (long b = 0; b < gv; b++) { r ^= r << 13; r ^= r >> 7; r ^= r << 17; v[b] = (uint8_t)r; }
					if (mtbl_writer_add(w, (uint8_t *)kb, (size_t)kl, v, (size_t)gv) != mtbl_res_success) _exit(4);
				}
				free(v);
			}
			mtbl_writer_destroy(&w);
			vf_write_armed = 0;
			if (tp) mtbl_threadpool_destroy(&tp);
			FILE *cf = fopen(cpath, "w");
			for (int c = 0; c < vf_write_ncalls; c++) fprintf(cf, "%s%zu", c ? "," : "", vf_write_calls[c].n);
			fclose(cf);
			_exit(10);
		}
		int st = 0; waitpid(pid, &st, 0);
		size_t n = 0; uint8_t *f = read_file(path, &n);
		size_t cn = 0; uint8_t *cf = read_file(cpath, &cn);
		const char *tag = (WIFEXITED(st) && WEXITSTATUS(st) == 10) ? "ok" :
				  (WIFSIGNALED(st) && WTERMSIG(st) == SIGABRT) ? "abort" :
				  (WIFEXITED(st) && WEXITSTATUS(st) == 99) ? "asan" : "died";
		if (kv(kvs, nkv, "gen")) {
			/* large file: FNV-1a 64 of the bytes instead of the bytes, and the number of write calls instead of their sizes */
			uint64_t h = 1469598103934665603ull; for (size_t q = 0; f && q < n; q++) { h ^= f[q]; h *= 1099511628211ull; }
			long ncalls = 0; for (size_t q = 0; cf && q < cn; q++) if (cf[q] == ',') ncalls++;
			printf("%s file=#%016llx len=%zu ncalls=%ld\n", tag, (unsigned long long)h, f ? n : 0, cn ? ncalls + 1 : 0);
		} else {
		printf("%s file=", tag); puthex(stdout, f ? f : (uint8_t *)"", f ? n : 0);
		printf(" calls=%.*s\n", (int)cn, cf ? (char *)cf : "");
		}
		free(f); free(cf); unlink(path); unlink(cpath);
		return 0;
	}
	if ((!strcmp(op, "tool.dump") || !strcmp(op, "tool.info")) && na >= 2) {
		/* run the repository's mtbl_dump / mtbl_info (built from the working tree) on a blob.
		 * tool.dump <blob> [x=1] [s=1] [k=<hex>] [v=<hex>] [K=<n>] [V=<n>]
		 *   -> dump exit=<n> n=<lines> out=<hex of stdout> | out=#<fnv1a-64 of stdout> when stdout is larger than 3000 bytes
		 * tool.info <blob> -> info exit=<n> size=.. ibo=.. ib=.. db=.. bs=.. dbc=.. ec=.. kb=.. vb=.. algo=<name> */
		struct obj *b = getobj(args[1], K_BLOB); if (!b) return -1;
		extern char vf_tooldir[];
		char cmd[1600]; int isdump = !strcmp(op, "tool.dump");
		int n = snprintf(cmd, sizeof cmd, "LC_ALL=C %s/%s", vf_tooldir, isdump ? "mtbl_dump" : "mtbl_info");
		if (isdump) {
			if (kvnum(args + 2, na - 2, "x", 0)) n += snprintf(cmd + n, sizeof cmd - n, " -x");
			if (kvnum(args + 2, na - 2, "s", 0)) n += snprintf(cmd + n, sizeof cmd - n, " -s");
			const char *k = kv(args + 2, na - 2, "k"); if (k) n += snprintf(cmd + n, sizeof cmd - n, " -k '%s'", k);
			const char *v = kv(args + 2, na - 2, "v"); if (v) n += snprintf(cmd + n, sizeof cmd - n, " -v '%s'", v);
			const char *K = kv(args + 2, na - 2, "K"); if (K) n += snprintf(cmd + n, sizeof cmd - n, " -K '%s'", K);
			const char *V = kv(args + 2, na - 2, "V"); if (V) n += snprintf(cmd + n, sizeof cmd - n, " -V '%s'", V);
		}
		snprintf(cmd + n, sizeof cmd - n, " '%s' 2>/dev/null", b->path);
		fflush(stdout);
		FILE *p = popen(cmd, "r"); if (!p) return -1;
		size_t cap = 1 << 16, got = 0; char *out = malloc(cap);
		for (;;) { size_t k = fread(out + got, 1, cap - got, p); got += k; if (k == 0) break; if (got == cap) { cap *= 2; out = realloc(out, cap); } }
		int st = pclose(p);
		int ex = WIFEXITED(st) ? WEXITSTATUS(st) : 1000 + st;
		if (isdump) {
			long lines = 0; for (size_t i = 0; i < got; i++) if (out[i] == '\n') lines++;
			printf("dump exit=%d n=%ld out=", ex, lines);
			if (got <= 3000) puthex(stdout, (uint8_t *)out, got);
			else { uint64_t h = 0xcbf29ce484222325ull; for (size_t i = 0; i < got; i++) { h ^= (uint8_t)out[i]; h *= 0x100000001b3ull; } printf("#%llu", (unsigned long long)h); }
			putchar('\n');
		} else {
			/* pick the integer after each label */
			static const char *lab[] = {"file size:", "index block offset:", "index bytes:", "data block bytes", "data block size:", "data block count", "entry count:", "key bytes:", "value bytes:"};
			static const char *nm[] = {"size", "ibo", "ib", "db", "bs", "dbc", "ec", "kb", "vb"};
			out = realloc(out, got + 1); out[got] = 0;
			printf("info exit=%d", ex);
			for (int i = 0; i < 9; i++) { char *q = strstr(out, lab[i]); if (q) { q += strlen(lab[i]); printf(" %s=%llu", nm[i], strtoull(q, NULL, 10)); } else printf(" %s=?", nm[i]); }
			char *q = strstr(out, "compression algorithm:"); char algo[64] = "?";
			if (q) sscanf(q + strlen("compression algorithm:"), " %63s", algo);
			printf(" algo=%s\n", algo);
		}
		free(out);
		return 0;
	}
	if (!strcmp(op, "tool.verify") && na == 2) {
		/* run the repository's mtbl_verify (built from the working tree) on a blob */
		struct obj *b = getobj(args[1], K_BLOB); if (!b) return -1;
		extern char vf_tooldir[];
		char cmd[900]; snprintf(cmd, sizeof cmd, "%s/mtbl_verify '%s' 2>/dev/null", vf_tooldir, b->path);
		fflush(stdout);
		FILE *p = popen(cmd, "r"); if (!p) return -1;
		char out[4096]; size_t got = fread(out, 1, sizeof out - 1, p); out[got] = 0;
		int st = pclose(p);
		const char *verdict = strstr(out, ": OK") ? "OK" : strstr(out, ": FAILED") ? "FAILED" : "none";
		if (WIFEXITED(st) && WEXITSTATUS(st) == 0) printf("verify %s exit=0\n", verdict);
		else if (WIFEXITED(st) && WEXITSTATUS(st) == 1) printf("verify %s exit=1\n", verdict);
		else if (WIFEXITED(st) && (WEXITSTATUS(st) == 134 || WEXITSTATUS(st) == 128 + SIGABRT)) printf("verify %s abort\n", verdict);
		else if (WIFEXITED(st) && WEXITSTATUS(st) == 99) printf("verify %s asan\n", verdict);
		else printf("verify %s status=%d\n", verdict, st);
		return 0;
	}
	if (!strcmp(op, "rv.read") && na >= 2) {
		/* a verifying (or not) reader in a child process: how many entries come out before it ends, and how it ends */
		struct obj *b = getobj(args[1], K_BLOB); if (!b) return -1;
		int verify = (int)kvnum(args + 2, na - 2, "verify", 1);
		const char *gk = kv(args + 2, na - 2, "get");
		int pfd[2]; if (pipe(pfd)) return -1;
		fflush(stdout);
		pid_t pid = fork();
		if (pid == 0) {
			close(pfd[0]);
			int devnull = open("/dev/null", O_WRONLY); if (devnull >= 0) dup2(devnull, 2);
			struct mtbl_reader_options *ro = mtbl_reader_options_init();
			mtbl_reader_options_set_verify_checksums(ro, verify);
			/* madv=<0|1>: the other reader option, set AFTER verify_checksums (the order bindings use) */
			if (kv(args + 2, na - 2, "madv")) mtbl_reader_options_set_madvise_random(ro, (int)kvnum(args + 2, na - 2, "madv", 0));
			struct mtbl_reader *r = mtbl_reader_init(b->path, ro);
			if (!r) _exit(11);
			struct mtbl_iter *it;
			const char *fk = kv(args + 2, na - 2, "first");
			if (fk) {
				/* an earlier lookup on the SAME reader (typically of a key in a later block): its entries are not counted */
				uint8_t *k0; size_t kl0; const uint8_t *k, *v; size_t kl, vl;
				if (unhex(fk, &k0, &kl0)) _exit(3);
				struct mtbl_iter *it0 = mtbl_source_get(mtbl_reader_source(r), k0, kl0);
				while (mtbl_iter_next(it0, &k, &kl, &v, &vl) == mtbl_res_success) ;
				mtbl_iter_destroy(&it0);
			}
			if (gk) { uint8_t *k; size_t kl; if (unhex(gk, &k, &kl)) _exit(3); it = mtbl_source_get(mtbl_reader_source(r), k, kl); }
			else it = mtbl_source_iter(mtbl_reader_source(r));
			const uint8_t *k, *v; size_t kl, vl; long n = 0;
			const char *wk = kv(args + 2, na - 2, "warm"), *sk = kv(args + 2, na - 2, "seek");
			if (wk) {
				/* position the SAME iterator in another block first: seek + one next (not counted) */
				uint8_t *kk; size_t kkl; if (unhex(wk, &kk, &kkl)) _exit(3);
				mtbl_iter_seek(it, kk, kkl);
				mtbl_iter_next(it, &k, &kl, &v, &vl);
			}
			if (sk) { uint8_t *kk; size_t kkl; if (unhex(sk, &kk, &kkl)) _exit(3); mtbl_iter_seek(it, kk, kkl); }
			FILE *p = fdopen(pfd[1], "w");
			while (mtbl_iter_next(it, &k, &kl, &v, &vl) == mtbl_res_success) {
				n++; fprintf(p, "%ld ", n); puthex(p, k, kl); fputc('\n', p); fflush(p);
			}
			_exit(10);
		}
		close(pfd[1]);
		FILE *p = fdopen(pfd[0], "r"); char line[70000]; long n = 0; char last[70000] = "-";
		while (fgets(line, sizeof line, p)) { char kk[70000]; if (sscanf(line, "%ld %69999s", &n, kk) == 2) strcpy(last, kk); }
		fclose(p);
		int st = 0; waitpid(pid, &st, 0);
		const char *end = (WIFEXITED(st) && WEXITSTATUS(st) == 10) ? "eof" : (WIFEXITED(st) && WEXITSTATUS(st) == 11) ? "null" :
				  (WIFSIGNALED(st) && WTERMSIG(st) == SIGABRT) ? "abort" : (WIFEXITED(st) && WEXITSTATUS(st) == 99) ? "asan" : "crash";
		printf("read %ld %s %s\n", n, last, end);
		return 0;
	}
	if (!strcmp(op, "wa.huge") && na >= 2) {
		/* finding F11: an entry whose value is 2^32 + extra bytes long, in a child process.  The value is an untouched
		 * anonymous mapping (reads as zeros, costs no memory); the table is written to a real file (compression none),
		 * read back and removed.  reply: add=<ok|fail>,<ok|fail> read=<entries> lens=<vlen,...> end=<eof|abort|null|crash> */
		unsigned long long extra = strtoull(args[1], NULL, 10);
		size_t vl = ((size_t)1 << 32) + (size_t)extra;
		char path[320]; snprintf(path, sizeof path, "%s/huge.mtbl", vf_tmpdir); unlink(path);
		int pfd[2]; if (pipe(pfd)) return -1;
		fflush(stdout);
		pid_t pid = fork();
		if (pid == 0) {
			close(pfd[0]);
			int devnull = open("/dev/null", O_WRONLY); if (devnull >= 0) dup2(devnull, 2);
			FILE *p = fdopen(pfd[1], "w");
			uint8_t *v = mmap(NULL, vl, PROT_READ, MAP_PRIVATE | MAP_ANONYMOUS | MAP_NORESERVE, -1, 0);
			if (v == MAP_FAILED) { fprintf(p, "nomem\n"); fflush(p); _exit(12); }
			struct mtbl_writer_options *wo = mtbl_writer_options_init();
			mtbl_writer_options_set_compression(wo, MTBL_COMPRESSION_NONE);
			struct mtbl_writer *w = mtbl_writer_init(path, wo);
			if (!w) { fprintf(p, "nomem\n"); fflush(p); _exit(12); }
			mtbl_res r1 = mtbl_writer_add(w, (const uint8_t *)"a", 1, v, vl);
			mtbl_res r2 = mtbl_writer_add(w, (const uint8_t *)"b", 1, (const uint8_t *)"x", 1);
			fprintf(p, "add=%s,%s ", r1 == mtbl_res_success ? "ok" : "fail", r2 == mtbl_res_success ? "ok" : "fail"); fflush(p);
			mtbl_writer_destroy(&w);
			munmap(v, vl);
			struct mtbl_reader *r = mtbl_reader_init(path, NULL);
			if (!r) { fprintf(p, "read=0 lens=- end=null\n"); fflush(p); _exit(10); }
			struct mtbl_iter *it = mtbl_source_iter(mtbl_reader_source(r));
			const uint8_t *k, *val; size_t kl, vlen; long n = 0; char lens[256] = ""; size_t lo = 0;
			fprintf(p, "read="); fflush(p);
			while (n < 8 && mtbl_iter_next(it, &k, &kl, &val, &vlen) == mtbl_res_success) {
				n++; lo += snprintf(lens + lo, sizeof lens - lo, "%s%zu", lo ? "," : "", vlen);
			}
			fprintf(p, "%ld lens=%s end=eof\n", n, lo ? lens : "-"); fflush(p);
			_exit(10);
		}
		close(pfd[1]);
		FILE *p = fdopen(pfd[0], "r"); char line[1024] = ""; size_t ll = 0; int ch;
		while ((ch = fgetc(p)) != EOF && ll + 1 < sizeof line) if (ch != '\n') line[ll++] = (char)ch;
		line[ll] = 0; fclose(p);
		int st = 0; waitpid(pid, &st, 0);
		unlink(path);
		if (WIFEXITED(st) && WEXITSTATUS(st) == 10) printf("%s\n", line);
		else if (WIFEXITED(st) && WEXITSTATUS(st) == 12) puts("nomem");
		else printf("%s%s end=%s\n", line, strstr(line, "read=") ? "? lens=?" : " read=0 lens=-",
			    (WIFSIGNALED(st) && WTERMSIG(st) == SIGABRT) ? "abort" : (WIFEXITED(st) && WEXITSTATUS(st) == 99) ? "asan" : "crash");
		return 0;
	}
	if (!strcmp(op, "cz.libinfo")) {
		printf("lib zstdmin=%d zstdmax=%d\n", ZSTD_minCLevel(), ZSTD_maxCLevel()); return 0;
	}
	if (!strcmp(op, "cz.name") && na == 2) {
		mtbl_compression_type t = 99;
		if (mtbl_compression_type_from_str(args[1], &t) == mtbl_res_success) printf("type %d\n", (int)t); else puts("fail");
		return 0;
	}
	if (!strcmp(op, "cz.tostr") && na == 2) {
		const char *s = mtbl_compression_type_to_str(atoi(args[1]));
		if (s) printf("name %s\n", s); else puts("null");
		return 0;
	}
	return -1;
}
