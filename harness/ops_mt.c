/* C14: the concurrent uses the API allows, as one request (run under ThreadSanitizer in the "tsan" build):
 *   mt.run callers=<n> pool=<k> readers=<r> entries=<e> seed=<s> sorters=<0|1> rounds=<q>
 * n caller threads meet at a barrier and each drives its own pooled writer (and, with sorters=1, its own pooled sorter)
 * on ONE shared mtbl_threadpool of k threads; r further threads iterate and query one shared open reader through
 * their own iterators.  Every file written is read back and counted.
 * reply: ok writers=<n> sorters=<m> readers=<r> | mismatch <what>       (a ThreadSanitizer report ends the process) */
#define _GNU_SOURCE
#include <pthread.h>
#include <stdbool.h>
#include <stdint.h>
#include <stdio.h>
#include <stdlib.h>
#include <string.h>
#include <unistd.h>
#include "mtbl.h"
#include "shims/shims.h"
#include "exec.h"

struct mt_ctx {
	int id, entries, sorter, exact, extra; uint64_t seed;
	struct mtbl_threadpool *tp; pthread_barrier_t *bar; struct mtbl_reader *shared;
	char path[400]; char err[200];
};
static void mt_key(char *b, uint64_t seed, int i) { sprintf(b, "k%08d-%02x", i, (unsigned)((seed * 2654435761u + i * 40503u) >> 24) & 0xff); }
static void mt_merge(void *c, const uint8_t *k, size_t lk, const uint8_t *v0, size_t l0, const uint8_t *v1, size_t l1, uint8_t **o, size_t *lo)
{ (void)c; (void)k; (void)lk; *o = malloc(l0 + l1 + 1); memcpy(*o, v0, l0); memcpy(*o + l0, v1, l1); *lo = l0 + l1; }

static long count_file(const char *path)
{
	struct mtbl_reader *r = mtbl_reader_init(path, NULL); if (!r) return -1;
	struct mtbl_iter *it = mtbl_source_iter(mtbl_reader_source(r));
	const uint8_t *k, *v; size_t lk, lv; long n = 0;
	while (mtbl_iter_next(it, &k, &lk, &v, &lv) == mtbl_res_success) n++;
	mtbl_iter_destroy(&it); mtbl_reader_destroy(&r); return n;
}
static void *mt_caller(void *p)
{
	struct mt_ctx *c = p; char key[64], val[64];
	pthread_barrier_wait(c->bar);
	struct mtbl_writer_options *wo = mtbl_writer_options_init();
	/* every codec in turn (workers of one pool compress blocks of different writers, and of one writer, concurrently) */
	static const mtbl_compression_type codecs[] = { MTBL_COMPRESSION_ZLIB, MTBL_COMPRESSION_ZSTD, MTBL_COMPRESSION_NONE,
		MTBL_COMPRESSION_LZ4, MTBL_COMPRESSION_SNAPPY, MTBL_COMPRESSION_LZ4HC };
	mtbl_writer_options_set_compression(wo, codecs[(c->id + c->seed) % 6]);
	mtbl_writer_options_set_block_size(wo, 64);
	mtbl_writer_options_set_threadpool(wo, c->tp);
	unlink(c->path);
	struct mtbl_writer *w = mtbl_writer_init(c->path, wo);
	if (!w) { snprintf(c->err, sizeof c->err, "writer_init failed"); mtbl_writer_options_destroy(&wo); return NULL; }
	if (c->sorter) {
		struct mtbl_sorter_options *so = mtbl_sorter_options_init();
		mtbl_sorter_options_set_merge_func(so, mt_merge, NULL);
		mtbl_sorter_options_set_temp_dir(so, vf_tmpdir);
		mtbl_sorter_options_set_max_memory(so, 2000);
		mtbl_sorter_options_set_threadpool(so, c->tp);
		struct mtbl_sorter *s = mtbl_sorter_init(so);
		for (int i = c->entries - 1; i >= 0; i--) { mt_key(key, c->seed, i); sprintf(val, "v%d", i); mtbl_sorter_add(s, (uint8_t *)key, strlen(key), (uint8_t *)val, strlen(val)); }
		if (c->exact) {
			/* stop adding exactly when a chunk has just been handed to the pool: nothing is left in memory at mtbl_sorter_write() */
			extern size_t vf_sorter_pending(struct mtbl_sorter *);
			for (int i = c->entries; vf_sorter_pending(s) != 0 && i < c->entries + 4000; i++) {
				mt_key(key, c->seed, i); sprintf(val, "v%d", i); mtbl_sorter_add(s, (uint8_t *)key, strlen(key), (uint8_t *)val, strlen(val)); c->extra++;
			}
		}
		if (mtbl_sorter_write(s, w) != mtbl_res_success) snprintf(c->err, sizeof c->err, "sorter_write failed");
		mtbl_sorter_destroy(&s); mtbl_sorter_options_destroy(&so);
	} else {
		for (int i = 0; i < c->entries; i++) {
			mt_key(key, c->seed, i); sprintf(val, "value-%d-%d", c->id, i);
			if (mtbl_writer_add(w, (uint8_t *)key, strlen(key), (uint8_t *)val, strlen(val)) != mtbl_res_success) snprintf(c->err, sizeof c->err, "add failed");
		}
	}
	mtbl_writer_destroy(&w); mtbl_writer_options_destroy(&wo);
	long n = count_file(c->path);
	if (n != c->entries + c->extra && !c->err[0]) snprintf(c->err, sizeof c->err, "file of caller %d holds %ld entries, expected %d", c->id, n, c->entries);
	unlink(c->path);
	return NULL;
}
static void *mt_reader(void *p)
{
	struct mt_ctx *c = p; char key[64];
	pthread_barrier_wait(c->bar);
	const struct mtbl_source *src = mtbl_reader_source(c->shared);
	const uint8_t *k, *v; size_t lk, lv; long n = 0;
	struct mtbl_iter *it = mtbl_source_iter(src);
	while (mtbl_iter_next(it, &k, &lk, &v, &lv) == mtbl_res_success) n++;
	mtbl_iter_destroy(&it);
	if (n != c->entries) snprintf(c->err, sizeof c->err, "reader thread %d counted %ld of %d", c->id, n, c->entries);
	for (int i = c->id; i < c->entries; i += 7) {
		mt_key(key, c->seed, i);
		it = mtbl_source_get(src, (uint8_t *)key, strlen(key));
		if (mtbl_iter_next(it, &k, &lk, &v, &lv) != mtbl_res_success) snprintf(c->err, sizeof c->err, "reader thread %d: get(%s) found nothing", c->id, key);
		mtbl_iter_destroy(&it);
		it = mtbl_source_get_prefix(src, (uint8_t *)key, 6);
		mtbl_iter_seek(it, (uint8_t *)key, strlen(key));
		mtbl_iter_next(it, &k, &lk, &v, &lv);
		mtbl_iter_destroy(&it);
	}
	return NULL;
}

int ops_mt(char **args, int na)
{
	if (strcmp(args[0], "mt.run")) return -1;
	int callers = kvnum(args + 1, na - 1, "callers", 2), pool = kvnum(args + 1, na - 1, "pool", 2), readers = kvnum(args + 1, na - 1, "readers", 2);
	int entries = kvnum(args + 1, na - 1, "entries", 400), sorters = kvnum(args + 1, na - 1, "sorters", 0), rounds = kvnum(args + 1, na - 1, "rounds", 1);
	uint64_t seed = kvnum(args + 1, na - 1, "seed", 1);
	size_t save_bs = vf_min_block_size, save_sm = vf_min_sorter_memory;
	vf_min_block_size = 64; vf_min_sorter_memory = 1000;
	char bad[256] = "";
	for (int q = 0; q < rounds && !bad[0]; q++) {
		/* the shared table for the reader threads */
		char spath[400]; snprintf(spath, sizeof spath, "%s/mt-shared.mtbl", vf_tmpdir); unlink(spath);
		struct mtbl_writer_options *wo = mtbl_writer_options_init(); mtbl_writer_options_set_block_size(wo, 64);
		struct mtbl_writer *w = mtbl_writer_init(spath, wo); char key[64];
		for (int i = 0; i < entries; i++) { mt_key(key, seed, i); mtbl_writer_add(w, (uint8_t *)key, strlen(key), (uint8_t *)"x", 1); }
		mtbl_writer_destroy(&w); mtbl_writer_options_destroy(&wo);
		struct mtbl_reader_options *ro = mtbl_reader_options_init(); mtbl_reader_options_set_verify_checksums(ro, true);
		struct mtbl_reader *shared = mtbl_reader_init(spath, ro); mtbl_reader_options_destroy(&ro);
		struct mtbl_threadpool *tp = mtbl_threadpool_init(pool);
		int nthr = callers + readers; pthread_barrier_t bar; pthread_barrier_init(&bar, NULL, nthr);
		struct mt_ctx *cx = calloc(nthr, sizeof *cx); pthread_t *th = calloc(nthr, sizeof *th);
		for (int i = 0; i < nthr; i++) {
			cx[i].id = i; cx[i].entries = entries; cx[i].seed = seed + q; cx[i].tp = tp; cx[i].bar = &bar; cx[i].shared = shared;
			cx[i].sorter = sorters && (i % 2 == 1 || sorters == 2);
			cx[i].exact = cx[i].sorter && ((q + i) % 2 == 0);
			if (i >= callers) cx[i].seed = seed;
			snprintf(cx[i].path, sizeof cx[i].path, "%s/mt-%d.mtbl", vf_tmpdir, i);
			pthread_create(&th[i], NULL, i < callers ? mt_caller : mt_reader, &cx[i]);
		}
		for (int i = 0; i < nthr; i++) { pthread_join(th[i], NULL); if (cx[i].err[0] && !bad[0]) snprintf(bad, sizeof bad, "%s", cx[i].err); }
		pthread_barrier_destroy(&bar); free(cx); free(th);
		mtbl_threadpool_destroy(&tp); mtbl_reader_destroy(&shared); unlink(spath);
	}
	vf_min_block_size = save_bs; vf_min_sorter_memory = save_sm;
	if (bad[0]) { for (char *p = bad; *p; p++) if (*p == ' ') *p = '_'; printf("mismatch %s\n", bad); }
	else printf("ok callers=%d pool=%d readers=%d sorters=%d rounds=%d\n", callers, pool, readers, sorters, rounds);
	return 0;
}
