#ifndef VF_SHIMS_H
#define VF_SHIMS_H
#include <sys/types.h>
#include <stdint.h>
#include <stddef.h>
#include <time.h>
#define VF_MAXSCRIPT 4096
#define VF_MAXCALLS 4096
#define VF_MAXTMPL 256
/* write outcomes: >0 = partial of that many bytes; 0 = full; -1 = EINTR; -2 = return 0; <= -3 = hard error (errno = -(o+3) or EIO) */
#define VF_W_FULL 0
#define VF_W_EINTR (-1)
#define VF_W_ZERO (-2)
#define VF_W_ERR (-3)
struct vf_wcall { const void *buf; size_t n; off_t off; };
extern int vf_write_armed, vf_write_script[], vf_write_script_len, vf_write_script_pos, vf_write_ncalls;
extern struct vf_wcall vf_write_calls[];
extern long vf_write_faults_fired;
extern long vf_mmap_live, vf_mmap_total;
extern char vf_mkstemp_templates[][256]; extern int vf_mkstemp_n;
extern int vf_clock_armed; extern struct timespec vf_clock_now; extern long vf_clock_reads;
extern size_t vf_min_block_size, vf_min_sorter_memory; extern const size_t vf_real_min_block_size, vf_real_min_sorter_memory;
extern uint64_t vf_thr; extern const uint64_t vf_real_thr;
size_t vf_sizeof_sorter_entry(void);
#endif
