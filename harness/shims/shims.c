/* passive-by-default shims for write, mmap, mkstemp, clock_gettime */
#define _GNU_SOURCE
#include <sys/mman.h>
#include <sys/stat.h>
#include <errno.h>
#include <stdint.h>
#include <stdio.h>
#include <stdlib.h>
#include <string.h>
#include <time.h>
#include <unistd.h>
#include "shims.h"

/* ---- write(2) script ---- */
int vf_write_armed = 0;
int vf_write_script[VF_MAXSCRIPT]; int vf_write_script_len = 0, vf_write_script_pos = 0;
struct vf_wcall vf_write_calls[VF_MAXCALLS]; int vf_write_ncalls = 0;
long vf_write_faults_fired = 0;
ssize_t vf_write(int fd, const void *buf, size_t n)
{
	if (!vf_write_armed)
		return write(fd, buf, n);
	if (vf_write_ncalls < VF_MAXCALLS) {
		vf_write_calls[vf_write_ncalls].buf = buf;
		vf_write_calls[vf_write_ncalls].n = n;
		vf_write_calls[vf_write_ncalls].off = lseek(fd, 0, SEEK_CUR);
		vf_write_ncalls++;
	}
	int o = VF_W_FULL;
	if (vf_write_script_pos < vf_write_script_len)
		o = vf_write_script[vf_write_script_pos++];
	if (o == VF_W_FULL)
		return write(fd, buf, n);
	vf_write_faults_fired++;
	if (o == VF_W_EINTR) { errno = EINTR; return -1; }
	if (o == VF_W_ZERO) { errno = 0; return 0; }
	if (o <= VF_W_ERR) { errno = (o == VF_W_ERR) ? EIO : ENOSPC; return -1; }
	/* partial of o bytes (1 <= o), capped at n */
	size_t k = (size_t)o; if (k > n) k = n;
	return write(fd, buf, k);
}

/* writev / pwrite: one script outcome per call, like write */
#include <sys/uio.h>
static int vf_next_outcome(int fd, const void *buf, size_t n, off_t off)
{
	if (vf_write_ncalls < VF_MAXCALLS) {
		vf_write_calls[vf_write_ncalls].buf = buf;
		vf_write_calls[vf_write_ncalls].n = n;
		vf_write_calls[vf_write_ncalls].off = off == (off_t)-1 ? lseek(fd, 0, SEEK_CUR) : off;
		vf_write_ncalls++;
	}
	int o = VF_W_FULL;
	if (vf_write_script_pos < vf_write_script_len)
		o = vf_write_script[vf_write_script_pos++];
	if (o != VF_W_FULL) vf_write_faults_fired++;
	return o;
}
ssize_t vf_writev(int fd, const struct iovec *iov, int cnt)
{
	if (!vf_write_armed)
		return writev(fd, iov, cnt);
	size_t total = 0; for (int i = 0; i < cnt; i++) total += iov[i].iov_len;
	int o = vf_next_outcome(fd, cnt ? iov[0].iov_base : NULL, total, (off_t)-1);
	if (o == VF_W_FULL) return writev(fd, iov, cnt);
	if (o == VF_W_EINTR) { errno = EINTR; return -1; }
	if (o == VF_W_ZERO) { errno = 0; return 0; }
	if (o <= VF_W_ERR) { errno = (o == VF_W_ERR) ? EIO : ENOSPC; return -1; }
	size_t k = (size_t)o; if (k > total) k = total;
	struct iovec tmp[64]; int m = 0; size_t left = k;
	for (int i = 0; i < cnt && i < 64 && left; i++) {
		tmp[m] = iov[i]; if (tmp[m].iov_len > left) tmp[m].iov_len = left;
		left -= tmp[m].iov_len; m++;
	}
	return writev(fd, tmp, m);
}
ssize_t vf_pwrite(int fd, const void *buf, size_t n, off_t off)
{
	if (!vf_write_armed)
		return pwrite(fd, buf, n, off);
	int o = vf_next_outcome(fd, buf, n, off);
	if (o == VF_W_FULL) return pwrite(fd, buf, n, off);
	if (o == VF_W_EINTR) { errno = EINTR; return -1; }
	if (o == VF_W_ZERO) { errno = 0; return 0; }
	if (o <= VF_W_ERR) { errno = (o == VF_W_ERR) ? EIO : ENOSPC; return -1; }
	size_t k = (size_t)o; if (k > n) k = n;
	return pwrite(fd, buf, k, off);
}

/* ---- mmap: exact-size heap copy ---- */
long vf_mmap_live = 0, vf_mmap_total = 0;
/* files above 1 GiB (sparse multi-gigabyte tables) are really mapped: an exact-size heap copy is not affordable */
#define VF_BIGMAP ((size_t)1 << 30)
static void *vf_bigmaps[8];
void *vf_mmap(void *addr, size_t len, int prot, int flags, int fd, off_t off)
{
	if (len > VF_BIGMAP) {
		void *m = mmap(addr, len, prot, flags, fd, off);
		if (m != MAP_FAILED) {
			for (int i = 0; i < 8; i++) if (!vf_bigmaps[i]) { vf_bigmaps[i] = m; break; }
			__atomic_add_fetch(&vf_mmap_live, 1, __ATOMIC_RELAXED); __atomic_add_fetch(&vf_mmap_total, 1, __ATOMIC_RELAXED);
		}
		return m;
	}
	(void)addr; (void)prot; (void)flags;
	uint8_t *p = malloc(len ? len : 1);
	if (!p) return MAP_FAILED;
	size_t done = 0;
	while (done < len) {
		ssize_t r = pread(fd, p + done, len - done, off + done);
		if (r < 0 && done == 0) { free(p); errno = ENODEV; return MAP_FAILED; }   /* a directory, a write-only descriptor: mmap fails too */
		if (r <= 0) break;
		done += r;
	}
	__atomic_add_fetch(&vf_mmap_live, 1, __ATOMIC_RELAXED); __atomic_add_fetch(&vf_mmap_total, 1, __ATOMIC_RELAXED);
	return p;
}
int vf_munmap(void *p, size_t len)
{
	for (int i = 0; i < 8; i++) if (vf_bigmaps[i] == p && p) { vf_bigmaps[i] = NULL; __atomic_sub_fetch(&vf_mmap_live, 1, __ATOMIC_RELAXED); return munmap(p, len); }
	free(p); __atomic_sub_fetch(&vf_mmap_live, 1, __ATOMIC_RELAXED); return 0;
}

/* ---- mkstemp: record templates ---- */
char vf_mkstemp_templates[VF_MAXTMPL][256]; int vf_mkstemp_n = 0;
int vf_mkstemp(char *tmpl)
{
	int slot = __atomic_fetch_add(&vf_mkstemp_n, 1, __ATOMIC_RELAXED);     /* pooled sorters call this from worker threads */
	if (slot < VF_MAXTMPL) {
		strncpy(vf_mkstemp_templates[slot], tmpl, 255);
		vf_mkstemp_templates[slot][255] = 0;
	}
	return mkstemp(tmpl);
}

/* ---- clock ---- */
int vf_clock_armed = 0; struct timespec vf_clock_now = {1000, 0}; long vf_clock_reads = 0;
int vf_clock_gettime(clockid_t id, struct timespec *ts)
{
	if (!vf_clock_armed)
		return clock_gettime(id, ts);
	vf_clock_reads++;
	vf_clock_now.tv_nsec += 1;   /* distinct readings */
	*ts = vf_clock_now;
	return 0;
}

/* ---- dump the write(2) call log when the process aborts (hard write error => assertion) ---- */
#include <signal.h>
static char vf_calls_path[320];
static void vf_abort_handler(int sig)
{
	(void)sig;
	FILE *cf = fopen(vf_calls_path, "w");
	if (cf) {
		for (int c = 0; c < vf_write_ncalls; c++) fprintf(cf, "%s%zu", c ? "," : "", vf_write_calls[c].n);
		fclose(cf);
	}
	signal(SIGABRT, SIG_DFL);
	raise(SIGABRT);
}
void vf_dump_calls_on_abort(const char *path)
{
	strncpy(vf_calls_path, path, sizeof vf_calls_path - 1);
	signal(SIGABRT, vf_abort_handler);
}
