/* writer / reader / reader-iterator operations */
#define _GNU_SOURCE
#include <sys/stat.h>
#include <fcntl.h>
#include <sys/wait.h>
#include <signal.h>
#include <stdbool.h>
#include <stdio.h>
#include <stdlib.h>
#include <string.h>
#include <unistd.h>
#include "mtbl.h"
#include "shims/shims.h"
#include "exec.h"

struct itaux { const uint8_t *kp, *vp; size_t kl, vl; uint8_t *kc, *vc; int have; };

static void itaux_check(struct obj *o)
{
	struct itaux *a = o->aux;
	if (a && a->have) {
		if ((a->kl && memcmp(a->kp, a->kc, a->kl)) || (a->vl && memcmp(a->vp, a->vc, a->vl)))
			printf("#!buffer-changed iter=%d\n", o->id);
		free(a->kc); free(a->vc); a->kc = a->vc = NULL; a->have = 0;
	}
}
static void itaux_set(struct obj *o, const uint8_t *k, size_t kl, const uint8_t *v, size_t vl)
{
	struct itaux *a = o->aux;
	if (!a) a = o->aux = calloc(1, sizeof *a);
	a->kp = k; a->kl = kl; a->vp = v; a->vl = vl;
	a->kc = malloc(kl + 1); memcpy(a->kc, k, kl);
	a->vc = malloc(vl + 1); memcpy(a->vc, v, vl);
	a->have = 1;
}

void destroy_obj(struct obj *o)
{
	switch (o->kind) {
	case K_ITER: {
		itaux_check(o);
		struct mtbl_iter *it = o->p; mtbl_iter_destroy(&it);
		free(o->aux);
		break; }
	case K_READER: { struct mtbl_reader *r = o->p; mtbl_reader_destroy(&r); break; }
	case K_WRITER: {
		struct mtbl_writer *w = o->p; if (w) mtbl_writer_destroy(&w);
		if (o->fd >= 0) close(o->fd);
		if (o->aux) { struct mtbl_threadpool *tp = o->aux; mtbl_threadpool_destroy(&tp); }
		unlink(o->path); break; }
	case K_BLOB: unlink(o->path); break;
	default: break;
	}
	o->kind = K_NONE; o->p = NULL; o->aux = NULL;
}

__attribute__((weak)) void destroy_merger(struct obj *o) { (void)o; }
__attribute__((weak)) void destroy_sorter(struct obj *o) { (void)o; }
__attribute__((weak)) void destroy_fileset(struct obj *o) { (void)o; }
static void destroy_obj_ext(struct obj *o)
{
	if (o->kind == K_MERGER) destroy_merger(o);
	else if (o->kind == K_SORTER) destroy_sorter(o);
	else if (o->kind == K_FILESET) destroy_fileset(o);
}

static void reset_all(void)
{
	/* dependents first */
	static const int order[] = { K_ITER, K_MERGER, K_SORTER, K_FILESET, K_READER, K_WRITER, K_BLOB, K_POOL };
	for (unsigned k = 0; k < sizeof order / sizeof order[0]; k++)
		for (int i = 0; i < MAXOBJ; i++)
			if (objs[i].kind == order[k]) {
				if (order[k] == K_ITER || order[k] == K_READER || order[k] == K_WRITER || order[k] == K_BLOB) destroy_obj(&objs[i]);
				else { destroy_obj_ext(&objs[i]); objs[i].kind = K_NONE; }
			}
}

static void print_meta(struct mtbl_reader *r)
{
	const struct mtbl_metadata *m = mtbl_reader_metadata(r);
	printf("ok %s %lu %lu %lu %lu %lu %lu %lu %lu %lu\n",
	       mtbl_metadata_file_version(m) == MTBL_FORMAT_V1 ? "v1" : "v2",
	       (unsigned long)mtbl_metadata_index_block_offset(m), (unsigned long)mtbl_metadata_data_block_size(m),
	       (unsigned long)mtbl_metadata_compression_algorithm(m), (unsigned long)mtbl_metadata_count_entries(m),
	       (unsigned long)mtbl_metadata_count_data_blocks(m), (unsigned long)mtbl_metadata_bytes_data_blocks(m),
	       (unsigned long)mtbl_metadata_bytes_index_block(m), (unsigned long)mtbl_metadata_bytes_keys(m),
	       (unsigned long)mtbl_metadata_bytes_values(m));
}

/* walk the data-block frames of a finished v2 file and print (raw, stored) pairs for the model's oracle table */
static void emit_ctab(const uint8_t *f, size_t n, size_t pre, int comp)
{
	if (n < 512) return;
	uint64_t io = mtbl_fixed_decode64(f + n - 512);
	size_t off = pre;
	while (off < io && off < n) {
		uint64_t len; size_t ll = mtbl_varint_decode64(f + off, &len);
		if (ll == 0 || off + ll + 4 + len > n) break;
		const uint8_t *stored = f + off + ll + 4;
		uint8_t *raw = NULL; size_t rawlen = 0;
		if (mtbl_decompress(comp, stored, len, &raw, &rawlen) == mtbl_res_success) {
			printf("#ctab %d ", comp); puthex(stdout, raw, rawlen); putchar(' '); puthex(stdout, stored, len); putchar('\n');
			free(raw);
		}
		off += ll + 4 + len;
	}
}

static struct mtbl_iter *make_iter(const struct mtbl_source *src, char **a, int n)
{
	uint8_t *k0 = NULL, *k1 = NULL; size_t l0 = 0, l1 = 0; struct mtbl_iter *it = NULL;
	if (n == 1 && !strcmp(a[0], "iter")) it = mtbl_source_iter(src);
	else if (n == 2 && !strcmp(a[0], "get") && !unhex(a[1], &k0, &l0)) it = mtbl_source_get(src, k0, l0);
	else if (n == 2 && !strcmp(a[0], "pfx") && !unhex(a[1], &k0, &l0)) it = mtbl_source_get_prefix(src, k0, l0);
	else if (n == 3 && !strcmp(a[0], "range") && !unhex(a[1], &k0, &l0) && !unhex(a[2], &k1, &l1)) {
		/* when one bound is a prefix of the other, both are passed out of ONE buffer (the same pointer with two lengths — the
		 * usual way to scan from a prefix to prefix + suffix): the bounds are (pointer, length) pairs, not pointers */
		if (l0 <= l1 && l1 > 0 && !memcmp(k0, k1, l0)) it = mtbl_source_get_range(src, k1, l0, k1, l1);
		else if (l1 < l0 && !memcmp(k0, k1, l1)) it = mtbl_source_get_range(src, k0, l0, k0, l1);
		else it = mtbl_source_get_range(src, k0, l0, k1, l1);
	}
	/* poison and free the query buffers: the library must have copied what it needs */
	if (k0) { memset(k0, 0xA5, l0); free(k0); }
	if (k1) { memset(k1, 0xA5, l1); free(k1); }
	return it;
}
struct mtbl_iter *vf_make_iter(const struct mtbl_source *src, char **a, int n) { return make_iter(src, a, n); }

int iter_next_op(struct obj *o)
{
	itaux_check(o);
	const uint8_t *k, *v; size_t kl, vl;
	if (mtbl_iter_next(o->p, &k, &kl, &v, &vl) == mtbl_res_success) {
		printf("ent "); puthex(stdout, k, kl); putchar(' '); puthex(stdout, v, vl); putchar('\n');
		itaux_set(o, k, kl, v, vl);
	} else puts("fail");
	return 0;
}
int iter_seek_op(struct obj *o, const char *khex)
{
	uint8_t *k; size_t kl;
	if (unhex(khex, &k, &kl)) return -1;
	itaux_check(o);
	mtbl_res r = mtbl_iter_seek(o->p, k, kl);
	memset(k, 0xA5, kl); free(k);
	puts(r == mtbl_res_success ? "ok" : "fail");
	return 0;
}

int ops_table(char **args, int na)
{
	const char *op = args[0];
	if (!strcmp(op, "reset")) { reset_all(); puts("ok"); return 0; }
	if (!strcmp(op, "cfg")) { puts("ok"); return 0; }          /* model-only switches */
	if (!strcmp(op, "blob") && na == 3) {
		struct obj *o = newobj(args[1], K_BLOB); if (!o) return -1;
		uint8_t *b; size_t n; if (unhex(args[2], &b, &n)) return -1;
		snprintf(o->path, sizeof o->path, "%s/b%d.mtbl", vf_tmpdir, o->id);
		FILE *f = fopen(o->path, "wb"); if (!f) return -1;
		fwrite(b, 1, n, f); fclose(f); free(b);
		puts("ok"); return 0;
	}
	if (!strcmp(op, "w.new") && na >= 2) {
		struct obj *o = newobj(args[1], K_WRITER); if (!o) return -1;
		char **a = args + 2; int n = na - 2;
		struct mtbl_writer_options *wo = mtbl_writer_options_init();
		o->comp = (int)kvnum(a, n, "comp", 0);
		mtbl_writer_options_set_compression(wo, o->comp);
		const char *lv = kv(a, n, "level");
		if (lv && strcmp(lv, "d")) mtbl_writer_options_set_compression_level(wo, atoi(lv));
		vf_min_block_size = kvnum(a, n, "minbs", (long)vf_real_min_block_size);
		vf_thr = (uint64_t)kvnum(a, n, "thr", (long)vf_real_thr);
		mtbl_writer_options_set_block_size(wo, kvnum(a, n, "bs", 8192));
		mtbl_writer_options_set_block_restart_interval(wo, kvnum(a, n, "ri", 16));
		long pool = kvnum(a, n, "pool", -1);
		if (pool >= 0) { struct mtbl_threadpool *tp = mtbl_threadpool_init(pool); o->aux = tp; mtbl_writer_options_set_threadpool(wo, tp); }
		snprintf(o->path, sizeof o->path, "%s/w%d.mtbl", vf_tmpdir, o->id);
		unlink(o->path);
		uint8_t *pre = NULL; size_t prelen = 0; const char *ph = kv(a, n, "pre");
		if (ph && unhex(ph, &pre, &prelen)) return -1;
		o->pre = prelen;
		if (kvnum(a, n, "byname", 0) && prelen == 0) {
			o->fd = -1;
			o->p = mtbl_writer_init(o->path, wo);
		} else {
			o->fd = open(o->path, O_RDWR | O_CREAT | O_EXCL, 0644);
			if (o->fd < 0) return -1;
			/* pos=eof (default): the descriptor stands at the end of the bytes already written;
			   pos=inside: more bytes follow the current offset (a container being rewritten in place; truncated at w.fin);
			   pos=hole: nothing written yet, the descriptor was moved forward (reserved header: reads as zeros, which is what
			   the generator passes as pre) */
			const char *pos = kv(a, n, "pos");
			if (pos && !strcmp(pos, "hole")) { if (lseek(o->fd, (off_t)prelen, SEEK_SET) < 0) return -1; }
			else if (prelen && write(o->fd, pre, prelen) != (ssize_t)prelen) return -1;
			if (pos && !strcmp(pos, "inside")) {
				uint8_t junk[97]; memset(junk, 0xEE, sizeof junk);
				if (write(o->fd, junk, sizeof junk) != (ssize_t)sizeof junk || lseek(o->fd, (off_t)prelen, SEEK_SET) < 0) return -1;
				o->truncate_at_fin = 1;
			}
			o->p = mtbl_writer_init_fd(o->fd, wo);
		}
		free(pre);
		mtbl_writer_options_destroy(&wo);
		puts(o->p ? "ok" : "null"); return 0;
	}
	if (!strcmp(op, "w.add") && na == 4) {
		struct obj *o = getobj(args[1], K_WRITER); if (!o || !o->p) return -1;
		uint8_t *k, *v; size_t kl, vl;
		if (unhex(args[2], &k, &kl) || unhex(args[3], &v, &vl)) return -1;
		mtbl_res r = mtbl_writer_add(o->p, k, kl, v, vl);
		memset(k, 0xA5, kl); memset(v, 0xA5, vl); free(k); free(v);
		puts(r == mtbl_res_success ? "ok" : "fail"); return 0;
	}
	if (!strcmp(op, "w.fin") && na == 2) {
		struct obj *o = getobj(args[1], K_WRITER); if (!o || !o->p) return -1;
		struct mtbl_writer *w = o->p; mtbl_writer_destroy(&w); o->p = NULL;
		if (o->fd >= 0 && o->truncate_at_fin) { off_t e = lseek(o->fd, 0, SEEK_CUR); if (e >= 0 && ftruncate(o->fd, e)) return -1; o->truncate_at_fin = 0; }
		if (o->fd >= 0) { close(o->fd); o->fd = -1; }
		if (o->aux) { struct mtbl_threadpool *tp = o->aux; mtbl_threadpool_destroy(&tp); o->aux = NULL; }
		size_t n; uint8_t *f = read_file(o->path, &n); if (!f) return -1;
		if (o->comp != 0) emit_ctab(f, n, o->pre, o->comp);
		printf("file "); puthex(stdout, f + o->pre, n - o->pre); putchar('\n');
		free(f); return 0;
	}
	if (!strcmp(op, "w.prefix") && na == 2) {
		struct obj *o = getobj(args[1], K_WRITER); if (!o) return -1;
		size_t n; uint8_t *f = read_file(o->path, &n); if (!f) return -1;
		printf("pre "); puthex(stdout, f, o->pre < n ? o->pre : n); putchar('\n'); free(f); return 0;
	}
	if (!strcmp(op, "open.probe") && na >= 2) {
		/* open arbitrary bytes in a child process; outcome = reader / NULL / abort / sanitizer report / crash */
		uint8_t *b; size_t n; if (unhex(args[1], &b, &n)) return -1;
		char path[320]; snprintf(path, sizeof path, "%s/probe.mtbl", vf_tmpdir);
		FILE *f = fopen(path, "wb"); if (!f) return -1;
		fwrite(b, 1, n, f); fclose(f); free(b);
		int verify = (int)kvnum(args + 2, na - 2, "verify", 0);
		int byfd = (int)kvnum(args + 2, na - 2, "byfd", 0);
		fflush(stdout);
		pid_t pid = fork();
		if (pid == 0) {
			int devnull = open("/dev/null", O_WRONLY); if (devnull >= 0) dup2(devnull, 2);
			struct mtbl_reader_options *ro = mtbl_reader_options_init();
			mtbl_reader_options_set_verify_checksums(ro, verify);
			mtbl_reader_options_set_madvise_random(ro, (int)kvnum(args + 2, na - 2, "madv", 0));
			struct mtbl_reader *r; long maps0 = vf_mmap_live;
			if (byfd) { int fd = open(path, O_RDONLY); r = mtbl_reader_init_fd(fd, ro); close(fd); }
			else r = mtbl_reader_init(path, ro);
			int rc = r ? 10 : 11;
			if (r) mtbl_reader_destroy(&r);
			if (vf_mmap_live != maps0) rc = 12;      /* the call returned (reader destroyed again, or NULL) and a mapping is left */
			_exit(rc);
		}
		int st = 0; waitpid(pid, &st, 0); unlink(path);
		if (WIFEXITED(st) && WEXITSTATUS(st) == 10) puts("ok");
		else if (WIFEXITED(st) && WEXITSTATUS(st) == 11) puts("null");
		else if (WIFEXITED(st) && WEXITSTATUS(st) == 12) puts("leak");
		else if (WIFEXITED(st) && WEXITSTATUS(st) == 99) puts("asan");
		else if (WIFSIGNALED(st) && WTERMSIG(st) == SIGABRT) puts("abort");
		else if (WIFSIGNALED(st)) printf("crash:%d\n", WTERMSIG(st));
		else printf("exit:%d\n", WEXITSTATUS(st));
		return 0;
	}
	if (!strcmp(op, "excl.probe") && na >= 2) {
		/* mtbl_writer_init on a path that already exists (or not); the pre-existing node must stay untouched */
		const char *kind = kv(args + 1, na - 1, "kind"); if (!kind) return -1;
		uint8_t *c = NULL; size_t cl = 0; const char *ch = kv(args + 1, na - 1, "content");
		if (ch && unhex(ch, &c, &cl)) return -1;
		char path[320], tgt[340]; snprintf(path, sizeof path, "%s/excl.mtbl", vf_tmpdir); snprintf(tgt, sizeof tgt, "%s/excl-target", vf_tmpdir);
		unlink(path); rmdir(path); unlink(tgt);
		int special = !strcmp(kind, "devnull") || !strcmp(kind, "fifo") || !strcmp(kind, "dir");
		int rfd = -1;
		if (!strcmp(kind, "regular")) { FILE *f = fopen(path, "wb"); if (!f) return -1; fwrite(c, 1, cl, f); fclose(f); }
		else if (!strcmp(kind, "dangling")) { if (symlink(tgt, path)) return -1; }
		else if (!strcmp(kind, "symlink")) { FILE *f = fopen(tgt, "wb"); if (!f) return -1; fwrite(c, 1, cl, f); fclose(f); if (symlink(tgt, path)) return -1; }
		else if (!strcmp(kind, "devnull")) { if (symlink("/dev/null", path)) return -1; }
		else if (!strcmp(kind, "fifo")) { if (mkfifo(path, 0600)) return -1; rfd = open(path, O_RDONLY | O_NONBLOCK); /* a reader, so that an open for writing cannot block */ }
		else if (!strcmp(kind, "dir")) { if (mkdir(path, 0700)) return -1; }
		free(c);
		struct mtbl_writer *w = mtbl_writer_init(path, NULL);
		if (w) { mtbl_writer_destroy(&w); puts("ok"); }
		else if (!strcmp(kind, "regular")) { size_t n; uint8_t *f = read_file(path, &n); if (!f) return -1; printf("null "); puthex(stdout, f, n); putchar('\n'); free(f); }
		else if (!strcmp(kind, "dangling")) { struct stat sb; printf("null %s\n", (lstat(path, &sb) == 0 && S_ISLNK(sb.st_mode) && access(tgt, F_OK) != 0) ? "dangling" : "changed"); }
		else if (!strcmp(kind, "symlink")) { struct stat sb; size_t n; uint8_t *f = read_file(tgt, &n); if (!f || lstat(path, &sb) || !S_ISLNK(sb.st_mode)) { puts("null changed"); } else { printf("null "); puthex(stdout, f, n); putchar('\n'); } free(f); }
		else if (special) puts("null special");
		else puts("null");
		if (rfd >= 0) close(rfd);
		unlink(path); rmdir(path); unlink(tgt);
		return 0;
	}
	if ((!strcmp(op, "r.openw") || !strcmp(op, "r.openb")) && na >= 3) {
		struct obj *src = getobj(args[2], op[6] == 'w' ? K_WRITER : K_BLOB); if (!src) return -1;
		struct obj *o = newobj(args[1], K_READER); if (!o) return -1;
		char **a = args + 3; int n = na - 3;
		struct mtbl_reader_options *ro = mtbl_reader_options_init();
		mtbl_reader_options_set_verify_checksums(ro, kvnum(a, n, "verify", 0));
		mtbl_reader_options_set_madvise_random(ro, kvnum(a, n, "madv", 0));
		vf_thr = (uint64_t)kvnum(a, n, "thr", (long)vf_real_thr);
		o->p = mtbl_reader_init(src->path, ro);
		mtbl_reader_options_destroy(&ro);
		if (!o->p) { o->kind = K_NONE; puts("null"); return 0; }
		print_meta(o->p); return 0;
	}
	if (!strcmp(op, "r.it") && na >= 4) {
		struct obj *r = getobj(args[1], K_READER); if (!r) return -1;
		struct obj *o = newobj(args[2], K_ITER); if (!o) return -1;
		o->p = make_iter(mtbl_reader_source(r->p), args + 3, na - 3);
		puts(o->p ? "ok" : "null"); return 0;
	}
	if (!strcmp(op, "r.next") && na == 2) {
		struct obj *o = getobj(args[1], K_ITER); if (!o) return -1;
		return iter_next_op(o);
	}
	if (!strcmp(op, "r.seek") && na == 3) {
		struct obj *o = getobj(args[1], K_ITER); if (!o) return -1;
		return iter_seek_op(o, args[2]);
	}
	if (!strcmp(op, "r.close") && na == 2) {
		struct obj *o = getobj(args[1], K_ITER); if (!o) return -1;
		destroy_obj(o); puts("ok"); return 0;
	}
	return -1;
}
