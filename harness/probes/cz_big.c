#include "mtbl-private.h"
#include <stdio.h>
/* usage: big <algo 1..5> <nbytes> <level or 99 for default>; incompressible input */
int main(int argc, char **argv) {
	int algo = atoi(argv[1]); size_t n = strtoull(argv[2], NULL, 0); int lvl = atoi(argv[3]);
	uint8_t *in = malloc(n); uint64_t x = 88172645463325252ull;
	for (size_t i = 0; i + 8 <= n; i += 8) { x ^= x << 13; x ^= x >> 7; x ^= x << 17; memcpy(in + i, &x, 8); }
	uint8_t *out = NULL; size_t olen = 0;
	mtbl_res r = lvl == 99 ? mtbl_compress(algo, in, n, &out, &olen) : mtbl_compress_level(algo, lvl, in, n, &out, &olen);
	printf("compress res=%d olen=%zu\n", r, olen); fflush(stdout);
	if (r != mtbl_res_success) return 2;
	uint8_t *o2 = NULL; size_t l2 = 0;
	r = mtbl_decompress(algo, out, olen, &o2, &l2);
	printf("decompress res=%d len=%zu\n", r, l2); fflush(stdout);
	if (r != mtbl_res_success) return 3;
	printf("equal=%d\n", l2 == n && memcmp(in, o2, n) == 0);
	return 0;
}
