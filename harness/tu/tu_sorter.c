/* sorter.c with a run-time MIN_SORTER_MEMORY (default: the real value) and mkstemp routed to a recording shim */
#include "mtbl-private.h"
const size_t vf_real_min_sorter_memory = MIN_SORTER_MEMORY;
size_t vf_min_sorter_memory = MIN_SORTER_MEMORY;
#undef MIN_SORTER_MEMORY
#define MIN_SORTER_MEMORY vf_min_sorter_memory
int vf_mkstemp(char *);
#define mkstemp vf_mkstemp
#include "mtbl/sorter.c"
size_t vf_sizeof_sorter_entry(void) { return sizeof(struct entry); }
/* number of entries still in memory (0 right after a chunk was handed off): lets a harness stop adding exactly at a flush */
size_t vf_sorter_pending(struct mtbl_sorter *s) { return entry_vec_size(s->vec); }
