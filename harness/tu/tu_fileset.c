/* fileset.c with clock_gettime routed to a harness-owned clock */
#include <time.h>
int vf_clock_gettime(clockid_t, struct timespec *);
#define clock_gettime vf_clock_gettime
#include "mtbl/fileset.c"
