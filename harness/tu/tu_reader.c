/* reader.c with mmap/munmap routed to an exact-size heap copy (so ASan sees the first byte past the file) */
#include "mtbl-private.h"
void *vf_mmap(void *, size_t, int, int, int, off_t);
int vf_munmap(void *, size_t);
#define mmap vf_mmap
#define munmap vf_munmap
#include "mtbl/reader.c"
