/* writer.c with a run-time MIN_BLOCK_SIZE (default: the real value) and write(2) routed to a shim */
#include "mtbl-private.h"
const size_t vf_real_min_block_size = MIN_BLOCK_SIZE;
size_t vf_min_block_size = MIN_BLOCK_SIZE;
#undef MIN_BLOCK_SIZE
#define MIN_BLOCK_SIZE vf_min_block_size
#include <sys/uio.h>
#include <unistd.h>
ssize_t vf_write(int, const void *, size_t);
ssize_t vf_writev(int, const struct iovec *, int);
ssize_t vf_pwrite(int, const void *, size_t, off_t);
#define write vf_write
#define writev vf_writev          /* the same outcome script governs every way of writing the descriptor */
#define pwrite vf_pwrite
#include "mtbl/writer.c"
