/* writer.c with a run-time MIN_BLOCK_SIZE (default: the real value) and write(2) routed to a shim */
#include "mtbl-private.h"
const size_t vf_real_min_block_size = MIN_BLOCK_SIZE;
size_t vf_min_block_size = MIN_BLOCK_SIZE;
#undef MIN_BLOCK_SIZE
#define MIN_BLOCK_SIZE vf_min_block_size
ssize_t vf_write(int, const void *, size_t);
#define write vf_write
#include "mtbl/writer.c"
