/* compression.c with every call into snappy / zlib / lz4 / zstd routed through a recording interposer (C15 tie):
 * each library call the wrappers make is reported as a "#lib ..." fact (function, level, capacity, input, result),
 * so that the Lean model of the wrappers can be run over exactly the library behaviour the real code saw — and a
 * wrapper that calls the library with another level, capacity or size than the model says shows up as a miss. */
#include <lz4.h>
#include <lz4hc.h>
#include <snappy-c.h>
#include <zlib.h>
#include <zstd.h>
#include <zstd_errors.h>
#include <stdint.h>
#include <stdio.h>
#include <stdlib.h>
#include <string.h>
#include <unistd.h>

int vf_lib_fd = -1;                       /* facts are written here (a pipe to the parent) while >= 0 */
static __thread int vf_zlevel = 0;
static void vf_emit(const char *head, const uint8_t *a, size_t na, const char *mid, const uint8_t *b, size_t nb)
{
	if (vf_lib_fd < 0) return;
	size_t cap = strlen(head) + strlen(mid) + 2 * (na + nb) + 16;
	char *buf = malloc(cap), *p = buf;
	static const char hexd[] = "0123456789abcdef";
	p += sprintf(p, "#lib %s", head);
	if (a) { *p++ = ' '; if (!na) *p++ = '-'; for (size_t i = 0; i < na; i++) { *p++ = hexd[a[i] >> 4]; *p++ = hexd[a[i] & 15]; } }
	p += sprintf(p, "%s", mid);
	if (b) { *p++ = ' '; if (!nb) *p++ = '-'; for (size_t i = 0; i < nb; i++) { *p++ = hexd[b[i] >> 4]; *p++ = hexd[b[i] & 15]; } }
	*p++ = '\n';
	size_t off = 0; while (off < (size_t)(p - buf)) { ssize_t k = write(vf_lib_fd, buf + off, (p - buf) - off); if (k <= 0) break; off += k; }
	free(buf);
}

static size_t vf_snappy_max(size_t n)
{ size_t r = snappy_max_compressed_length(n); char h[96]; snprintf(h, sizeof h, "bound 1 %zu %zu", n, r); vf_emit(h, NULL, 0, "", NULL, 0); return r; }
static snappy_status vf_snappy_compress(const char *in, size_t n, char *out, size_t *on)
{
	size_t cap = *on; snappy_status r = snappy_compress(in, n, out, on);
	char h[96]; snprintf(h, sizeof h, "comp 1 0 %zu", cap);
	if (r == SNAPPY_OK) vf_emit(h, (const uint8_t *)in, n, " some", (uint8_t *)out, *on); else vf_emit(h, (const uint8_t *)in, n, " none", NULL, 0);
	return r;
}
static snappy_status vf_snappy_ulen(const char *in, size_t n, size_t *res)
{
	snappy_status r = snappy_uncompressed_length(in, n, res); char m[64];
	if (r == SNAPPY_OK) snprintf(m, sizeof m, " some %zu", *res); else snprintf(m, sizeof m, " none");
	vf_emit("snlen", (const uint8_t *)in, n, m, NULL, 0); return r;
}
static snappy_status vf_snappy_uncompress(const char *in, size_t n, char *out, size_t *on)
{
	size_t room = *on; snappy_status r = snappy_uncompress(in, n, out, on);
	char h[96]; snprintf(h, sizeof h, "decomp 1 %zu", room);
	if (r == SNAPPY_OK) vf_emit(h, (const uint8_t *)in, n, " ok", (uint8_t *)out, *on);
	else vf_emit(h, (const uint8_t *)in, n, r == SNAPPY_BUFFER_TOO_SMALL ? " small" : " error", NULL, 0);
	return r;
}
static int vf_deflateInit(z_streamp zs, int level) { vf_zlevel = level; return deflateInit(zs, level); }
static uLong vf_deflateBound(z_streamp zs, uLong n)
{ uLong r = deflateBound(zs, n); char h[96]; snprintf(h, sizeof h, "dbound %d %lu %lu", vf_zlevel, n, r); vf_emit(h, NULL, 0, "", NULL, 0); return r; }
static int vf_deflate(z_streamp zs, int flush)
{
	const uint8_t *in = zs->next_in; size_t n = zs->avail_in; uint8_t *out = zs->next_out; size_t cap = zs->avail_out;
	int r = deflate(zs, flush);
	char h[96]; snprintf(h, sizeof h, "comp 2 %d %zu", vf_zlevel, cap);
	if (r == Z_STREAM_END) vf_emit(h, in, n, " some", out, cap - zs->avail_out); else vf_emit(h, in, n, " none", NULL, 0);
	return r;
}
static __thread const uint8_t *vf_inf_in; static __thread size_t vf_inf_n;
static int vf_inflateInit(z_streamp zs) { vf_inf_in = NULL; return inflateInit(zs); }
static int vf_inflate(z_streamp zs, int flush)
{
	if (!vf_inf_in) { vf_inf_in = zs->next_in; vf_inf_n = zs->avail_in; }
	size_t room = zs->total_out + zs->avail_out;
	int r = inflate(zs, flush);
	char h[96]; snprintf(h, sizeof h, "decomp 2 %zu", room);
	if (r == Z_STREAM_END) vf_emit(h, vf_inf_in, vf_inf_n, " ok", zs->next_out - zs->total_out, zs->total_out);
	else vf_emit(h, vf_inf_in, vf_inf_n, r == Z_BUF_ERROR ? " small" : " error", NULL, 0);
	return r;
}
static int vf_LZ4_compressBound(int n)
{ int r = LZ4_compressBound(n); char h[96]; snprintf(h, sizeof h, "bound 3 %d %d", n, r); vf_emit(h, NULL, 0, "", NULL, 0); return r; }
static int vf_LZ4_compress_default(const char *in, char *out, int n, int cap)
{
	int r = LZ4_compress_default(in, out, n, cap); char h[96]; snprintf(h, sizeof h, "comp 3 0 %d", cap);
	vf_emit(h, (const uint8_t *)in, n, " some", (uint8_t *)out, r > 0 ? r : 0);     /* 0 = "lz4_size == 0": an empty result */
	return r;
}
static int vf_LZ4_compress_HC(const char *in, char *out, int n, int cap, int level)
{
	int r = LZ4_compress_HC(in, out, n, cap, level); char h[96]; snprintf(h, sizeof h, "comp 4 %d %d", level, cap);
	vf_emit(h, (const uint8_t *)in, n, " some", (uint8_t *)out, r > 0 ? r : 0);
	return r;
}
static int vf_LZ4_decompress_safe(const char *in, char *out, int n, int room)
{
	int r = LZ4_decompress_safe(in, out, n, room); char h[96]; snprintf(h, sizeof h, "decomp 3 %d", room);
	if (r >= 0) vf_emit(h, (const uint8_t *)in, n, " ok", (uint8_t *)out, r); else vf_emit(h, (const uint8_t *)in, n, " error", NULL, 0);
	return r;
}
static size_t vf_ZSTD_compressBound(size_t n)
{ size_t r = ZSTD_compressBound(n); char h[96]; snprintf(h, sizeof h, "bound 5 %zu %zu", n, r); vf_emit(h, NULL, 0, "", NULL, 0); return r; }
static size_t vf_ZSTD_compress(void *out, size_t cap, const void *in, size_t n, int level)
{
	size_t r = ZSTD_compress(out, cap, in, n, level); char h[96]; snprintf(h, sizeof h, "comp 5 %d %zu", level, cap);
	if (!ZSTD_isError(r)) vf_emit(h, in, n, " some", out, r); else vf_emit(h, in, n, " none", NULL, 0);
	return r;
}
static unsigned long long vf_ZSTD_getFrameContentSize(const void *in, size_t n)
{
	unsigned long long r = ZSTD_getFrameContentSize(in, n); char m[64];
	if (r == ZSTD_CONTENTSIZE_UNKNOWN || r == ZSTD_CONTENTSIZE_ERROR) snprintf(m, sizeof m, " none"); else snprintf(m, sizeof m, " some %llu", r);
	vf_emit("zcs", in, n, m, NULL, 0); return r;
}
static size_t vf_ZSTD_decompress(void *out, size_t room, const void *in, size_t n)
{
	size_t r = ZSTD_decompress(out, room, in, n); char h[96]; snprintf(h, sizeof h, "decomp 5 %zu", room);
	if (!ZSTD_isError(r)) vf_emit(h, in, n, " ok", out, r);
	else vf_emit(h, in, n, ZSTD_getErrorCode(r) == ZSTD_error_dstSize_tooSmall ? " small" : " error", NULL, 0);
	return r;
}
void vf_lib_levels(void)
{ char h[96]; snprintf(h, sizeof h, "zrange %d %d", ZSTD_minCLevel(), ZSTD_maxCLevel()); vf_emit(h, NULL, 0, "", NULL, 0); }

#define snappy_max_compressed_length vf_snappy_max
#define snappy_compress vf_snappy_compress
#define snappy_uncompressed_length vf_snappy_ulen
#define snappy_uncompress vf_snappy_uncompress
#undef deflateInit
#define deflateInit vf_deflateInit
#define deflateBound vf_deflateBound
#define deflate vf_deflate
#undef inflateInit
#define inflateInit vf_inflateInit
#define inflate vf_inflate
#define LZ4_compressBound vf_LZ4_compressBound
#define LZ4_compress_default vf_LZ4_compress_default
#define LZ4_compress_HC vf_LZ4_compress_HC
#define LZ4_decompress_safe vf_LZ4_decompress_safe
#define ZSTD_compressBound vf_ZSTD_compressBound
#define ZSTD_compress vf_ZSTD_compress
#define ZSTD_getFrameContentSize vf_ZSTD_getFrameContentSize
#define ZSTD_decompress vf_ZSTD_decompress
#include "mtbl/compression.c"
