/* block.c with a run-time 32-bit threshold (default: the real UINT32_MAX) */
#include "mtbl-private.h"
#include "libmy/ubuf.h"
extern uint64_t vf_thr;
#undef UINT32_MAX
#define UINT32_MAX vf_thr
#include "mtbl/block.c"
