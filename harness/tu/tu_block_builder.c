#include "mtbl-private.h"
#include "libmy/ubuf.h"
const uint64_t vf_real_thr = UINT32_MAX;
uint64_t vf_thr = UINT32_MAX;
#undef UINT32_MAX
#define UINT32_MAX vf_thr
#include "mtbl/block_builder.c"
