import MtblModel.BlockBuilder
import MtblModel.Crc
import MtblModel.Meta
/-
  An independent encoder for the MTBL file format (v1 and v2), parameterised by every choice the
  format leaves open: where restart points go, how many bytes each key shares with its predecessor
  (anything up to the longest common prefix), which separator keys the index uses, how entries are
  split into blocks, leading foreign bytes.  Written from the format description, not from writer.c.
-/
namespace Mtbl

/-- one entry with the number of leading key bytes elided -/
structure EEntry where
  shared : Nat
  e : Entry
deriving Repr, Inhabited, DecidableEq

structure EBlock where
  items : List EEntry
  restarts : List Nat          -- entry indices of the restart points (first must be 0)
deriving Repr, Inhabited, DecidableEq

def EBlock.region (b : EBlock) : Bytes := b.items.flatMap fun it => encEntry it.shared it.e

/-- byte offset of entry `i` inside the entry region (for `i = items.length`: the region's length) -/
def EBlock.offsetOf (b : EBlock) (i : Nat) : Nat := ((b.items.take i).flatMap fun it => encEntry it.shared it.e).length

def EBlock.encode (thr : Nat) (b : EBlock) : Bytes :=
  let region := b.region
  let r64 := region.length > thr
  region ++ (b.restarts.flatMap fun i => if r64 then fixed64 (b.offsetOf i) else fixed32 (b.offsetOf i))
         ++ fixed32 b.restarts.length

def EBlock.entries (b : EBlock) : List Entry := b.items.map (·.e)

/-- legality of the choices inside one block (decidable, so that the driver can check its inputs) -/
def EBlock.legal (b : EBlock) : Bool :=
  b.restarts.head? == some 0 &&
  (b.restarts.zip b.restarts.tail).all (fun (a, c) => decide (a < c)) &&
  b.restarts.all (fun r => decide (r < max b.items.length 1)) &&
  (b.items.zipIdx.all fun (it, i) =>
     decide (it.e.key.length < 4294967296) && decide (it.e.val.length < 4294967296) &&
     (if i = 0 then it.shared == 0
      else match b.items[i - 1]? with
        | some prev => decide (it.shared ≤ lcp prev.e.key it.e.key) && blt prev.e.key it.e.key
        | none => false) &&
     (!b.restarts.contains i || it.shared == 0))

inductive FVersion | v1 | v2
deriving Repr, DecidableEq, Inhabited

structure EFile where
  version : FVersion := .v2
  pre : Bytes := []                       -- foreign bytes before the table
  blocks : List EBlock
  seps : List Bytes                       -- index key of each data block
  indexShared : List Nat                  -- shared-prefix choice of each index entry
  indexRestarts : List Nat := [0]
  compression : Nat := 0
  blockSizeField : Nat := 8192
  thr : Nat := 4294967295
deriving Repr, Inhabited

/-- block framing: length prefix (v1: fixed32, v2: varint), CRC32C of the stored bytes, stored bytes -/
def eframe (ver : FVersion) (stored : Bytes) : Bytes :=
  (match ver with | .v1 => fixed32 stored.length | .v2 => venc stored.length) ++ fixed32 (crc32c stored) ++ stored

/-- frames of the data blocks and the file offset at which each starts (`comp` = compressor of the chosen algorithm) -/
def EFile.dataFrames (f : EFile) (comp : Bytes → Bytes) : List Bytes :=
  f.blocks.map fun b => eframe f.version (if f.compression = 0 then b.encode f.thr else comp (b.encode f.thr))

def frameOffsets (start : Nat) : List Bytes → List Nat
  | [] => []
  | fr :: rest => start :: frameOffsets (start + fr.length) rest

def EFile.indexBlock (f : EFile) (comp : Bytes → Bytes) : EBlock :=
  let offs := frameOffsets f.pre.length (f.dataFrames comp)
  { items := (f.seps.zip offs).zipIdx.map fun ((k, off), i) =>
               { shared := f.indexShared.getD i 0, e := { key := k, val := venc off } },
    restarts := f.indexRestarts }

def EFile.encode (f : EFile) (comp : Bytes → Bytes) : Bytes :=
  let frames := f.dataFrames comp
  let data := frames.flatMap id
  let idxFrame := eframe f.version ((f.indexBlock comp).encode f.thr)
  let allEntries := f.blocks.flatMap (·.entries)
  let m : Meta := { indexBlockOffset := f.pre.length + data.length, dataBlockSize := f.blockSizeField,
                    compression := f.compression, countEntries := allEntries.length,
                    countDataBlocks := f.blocks.length, bytesDataBlocks := data.length,
                    bytesIndexBlock := idxFrame.length,
                    bytesKeys := (allEntries.map (·.key.length)).sum, bytesValues := (allEntries.map (·.val.length)).sum }
  let body := m.fields.flatMap fixed64
  let trailer : Bytes := body ++ List.replicate (METADATA_SIZE - body.length - 4) (0 : UInt8) ++
                 fixed32 (match f.version with | .v1 => MAGIC_V1 | .v2 => MAGIC_V2)
  f.pre ++ data ++ idxFrame ++ trailer

def EFile.entries (f : EFile) : List Entry := f.blocks.flatMap (·.entries)

/-- legality of the file-level choices: every block legal and non-empty, one separator per block with
    last-key-of-block ≤ sep < first-key-of-next-block, index block legal -/
def EFile.legal (f : EFile) (comp : Bytes → Bytes) : Bool :=
  f.blocks.all (fun b => b.legal && !b.items.isEmpty) &&
  f.seps.length == f.blocks.length &&
  (f.indexBlock comp).legal &&
  (f.blocks.zipIdx.all fun (b, j) =>
     match b.items.getLast?, f.seps[j]? with
     | some last, some sep =>
       ble last.e.key sep &&
       (match f.blocks[j + 1]? with
        | some nb => (match nb.items.head? with | some fst => blt sep fst.e.key | none => false)
        | none => true)
     | _, _ => false)

end Mtbl
