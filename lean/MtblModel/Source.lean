import MtblModel.Writer
/-
  mtbl/source.c: mtbl_source_write(source, writer) — iterate the source from its start and add every entry to the
  writer, stopping at the first add the writer refuses; the result is the result of the last add (success for an empty
  source).  The source is represented by the entries its iterator yields.
-/
namespace Mtbl

def W.writeFrom (w : W) : List Entry → Res × W
  | [] => (.success, w)
  | e :: es =>
    let r := w.add e.key e.val
    if r.1 = .success then r.2.writeFrom es else r

end Mtbl
