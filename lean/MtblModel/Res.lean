/-
  C18 — the resource ledger of the API: which descriptors, reader mappings, temporary files and heap objects each call
  acquires and releases, as the code does it (mtbl/writer.c, reader.c, merger.c, sorter.c, fileset.c, libmy/my_fileset.c,
  threadpool.c).  Heap is counted in abstract units (one per live library object), compared with the real process
  only as "zero / not zero" at the end of a history.

  Flags: `fixF6` — `_mtbl_sorter_write_chunk` closes the mkstemp descriptor once the chunk reader has mapped the file
  (pinned code: never closed); `fixF10` — the failure paths of a chunk whose merge callback fails release the chunk's
  entries, vector and descriptor, and `mtbl_sorter_iter` releases what it built before returning NULL.
  Pooled sorters are modelled with the repaired teardown order only (finding F7: the pinned `mtbl_sorter_destroy` freed the
  reader vector before joining the result handler — a crash, not a ledger effect).
-/
namespace Res

structure Ledger where
  fds : Int := 0
  maps : Int := 0
  tmp : Int := 0
  heap : Int := 0
deriving DecidableEq, Repr, Inhabited

instance : Add Ledger := ⟨fun a b => ⟨a.fds + b.fds, a.maps + b.maps, a.tmp + b.tmp, a.heap + b.heap⟩⟩
instance : Sub Ledger := ⟨fun a b => ⟨a.fds - b.fds, a.maps - b.maps, a.tmp - b.tmp, a.heap - b.heap⟩⟩
def Ledger.zero : Ledger := {}

/-- in-memory part of a sorter, as far as spilling and the failing merge callback need it -/
structure SSt where
  limit : Nat                       -- effective max_memory
  eo : Nat := 8                     -- sizeof(struct entry)
  klen : Nat := 6                   -- length of the keys the history adds (the harness's keys: "k%05d", optionally padded)
  failKey : Option Nat := none      -- the merge callback fails for this key
  pooled : Bool := false
  keys : List Nat := []             -- keys of the current batch
  entryBytes : Nat := 0
  chunksOk : Nat := 0               -- chunk readers held (each: one mapping)
  leakedFds : Nat := 0              -- descriptors the sorter code opened and never closes
  leakedHeap : Nat := 0             -- heap objects it dropped on a failure path
  failed : Bool := false            -- a NULL reader sits in the reader vector
  iterating : Bool := false
deriving Repr, Inhabited

inductive Obj
  | free
  | pool
  | writer                          -- open descriptor (dup of the one opened by name, which is closed again)
  | nullObj                         -- the constructor returned NULL: nothing is held
  | reader                          -- one mapping
  | merger (srcs : List Nat)        -- the source objects added to it (readers, filesets, other mergers)
  | sorter (s : SSt)
  | fileset (set : Nat)             -- a handle on shared set `set`
  | iter (pins : List Nat)          -- an iterator; it counts once in n_iters of every shared set listed (one entry per
                                    -- fileset sub-iterator it owns, directly or through mergers)
deriving Repr, Inhabited

/-- what mtbl_fileset_init/_dup handles share (struct shared_fileset + my_fileset) -/
structure Shared where
  sid : Nat                         -- which setfile
  refs : Nat := 1
  nIters : Nat := 0
  reloadNeeded : Bool := true
  seen : Nat := 0                   -- version of the setfile at the last (re)load; 0 = never loaded
  loaded : List (Nat × Bool) := []  -- table ids listed then, with: did it open as a table (a reader is held)
deriving Repr, Inhabited

inductive FileKind | table | bad
deriving DecidableEq, Repr

structure St where
  fixF6 : Bool := true
  fixF10 : Bool := true
  files : List (Nat × FileKind) := []
  setfiles : List (Nat × Nat × List Nat) := []     -- sid ↦ (version ≥ 1, listed table ids)
  objs : List Obj := List.replicate 64 .free    -- the object table of the harness: slots 0..63
  sets : List (Option Shared) := []             -- shared filesets ever created; `none` = destroyed
  ledger : Ledger := {}
  leaked : Ledger := {}                         -- ghost: what destroyed objects left behind (never released by anybody)
deriving Repr, Inhabited

def getObj (s : St) (i : Nat) : Obj := s.objs.getD i .free
def setObj (s : St) (i : Nat) (o : Obj) : St := { s with objs := s.objs.set i o }
def getSet (s : St) (k : Nat) : Option Shared := s.sets.getD k none
def putSet (s : St) (k : Nat) (sh : Shared) : St := { s with sets := s.sets.set k (some sh) }
def dropSet (s : St) (k : Nat) : St := { s with sets := s.sets.set k none }
def fileKind (s : St) (t : Nat) : Option FileKind := (s.files.find? fun p => p.1 == t).map (·.2)

/-- what an object holds right now -/
def holds : Obj → Ledger
  | .free => {}
  | .nullObj => {}
  | .pool => { heap := 1 }
  | .writer => { fds := 1, heap := 1 }
  | .reader => { maps := 1, heap := 1 }
  | .merger _ => { heap := 1 }
  | .sorter ss => { maps := ss.chunksOk, fds := ss.leakedFds, heap := 1 + ss.leakedHeap }
  | .fileset _ => { heap := 1 }
  | .iter _ => { heap := 1 }
def holdsSet (sh : Shared) : Ledger := { maps := (sh.loaded.filter (·.2)).length, heap := 1 }
def holdsSet? : Option Shared → Ledger | some sh => holdsSet sh | none => {}

/-- my_fileset_reload through the shared set: only when the setfile changed since the last load -/
def doReload (s : St) (k : Nat) : St :=
  match getSet s k with
  | none => s
  | some sh =>
    match s.setfiles.find? fun p => p.1 == sh.sid with
    | none => putSet s k { sh with reloadNeeded := false }
    | some (_, ver, listed) =>
      if ver == sh.seen then putSet s k { sh with reloadNeeded := false }
      else
        let listed := listed.filter fun t => (fileKind s t).isSome          -- path_exists
        -- an entry already loaded keeps its reader (or its NULL); a new one is opened now
        let entries := listed.map fun t =>
          match sh.loaded.find? fun p => p.1 == t with
          | some p => p
          | none => (t, fileKind s t == some .table)
        let sh' := { sh with reloadNeeded := false, seen := ver, loaded := entries }
        putSet { s with ledger := s.ledger - holdsSet sh + holdsSet sh' } k sh'

/-- mtbl_fileset_reload with interval NEVER -/
def reloadCheck (s : St) (k : Nat) : St :=
  match getSet s k with
  | none => s
  | some sh => if !sh.reloadNeeded then s else if sh.nIters > 0 then s else doReload s k

/-- one spilled chunk of a sorter (_mtbl_sorter_flush + _mtbl_sorter_write_chunk) -/
def flushChunk (fixF6 fixF10 : Bool) (ss : SSt) : SSt :=
  let dupFail : Bool := match ss.failKey with
    | some fk => decide ((ss.keys.filter (· == fk)).length ≥ 2)
    | none => false
  let ss' := { ss with keys := [], entryBytes := 0 }
  if dupFail then
    { ss' with failed := true,
               leakedFds := ss'.leakedFds + (if fixF10 then 0 else 1),
               leakedHeap := ss'.leakedHeap + (if fixF10 then 0 else 1) }
  else
    { ss' with chunksOk := ss'.chunksOk + 1, leakedFds := ss'.leakedFds + (if fixF6 then 0 else 1) }

def sorterAdd (fixF6 fixF10 : Bool) (ss : SSt) (key vlen : Nat) : Bool × SSt :=
  if ss.iterating then (false, ss) else
  let ss1 := { ss with keys := ss.keys ++ [key], entryBytes := ss.entryBytes + ss.eo + ss.klen + vlen }
  if ss1.entryBytes + 8 * ss1.keys.length ≥ ss1.limit then
    let ss2 := flushChunk fixF6 fixF10 ss1
    (ss.pooled || !(ss2.failed && !ss1.failed), ss2)       -- a pooled dispatch always reports success
  else (true, ss1)

/-- mtbl_sorter_iter: final flush; NULL if a chunk failed (the unpooled final flush reports it; a NULL reader from an
    earlier chunk makes the pinned code assert — the repaired code returns NULL) -/
def sorterIter (fixF6 fixF10 : Bool) (ss : SSt) : Bool × SSt :=
  let ss1 := if ss.keys.length > 0 then flushChunk fixF6 fixF10 ss else ss
  if ss1.failed then (false, { ss1 with leakedHeap := ss1.leakedHeap + (if fixF10 then 0 else 1) })
  else (true, { ss1 with iterating := true })

/-- the shared sets an iterator on source object `src` will hold sub-iterators on, in creation order -/
def setsOf (s : St) : Nat → Nat → List Nat
  | 0, _ => []
  | fuel + 1, src =>
    match getObj s src with
    | .fileset k => [k]
    | .merger srcs => srcs.flatMap (setsOf s fuel)
    | _ => []

/-- fileset_source_iter/get/…: the handle's reload check, then n_iters++ — once per fileset sub-iterator, in order -/
def pinAll (s : St) (pins : List Nat) : St :=
  pins.foldl (fun s k =>
    let s1 := reloadCheck s k
    match getSet s1 k with
    | some sh => putSet s1 k { sh with nIters := sh.nIters + 1 }
    | none => s1) s

inductive Op
  | table (t n : Nat) | bad (t : Nat) | setfile (sid : Nat) (ts : List Nat)
  | pool (i : Nat) | writer (i : Nat) (exists_ : Bool) | wadd (i : Nat)
  | reader (i t : Nat) | merger (i : Nat) (srcs : List Nat)
  | sorter (i : Nat) (ss : SSt) | sadd (i key vlen : Nat) | siter (i sorterId : Nat) | swrite (sorterId : Nat)
  | fileset (i sid : Nat) | fsdup (i orig : Nat) | fsreload (i : Nat)
  | iter (i src : Nat) | use (i : Nat)
  | destroy (i : Nat)
deriving Repr

/-- destroying object `i` releases exactly what the destructor releases -/
def destroyObj (s : St) (i : Nat) : St :=
  let o := getObj s i
  let s1 := setObj { s with ledger := s.ledger - holds o } i .free
  match o with
  | .sorter ss =>
    -- mtbl_sorter_destroy: readers destroyed (their mappings go); descriptors the chunk code left open and heap it
    -- dropped are NOT released by anybody: they stay in the ledger
    { s1 with ledger := s1.ledger + { fds := ss.leakedFds, heap := ss.leakedHeap },
              leaked := s1.leaked + { fds := ss.leakedFds, heap := ss.leakedHeap } }
  | .fileset k =>
    match getSet s1 k with
    | none => s1
    | some sh =>
      if sh.refs ≤ 1 then dropSet { s1 with ledger := s1.ledger - holdsSet sh } k
      else putSet s1 k { sh with refs := sh.refs - 1 }
  | .iter pins =>
    -- fileset_iter_free of every fileset sub-iterator: n_iters--, then the handle's reload check
    pins.foldl (fun s k => match getSet s k with
      | none => s
      | some sh => reloadCheck (putSet s k { sh with nIters := sh.nIters - 1 }) k) s1
  | _ => s1

def create (s : St) (i : Nat) (o : Obj) : St :=
  if i < s.objs.length then
    match getObj s i with
    | .free => setObj { s with ledger := s.ledger + holds o } i o
    | _ => s                                                 -- slot in use: ill-formed request, ignored
  else s                                                     -- no such slot (the harness refuses the request)

def step (s : St) : Op → St
  | .table t _ => { s with files := (t, .table) :: s.files.filter fun p => p.1 != t }
  | .bad t => { s with files := (t, .bad) :: s.files.filter fun p => p.1 != t }
  | .setfile sid ts =>
    let ver := ((s.setfiles.find? fun p => p.1 == sid).map (·.2.1)).getD 0 + 1
    { s with setfiles := (sid, ver, ts) :: s.setfiles.filter fun p => p.1 != sid }
  | .pool i => create s i .pool
  | .writer i ex => create s i (if ex then .nullObj else .writer)
  | .wadd _ => s
  | .reader i t => create s i (if fileKind s t == some .table then .reader else .nullObj)
  | .merger i srcs => create s i (.merger srcs)
  | .sorter i ss => create s i (.sorter ss)
  | .sadd i key vlen =>
    match getObj s i with
    | .sorter ss =>
      let ss' := (sorterAdd s.fixF6 s.fixF10 ss key vlen).2
      setObj { s with ledger := s.ledger - holds (.sorter ss) + holds (.sorter ss') } i (.sorter ss')
    | _ => s
  | .siter i sid =>
    match getObj s sid, getObj s i with
    | .sorter ss, .free =>
      let r := sorterIter s.fixF6 s.fixF10 ss
      let s1 := setObj { s with ledger := s.ledger - holds (.sorter ss) + holds (.sorter r.2) } sid (.sorter r.2)
      create s1 i (if r.1 then .iter [] else .nullObj)
    | _, _ => s
  | .swrite sid =>
    match getObj s sid with
    | .sorter ss =>
      if ss.iterating then s else
      let r := sorterIter s.fixF6 s.fixF10 ss
      setObj { s with ledger := s.ledger - holds (.sorter ss) + holds (.sorter r.2) } sid (.sorter r.2)
    | _ => s
  | .fileset i sid =>
    if i < s.objs.length then
      match getObj s i with
      | .free =>
        let k := s.sets.length
        let sh : Shared := { sid }
        create { s with sets := s.sets ++ [some sh], ledger := s.ledger + holdsSet sh } i (.fileset k)
      | _ => s
    else s
  | .fsdup i orig =>
    match getObj s orig, getObj s i with
    | .fileset k, .free =>
      match getSet s k with
      | some sh => create (putSet s k { sh with refs := sh.refs + 1 }) i (.fileset k)
      | none => s
    | _, _ => s
  | .fsreload i =>
    match getObj s i with
    | .fileset k =>
      match getSet s k with
      | some sh => if sh.nIters > 0 then putSet s k { sh with reloadNeeded := true } else doReload s k
      | none => s
    | _ => s
  | .iter i src =>
    match getObj s i with
    | .free =>
      match getObj s src with
      | .fileset _ =>
        let pins := setsOf s 8 src
        create (pinAll s pins) i (.iter pins)
      | .reader => create s i (.iter [])
      | .merger _ =>
        let pins := setsOf s 8 src
        create (pinAll s pins) i (.iter pins)
      | _ => s
    | _ => s
  | .use _ => s
  | .destroy i => destroyObj s i

def run (s : St) (ops : List Op) : St := ops.foldl step s

/-- nothing is alive: every slot free, every shared set gone -/
def isFree : Obj → Bool | .free => true | .nullObj => true | _ => false
def allFree (s : St) : Bool := s.objs.all isFree && s.sets.all (·.isNone)

end Res
