import MtblModel.Varint
/-
  mtbl/compression.c : the compression wrappers.

  The five external libraries (snappy, zlib, lz4, lz4hc, zstd) cannot be modelled; they enter as the
  fields of a record `Lib` of pure functions.  What the wrappers do AROUND the library calls is modelled
  line by line: dispatch on the algorithm, default levels, level clamping, destination sizing, the
  `input_size > INT_MAX` guards, the lz4 length prefix, the zstd frame content size, the zlib inflate
  grow loop, every `assert`, and the name table.

  Not modelled (assumed): `malloc`/`realloc` of a size below 2^63 succeeds (`my_malloc` asserts on NULL;
  `malloc(0)` returns a non-NULL pointer as glibc does), `deflateInit`/`inflateInit` return Z_OK when the
  level is in -1..9, `deflateEnd` returns Z_OK after Z_STREAM_END, `assert(zs.avail_in == 0)` holds after
  Z_STREAM_END.
-/
namespace Mtbl.Cz

/-- `mtbl_compression_type` (mtbl.h): enum values 0..5 -/
inductive Algo | none | snappy | zlib | lz4 | lz4hc | zstd
deriving Repr, DecidableEq, Inhabited

def Algo.toNat : Algo → Nat
  | .none => 0 | .snappy => 1 | .zlib => 2 | .lz4 => 3 | .lz4hc => 4 | .zstd => 5

def Algo.ofNat? : Nat → Option Algo
  | 0 => some .none | 1 => some .snappy | 2 => some .zlib | 3 => some .lz4 | 4 => some .lz4hc | 5 => some .zstd
  | _ => Option.none

/-- Outcome of one wrapper call.
    * `ok out`  : `mtbl_res_success`, `*output`/`*output_size` describe `out`
    * `fail`    : `mtbl_res_failure`
    * `abort`   : an `assert` stopped the process
    * `wrap`    : a 32-bit `z_stream` counter (`avail_in`, `avail_out` are `uInt`) would be assigned a value
                  ≥ 2^32.  The C code truncates silently; what follows (wrong output, abort, runaway
                  reallocation) is NOT tracked by the model.  Only the zlib wrappers can produce it, and only
                  for buffers of a gigabyte and more. -/
inductive CRes | ok (out : Bytes) | fail | abort | wrap
deriving Repr, DecidableEq, Inhabited

/-- success or reported failure: the two outcomes C15 allows -/
def CRes.graceful : CRes → Bool
  | .ok _ => true | .fail => true | .abort => false | .wrap => false

/-- outcome of a raw library decompression into `room` bytes -/
inductive DRes
  | ok (out : Bytes)   -- the whole stream was decoded; `out` is what was written (never more than `room` bytes)
  | tooSmall           -- the destination is too small (zlib: Z_BUF_ERROR; the others: an error code)
  | error              -- any other error (corrupt input, …)
deriving Repr, DecidableEq, Inhabited

/-- The external libraries as deterministic pure functions. -/
structure Lib where
  /-- `ZSTD_minCLevel()` (1 when the zstd headers are older than 1.4.0) -/
  zstdMin : Int
  /-- `ZSTD_maxCLevel()` -/
  zstdMax : Int
  /-- worst-case compressed size: `snappy_max_compressed_length` (.snappy), `LZ4_compressBound` (.lz4 — the same
      function serves lz4hc), `ZSTD_compressBound` (.zstd).  The .none/.zlib/.lz4hc entries are not used. -/
  bound : Algo → Nat → Nat
  /-- `deflateBound(&zs, n)` on a stream initialised by `deflateInit(&zs, level)` (repaired code only) -/
  deflateBound : (level : Int) → Nat → Nat
  /-- the one-shot compressor writing into `cap` bytes: `snappy_compress`, `deflate(Z_FINISH)` after
      `deflateInit(level)`, `LZ4_compress_default`, `LZ4_compress_HC(level)`, `ZSTD_compress(level)`.
      `none` = anything but complete success (does not fit, error code, for zlib: not Z_STREAM_END). -/
  comp : Algo → (level : Int) → (cap : Nat) → Bytes → Option Bytes
  /-- the raw decompressor writing into `room` bytes: `snappy_uncompress`, `inflate(Z_FINISH)` with `room` bytes
      of output space in total, `LZ4_decompress_safe` (.lz4, shared by lz4hc), `ZSTD_decompress`. -/
  decomp : Algo → (room : Nat) → Bytes → DRes
  /-- `ZSTD_getFrameContentSize`; `none` = ZSTD_CONTENTSIZE_UNKNOWN or ZSTD_CONTENTSIZE_ERROR -/
  zstdContentSize : Bytes → Option Nat
  /-- `snappy_uncompressed_length`; `none` = status other than SNAPPY_OK -/
  snappyLen : Bytes → Option Nat

def INT_MAX : Nat := 2147483647
/-- one more than UINT_MAX: the range of `uInt` (z_stream.avail_in/avail_out) and of `uint32_t` -/
def U32 : Nat := 4294967296

/-- The compression level handed to the library.  `none` = called through `mtbl_compress` (the built-in
    default then runs through the same clamping), `some l` = `mtbl_compress_level(…, l, …)`.
    snappy and lz4 take no level: 0. -/
def effLevel (L : Lib) : Algo → Option Int → Int
  | .none, _ => 0
  | .snappy, _ => 0
  | .lz4, _ => 0
  | .zlib, l =>
    let l := l.getD (-1)                       -- Z_DEFAULT_COMPRESSION
    if l < -1 then 0                           -- Z_NO_COMPRESSION
    else if l > 9 then 9                       -- Z_BEST_COMPRESSION
    else l
  | .lz4hc, l =>
    let l := l.getD 9
    if l < 0 then 0 else l
  | .zstd, l =>
    let l := l.getD 9
    if l < L.zstdMin then L.zstdMin
    else if l > L.zstdMax then L.zstdMax
    else l

/-- Size of the destination buffer the wrapper allocates (`*output_size` at the `my_malloc`), for an input of
    `n` bytes and the (already clamped) level `lvl`.
    `fixF4 = false`: the pinned code, zlib gets `2 * n`;  `fixF4 = true`: the repaired code, `deflateBound`. -/
def dstCap (fixF4 : Bool) (L : Lib) (a : Algo) (lvl : Int) (n : Nat) : Nat :=
  match a with
  | .none => 0
  | .snappy => L.bound .snappy n
  | .zlib => if fixF4 then L.deflateBound lvl n else 2 * n
  | .lz4 => L.bound .lz4 n + 4
  | .lz4hc => L.bound .lz4 n + 4
  | .zstd =>
    let b := L.bound .zstd n
    if b < INT_MAX / 2 then 2 * b else b

/-- the capacity the library call is given: the lz4 wrappers keep 4 bytes for the length prefix -/
def libCap (fixF4 : Bool) (L : Lib) (a : Algo) (lvl : Int) (n : Nat) : Nat :=
  match a with
  | .lz4 => dstCap fixF4 L a lvl n - 4
  | .lz4hc => dstCap fixF4 L a lvl n - 4
  | _ => dstCap fixF4 L a lvl n

/-- `mtbl_compress` (`level = none`) and `mtbl_compress_level` (`level = some l`) on a valid enum value. -/
def compress (fixF4 : Bool) (L : Lib) (a : Algo) (level : Option Int) (input : Bytes) : CRes :=
  let n := input.length
  let lvl := effLevel L a level
  let cap := libCap fixF4 L a lvl n
  match a with
  | .none => .fail
  | .snappy =>                                   -- no size guard
    match L.comp .snappy lvl cap input with
    | some o => .ok o
    | none => .fail
  | .zlib =>                                     -- no size guard
    if lvl < -1 ∨ lvl > 9 then .abort            -- assert(deflateInit(..) == Z_OK); unreachable after clamping
    else if n ≥ U32 ∨ cap ≥ U32 then .wrap       -- zs.avail_in = input_size; zs.avail_out = *output_size
    else match L.comp .zlib lvl cap input with
      | some o => .ok o
      | none => .abort                           -- assert(zret == Z_STREAM_END)
  | .lz4 =>
    if n > INT_MAX then .fail
    else match L.comp .lz4 lvl cap input with
      | none => .fail
      | some o => if o.isEmpty then .fail        -- lz4_size == 0
                  else .ok (fixed32 n ++ o)      -- mtbl_fixed_encode32(*output, (uint32_t) input_size)
  | .lz4hc =>
    if n > INT_MAX then .fail
    else match L.comp .lz4hc lvl cap input with
      | none => .fail
      | some o => if o.isEmpty then .fail else .ok (fixed32 n ++ o)
  | .zstd =>
    if n > INT_MAX then .fail
    else match L.comp .zstd lvl cap input with
      | some o => .ok o
      | none => .fail                            -- ZSTD_isError

/-- The caller gets `size` bytes at `*output`; the library wrote `o`.  Bytes the library did not write are
    indeterminate in C (modelled as 0); the library never writes past the capacity it was given. -/
def sized (size : Nat) (o : Bytes) : Bytes := o.take size ++ List.replicate (size - o.length) 0

/-- the `do … while (zret != Z_STREAM_END)` loop of `_mtbl_decompress_zlib`; `room` = `*output_size`.
    The buffer doubles on Z_BUF_ERROR; starting at ≥ 1024 bytes, 23 doublings pass 2^32, so the fuel never runs out
    before `.wrap`. -/
def inflateLoop (L : Lib) (src : Bytes) : (fuel : Nat) → (room : Nat) → CRes
  | fuel, room =>
    match L.decomp .zlib room src with
    | .ok o => .ok o                             -- *output_size = zs.total_out
    | .error => .abort                           -- assert(zret == Z_STREAM_END || zret == Z_BUF_ERROR)
    | .tooSmall =>
      if room ≥ U32 then .wrap                   -- zs.avail_out = *output_size (the old size)
      else match fuel with
        | 0 => .wrap
        | fuel + 1 => inflateLoop L src fuel (2 * room)

/-- `_mtbl_decompress_lz4`: LZ4 and LZ4HC use the same decompressor (a function of its own so that evaluating the
    model for another algorithm does not evaluate it) -/
def decompressLz4 (L : Lib) (stored : Bytes) : CRes :=
  let n := stored.length
  if n > INT_MAX ∨ n < 4 then .fail
  else
    let size := dec32 stored                   -- mtbl_fixed_decode32(input)
    if size > INT_MAX then .fail               -- (int) cast: negative capacity, LZ4_decompress_safe returns < 0
    else match L.decomp .lz4 size (stored.drop 4) with
      | .ok o => .ok (sized size o)            -- *output_size keeps the prefix value
      | _ => .fail

/-- `mtbl_decompress` on a valid enum value.
    `fixF5 = false`: the pinned zstd wrapper, `if (*output_size <= 0) return failure` on the value of
    `ZSTD_getFrameContentSize` cast to `size_t`: a content size of 0 is refused, while the two error codes
    (2^64-1, 2^64-2) pass the test and reach `my_malloc(2^64-1)`, which asserts.
    `fixF5 = true`: the repaired wrapper refuses exactly the two error codes. -/
def decompress (fixF5 : Bool) (L : Lib) (a : Algo) (stored : Bytes) : CRes :=
  let n := stored.length
  match a with
  | .none => .fail
  | .snappy =>
    match L.snappyLen stored with
    | none => .fail
    | some size =>
      match L.decomp .snappy size stored with
      | .ok o => .ok o                           -- snappy_uncompress stores the length it produced
      | _ => .fail
  | .zlib =>
    let room := 4 * n - (4 * n) % 1024 + 1024
    if n ≥ U32 ∨ room ≥ U32 then .wrap           -- zs.avail_in = input_size; zs.avail_out = *output_size
    else inflateLoop L stored 32 room
  | .lz4 => decompressLz4 L stored
  | .lz4hc => decompressLz4 L stored
  | .zstd =>
    if n > INT_MAX then .fail
    else match L.zstdContentSize stored with
      | none => if fixF5 then .fail else .abort  -- pinned: my_malloc((size_t) -1 or -2) → assert(ptr != NULL)
      | some size =>
        if size = 0 ∧ !fixF5 then .fail          -- pinned: `*output_size <= 0`
        else match L.decomp .zstd size stored with
          | .ok o => .ok (sized size o)          -- *output_size keeps the frame content size
          | _ => .fail                           -- ZSTD_isError

/-- the three entry points on the RAW enum value (the `default:` branches) -/
def compressT (fixF4 : Bool) (L : Lib) (t : Nat) (level : Option Int) (input : Bytes) : CRes :=
  match Algo.ofNat? t with
  | some a => compress fixF4 L a level input
  | none => .fail

def decompressT (fixF5 : Bool) (L : Lib) (t : Nat) (stored : Bytes) : CRes :=
  match Algo.ofNat? t with
  | some a => decompress fixF5 L a stored
  | none => .fail

/-! ### the name table -/

/-- `mtbl_compression_type_to_str` on the raw enum value; `none` = NULL -/
def typeToStr : Nat → Option String
  | 0 => some "none"
  | 1 => some "snappy"
  | 2 => some "zlib"
  | 3 => some "lz4"
  | 4 => some "lz4hc"
  | 5 => some "zstd"
  | _ => none

/-- `strcasecmp(s, name) == 0` for an all-lower-case ASCII `name` (POSIX locale: only A–Z fold) -/
def caseEq (s name : String) : Bool := s.toLower == name

/-- `mtbl_compression_type_from_str`; `none` = mtbl_res_failure (`*t` untouched) -/
def typeFromStr (s : String) : Option Nat :=
  if caseEq s "none" then some 0
  else if caseEq s "snappy" then some 1
  else if caseEq s "zlib" then some 2
  else if caseEq s "lz4" then some 3
  else if caseEq s "lz4hc" then some 4
  else if caseEq s "zstd" then some 5
  else none

/-! ### the assumed library behaviour -/

/-- which raw decompressor `mtbl_decompress` uses for data produced by algorithm `a` -/
def decoder : Algo → Algo
  | .lz4hc => .lz4
  | a => a

/-- THE TRUSTED LIBRARY CONTRACTS.  Everything proved about `compress`/`decompress` round trips is relative to
    these statements about snappy, zlib, lz4 and zstd; none of them is checked by Lean.  They are quantified over
    every level and capacity, and (except `zlib_finishes`) only speak about calls that SUCCEEDED, so they do not
    assume that a library accepts a given size or level.

    * `fits`            a successful one-shot compression wrote at most `cap` bytes.
    * `roundtrip`       for an input shorter than 2^32 bytes: the raw decompressor of the same family
                        (lz4hc data is decoded by the lz4 decoder), given the compressor's output and at least
                        `input.length` bytes of room, reproduces the input.  This includes the empty input with
                        0 bytes of room (LZ4_decompress_safe, ZSTD_decompress and snappy_uncompress accept a
                        capacity of 0 for an empty payload).
    * `zlib_too_small`  `inflate(Z_FINISH)` on a complete deflate stream with less output space than the
                        original length returns Z_BUF_ERROR (not a data error).
    * `zlib_finishes`   the guarantee documented for `deflateBound`: after `deflateInit` with a level in -1..9,
                        ONE call `deflate(Z_FINISH)` with `avail_out ≥ deflateBound(&zs, n)` consumes the whole
                        input (n < 2^32) and returns Z_STREAM_END.
    * `zstd_size`       a frame made by `ZSTD_compress` records its content size, and
                        `ZSTD_getFrameContentSize` returns it.
    * `snappy_size`     `snappy_uncompressed_length` of `snappy_compress`'s output is the input length. -/
structure LibOK (L : Lib) : Prop where
  fits : ∀ a lvl cap inp out, L.comp a lvl cap inp = some out → out.length ≤ cap
  roundtrip : ∀ a lvl cap inp out room, a ≠ .none → inp.length < U32 → L.comp a lvl cap inp = some out →
    inp.length ≤ room → L.decomp (decoder a) room out = .ok inp
  zlib_too_small : ∀ lvl cap inp out room, L.comp .zlib lvl cap inp = some out →
    room < inp.length → L.decomp .zlib room out = .tooSmall
  zlib_finishes : ∀ lvl cap inp, -1 ≤ lvl → lvl ≤ 9 → inp.length < U32 → L.deflateBound lvl inp.length ≤ cap →
    (L.comp .zlib lvl cap inp).isSome
  zstd_size : ∀ lvl cap inp out, inp.length < U32 → L.comp .zstd lvl cap inp = some out →
    L.zstdContentSize out = some inp.length
  snappy_size : ∀ lvl cap inp out, inp.length < U32 → L.comp .snappy lvl cap inp = some out →
    L.snappyLen out = some inp.length

/-! ### size side conditions under which the round-trip theorem is stated

  The wrappers compare sizes with INT_MAX *after* compressing, and zlib's counters are 32 bits wide, so a round
  trip needs the worst-case compressed size to stay below those limits.  `Fits` is that condition, per algorithm,
  in terms of the library's own bound function; `BoundSane` + "at most 512 MiB" implies it for every algorithm. -/

/-- * zlib: the first inflate buffer, `4 * stored + 1024` bytes, must be below 2^32 (`avail_out` is a `uInt`);
      `stored ≤` the compress destination.
    * lz4, lz4hc: prefix + payload must pass the `input_size > INT_MAX` guard of `_mtbl_decompress_lz4`
      (true of the real `LZ4_compressBound`, whose largest value is 2 122 219 150).
    * zstd: the frame must pass the `input_size > INT_MAX` guard of `_mtbl_decompress_zstd`. -/
def Fits (fixF4 : Bool) (L : Lib) (a : Algo) (lvl : Int) (n : Nat) : Prop :=
  match a with
  | .zlib => 4 * dstCap fixF4 L .zlib lvl n + 1024 < U32
  | .lz4 => L.bound .lz4 n + 4 ≤ INT_MAX
  | .lz4hc => L.bound .lz4 n + 4 ≤ INT_MAX
  | .zstd => L.bound .zstd n ≤ INT_MAX
  | _ => True

/-- every bound function stays below `n + n/4 + 1024` (snappy: 32 + n + n/6; lz4: n + n/255 + 16;
    zstd: n + n/256 + 64; deflateBound, conservative form: n + n/8 + n/64 + 18) -/
def BoundSane (L : Lib) : Prop :=
  (∀ a n, L.bound a n ≤ n + n / 4 + 1024) ∧ (∀ lvl n, L.deflateBound lvl n ≤ n + n / 4 + 1024)

/-! ### a toy library (used for the witnesses and to show that `LibOK` is satisfiable)

  Every "compressor" stores the input behind a header: snappy and zstd a 4-byte little-endian length, zlib 11
  zero bytes (the overhead of a stored deflate block inside a zlib wrapper: 2 + 5 + 4), lz4/lz4hc one zero byte. -/

def toyHdrLen : Algo → Nat
  | .none => 0 | .snappy => 4 | .zlib => 11 | .lz4 => 1 | .lz4hc => 1 | .zstd => 4

def toyHdr : Algo → Nat → Bytes
  | .none, _ => []
  | .snappy, n => fixed32 n
  | .zlib, _ => List.replicate 11 0
  | .lz4, _ => [0]
  | .lz4hc, _ => [0]
  | .zstd, n => fixed32 n

def toyLen (s : Bytes) : Option Nat := if s.length < 4 then none else some (dec32 s)

def toy : Lib where
  zstdMin := -131072
  zstdMax := 22
  bound a n := n + toyHdrLen a
  deflateBound _ n := n + 11
  comp a _ cap inp :=
    let out := toyHdr a inp.length ++ inp
    if out.length ≤ cap then some out else none
  decomp a room s :=
    if s.length < toyHdrLen a then .error
    else if (s.drop (toyHdrLen a)).length ≤ room then .ok (s.drop (toyHdrLen a))
    else .tooSmall
  zstdContentSize := toyLen
  snappyLen := toyLen

end Mtbl.Cz
