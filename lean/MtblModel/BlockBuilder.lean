import MtblModel.Varint
/-
  mtbl/block_builder.c
-/
namespace Mtbl

/-- one entry as written by block_builder_add, with `shared` bytes elided.  The three header
    fields go through `mtbl_varint_encode32`,
    whose parameter is `uint32_t`: lengths of 4 GiB and more are silently truncated (finding F11). -/
def venc32t (v : Nat) : Bytes := venc32 (v % 4294967296)   -- size_t argument converted to uint32_t

def encEntry (shared : Nat) (e : Entry) : Bytes :=
  venc32t shared ++ venc32t (e.key.length - shared) ++ venc32t e.val.length ++ e.key.drop shared ++ e.val

structure BB where
  interval : Nat
  thr : Nat := 4294967295        -- UINT32_MAX in block_builder.c (parameter so that the 64-bit path is reachable)
  buf : Bytes := []
  lastKey : Bytes := []
  restarts : List Nat := [0]
  counter : Nat := 0
deriving Repr, Inhabited

/-- block_builder_add.  (The C function asserts `counter <= interval`, which holds by construction.) -/
def BB.add (b : BB) (e : Entry) : BB :=
  if b.counter < b.interval then
    { b with buf := b.buf ++ encEntry (lcp b.lastKey e.key) e, lastKey := e.key, counter := b.counter + 1 }
  else
    { b with restarts := b.restarts ++ [b.buf.length], buf := b.buf ++ encEntry 0 e,
             lastKey := e.key, counter := 1 }

def BB.addAll (b : BB) (es : List Entry) : BB := es.foldl BB.add b

def BB.empty (b : BB) : Bool := b.buf.length == 0

/-- block_builder_current_size_estimate -/
def BB.estimate (b : BB) : Nat :=
  if b.buf.length > b.thr then b.buf.length + b.restarts.length * 8 + 4
  else b.buf.length + b.restarts.length * 8 / 2 + 4

/-- block_builder_finish -/
def BB.finish (b : BB) : Bytes :=
  let r64 := b.buf.length > b.thr
  b.buf ++ (b.restarts.flatMap fun r => if r64 then fixed64 r else fixed32 r) ++ fixed32 b.restarts.length

def BB.reset (b : BB) : BB := { interval := b.interval, thr := b.thr }

end Mtbl
