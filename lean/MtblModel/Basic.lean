/-
  Basic vocabulary of the model: byte strings, entries, `bytes_compare`.
  Core Lean only (the driver executable links against these files).
-/
namespace Mtbl

abbrev Bytes := List UInt8

structure Entry where
  key : Bytes
  val : Bytes
deriving Repr, DecidableEq, Inhabited, BEq

/-- `bytes_compare` (mtbl-private.h): memcmp over the common length (unsigned bytes), then the
    shorter string first. -/
def bcmp : Bytes → Bytes → Ordering
  | [], [] => .eq
  | [], _ :: _ => .lt
  | _ :: _, [] => .gt
  | a :: as, b :: bs => if a < b then .lt else if b < a then .gt else bcmp as bs

/-- strict order used by every specification: `a < b` in unsigned bytewise order, proper prefix first -/
def blt (a b : Bytes) : Bool := bcmp a b == .lt
def ble (a b : Bytes) : Bool := bcmp a b != .gt

/-- length of the longest common prefix (the `shared` loop of block_builder_add) -/
def lcp : Bytes → Bytes → Nat
  | a :: as, b :: bs => if a = b then 1 + lcp as bs else 0
  | _, _ => 0

/-- `memcmp(p, key, len p) == 0 && len p <= len key` (reader_iter_next GET_PREFIX test) -/
def isPrefix (p key : Bytes) : Bool := p.length ≤ key.length && key.take p.length == p

/-- the C result code -/
inductive Res | success | failure
deriving Repr, DecidableEq, Inhabited

end Mtbl
