import MtblModel.Writer
/-
  The writer with a thread pool (mtbl/writer.c, `w->pool != NULL`), as the code splits the work:
    * the CALLER (`mtbl_writer_add` → `_mtbl_writer_flush`) finishes the block under construction, copies the index key
      (`last_key`, at that moment the separator) into a `struct data_block` and dispatches it (ordered);
    * a WORKER compresses it (`_mtbl_writer_compress_block`);
    * the RESULT HANDLER (`_mtbl_writer_write_data_block`) writes the frame, advances the offsets and block counters and
      adds the index entry.
  `W.cut` is the caller's part of a flush, `W.complete` the worker's and the handler's.  `PW` is a writer together with the
  blocks dispatched and not yet delivered; its steps are `add` (caller) and `deliver` (handler takes the OLDEST outstanding
  block — ordered delivery, C13_order); `PW.finish` joins (delivers everything outstanding, C13_complete) and writes index and
  trailer.
-/
namespace Mtbl

structure WBlock where
  raw : Bytes            -- finished, uncompressed block
  lastKey : Bytes        -- index key captured at dispatch time
deriving Repr, Inhabited

/-- caller side of `_mtbl_writer_flush`: `none` if the block builder is empty -/
def W.cut (w : W) : Option WBlock × W :=
  if w.data.empty then (none, w) else (some { raw := w.data.finish, lastKey := w.lastKey }, { w with data := w.data.reset })

/-- worker + result handler for one block -/
def W.complete (w : W) (b : WBlock) : W :=
  let stored? := if w.cfg.compression = 0 then some b.raw else w.cfg.comp b.raw
  match stored? with
  | none => { w with aborted := true }
  | some stored =>
    let fr := frame stored
    let lastOffset := w.pendingOffset
    { w with out := w.out ++ fr, lastOffset,
             pendingOffset := w.pendingOffset + fr.length,
             m := { w.m with bytesDataBlocks := w.m.bytesDataBlocks + fr.length,
                             countDataBlocks := w.m.countDataBlocks + 1 },
             index := w.index.add { key := b.lastKey, val := venc lastOffset } }

structure PW where
  w : W
  pending : List WBlock := []     -- dispatched, not yet delivered (oldest first)
deriving Inhabited

/-- mtbl_writer_add with a pool: the gate and the block cut as in `W.add`, but a cut block is only dispatched -/
def PW.add (p : PW) (k v : Bytes) : Res × PW :=
  let w := p.w
  if w.m.countEntries > 0 ∧ bcmp k w.lastKey != .gt then (.failure, p) else
  let est := w.data.estimate + 15 + k.length + v.length
  let (blk, w) := if est ≥ w.cfg.effBlockSize then
      ({ w with lastKey := shortestSep w.lastKey k, aborted := w.aborted || !sepAssertOk w.lastKey k } : W).cut
    else (none, w)
  (.success, { w := { w with lastKey := k,
                             m := { w.m with countEntries := w.m.countEntries + 1,
                                             bytesKeys := w.m.bytesKeys + k.length,
                                             bytesValues := w.m.bytesValues + v.length },
                             data := w.data.add { key := k, val := v } },
               pending := p.pending ++ blk.toList })

/-- the result handler delivers the oldest outstanding block (no-op if there is none) -/
def PW.deliver (p : PW) : PW :=
  match p.pending with
  | [] => p
  | b :: rest => { w := p.w.complete b, pending := rest }

inductive PStep | add (k v : Bytes) | deliver
deriving Inhabited

def PW.step (p : PW) : PStep → PW
  | .add k v => (p.add k v).2
  | .deliver => p.deliver

/-- _mtbl_writer_finish with a pool: dispatch the last block, join the handler (everything outstanding is delivered, in
    order), then index block and trailer -/
def PW.finish (p : PW) : Bytes :=
  let (blk, w) := p.w.cut
  let w := (p.pending ++ blk.toList).foldl W.complete w
  let fr := frame w.index.finish
  let m := { w.m with indexBlockOffset := w.pendingOffset, bytesIndexBlock := fr.length }
  w.out ++ fr ++ m.write

end Mtbl
