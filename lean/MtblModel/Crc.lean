import MtblModel.Basic
/-
  CRC-32C: the bitwise specification (reflected polynomial 0x82F63B78, init and final xor 0xFFFFFFFF).
  State is a `Nat` below 2^32 (kernel-accelerated bit operations).
-/
namespace Mtbl

def crcP : Nat := 0x82F63B78

/-- one zero-input shift of the reflected register -/
def crcZ (s : Nat) : Nat := (s >>> 1) ^^^ (if s % 2 = 1 then crcP else 0)

def crcZ8 (s : Nat) : Nat := crcZ (crcZ (crcZ (crcZ (crcZ (crcZ (crcZ (crcZ s)))))))

/-- register update for one input byte -/
def crcByte (s : Nat) (b : UInt8) : Nat := crcZ8 (s ^^^ b.toNat)

/-- raw register after feeding `d`, starting from `s` -/
def crcRaw (s : Nat) (d : Bytes) : Nat := d.foldl crcByte s

/-- the standard CRC-32C of a buffer -/
def crc32c (d : Bytes) : Nat := crcRaw 0xFFFFFFFF d ^^^ 0xFFFFFFFF

end Mtbl
