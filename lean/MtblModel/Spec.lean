import MtblModel.Basic
/-
  The specification layer: what a reader of the theorems has to trust.
  A table / merged view is a list of entries sorted by key; iterators are cursors over it.
-/
namespace Mtbl

/-- number of entries with key < k: the position of the first entry with key ≥ k in a sorted list -/
def lowerBound (es : List Entry) (k : Bytes) : Nat :=
  (es.takeWhile fun e => bcmp e.key k == .lt).length

/-- iterator kinds and their bound predicate (`reader_iter_next`'s switch) -/
inductive Kind | iter | get (k : Bytes) | pfx (k : Bytes) | range (k1 : Bytes)
deriving Repr, Inhabited, DecidableEq

def inBound (kind : Kind) (key : Bytes) : Bool :=
  match kind with
  | .iter => true
  | .get k => bcmp key k == .eq
  | .pfx p => isPrefix p key
  | .range k1 => bcmp key k1 != .gt

/-- abstract cursor: `pos` = index of the entry the next `next` would return; `stuck` = failure is sticky -/
structure Cur where
  pos : Nat
  stuck : Bool := false
deriving Repr, DecidableEq, Inhabited

def specNext (kind : Kind) (es : List Entry) (c : Cur) : Option Entry × Cur :=
  if c.stuck then (none, c) else
  match es[c.pos]? with
  | some e => if inBound kind e.key then (some e, { pos := c.pos + 1 }) else (none, { c with stuck := true })
  | none => (none, { c with stuck := true })

def specSeek (es : List Entry) (k : Bytes) : Cur := { pos := lowerBound es k }

/-- operations of an iterator history -/
inductive IOp | next | seek (k : Bytes)
deriving Repr, DecidableEq, Inhabited

/-- the observable result of running a history from cursor `c` -/
def specRun (kind : Kind) (es : List Entry) : Cur → List IOp → List (Option Entry)
  | _, [] => []
  | c, .next :: ops => let r := specNext kind es c; r.1 :: specRun kind es r.2 ops
  | _, .seek k :: ops => none :: specRun kind es (specSeek es k) ops

def StrictSorted (es : List Entry) : Prop := es.Pairwise fun a b => bcmp a.key b.key = .lt
def Sorted (es : List Entry) : Prop := es.Pairwise fun a b => bcmp a.key b.key ≠ .gt

end Mtbl
