/-
  The pool as SEVERAL callers see it (mtbl/threadpool.c: threadpool_next, the return-to-pool part of resultq_next):
  any number of caller threads (pooled writers / sorters sharing one mtbl_threadpool) take worker threads from the idle list
  or create them up to `max`, sleep on `pool->c` when neither is possible, and any number of result handlers give threads
  back, each time signalling `pool->c`.  All steps run under `pool->m`.  What the threads do while held is the business
  of the single-client machine (MtblModel/Tp.lean); this model is about exclusive hand-out, the bound, and wake-ups that are
  not lost when several callers sleep on the same condition variable.
-/
namespace TpShare

structure PSt where
  max : Nat
  count : Nat := 0                       -- worker threads created
  fresh : Nat := 0                       -- id of the next thread to be created
  idle : List Nat := []                  -- pool->head list
  held : List (Nat × Nat) := []          -- (thread, caller): taken by threadpool_next, not yet given back
  asleep : List (Nat × Bool) := []       -- callers sleeping in threadpool_next: (caller, signalled and not yet resumed)
deriving Repr, DecidableEq, Inhabited

inductive Op
  | take (c : Nat)          -- caller c (not asleep) runs the loop head of threadpool_next under pool->m
  | resume (c : Nat)        -- a signalled sleeper re-acquires pool->m and re-runs the loop head
  | spurious (c : Nat)      -- a sleeper is woken without a signal
  | give (t : Nat) (k : Nat) -- a result handler returns thread t: push, then pthread_cond_signal(&pool->c) wakes the k-th
                             -- not yet signalled sleeper (any one may be chosen by the implementation; none if there is none)
deriving Repr, DecidableEq, Inhabited

/-- the loop head of threadpool_next for caller c, entered with pool->m held -/
def loopHead (s : PSt) (c : Nat) : PSt :=
  match s.idle with
  | t :: rest => { s with idle := rest, held := (t, c) :: s.held }
  | [] => if s.count < s.max then { s with count := s.count + 1, fresh := s.fresh + 1, held := (s.fresh, c) :: s.held }
          else { s with asleep := s.asleep ++ [(c, false)] }

/-- wake the k-th sleeper that has no signal pending (if any) -/
def signalOne : List (Nat × Bool) → Nat → List (Nat × Bool)
  | [], _ => []
  | (c, true) :: r, k => (c, true) :: signalOne r k
  | (c, false) :: r, 0 => (c, true) :: r
  | (c, false) :: r, k + 1 => (c, false) :: signalOne r k

def isAsleep (s : PSt) (c : Nat) : Bool := s.asleep.any (·.1 == c)

def unsignalled (s : PSt) : Nat := (s.asleep.filter fun p => !p.2).length
def signalled (s : PSt) : Nat := (s.asleep.filter fun p => p.2).length

/-- pthread_cond_signal wakes one waiter whenever there is one: which one is the implementation's choice (`k`) -/
def pick (s : PSt) (k : Nat) : Nat := if unsignalled s = 0 then 0 else k % unsignalled s

def step (s : PSt) : Op → Option PSt
  | .take c => if isAsleep s c then none else some (loopHead s c)
  | .resume c => if s.asleep.contains (c, true) then some (loopHead { s with asleep := s.asleep.erase (c, true) } c) else none
  | .spurious c => if s.asleep.contains (c, false)
      then some { s with asleep := s.asleep.map fun p => if p = (c, false) then (c, true) else p } else none
  | .give t k => match s.held.find? (·.1 == t) with
    | some p => some { s with held := s.held.erase p, idle := t :: s.idle, asleep := signalOne s.asleep (pick s k) }
    | none => none

/-- the variant in which the push signals only when the idle list was empty ("callers only sleep while it is empty") -/
def stepLazySignal (s : PSt) : Op → Option PSt
  | .give t k => match s.held.find? (·.1 == t) with
    | some p => some { s with held := s.held.erase p, idle := t :: s.idle,
                              asleep := if s.idle.isEmpty then signalOne s.asleep (pick s k) else s.asleep }
    | none => none
  | op => step s op

inductive Reachable (max : Nat) : PSt → Prop
  | init : Reachable max { max }
  | step {s s' op} : Reachable max s → step s op = some s' → Reachable max s'

end TpShare
