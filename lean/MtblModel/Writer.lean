import MtblModel.BlockBuilder
import MtblModel.Sep
import MtblModel.Crc
import MtblModel.Meta
/-
  mtbl/writer.c — sequential (no pool) behaviour; the pooled writer is related to it in Tp/C13.
  The compression library is a parameter: `comp raw = some stored` (or `none` = mtbl_compress failed,
  which the writer turns into an assertion failure).
-/
namespace Mtbl

structure WCfg where
  compression : Nat := 0          -- mtbl_compression_type
  blockSize : Nat := 8192         -- as given to set_block_size (clamped below)
  interval : Nat := 16
  minBlockSize : Nat := 1024      -- MIN_BLOCK_SIZE
  thr : Nat := 4294967295         -- UINT32_MAX in block_builder.c
  comp : Bytes → Option Bytes := some
deriving Inhabited

/-- mtbl_writer_options_set_block_size -/
def WCfg.effBlockSize (c : WCfg) : Nat := if c.blockSize < c.minBlockSize then c.minBlockSize else c.blockSize

structure W where
  cfg : WCfg
  out : Bytes := []              -- bytes written to the descriptor (after the foreign prefix)
  m : Meta := {}
  data : BB
  index : BB
  lastKey : Bytes := []
  lastOffset : Nat := 0
  pendingOffset : Nat := 0
  aborted : Bool := false        -- an assertion failed (compression failure / separator assert)
deriving Inhabited

/-- mtbl_writer_init_fd with the descriptor positioned at offset `pre` -/
def W.new (cfg : WCfg) (pre : Nat) : W :=
  { cfg, data := { interval := cfg.interval, thr := cfg.thr }, index := { interval := cfg.interval, thr := cfg.thr },
    lastOffset := pre, pendingOffset := pre,
    m := { dataBlockSize := cfg.effBlockSize, compression := cfg.compression } }

/-- _mtbl_writer_write_block: varint length, CRC32C of the stored bytes, the stored bytes -/
def frame (payload : Bytes) : Bytes := venc payload.length ++ fixed32 (crc32c payload) ++ payload

/-- _mtbl_writer_flush + _mtbl_writer_compress_block + _mtbl_writer_write_data_block -/
def W.flush (w : W) : W :=
  if w.data.empty then w else
  let raw := w.data.finish
  let stored? := if w.cfg.compression = 0 then some raw else w.cfg.comp raw
  match stored? with
  | none => { w with aborted := true }
  | some stored =>
    let fr := frame stored
    let lastOffset := w.pendingOffset
    { w with data := w.data.reset, out := w.out ++ fr, lastOffset,
             pendingOffset := w.pendingOffset + fr.length,
             m := { w.m with bytesDataBlocks := w.m.bytesDataBlocks + fr.length,
                             countDataBlocks := w.m.countDataBlocks + 1 },
             index := w.index.add { key := w.lastKey, val := venc lastOffset } }

/-- mtbl_writer_add -/
def W.add (w : W) (k v : Bytes) : Res × W :=
  if w.m.countEntries > 0 ∧ bcmp k w.lastKey != .gt then (.failure, w) else
  let est := w.data.estimate + 15 + k.length + v.length
  let w := if est ≥ w.cfg.effBlockSize then
             let w1 := ({ w with lastKey := shortestSep w.lastKey k, aborted := w.aborted || !sepAssertOk w.lastKey k } : W)
             w1.flush
           else w
  (.success, { w with lastKey := k,
                      m := { w.m with countEntries := w.m.countEntries + 1,
                                      bytesKeys := w.m.bytesKeys + k.length,
                                      bytesValues := w.m.bytesValues + v.length },
                      data := w.data.add { key := k, val := v } })

/-- _mtbl_writer_finish: flush, index block (never compressed), trailer.  Result = all bytes written. -/
def W.finish (w : W) : Bytes :=
  let w := w.flush
  let fr := frame w.index.finish
  let m := { w.m with indexBlockOffset := w.pendingOffset, bytesIndexBlock := fr.length }
  w.out ++ fr ++ m.write

def W.finishMeta (w : W) : Meta :=
  let w := w.flush
  let fr := frame w.index.finish
  { w.m with indexBlockOffset := w.pendingOffset, bytesIndexBlock := fr.length }

/-- run the writer over an arbitrary add sequence: per-add result codes and the file bytes -/
def W.addAll (w : W) : List Entry → List Res × W
  | [] => ([], w)
  | e :: es => let r := w.add e.key e.val; let rs := W.addAll r.2 es; (r.1 :: rs.1, rs.2)

def Writer.run (cfg : WCfg) (pre : Nat) (es : List Entry) : Bytes := ((W.new cfg pre).addAll es).2.finish

end Mtbl
