import MtblModel.Format
import MtblModel.Block
/-
  An independent DECODER / validator for MTBL files (C09): parse the bytes back into the encoder's
  description (`EFile`), then check (a) re-encoding reproduces the bytes exactly — so nothing in the
  file is unaccounted for: framing, lengths, checksums, offsets, padding, magic —, (b) the choices are
  legal, (c) they obey the writer's cadence and size rules.  Written from the format description.
-/
namespace Mtbl

/-- decode the entry region `[0, limit)` sequentially: (shared, full entry) list with each entry's offset -/
def parseEntries (data : Bytes) (limit : Nat) : Nat → Nat → Bytes → List (Nat × EEntry) → Option (List (Nat × EEntry))
  | 0, _, _, acc => some acc.reverse
  | fuel + 1, off, prev, acc =>
    if off ≥ limit then some acc.reverse else
    match decodeEntryAt data off limit with
    | none => none
    | some (sh, ns, vl, p) =>
      if sh > prev.length then none else
      let key := prev.take sh ++ (data.drop p).take ns
      let val := (data.drop (p + ns)).take vl
      parseEntries data limit fuel (p + ns + vl) key ((off, { shared := sh, e := { key, val } }) :: acc)

/-- parse one raw (uncompressed) block into the encoder's description -/
def parseBlock (thr : Nat) (raw : Bytes) : Option EBlock :=
  match blockInit thr raw with
  | none => none
  | some b =>
    if b.size < 8 then none else
    let nr := numRestarts b
    match parseEntries raw b.restartOffset (raw.length + 1) 0 [] [] with
    | none => none
    | some items =>
      let offs := items.map (·.1)
      let wide := b.restartOffset > thr
      let rsOffs := (List.range nr).map fun j =>
        if wide then dec64 (raw.drop (b.restartOffset + j * 8)) else dec32 (raw.drop (b.restartOffset + j * 4))
      -- every restart offset must be the offset of an entry (or 0 in an empty block)
      let idxs := rsOffs.map fun o => if items.isEmpty && o == 0 then some 0 else offs.idxOf? o
      if idxs.any (·.isNone) then none else
      some { items := items.map (·.2), restarts := idxs.filterMap id }

/-- split one frame off the front: (stored bytes, rest) -/
def parseFrame (v1 : Bool) (d : Bytes) : Option (Bytes × Bytes) :=
  let (len, ll) := if v1 then (dec32 d, if d.length ≥ 4 then 4 else 0) else vdecode64 d
  if ll = 0 ∨ d.length < ll + 4 + len then none else some ((d.drop (ll + 4)).take len, d.drop (ll + 4 + len))

def parseFrames (v1 : Bool) : Nat → Bytes → List Bytes → Option (List Bytes)
  | 0, _, _ => none
  | fuel + 1, d, acc => if d.isEmpty then some acc.reverse else
    match parseFrame v1 d with
    | none => none
    | some (stored, rest) => parseFrames v1 fuel rest (stored :: acc)

/-- parse a whole file whose table starts after `preLen` foreign bytes -/
def parseFile (thr : Nat) (decomp : Nat → Bytes → Option Bytes) (preLen : Nat) (file : Bytes) : Option EFile :=
  if file.length < preLen + METADATA_SIZE then none else
  match Meta.read (file.drop (file.length - METADATA_SIZE)) with
  | none => none
  | some m =>
    let io := m.indexBlockOffset
    if io < preLen ∨ io > file.length - METADATA_SIZE then none else
    let v1 := m.version = .v1
    match parseFrames v1 (file.length + 1) ((file.drop preLen).take (io - preLen)) [] with
    | none => none
    | some storeds =>
      match parseFrame v1 ((file.drop io).take (file.length - METADATA_SIZE - io)) with
      | none => none
      | some (idxRaw, idxRest) =>
        if !idxRest.isEmpty then none else
        let raws := storeds.mapM fun s => if m.compression = 0 then some s else decomp m.compression s
        match raws, parseBlock thr idxRaw with
        | some raws, some idx =>
          match raws.mapM (parseBlock thr) with
          | none => none
          | some blocks =>
            some { version := if v1 then .v1 else .v2, pre := file.take preLen, blocks,
                   seps := idx.items.map (·.e.key), indexShared := idx.items.map (·.shared), indexRestarts := idx.restarts,
                   compression := m.compression, blockSizeField := m.dataBlockSize, thr }
        | _, _ => none

/-- the writer's cadence inside one block: a restart exactly every `interval` entries, maximal sharing in between -/
def EBlock.cadenceOK (interval : Nat) (b : EBlock) : Bool :=
  b.restarts == (List.range (max b.items.length 1)).filter (fun i => i % interval == 0) &&
  b.items.zipIdx.all fun (it, i) =>
    if i % interval == 0 then it.shared == 0
    else match b.items[i - 1]? with
      | some prev => it.shared == lcp prev.e.key it.e.key
      | none => false

/-- the writer's size rules: inside a block no entry could have triggered the cut test; between consecutive blocks it did;
    a block with more than one entry stays below the block size (32-bit restart arrays) -/
def sizeRulesOK (effBs thr : Nat) (blocks : List EBlock) : Bool :=
  (blocks.all fun b =>
     (b.items.length ≤ 1 || b.region.length > thr || decide ((b.encode thr).length < effBs)) &&
     (List.range b.items.length).all fun i =>
       i == 0 || match b.items[i]? with
         | some it => decide ((({ items := b.items.take i, restarts := b.restarts.filter (· < i) } : EBlock).encode thr).length
                               + 15 + it.e.key.length + it.e.val.length < effBs)
         | none => true) &&
  (blocks.zip blocks.tail).all fun (b, nb) =>
    match nb.items.head? with
    | some it => decide ((b.encode thr).length + 15 + it.e.key.length + it.e.val.length ≥ effBs)
    | none => false

/-- C09's validator: `file` is a well-formed v2 table as the writer with this configuration may produce it -/
def validateFile (interval effBs thr : Nat) (comp : Bytes → Bytes) (decomp : Nat → Bytes → Option Bytes)
    (pre : Bytes) (file : Bytes) : String :=
  match parseFile thr decomp pre.length file with
  | none => "unparseable"
  | some f =>
    if f.version != .v2 then "not-v2"
    else if f.pre != pre then "prefix-changed"
    else if f.encode comp != file then "reencode-differs"          -- framing / length / CRC / offset / padding / magic / counters
    else if !f.legal comp then "illegal-choices"                    -- restart points, sharing, separators, sortedness
    else if !(f.blocks.all (·.cadenceOK interval) && (f.indexBlock comp).cadenceOK interval) then "cadence"
    else if f.blockSizeField != effBs then "block-size-field"
    else if !sizeRulesOK effBs thr f.blocks then "size-rule"
    else "ok"

end Mtbl
