/-
  mtbl/threadpool.c as a transition system: one step per critical section (or per maximal run of
  unlocked accesses of one thread), condition variables explicit (sleep flags; a signal wakes a
  sleeper; spurious wake-ups are separate steps).  One caller (dispatching `njobs` jobs through one
  result handler, then result_handler_destroy, then threadpool_destroy), the result-handler thread,
  and the worker threads the pool creates.  Job `j` has callback result `j` (results are identified
  with job ids; `none` = NULL).
-/
namespace Tp

inductive WPc
  | top (asleep : Bool)   -- thread_worker loop head: lock me->m; while (!running) wait; unlock
  | gotJob                -- unlocked: if cb == NULL exit; res = cb(arg); cb = arg = NULL; rq = me->rq; me->rq = NULL; [unordered: running = false]
  | selfEnq               -- unordered: lock rq->m; enqueue self; signal rq->c; unlock
  | doneOrd               -- ordered: lock me->m; running = false; signal me->c; unlock
  | exited
deriving DecidableEq, Repr, Inhabited

structure Thr where
  pc : WPc := .top false
  running : Bool := false
  cb : Option Nat := none      -- job id; none = NULL
  res : Option Nat := none
  rq : Bool := false           -- me->rq != NULL (unordered dispatch)
deriving Repr, Inhabited, DecidableEq

inductive CPc
  | next (asleep : Bool)       -- threadpool_next: lock pool->m; while (head == NULL && count == max) wait; pop or count++
  | create                     -- calloc + pthread_create (new thread id = thr.size)
  | assign (t : Nat)           -- lock thr->m; rq/cb/arg/running := …; signal thr->c; unlock
  | enqueue (t : Nat)          -- lock rq->m; nthreads++; if ordered { enqueue; signal rq->c }; unlock
  | finish                     -- resultq_finish: lock rq->m; finished = true; signal; unlock
  | joinH                      -- pthread_join(handler)
  | destroy (asleep : Bool)    -- threadpool_destroy loop head (pool->m held across the loop; released while waiting)
  | kill (t : Nat)             -- lock thr->m; running = true; signal; unlock
  | joinW (t : Nat)            -- pthread_join(worker); free; count--
  | done
deriving DecidableEq, Repr, Inhabited

inductive HPc
  | deq (asleep : Bool)                    -- resultq_next part 1 (under rq->m)
  | waitRes (t : Nat) (asleep : Bool)      -- lock thr->m; while (running) wait; take res; unlock
  | giveBack (t : Nat) (r : Option Nat)    -- lock pool->m; push idle; signal pool->c; unlock
  | callback (r : Option Nat)              -- rh->cb(res)
  | exited
deriving DecidableEq, Repr, Inhabited

structure St where
  max : Nat
  njobs : Nat
  ordered : Bool
  thr : Array Thr := #[]
  idle : List Nat := []          -- pool->head list
  count : Nat := 0
  queue : List Nat := []         -- rq->head list
  nthreads : Int := 0            -- rq->nthreads (size_t; can be transiently "negative" = wrapped)
  finished : Bool := false
  cpc : CPc := .next false
  nextJob : Nat := 0
  hpc : HPc := .deq false
  delivered : List (Option Nat) := []
deriving Repr, Inhabited

inductive Who | caller | handler | worker (t : Nat)
deriving Repr, DecidableEq, Inhabited

inductive Lbl | run (w : Who) | spurious (w : Who)
deriving Repr, DecidableEq, Inhabited

def setThr (s : St) (t : Nat) (f : Thr → Thr) : St := { s with thr := s.thr.modify t f }

/-- pthread_cond_signal(&thr[t].c): the worker (asleep at the loop head) or the handler (asleep waiting for
    this thread's result) is woken — they are never both asleep on it (an invariant to be proved) -/
def signalThr (s : St) (t : Nat) : St :=
  let s := setThr s t fun th => match th.pc with | .top true => { th with pc := .top false } | _ => th
  match s.hpc with
  | .waitRes t' true => if t' = t then { s with hpc := .waitRes t false } else s
  | _ => s
def signalRq (s : St) : St := match s.hpc with | .deq true => { s with hpc := .deq false } | _ => s
def signalPool (s : St) : St :=
  match s.cpc with
  | .next true => { s with cpc := .next false }
  | .destroy true => { s with cpc := .destroy false }
  | _ => s

def stepCaller (s : St) : Option St :=
  match s.cpc with
  | .next true => none
  | .next false =>
    if s.nextJob ≥ s.njobs then some { s with cpc := .finish } else
    match s.idle with
    | t :: rest => some { s with idle := rest, cpc := .assign t }
    | [] => if s.count = s.max then some { s with cpc := .next true }
            else some { s with count := s.count + 1, cpc := .create }
  | .create => some { s with thr := s.thr.push {}, cpc := .assign s.thr.size }
  | .assign t =>
    some ({ signalThr (setThr s t fun th => { th with rq := !s.ordered, cb := some s.nextJob, running := true }) t
            with cpc := .enqueue t })
  | .enqueue t =>
    let s := { s with nthreads := s.nthreads + 1 }
    let s := if s.ordered then signalRq { s with queue := s.queue ++ [t] } else s
    some { s with cpc := .next false, nextJob := s.nextJob + 1 }
  | .finish => some (signalRq { s with finished := true, cpc := .joinH })
  | .joinH => if s.hpc = .exited then some { s with cpc := .destroy false } else none
  | .destroy true => none
  | .destroy false =>
    if s.count = 0 then some { s with cpc := .done } else
    match s.idle with
    | [] => some { s with cpc := .destroy true }
    | t :: rest => some { s with idle := rest, cpc := .kill t }
  | .kill t => some ({ signalThr (setThr s t fun th => { th with running := true }) t with cpc := .joinW t })
  | .joinW t => if (s.thr[t]!).pc = .exited then some { s with count := s.count - 1, cpc := .destroy false } else none
  | .done => none

def stepWorker (s : St) (t : Nat) : Option St :=
  if t < s.thr.size then
    let th := s.thr[t]!
    match th.pc with
    | .top true => none
    | .top false => if th.running then some (setThr s t fun th => { th with pc := .gotJob })
                    else some (setThr s t fun th => { th with pc := .top true })
    | .gotJob => match th.cb with
      | none => some (setThr s t fun th => { th with pc := .exited })
      | some j =>
        if th.rq then some (setThr s t fun th => { th with res := some j, cb := none, rq := false, running := false, pc := .selfEnq })
        else some (setThr s t fun th => { th with res := some j, cb := none, pc := .doneOrd })
    | .selfEnq => some (signalRq { (setThr s t fun th => { th with pc := .top false }) with queue := s.queue ++ [t] })
    | .doneOrd => some (signalThr (setThr s t fun th => { th with running := false, pc := .top false }) t)
    | .exited => none
  else none

def stepHandler (s : St) : Option St :=
  match s.hpc with
  | .deq true => none
  | .deq false =>
    match s.queue with
    | t :: rest => some { s with queue := rest, nthreads := s.nthreads - 1, hpc := .waitRes t false }
    | [] => if s.finished && s.nthreads == 0 then some { s with hpc := .exited } else some { s with hpc := .deq true }
  | .waitRes _ true => none
  | .waitRes t false =>
    if (s.thr[t]!).running then some { s with hpc := .waitRes t true }
    else some { (setThr s t fun th => { th with res := none }) with hpc := .giveBack t (s.thr[t]!).res }
  | .giveBack t r => some (signalPool { s with idle := t :: s.idle, hpc := .callback r })
  | .callback r => some { s with delivered := s.delivered ++ [r], hpc := .deq false }
  | .exited => none

def step (s : St) : Lbl → Option St
  | .run .caller => stepCaller s
  | .run .handler => stepHandler s
  | .run (.worker t) => stepWorker s t
  | .spurious .caller => match s.cpc with
      | .next true => some { s with cpc := .next false }
      | .destroy true => some { s with cpc := .destroy false }
      | _ => none
  | .spurious .handler => match s.hpc with
      | .deq true => some { s with hpc := .deq false }
      | .waitRes t true => some { s with hpc := .waitRes t false }
      | _ => none
  | .spurious (.worker t) => match (s.thr[t]?).map (fun th => th.pc) with
      | some (WPc.top true) => some (setThr s t fun th => { th with pc := .top false })
      | _ => none

def init (max njobs : Nat) (ordered : Bool) : St := { max, njobs, ordered }

/-- run a schedule; steps that are not enabled are skipped -/
def runSched (s : St) : List Lbl → St
  | [] => s
  | l :: ls => match step s l with
    | some s' => runSched s' ls
    | none => runSched s ls

inductive Reachable (max njobs : Nat) (ordered : Bool) : St → Prop
  | init : Reachable max njobs ordered (init max njobs ordered)
  | step {s s' l} : Reachable max njobs ordered s → step s l = some s' → Reachable max njobs ordered s'

def terminated (s : St) : Bool := s.cpc == .done

/-! ### shared-memory accesses of each step, with the mutexes held (for the race analysis, C14) -/
inductive Lock | pool | rq | thr (t : Nat)
deriving DecidableEq, Repr
inductive Loc
  | thrRunning (t : Nat) | thrCb (t : Nat) | thrRes (t : Nat) | thrRq (t : Nat) | thrNext (t : Nat)
  | poolHead | poolCount | rqHead | rqNthreads | rqFinished
deriving DecidableEq, Repr
structure Access where
  loc : Loc
  write : Bool
  locks : List Lock
deriving DecidableEq, Repr

def acc (locks : List Lock) (reads writes : List Loc) : List Access :=
  reads.map (fun l => { loc := l, write := false, locks }) ++ writes.map (fun l => { loc := l, write := true, locks })

/-- what the step that thread `w` would take next touches (empty if it is asleep / finished) -/
def accesses (s : St) : Who → List Access
  | .caller => match s.cpc with
    | .next false =>
      match s.idle with
      | t :: _ => acc [.pool] [.poolHead, .poolCount, .thrNext t, .thrCb t, .thrRes t, .thrRunning t] [.poolHead, .thrNext t]
      | [] => acc [.pool] [.poolHead, .poolCount] [.poolCount]
    | .create => []
    | .assign t => acc [] [.thrRunning t, .thrNext t] [] ++ acc [.thr t] [] [.thrRq t, .thrCb t, .thrRunning t]
    | .enqueue t => acc [.rq] [.rqFinished, .rqNthreads, .rqHead] ([.rqNthreads] ++ if s.ordered then [.rqHead, .thrNext t] else [])
    | .finish => acc [.rq] [] [.rqFinished]
    | .destroy false =>
      match s.idle with
      | t :: _ => acc [.pool] [.poolCount, .poolHead, .thrNext t, .thrCb t] [.poolHead]
      | [] => acc [.pool] [.poolCount, .poolHead] []
    | .kill t => acc [.pool, .thr t] [] [.thrRunning t]
    | .joinW _ => acc [.pool] [.poolCount] [.poolCount]
    | _ => []
  | .handler => match s.hpc with
    | .deq false =>
      match s.queue with
      | t :: _ => acc [.rq] [.rqHead, .rqFinished, .rqNthreads, .thrNext t] [.rqHead, .rqNthreads, .thrNext t]
      | [] => acc [.rq] [.rqHead, .rqFinished, .rqNthreads] []
    | .waitRes t false =>
      if ((s.thr[t]?).map (·.running)).getD false then acc [.thr t] [.thrRunning t] []   -- still running: goes to sleep
      else acc [.thr t] [.thrRunning t, .thrRes t] [.thrRes t]
    | .giveBack t _ => acc [.pool] [.poolHead] [.poolHead, .thrNext t]
    | _ => []
  | .worker t => match (s.thr[t]?).map (·.pc) with
    | some (WPc.top false) => acc [.thr t] [.thrRunning t] []
    | some WPc.gotJob => acc [] [.thrCb t, .thrRq t] [.thrRes t, .thrCb t, .thrRq t] ++
                      (if ((s.thr[t]?).map (·.rq)).getD false then acc [] [] [.thrRunning t] else [])
    | some WPc.selfEnq => acc [.rq] [.rqHead] [.rqHead, .thrNext t]
    | some WPc.doneOrd => acc [.thr t] [] [.thrRunning t]
    | _ => []

def conflict (a b : Access) : Bool :=
  a.loc == b.loc && (a.write || b.write) && !(a.locks.any fun l => b.locks.contains l)

def enabled (s : St) (w : Who) : Bool := (step s (.run w)).isSome

/-- two different threads each have an enabled step, the steps touch a common location, at least one
    writes it, and no mutex is held by both -/
def raceBetween (s : St) (w1 w2 : Who) : Bool :=
  w1 != w2 && enabled s w1 && enabled s w2 &&
  (accesses s w1).any fun a => (accesses s w2).any fun b => conflict a b

end Tp
