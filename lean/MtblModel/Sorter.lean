import MtblModel.Merger
/-
  mtbl/sorter.c : external sort = fold each in-memory batch into a sorted, de-duplicated chunk
  (a temporary table), then k-way merge the chunks.  The temporary table round trip (writer, snappy,
  reader) is the identity on entry lists by C01 and is not repeated here: a chunk IS its entry list.
  `qsort` is a parameter: any function returning a key-sorted permutation of its input.
-/
namespace Mtbl

structure SCfg where
  maxMemory : Nat                      -- as passed to set_max_memory (clamped below)
  minMemory : Nat := 10485760          -- MIN_SORTER_MEMORY
  merge : Option (Bytes → Bytes → Bytes → Option Bytes)
  sortFn : List Entry → List Entry     -- qsort with _mtbl_sorter_compare: some key-sorting permutation
  entryOverhead : Nat := 8             -- sizeof(struct entry)
  ptrSize : Nat := 8                   -- sizeof(struct entry *) (entry_vec_bytes)
  tmpDir : String := "/var/tmp"
  pid : Nat := 0

def SCfg.effMemory (c : SCfg) : Nat := if c.maxMemory < c.minMemory then c.minMemory else c.maxMemory

inductive ChunkRes
  | ok (entries : List Entry)
  | mergeFailed          -- the merge callback returned NULL: _mtbl_sorter_write_chunk returns NULL
  | noMergeFn            -- equal keys but no merge function: `assert(s->opt.merge != NULL)` stops the process
deriving Repr, Inhabited

/-- the fold of equal neighbours in _mtbl_sorter_write_chunk over an already key-sorted list:
    `ent` is merged INTO `next_ent` (left fold), which is then compared with its successor -/
def foldChunk (merge : Option (Bytes → Bytes → Bytes → Option Bytes)) : List Entry → ChunkRes
  | [] => .ok []
  | [e] => .ok [e]
  | e :: n :: rest =>
    if bcmp e.key n.key == .eq then
      match merge with
      | none => .noMergeFn
      | some f => match f e.key e.val n.val with
        | none => .mergeFailed
        | some mv => foldChunk merge ({ key := e.key, val := mv } :: rest)
    else match foldChunk merge (n :: rest) with
      | .ok out => .ok (e :: out)
      | r => r
termination_by l => l.length

structure Sorter where
  cfg : SCfg
  vec : List Entry := []               -- the in-memory batch, in arrival order
  entryBytes : Nat := 0
  chunks : List (List Entry) := []     -- finished chunks (the `readers` vector), in completion order
  iterating : Bool := false
  spills : Nat := 0                    -- number of mkstemp calls so far
  aborted : Bool := false
  failedChunk : Bool := false          -- a chunk writer returned NULL (NULL was pushed onto `readers`)

/-- path template handed to mkstemp for every chunk -/
def SCfg.template (c : SCfg) : String := c.tmpDir ++ "/.mtbl." ++ toString c.pid ++ ".XXXXXX"

/-- _mtbl_sorter_flush (unpooled) -/
def Sorter.flush (s : Sorter) : Res × Sorter :=
  let s1 := { s with vec := [], entryBytes := 0, spills := s.spills + 1 }
  match foldChunk s.cfg.merge (s.cfg.sortFn s.vec) with
  | .ok es => (.success, { s1 with chunks := s1.chunks ++ [es] })
  | .mergeFailed => (.failure, { s1 with failedChunk := true })
  | .noMergeFn => (.failure, { s1 with aborted := true })

/-- mtbl_sorter_add -/
def Sorter.add (s : Sorter) (k v : Bytes) : Res × Sorter :=
  if s.iterating then (.failure, s) else
  let s1 := { s with vec := s.vec ++ [{ key := k, val := v }],
                     entryBytes := s.entryBytes + s.cfg.entryOverhead + k.length + v.length }
  if s1.entryBytes + s1.cfg.ptrSize * s1.vec.length ≥ s1.cfg.effMemory then s1.flush else (.success, s1)

/-- mtbl_sorter_iter: final flush, then a merger over the chunks; `none` = NULL (final chunk failed) -/
def Sorter.iter (mc : MCfg) (s : Sorter) : Option MIter × Sorter :=
  let r := if s.vec.length > 0 then s.flush else (.success, s)
  if r.1 == .failure then (none, r.2) else
  let s2 := { r.2 with iterating := true }
  (mergerIter mc s2.chunks .iter [], s2)

def Sorter.addAll (s : Sorter) : List Entry → List Res × Sorter
  | [] => ([], s)
  | e :: es => let r := s.add e.key e.val; let rs := Sorter.addAll r.2 es; (r.1 :: rs.1, rs.2)

end Mtbl
