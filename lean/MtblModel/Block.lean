import MtblModel.Varint
/-
  mtbl/block.c : struct block, struct block_iter, block_init, parse_next_key, block_iter_seek …
  Offsets are byte offsets into `data`, exactly as in the C code.
-/
namespace Mtbl

structure Blk where
  data : Bytes
  size : Nat             -- 0 = invalid (block_init's way of flagging a malformed block)
  restartOffset : Nat
  thr : Nat              -- UINT32_MAX in block.c
deriving Repr, Inhabited

def U64 : Nat := 18446744073709551616
def U32 : Nat := 4294967296

/-- `a - b` in `size_t` arithmetic -/
def subU64 (a b : Nat) : Nat := (a + U64 - b % U64) % U64

/-- block_init.  `none` = the assertion in num_restarts() (`size >= 8`) fails. -/
def blockInit (thr : Nat) (data : Bytes) : Option Blk :=
  let size := data.length
  if size < 4 then some { data, size := 0, restartOffset := 0, thr } else
  if size < 8 then none else
  let n := dec32 (data.drop (size - 4))
  let ro := subU64 size (((1 + n) % U32) * 4)
  let ro2 := if ro > thr then subU64 size (4 + n * 8) else ro
  let size2 := if ro > thr ∧ ro2 ≤ thr then 0 else size
  let size3 := if ro2 > subU64 size 4 then 0 else size2
  some { data, size := size3, restartOffset := ro2, thr }

structure BI where
  blk : Blk
  restarts : Nat
  numRestarts : Nat
  current : Nat
  restartIndex : Nat
  next : Nat := 0
  key : Bytes := []
  val : Bytes := []
deriving Repr, Inhabited

def numRestarts (b : Blk) : Nat := dec32 (b.data.drop (b.size - 4))

/-- block_iter_init; `none` = `assert(b->size >= 8)` or `assert(num_restarts > 0)` fails -/
def biInit (b : Blk) : Option BI :=
  if b.size < 8 then none else
  if numRestarts b = 0 then none else
  some { blk := b, restarts := b.restartOffset, numRestarts := numRestarts b,
         current := b.restartOffset, restartIndex := numRestarts b }

def getRestartPoint (bi : BI) (idx : Nat) : Nat :=
  if bi.restarts > bi.blk.thr then dec64 (bi.blk.data.drop (bi.restarts + idx * 8))
  else dec32 (bi.blk.data.drop (bi.restarts + idx * 4))

def seekToRestartPoint (bi : BI) (idx : Nat) : BI :=
  { bi with key := [], restartIndex := idx, next := getRestartPoint bi idx }

/-- decode_entry on the region [p, limit): (shared, nonShared, valLen, offset of the key suffix).
    `none` = NULL return or a failing assertion. -/
def decodeEntryAt (data : Bytes) (p limit : Nat) : Option (Nat × Nat × Nat × Nat) :=
  if limit - p < 3 then none else
  let d := (data.drop p).take (limit - p)
  match vdecR 5 d with
  | none => none
  | some (sh, d1) => match vdecR 5 d1 with
    | none => none
    | some (ns, d2) => match vdecR 5 d2 with
      | none => none
      | some (vl, d3) =>
        if d3.length < ns + vl then none
        else some (sh % U32, ns % U32, vl % U32, limit - d3.length)

/-- the `while` loop at the end of parse_next_key (fuel = numRestarts) -/
def bumpRestart (bi : BI) : Nat → Nat → Nat
  | 0, ri => ri
  | f+1, ri =>
    if ri + 1 < bi.numRestarts ∧ getRestartPoint bi (ri + 1) < bi.current
    then bumpRestart bi f (ri + 1) else ri

/-- parse_next_key -/
def parseNextKey (bi : BI) : Bool × BI :=
  let bi := { bi with current := bi.next }
  if bi.current ≥ bi.restarts then
    (false, { bi with current := bi.restarts, restartIndex := bi.numRestarts })
  else match decodeEntryAt bi.blk.data bi.current bi.restarts with
    | none => (false, bi)     -- assertion failure in C; unreachable on well-formed blocks
    | some (sh, ns, vl, p) =>
      let key := bi.key.take sh ++ (bi.blk.data.drop p).take ns
      let bi := { bi with key, next := p + ns + vl, val := (bi.blk.data.drop (p + ns)).take vl }
      (true, { bi with restartIndex := bumpRestart bi bi.numRestarts bi.restartIndex })

def biValid (bi : BI) : Bool := bi.current < bi.restarts
def biSeekToFirst (bi : BI) : BI := (parseNextKey (seekToRestartPoint bi 0)).2
/-- block_iter_next -/
def biNext (bi : BI) : BI := if !biValid bi then bi else (parseNextKey bi).2

/-- compare_restart_point -/
def cmpRestart (bi : BI) (i : Nat) (t : Bytes) : Ordering :=
  match decodeEntryAt bi.blk.data (getRestartPoint bi i) bi.restarts with
  | some (_, ns, _, p) => bcmp ((bi.blk.data.drop p).take ns) t
  | none => .eq

/-- the galloping loop: arguments fuel, i, incr, left; result (left, right) -/
def gallop (bi : BI) (t : Bytes) : Nat → Nat → Nat → Nat → Nat × Nat
  | 0, i, _, left => (left, i)
  | f+1, i, incr, left =>
    if cmpRestart bi i t == .lt then
      let i' := i + incr
      if i' > bi.numRestarts - 1 then (i, bi.numRestarts - 1) else gallop bi t f i' (incr * 2) i
    else (left, i)

/-- the binary search loop -/
def bsearch (bi : BI) (t : Bytes) : Nat → Nat → Nat → Nat
  | 0, left, _ => left
  | f+1, left, right =>
    if left < right then
      let mid := (left + right + 1) / 2
      if cmpRestart bi mid t == .lt then bsearch bi t f mid right else bsearch bi t f left (mid - 1)
    else left

/-- the final linear scan -/
def linear (t : Bytes) : Nat → BI → BI
  | 0, bi => bi
  | f+1, bi =>
    let r := parseNextKey bi
    if !r.1 then r.2 else if bcmp r.2.key t != .lt then r.2 else linear t f r.2

/-- which restart run to search: galloping from the current run, or the whole array -/
def seekBounds (bi : BI) (t : Bytes) : Nat × Nat :=
  if bi.numRestarts != bi.restartIndex && bi.restartIndex != 0 then
    gallop bi t (bi.numRestarts + 1) bi.restartIndex 1 0
  else (0, bi.numRestarts - 1)

def seekLeft (bi : BI) (t : Bytes) : Nat :=
  let lr := seekBounds bi t
  if lr.1 + 1 < lr.2 then bsearch bi t (bi.numRestarts + 1) lr.1 lr.2 else lr.1

/-- block_iter_seek -/
def biSeek (bi : BI) (t : Bytes) : BI :=
  let left := seekLeft bi t
  let cmp := bcmp bi.key t
  if bi.restartIndex == left && cmp == .eq then bi else
  let fromStart := !(bi.restartIndex == left && cmp == .lt)
  let bi := if fromStart then seekToRestartPoint bi left else bi
  linear t (bi.blk.data.length + 1) bi

end Mtbl
