import MtblModel.Crc
import MtblModel.Generated.CrcTables
import MtblModel.Generated.Sse42Tail
/-
  libmy/crc32c-slicing.c (slicing-by-8, little-endian branch) and libmy/crc32c-sse42.c.
  Tables, the lane wiring of the 8-byte loop and the tail switch are *generated from the C source*.
-/
namespace Mtbl

/-- `T[k][i]` -/
def tblGet (T : List (List Nat)) (k i : Nat) : Nat := (T.getD k []).getD i 0

/-- tables computed from the polynomial: T₀[i] = eight zero-input shifts of i; Tₖ₊₁[i] = (Tₖ[i] >> 8) ^ T₀[Tₖ[i] & 0xFF] -/
def genTable0 : List Nat := (List.range 256).map crcZ8
def genNext (t0 prev : List Nat) : List Nat := prev.map fun v => (v >>> 8) ^^^ t0.getD (v % 256) 0
def genTables : List (List Nat) :=
  let t0 := genTable0
  let t1 := genNext t0 t0; let t2 := genNext t0 t1; let t3 := genNext t0 t2
  let t4 := genNext t0 t3; let t5 := genNext t0 t4; let t6 := genNext t0 t5; let t7 := genNext t0 t6
  [t0, t1, t2, t3, t4, t5, t6, t7]

/-- the byte-at-a-time step `crc = T[0][(crc ^ *p) & 0xFF] ^ (crc >> 8)` -/
def sliceByte (T : List (List Nat)) (crc : Nat) (b : UInt8) : Nat :=
  tblGet T 0 ((crc ^^^ b.toNat) % 256) ^^^ (crc >>> 8)

/-- little-endian load of up to 8 bytes -/
def leLoad : Bytes → Nat
  | [] => 0
  | b :: bs => b.toNat + 256 * leLoad bs

/-- one iteration of the 8-byte loop: `crc ^= word0; next = word1; crc = ⨁ lanes` -/
def sliceQ (T : List (List Nat)) (lanes : List (Nat × Bool × Nat)) (crc : Nat) (w : Bytes) : Nat :=
  let c := crc ^^^ leLoad (w.take 4)
  let next := leLoad ((w.drop 4).take 4)
  lanes.foldl (fun acc (l : Nat × Bool × Nat) =>
    acc ^^^ tblGet T l.1 (((if l.2.1 then next else c) >>> l.2.2) % 256)) 0

def sliceQs (T : List (List Nat)) (lanes : List (Nat × Bool × Nat)) : Nat → Nat → Bytes → Nat
  | 0, crc, _ => crc
  | n+1, crc, d => sliceQs T lanes n (sliceQ T lanes crc (d.take 8)) (d.drop 8)

/-- my_crc32c_slicing(chunk, len) for a buffer whose address is `align` modulo 4 -/
def slicingWith (T : List (List Nat)) (lanes : List (Nat × Bool × Nat)) (align : Nat) (buf : Bytes) : Nat :=
  let pro := min buf.length ((4 - align % 4) % 4)
  let crc := (buf.take pro).foldl (sliceByte T) 0xFFFFFFFF
  let rest := buf.drop pro
  let nq := rest.length / 8
  let crc := sliceQs T lanes nq crc rest
  let tail := rest.drop (8 * nq)
  (tail.foldl (sliceByte T) crc) ^^^ 0xFFFFFFFF

def slicing (align : Nat) (buf : Bytes) : Nat := slicingWith Generated.cTables Generated.cLanes align buf

/-- the x86 `crc32` instruction with a `w`-byte operand: *defined* (contract) as the bytewise CRC-32C
    register update over the operand's little-endian bytes -/
def crc32Instr (crc : Nat) (operandBytes : Bytes) : Nat := operandBytes.foldl crcByte crc

def sseQs : Nat → Nat → Bytes → Nat
  | 0, crc, _ => crc
  | n+1, crc, d => sseQs n (crc32Instr crc (d.take 8)) (d.drop 8)

/-- my_crc32c_sse42 with the tail program `tail` (list of (offset, width) loads) -/
def sse42With (tail : List (List (Nat × Nat))) (buf : Bytes) : Nat :=
  let nq := buf.length / 8
  let crc := sseQs nq 0xFFFFFFFF buf
  let rest := buf.drop (8 * nq)
  let prog := tail.getD (buf.length % 8) []
  (prog.foldl (fun c (s : Nat × Nat) => crc32Instr c ((rest.drop s.1).take s.2)) crc) ^^^ 0xFFFFFFFF

def sse42 (buf : Bytes) : Nat := sse42With Generated.sseTail buf

end Mtbl
