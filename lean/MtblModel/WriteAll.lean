import MtblModel.Writer
/-
  mtbl/writer.c : _write_all(fd, buf, size) as a function of the outcomes of write(2), and the
  writer's call pattern (three calls per block: length prefix, checksum, stored bytes; one for the trailer).
-/
namespace Mtbl

/-- one outcome of write(2) -/
inductive WOut
  | full                 -- all `size` bytes accepted
  | short (n : Nat)      -- a short write of n bytes (the kernel never accepts more than asked: capped at `size`)
  | eintr                -- -1 with errno = EINTR
  | zero                 -- returned 0
  | error                -- -1 with any other errno
deriving Repr, DecidableEq, Inhabited

structure WARes where
  accepted : Bytes := []             -- bytes the descriptor received, in order
  calls : List (Nat × Nat) := []     -- (offset into the buffer, size) of every write(2) issued
  ok : Bool := true                  -- false = the assertion fired (process stops)
  rest : List WOut := []             -- unconsumed outcomes
deriving Repr, DecidableEq, Inhabited

/-- the retry loop; `done` = bytes of `buf` already accepted.  Outcomes beyond the script are `full`. -/
def writeAllGo (buf : Bytes) (done : Nat) (script : List WOut) (r : WARes) : WARes :=
  match script with
  | [] =>
    if done < buf.length then { r with accepted := r.accepted ++ buf.drop done, calls := r.calls ++ [(done, buf.length - done)], rest := [] }
    else { r with rest := [] }
  | o :: os =>
    if done ≥ buf.length then { r with rest := o :: os } else
    let size := buf.length - done
    let r := { r with calls := r.calls ++ [(done, size)] }
    match o with
    | .full => { r with accepted := r.accepted ++ buf.drop done, rest := os }
    | .short n =>
      let k := min n size
      if k = 0 then { r with ok := false, rest := os }
      else writeAllGo buf (done + k) os { r with accepted := r.accepted ++ (buf.drop done).take k }
    | .eintr => writeAllGo buf done os r
    | .zero => { r with ok := false, rest := os }
    | .error => { r with ok := false, rest := os }
termination_by script.length

/-- _write_all: `assert(size > 0)` first -/
def writeAll (buf : Bytes) (script : List WOut) : WARes :=
  if buf.length = 0 then { ok := false, rest := script } else writeAllGo buf 0 script { rest := script }

/-- the sequence of buffers the writer hands to _write_all for one block -/
def frameWrites (stored : Bytes) : List Bytes := [venc stored.length, fixed32 (crc32c stored), stored]

/-- run a list of _write_all calls against one outcome script; stops at the first assertion failure -/
def writeMany : List Bytes → List WOut → WARes → WARes
  | [], script, r => { r with rest := script }
  | b :: bs, script, r =>
    let one := writeAll b script
    let r' := { r with accepted := r.accepted ++ one.accepted, calls := r.calls ++ one.calls, ok := one.ok }
    if one.ok then writeMany bs one.rest r' else { r' with rest := one.rest }

end Mtbl
