import MtblModel.Basic
/-
  libmy/heap.c over an `Array α` with comparison `le a b` (`cmp(a, b) <= 0`).
  Written in proof-friendly normal form: `pickChild` is the child-selection step of siftdown.
-/
namespace Mtbl.Heap

variable {α : Type} [Inhabited α]

/-- the smaller child of `pos` (ties: the right child, as in `cmp(right, child) <= 0`), if any -/
def pickChild (le : α → α → Bool) (v : Array α) (pos : Nat) : Option Nat :=
  let child := 2 * pos + 1
  if child < v.size then
    let right := child + 1
    if right < v.size then (if le v[right]! v[child]! then some right else some child)
    else some child
  else none

/-- siftdown(h, pos) carrying `item` (the element lifted out of `pos`) -/
def siftdown (le : α → α → Bool) (v : Array α) (pos : Nat) (item : α) : Nat → Array α
  | 0 => v.setIfInBounds pos item
  | fuel+1 =>
    match pickChild le v pos with
    | none => v.setIfInBounds pos item
    | some c =>
      if le item v[c]! then v.setIfInBounds pos item
      else siftdown le (v.setIfInBounds pos v[c]!) c item fuel

def siftup (le : α → α → Bool) (v : Array α) (pos : Nat) (item : α) : Nat → Array α
  | 0 => v.setIfInBounds pos item
  | fuel+1 =>
    if pos > 0 then
      let pp := (pos - 1) / 2
      if le v[pp]! item then v.setIfInBounds pos item
      else siftup le (v.setIfInBounds pos v[pp]!) pp item fuel
    else v.setIfInBounds pos item

def push (le : α → α → Bool) (v : Array α) (x : α) : Array α :=
  let v := v.push x; siftup le v (v.size - 1) x v.size
def replace (le : α → α → Bool) (v : Array α) (x : α) : Array α :=
  if v.size < 1 then v else siftdown le v 0 x v.size
def pop (le : α → α → Bool) (v : Array α) : Array α :=
  if v.size < 1 then v else
    let last := v[v.size - 1]!
    let v := v.pop
    if v.size > 0 then siftdown le v 0 last v.size else v
def heapify (le : α → α → Bool) (v : Array α) : Array α :=
  (List.range (v.size / 2)).reverse.foldl (fun v i => siftdown le v i v[i]! v.size) v

end Mtbl.Heap
