import MtblModel.Reader
import MtblModel.Compress
/-
  src/mtbl_dump.c and src/mtbl_info.c: what the two tools print, as functions of what the reader returns.

  mtbl_dump: `while (mtbl_iter_next(it, …))` over a whole-table iterator; each entry passes the -k / -v prefix filters
  (`len >= prefix_len && bcmp == 0`) and the -K / -V minimum lengths; -s prints nothing; -x prints
  `%08x:` + the bytes as hex pairs separated by '-'; the default prints `print_string` (libmy/print_string.h):
  double quotes, `\"` for a quote, `\x%02x` for bytes that are not `isprint` in the C locale (0x20..0x7e).
  mtbl_info: the integer lines (C locale: no digit grouping); the three percentage lines are floating point and are
  not modelled.
-/
namespace Mtbl.Tools

structure DumpOpts where
  silent : Bool := false
  hex : Bool := false
  kpre : Option Bytes := none      -- -k (hex decoded; the tool refuses an empty argument)
  vpre : Option Bytes := none      -- -v
  kmin : Nat := 0                  -- -K
  vmin : Nat := 0                  -- -V
deriving Repr

def hasPrefix (p : Option Bytes) (b : Bytes) : Bool :=
  match p with
  | none => true
  | some p => decide (p.length ≤ b.length) && b.take p.length == p

/-- the `continue` tests of dump() -/
def dumpPred (o : DumpOpts) (e : Entry) : Bool :=
  hasPrefix o.kpre e.key && hasPrefix o.vpre e.val && decide (o.kmin ≤ e.key.length) && decide (o.vmin ≤ e.val.length)

def hexDigitLower (n : Nat) : Char := if n < 10 then Char.ofNat (48 + n) else Char.ofNat (87 + n)
def hex2 (b : UInt8) : String := String.ofList [hexDigitLower (b.toNat / 16), hexDigitLower (b.toNat % 16)]
def hex8 (n : Nat) : String :=
  String.ofList ((List.range 8).reverse.map fun i => hexDigitLower ((n / 16 ^ i) % 16))

/-- print_hex_string: `%08x:` then `%02x` pairs joined by '-' -/
def hexString (b : Bytes) : String := hex8 b.length ++ ":" ++ "-".intercalate (b.map hex2)

/-- print_string -/
def printString (b : Bytes) : String :=
  "\"" ++ String.join (b.map fun c =>
    if 0x20 ≤ c.toNat ∧ c.toNat ≤ 0x7e then
      (if c.toNat = 0x22 then "\\\"" else String.singleton (Char.ofNat c.toNat))
    else "\\x" ++ hex2 c) ++ "\""

def dumpLine (o : DumpOpts) (e : Entry) : String :=
  if o.hex then hexString e.key ++ " " ++ hexString e.val else printString e.key ++ " " ++ printString e.val

/-- the entries a `while (mtbl_iter_next(...))` loop sees: everything up to the first failure -/
def takeUntilFail : List (Option Entry) → List Entry
  | some e :: rest => e :: takeUntilFail rest
  | _ => []

/-- stdout of mtbl_dump given what successive `next` calls on the whole-table iterator return -/
def dumpOfRun (o : DumpOpts) (outs : List (Option Entry)) : List String :=
  if o.silent then [] else ((takeUntilFail outs).filter (dumpPred o)).map (dumpLine o)

/-- the specification: the matching subsequence of the table's entries, printed -/
def dumpSpec (o : DumpOpts) (es : List Entry) : List String :=
  if o.silent then [] else (es.filter (dumpPred o)).map (dumpLine o)

/-- the integer lines of mtbl_info (label, value), in the order printed; `size` = st_size -/
def infoLines (size : Nat) (m : Meta) : List (String × Nat) :=
  [("file size", size), ("index block offset", m.indexBlockOffset), ("index bytes", m.bytesIndexBlock),
   ("data block bytes", m.bytesDataBlocks), ("data block size", m.dataBlockSize),
   ("data block count", m.countDataBlocks), ("entry count", m.countEntries),
   ("key bytes", m.bytesKeys), ("value bytes", m.bytesValues)]

def infoAlgo (m : Meta) : String :=
  match Cz.typeToStr m.compression with
  | some s => s
  | none => toString m.compression

end Mtbl.Tools
