/-
  mtbl/threadpool.c with SEVERAL clients on one pool, as a transition system (the k-client counterpart of MtblModel/Tp.lean,
  same granularity: one step per critical section or per maximal run of unlocked accesses of one thread).

  Threads: the pool OWNER (threadpool_init, starts `nclients` client threads, joins them, threadpool_destroy); each
  CLIENT c (result_handler_init, `njobs` x threadpool_dispatch, result_handler_destroy — what a pooled writer or sorter does
  on its caller thread); the result HANDLER of each client; the WORKER threads the pool creates (shared by all clients).
  Job j of a client has callback result j.  `pthread_cond_signal(&pool->c)` may wake any one of the callers sleeping in
  threadpool_next: the choice is the parameter `k` of a handler's step.
-/
namespace TpK

inductive WPc
  | top (asleep : Bool)   -- thread_worker loop head: lock me->m; while (!running) wait; unlock
  | gotJob                -- unlocked: if cb == NULL exit; res = cb(arg); cb = arg = NULL; rq = me->rq; me->rq = NULL; [unordered: running = false]
  | selfEnq (c : Nat)     -- unordered: lock rq->m (client c's queue); enqueue self; signal rq->c; unlock
  | doneOrd               -- ordered: lock me->m; running = false; signal me->c; unlock
  | exited
deriving DecidableEq, Repr, Inhabited

structure Thr where
  pc : WPc := .top false
  running : Bool := false
  cb : Option Nat := none      -- job id; none = NULL
  res : Option Nat := none
  rq : Option Nat := none      -- me->rq: the client whose queue the worker enters by itself (unordered dispatch)
deriving Repr, Inhabited, DecidableEq

inductive CPc
  | idle                       -- the client thread does not exist yet
  | start                      -- thread started: resultq_init, up to the creation of the handler thread
  | mkH                        -- pthread_create(handler)
  | next (asleep : Bool)       -- threadpool_next: lock pool->m; while (head == NULL && count == max) wait; pop or count++
  | create                     -- calloc + pthread_create (new worker id = thr.size)
  | assign (t : Nat)           -- lock thr->m; rq/cb/arg/running := …; signal thr->c; unlock
  | enqueue (t : Nat)          -- lock rq->m; nthreads++; if ordered { enqueue; signal rq->c }; unlock
  | finish                     -- resultq_finish: lock rq->m; finished = true; signal; unlock
  | joinH                      -- pthread_join(handler), then the client thread returns
  | done
deriving DecidableEq, Repr, Inhabited

inductive HPc
  | deq (asleep : Bool)                    -- resultq_next part 1 (under rq->m)
  | waitRes (t : Nat) (asleep : Bool)      -- lock thr->m; while (running) wait; take res; unlock
  | giveBack (t : Nat) (r : Option Nat)    -- lock pool->m; push idle; signal pool->c; unlock
  | callback (r : Option Nat)              -- rh->cb(res)
  | exited
deriving DecidableEq, Repr, Inhabited

inductive OPc
  | spawn (i : Nat)            -- pthread_create(client i)
  | joinC (i : Nat)            -- pthread_join(client i)
  | destroy (asleep : Bool)    -- threadpool_destroy loop head (pool->m held across the loop; released while waiting)
  | kill (t : Nat)             -- lock thr->m; running = true; signal; unlock
  | joinW (t : Nat)            -- pthread_join(worker); free; count--
  | done
deriving DecidableEq, Repr, Inhabited

structure Client where
  pc : CPc := .idle
  hstarted : Bool := false
  hpc : HPc := .deq false
  queue : List Nat := []         -- rq->head list
  nthreads : Int := 0            -- rq->nthreads
  finished : Bool := false
  nextJob : Nat := 0
  delivered : List (Option Nat) := []
deriving Repr, Inhabited, DecidableEq

structure St where
  max : Nat
  njobs : Nat
  ordered : Bool
  cl : Array Client
  thr : Array Thr := #[]
  idle : List Nat := []          -- pool->head list
  count : Nat := 0
  opc : OPc := .spawn 0
deriving Repr, Inhabited

inductive Who | owner | client (c : Nat) | handler (c : Nat) | worker (t : Nat)
deriving Repr, DecidableEq, Inhabited

inductive Lbl | run (w : Who) (k : Nat) | spurious (w : Who)
deriving Repr, DecidableEq, Inhabited

def setThr (s : St) (t : Nat) (f : Thr → Thr) : St := { s with thr := s.thr.modify t f }
def setCl (s : St) (c : Nat) (f : Client → Client) : St := { s with cl := s.cl.modify c f }

/-- pthread_cond_signal(&thr[t].c): the worker asleep at its loop head, or the handler asleep waiting for this thread's result -/
def signalThr (s : St) (t : Nat) : St :=
  let s := setThr s t fun th => match th.pc with | .top true => { th with pc := .top false } | _ => th
  { s with cl := s.cl.map fun c => match c.hpc with
      | .waitRes t' true => if t' = t then { c with hpc := .waitRes t false } else c
      | _ => c }
def signalRq (s : St) (c : Nat) : St :=
  setCl s c fun cl => match cl.hpc with | .deq true => { cl with hpc := .deq false } | _ => cl

/-- the clients asleep in threadpool_next (no signal pending), by index -/
def poolSleepers (s : St) : List Nat :=
  (List.range s.cl.size).filter fun c => (s.cl[c]!).pc == .next true

/-- pthread_cond_signal(&pool->c): the owner asleep in threadpool_destroy, else the k-th sleeping client -/
def signalPool (s : St) (k : Nat) : St :=
  match s.opc with
  | .destroy true => { s with opc := .destroy false }
  | _ =>
    let sl := poolSleepers s
    if sl.isEmpty then s else setCl s (sl[k % sl.length]!) fun cl => { cl with pc := .next false }

def stepOwner (s : St) : Option St :=
  match s.opc with
  | .spawn i =>
    some { setCl s i (fun _ => { pc := .start }) with          -- a new client thread, in its initial state
           opc := if i + 1 < s.cl.size then .spawn (i + 1) else .joinC 0 }
  | .joinC i =>
    if (s.cl[i]?).map (·.pc) = some .done then
      some { s with opc := if i + 1 < s.cl.size then .joinC (i + 1) else .destroy false }
    else none
  | .destroy true => none
  | .destroy false =>
    if s.count = 0 then some { s with opc := .done } else
    match s.idle with
    | [] => some { s with opc := .destroy true }
    | t :: rest => some { s with idle := rest, opc := .kill t }
  | .kill t => some (signalThr { setThr s t fun th => { th with running := true } with opc := .joinW t } t)
  | .joinW t => if (s.thr[t]!).pc = .exited then some { s with count := s.count - 1, opc := .destroy false } else none
  | .done => none

def stepClient (s : St) (c : Nat) : Option St :=
  if c < s.cl.size then
    let cl := s.cl[c]!
    match cl.pc with
    | .idle => none
    | .start => some (setCl s c fun cl => { cl with pc := .mkH })
    | .mkH => some (setCl s c fun cl => { cl with hstarted := true, pc := .next false })
    | .next true => none
    | .next false =>
      if cl.nextJob ≥ s.njobs then some (setCl s c fun cl => { cl with pc := .finish }) else
      match s.idle with
      | t :: rest => some (setCl { s with idle := rest } c fun cl => { cl with pc := .assign t })
      | [] => if s.count = s.max then some (setCl s c fun cl => { cl with pc := .next true })
              else some (setCl { s with count := s.count + 1 } c fun cl => { cl with pc := .create })
    | .create => some (setCl { s with thr := s.thr.push {} } c fun cl => { cl with pc := .assign s.thr.size })
    | .assign t =>
      some (signalThr (setCl (setThr s t fun th =>
              { th with rq := if s.ordered then none else some c, cb := some cl.nextJob, running := true })
            c fun cl => { cl with pc := .enqueue t }) t)
    | .enqueue t =>
      let s := setCl s c fun cl =>
        { cl with nthreads := cl.nthreads + 1, queue := if s.ordered then cl.queue ++ [t] else cl.queue,
                  pc := .next false, nextJob := cl.nextJob + 1 }
      some (if s.ordered then signalRq s c else s)
    | .finish => some (signalRq (setCl s c fun cl => { cl with finished := true, pc := .joinH }) c)
    | .joinH => if cl.hpc = .exited then some (setCl s c fun cl => { cl with pc := .done }) else none
    | .done => none
  else none

def stepWorker (s : St) (t : Nat) : Option St :=
  if t < s.thr.size then
    let th := s.thr[t]!
    match th.pc with
    | .top true => none
    | .top false => if th.running then some (setThr s t fun th => { th with pc := .gotJob })
                    else some (setThr s t fun th => { th with pc := .top true })
    | .gotJob => match th.cb with
      | none => some (setThr s t fun th => { th with pc := .exited })
      | some j =>
        match th.rq with
        | some c => some (setThr s t fun th => { th with res := some j, cb := none, rq := none, running := false, pc := .selfEnq c })
        | none => some (setThr s t fun th => { th with res := some j, cb := none, pc := .doneOrd })
    | .selfEnq c =>
      some (signalRq (setCl (setThr s t fun th => { th with pc := .top false }) c fun cl => { cl with queue := cl.queue ++ [t] }) c)
    | .doneOrd => some (signalThr (setThr s t fun th => { th with running := false, pc := .top false }) t)
    | .exited => none
  else none

def stepHandler (s : St) (c : Nat) (k : Nat) : Option St :=
  if c < s.cl.size then
    let cl := s.cl[c]!
    if !cl.hstarted then none else
    match cl.hpc with
    | .deq true => none
    | .deq false =>
      match cl.queue with
      | t :: rest => some (setCl s c fun cl => { cl with queue := rest, nthreads := cl.nthreads - 1, hpc := .waitRes t false })
      | [] => if cl.finished && cl.nthreads == 0 then some (setCl s c fun cl => { cl with hpc := .exited })
              else some (setCl s c fun cl => { cl with hpc := .deq true })
    | .waitRes _ true => none
    | .waitRes t false =>
      if (s.thr[t]!).running then some (setCl s c fun cl => { cl with hpc := .waitRes t true })
      else some (setCl (setThr s t fun th => { th with res := none }) c fun cl => { cl with hpc := .giveBack t (s.thr[t]!).res })
    | .giveBack t r => some (signalPool (setCl { s with idle := t :: s.idle } c fun cl => { cl with hpc := .callback r }) k)
    | .callback r => some (setCl s c fun cl => { cl with delivered := cl.delivered ++ [r], hpc := .deq false })
    | .exited => none
  else none

def step (s : St) : Lbl → Option St
  | .run .owner _ => stepOwner s
  | .run (.client c) _ => stepClient s c
  | .run (.handler c) k => stepHandler s c k
  | .run (.worker t) _ => stepWorker s t
  | .spurious .owner => match s.opc with
      | .destroy true => some { s with opc := .destroy false }
      | _ => none
  | .spurious (.client c) => match (s.cl[c]?).map (·.pc) with
      | some (CPc.next true) => some (setCl s c fun cl => { cl with pc := .next false })
      | _ => none
  | .spurious (.handler c) => match (s.cl[c]?).map (·.hpc) with
      | some (HPc.deq true) => some (setCl s c fun cl => { cl with hpc := .deq false })
      | some (HPc.waitRes t true) => some (setCl s c fun cl => { cl with hpc := .waitRes t false })
      | _ => none
  | .spurious (.worker t) => match (s.thr[t]?).map (·.pc) with
      | some (WPc.top true) => some (setThr s t fun th => { th with pc := .top false })
      | _ => none

def init (nclients max njobs : Nat) (ordered : Bool) : St :=
  { max, njobs, ordered, cl := Array.replicate nclients {} }

inductive Reachable (nclients max njobs : Nat) (ordered : Bool) : St → Prop
  | init : Reachable nclients max njobs ordered (init nclients max njobs ordered)
  | step {s s' l} : Reachable nclients max njobs ordered s → step s l = some s' → Reachable nclients max njobs ordered s'

def terminated (s : St) : Bool := s.opc == .done

end TpK
