import MtblModel.Basic
/-
  mtbl/fileset.c + libmy/my_fileset.c as a state machine over a small world
  (files, the setfile with an identity stamp, a monotonic clock).  Readers are identified by ids;
  "using" an unloaded reader or a destroyed merger object is the outcome `uaf`.
  What an iterator returns (the merge of the tables of its pinned readers) is computed by the
  merger model on top of this machine.
-/
namespace Mtbl.Fs

inductive FileKind | table (tid : Nat) | notTable
deriving Repr, DecidableEq, Inhabited

def NEVER : Nat := 4294967295      -- MTBL_FILESET_RELOAD_INTERVAL_NEVER

structure World where
  files : List (String × FileKind) := []     -- existing paths
  setLines : List String := []                -- content of the setfile
  setStamp : Nat := 1                         -- (st_ino, st_mtime) identity; every edit changes it (detection contract)
  sec : Nat := 1000                           -- CLOCK_MONOTONIC seconds
  tick : Nat := 1                             -- distinct clock readings (the nanosecond part)
deriving Repr, DecidableEq, Inhabited

structure FEntry where
  name : String
  reader : Option Nat                         -- none: the path did not open as a table (ptr == NULL)
deriving Repr, DecidableEq, Inhabited

structure Shared where
  nIters : Nat := 0
  nFs : Nat := 1
  reloadNeeded : Bool := true
  fsLast : Nat × Nat := (0, 0)
  lastStamp : Nat := 0                        -- last_ino / last_mtime as seen by setfile_updated (0 = never read)
  entries : List FEntry := []                 -- sorted by name
  nextReader : Nat := 0
  loaded : List (Nat × Nat) := []             -- live readers: (reader id, table id)
  alive : Bool := true
deriving Repr, DecidableEq, Inhabited

structure HCfg where
  interval : Nat := 60
  nameFilter : String → Bool := fun _ => true
  tableFilter : Nat → Bool := fun _ => true     -- reader filter, as a predicate on the table behind the reader
deriving Inhabited

structure Handle where
  cfg : HCfg
  fsLast : Nat × Nat := (0, 0)
  sources : List Nat := []                    -- reader ids added to this handle's merger
  mergerGen : Nat := 0                        -- bumped whenever fs_reinit_merger replaces the merger object
  alive : Bool := true
deriving Inhabited

structure Iter where
  handle : Nat
  readers : List Nat                          -- the reader ids its merger iterator was built from
  mergerGen : Nat                             -- the merger object it points into
  isOpen : Bool := true
deriving Repr, DecidableEq, Inhabited

structure St where
  w : World := {}
  sh : Shared := {}
  handles : List Handle := []
  iters : List Iter := []
  uaf : Bool := false
  reloads : Nat := 0                          -- number of my_fileset_reload calls that found the setfile changed or not (all calls)
  reloadsWithIters : Nat := 0                 -- … of which happened while nIters > 0 (must stay 0)
deriving Inhabited

def insertSorted (e : FEntry) : List FEntry → List FEntry
  | [] => [e]
  | x :: xs => if e.name < x.name then e :: x :: xs else x :: insertSorted e xs

def tableOf (loaded : List (Nat × Nat)) (rid : Nat) : Option Nat := (loaded.find? (·.1 == rid)).map (·.2)

/-- one line of the setfile in my_fileset_reload: returns updated (new entries, kept names, shared, nLoaded) -/
def loadLine (w : World) (old : List FEntry) (acc : List FEntry × List String × Shared × Nat) (name : String) :
    List FEntry × List String × Shared × Nat :=
  let (newE, kept, sh, nl) := acc
  match w.files.find? (·.1 == name) with
  | none => acc                                        -- path does not exist: skipped
  | some (_, kind) =>
    match old.find? (·.name == name) with
    | some e => (newE ++ [{ name, reader := e.reader }], name :: kept, sh, nl)
    | none =>
      match kind with
      | .table tid =>
        let rid := sh.nextReader
        (newE ++ [{ name, reader := some rid }], kept, { sh with nextReader := rid + 1, loaded := sh.loaded ++ [(rid, tid)] }, nl + 1)
      | .notTable => (newE ++ [{ name, reader := none }], kept, sh, nl + 1)

/-- my_fileset_reload: (nLoaded, nUnloaded, new shared) -/
def myReload (w : World) (sh : Shared) : Nat × Nat × Shared :=
  if sh.lastStamp == w.setStamp then (0, 0, sh) else
  let sh := { sh with lastStamp := w.setStamp }
  let (newE, kept, sh, nl) := w.setLines.foldl (loadLine w sh.entries) ([], [], sh, 0)
  let dropped := sh.entries.filter fun e => !kept.contains e.name
  let droppedIds := dropped.filterMap (·.reader)
  let sorted := newE.foldl (fun acc e => insertSorted e acc) []
  (nl, dropped.length, { sh with entries := sorted, loaded := sh.loaded.filter fun p => !droppedIds.contains p.1 })

/-- fs_reinit_merger -/
def reinit (sh : Shared) (h : Handle) : Handle :=
  let srcs := sh.entries.filterMap fun e =>
    match e.reader with
    | none => none
    | some rid =>
      if h.cfg.nameFilter e.name && (match tableOf sh.loaded rid with | some tid => h.cfg.tableFilter tid | none => true)
      then some rid else none
  { h with sources := srcs, mergerGen := h.mergerGen + 1 }

def readClock (s : St) : (Nat × Nat) × St := ((s.w.sec, s.w.tick), { s with w := { s.w with tick := s.w.tick + 1 } })

def setHandle (s : St) (i : Nat) (h : Handle) : St := { s with handles := s.handles.set i h }

/-- the common tail of reload / reload_now: my_fileset_reload, rebuild this handle's merger if anything changed, stamp -/
def doReload (s : St) (i : Nat) (h : Handle) : St :=
  let (now, s) := readClock s
  let (nl, nu, sh) := myReload s.w s.sh
  let h := if nl > 0 || nu > 0 then reinit sh h else h
  let s := { s with sh := { sh with fsLast := now, reloadNeeded := false },
                    reloads := s.reloads + 1,
                    reloadsWithIters := s.reloadsWithIters + (if s.sh.nIters > 0 then 1 else 0) }
  setHandle s i { h with fsLast := now }

/-- the "merger from an out of date fileset" test at the top of mtbl_fileset_reload -/
def syncHandle (s : St) (h : Handle) : Handle :=
  if h.fsLast != s.sh.fsLast then { reinit s.sh h with fsLast := s.sh.fsLast } else h

/-- mtbl_fileset_reload -/
def reload (s : St) (i : Nat) : St :=
  match s.handles[i]? with
  | none => s
  | some h0 =>
    let h := syncHandle s h0
    let s := setHandle s i h
    if !s.sh.reloadNeeded && h.cfg.interval == NEVER then s
    else if s.sh.nIters > 0 then s
    else if s.sh.reloadNeeded || s.w.sec - s.sh.fsLast.1 > h.cfg.interval then doReload s i h
    else (readClock s).2

/-- mtbl_fileset_reload_now.  `fixF3` = the out-of-date test is also made here (repaired code). -/
def reloadNow (fixF3 : Bool) (s : St) (i : Nat) : St :=
  match s.handles[i]? with
  | none => s
  | some h0 =>
    if s.sh.nIters > 0 then { s with sh := { s.sh with reloadNeeded := true } }
    else
      let h := if fixF3 then syncHandle s h0 else h0
      doReload s i h

/-- does using the handle's merger / an iterator touch freed memory? -/
def sourcesLive (s : St) (rids : List Nat) : Bool := rids.all fun r => (tableOf s.sh.loaded r).isSome

/-- mtbl_source_iter & co on the fileset source: reload check, then a merger iterator over the handle's sources -/
def openIter (s : St) (i : Nat) : St :=
  let s := reload s i
  match s.handles[i]? with
  | none => s
  | some h =>
    let s := if sourcesLive s h.sources then s else { s with uaf := true }
    { s with sh := { s.sh with nIters := s.sh.nIters + 1 },
             iters := s.iters ++ [{ handle := i, readers := h.sources, mergerGen := h.mergerGen }] }

/-- mtbl_iter_next / mtbl_iter_seek on a fileset iterator -/
def useIter (s : St) (j : Nat) : St :=
  match s.iters[j]? with
  | none => s
  | some it =>
    if !it.isOpen then s else
    let mergerOk := match s.handles[it.handle]? with | some h => h.alive && h.mergerGen == it.mergerGen | none => false
    if sourcesLive s it.readers && mergerOk then s else { s with uaf := true }

/-- mtbl_iter_destroy on a fileset iterator: n_iters--, destroy, reload check on its handle -/
def closeIter (s : St) (j : Nat) : St :=
  match s.iters[j]? with
  | none => s
  | some it =>
    if !it.isOpen then s else
    let s := { s with sh := { s.sh with nIters := s.sh.nIters - 1 }, iters := s.iters.set j { it with isOpen := false } }
    reload s it.handle

def dup (s : St) (cfg : HCfg) : St :=
  { s with sh := { s.sh with nFs := s.sh.nFs + 1 }, handles := s.handles ++ [{ cfg }] }

def destroy (s : St) (i : Nat) : St :=
  match s.handles[i]? with
  | none => s
  | some h =>
    if !h.alive then s else
    let s := setHandle s i { h with alive := false }
    let nFs := s.sh.nFs - 1
    if nFs == 0 then { s with sh := { s.sh with nFs := 0, loaded := [], entries := [], alive := false } }
    else { s with sh := { s.sh with nFs } }

/-- mtbl_fileset_init -/
def init (w : World) (cfg : HCfg) : St := { w, handles := [{ cfg }] }

inductive Op
  | editSetfile (lines : List String)
  | putFile (name : String) (kind : FileKind)
  | rmFile (name : String)
  | advance (secs : Nat)
  | reload (h : Nat)
  | reloadNow (h : Nat)
  | openIter (h : Nat)
  | useIter (j : Nat)
  | closeIter (j : Nat)
  | dup (cfg : HCfg)
  | destroy (h : Nat)

def step (fixF3 : Bool) (s : St) : Op → St
  | .editSetfile lines => { s with w := { s.w with setLines := lines, setStamp := s.w.setStamp + 1 } }
  | .putFile name kind => { s with w := { s.w with files := (s.w.files.filter (·.1 != name)) ++ [(name, kind)] } }
  | .rmFile name => { s with w := { s.w with files := s.w.files.filter (·.1 != name) } }
  | .advance secs => { s with w := { s.w with sec := s.w.sec + secs } }
  | .reload h => reload s h
  | .reloadNow h => reloadNow fixF3 s h
  | .openIter h => openIter s h
  | .useIter j => useIter s j
  | .closeIter j => closeIter s j
  | .dup cfg => dup s cfg
  | .destroy h => destroy s h

def run (fixF3 : Bool) (s : St) (ops : List Op) : St := ops.foldl (step fixF3) s

end Mtbl.Fs
