import MtblModel.Generated.Constants
/-
  mtbl_writer_init(fname): open(fname, <flags from the source>, 0644), NULL when open fails.
  The file system is a parameter with the POSIX contract of open(2) recorded here.
-/
namespace Mtbl

inductive FsNode
  | regular (content : List UInt8)
  | danglingSymlink
  | symlinkTo (content : List UInt8)   -- symbolic link to an existing regular file with this content
  | special                            -- directory, FIFO, device node, or a symbolic link to one
deriving Repr, DecidableEq, Inhabited

structure FsWorld where
  nodes : List (String × FsNode)
deriving Repr, DecidableEq, Inhabited

def FsWorld.lookup (w : FsWorld) (path : String) : Option FsNode := (w.nodes.find? (·.1 == path)).map (·.2)

/-- POSIX open(2) for writing, as far as the flags below matter (contract, not verified):
    with O_CREAT|O_EXCL an existing directory entry — regular file or symbolic link, dangling or not —
    makes the call fail with EEXIST and nothing is modified; without O_EXCL an existing regular file is
    opened (and emptied when O_TRUNC is given). -/
def posixOpenW (w : FsWorld) (path : String) (flags : List String) : Bool × FsWorld :=
  match w.lookup path with
  | some node =>
    if flags.contains "O_CREAT" && flags.contains "O_EXCL" then (false, w)
    else match node with
      | .regular _ => if flags.contains "O_TRUNC"
                      then (true, { nodes := w.nodes.map fun (p, n) => if p == path then (p, .regular []) else (p, n) })
                      else (true, w)
      | .symlinkTo _ => if flags.contains "O_TRUNC"
                        then (true, { nodes := w.nodes.map fun (p, n) => if p == path then (p, .symlinkTo []) else (p, n) })
                        else (true, w)
      | .special => (true, w)
      | .danglingSymlink => if flags.contains "O_CREAT" then (true, { nodes := w.nodes ++ [(path ++ "->target", .regular [])] }) else (false, w)
  | none => if flags.contains "O_CREAT" then (true, { nodes := w.nodes ++ [(path, .regular [])] }) else (false, w)

/-- mtbl_writer_init: `false` = returned NULL -/
def writerInitPath (w : FsWorld) (path : String) : Bool × FsWorld := posixOpenW w path Generated.openFlags

end Mtbl
