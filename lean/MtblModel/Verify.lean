import MtblModel.Reader
/-
  src/mtbl_verify.c : verify_file / verify_data_blocks on the bytes of one file.
-/
namespace Mtbl

inductive VRes
  | ok          -- prints "<file>: OK", contributes exit status 0
  | failed      -- prints "<file>: FAILED" (or the open failed), exit status 1
  | abort       -- an assertion stopped the process (index checksum mismatch inside mtbl_reader_init_fd)
  | oob         -- a read outside the file (cannot happen after a successful open of the repaired code)
deriving Repr, DecidableEq, Inhabited

/-- the sweep of verify_data_blocks: `off` = offset of the next block relative to the data area,
    `consumed` = bytes_consumed, `left` = blocks still to check -/
def verifySweep (v1 : Bool) (data : Bytes) (bytesData : Nat) : (left : Nat) → (off consumed : Nat) → VRes
  | 0, _, _ => .ok
  | left + 1, off, consumed =>
    let (len, ll) := if v1 then (dec32 (data.drop off), 4) else vdecode64 (data.drop off)
    let consumed := consumed + ll + 4 + len
    if consumed > bytesData then .failed else
    let raw := (data.drop (off + ll + 4)).take len
    if dec32 (data.drop (off + ll)) ≠ crc32c raw then .failed
    else verifySweep v1 data bytesData left (off + ll + 4 + len) consumed

/-- verify_file -/
def verifyTool (thr : Nat) (decomp : Nat → Bytes → Option Bytes) (file : Bytes) : VRes :=
  match readerOpen true thr decomp true file with
  | .null => .failed
  | .abort _ => .abort
  | .oob _ => .oob
  | .ok r =>
    let count := r.m.countDataBlocks
    let bytesData := r.m.bytesDataBlocks
    if bytesData = 0 ∧ count = 0 then .ok else
    let dataOffset := subU64 r.m.indexBlockOffset bytesData
    verifySweep (r.m.version = .v1) (file.drop dataOffset) bytesData count 0 0

end Mtbl
