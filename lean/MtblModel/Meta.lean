import MtblModel.Varint
/-
  mtbl/metadata.c : the 512-byte trailer
-/
namespace Mtbl

def MAGIC_V1 : Nat := 0x77846676
def MAGIC_V2 : Nat := 0x4D54424C
def METADATA_SIZE : Nat := 512

inductive Version | v1 | v2
deriving Repr, DecidableEq, Inhabited

structure Meta where
  version : Version := .v2
  indexBlockOffset : Nat := 0
  dataBlockSize : Nat := 0
  compression : Nat := 0
  countEntries : Nat := 0
  countDataBlocks : Nat := 0
  bytesDataBlocks : Nat := 0
  bytesIndexBlock : Nat := 0
  bytesKeys : Nat := 0
  bytesValues : Nat := 0
deriving Repr, DecidableEq, Inhabited

/-- the nine fields in the order metadata_write stores them -/
def Meta.fields (m : Meta) : List Nat :=
  [m.indexBlockOffset, m.dataBlockSize, m.compression, m.countEntries, m.countDataBlocks,
   m.bytesDataBlocks, m.bytesIndexBlock, m.bytesKeys, m.bytesValues]

/-- metadata_write (always writes the v2 magic) -/
def Meta.write (m : Meta) : Bytes :=
  let body := m.fields.flatMap fixed64
  body ++ List.replicate (METADATA_SIZE - body.length - 4) 0 ++ fixed32 MAGIC_V2

/-- metadata_read on a 512-byte buffer -/
def Meta.read (buf : Bytes) : Option Meta :=
  let magic := dec32 (buf.drop (METADATA_SIZE - 4))
  let ver? := if magic = MAGIC_V1 then some Version.v1 else if magic = MAGIC_V2 then some Version.v2 else none
  match ver? with
  | none => none
  | some version =>
    some { version,
           indexBlockOffset := dec64 buf, dataBlockSize := dec64 (buf.drop 8),
           compression := dec64 (buf.drop 16), countEntries := dec64 (buf.drop 24),
           countDataBlocks := dec64 (buf.drop 32), bytesDataBlocks := dec64 (buf.drop 40),
           bytesIndexBlock := dec64 (buf.drop 48), bytesKeys := dec64 (buf.drop 56),
           bytesValues := dec64 (buf.drop 64) }

end Mtbl
