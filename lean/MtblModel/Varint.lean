import MtblModel.Basic
/-
  mtbl/varint.c and mtbl/fixed.c
-/
namespace Mtbl

/-- `mtbl_varint_encode64`: the `while (v >= 128)` loop. -/
def venc (v : Nat) : Bytes :=
  if v < 128 then [v.toUInt8]
  else (v % 128 + 128).toUInt8 :: venc (v / 128)
termination_by v
decreasing_by omega

/-- `mtbl_varint_length` -/
def vlen (v : Nat) : Nat := if v < 128 then 1 else 1 + vlen (v / 128)
termination_by v
decreasing_by omega

/-- `(uint8_t) x` -/
def u8 (x : Nat) : UInt8 := (x % 256).toUInt8

/-- `mtbl_varint_encode32`: the five unrolled branches, each byte with its C truncation. -/
def venc32 (v : Nat) : Bytes :=
  if v < 2^7 then [u8 v]
  else if v < 2^14 then [u8 (v ||| 128), u8 (v >>> 7)]
  else if v < 2^21 then [u8 (v ||| 128), u8 ((v >>> 7) ||| 128), u8 (v >>> 14)]
  else if v < 2^28 then [u8 (v ||| 128), u8 ((v >>> 7) ||| 128), u8 ((v >>> 14) ||| 128), u8 (v >>> 21)]
  else [u8 (v ||| 128), u8 ((v >>> 7) ||| 128), u8 ((v >>> 14) ||| 128), u8 ((v >>> 21) ||| 128), u8 (v >>> 28)]

/-- `_varint_decode`: `fuel` = number of 7-bit groups allowed (5 for max_shift 32, 10 for 64).
    Returns (value, bytes consumed). `none` = the overflow return (`*value = 0; return 0`) when the
    fuel runs out, or running off the end of the data (which in C is a read the caller must have
    made impossible). -/
def vdec : (fuel : Nat) → (shift : Nat) → Bytes → Option (Nat × Nat)
  | 0, _, _ => none
  | _+1, _, [] => none
  | fuel+1, shift, b :: bs =>
    if b.toNat < 128 then some ((b.toNat % 128) * 2^shift, 1)
    else match vdec fuel (shift + 7) bs with
      | some (v, n) => some ((b.toNat % 128) * 2^shift + v, n + 1)
      | none => none

/-- `mtbl_varint_decode32` as seen by a caller: (value truncated to 32 bits, length), (0,0) on overflow -/
def vdecode32 (d : Bytes) : Nat × Nat :=
  match vdec 5 0 d with
  | some (v, n) => (v % 2^32, n)
  | none => (0, 0)

/-- `mtbl_varint_decode64` -/
def vdecode64 (d : Bytes) : Nat × Nat :=
  match vdec 10 0 d with
  | some (v, n) => (v % 2^64, n)
  | none => (0, 0)

/-- `mtbl_varint_length_packed(data, len_data)` where `d` is exactly the `len_data` readable bytes -/
def vlenPackedGo : Bytes → Nat → Nat
  | [], _ => 0
  | b :: bs, i => if b.toNat < 128 then i + 1 else vlenPackedGo bs (i + 1)
def vlenPacked (d : Bytes) : Nat := vlenPackedGo d 0

/-- varint decode returning the remaining bytes (sequential decoding style) -/
def vdecR (fuel : Nat) (d : Bytes) : Option (Nat × Bytes) :=
  match vdec fuel 0 d with
  | some (v, n) => some (v, d.drop n)
  | none => none

/-! ### fixed.c — little-endian fixed width -/
def fixed32 (v : Nat) : Bytes :=
  [(v % 256).toUInt8, (v / 256 % 256).toUInt8, (v / 65536 % 256).toUInt8, (v / 16777216 % 256).toUInt8]

def fixed64 (v : Nat) : Bytes := fixed32 (v % 4294967296) ++ fixed32 (v / 4294967296 % 4294967296)

/-- `mtbl_fixed_decode32(ptr)` on the bytes starting at `ptr`; a short buffer (OOB in C) gives 0 -/
def dec32 (d : Bytes) : Nat :=
  match d with
  | a :: b :: c :: e :: _ => a.toNat + 256 * b.toNat + 65536 * c.toNat + 16777216 * e.toNat
  | _ => 0
def dec64 (d : Bytes) : Nat := dec32 d + 4294967296 * dec32 (d.drop 4)

end Mtbl
