import MtblModel.Spec
import MtblModel.Heap
/-
  mtbl/merger.c.  Sources are abstract cursors obeying the iterator contract (C03): a sorted entry
  list, a kind (bound) and a `Cur`.  Readers, mergers, sorters and user sources are instances.
-/
namespace Mtbl

structure Src where
  es : List Entry
  kind : Kind := .iter
  cur : Cur := { pos := 0 }
deriving Repr, Inhabited

def Src.next (s : Src) : Option Entry × Src :=
  let r := specNext s.kind s.es s.cur
  (r.1, { s with cur := r.2 })
def Src.seek (s : Src) (k : Bytes) : Src := { s with cur := specSeek s.es k }

/-- `struct entry` of merger.c: the head of source `src` -/
structure HEnt where
  src : Nat
  key : Bytes
  val : Bytes
  finished : Bool := false
deriving Repr, Inhabited

structure MCfg where
  merge : Option (Bytes → Bytes → Bytes → Option Bytes)   -- key v0 v1 ↦ merged ; none = callback reports failure
  dupsort : Option (Bytes → Bytes → Bytes → Ordering)
  fixF2 : Bool := true     -- "an entry is being assembled" is the `pending` flag, not `cur_key` non-empty
  fixF8 : Bool := true     -- seek(k) with k = cur_key takes the rebuild path

/-- _mtbl_merger_compare -/
def hcmp (c : MCfg) (a b : HEnt) : Ordering :=
  match bcmp a.key b.key with
  | .eq => match c.dupsort with
           | some d => d a.key a.val b.val
           | none => .eq
  | o => o

def hle (c : MCfg) (a b : HEnt) : Bool := hcmp c a b != .gt

structure MIter where
  srcs : Array Src                 -- per-source iterators (index = source id)
  live : List Nat                  -- the `entries` vector: sources whose first fill succeeded
  heap : Array HEnt := #[]
  curKey : Bytes := []
  curVal : Bytes := []
  finished : Bool := false
  pending : Bool := false
deriving Repr, Inhabited

/-- entry_fill on source `i`: the refreshed head (or the old one flagged finished) and the new source state -/
def fill (m : MIter) (i : Nat) (old : HEnt) : HEnt × MIter :=
  let r := (m.srcs[i]!).next
  let m' := { m with srcs := m.srcs.setIfInBounds i r.2 }
  match r.1 with
  | some e => ({ src := i, key := e.key, val := e.val, finished := false }, m')
  | none => ({ old with finished := true }, m')

/-- merger_iter_add_entry for every source -/
def mergerInit (c : MCfg) (srcs : Array Src) : MIter :=
  (List.range srcs.size).foldl (fun m i =>
    let r := fill m i { src := i, key := [], val := [] }
    if r.1.finished then r.2 else { r.2 with heap := Heap.push (hle c) r.2.heap r.1, live := r.2.live ++ [i] })
    { srcs := srcs, live := [] }

/-- after a successful or failed refill of the root -/
def afterFill (c : MCfg) (r : HEnt × MIter) : MIter :=
  if r.1.finished then { r.2 with heap := r.2.heap.setIfInBounds 0 r.1 }
  else { r.2 with heap := Heap.replace (hle c) r.2.heap r.1 }

/-- is an output entry being assembled?  (pinned tree: `ubuf_size(cur_key) != 0`) -/
def assembling (c : MCfg) (m : MIter) : Bool := if c.fixF2 then m.pending else m.curKey.length != 0

/-- the outer `for (;;)` of merger_iter_next; `none` = the merge callback reported failure -/
def mergerNextLoop (c : MCfg) (m : MIter) : Nat → Option MIter
  | 0 => some m
  | fuel+1 =>
    match m.heap[0]? with
    | none => some { m with finished := true }
    | some e =>
      if e.finished then mergerNextLoop c { m with heap := Heap.pop (hle c) m.heap } fuel
      else if !assembling c m then
        let m1 := { m with curKey := e.key, curVal := e.val, pending := true }
        mergerNextLoop c (afterFill c (fill m1 e.src e)) fuel
      else match c.merge with
        | none => some m
        | some f =>
          if bcmp m.curKey e.key == .eq then
            match f m.curKey m.curVal e.val with
            | none => none
            | some mv => mergerNextLoop c (afterFill c (fill { m with curVal := mv } e.src e)) fuel
          else some m

def srcLeft (s : Src) : Nat := s.es.length - s.cur.pos
def totalLeft (m : MIter) : Nat :=
  (m.srcs.toList.map srcLeft).sum + 2 * m.heap.size + 2

inductive NextRes | ok (k v : Bytes) | fail
deriving Repr, Inhabited, DecidableEq

/-- merger_iter_next -/
def mergerNext (c : MCfg) (m : MIter) : NextRes × MIter :=
  if m.finished then (.fail, m) else
  let m0 := { m with curKey := [], curVal := [], pending := if c.fixF2 then false else m.pending }
  match mergerNextLoop c m0 (totalLeft m0) with
  | none => (.fail, m0)       -- after a callback failure the iterator state is not specified further
  | some m1 =>
    if m1.pending then (.ok m1.curKey m1.curVal, { m1 with pending := false })
    else (.fail, m1)

/-- the forward-seek loop of merger_iter_seek -/
def mergerSeekFwdLoop (c : MCfg) (k : Bytes) (m : MIter) (changed : Bool) : Nat → MIter × Bool
  | 0 => (m, changed)
  | fuel+1 =>
    match m.heap[0]? with
    | none => ({ m with finished := true }, changed)
    | some e =>
      if bcmp k e.key == .gt then
        let s' := (m.srcs[e.src]!).seek k
        let m1 := { m with srcs := m.srcs.setIfInBounds e.src s' }
        let r := fill m1 e.src e
        if r.1.finished then
          mergerSeekFwdLoop c k { r.2 with heap := Heap.pop (hle c) r.2.heap } true fuel
        else mergerSeekFwdLoop c k { r.2 with heap := Heap.replace (hle c) r.2.heap r.1 } true fuel
      else (m, changed)

/-- the rebuild path: seek every live source, refill, heapify -/
def mergerSeekRebuild (c : MCfg) (m : MIter) (k : Bytes) : MIter :=
  let m1 := m.live.foldl (fun (m : MIter) i =>
    let s' := (m.srcs[i]!).seek k
    let m := { m with srcs := m.srcs.setIfInBounds i s' }
    let r := fill m i { src := i, key := [], val := [] }
    if r.1.finished then r.2 else { r.2 with heap := r.2.heap.push r.1 }) { m with heap := #[] }
  { m1 with heap := Heap.heapify (hle c) m1.heap }

/-- merger_iter_seek -/
def mergerSeek (c : MCfg) (m : MIter) (k : Bytes) : MIter :=
  let m := { m with finished := false, pending := false }
  let back := if c.fixF8 then bcmp k m.curKey != .gt else bcmp k m.curKey == .lt
  if m.heap.size == 0 || m.curKey.length == 0 || back then mergerSeekRebuild c m k
  else
    let r := mergerSeekFwdLoop c k m false (m.heap.size + 1)
    if r.2 then { r.1 with curVal := [], curKey := k } else r.1

/-- merger_iter / merger_get / merger_get_prefix / merger_get_range over sources with contents `tables`.
    `none` = NULL iterator (bounded kinds with no live source). -/
def mergerIter (c : MCfg) (tables : List (List Entry)) (kind : Kind) (start : Bytes) : Option MIter :=
  let skind := match kind with | .get k => Kind.range k | k => k
  let srcs := tables.toArray.map fun es => ({ es, kind := skind, cur := specSeek es start } : Src)
  let m := mergerInit c srcs
  match kind with
  | .iter => some m
  | _ => if m.live.isEmpty then none else some m

end Mtbl
