import MtblModel.Basic
/-
  mtbl/bytes.h : bytes_shortest_separator(start, limit) — returns the new content of `start`.
  The trailing `assert(bytes_compare(start, limit) < 0)` is modelled by `sepAssertOk`.
-/
namespace Mtbl

/-- the `diff_index` loop -/
def diffIndex : Bytes → Bytes → Nat
  | a :: as, b :: bs => if a = b then 1 + diffIndex as bs else 0
  | _, _ => 0

def shortestSep (start limit : Bytes) : Bytes :=
  let minLen := min start.length limit.length
  let di := diffIndex start limit
  if di ≥ minLen then start else
  let db := (start[di]!).toNat
  let lb := (limit[di]!).toNat
  if db < 0xFF ∧ db + 1 < lb then start.take di ++ [(db + 1).toUInt8]
  else if di + 2 < minLen then
    let us := db * 256 + (start[di+1]!).toNat
    let ul := lb * 256 + (limit[di+1]!).toNat
    let ub := (us + 1) % 65536
    if us ≤ ub ∧ ub ≤ ul then start.take di ++ [(ub / 256).toUInt8, (ub % 256).toUInt8]
    else start
  else start

/-- does the assertion at the end of bytes_shortest_separator hold?  (It is not evaluated on the
    early-return path `diff_index >= min_length`.) -/
def sepAssertOk (start limit : Bytes) : Bool :=
  let minLen := min start.length limit.length
  if diffIndex start limit ≥ minLen then true else blt (shortestSep start limit) limit

end Mtbl
