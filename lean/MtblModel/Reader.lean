import MtblModel.Block
import MtblModel.Meta
import MtblModel.Crc
import MtblModel.Spec
/-
  mtbl/reader.c : open (on arbitrary bytes, every load bounds-checked by the model), get_block,
  the four iterator kinds, reader_iter_next, reader_iter_seek.
  `Option` around an iterator operation: `none` = the process stopped on an assertion.
-/
namespace Mtbl

structure Rd where
  data : Bytes
  m : Meta
  verify : Bool
  index : Blk
  thr : Nat
  decomp : Nat → Bytes → Option Bytes       -- mtbl_decompress(algorithm, stored) ; none = failure
deriving Inhabited

inductive OpenRes
  | null                 -- mtbl_reader_init* returned NULL
  | abort (why : String) -- an assertion stopped the process
  | oob (off : Nat)      -- the C code would read at/after this offset ≥ file size
  | ok (r : Rd)
deriving Inhabited

/-- bounds-checked load of `len` bytes at `off` -/
def rdAt (file : Bytes) (off len : Nat) : Option Bytes :=
  if off + len ≤ file.length then some ((file.drop off).take len) else none

/-- mtbl_reader_init_fd on a file with content `file`.
    `fixF9` = the index length is checked against the file size before it is used. -/
def readerOpen (fixF9 : Bool) (thr : Nat) (decomp : Nat → Bytes → Option Bytes)
    (verify : Bool) (file : Bytes) : OpenRes :=
  let n := file.length
  if n < METADATA_SIZE then .null else
  match Meta.read (file.drop (n - METADATA_SIZE)) with
  | none => .null
  | some m =>
    let minBlk := if m.version = .v1 then 16 else 13
    let end_ := (m.indexBlockOffset + METADATA_SIZE + minBlk) % U64
    if end_ > n ∨ end_ < m.indexBlockOffset then .null else
    let io := m.indexBlockOffset
    -- index length prefix: both reads are inside the file by the `end` test
    let (ilen, ill) :=
      if m.version = .v1 then (dec32 (file.drop io), 4)
      else vdecode64 ((file.drop io).take 10)
    let avail := n - METADATA_SIZE - io        -- no underflow: guaranteed by the `end` test
    if fixF9 ∧ (ill + 4 > avail ∨ ilen > avail - ill - 4) then .null else
    let idx := io + ill + 4
    -- optional checksum over `ilen` bytes at `idx`
    let crcStep : Option OpenRes :=
      if verify then
        match rdAt file idx ilen with
        | none => some (.oob n)
        | some body =>
          if dec32 (file.drop (io + ill)) = crc32c body then none else some (.abort "index crc")
      else none
    match crcStep with
    | some r => r
    | none =>
      -- block_init(index_data, index_len): reads the last four bytes when index_len >= 4
      if ilen < 4 then
        .ok { data := file, m, verify, thr, decomp, index := { data := [], size := 0, restartOffset := 0, thr } }
      else if ilen < 8 then .abort "num_restarts size"     -- the assertion precedes the load
      else match rdAt file idx ilen with
        | none => .oob n
        | some body =>
          match blockInit thr body with
          | none => .abort "num_restarts size"
          | some b => .ok { data := file, m, verify, thr, decomp, index := b }

/-- get_block: `none` = assertion failure (offset outside, checksum mismatch, decompression failure)
    or a load outside the file (only possible on malformed files) -/
def getBlock (r : Rd) (off : Nat) : Option Blk :=
  if off ≥ r.data.length then none else
  let (len, ll) :=
    if r.m.version = .v1 then (dec32 (r.data.drop off), 4)
    else vdecode64 (r.data.drop off)
  match rdAt r.data (off + ll + 4) len with
  | none => none
  | some raw =>
    if r.verify ∧ dec32 (r.data.drop (off + ll)) ≠ crc32c raw then none else
    let contents? := if r.m.compression = 0 then some raw else r.decomp r.m.compression raw
    match contents? with
    | none => none
    | some c => blockInit r.thr c

structure RIter where
  r : Rd
  blockOffset : Nat := 0
  b : Option Blk            -- it->b (NULL after the block was dropped at the end of the table)
  bi : BI                   -- it->bi (meaningful only while b is set)
  idx : BI                  -- it->index_iter
  first : Bool := true
  valid : Bool := true
  kind : Kind
deriving Inhabited

/-- block_iter_get(index_iter) + mtbl_varint_decode64(ival) -/
def idxOffset (idx : BI) : Option Nat :=
  if biValid idx then some (vdecode64 idx.val).1 else none

/-- get_block_at_index + block_iter_init.  Outer `none` = abort; inner `none` = no block (NULL).
    With `fixF1` the decoded offset is stored in `blockOffset` by the callers. -/
def blockAtIndex (r : Rd) (idx : BI) : Option (Option (Nat × Blk × BI)) :=
  match idxOffset idx with
  | none => some none
  | some off =>
    match getBlock r off with
    | none => none
    | some b => match biInit b with
      | none => none
      | some bi => some (some (off, b, bi))

/-- reader_iter() [seekTo = none] and reader_iter_init() [seekTo = some key].
    Result: `none` = abort, `some none` = NULL iterator. -/
def readerIterInit (fixF1 : Bool) (r : Rd) (seekTo : Option Bytes) (kind : Kind) : Option (Option RIter) :=
  match biInit r.index with
  | none => none
  | some idx0 =>
    let idx := match seekTo with | none => biSeekToFirst idx0 | some k => biSeek idx0 k
    match blockAtIndex r idx with
    | none => none
    | some none => some none
    | some (some (off, b, bi0)) =>
      let bi := match seekTo with | none => biSeekToFirst bi0 | some k => biSeek bi0 k
      some (some { r, b := some b, bi, idx, kind, blockOffset := if fixF1 then off else 0 })

def needsIndexSeek (it : RIter) (k : Bytes) : Bool :=
  if it.first || it.b.isNone then true
  else if !biValid it.bi then true
  else if bcmp it.bi.key k == .gt then true
  else if !biValid it.idx then true
  else if bcmp it.idx.key k == .lt then true
  else false

/-- reader_iter_seek (always returns success unless it aborts) -/
def rSeek (it : RIter) (k : Bytes) : Option RIter :=
  let it := if needsIndexSeek it k then { it with idx := biSeek it.idx k } else it
  match idxOffset it.idx with
  | none => some { it with valid := false }
  | some off =>
    if it.b.isNone || it.blockOffset != off then
      match getBlock it.r off with
      | none => none
      | some b => match biInit b with
        | none => none
        | some bi => some { it with blockOffset := off, b := some b, bi := biSeek bi k, first := true, valid := true }
    else some { it with bi := biSeek it.bi k, first := true, valid := true }

/-- the `switch (it->it_type)` at the end of reader_iter_next -/
def rFinish (it : RIter) : Option Entry × RIter :=
  if inBound it.kind it.bi.key then (some { key := it.bi.key, val := it.bi.val }, it)
  else (none, { it with valid := false })

/-- reader_iter_next -/
def rNext (fixF1 : Bool) (it : RIter) : Option (Option Entry × RIter) :=
  if !it.valid then some (none, it) else
  let it := if !it.first then { it with bi := biNext it.bi } else it
  let it := { it with first := false, valid := biValid it.bi }
  if it.valid then some (rFinish it) else
  -- current block exhausted: drop it, advance the index
  let idx := biNext it.idx
  let it := { it with b := none, idx }
  if !biValid idx then some (none, it) else
  match blockAtIndex it.r idx with
  | none => none
  | some none => some (none, it)
  | some (some (off, b, bi0)) =>
    let bi := biSeekToFirst bi0
    let it := { it with b := some b, bi, valid := biValid bi,
                        blockOffset := if fixF1 then off else it.blockOffset }
    if !it.valid then some (none, it) else some (rFinish it)

end Mtbl
