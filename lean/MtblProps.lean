import MtblProps.C08
import MtblProps.C16
import MtblProps.C17
import MtblProps.C19
