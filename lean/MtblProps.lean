import MtblProofs
