import MtblProps.C16
