import MtblModel
import Std.Data.HashMap
/-
  Line-protocol driver: one request per line on stdin, one reply per line on stdout.
  Runs exactly the definitions of MtblModel (no separate fast copy).
-/
open Mtbl

namespace Drv

def hexDigit (c : Char) : Option Nat :=
  if '0' ≤ c ∧ c ≤ '9' then some (c.toNat - 48)
  else if 'a' ≤ c ∧ c ≤ 'f' then some (c.toNat - 87)
  else none

partial def unhexGo (cs : List Char) (acc : Array UInt8) : Option (Array UInt8) :=
  match cs with
  | [] => some acc
  | a :: b :: rest =>
    match hexDigit a, hexDigit b with
    | some x, some y => unhexGo rest (acc.push (x * 16 + y).toUInt8)
    | _, _ => none
  | _ => none

def unhex (s : String) : Option Bytes :=
  if s == "-" then some [] else (unhexGo s.toList #[]).map (·.toList)

def hexNib (n : Nat) : Char := if n < 10 then Char.ofNat (48 + n) else Char.ofNat (87 + n)

def hex (b : Bytes) : String :=
  if b.isEmpty then "-" else
  String.ofList (b.foldr (fun x acc => hexNib (x.toNat / 16) :: hexNib (x.toNat % 16) :: acc) [])

def kv (args : List String) (name : String) : Option String :=
  args.findSome? fun a => if a.startsWith (name ++ "=") then some (a.drop (name.length + 1)).toString else none

def kvNat (args : List String) (name : String) (dflt : Nat) : Nat :=
  match kv args name with
  | some v => v.toNat?.getD dflt
  | none => dflt

structure St where
  blobs : Std.HashMap Nat Bytes := {}
  ctab : List (Nat × Bytes × Bytes) := []          -- (algorithm, raw, stored) pairs observed from the library
  writers : Std.HashMap Nat (W × Bytes) := {}     -- writer state and the foreign prefix bytes
  wadds : Std.HashMap Nat (List Entry) := {}      -- every add call so far (newest first), replayed at w.fin once the compression table is known
  readers : Std.HashMap Nat Rd := {}
  riters : Std.HashMap Nat (Option RIter) := {}    -- none = NULL iterator
  mergers : Std.HashMap Nat (String × Bool × List (List Entry)) := {}   -- merge spec, dupsort, source contents
  miters : Std.HashMap Nat (Option MIter × String × Bool) := {}
  sorters : Std.HashMap Nat (Sorter × String) := {}
  fsSt : Fs.St := {}
  fsTables : Std.HashMap Nat (List Entry) := {}
  fsHandles : Std.HashMap Nat Nat := {}
  fsIters : Std.HashMap Nat Nat := {}
  fixF3 : Bool := true
  fixF2 : Bool := true
  fixF8 : Bool := true
  fixF1 : Bool := true
  fixF9 : Bool := true
  fixF4 : Bool := true
  res : Res.St := {}                               -- C18: the resource ledger machine
  resLast : Std.HashMap Nat Nat := {}              -- C18: last key accepted by each writer (ordering gate)
  sortersGone : List Nat := []                     -- C06: sorters whose temporary directory has vanished (a spill now stops the process)
  resKpad : Nat := 0                               -- C18: res.kpad — every key of the history carries this many extra bytes
  resSMin : Std.HashMap Nat Nat := {}              -- C18: smallest key added to each sorter (first entry mtbl_sorter_write offers)
  tp : Option Tp.St := none                        -- C13: the threadpool machine being replayed
  tpk : Option TpK.St := none                      -- C13/C14: the k-client machine being replayed (tp.multi)
  fixF5 : Bool := true
  libBounds : List (Nat × Nat × Nat) := []                       -- (algorithm, n, value) of the library's bound functions
  libDBounds : List (Int × Nat × Nat) := []                      -- deflateBound (level, n, value)
  libComps : List (Nat × Int × Nat × Bytes × Option Bytes) := []  -- one-shot compressions observed: algo, level, capacity, input, result
  libDecomps : List (Nat × Nat × Bytes × Cz.DRes) := []          -- raw decompressions observed: algo, room, input, result
  libZcs : List (Bytes × Option Nat) := []
  libSnlen : List (Bytes × Option Nat) := []
  libZrange : Int × Int := (-131072, 22)
  dead : Bool := false                              -- the modelled process has aborted

def compOf (ctab : List (Nat × Bytes × Bytes)) (algo : Nat) (raw : Bytes) : Option Bytes :=
  (ctab.find? fun (a, r, _) => a == algo && r == raw).map (·.2.2)
def decompOf (ctab : List (Nat × Bytes × Bytes)) (algo : Nat) (stored : Bytes) : Option Bytes :=
  (ctab.find? fun (a, _, s) => a == algo && s == stored).map (·.2.1)

def metaStr (m : Meta) : String :=
  (if m.version = .v1 then "v1" else "v2") ++ " " ++ " ".intercalate (m.fields.map toString)

def parseKind (args : List String) : Option (Kind × Option Bytes) :=
  match args with
  | ["iter"] => some (.iter, none)
  | ["get", k] => (unhex k).map fun k => (.get k, some k)
  | ["pfx", k] => (unhex k).map fun k => (.pfx k, some k)
  | ["range", k0, k1] => match unhex k0, unhex k1 with
    | some a, some b => some (.range b, some a)
    | _, _ => none
  | _ => none

def stepCodec (line : String) : Option String :=
  match line.trimAscii.toString.splitOn " " with
  | "venc32" :: v :: _ => v.toNat?.map fun v => "bytes " ++ hex (venc32 (v % 4294967296))
  | "venc64" :: v :: _ => v.toNat?.map fun v => "bytes " ++ hex (venc v)
  | "vlen" :: v :: _ => v.toNat?.map fun v => "n " ++ toString (vlen v)
  | "vdec32" :: h :: _ => (unhex h).map fun d => let r := vdecode32 d; "val " ++ toString r.1 ++ " " ++ toString r.2
  | "vdec64" :: h :: _ => (unhex h).map fun d => let r := vdecode64 d; "val " ++ toString r.1 ++ " " ++ toString r.2
  | "vlenp" :: h :: _ => (unhex h).map fun d => "n " ++ toString (vlenPacked d)
  | "vlenpbig" :: h :: _ => (unhex h).map fun d => "n " ++ toString (vlenPacked (d ++ List.replicate 12 0))   -- zero pages follow
  | "fix32" :: v :: _ => v.toNat?.map fun v => "bytes " ++ hex (fixed32 (v % 4294967296))
  | "fix64" :: v :: _ => v.toNat?.map fun v => "bytes " ++ hex (fixed64 v)
  | "dfix32" :: h :: _ => (unhex h).map fun d => "val " ++ toString (dec32 d)
  | "dfix64" :: h :: _ => (unhex h).map fun d => "val " ++ toString (dec64 d)
  | ["crc", impl, al, h] =>
    match al.toNat?, unhex h with
    | some a, some d =>
      if impl == "api" then some ("crc " ++ toString (crc32c d))
      else if impl == "slicing" then some ("crc " ++ toString (slicing a d))
      else if impl == "sse42" then some ("crc " ++ toString (sse42 d))
      else none
    | _, _ => none
  | _ => none


/-- values are sequences of 2-byte tokens; the test merge function is the sorted multiset union -/
def tokens : Bytes → List (UInt8 × UInt8) × Bytes
  | a :: b :: rest => let r := tokens rest; ((a, b) :: r.1, r.2)
  | rest => ([], rest)
def tokLe (x y : UInt8 × UInt8) : Bool := x.1 < y.1 || (x.1 == y.1 && x.2 ≤ y.2)
def mergeUnion (failKey : Option Bytes) (k v0 v1 : Bytes) : Option Bytes :=
  if failKey == some k then none else
  let t := tokens (v0 ++ v1)
  let sorted := t.1.mergeSort tokLe
  some (sorted.flatMap (fun p => [p.1, p.2]) ++ t.2)
/-- second test merge function: longest common prefix of the two values (commutative, associative, never longer
    than an operand) -/
def lcpBytes : Bytes → Bytes → Bytes
  | a :: as, b :: bs => if a == b then a :: lcpBytes as bs else []
  | _, _ => []
def mergeLcp (_k v0 v1 : Bytes) : Option Bytes := some (lcpBytes v0 v1)
def dupsortBytes (_k v0 v1 : Bytes) : Ordering := bcmp v0 v1

def mkMCfg (s : St) (mg : String) (ds : Bool) : MCfg :=
  let merge : Option (Bytes → Bytes → Bytes → Option Bytes) :=
    if mg == "union" then some (mergeUnion none)
    else if mg == "lcp" then some mergeLcp
    else if mg.startsWith "fail:" then some (mergeUnion (unhex (mg.drop 5).toString))
    else none
  { merge, dupsort := if ds then some dupsortBytes else none, fixF2 := s.fixF2, fixF8 := s.fixF8 }

def parsePairs : List String → Option (List Entry)
  | [] => some []
  | k :: v :: rest => match unhex k, unhex v, parsePairs rest with
    | some k, some v, some es => some ({ key := k, val := v } :: es)
    | _, _, _ => none
  | _ => none

def drainMerger (c : MCfg) (it : MIter) : Nat → List Entry → List Entry
  | 0, acc => acc.reverse
  | fuel + 1, acc =>
    match mergerNext c it with
    | (.ok k v, it') => drainMerger c it' fuel ({ key := k, val := v } :: acc)
    | (.fail, _) => acc.reverse

def stepMerger (s : St) (line : String) : Option (St × String) :=
  match line.trimAscii.toString.splitOn " " with
  | "m.new" :: id :: args =>
    id.toNat?.map fun i =>
      ({ s with mergers := s.mergers.insert i ((kv args "merge").getD "none", kvNat args "dupsort" 0 == 1, []) }, "ok")
  | "m.src" :: id :: args =>
    match id.toNat? with
    | some i => match s.mergers[i]? with
      | some (mg, ds, tabs) =>
        if (kv args "kind").getD "t" == "n" then
          -- another merger as a source: by C05 it behaves like one table holding that merger's merged content
          match s.mergers[kvNat args "sub" 0]? with
          | some (mg2, ds2, tabs2) =>
            let c2 := mkMCfg s mg2 ds2
            let content := match mergerIter c2 tabs2 .iter [] with
              | some it => drainMerger c2 it ((tabs2.map List.length).sum + 1) []
              | none => []
            some ({ s with mergers := s.mergers.insert i (mg, ds, tabs ++ [content]) }, "ok")
          | none => none
        else
        match parsePairs (args.filter fun a => !a.contains '=') with
        | some es => some ({ s with mergers := s.mergers.insert i (mg, ds, tabs ++ [es]) }, "ok")
        | none => none
      | none => none
    | none => none
  | "m.tool" :: mid :: _ =>
    -- src/mtbl_merge: merger with the DSO's merge function (multiset union) over the same tables, every merged entry added to
    -- a writer, the output read back: by C04_merge + C04_source_write + C01 that is the merged content
    match mid.toNat? with
    | some m => match s.mergers[m]? with
      | some (_, _, tabs) =>
        let c := mkMCfg s "union" false
        let content := match mergerIter c tabs .iter [] with
          | some it => drainMerger c it ((tabs.map List.length).sum + 1) []
          | none => []
        some (s, "ents" ++ String.join (content.map fun e => " " ++ hex e.key ++ " " ++ hex e.val))
      | none => none
    | none => none
  | "m.write" :: mid :: args =>
    -- mtbl_source_write(mtbl_merger_source(m), fresh writer): the merged content through `W.writeFrom`, then the writer is finished
    match mid.toNat? with
    | some m => match s.mergers[m]? with
      | some (mg, ds, tabs) =>
        let c := mkMCfg s mg ds
        let content := match mergerIter c tabs .iter [] with
          | some it => drainMerger c it ((tabs.map List.length).sum + 1) []
          | none => []
        let cfg : WCfg := { compression := 0, blockSize := kvNat args "bs" 32, interval := kvNat args "ri" 2, minBlockSize := 16 }
        let r := (W.new cfg 0).writeFrom content
        some (s, (if r.1 == .success then "ok " else "fail ") ++ hex r.2.finish)
      | none => none
    | none => none
  | "m.it" :: mid :: iid :: kargs =>
    match mid.toNat?, iid.toNat?, parseKind kargs with
    | some m, some i, some (kind, seekTo) => match s.mergers[m]? with
      | some (mg, ds, tabs) =>
        let c := mkMCfg s mg ds
        match mergerIter c tabs kind (seekTo.getD []) with
        | none => some ({ s with miters := s.miters.insert i (none, mg, ds) }, "null")
        | some it => some ({ s with miters := s.miters.insert i (some it, mg, ds) }, "ok")
      | none => none
    | _, _, _ => none
  | ["m.next", iid] =>
    match iid.toNat? with
    | some i => match s.miters[i]? with
      | some (none, _, _) => some (s, "fail")
      | some (some it, mg, ds) =>
        let r := mergerNext (mkMCfg s mg ds) it
        let s' := { s with miters := s.miters.insert i (some r.2, mg, ds) }
        match r.1 with
        | .ok k v => some (s', "ent " ++ hex k ++ " " ++ hex v)
        | .fail => some (s', "fail")
      | none => none
    | none => none
  | ["m.seek", iid, k] =>
    match iid.toNat?, unhex k with
    | some i, some k => match s.miters[i]? with
      | some (none, _, _) => some (s, "fail")
      | some (some it, mg, ds) =>
        some ({ s with miters := s.miters.insert i (some (mergerSeek (mkMCfg s mg ds) it k), mg, ds) }, "ok")
      | none => none
    | _, _ => none
  | ["m.close", iid] => iid.toNat?.map fun i => ({ s with miters := s.miters.erase i }, "ok")
  | _ => none

def mergeOfSpec (mg : String) : Option (Bytes → Bytes → Bytes → Option Bytes) :=
  if mg == "union" then some (mergeUnion none)
  else if mg == "lcp" then some mergeLcp
  else if mg.startsWith "fail:" then some (mergeUnion (unhex (mg.drop 5).toString))
  else none

def stepSorter (s : St) (line : String) : Option (St × String) :=
  match line.trimAscii.toString.splitOn " " with
  | "s.new" :: id :: args =>
    id.toNat?.map fun i =>
      let mg := (kv args "merge").getD "none"
      let cfg : SCfg := { maxMemory := kvNat args "mem" 1073741824, minMemory := kvNat args "minmem" 10485760,
                          merge := mergeOfSpec mg, sortFn := fun l => l.mergeSort (fun a b => bcmp a.key b.key != .gt),
                          entryOverhead := kvNat args "eo" 8, pid := kvNat args "pid" 0, tmpDir := "DIR" }
      ({ s with sorters := s.sorters.insert i ({ cfg }, mg) }, "ok")
  | ["s.vanish", id] => id.toNat?.map fun i => ({ s with sortersGone := i :: s.sortersGone }, "ok")
  | ["s.add", id, k, v] =>
    match id.toNat?, unhex k, unhex v with
    | some i, some k, some v => match s.sorters[i]? with
      | some (so, mg) =>
        let r := so.add k v
        -- no directory to spill into: mkstemp fails and the library asserts
        if s.sortersGone.contains i && r.2.spills > so.spills then some (s, "abort") else
        if r.2.aborted then some ({ s with sorters := s.sorters.insert i (r.2, mg) }, "abort")
        else some ({ s with sorters := s.sorters.insert i (r.2, mg) }, if r.1 == .success then "ok" else "fail")
      | none => none
    | _, _, _ => none
  | ["s.iter", id, iid] =>
    match id.toNat?, iid.toNat? with
    | some i, some j => match s.sorters[i]? with
      | some (so, mg) =>
        let r := so.iter (mkMCfg s mg false)
        let s' := { s with sorters := s.sorters.insert i (r.2, mg) }
        if s.sortersGone.contains i && r.2.spills > so.spills then some (s, "abort") else
        if r.2.aborted then some (s', "abort") else
        match r.1 with
        | some m => some ({ s' with miters := s'.miters.insert j (some m, mg, false) }, "ok")
        | none => some ({ s' with miters := s'.miters.insert j (none, mg, false) }, "null")
      | none => none
    | _, _ => none
  | ["s.write", id, wid] =>
    match id.toNat?, wid.toNat? with
    | some i, some w => match s.sorters[i]?, s.writers[w]? with
      | some (so, mg), some (wr, pre) =>
        if so.iterating then some (s, "fail") else
        let mc := mkMCfg s mg false
        let r := so.iter mc
        let s1 := { s with sorters := s.sorters.insert i (r.2, mg) }
        if s.sortersGone.contains i && r.2.spills > so.spills then some (s, "abort") else
        if r.2.aborted then some (s1, "abort") else
        match r.1 with
        | none => some (s1, "fail")
        | some m =>
          -- mtbl_sorter_write: drain the iterator into the writer, stop at the first refused add
          let rec go (fuel : Nat) (m : MIter) (wr : W) (adds : List Entry) (res : String) : W × List Entry × String :=
            match fuel with
            | 0 => (wr, adds, res)
            | fuel + 1 =>
              match mergerNext mc m with
              | (.ok k v, m') =>
                let a := wr.add k v
                if a.1 == .success then go fuel m' a.2 ({ key := k, val := v } :: adds) res
                else (a.2, { key := k, val := v } :: adds, "fail")
              | (.fail, _) => (wr, adds, res)
          let total := (r.2.chunks.map List.length).sum + 1
          let out := go total m wr ((s1.wadds[w]?).getD []) "ok"
          some ({ s1 with writers := s1.writers.insert w (out.1, pre), wadds := s1.wadds.insert w out.2.1 }, out.2.2)
      | _, _ => none
    | _, _ => none
  | ["s.spills", id] =>
    match id.toNat? with
    | some i => match s.sorters[i]? with
      | some (so, _) => some (s, "spills " ++ toString so.spills ++ " tmpl=" ++
          (if so.cfg.template == "DIR/.mtbl." ++ toString so.cfg.pid ++ ".XXXXXX" then "DIR/.mtbl.PID.XXXXXX" else so.cfg.template) ++ " leftover=0")
      | none => none
    | none => none
  | ["s.destroy", id] => id.toNat?.map fun i => ({ s with sorters := s.sorters.erase i }, "ok")
  | _ => none

def isSubstr (needle hay : String) : Bool :=
  let n := needle.toList; let h := hay.toList
  (List.range (h.length + 1 - n.length)).any fun i => (h.drop i).take n.length == n

def fsName (a : String) : String := if a.startsWith "/" then (a.drop 1).toString else a

def fsCfg (s : St) (args : List String) : Fs.HCfg :=
  let iv := (kv args "interval").getD "60"
  let namef := (kv args "namef").getD "-"
  let tabs := s.fsTables
  { interval := if iv == "never" then Fs.NEVER else iv.toNat?.getD 60,
    nameFilter := fun n => namef == "-" || isSubstr namef n,
    tableFilter := match kv args "minent" with
      | some m => fun tid => decide (((tabs[tid]?).getD []).length ≥ m.toNat?.getD 0)
      | none => fun _ => true }

def stepFs (s : St) (line : String) : Option (St × String) :=
  match line.trimAscii.toString.splitOn " " with
  | ["fs.begin"] => some ({ s with fsSt := {}, fsTables := {}, fsHandles := {}, fsIters := {} }, "ok")
  | ["fs.end"] => some (s, "ok")
  | "fs.table" :: tid :: rest =>
    match tid.toNat?, parsePairs rest with
    | some t, some es => some ({ s with fsTables := s.fsTables.insert t es }, "ok")
    | _, _ => none
  | ["fs.file", name, what] =>
    let kind := if what == "nt" then Fs.FileKind.notTable else Fs.FileKind.table (what.toNat?.getD 0)
    some ({ s with fsSt := Fs.step s.fixF3 s.fsSt (.putFile name kind) }, "ok")
  | ["fs.rm", name] => some ({ s with fsSt := Fs.step s.fixF3 s.fsSt (.rmFile name) }, "ok")
  | "fs.set" :: names => some ({ s with fsSt := Fs.step s.fixF3 s.fsSt (.editSetfile (names.map fsName)) }, "ok")
  | ["fs.tick", n] => n.toNat?.map fun k => ({ s with fsSt := Fs.step s.fixF3 s.fsSt (.advance k) }, "ok")
  | "fs.init" :: hid :: args =>
    hid.toNat?.map fun h =>
      ({ s with fsSt := { s.fsSt with handles := [{ cfg := fsCfg s args }], sh := {} }, fsHandles := (({} : Std.HashMap Nat Nat).insert h 0) }, "ok")
  | "fs.dup" :: _src :: hid :: args =>
    hid.toNat?.map fun h =>
      let idx := s.fsSt.handles.length
      ({ s with fsSt := Fs.step s.fixF3 s.fsSt (.dup (fsCfg s args)), fsHandles := s.fsHandles.insert h idx }, "ok")
  | ["fs.reload", hid] =>
    match hid.toNat?.bind (s.fsHandles[·]?) with
    | some i => some ({ s with fsSt := Fs.step s.fixF3 s.fsSt (.reload i) }, "ok")
    | none => none
  | ["fs.now", hid] =>
    match hid.toNat?.bind (s.fsHandles[·]?) with
    | some i => some ({ s with fsSt := Fs.step s.fixF3 s.fsSt (.reloadNow i) }, "ok")
    | none => none
  | "fs.it" :: hid :: iid :: kargs =>
    match hid.toNat?.bind (s.fsHandles[·]?), iid.toNat?, parseKind kargs with
    | some i, some j, some (kind, seekTo) =>
      let st := Fs.step s.fixF3 s.fsSt (.openIter i)
      let idx := st.iters.length - 1
      match st.iters[idx]? with
      | none => none
      | some it =>
        if st.uaf then some ({ s with fsSt := st }, "uaf") else
        let tabs := it.readers.map fun r => match Fs.tableOf st.sh.loaded r with
          | some tid => (s.fsTables[tid]?).getD []
          | none => []
        let m := mergerIter (mkMCfg s "union" false) tabs kind (seekTo.getD [])
        some ({ s with fsSt := st, fsIters := s.fsIters.insert j idx, miters := s.miters.insert j (m, "union", false) }, "ok")
    | _, _, _ => none
  | ["fs.next", iid] =>
    match iid.toNat? with
    | some j => match s.fsIters[j]?, s.miters[j]? with
      | some idx, some (m?, mg, ds) =>
        let st := Fs.step s.fixF3 s.fsSt (.useIter idx)
        if st.uaf then some ({ s with fsSt := st }, "uaf") else
        match m? with
        | none => some ({ s with fsSt := st }, "fail")
        | some m =>
          let r := mergerNext (mkMCfg s mg ds) m
          let s' := { s with fsSt := st, miters := s.miters.insert j (some r.2, mg, ds) }
          match r.1 with
          | .ok k v => some (s', "ent " ++ hex k ++ " " ++ hex v)
          | .fail => some (s', "fail")
      | _, _ => none
    | none => none
  | ["fs.seek", iid, k] =>
    match iid.toNat?, unhex k with
    | some j, some k => match s.fsIters[j]?, s.miters[j]? with
      | some idx, some (m?, mg, ds) =>
        let st := Fs.step s.fixF3 s.fsSt (.useIter idx)
        if st.uaf then some ({ s with fsSt := st }, "uaf") else
        match m? with
        | none => some ({ s with fsSt := st }, "fail")
        | some m => some ({ s with fsSt := st, miters := s.miters.insert j (some (mergerSeek (mkMCfg s mg ds) m k), mg, ds) }, "ok")
      | _, _ => none
    | _, _ => none
  | ["fs.close", iid] =>
    match iid.toNat? with
    | some j => match s.fsIters[j]? with
      | some idx => some ({ s with fsSt := Fs.step s.fixF3 s.fsSt (.closeIter idx), miters := s.miters.erase j }, "ok")
      | none => none
    | none => none
  | ["fs.destroy", hid] =>
    match hid.toNat?.bind (s.fsHandles[·]?) with
    | some i => some ({ s with fsSt := Fs.step s.fixF3 s.fsSt (.destroy i) }, "ok")
    | none => none
  | _ => none

/-! independent encoder ops (C11): the file is described by a spec of `key=value` tokens -/
def splitNat (s : String) : List Nat := if s == "-" || s == "" then [] else (s.splitOn ",").filterMap (·.toNat?)
def splitHexes (s : String) : Option (List Bytes) := if s == "" then some [] else (s.splitOn ",").mapM unhex

def parseEBlock (s : String) : Option EBlock :=
  match s.splitOn "|" with
  | [] => none
  | rs :: items =>
    if !rs.startsWith "rs:" then none else
    let restarts := splitNat (rs.drop 3).toString
    let its := items.mapM fun it =>
      match it.splitOn "," with
      | [sh, k, v] => match sh.toNat?, unhex k, unhex v with
        | some sh, some k, some v => some ({ shared := sh, e := { key := k, val := v } } : EEntry)
        | _, _, _ => none
      | _ => none
    its.map fun l => { items := l, restarts }

def parseEFile (args : List String) : Option EFile :=
  let blocksStr := (kv args "blocks").getD ""
  let blocks? := if blocksStr == "" then some [] else (blocksStr.splitOn ";").mapM parseEBlock
  match blocks?, splitHexes ((kv args "seps").getD ""), unhex ((kv args "pre").getD "-") with
  | some blocks, some seps, some pre =>
    some { version := if kvNat args "ver" 2 == 1 then .v1 else .v2, pre, blocks, seps,
           indexShared := splitNat ((kv args "idxsh").getD "-"), indexRestarts := splitNat ((kv args "idxrs").getD "0"),
           compression := kvNat args "comp" 0, blockSizeField := kvNat args "bsf" 8192, thr := kvNat args "thr" 4294967295 }
  | _, _, _ => none

def stepEnc (s : St) (line : String) : Option (St × String) :=
  match line.trimAscii.toString.splitOn " " with
  | "f.validate" :: args =>
    match unhex ((kv args "file").getD "-"), unhex ((kv args "pre").getD "-") with
    | some body, some pre =>
      let algo := kvNat args "comp" 0
      let ctab := s.ctab
      let minbs := kvNat args "minbs" 1024
      let bs := kvNat args "bs" 8192
      let effBs := if bs < minbs then minbs else bs
      let comp := fun raw => ((compOf ctab algo raw).getD raw)
      some (s, "valid " ++ validateFile (kvNat args "ri" 16) effBs (kvNat args "thr" 4294967295) comp (decompOf ctab) pre (pre ++ body))
    | _, _ => none
  | "enc.raw" :: args =>
    (parseEFile args).map fun f => (s, "raws " ++ " ".intercalate (f.blocks.map fun b => hex (b.encode f.thr)))
  | "enc.legal" :: args =>
    (parseEFile args).map fun f =>
      let comp := fun raw => ((compOf s.ctab f.compression raw).getD raw)
      (s, if f.legal comp then "legal" else "illegal")
  | "enc.file" :: id :: args =>
    match id.toNat?, parseEFile args with
    | some i, some f =>
      let ctab := s.ctab
      let missing := f.compression != 0 && f.blocks.any fun b => (compOf ctab f.compression (b.encode f.thr)).isNone
      if missing then some (s, "no-ctab") else
      let comp := fun raw => ((compOf ctab f.compression raw).getD raw)
      let bytes := f.encode comp
      some ({ s with blobs := s.blobs.insert i bytes }, "file " ++ hex bytes)
    | _, _ => none
  | _ => none

/-! write(2) outcome scripts (C20) -/
def parseWOut (t : String) : Option WOut :=
  if t == "f" then some .full else if t == "e" then some .eintr else if t == "z" then some .zero
  else if t == "x" then some .error
  else if t.startsWith "p" then (t.drop 1).toString.toNat?.map WOut.short else none

/-- the buffers the writer passes to _write_all, recovered from the bytes of a finished file (compression none):
    three per frame (length varint, checksum, stored bytes) for every data block and the index, then the trailer -/
partial def fileBuffers (file : Bytes) : List Bytes :=
  if file.length < 512 then [file] else
  let body := file.take (file.length - 512)
  let rec go (d : Bytes) (acc : List Bytes) : List Bytes :=
    if d.isEmpty then acc else
    let r := vdecode64 d
    if r.2 == 0 then acc ++ [d] else
    let payload := (d.drop (r.2 + 4)).take r.1
    go (d.drop (r.2 + 4 + r.1)) (acc ++ [d.take r.2, (d.drop r.2).take 4, payload])
  go body [] ++ [file.drop (file.length - 512)]

def stepWa (s : St) (line : String) : Option (St × String) :=
  match line.trimAscii.toString.splitOn " " with
  | "wa.file" :: args =>
    let kvs := args.filter (·.contains '=')
    match parsePairs (args.filter fun a => !a.contains '=') with
    | none => none
    | some es =>
      let cfg : WCfg := { compression := 0, blockSize := kvNat kvs "bs" 64, interval := kvNat kvs "ri" 2, minBlockSize := kvNat kvs "minbs" 16 }
      let off := kvNat kvs "off" 0
      let bytes := Writer.run cfg off es
      let sc := (kv kvs "script").getD "-"
      match (if sc == "-" then some [] else (sc.splitOn ",").mapM parseWOut) with
      | none => none
      | some script =>
        let r := writeMany (fileBuffers bytes) script {}
        let calls := ",".intercalate (r.calls.map fun c => toString c.2)
        some (s, (if r.ok then "ok" else "abort") ++ " file=" ++ hex (List.replicate off 0xEE ++ r.accepted) ++ " calls=" ++ calls)
  | _ => none

/-! corrupted files: the verify tool and a verifying reader (C12) -/
partial def drainReader (fix : Bool) (it : RIter) (n : Nat) (last : Option Bytes) : Nat × Option Bytes × String :=
  match rNext fix it with
  | none => (n, last, "abort")
  | some (none, _) => (n, last, "eof")
  | some (some e, it') => drainReader fix it' (n + 1) (some e.key)

/-- the outcomes of successive `next` calls up to and including the first failure (`none` = the reader aborted) -/
def drainEntries (fix : Bool) (it : RIter) : Nat → List (Option Entry) → Option (List (Option Entry))
  | 0, acc => some (acc.reverse ++ [none])
  | fuel + 1, acc =>
    match rNext fix it with
    | none => none
    | some (none, _) => some (acc.reverse ++ [none])
    | some (some e, it') => drainEntries fix it' fuel (some e :: acc)

def fnv1a64 (bs : List UInt8) : UInt64 :=
  bs.foldl (fun h b => (h ^^^ b.toUInt64) * 0x100000001b3) 0xcbf29ce484222325

def dumpReply (lines : List String) : String :=
  let bytes := (String.join (lines.map (· ++ "\n"))).toUTF8.toList
  "dump exit=0 n=" ++ toString lines.length ++ " out=" ++
    (if bytes.length ≤ 3000 then hex bytes else "#" ++ toString (fnv1a64 bytes).toNat)

def stepVerify (s : St) (line : String) : Option (St × String) :=
  match line.trimAscii.toString.splitOn " " with
  | "tool.dump" :: bid :: args =>
    match bid.toNat?.bind (s.blobs[·]?) with
    | some file =>
      let o : Tools.DumpOpts := { silent := kvNat args "s" 0 == 1, hex := kvNat args "x" 0 == 1,
                                  kpre := (kv args "k").bind unhex, vpre := (kv args "v").bind unhex,
                                  kmin := kvNat args "K" 0, vmin := kvNat args "V" 0 }
      match readerOpen s.fixF9 4294967295 (decompOf s.ctab) false file with
      | .ok r =>
        match readerIterInit s.fixF1 r none .iter with
        | some none => some (s, dumpReply [])
        | some (some it) =>
          match drainEntries s.fixF1 it file.length [] with
          | some outs => some (s, dumpReply (Tools.dumpOfRun o outs))
          | none => some (s, "dump abort")
        | none => some (s, "dump abort")
      | .null => some (s, "dump exit=1 n=0 out=-")
      | _ => some (s, "dump abort")
    | none => none
  | ["tool.info", bid] =>
    match bid.toNat?.bind (s.blobs[·]?) with
    | some file =>
      match readerOpen s.fixF9 4294967295 (decompOf s.ctab) false file with
      | .ok r =>
        let names := ["size", "ibo", "ib", "db", "bs", "dbc", "ec", "kb", "vb"]
        let vals := (Tools.infoLines file.length r.m).map (·.2)
        some (s, "info exit=0 " ++ " ".intercalate ((names.zip vals).map fun (n, v) => n ++ "=" ++ toString v) ++
                 " algo=" ++ Tools.infoAlgo r.m)
      | .null => some (s, "info exit=1 size=? ibo=? ib=? db=? bs=? dbc=? ec=? kb=? vb=? algo=?")
      | _ => some (s, "info abort")
    | none => none
  | ["tool.verify", bid] =>
    match bid.toNat?.bind (s.blobs[·]?) with
    | some file =>
      match verifyTool 4294967295 (decompOf s.ctab) file with
      | .ok => some (s, "verify OK exit=0")
      | .failed => some (s, "verify FAILED exit=1")   -- (an open that returns NULL prints no verdict line: canonicalised by the orchestrator)
      | .abort => some (s, "verify none abort")
      | .oob => some (s, "verify none oob")
    | none => none
  | "rv.read" :: bid :: args =>
    match bid.toNat?.bind (s.blobs[·]?) with
    | some file =>
      match readerOpen s.fixF9 4294967295 (decompOf s.ctab) (kvNat args "verify" 1 == 1) file with
      | .null => some (s, "read 0 - null")
      | .abort _ => some (s, "read 0 - abort")
      | .oob _ => some (s, "read 0 - oob")
      | .ok r =>
        -- an earlier lookup on the same reader: the reader is immutable, so it matters only if it stops the process
        let firstAborts : Bool := match (kv args "first").bind unhex with
          | none => false
          | some k0 => match readerIterInit s.fixF1 r (some k0) (.get k0) with
            | none => true
            | some none => false
            | some (some it0) => (drainReader s.fixF1 it0 0 none).2.2 == "abort"
        if firstAborts then some (s, "read 0 - abort") else
        let gk := (kv args "get").bind unhex
        let init := match gk with
          | some k => readerIterInit s.fixF1 r (some k) (.get k)
          | none => readerIterInit s.fixF1 r none .iter
        match init with
        | none => some (s, "read 0 - abort")
        | some none => some (s, "read 0 - eof")
        | some (some it) =>
          -- optional: first position the iterator in another block (warm=<key>: seek + one next), then seek=<key>; only
          -- the entries returned after that last seek are counted
          let warmed : Option RIter := match (kv args "warm").bind unhex with
            | none => some it
            | some wk => match rSeek it wk with
              | none => none
              | some it1 => match rNext s.fixF1 it1 with
                | none => none
                | some (_, it2) => some it2
          match warmed with
          | none => some (s, "read 0 - abort")
          | some it =>
          let sought : Option RIter := match (kv args "seek").bind unhex with
            | none => some it
            | some sk => rSeek it sk
          match sought with
          | none => some (s, "read 0 - abort")
          | some it =>
          let (n, last, how) := drainReader s.fixF1 it 0 none
          some (s, "read " ++ toString n ++ " " ++ (match last with | some k => hex k | none => "-") ++ " " ++ how)
    | none => none
  | _ => none

def stepMore (s : St) (line : String) : St × String :=
  match line.trimAscii.toString.splitOn " " with
  | "r.it" :: rid :: iid :: kargs =>
    match rid.toNat?, iid.toNat?, parseKind kargs with
    | some r, some i, some (kind, seekTo) => match s.readers[r]? with
      | some rd =>
        match readerIterInit s.fixF1 rd seekTo kind with
        | none => ({ s with dead := true }, "abort")
        | some none => ({ s with riters := s.riters.insert i none }, "null")
        | some (some it) => ({ s with riters := s.riters.insert i (some it) }, "ok")
      | none => (s, "bad-op")
    | _, _, _ => (s, "bad-op")
  | ["r.next", iid] =>
    match iid.toNat? with
    | some i => match s.riters[i]? with
      | some none => (s, "fail")
      | some (some it) =>
        match rNext s.fixF1 it with
        | none => ({ s with dead := true }, "abort")
        | some (none, it') => ({ s with riters := s.riters.insert i (some it') }, "fail")
        | some (some e, it') => ({ s with riters := s.riters.insert i (some it') }, "ent " ++ hex e.key ++ " " ++ hex e.val)
      | none => (s, "bad-op")
    | none => (s, "bad-op")
  | ["r.seek", iid, k] =>
    match iid.toNat?, unhex k with
    | some i, some k => match s.riters[i]? with
      | some none => (s, "fail")
      | some (some it) =>
        match rSeek it k with
        | none => ({ s with dead := true }, "abort")
        | some it' => ({ s with riters := s.riters.insert i (some it') }, "ok")
      | none => (s, "bad-op")
    | _, _ => (s, "bad-op")
  | "open.probe" :: h :: args =>
    match unhex h with
    | some file =>
      match readerOpen s.fixF9 4294967295 (decompOf s.ctab) (kvNat args "verify" 0 == 1) file with
      | .null => (s, "null")
      | .abort _ => (s, "abort")
      | .oob _ => (s, "oob")
      | .ok _ => (s, "ok")
    | none => (s, "bad-op")
  | "excl.probe" :: args =>
    let kind := (kv args "kind").getD "none"
    match unhex ((kv args "content").getD "-") with
    | some content =>
      let node? : Option FsNode := if kind == "regular" then some (.regular content) else if kind == "dangling" then some .danglingSymlink
        else if kind == "symlink" then some (.symlinkTo content)
        else if kind == "devnull" || kind == "fifo" || kind == "dir" then some .special else none
      let w : FsWorld := { nodes := match node? with | some n => [("p", n)] | none => [] }
      let r := writerInitPath w "p"
      if r.1 then (s, "ok")
      else match r.2.lookup "p" with
        | some (.regular c) => (s, "null " ++ hex c)
        | some .danglingSymlink => (s, "null dangling")
        | some (.symlinkTo c) => (s, "null " ++ hex c)
        | some .special => (s, "null special")
        | none => (s, "null")
    | none => (s, "bad-op")
  | ["r.close", iid] =>
    match iid.toNat? with
    | some i => ({ s with riters := s.riters.erase i }, "ok")
    | none => (s, "bad-op")
  | ["reset"] => ({ fixF1 := s.fixF1, fixF9 := s.fixF9, fixF2 := s.fixF2, fixF8 := s.fixF8, fixF3 := s.fixF3,
                    fixF4 := s.fixF4, fixF5 := s.fixF5 }, "ok")
  | _ => match stepCodec line with
    | some r => (s, r)
    | none => match stepMerger s line with
      | some r => r
      | none => match stepSorter s line with
        | some r => r
        | none => match stepFs s line with
          | some r => r
          | none => match stepEnc s line with
            | some r => r
            | none => match stepWa s line with
              | some r => r
              | none => match stepVerify s line with
                | some r => r
                | none => (s, "bad-op")


/-! ### C15: the wrapper model run over the library behaviour the real wrappers observed ("#lib" facts).
    A query the real code never made is a MISS and yields a sentinel, which surfaces in the reply. -/
def missBytes : Bytes := [0x4d, 0x49, 0x53, 0x53]          -- "MISS"
def algoDec (a : Cz.Algo) : Nat := (Cz.decoder a).toNat
def tableLib (s : St) : Cz.Lib where
  zstdMin := s.libZrange.1
  zstdMax := s.libZrange.2
  bound a n := ((s.libBounds.find? fun (a', n', _) => a' == (if a == .lz4hc then 3 else a.toNat) && n' == n).map (·.2.2)).getD 57005
  deflateBound lvl n := ((s.libDBounds.find? fun (l', n', _) => l' == lvl && n' == n).map (·.2.2)).getD 57005
  comp a lvl cap inp :=
    match s.libComps.find? fun (a', l', c', i', _) => a' == a.toNat && l' == lvl && c' == cap && i' == inp with
    | some (_, _, _, _, r) => r
    | none => some missBytes
  decomp a room src :=
    match s.libDecomps.find? fun (a', r', i', _) => a' == algoDec a && r' == room && i' == src with
    | some (_, _, _, r) => r
    | none => .ok missBytes
  zstdContentSize src := ((s.libZcs.find? fun (i', _) => i' == src).map (·.2)).getD (some 57005)
  snappyLen src := ((s.libSnlen.find? fun (i', _) => i' == src).map (·.2)).getD (some 57005)

def cresStr : Cz.CRes → String
  | .ok o => "ok " ++ hex o
  | .fail => "fail"
  | .abort => "abort"
  | .wrap => "wrap"

def optNat : List String → Option (Option Nat)
  | ["none"] => some none
  | ["some", n] => n.toNat?.map some
  | _ => none

def stepCz (s : St) (line : String) : Option (St × String) :=
  match line.trimAscii.toString.splitOn " " with
  | ["lib", "zrange", a, b] => match a.toInt?, b.toInt? with
    | some a, some b => some ({ s with libZrange := (a, b) }, "ok")
    | _, _ => none
  | ["lib", "bound", a, n, v] => match a.toNat?, n.toNat?, v.toNat? with
    | some a, some n, some v => some ({ s with libBounds := (a, n, v) :: s.libBounds }, "ok")
    | _, _, _ => none
  | ["lib", "dbound", l, n, v] => match l.toInt?, n.toNat?, v.toNat? with
    | some l, some n, some v => some ({ s with libDBounds := (l, n, v) :: s.libDBounds }, "ok")
    | _, _, _ => none
  | "lib" :: "comp" :: a :: l :: c :: i :: rest =>
    match a.toNat?, l.toInt?, c.toNat?, unhex i with
    | some a, some l, some c, some i =>
      match rest with
      | ["none"] => some ({ s with libComps := (a, l, c, i, none) :: s.libComps }, "ok")
      | ["some", o] => (unhex o).map fun o => ({ s with libComps := (a, l, c, i, some o) :: s.libComps }, "ok")
      | _ => none
    | _, _, _, _ => none
  | "lib" :: "decomp" :: a :: r :: i :: rest =>
    match a.toNat?, r.toNat?, unhex i with
    | some a, some r, some i =>
      match rest with
      | ["small"] => some ({ s with libDecomps := (a, r, i, .tooSmall) :: s.libDecomps }, "ok")
      | ["error"] => some ({ s with libDecomps := (a, r, i, .error) :: s.libDecomps }, "ok")
      | ["ok", o] => (unhex o).map fun o => ({ s with libDecomps := (a, r, i, .ok o) :: s.libDecomps }, "ok")
      | _ => none
    | _, _, _ => none
  | "lib" :: "zcs" :: i :: rest => match unhex i, optNat rest with
    | some i, some v => some ({ s with libZcs := (i, v) :: s.libZcs }, "ok")
    | _, _ => none
  | "lib" :: "snlen" :: i :: rest => match unhex i, optNat rest with
    | some i, some v => some ({ s with libSnlen := (i, v) :: s.libSnlen }, "ok")
    | _, _ => none
  | ["cz.c", a, lvl, i] =>
    match a.toNat?, unhex i with
    | some a, some i =>
      let level : Option (Option Int) := if lvl == "d" then some none else lvl.toInt?.map some
      level.map fun level => (s, cresStr (Cz.compressT s.fixF4 (tableLib s) a level i))
    | _, _ => none
  | ["cz.d", a, i] =>
    match a.toNat?, unhex i with
    | some a, some i => some (s, cresStr (Cz.decompressT s.fixF5 (tableLib s) a i))
    | _, _ => none
  | ["cz.name", n] => some (s, match Cz.typeFromStr n with | some t => "type " ++ toString t | none => "fail")
  | ["cz.tostr", t] => t.toNat?.map fun t => (s, match Cz.typeToStr t with | some n => "name " ++ n | none => "null")
  | _ => none

def stepMain (s : St) (line : String) : St × String :=
  match line.trimAscii.toString.splitOn " " with
  | ["cfg", "fixF1", v] => ({ s with fixF1 := v == "1" }, "ok")
  | ["cfg", "fixF9", v] => ({ s with fixF9 := v == "1" }, "ok")
  | ["cfg", "fixF2", v] => ({ s with fixF2 := v == "1" }, "ok")
  | ["cfg", "fixF8", v] => ({ s with fixF8 := v == "1" }, "ok")
  | ["cfg", "fixF3", v] => ({ s with fixF3 := v == "1" }, "ok")
  | ["cfg", "fixF4", v] => ({ s with fixF4 := v == "1" }, "ok")
  | ["cfg", "fixF5", v] => ({ s with fixF5 := v == "1" }, "ok")
  | ["blob", id, h] =>
    match id.toNat?, unhex h with
    | some i, some b => ({ s with blobs := s.blobs.insert i b }, "ok")
    | _, _ => (s, "bad-op")
  | ["ctab", algo, raw, stored] =>
    match algo.toNat?, unhex raw, unhex stored with
    | some a, some r, some st => ({ s with ctab := (a, r, st) :: s.ctab }, "ok")
    | _, _, _ => (s, "bad-op")
  | "w.new" :: id :: args =>
    match id.toNat? with
    | some i =>
      let algo := kvNat args "comp" 0
      let cfg : WCfg := { compression := algo, blockSize := kvNat args "bs" 8192,
                          interval := kvNat args "ri" 16, minBlockSize := kvNat args "minbs" 1024,
                          thr := kvNat args "thr" 4294967295, comp := some }
      match unhex ((kv args "pre").getD "-") with
      | some pre => ({ s with writers := s.writers.insert i (W.new cfg pre.length, pre) }, "ok")
      | none => (s, "bad-op")
    | none => (s, "bad-op")
  | ["w.add", id, k, v] =>
    match id.toNat?, unhex k, unhex v with
    | some i, some k, some v =>
      match s.writers[i]? with
      | some (w, pre) =>
        let (r, w') := w.add k v
        let s := { s with wadds := s.wadds.insert i ({ key := k, val := v } :: (s.wadds[i]?).getD []) }
        if w'.aborted then ({ s with writers := s.writers.insert i (w', pre) }, "abort")
        else ({ s with writers := s.writers.insert i (w', pre) }, if r == .success then "ok" else "fail")
      | none => (s, "bad-op")
    | _, _, _ => (s, "bad-op")
  | ["w.fin", id] =>
    match id.toNat? with
    | some i => match s.writers[i]? with
      | some (w0, pre) =>
        -- replay with the compression oracle table observed from the library
        let ctab := s.ctab
        let cfg := { w0.cfg with comp := compOf ctab w0.cfg.compression }
        let w := ((W.new cfg pre.length).addAll ((s.wadds[i]?).getD []).reverse).2
        if (w.flush).aborted then (s, "abort")
        else ({ s with writers := s.writers.insert i (w, pre) }, "file " ++ hex w.finish)
      | none => (s, "bad-op")
    | none => (s, "bad-op")
  | ["w.prefix", id] =>
    match id.toNat? with
    | some i => match s.writers[i]? with
      | some (_, pre) => (s, "pre " ++ hex pre)
      | none => (s, "bad-op")
    | none => (s, "bad-op")
  | opn :: id :: bid :: args =>
    if opn != "r.openw" && opn != "r.openb" then stepMore s line else
    match id.toNat?, bid.toNat? with
    | some i, some b =>
      let file? := if opn == "r.openb" then s.blobs[b]? else (s.writers[b]?).map fun (w, pre) => pre ++ w.finish
      match file? with
      | some file =>
        let ctab := s.ctab
        match readerOpen s.fixF9 (kvNat args "thr" 4294967295) (decompOf ctab) (kvNat args "verify" 0 == 1) file with
        | .null => (s, "null")
        | .abort _ => (s, "abort")
        | .oob _ => (s, "oob")
        | .ok r => ({ s with readers := s.readers.insert i r }, "ok " ++ metaStr r.m)
      | none => (s, "bad-op")
    | _, _ => (s, "bad-op")
  | _ => stepMore s line

/-! ### C13/C14: the threadpool machine replayed turn by turn against the real threadpool.c under the deterministic
    scheduler (harness/tp_drv.c).  One TURN of a thread in the harness is one machine step, followed by the steps the
    real thread takes without reaching a scheduling point: the unlocked part of the worker loop (`gotJob`), the result
    callback (`callback`), the bookkeeping-only caller step when all jobs are dispatched, and the re-entry of the
    `threadpool_destroy` loop after a join (the pool mutex is still held there). -/
namespace TpDrv
open Tp

def silent (s : Tp.St) : Who → Bool
  | .caller => s.cpc == .next false && s.nextJob ≥ s.njobs
  | .handler => match s.hpc with | .callback _ => true | _ => false
  | .worker t => ((s.thr[t]?).map (·.pc)) == some WPc.gotJob

def settle (s : Tp.St) (w : Who) : Nat → Tp.St
  | 0 => s
  | fuel + 1 => if silent s w then (match step s (.run w) with | some s' => settle s' w fuel | none => s) else s

def turn (s : Tp.St) (w : Who) : Option Tp.St :=
  match step s (.run w) with
  | none => none
  | some s' =>
    let afterJoin := match s.cpc, w with | .joinW _, .caller => true | _, _ => false
    let s' := if afterJoin then (step s' (.run .caller)).getD s' else s'
    some (settle s' w 4)

def whoName : Who → _root_.String
  | .caller => "c" | .handler => "h" | .worker t => "w" ++ toString t
def parseWho (x : _root_.String) : Option Who :=
  if x == "c" then some .caller else if x == "h" then some .handler
  else if x.startsWith "w" then (x.drop 1).toString.toNat?.map Who.worker else none
def allWho (s : Tp.St) : List Who := .caller :: .handler :: (List.range s.thr.size).map Who.worker
def sleeping (s : Tp.St) : Who → Bool
  | .caller => s.cpc == .next true || s.cpc == .destroy true
  | .handler => match s.hpc with | .deq true => true | .waitRes _ true => true | _ => false
  | .worker t => ((s.thr[t]?).map (·.pc)) == some (WPc.top true)
def optJob : Option Nat → _root_.String | some j => toString j | none => "-1"
def csv (l : List _root_.String) : _root_.String := ",".intercalate l
def render (s : Tp.St) : _root_.String :=
  if s.cpc == .done then "st done del=[" ++ csv (s.delivered.map optJob) ++ "]" else
  "st count=" ++ toString s.count ++ " idle=[" ++ csv (s.idle.map toString) ++ "] q=[" ++ csv (s.queue.map toString) ++
  "] nth=" ++ toString s.nthreads ++ " fin=" ++ (if s.finished then "1" else "0") ++
  " del=[" ++ csv (s.delivered.map optJob) ++ "] thr=[" ++
  ";".intercalate (s.thr.toList.map fun th =>
    if th.pc == .exited then "x" else
    (if th.running then "1" else "0") ++ "/" ++ optJob th.cb ++ "/" ++ optJob th.res ++ "/" ++ (if th.rq then "1" else "0")) ++
  "] en=[" ++ csv (((allWho s).filter fun w => (step s (.run w)).isSome).map whoName) ++
  "] sl=[" ++ csv (((allWho s).filter (sleeping s)).map whoName) ++ "]"

/-- delay-bounded systematic schedules of the machine (Emmi–Qadeer–Rakamarić): the base scheduler keeps running the current
    thread while it is enabled and otherwise moves to the next enabled thread in the cyclic order caller, handler, workers;
    a DELAY skips the thread that would run now.  All schedules with at most `delays` delays, as lists of thread names. -/
partial def enumSched (s : Tp.St) (cur : Nat) (delays : Nat) (acc : List _root_.String) (fuel : Nat) (limit : Nat)
    (out : Array (List _root_.String)) : Array (List _root_.String) :=
  if out.size ≥ limit then out else
  let ws := allWho s
  let n := ws.length
  -- enabled threads in cyclic order starting at `cur`
  let order := (List.range n).map fun i => (cur + i) % n
  let en := order.filter fun i => (turn s ws[i]!).isSome
  match fuel, en with
  | 0, _ => out.push acc.reverse
  | _, [] => out.push acc.reverse
  | fuel + 1, en =>
    -- choice k (k-th enabled thread in the order) costs k delays
    (List.range (min en.length (delays + 1))).foldl (fun out k =>
      let i := en[k]!
      match turn s ws[i]! with
      | some s' => enumSched s' i (delays - k) (whoName ws[i]! :: acc) fuel limit out
      | none => out) out

end TpDrv


/-! ### the k-client machine (MtblModel/TpK.lean) replayed turn by turn against tp.multi of harness/tp_drv.c -/
namespace TpKDrv
open TpK

def silent (s : TpK.St) : Who → Bool
  | .owner => false
  | .client c => match s.cl[c]? with
    | some cl => cl.pc == .next false && cl.nextJob ≥ s.njobs
    | none => false
  | .handler c => match (s.cl[c]?).map (·.hpc) with | some (HPc.callback _) => true | _ => false
  | .worker t => ((s.thr[t]?).map (·.pc)) == some WPc.gotJob

def settle (s : TpK.St) (w : Who) : Nat → TpK.St
  | 0 => s
  | fuel + 1 => if silent s w then (match step s (.run w 0) with | some s' => settle s' w fuel | none => s) else s

/-- one turn of the harness: the step, then what the real thread does before its next scheduling point: the destroy loop head
    after a worker join (pool->m still held); the first critical section of a client right after it created its handler (a
    new thread's first lock attempt is not a scheduling point); the silent steps as in the one-client driver -/
def turn (s : TpK.St) (w : Who) : Option TpK.St :=
  match step s (.run w 0) with
  | none => none
  | some s' =>
    let again : Bool := match w with
      | .owner => (match s.opc with | .joinW _ => true | _ => false)
      | .client c => ((s.cl[c]?).map (·.pc)) == some CPc.mkH
      | _ => false
    let s' := if again then (let s1 := settle s' w 4; (step s1 (.run w 0)).getD s1) else s'
    some (settle s' w 4)

def whoName : Who → _root_.String
  | .owner => "o" | .client c => "c" ++ toString c | .handler c => "h" ++ toString c | .worker t => "w" ++ toString t
def allWho (s : TpK.St) : List Who :=
  .owner :: ((List.range s.cl.size).flatMap fun c => [Who.client c, Who.handler c]) ++ (List.range s.thr.size).map Who.worker
def sleeping (s : TpK.St) : Who → Bool
  | .owner => s.opc == .destroy true
  | .client c => ((s.cl[c]?).map (·.pc)) == some (CPc.next true)
  | .handler c => match (s.cl[c]?).map (·.hpc) with
    | some (HPc.deq true) => true | some (HPc.waitRes _ true) => true | _ => false
  | .worker t => ((s.thr[t]?).map (·.pc)) == some (WPc.top true)
def optJob : Option Nat → _root_.String | some j => toString j | none => "-1"
def csv (l : List _root_.String) : _root_.String := ",".intercalate l
def render (s : TpK.St) : _root_.String :=
  if s.opc == .done then
    "mst done" ++ _root_.String.join ((List.range s.cl.size).map fun c =>
      " del" ++ toString c ++ "=[" ++ csv ((s.cl[c]!).delivered.map optJob) ++ "]") else
  "mst run count=" ++ toString s.count ++ " idle=[" ++ csv (s.idle.map toString) ++ "] thr=[" ++
  ";".intercalate (s.thr.toList.map fun th =>
    if th.pc == .exited then "x" else
    (if th.running then "1" else "0") ++ "/" ++ optJob th.cb ++ "/" ++ optJob th.res ++ "/" ++ optJob th.rq) ++ "]" ++
  _root_.String.join ((List.range s.cl.size).map fun c =>
    let cl := s.cl[c]!
    " q" ++ toString c ++ "=[" ++ csv (cl.queue.map toString) ++ "] nth=" ++ toString cl.nthreads ++ " fin=" ++
      (if cl.finished then "1" else "0") ++ " del" ++ toString c ++ "=[" ++ csv (cl.delivered.map optJob) ++ "]") ++
  " en=[" ++ csv (((allWho s).filter fun w => (step s (.run w 0)).isSome).map whoName) ++
  "] sl=[" ++ csv (((allWho s).filter (sleeping s)).map whoName) ++ "]"

end TpKDrv

def stepTp (s : St) (line : String) : Option (St × String) :=
  match line.trimAscii.toString.splitOn " " with
  | "tp.new" :: args =>
    let m := Tp.init (kvNat args "max" 1) (kvNat args "jobs" 0) (kvNat args "ord" 1 == 1)
    let m := TpDrv.settle m .caller 2
    some ({ s with tp := some m }, TpDrv.render m)
  | "tp.enum" :: args =>
    let m := TpDrv.settle (Tp.init (kvNat args "max" 1) (kvNat args "jobs" 0) (kvNat args "ord" 1 == 1)) .caller 2
    let scheds := TpDrv.enumSched m 0 (kvNat args "delays" 1) [] 400 (kvNat args "limit" 2000) #[]
    some (s, "scheds " ++ ";".intercalate (scheds.toList.map fun l => ",".intercalate l))
  | ["tp.step", x] =>
    match s.tp with
    | none => none
    | some m =>
      if x.startsWith "s:" then
        match TpDrv.parseWho (x.drop 2).toString with
        | some w => match Tp.step m (.spurious w) with
          | some m' => some ({ s with tp := some m' }, TpDrv.render m')
          | none => some (s, "dis")
        | none => some (s, "dis")
      else match TpDrv.parseWho x with
        | some w => match TpDrv.turn m w with
          | some m' => some ({ s with tp := some m' }, TpDrv.render m')
          | none => some (s, "dis")
        | none => some (s, "dis")
  | "tp.multi" :: args =>
    let m := TpK.init (kvNat args "clients" 2) (kvNat args "max" 1) (kvNat args "jobs" 0) (kvNat args "ord" 1 == 1)
    some ({ s with tpk := some m }, TpKDrv.render m)
  | ["tp.auto", r] =>
    if s.tpk.isSome then
      match s.tpk, r.toNat? with
      | some m, some r =>
        let cand := (TpKDrv.allWho m).filter fun w => (TpK.step m (.run w 0)).isSome
        let sl := (TpKDrv.allWho m).filter (TpKDrv.sleeping m)
        if sl.length > 0 && (r >>> 16) % 8 == 0 then
          let w := sl[(r >>> 8) % sl.length]!
          match TpK.step m (.spurious w) with
          | some m' => some ({ s with tpk := some m' }, "pick s:" ++ TpKDrv.whoName w ++ " " ++ TpKDrv.render m')
          | none => some (s, "pick s:" ++ TpKDrv.whoName w ++ " dis")
        else if cand.length == 0 then some (s, "pick none " ++ TpKDrv.render m)
        else
          let w := cand[r % cand.length]!
          match TpKDrv.turn m w with
          | some m' => some ({ s with tpk := some m' }, "pick " ++ TpKDrv.whoName w ++ " " ++ TpKDrv.render m')
          | none => some (s, "pick " ++ TpKDrv.whoName w ++ " dis")
      | _, _ => none
    else
    match s.tp, r.toNat? with
    | some m, some r =>
      let cand := (TpDrv.allWho m).filter fun w => (Tp.step m (.run w)).isSome
      let sl := (TpDrv.allWho m).filter (TpDrv.sleeping m)
      if sl.length > 0 && (r >>> 16) % 8 == 0 then
        let w := sl[(r >>> 8) % sl.length]!
        match Tp.step m (.spurious w) with
        | some m' => some ({ s with tp := some m' }, "pick s:" ++ TpDrv.whoName w ++ " " ++ TpDrv.render m')
        | none => some (s, "pick s:" ++ TpDrv.whoName w ++ " dis")
      else if cand.length == 0 then some (s, "pick none " ++ TpDrv.render m)
      else
        let w := cand[r % cand.length]!
        match TpDrv.turn m w with
        | some m' => some ({ s with tp := some m' }, "pick " ++ TpDrv.whoName w ++ " " ++ TpDrv.render m')
        | none => some (s, "pick " ++ TpDrv.whoName w ++ " dis")
    | _, _ => none
  | _ => none

/-! ### C18: API life-cycle histories against the resource ledger machine (MtblModel/Res.lean) -/
def ledgerStr (l : Res.Ledger) (withHeap : Bool) (warm : Bool) : String :=
  let sg (x : Int) : String := if x ≥ 0 then "+" ++ toString x else toString x
  "fds=" ++ sg l.fds ++ " maps=" ++ sg l.maps ++ " tmp=" ++ toString l.tmp ++
    (if withHeap then (if warm || l.heap == 0 then " heap=+0" else " heap=LEAK") else "")

def parseIds (x : String) : List Nat := if x == "-" then [] else (x.splitOn ",").filterMap (·.toNat?)

def stepRes (s : St) (line : String) : Option (St × String) :=
  let upd (s : St) (op : Res.Op) (reply : String) : Option (St × String) := some ({ s with res := Res.step s.res op }, reply)
  match line.trimAscii.toString.splitOn " " with
  | ["res.begin"] => some ({ s with res := { fixF6 := s.res.fixF6, fixF10 := s.res.fixF10 }, resLast := {}, resSMin := {}, resKpad := 0 }, "ok")
  | ["res.kpad", n] => n.toNat?.map fun n => ({ s with resKpad := if n > 2068 then 0 else n }, "ok")
  | ["cfg", "fixF6", v] => some ({ s with res := { s.res with fixF6 := v == "1" } }, "ok")
  | ["cfg", "fixF10", v] => some ({ s with res := { s.res with fixF10 := v == "1" } }, "ok")
  | "res.table" :: t :: n :: _ :: _ :: _ => match t.toNat?, n.toNat? with   -- optional: codec, value length (content only)
    | some t, some n => upd s (.table t n) "ok"
    | _, _ => none
  | ["res.bad", t] => t.toNat?.bind fun t => upd s (.bad t) "ok"
  | ["res.bad", t, _] => t.toNat?.bind fun t => upd s (.bad t) "ok"      -- a directory: does not open as a table either
  | ["res.setfile", sid, ts] => sid.toNat?.bind fun sid => upd s (.setfile sid (parseIds ts)) "ok"
  | ["res.pool", i, _] => i.toNat?.bind fun i => upd s (.pool i) "ok"
  | ["res.writer", i, _] => i.toNat?.bind fun i => upd { s with resLast := s.resLast.erase i } (.writer i false) "ok"
  | ["res.wadd", i, k, _] => match i.toNat?, k.toNat? with
    | some i, some k =>
      match Res.getObj s.res i with
      | .writer =>
        let okAdd := match s.resLast[i]? with | some l => decide (l < k) | none => true
        if okAdd then some ({ s with resLast := s.resLast.insert i k }, "ok") else some (s, "fail")
      | _ => none
    | _, _ => none
  | ["res.reader", i, t] => match i.toNat?, t.toNat? with
    | some i, some t => upd s (.reader i t) (if Res.fileKind s.res t == some .table then "ok" else "null")
    | _, _ => none
  | ["res.merger", i, _, srcs] => i.toNat?.bind fun i => upd s (.merger i (parseIds srcs)) "ok"
  | "res.sorter" :: i :: args => i.toNat?.bind fun i =>
      let mem := kvNat args "mem" 1000
      let mg := (kv args "merge").getD "cat"
      let fk : Option Nat := if mg.startsWith "fail" then (mg.drop 4).toString.toNat? else none
      -- a pool object with zero threads leaves the sorter's inner pool NULL: chunks are then written synchronously
      let pooled := (kv args "pool").getD "-" != "-" && kvNat args "pth" 1 != 0
      upd { s with resSMin := s.resSMin.erase i } (.sorter i { limit := if mem < 64 then 64 else mem, eo := kvNat args "eo" 8, klen := 6 + s.resKpad, failKey := fk, pooled }) "ok"
  | ["res.sadd", i, k, vl] => match i.toNat?, k.toNat?, vl.toNat? with
    | some i, some k, some vl =>
      match Res.getObj s.res i with
      | .sorter ss =>
        let okAdd := (Res.sorterAdd s.res.fixF6 s.res.fixF10 ss k vl).1
        let mn := match s.resSMin[i]? with | some m => min m k | none => k
        upd (if okAdd then { s with resSMin := s.resSMin.insert i mn } else s) (.sadd i k vl) (if okAdd then "ok" else "fail")
      | _ => none
    | _, _, _ => none
  | ["res.siter", i, sid] => match i.toNat?, sid.toNat? with
    | some i, some sid =>
      match Res.getObj s.res sid with
      | .sorter ss => upd s (.siter i sid) (if (Res.sorterIter s.res.fixF6 s.res.fixF10 ss).1 then "ok" else "null")
      | _ => none
    | _, _ => none
  | ["res.swrite", sid, w] => match sid.toNat?, w.toNat? with
    | some sid, some w =>
      match Res.getObj s.res sid with
      | .sorter ss =>
        if ss.iterating then some (s, "fail") else
        let okk := (Res.sorterIter s.res.fixF6 s.res.fixF10 ss).1
        -- the sorter offers its entries in ascending order; a writer that already holds a key >= the smallest one refuses the
        -- first add and mtbl_sorter_write stops there
        let refused := match s.resLast[w]?, s.resSMin[sid]? with | some l, some m => decide (m ≤ l) | _, _ => false
        upd (if refused then s else { s with resLast := s.resLast.insert w 99999 }) (.swrite sid)
          (if okk && !refused then "ok" else "fail")
      | _ => none
    | _, _ => none
  | ["res.fileset", i, sid] => match i.toNat?, sid.toNat? with
    | some i, some sid => upd s (.fileset i sid) "ok"
    | _, _ => none
  | ["res.fsdup", i, o] => match i.toNat?, o.toNat? with
    | some i, some o => upd s (.fsdup i o) "ok"
    | _, _ => none
  | ["res.fsreload", i] => i.toNat?.bind fun i => upd s (.fsreload i) "ok"
  | "res.iter" :: i :: src :: _ => match i.toNat?, src.toNat? with
    | some i, some src => upd s (.iter i src) "ok"
    | _, _ => none
  | ["res.next", i, _] => i.toNat?.bind fun i => upd s (.use i) "ok"
  | ["res.seek", i, _] => i.toNat?.bind fun i => upd s (.use i) "ok"
  | ["res.destroy", i] => i.toNat?.bind fun i => upd s (.destroy i) "ok"
  | ["res.count"] => some (s, ledgerStr s.res.ledger false false)
  | ["res.end"] => some (s, ledgerStr s.res.ledger true false)
  | ["res.end", "warm"] => some (s, ledgerStr s.res.ledger true true)
  | _ => none

def step (s : St) (line : String) : St × String :=
  match stepCz s line with
  | some r => r
  | none => match stepTp s line with
    | some r => r
    | none => match stepRes s line with
      | some r => r
      | none => stepMain s line

partial def loop (h : IO.FS.Stream) (out : IO.FS.Stream) (s : St) : IO Unit := do
  let line ← h.getLine
  if line.isEmpty then return ()
  let (s', reply) := step s line
  out.putStrLn reply
  out.flush
  loop h out s'

end Drv

def main : IO Unit := do
  let stdin ← IO.getStdin
  let stdout ← IO.getStdout
  Drv.loop stdin stdout {}
