import MtblProofs.OpenProofs
/-
  C19 — Opening arbitrary bytes as a table never reads outside the file.
  `readerOpen true …` is the model of the repaired mtbl_reader_init_fd; every load it performs is
  bounds-checked by the model and a load outside the file is the outcome `.oob`.
-/
namespace Mtbl.C19

/-- for EVERY byte string, with and without checksum verification: never a read outside the file -/
theorem C19_safe (thr : Nat) (decomp : Nat → Bytes → Option Bytes) (verify : Bool) (file : Bytes) :
    ∀ off, readerOpen true thr decomp verify file ≠ .oob off := Mtbl.C19_safe thr decomp verify file

/-- the only outcomes: NULL, an assertion stop, or a reader -/
theorem C19_outcomes (thr : Nat) (decomp : Nat → Bytes → Option Bytes) (verify : Bool) (file : Bytes) :
    readerOpen true thr decomp verify file = .null ∨
    (∃ w, readerOpen true thr decomp verify file = .abort w) ∨
    (∃ r, readerOpen true thr decomp verify file = .ok r) := Mtbl.C19_outcomes thr decomp verify file

/-- a successful open hands the iterators an index block that lies inside the file, before the trailer -/
theorem C19_index_inside (thr : Nat) (decomp : Nat → Bytes → Option Bytes) (verify : Bool)
    (file : Bytes) (r : Rd) (h : readerOpen true thr decomp verify file = .ok r) :
    r.data = file ∧
    (r.index.size = 0 ∨
      ∃ off, off + r.index.data.length ≤ file.length - METADATA_SIZE ∧
        r.index.data = (file.drop off).take r.index.data.length) := Mtbl.C19_ok_index_inside thr decomp verify file r h

/-- finding F9: the pinned code (no bound on the index length) does read outside this 529-byte file … -/
theorem F9_witness : ∃ off, readerOpen false 4294967295 (fun _ _ => none) false f9File = .oob off := Mtbl.F9_witness
/-- … and the repaired code refuses it -/
theorem F9_fixed : readerOpen true 4294967295 (fun _ _ => none) false f9File = .null := Mtbl.F9_fixed

end Mtbl.C19
