import MtblProofs.SorterProofs
import MtblProofs.SorterWriteProofs
import MtblProps.C01
/-
  C06 — Sorter: for every multiset of entries added in any order, with any memory limit (hence any split
  into chunks), the iterator yields each distinct key once, in ascending order, with the value obtained by
  folding the merge function over exactly the values added for that key; a spill happens no later than when
  the buffered entries reach the memory limit; spill files are created only inside the configured temporary
  directory; once iteration has begun further add calls are refused.

  Property theorems only (helper lemmas live in MtblProofs/SorterProofs.lean).  Model: MtblModel/Sorter.lean.
  Assumption about `qsort`: `c.sortFn` returns SOME key-sorted permutation of its input (not necessarily
  stable); `insertionSort_spec` shows the assumption is satisfiable.  A chunk is its entry list (the
  temporary-table round trip is the identity by C01).
-/
namespace Mtbl.C06
open Mtbl.SorterProofs

/-- `_mtbl_sorter_write_chunk` on a key-sorted batch with a merge function whose calls all succeed: the chunk
    has strictly ascending keys, exactly the keys of the batch, and each value is the LEFT fold of the merge
    function over the batch's values for that key in (sorted-)list order -/
theorem C06_foldChunk (f : Bytes → Bytes → Bytes → Option Bytes) (hok : ∀ k a b, f k a b ≠ none)
    (l : List Entry) (hs : Sorted l) :
    ∃ out, foldChunk (some f) l = .ok out ∧ StrictSorted out ∧
      (∀ k, (∃ e ∈ out, e.key = k) ↔ (∃ e ∈ l, e.key = k)) ∧
      ∀ e ∈ out, foldl1? f e.key (valuesOf e.key l) = some e.val := foldChunk_spec f hok l hs

/-- a batch without duplicate keys is written as it is, whatever the merge option -/
theorem C06_foldChunk_nodup (m : Option (Bytes → Bytes → Bytes → Option Bytes)) (l : List Entry)
    (hs : StrictSorted l) : foldChunk m l = .ok l := foldChunk_strictSorted m l hs

/-- a batch with a duplicate key and no merge function hits `assert(s->opt.merge != NULL)` -/
theorem C06_foldChunk_noMergeFn (l : List Entry) (hs : Sorted l) (hd : ¬ StrictSorted l) :
    foldChunk none l = .noMergeFn := foldChunk_noMergeFn l hs hd

/-- spill rule: after EVERY add sequence on a fresh sorter the batch is strictly below the (effective) memory
    limit — a spill happened no later than the add that made `entry_bytes + entry_vec_bytes` reach it — and
    `entry_bytes` is exactly Σ (sizeof(struct entry) + |key| + |val|) over the buffered entries -/
theorem C06_spill (c : SCfg) (h : 0 < c.effMemory) (adds : List Entry) :
    let s := (Sorter.addAll { cfg := c } adds).2
    s.entryBytes + c.ptrSize * s.vec.length < c.effMemory ∧
    s.entryBytes = (s.vec.map fun e => c.entryOverhead + e.key.length + e.val.length).sum :=
  Mtbl.C06_spill c h adds

/-- the hypothesis `0 < effMemory` of `C06_spill` holds whenever MIN_SORTER_MEMORY > 0 (it is 10485760) -/
theorem C06_effMemory (c : SCfg) : c.minMemory ≤ c.effMemory ∧ c.maxMemory ≤ c.effMemory := effMemory_ge_min c

/-- … as an invariant preserved by each `mtbl_sorter_add` from any state -/
theorem C06_spill_step (s : Sorter) (k v : Bytes) (h : 0 < s.cfg.effMemory) (hi : SpillInv s) :
    SpillInv (s.add k v).2 := Mtbl.C06_spill_step s k v h hi

/-- … and the add that reaches the limit is exactly the one that spills (one `mkstemp` per spill) -/
theorem C06_spill_exact (s : Sorter) (k v : Bytes) (hit : s.iterating = false) :
    (s.add k v).2.spills =
      if s.entryBytes + s.cfg.entryOverhead + k.length + v.length + s.cfg.ptrSize * (s.vec.length + 1)
          ≥ s.cfg.effMemory then s.spills + 1 else s.spills := add_spills s k v hit

/-- once iteration has begun `mtbl_sorter_add` fails and changes nothing -/
theorem C06_refuse (s : Sorter) (k v : Bytes) (h : s.iterating = true) : s.add k v = (.failure, s) :=
  Mtbl.C06_refuse s k v h

/-- every spill file is created from the template `<tmpDir>/.mtbl.<pid>.XXXXXX`; after the configured
    directory comes one '/' and then no further '/', i.e. the file lies directly inside `tmpDir` -/
theorem C06_tmp (c : SCfg) :
    c.template = c.tmpDir ++ "/.mtbl." ++ toString c.pid ++ ".XXXXXX" ∧
    ∃ rest : List Char, c.template.toList = c.tmpDir.toList ++ '/' :: rest ∧ '/' ∉ rest :=
  Mtbl.C06_tmp c

/-- the add phase (merge function total): every add succeeds, nothing aborts, one spill per chunk, every
    chunk is strictly sorted, the chunks are correct chunks (`ChunkOf`) of consecutive segments of the adds
    and the rest is still buffered; per key `k`: the values added for `k` are the concatenation of per-chunk
    groups `p.1` and the buffered values, and the chunks hold for `k` exactly one value `p.2` per non-empty
    group, with `Folded f k p.1 p.2` -/
theorem C06_chunks (c : SCfg) (f : Bytes → Bytes → Bytes → Option Bytes)
    (hsort : ∀ l, (c.sortFn l).Perm l ∧ Sorted (c.sortFn l)) (hm : c.merge = some f)
    (hok : ∀ k a b, f k a b ≠ none) (adds : List Entry) :
    let r := Sorter.addAll { cfg := c } adds
    (∀ x ∈ r.1, x = .success) ∧ r.2.aborted = false ∧ r.2.failedChunk = false ∧
    r.2.iterating = false ∧ r.2.spills = r.2.chunks.length ∧
    (∀ ch ∈ r.2.chunks, StrictSorted ch) ∧
    (∃ pairs : List (List Entry × List Entry),
      (∀ p ∈ pairs, ChunkOf f p.1 p.2) ∧ r.2.chunks = pairs.map (·.2) ∧
      adds = (pairs.map (·.1)).flatten ++ r.2.vec) ∧
    ∀ k, ∃ ps : List (List Bytes × Bytes),
      valuesOf k adds = ps.flatMap (·.1) ++ valuesOf k r.2.vec ∧
      valuesOf k r.2.chunks.flatten = ps.map (·.2) ∧ ∀ p ∈ ps, Folded f k p.1 p.2 :=
  Mtbl.C06_chunks c f hsort hm hok adds

/-- THE MAIN THEOREM.  For every list of adds, every memory limit (`c.maxMemory`, `c.minMemory` are
    arbitrary: any chunking), every key-sorting permutation `qsort` may pick, and a merge function whose calls
    succeed: all adds succeed, `mtbl_sorter_iter` returns an iterator, the sorter is then iterating, and
    draining the iterator yields strictly ascending keys, exactly the keys added, each with a value that
    combines ALL the values added for that key, each exactly once (`Folded`) -/
theorem C06_output (c : SCfg) (f : Bytes → Bytes → Bytes → Option Bytes)
    (hsort : ∀ l, (c.sortFn l).Perm l ∧ Sorted (c.sortFn l)) (hm : c.merge = some f)
    (hok : ∀ k a b, f k a b ≠ none)
    (mc : MCfg) (hmm : mc.merge = some f) (hds : mc.dupsort = none) (hF2 : mc.fixF2 = true)
    (adds : List Entry) (fuel : Nat) (hfuel : adds.length + 1 ≤ fuel) :
    let r := Sorter.addAll { cfg := c } adds
    (∀ x ∈ r.1, x = .success) ∧
    ∃ m, (r.2.iter mc).1 = some m ∧ (r.2.iter mc).2.iterating = true ∧
      StrictSorted (mergerDrain mc fuel m) ∧
      (∀ k, (∃ e ∈ mergerDrain mc fuel m, e.key = k) ↔ (∃ e ∈ adds, e.key = k)) ∧
      ∀ e ∈ mergerDrain mc fuel m, Folded f e.key (valuesOf e.key adds) e.val :=
  Mtbl.C06_output c f hsort hm hok mc hmm hds hF2 adds fuel hfuel

/-- empty input: the iterator exists and its first `next` fails -/
theorem C06_output_empty (c : SCfg) (f : Bytes → Bytes → Bytes → Option Bytes)
    (hsort : ∀ l, (c.sortFn l).Perm l ∧ Sorted (c.sortFn l)) (hm : c.merge = some f)
    (hok : ∀ k a b, f k a b ≠ none)
    (mc : MCfg) (hmm : mc.merge = some f) (hds : mc.dupsort = none) (hF2 : mc.fixF2 = true) :
    ∃ m, ((Sorter.addAll { cfg := c } []).2.iter mc).1 = some m ∧ (mergerNext mc m).1 = .fail :=
  Mtbl.C06_output_empty c f hsort hm hok mc hmm hds hF2

/-- for an associative and commutative merge function every `Folded` combination is the left fold -/
theorem C06_folded_comm {f : Bytes → Bytes → Bytes → Option Bytes} (g : Bytes → Bytes → Bytes → Bytes)
    (hf : ∀ k a b, f k a b = some (g k a b))
    (hassoc : ∀ k a b c, g k (g k a b) c = g k a (g k b c)) (hcomm : ∀ k a b, g k a b = g k b a)
    {k : Bytes} {vs : List Bytes} {v : Bytes} (h : Folded f k vs v) : foldl1? f k vs = some v :=
  Folded_foldl1? g hf hassoc hcomm h

/-- … hence the output value of each key is THE fold (arrival order) of the values added for it … -/
theorem C06_output_comm (c : SCfg) (f : Bytes → Bytes → Bytes → Option Bytes)
    (hsort : ∀ l, (c.sortFn l).Perm l ∧ Sorted (c.sortFn l)) (hm : c.merge = some f)
    (g : Bytes → Bytes → Bytes → Bytes) (hf : ∀ k a b, f k a b = some (g k a b))
    (hassoc : ∀ k a b c, g k (g k a b) c = g k a (g k b c)) (hcomm : ∀ k a b, g k a b = g k b a)
    (mc : MCfg) (hmm : mc.merge = some f) (hds : mc.dupsort = none) (hF2 : mc.fixF2 = true)
    (adds : List Entry) (fuel : Nat) (hfuel : adds.length + 1 ≤ fuel) :
    ∃ out, sorterRun c mc fuel adds = some out ∧ StrictSorted out ∧
      (∀ k, (∃ e ∈ out, e.key = k) ↔ (∃ e ∈ adds, e.key = k)) ∧
      ∀ e ∈ out, foldl1? f e.key (valuesOf e.key adds) = some e.val :=
  Mtbl.C06_output_comm c f hsort hm g hf hassoc hcomm mc hmm hds hF2 adds fuel hfuel

/-- … and the whole drained output is the same list for every memory limit, every `qsort`, every fuel -/
theorem C06_output_unique (c c' : SCfg) (f : Bytes → Bytes → Bytes → Option Bytes)
    (hsort : ∀ l, (c.sortFn l).Perm l ∧ Sorted (c.sortFn l)) (hm : c.merge = some f)
    (hsort' : ∀ l, (c'.sortFn l).Perm l ∧ Sorted (c'.sortFn l)) (hm' : c'.merge = some f)
    (g : Bytes → Bytes → Bytes → Bytes) (hf : ∀ k a b, f k a b = some (g k a b))
    (hassoc : ∀ k a b c, g k (g k a b) c = g k a (g k b c)) (hcomm : ∀ k a b, g k a b = g k b a)
    (mc mc' : MCfg) (hmm : mc.merge = some f) (hds : mc.dupsort = none) (hF2 : mc.fixF2 = true)
    (hmm' : mc'.merge = some f) (hds' : mc'.dupsort = none) (hF2' : mc'.fixF2 = true)
    (adds : List Entry) (fuel fuel' : Nat) (hfuel : adds.length + 1 ≤ fuel)
    (hfuel' : adds.length + 1 ≤ fuel') :
    sorterRun c mc fuel adds = sorterRun c' mc' fuel' adds :=
  Mtbl.C06_output_unique c c' f hsort hm hsort' hm' g hf hassoc hcomm mc mc' hmm hds hF2 hmm' hds' hF2'
    adds fuel fuel' hfuel hfuel'

/-- the assumption on `qsort` is satisfiable: a stable insertion sort by key -/
theorem C06_qsort_witness (l : List Entry) : (insertionSort l).Perm l ∧ Sorted (insertionSort l) :=
  insertionSort_spec l

/-! non-vacuity: `exCfg` has limit 40 (three 1+1-byte entries reach it), merge = concatenation, stable sort;
    `exAdds` is reverse-sorted with duplicates within and across chunks and the empty key -/
example : (Sorter.addAll { cfg := exCfg } exAdds).2.chunks =
      [[⟨[2], [2, 3]⟩, ⟨[3], [1]⟩], [⟨[1], [5, 6]⟩, ⟨[2], [4]⟩]] ∧
    (Sorter.addAll { cfg := exCfg } exAdds).2.vec = [⟨[], [7]⟩, ⟨[], [8]⟩] ∧
    (Sorter.addAll { cfg := exCfg } exAdds).2.spills = 2 := by decide +kernel
example : sorterRun exCfg exMCfg 9 exAdds =
    some [⟨[], [7, 8]⟩, ⟨[1], [5, 6]⟩, ⟨[2], [4, 2, 3]⟩, ⟨[3], [1]⟩] := by decide +kernel
example : sorterRun exCfg exMCfg 12 exAdds11 =
    some [⟨[], [7, 8, 10]⟩, ⟨[1], [5, 6, 9]⟩, ⟨[2], [2, 3, 4]⟩, ⟨[3], [1]⟩, ⟨[4], [11]⟩] := by
  decide +kernel

/-- `mtbl_sorter_write` into a fresh writer (any configuration, any foreign prefix): it succeeds, the sorter is then
    iterating (so further adds and writes are refused, C06_refuse), and the finished file opens and iterates back to the
    sorted, merged input: strictly ascending keys, exactly the keys added, each value a combination of all values added
    for that key — C06_output ∘ C04_source_write ∘ C01_roundtrip -/
theorem C06_write (c : SCfg) (f : Bytes → Bytes → Bytes → Option Bytes)
    (hsort : ∀ l, (c.sortFn l).Perm l ∧ Sorted (c.sortFn l)) (hm : c.merge = some f)
    (hok : ∀ k a b, f k a b ≠ none)
    (mc : MCfg) (hmm : mc.merge = some f) (hds : mc.dupsort = none) (hF2 : mc.fixF2 = true)
    (adds : List Entry) (fuel : Nat) (hfuel : adds.length + 1 ≤ fuel)
    (cfg : WCfg) (comp : Bytes → Bytes) (decomp : Nat → Bytes → Option Bytes) (hw : WriterOK cfg comp decomp)
    (pre : Bytes) (verify : Bool) :
    let s := (Sorter.addAll { cfg := c } adds).2
    let x := s.writeTo mc fuel (W.new cfg pre.length)
    ∃ out : List Entry,
      StrictSorted out ∧ (∀ k, (∃ e ∈ out, e.key = k) ↔ (∃ e ∈ adds, e.key = k)) ∧
      (∀ e ∈ out, Folded f e.key (valuesOf e.key adds) e.val) ∧
      x.1 = .success ∧ x.2.1.iterating = true ∧
      (SizesOK cfg comp pre out →
        ∃ r, readerOpen true cfg.thr decomp verify (pre ++ x.2.2.finish) = .ok r ∧
          ((out = [] ∧ readerIterInit true r none .iter = some none) ∨
           (∃ it₀, readerIterInit true r none .iter = some (some it₀) ∧
              rRun it₀ (List.replicate (out.length + 1) .next) = some (out.map some ++ [none])))) := by
  intro s x
  obtain ⟨_, m, g1, g2, g3, g4, g5⟩ := Mtbl.C06_output c f hsort hm hok mc hmm hds hF2 adds fuel hfuel
  have hni : s.iterating = false := (Mtbl.C06_chunks c f hsort hm hok adds).2.2.2.1
  refine ⟨mergerDrain mc fuel m, g3, g4, g5, ?_⟩
  have g1' : (s.iter mc).1 = some m := g1
  have hx : x = (.success, (s.iter mc).2, ((W.new cfg pre.length).addAll (mergerDrain mc fuel m)).2) := by
    show s.writeTo mc fuel (W.new cfg pre.length) = _
    unfold Sorter.writeTo
    rw [if_neg (by rw [hni]; decide)]
    simp only [g1']
    rw [sourceWrite_sorted cfg pre.length _ g3]
  rw [hx]
  refine ⟨rfl, g2, fun hsz => ?_⟩
  exact Mtbl.C01.C01_roundtrip cfg comp decomp hw pre _ g3 hsz verify


end Mtbl.C06
