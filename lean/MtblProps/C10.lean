import MtblProps.Common
import MtblProps.C01
import MtblProofs.ToolsProofs
/-
  C10 — The statistics in the trailer are the truth: each of the nine fields equals its recount from the file's
  actual content, refused adds are not counted, and a reader that opens the file exposes exactly these values.
-/
namespace Mtbl.C10

/-- **C10.**  After strictly increasing adds `es` (after a foreign prefix `pre`), each of the nine statistics the
    writer stores in the trailer equals its recount:
    entries, key bytes and value bytes are those of `es`; the data-block count is the number of groups the writer
    formed; `bytes_data_blocks` is the total length of the data-block frames actually written (length prefix +
    CRC + stored, i.e. possibly compressed, bytes); the index block offset is the file offset at which the index
    frame starts (prefix included); `bytes_index_block` is the length of the index frame; block size and
    compression type are the (clamped) configured ones. -/
theorem C10_stats (cfg : WCfg) (comp : Bytes → Bytes) (hc : cfg.comp = fun raw => some (comp raw))
    (pre : Bytes) (es : List Entry) (hs : StrictSorted es) :
    let m := ((W.new cfg pre.length).addAll es).2.finishMeta
    let f := canonFile cfg pre es
    m = f.recount comp ∧
    m.countEntries = es.length ∧
    m.bytesKeys = (es.map (·.key.length)).sum ∧
    m.bytesValues = (es.map (·.val.length)).sum ∧
    m.countDataBlocks = (splitBlocks cfg [] es).length ∧
    m.bytesDataBlocks = ((f.dataFrames comp).map List.length).sum ∧
    m.indexBlockOffset = pre.length + m.bytesDataBlocks ∧
    m.bytesIndexBlock = (eframe .v2 ((f.indexBlock comp).encode cfg.thr)).length ∧
    m.dataBlockSize = cfg.effBlockSize ∧
    m.compression = cfg.compression :=
  ⟨C10_meta cfg comp hc pre es hs, Mtbl.C10_stats cfg comp hc pre es hs⟩

/-- **C10 (placement).**  Those statistics are what the file ends with: the bytes written are some body followed by
    `metadata_write` of them (512 bytes: the nine fields as 64-bit little-endian numbers, zero padding, the v2
    magic), and the body's data frames and index frame are the ones the recount is taken from. -/
theorem C10_trailer (cfg : WCfg) (comp : Bytes → Bytes) (hc : cfg.comp = fun raw => some (comp raw))
    (pre : Bytes) (es : List Entry) (hs : StrictSorted es) :
    let m := ((W.new cfg pre.length).addAll es).2.finishMeta
    let f := canonFile cfg pre es
    (∃ body, Writer.run cfg pre.length es = body ++ m.write) ∧ m.write.length = 512 ∧
    pre ++ Writer.run cfg pre.length es =
      pre ++ (f.dataFrames comp).flatMap id ++ eframe .v2 ((f.indexBlock comp).encode cfg.thr) ++ m.write := by
  intro m f
  refine ⟨Mtbl.C10_trailer _, Meta.write_length m, ?_⟩
  rw [W_refines_format cfg comp hc pre es hs, EFile.encode_trailer]
  have hm : m = f.recount comp := C10_meta cfg comp hc pre es hs
  rw [hm]
  rfl

/-- **C10 for arbitrary add sequences**: refused adds (key not strictly greater than the last accepted key) are
    not counted anywhere — the statistics are the recount of the file of the accepted adds. -/
theorem C10_stats_any (cfg : WCfg) (comp : Bytes → Bytes) (hc : cfg.comp = fun raw => some (comp raw))
    (pre : Bytes) (adds : List Entry) :
    ((W.new cfg pre.length).addAll adds).2.finishMeta =
      (canonFile cfg pre (acceptedOf none adds)).recount comp ∧
    ((W.new cfg pre.length).addAll adds).2.finishMeta.countEntries = (acceptedOf none adds).length ∧
    ((W.new cfg pre.length).addAll adds).2.finishMeta.bytesKeys =
      ((acceptedOf none adds).map (·.key.length)).sum ∧
    ((W.new cfg pre.length).addAll adds).2.finishMeta.bytesValues =
      ((acceptedOf none adds).map (·.val.length)).sum :=
  Mtbl.C10_stats_any cfg comp hc pre adds

/-- **C10 (what the reader sees), without size assumptions on the counters.**  The metadata a reader holds after
    opening the written file is the writer's statistics with every field reduced modulo 2^64 (the trailer fields
    are 64 bits wide), and the version is 2. -/
theorem C10_reader_sees_mod (cfg : WCfg) (comp : Bytes → Bytes) (decomp : Nat → Bytes → Option Bytes)
    (hw : WriterOK cfg comp decomp) (pre : Bytes) (es : List Entry) (hs : StrictSorted es)
    (hz : SizesOK cfg comp pre es) (verify : Bool) :
    ∃ r, readerOpen true cfg.thr decomp verify (pre ++ Writer.run cfg pre.length es) = .ok r ∧
      r.m = FileEnc.trunc ((W.new cfg pre.length).addAll es).2.finishMeta ∧ r.m.version = .v2 := by
  have hopen := ((hw.fileOK hs hz).opens_explicit verify).1
  rw [← W_refines_format cfg comp hw.comp_eq pre es hs] at hopen
  refine ⟨_, hopen, ?_, ?_⟩
  · rw [Glue.openedRd_m _ _ _ _ rfl, C10_meta cfg comp hw.comp_eq pre es hs]
  · rw [Glue.openedRd_m _ _ _ _ rfl]; rfl

/-- **C10 (what the reader sees).**  When the counters fit their 64-bit fields (block size, number of entries, total
    key bytes and total value bytes below 2^64; the other five are bounded by the file size), the metadata the
    READER exposes after opening the written file — `mtbl_reader_metadata` — is exactly the writer's statistics:
    version 2 and the nine recounted values. -/
theorem C10_reader_sees (cfg : WCfg) (comp : Bytes → Bytes) (decomp : Nat → Bytes → Option Bytes)
    (hw : WriterOK cfg comp decomp) (pre : Bytes) (es : List Entry) (hs : StrictSorted es)
    (hz : SizesOK cfg comp pre es) (verify : Bool)
    (hfit : cfg.effBlockSize < 2^64 ∧ es.length < 2^64 ∧ (es.map (·.key.length)).sum < 2^64 ∧
      (es.map (·.val.length)).sum < 2^64) :
    ∃ r, readerOpen true cfg.thr decomp verify (pre ++ Writer.run cfg pre.length es) = .ok r ∧
      r.m = ((W.new cfg pre.length).addAll es).2.finishMeta ∧
      r.m = (canonFile cfg pre es).recount comp ∧
      r.m.version = .v2 ∧
      r.m.countEntries = es.length ∧
      r.m.bytesKeys = (es.map (·.key.length)).sum ∧
      r.m.bytesValues = (es.map (·.val.length)).sum ∧
      r.m.countDataBlocks = (splitBlocks cfg [] es).length ∧
      r.m.bytesDataBlocks = (((canonFile cfg pre es).dataFrames comp).map List.length).sum ∧
      r.m.indexBlockOffset = pre.length + r.m.bytesDataBlocks ∧
      r.m.bytesIndexBlock = (eframe .v2 (((canonFile cfg pre es).indexBlock comp).encode cfg.thr)).length ∧
      r.m.dataBlockSize = cfg.effBlockSize ∧
      r.m.compression = cfg.compression := by
  obtain ⟨r, hopen, hm, hv⟩ := C10_reader_sees_mod cfg comp decomp hw pre es hs hz verify
  have hmeta := C10_meta cfg comp hw.comp_eq pre es hs
  have hfields : ∀ x ∈ ((canonFile cfg pre es).recount comp).fields, x < 2^64 := by
    rw [← Glue.fmeta_eq_recount _ _ rfl]
    have he : (canonFile cfg pre es).blocks.flatMap (·.entries) = es := canonFile_entries cfg pre es
    have hb : (canonFile cfg pre es).blocks.length = (splitBlocks cfg [] es).length := by
      rw [C09_blocks, List.length_map]
    have hle := Glue.splitBlocks_length_le cfg es
    refine Glue.fmeta_fields_lt _ comp hz.file hfit.1 hw.compression_lt ?_
    rw [he, hb]
    exact ⟨hfit.2.1, by omega, hfit.2.2.1, hfit.2.2.2⟩
  have hm' : r.m = ((W.new cfg pre.length).addAll es).2.finishMeta := by
    rw [hm, hmeta, FileEnc.trunc_eq _ hfields]
  have hst := Mtbl.C10_stats cfg comp hw.comp_eq pre es hs
  refine ⟨r, hopen, hm', hm'.trans hmeta, hv, ?_⟩
  rw [hm']
  exact hst


/-- **C10, mtbl_info.**  The tool opens the file by descriptor (no verification), and its integer lines print, in this
    order: the file size (`fstat`), then the trailer fields index block offset, index bytes, data block bytes, data block
    size, data block count, entry count, key bytes, value bytes; the algorithm line prints the algorithm's name.
    For a written file these are the recounted statistics of `C10_reader_sees` (the three percentage lines are floating
    point and are not part of the statement). -/
theorem C10_info (cfg : WCfg) (comp : Bytes → Bytes) (decomp : Nat → Bytes → Option Bytes)
    (hw : WriterOK cfg comp decomp) (pre : Bytes) (es : List Entry) (hs : StrictSorted es)
    (hz : SizesOK cfg comp pre es)
    (hfit : cfg.effBlockSize < 2^64 ∧ es.length < 2^64 ∧ (es.map (·.key.length)).sum < 2^64 ∧
      (es.map (·.val.length)).sum < 2^64)
    (hc6 : cfg.compression < 6) :
    let file := pre ++ Writer.run cfg pre.length es
    ∃ r, readerOpen true cfg.thr decomp false file = .ok r ∧
      (Tools.infoLines file.length r.m).map (·.2) =
        [file.length,
         pre.length + (((canonFile cfg pre es).dataFrames comp).map List.length).sum,
         (eframe .v2 (((canonFile cfg pre es).indexBlock comp).encode cfg.thr)).length,
         (((canonFile cfg pre es).dataFrames comp).map List.length).sum,
         cfg.effBlockSize, (splitBlocks cfg [] es).length, es.length,
         (es.map (·.key.length)).sum, (es.map (·.val.length)).sum] ∧
      ∃ name, Tools.infoAlgo r.m = name ∧ Cz.typeFromStr name = some cfg.compression := by
  intro file
  obtain ⟨r, hopen, _, _, _, h1, h2, h3, h4, h5, h6, h7, h8, h9⟩ :=
    C10_reader_sees cfg comp decomp hw pre es hs hz false hfit
  refine ⟨r, hopen, ?_, ?_⟩
  · rw [Tools.infoLines_values, h6, h5, h7, h8, h4, h1, h2, h3]
  · have := Tools.infoAlgo_named r.m (by rw [h9]; exact hc6)
    rw [h9] at this
    exact this

/-! ### non-vacuity: the five-block example, and the trailer a reader gets from it -/

example (verify : Bool) := C10_reader_sees _ _ _ WriterEx.writerOK [0xAA, 0xBB] _ WriterEx.sorted WriterEx.sizesOK verify
  (by decide +kernel)

example (verify : Bool) := C10_reader_sees _ _ _ WriterEx.writerOKZ [0xAA, 0xBB] _ WriterEx.sorted WriterEx.sizesOKZ verify
  (by decide +kernel)

set_option maxRecDepth 100000 in
/-- the concrete numbers: 7 entries in 5 data blocks, 11 key bytes, 46 value bytes; the index starts after the 2 foreign
    bytes and the data frames -/
example :
    let m := ((W.new WriterEx.cfg 2).addAll WriterEx.es).2.finishMeta
    m.countEntries = 7 ∧ m.countDataBlocks = 5 ∧ m.bytesKeys = 11 ∧ m.bytesValues = 46 ∧
    m.indexBlockOffset = 2 + m.bytesDataBlocks ∧ m.dataBlockSize = 32 ∧ m.compression = 0 := by
  decide +kernel

set_option maxRecDepth 100000 in
/-- the two refused adds of `C01.exAdds` leave the statistics unchanged -/
example : ((W.new WriterEx.cfg 2).addAll C01.exAdds).2.finishMeta = ((W.new WriterEx.cfg 2).addAll WriterEx.es).2.finishMeta := by
  decide +kernel

end Mtbl.C10
