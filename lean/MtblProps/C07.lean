import MtblProofs.FilesetProofs
/-
  C07 — A fileset source shows the setfile as of the most recent reload; reloads happen when asked for
  (reload_now, interval) but never while an iterator on the shared fileset is open; iterators keep their
  snapshot; every handle made by dup stays valid and current.

  Model: MtblModel/Fileset.lean (mtbl/fileset.c + libmy/my_fileset.c).  Helper lemmas: MtblProofs/FilesetProofs.lean.
  All history theorems quantify over EVERY finite history `ops` from `init w cfg` (any number of handles via
  `dup`, any interleaving) and are about the repaired `reload_now` (`run true`), except where stated.

  Well-formedness (`Fs.WF s ops`, decidable, checked step by step by `Fs.OpOk`):
    reload / reloadNow / openIter h : handle h exists and is alive
    useIter / closeIter j           : iterator j exists and is open
    dup                             : some handle is alive
    destroy h                       : h alive and none of ITS iterators is open
    editSetfile lines               : lines.Nodup
  `Fs.GoodWorld w` : the clock never reads the zero timespec (`0 < w.tick`) and the initial setfile has no
    repeated line — needed for (3)/(4) only; both are necessary there (see the `example`s at the end).
  `Fs.WFfiles`     : putFile never replaces a path that currently is an entry — needed only for `C07_faithful`.
-/
namespace Mtbl.C07
open Mtbl.Fs

/-- (1) A reload (my_fileset_reload, which may destroy readers) is never performed while any iterator on the
    shared fileset is open — for ALL histories, well-formed or not, and for both variants of reload_now. -/
theorem C07_no_reload_while_open (w : World) (cfg : HCfg) (ops : List Op) :
    (run true (init w cfg) ops).reloadsWithIters = 0 := Fs.C07_no_reload_while_open w cfg ops

theorem C07_no_reload_while_open_any (fixF3 : Bool) (w : World) (cfg : HCfg) (ops : List Op) :
    (run fixF3 (init w cfg) ops).reloadsWithIters = 0 := Fs.C07_no_reload_while_open_any fixF3 w cfg ops

/-- (2) With the repaired reload_now no well-formed history ever uses a freed reader or a destroyed merger:
    every handle made by dup stays valid across reloads triggered through any other handle. -/
theorem C07_no_uaf (w : World) (cfg : HCfg) (ops : List Op) (hwf : WF (init w cfg) ops) :
    (run true (init w cfg) ops).uaf = false := Fs.C07_no_uaf w cfg ops hwf

/-- (3) Immediately after the reload check that begins every source operation, the handle's merger holds exactly
    the readers fs_reinit_merger would put there now: those of the current entries that pass the handle's
    filters, in table order (`Fs.srcs`, spelled out by `C07_sources_mem`). -/
theorem C07_current (w : World) (cfg : HCfg) (ops : List Op) (hw : GoodWorld w) (hwf : WF (init w cfg) ops)
    (i : Nat) (h : Handle) (hget : (reload (run true (init w cfg) ops) i).handles[i]? = some h) (ha : h.alive = true) :
    h.sources = srcs (reload (run true (init w cfg) ops) i).sh h.cfg := Fs.C07_current w cfg ops hw hwf i h hget ha

/-- … hence a new iterator pins exactly those readers: `openIter` is "reload check, then append an iterator
    over `srcs` of the resulting table under the handle's own filters". -/
theorem C07_current_iter (w : World) (cfg : HCfg) (ops : List Op) (hw : GoodWorld w) (hwf : WF (init w cfg) ops)
    (i : Nat) (h0 : Handle) (hget0 : (run true (init w cfg) ops).handles[i]? = some h0) (ha0 : h0.alive = true) :
    ∃ h, (reload (run true (init w cfg) ops) i).handles[i]? = some h ∧ h.cfg = h0.cfg ∧
      openIter (run true (init w cfg) ops) i =
        { reload (run true (init w cfg) ops) i with
            sh := { (reload (run true (init w cfg) ops) i).sh with
                      nIters := (reload (run true (init w cfg) ops) i).sh.nIters + 1 },
            iters := (run true (init w cfg) ops).iters ++
              [{ handle := i, readers := srcs (reload (run true (init w cfg) ops) i).sh h0.cfg, mergerGen := h.mergerGen }] } :=
  Fs.C07_current_iter w cfg ops hw hwf i h0 hget0 ha0

/-- what `srcs` contains: the readers of entries whose name passes the name filter and whose table passes the
    reader filter -/
theorem C07_sources_mem (sh : Shared) (cfg : HCfg) (r : Nat) :
    r ∈ srcs sh cfg ↔ ∃ e ∈ sh.entries, e.reader = some r ∧ cfg.nameFilter e.name = true ∧
      ∀ tid, tableOf sh.loaded r = some tid → cfg.tableFilter tid = true := Fs.mem_srcs_iff

/-- (4) The entry table is always sorted by name without repetition, and every step of a well-formed history
    either leaves the table and the remembered setfile stamp alone, or is a reload that observed a changed stamp
    and then the table lists exactly the setfile lines whose path exists at that moment (`Fs.IsView`), or it
    destroys the last handle. -/
theorem C07_view (w : World) (cfg : HCfg) (ops : List Op) (op : Op) (hw : GoodWorld w)
    (hwf : WF (init w cfg) (ops ++ [op])) :
    NameSorted (run true (init w cfg) ops).sh.entries ∧
    ViewStep (run true (init w cfg) ops) (run true (init w cfg) (ops ++ [op])) := Fs.C07_view w cfg ops op hw hwf

/-- (4) the single reload: when my_fileset_reload sees a new stamp, the new table is the sorted list of the
    setfile lines that exist -/
theorem C07_view_reload (w : World) (sh : Shared) (hi : ShInv sh) (hs : sh.lastStamp ≠ w.setStamp)
    (hl : w.setLines.Nodup) :
    NameSorted (myReload w sh).2.2.entries ∧
    ∀ n, n ∈ (myReload w sh).2.2.entries.map (·.name) ↔ n ∈ w.setLines ∧ pathExists w n = true :=
  Fs.myReload_view w sh hi hs hl

/-- (4) readers and files: if no listed path is replaced by another file, then an entry whose path holds table
    `tid` has a live reader on exactly that table, and an entry whose path is not a table has the NULL reader —
    which by `C07_sources_mem` is never among the sources of any merger. -/
theorem C07_faithful (w : World) (cfg : HCfg) (ops : List Op) (hwf : WF (init w cfg) ops)
    (hwff : WFfiles (init w cfg) ops) (e : FEntry) (he : e ∈ (run true (init w cfg) ops).sh.entries)
    (p : String) (kind : FileKind)
    (hk : (run true (init w cfg) ops).w.files.find? (·.1 == e.name) = some (p, kind)) :
    match kind with
    | .table tid => ∃ r, e.reader = some r ∧ tableOf (run true (init w cfg) ops).sh.loaded r = some tid
    | .notTable => e.reader = none := Fs.C07_faithful w cfg ops hwf hwff e he p kind hk

/-- (5a) reload_now with no iterator open reloads at once: one more reload, the setfile stamp is the current
    one, the request flag is clear, the reload time is now. -/
theorem C07_now (s : St) (i : Nat) (h0 : Handle) (hget : s.handles[i]? = some h0) (hn : s.sh.nIters = 0) :
    (reloadNow true s i).reloads = s.reloads + 1 ∧ (reloadNow true s i).sh.lastStamp = s.w.setStamp ∧
    (reloadNow true s i).sh.reloadNeeded = false ∧ (reloadNow true s i).sh.fsLast = (s.w.sec, s.w.tick) :=
  Fs.reloadNow_reloads hget hn

/-- (5b) with an iterator open it only records the request … -/
theorem C07_now_busy (s : St) (i : Nat) (h0 : Handle) (hget : s.handles[i]? = some h0) (hn : s.sh.nIters > 0) :
    reloadNow true s i = { s with sh := { s.sh with reloadNeeded := true } } := Fs.reloadNow_busy hget hn

/-- (5c) … and a recorded request makes the next reload check with no iterator open reload, through ANY existing
    handle and regardless of its interval (even NEVER) … -/
theorem C07_now_pending (s : St) (j : Nat) (h : Handle) (hget : s.handles[j]? = some h)
    (hp : s.sh.reloadNeeded = true) (hn : s.sh.nIters = 0) : Reloaded s (reload s j) := Fs.reload_pending hget hp hn

/-- (5d) … the request cannot get lost: after a refused reload_now, along ANY continuation, as long as no reload
    has been performed the first reload check with no iterator open performs one. -/
theorem C07_now_deferred (s : St) (i : Nat) (h0 : Handle) (hget : s.handles[i]? = some h0) (hn : s.sh.nIters > 0)
    (ops : List Op) (hsame : (run true (reloadNow true s i) ops).reloads = s.reloads)
    (j : Nat) (hj : Handle) (hgetj : (run true (reloadNow true s i) ops).handles[j]? = some hj)
    (h0' : (run true (reloadNow true s i) ops).sh.nIters = 0) :
    Reloaded (run true (reloadNow true s i) ops) (reload (run true (reloadNow true s i) ops) j) :=
  Fs.reloadNow_deferred hget hn ops hsame j hj hgetj h0'

/-- (5e) in particular destroying the last open iterator performs the pending reload itself. -/
theorem C07_now_on_last_close (w : World) (cfg : HCfg) (ops : List Op) (hwf : WF (init w cfg) ops) (j : Nat)
    (ho : iOpen (run true (init w cfg) ops) j = true) (h1 : (run true (init w cfg) ops).sh.nIters = 1)
    (hp : (run true (init w cfg) ops).sh.reloadNeeded = true) :
    (closeIter (run true (init w cfg) ops) j).reloads = (run true (init w cfg) ops).reloads + 1 ∧
    (closeIter (run true (init w cfg) ops) j).sh.lastStamp = (run true (init w cfg) ops).w.setStamp ∧
    (closeIter (run true (init w cfg) ops) j).sh.reloadNeeded = false :=
  Fs.closeIter_last_reloads (Inv_run (Inv_init w cfg) hwf) ho h1 hp

/-- (6) The interval rule: no iterator open, interval not NEVER, more than `interval` seconds since the last
    reload ⇒ the reload check reloads. -/
theorem C07_interval (s : St) (i : Nat) (h : Handle) (hget : s.handles[i]? = some h) (hn : s.sh.nIters = 0)
    (hnever : h.cfg.interval ≠ NEVER) (hint : s.w.sec - s.sh.fsLast.1 > h.cfg.interval) : Reloaded s (reload s i) :=
  Fs.reload_interval hget hn hnever hint

/-- Iterators opened earlier keep their snapshot: the pinned readers never change, and while the iterator is
    open all of them stay live and its merger object stays the one it was created from. -/
theorem C07_snapshot (w : World) (cfg : HCfg) (ops1 ops2 : List Op) (hwf : WF (init w cfg) (ops1 ++ ops2))
    (j : Nat) (it : Iter) (hj : (run true (init w cfg) ops1).iters[j]? = some it) :
    ∃ it', (run true (init w cfg) (ops1 ++ ops2)).iters[j]? = some it' ∧ it'.readers = it.readers ∧
      (it'.isOpen = true →
        (∀ r ∈ it.readers, LiveIn (run true (init w cfg) (ops1 ++ ops2)).sh.loaded r) ∧
        ∃ h, (run true (init w cfg) (ops1 ++ ops2)).handles[it.handle]? = some h ∧ h.alive = true ∧
          h.mergerGen = it.mergerGen) := Fs.C07_snapshot w cfg ops1 ops2 hwf j it hj

/-- (7) F3: the pinned reload_now stamps a handle "current" without rebuilding its out-of-date merger; the next
    iterator then reads through a destroyed reader.  The same (well-formed) history is safe with the repair. -/
theorem F3_witness :
    (run false (init {} {}) f3hist).uaf = true ∧ (run true (init {} {}) f3hist).uaf = false ∧
    WF (init {} {}) f3hist ∧ WFx false (init {} {}) f3hist :=
  ⟨F3_witness_pinned, F3_witness_fixed, F3_witness_wf, F3_witness_wf_pinned⟩

example : f3hist =
    [.putFile "a" (.table 0), .putFile "b" (.table 1), .editSetfile ["a", "b"], .openIter 0, .closeIter 0, .dup {},
     .openIter 1, .closeIter 1, .editSetfile ["a"], .reloadNow 1, .reloadNow 0, .openIter 0, .useIter 2] := rfl

/-! non-vacuity / necessity of the side conditions of (3) -/

/-- a clock reading (0,0) at the first reload makes a later dup look current with an empty merger -/
example :
    let s := run true (init { sec := 0, tick := 0 } {})
      [.putFile "a" (.table 0), .editSetfile ["a"], .reload 0, .dup {}, .openIter 1]
    s.iters.map (·.readers) = [[]] ∧ srcs s.sh {} = [0] := by decide +kernel

/-- a repeated setfile line changes the table without "loading" or "unloading" anything, so the merger is not rebuilt -/
example :
    let s := run true (init {} {})
      [.putFile "a" (.table 0), .editSetfile ["a"], .openIter 0, .closeIter 0, .editSetfile ["a", "a"], .reloadNow 0]
    (s.handles.map (·.sources)) = [[0]] ∧ srcs s.sh {} = [0, 0] := by decide +kernel

end Mtbl.C07
