import MtblProofs.CompressProofs
/-
  C15 — the compression wrappers (mtbl/compression.c) over the contracts of the external libraries.

  Model: MtblModel/Compress.lean.  `compress b`/`decompress b` carry one flag each: `false` = the pinned code with
  defect F4 (zlib destination `2 * n`) resp. F5 (zstd content size 0 refused), `true` = the repaired code.
  TRUSTED: the record `LibOK` (what snappy, zlib, lz4, zstd are assumed to do) and the list of non-modelled
  assumptions at the head of the model file (allocation succeeds, `deflateInit`/`inflateInit`/`deflateEnd` succeed).
  Outcomes: `ok out`, `fail` (mtbl_res_failure), `abort` (an assertion fired), `wrap` (a 32-bit z_stream counter
  would overflow — the model stops tracking the C code there; only zlib, only at gigabyte sizes).
-/
namespace Mtbl.C15
open Mtbl.Cz

/-- C15, main statement (repaired code).  For every library meeting the contracts, every algorithm, every level
    (`none` = `mtbl_compress`, `some l` = `mtbl_compress_level` with ANY integer `l`) and every input of at most
    INT_MAX bytes whose worst-case compressed size passes the wrappers' own size tests (`Fits`: zlib
    `4 * deflateBound + 1024 < 2^32`, lz4 `LZ4_compressBound + 4 ≤ INT_MAX`, zstd `ZSTD_compressBound ≤ INT_MAX`,
    snappy nothing): the call reports failure, or it succeeds and `mtbl_decompress` returns exactly the input.
    In particular it is never `abort` and never `wrap`. -/
theorem C15_roundtrip {L : Lib} (h : LibOK L) (a : Algo) (ha : a ≠ .none) (level : Option Int) (input : Bytes)
    (hn : input.length ≤ INT_MAX) (hfit : Fits true L a (effLevel L a level) input.length) :
    compress true L a level input = .fail ∨
      ∃ out, compress true L a level input = .ok out ∧ decompress true L a out = .ok input :=
  Cz.C15_roundtrip h a ha level input hn hfit

/-- the same without `Fits`: every bound function below `n + n/4 + 1024` (true of all four libraries) and the input
    at most 512 MiB — covers "empty, a few bytes, incompressible, highly compressible, megabytes" -/
theorem C15_roundtrip_512MiB {L : Lib} (h : LibOK L) (hb : BoundSane L) (a : Algo) (ha : a ≠ .none)
    (level : Option Int) (input : Bytes) (hn : input.length ≤ 536870912) :
    compress true L a level input = .fail ∨
      ∃ out, compress true L a level input = .ok out ∧ decompress true L a out = .ok input :=
  Cz.C15_roundtrip_512MiB h hb a ha level input hn

/-- the pinned code satisfies the statement exactly away from F4 (`deflateBound n ≤ 2 n`, false for small `n`) and
    F5 (the empty input under zstd) -/
theorem C15_roundtrip_pinned_partial {L : Lib} (h : LibOK L) (a : Algo) (ha : a ≠ .none) (level : Option Int)
    (input : Bytes) (hn : input.length ≤ INT_MAX) (hfit : Fits false L a (effLevel L a level) input.length)
    (h4 : a = .zlib → L.deflateBound (effLevel L .zlib level) input.length ≤ 2 * input.length)
    (h5 : a = .zstd → input.length ≠ 0) :
    compress false L a level input = .fail ∨
      ∃ out, compress false L a level input = .ok out ∧ decompress false L a out = .ok input :=
  Cz.C15_roundtrip_pinned_partial h a ha level input hn hfit h4 h5

/-- No abort.  (1) compress: for inputs of ANY size with snappy, lz4, lz4hc, zstd; with zlib as long as the input
    length and `deflateBound` of it are below 2^32 — `zlib_wrap_witness` shows the condition is needed: the
    repaired wrapper still assigns `deflateBound(n)` to the 32-bit `avail_out`.
    (2) decompress of whatever a successful compress returned (sizes as in `C15_roundtrip`).
    (3) decompress of ARBITRARY bytes with snappy, lz4, lz4hc, zstd (repaired zstd wrapper). -/
theorem C15_never_abort {L : Lib} (h : LibOK L) (a : Algo) (level : Option Int) (input : Bytes) :
    ((a = .zlib → input.length < U32 ∧ L.deflateBound (effLevel L .zlib level) input.length < U32) →
      compress true L a level input ≠ .abort ∧ compress true L a level input ≠ .wrap) ∧
    (input.length ≤ INT_MAX → Fits true L a (effLevel L a level) input.length →
      ∀ out, compress true L a level input = .ok out →
        decompress true L a out ≠ .abort ∧ decompress true L a out ≠ .wrap) ∧
    (a ≠ .zlib → ∀ stored, decompress true L a stored ≠ .abort ∧ decompress true L a stored ≠ .wrap) :=
  Cz.C15_never_abort h a level input

/-- MTBL_COMPRESSION_NONE and enum values outside 0..5 are refused by all three entry points, in both versions -/
theorem C15_none_unknown (f : Bool) (L : Lib) (level : Option Int) (buf : Bytes) :
    compress f L .none level buf = .fail ∧ decompress f L .none buf = .fail ∧
    (∀ t, 6 ≤ t → compressT f L t level buf = .fail ∧ decompressT f L t buf = .fail) ∧
    (∀ a, compressT f L a.toNat level buf = compress f L a level buf ∧
          decompressT f L a.toNat buf = decompress f L a buf) :=
  Cz.C15_none_unknown f L level buf

/-- the level handed to the library: defaults -1 / 9 / 9, clamping per algorithm (the zstd default 9 is clamped like
    any other level); snappy and lz4 ignore the level; `compress` sees the level only through `effLevel` -/
theorem C15_levels (L : Lib) (l : Int) :
    effLevel L .zlib none = -1 ∧
    effLevel L .zlib (some l) = (if l < -1 then 0 else if l > 9 then 9 else l) ∧
    effLevel L .lz4hc none = 9 ∧
    effLevel L .lz4hc (some l) = (if l < 0 then 0 else l) ∧
    effLevel L .zstd none = (if 9 < L.zstdMin then L.zstdMin else if 9 > L.zstdMax then L.zstdMax else 9) ∧
    effLevel L .zstd (some l) = (if l < L.zstdMin then L.zstdMin else if l > L.zstdMax then L.zstdMax else l) ∧
    (∀ f l₁ l₂ input, compress f L .snappy l₁ input = compress f L .snappy l₂ input) ∧
    (∀ f l₁ l₂ input, compress f L .lz4 l₁ input = compress f L .lz4 l₂ input) ∧
    (∀ f a l₁ l₂ input, effLevel L a l₁ = effLevel L a l₂ → compress f L a l₁ input = compress f L a l₂ input) :=
  Cz.C15_levels L l

/-- the level the library receives is always one it accepts -/
theorem C15_level_ranges (L : Lib) (l : Option Int) :
    (-1 ≤ effLevel L .zlib l ∧ effLevel L .zlib l ≤ 9) ∧ 0 ≤ effLevel L .lz4hc l ∧
    (L.zstdMin ≤ L.zstdMax → L.zstdMin ≤ effLevel L .zstd l ∧ effLevel L .zstd l ≤ L.zstdMax) :=
  ⟨effLevel_zlib_range L l, effLevel_lz4hc_range L l, fun h => effLevel_zstd_range L h l⟩

/-- what reaches the library, per algorithm (level, capacity, framing) -/
theorem C15_calls (f : Bool) (L : Lib) (l : Option Int) (input : Bytes) :
    (compress f L .snappy l input =
      match L.comp .snappy 0 (L.bound .snappy input.length) input with
      | some o => .ok o
      | none => .fail) ∧
    (compress f L .zlib l input =
      let cap := if f then L.deflateBound (effLevel L .zlib l) input.length else 2 * input.length
      if input.length ≥ U32 ∨ cap ≥ U32 then .wrap
      else match L.comp .zlib (effLevel L .zlib l) cap input with
        | some o => .ok o
        | none => .abort) ∧
    (compress f L .lz4 l input =
      if input.length > INT_MAX then .fail
      else match L.comp .lz4 0 (L.bound .lz4 input.length) input with
        | none => .fail
        | some o => if o.isEmpty then .fail else .ok (fixed32 input.length ++ o)) ∧
    (compress f L .lz4hc l input =
      if input.length > INT_MAX then .fail
      else match L.comp .lz4hc (effLevel L .lz4hc l) (L.bound .lz4 input.length) input with
        | none => .fail
        | some o => if o.isEmpty then .fail else .ok (fixed32 input.length ++ o)) ∧
    (compress f L .zstd l input =
      if input.length > INT_MAX then .fail
      else match L.comp .zstd (effLevel L .zstd l)
          (if L.bound .zstd input.length < INT_MAX / 2 then 2 * L.bound .zstd input.length
           else L.bound .zstd input.length) input with
        | some o => .ok o
        | none => .fail) :=
  ⟨compress_snappy f L l input, compress_zlib f L l input, compress_lz4 f L l input, compress_lz4hc f L l input,
    compress_zstd f L l input⟩

/-- names: every enum value has a name that reads back as that value; values ≥ 6 have no name (NULL); a string is
    accepted with value `t` IFF its A–Z-folded form is the name of `t` (so any letter case is accepted and every
    other string is refused) -/
theorem C15_names :
    (∀ t, t < 6 → ∃ s, typeToStr t = some s ∧ typeFromStr s = some t) ∧
    (∀ t, 6 ≤ t → typeToStr t = none) ∧
    (∀ s t, typeFromStr s = some t ↔ typeToStr t = some s.toLower) ∧
    (∀ s t, typeFromStr s = some t → t < 6) ∧
    (∀ s, typeFromStr s = none ↔ ∀ t, typeToStr t ≠ some s.toLower) :=
  Cz.C15_names

/-- F4 reproduced in the model: a library meeting every contract for which the pinned zlib wrapper aborts on three
    bytes; the repaired wrapper round-trips them -/
theorem F4_witness : ∃ L, LibOK L ∧ compress false L .zlib none [1, 2, 3] = .abort ∧
    ∃ out, compress true L .zlib none [1, 2, 3] = .ok out ∧ decompress true L .zlib out = .ok [1, 2, 3] :=
  Cz.F4_witness

/-- F5 reproduced in the model: compress("") succeeds, the pinned zstd decompressor reports failure on the result,
    the repaired one returns the empty buffer -/
theorem F5_witness : ∃ L, LibOK L ∧ ∃ out, compress false L .zstd none [] = .ok out ∧
    compress true L .zstd none [] = .ok out ∧
    decompress false L .zstd out = .fail ∧ decompress true L .zstd out = .ok [] :=
  Cz.F5_witness

/-- the zlib size condition of `C15_never_abort` is needed (repaired code, 4 GiB - 11 bytes) -/
theorem zlib_wrap_witness : compress true toy .zlib none (List.replicate (U32 - 11) 0) = .wrap := Cz.zlib_wrap_witness

/-- the contracts are satisfiable, and the main theorem has an instance in which compress always succeeds -/
theorem LibOK_inhabited : LibOK toy ∧ BoundSane toy := ⟨toy_ok, toy_boundSane⟩

example : compress true toy .zstd (some 100) [7, 7, 7] = .ok [3, 0, 0, 0, 7, 7, 7] ∧
    decompress true toy .zstd [3, 0, 0, 0, 7, 7, 7] = .ok [7, 7, 7] := ⟨by decide, by decide⟩

end Mtbl.C15
