import MtblProofs.GateProofs
import MtblModel.OpenExcl
/-
  C08 — Writer accepts only strictly increasing keys and never overwrites a file.
-/
namespace Mtbl.C08

/-- mtbl_writer_add succeeds iff nothing was accepted yet or the key is strictly greater
    (unsigned bytewise, proper prefix first) than the writer's remembered key … -/
theorem C08_gate (w : W) (k v : Bytes) :
    (w.add k v).1 = .success ↔ (w.m.countEntries = 0 ∨ bcmp k w.lastKey = .gt) := Mtbl.C08_gate w k v

/-- … a refused add changes nothing … -/
theorem C08_refused_noop (w : W) (k v : Bytes) (h : (w.add k v).1 = .failure) : (w.add k v).2 = w :=
  Mtbl.C08_refused_noop w k v h

/-- … and the remembered key after an accepted add is that key: the separator written into it while a
    block is cut never survives the call -/
theorem C08_lastkey (w : W) (k v : Bytes) (h : (w.add k v).1 = .success) :
    (w.add k v).2.lastKey = k ∧ (w.add k v).2.m.countEntries = w.m.countEntries + 1 := Mtbl.C08_lastkey w k v h

/-- for EVERY add history (unsorted, repeated keys, any configuration): the result codes are those of
    "accept iff strictly greater than the last ACCEPTED key" -/
theorem C08_history (cfg : WCfg) (pre : Nat) (es : List Entry) :
    ((W.new cfg pre).addAll es).1 = gateSpec none es := Mtbl.C08_history cfg pre es

theorem C08_accepted_sorted (es : List Entry) : StrictSorted (acceptedOf none es) := Mtbl.C08_accepted_sorted es

/-- no assertion (separator post-condition) can stop the process during any add history when the compressor does not fail -/
theorem C08_no_abort (cfg : WCfg) (pre : Nat) (es : List Entry)
    (hc : ∀ raw, cfg.compression ≠ 0 → (cfg.comp raw).isSome) :
    ((W.new cfg pre).addAll es).2.aborted = false := Mtbl.C08_no_abort_history cfg pre es hc

/-- exclusive create: with the flags mtbl_writer_init really passes to open(2) (regenerated from writer.c on
    every run) an existing path — regular file or symbolic link — yields NULL and the file system is unchanged -/
theorem C08_excl (w : FsWorld) (path : String) (node : FsNode) (h : w.lookup path = some node) :
    writerInitPath w path = (false, w) := by
  have hf : (Generated.openFlags.contains "O_CREAT" && Generated.openFlags.contains "O_EXCL") = true := by decide
  unfold writerInitPath posixOpenW
  rw [h]
  simp only [hf, if_true]

/-! non-vacuity -/
example : gateSpec none [⟨[1], []⟩, ⟨[1], []⟩, ⟨[0, 255], []⟩, ⟨[1, 0], []⟩, ⟨[0x80], []⟩] =
    [.success, .failure, .failure, .success, .success] := by decide
example : writerInitPath ⟨[("t.mtbl", .regular [1, 2, 3])]⟩ "t.mtbl" = (false, ⟨[("t.mtbl", .regular [1, 2, 3])]⟩) := by decide
example : (writerInitPath ⟨[]⟩ "t.mtbl").1 = true := by decide

end Mtbl.C08
