import MtblProofs.GateProofs
import MtblModel.OpenExcl
/-
  C08 — Writer accepts only strictly increasing keys and never overwrites a file.
-/
namespace Mtbl.C08

/-- mtbl_writer_add succeeds iff nothing was accepted yet or the key is strictly greater
    (unsigned bytewise, proper prefix first) than the writer's remembered key … -/
theorem C08_gate (w : W) (k v : Bytes) :
    (w.add k v).1 = .success ↔ (w.m.countEntries = 0 ∨ bcmp k w.lastKey = .gt) := Mtbl.C08_gate w k v

/-- … a refused add changes nothing … -/
theorem C08_refused_noop (w : W) (k v : Bytes) (h : (w.add k v).1 = .failure) : (w.add k v).2 = w :=
  Mtbl.C08_refused_noop w k v h

/-- … and the remembered key after an accepted add is that key: the separator written into it while a
    block is cut never survives the call -/
theorem C08_lastkey (w : W) (k v : Bytes) (h : (w.add k v).1 = .success) :
    (w.add k v).2.lastKey = k ∧ (w.add k v).2.m.countEntries = w.m.countEntries + 1 := Mtbl.C08_lastkey w k v h

/-- for EVERY add history (unsorted, repeated keys, any configuration): the result codes are those of
    "accept iff strictly greater than the last ACCEPTED key" -/
theorem C08_history (cfg : WCfg) (pre : Nat) (es : List Entry) :
    ((W.new cfg pre).addAll es).1 = gateSpec none es := Mtbl.C08_history cfg pre es

theorem C08_accepted_sorted (es : List Entry) : StrictSorted (acceptedOf none es) := Mtbl.C08_accepted_sorted es

/-- no assertion (separator post-condition) can stop the process during any add history when the compressor does not fail -/
theorem C08_no_abort (cfg : WCfg) (pre : Nat) (es : List Entry)
    (hc : ∀ raw, cfg.compression ≠ 0 → (cfg.comp raw).isSome) :
    ((W.new cfg pre).addAll es).2.aborted = false := Mtbl.C08_no_abort_history cfg pre es hc

/-- exclusive create: with the flags mtbl_writer_init really passes to open(2) (regenerated from writer.c on
    every run) an existing path — regular file or symbolic link — yields NULL and the file system is unchanged -/
theorem C08_excl (w : FsWorld) (path : String) (node : FsNode) (h : w.lookup path = some node) :
    writerInitPath w path = (false, w) := by
  have hf : (Generated.openFlags.contains "O_CREAT" && Generated.openFlags.contains "O_EXCL") = true := by decide
  unfold writerInitPath posixOpenW
  rw [h]
  simp only [hf, if_true]

/-! ### finding F11 (open, recorded in known_findings.json): entries of 4 GiB and more

  The gate has no size condition — the first add of any key and value is accepted (`F11_accepted`), as C08's "if and only
  if" demands — but the three header fields of an entry go through `mtbl_varint_encode32`: a value of `2^32 + n` bytes is
  declared as `n` bytes (`F11_witness`), so the finished file does not hold the accepted entry.  Every theorem about what
  a file holds (C01, C08_content via C01_roundtrip_any, C09, C10) therefore carries `SizesOK.lens` (< 2^32); the real code is
  run at the excluded point by the `wa.huge` probe of the thorough tier, which reproduces the finding. -/
theorem F11_accepted (cfg : WCfg) (pre : Nat) (k v : Bytes) : ((W.new cfg pre).add k v).1 = .success :=
  (C08_gate _ k v).mpr (Or.inl rfl)

theorem F11_witness (e : Entry) (n : Nat) (hn : n < 4294967296) (hv : e.val.length = 4294967296 + n) (sh : Nat) :
    encEntry sh e = venc32t sh ++ venc32t (e.key.length - sh) ++ venc32 n ++ e.key.drop sh ++ e.val := by
  simp [encEntry, venc32t, hv, Nat.add_mod_left, Nat.mod_eq_of_lt hn]

/-! non-vacuity -/
example : gateSpec none [⟨[1], []⟩, ⟨[1], []⟩, ⟨[0, 255], []⟩, ⟨[1, 0], []⟩, ⟨[0x80], []⟩] =
    [.success, .failure, .failure, .success, .success] := by decide
example : writerInitPath ⟨[("t.mtbl", .regular [1, 2, 3])]⟩ "t.mtbl" = (false, ⟨[("t.mtbl", .regular [1, 2, 3])]⟩) := by decide
example : (writerInitPath ⟨[]⟩ "t.mtbl").1 = true := by decide

end Mtbl.C08
