import MtblProofs.TpProofs
import MtblProofs.AccessProofs
import MtblProofs.OwnerProofs
import MtblProofs.TpKNoRace
/-
  C14 — No data races in the concurrent uses the API allows (pool part).
  A race state = two different threads each have an enabled step, the two steps touch a common location, at least one
  writes it, and no mutex is held by both.  No reachable state of the pool machine is a race state — for every pool
  size, job count, ordered or unordered delivery, every schedule, spurious wake-ups included.

  The access labels of the machine are tied to mtbl/threadpool.c by a table REGENERATED FROM THE C SOURCE on every run
  (Mtbl.Generated.accessSites): `C14_sites_declared` and `C14_declared_in_model` below re-check it.

  SEVERAL CLIENTS ON ONE POOL: `TpK.C14.C14_norace_shared` at the end of this file is the same statement for the k-client
  machine (MtblModel/TpK.lean: the pool owner, any number of clients each with its caller and result handler, the shared
  workers), which runs in lockstep with threadpool.c under the deterministic scheduler (`tpmulti` family).

  PARTIAL (DESIGN.md §8 C14), by nature: the C11 memory model is not formalised (a race state is defined by locksets); the
  writer/sorter field partition (`C14_writer_*`, `C14_sorter_*`), reader immutability
  (`C14_reader_immutable`) and the single writer of the CRC function pointer (`C14_crc_pointer`) are table theorems over
  tables regenerated from the C source on every run, plus the same run-time check; the C11 memory model is not
  formalised.
-/
namespace Tp.C14
variable {max njobs : Nat} {ordered : Bool} {s : St}

theorem C14_norace (hm : 1 ≤ max) (hr : Reachable max njobs ordered s) :
    ∀ w1 w2, raceBetween s w1 w2 = false := Tp.C14_norace hm hr

/-- every access site of the current threadpool.c is declared in the site table -/
theorem C14_sites_declared :
    Mtbl.Generated.accessSites.all (fun s => declared.any (fun d => d.1 == s)) = true := sites_declared

/-- every declared site belonging to a machine step is labelled on that step with exactly the C code's lock set -/
theorem C14_declared_in_model : declared.all (fun d => siteInModel d.1 d.2) = true := declared_in_model

/-- the locking discipline of the pool's and the result queue's shared fields -/
theorem C14_pool_fields_locked : declared.all (fun d =>
    !(d.1.obj == "threadpool" && (d.1.field == "head" || d.1.field == "count")) || d.1.locks.contains "pool" ||
      d.2 == .setup) = true := pool_fields_locked
theorem C14_queue_fields_locked : declared.all (fun d =>
    !(d.1.obj == "resultq") || d.1.locks.contains "rq" || d.2 == .setup || d.2 == .teardown) = true :=
  queue_fields_locked

/-- the reader is immutable after open and iterators own what they write: every assignment to a field of
    struct mtbl_reader or struct block in reader.c / block.c sits in a constructor or destructor; all other assignments go
    to a reader_iter or block_iter (table regenerated from the source on every run) -/
theorem C14_reader_immutable : Mtbl.Generated.readerWrites.all (fun s =>
    s.obj == "reader_iter" || s.obj == "block_iter" || readerCtors.contains s.fn) = true := reader_immutable

/-! ### pooled writer and sorter: the caller and the result-handler thread touch disjoint fields until the join
  (tables `Mtbl.Generated.writerSites` / `sorterSites`, regenerated from mtbl/writer.c and mtbl/sorter.c; roles and
  predicates in MtblProofs/OwnerProofs.lean) -/
open Mtbl.Owner Mtbl.Generated in
theorem C14_writer_partition :
    classified writerRoles writerSites = true ∧ partitioned writerRoles writerSites = true ∧
    immutableOk writerRoles writerSites = true :=
  ⟨writer_classified, writer_partitioned, writer_immutable⟩
open Mtbl.Owner Mtbl.Generated in
theorem C14_writer_join_first :
    afterMarker writerRoles writerSites "_mtbl_writer_finish" "<join>" = true ∧
    afterMarker writerRoles writerSites "mtbl_writer_destroy" "<call:_mtbl_writer_finish>" = true :=
  ⟨writer_finish_joins_first, writer_destroy_finishes_first⟩
open Mtbl.Owner Mtbl.Generated in
theorem C14_sorter_partition :
    classified sorterRoles sorterSites = true ∧ partitioned sorterRoles sorterSites = true ∧
    immutableOk sorterRoles sorterSites = true :=
  ⟨sorter_classified, sorter_partitioned, sorter_immutable⟩
open Mtbl.Owner Mtbl.Generated in
theorem C14_sorter_join_first :
    afterMarker sorterRoles sorterSites "mtbl_sorter_iter" "<join>" = true ∧
    afterMarker sorterRoles sorterSites "mtbl_sorter_destroy" "<join>" = true :=
  ⟨sorter_iter_joins_first, sorter_destroy_joins_first⟩
/-- the CRC implementation pointer has a single writer (the detection function, a constructor) and two possible values -/
theorem C14_crc_pointer :
    Mtbl.Generated.crcDetectionIsConstructor = true ∧
    Mtbl.Generated.crcPointerWrites.all (fun w => (w.2.1 == "<init>" && w.2.2 == "my_crc32c_first") ||
      (w.1 == "libmy/crc32c.c" && w.2.1 == "my_crc32c_runtime_detection" &&
        (w.2.2 == "my_crc32c_sse42" || w.2.2 == "my_crc32c_slicing"))) = true := Mtbl.Owner.crc_pointer_single_writer
example : (Mtbl.Owner.handlerFields Mtbl.Owner.writerRoles Mtbl.Generated.writerSites).contains "pending_offset" = true ∧
    (Mtbl.Owner.handlerFields Mtbl.Owner.sorterRoles Mtbl.Generated.sorterSites).contains "readers" = true :=
  Mtbl.Owner.handler_fields_nonempty

/-- non-vacuity: the race predicate does fire on a machine state outside the reachable set (the caller assigning a job
    to a thread whose worker is in its unlocked section) -/
def racyState : St :=
  { max := 1, njobs := 2, ordered := true, count := 1, cpc := CPc.assign 0,
    thr := #[{ pc := WPc.gotJob, cb := some 0, running := true }] }
example : raceBetween racyState .caller (.worker 0) = true := by decide

end Tp.C14

/-! ### several clients sharing one pool (k-client machine, `MtblModel/TpK.lean`)
  The access labels are those of the one-client machine (`Tp.accesses`, tied to threadpool.c by `C14_declared_in_model`)
  evaluated on each thread's view of the k-client state and relabelled with the client's own queue and its mutex. -/
namespace TpK.C14

/-- **C14, pool part, any number of clients.**  No reachable state of the k-client machine is a race state: for every number
    of clients sharing the pool, every pool size, job count, ordered or unordered delivery and every schedule (spurious
    wake-ups and the choice of the sleeper a signal wakes included), no two different threads — the pool owner, a client's
    caller, a client's result handler, a worker — have enabled steps that touch a common location, at least one writing,
    with no mutex held by both. -/
theorem C14_norace_shared {n max njobs : Nat} {o : Bool} {s : St} (hr : Reachable n max njobs o s) :
    ∀ w1 w2, raceBetweenK s w1 w2 = false := norace_reachable hr

/-- in particular no access of one client's caller (`false`) or result handler (`true`) conflicts with an access of another
    client's caller or handler (enabled or not) -/
theorem C14_no_cross_client_race {n max njobs : Nat} {o : Bool} {s : St} (hr : Reachable n max njobs o s)
    {c1 c2 : Nat} (h1 : c1 < s.cl.size) (h2 : c2 < s.cl.size) (hne : c1 ≠ c2) (r1 r2 : Bool) :
    ∀ a ∈ clientAccesses s c1 r1, ∀ b ∈ clientAccesses s c2 r2, kConflict a b = false :=
  no_cross_client_race hr h1 h2 hne r1 r2

/-- … and a worker thread working for client c (held by c, or carrying an unordered job of c) never conflicts with the caller
    or handler of a different client -/
theorem C14_no_worker_client_race {n max njobs : Nat} {o : Bool} {s : St} (hr : Reachable n max njobs o s)
    {t c c' : Nat} (hc : c < s.cl.size) (hc' : c' < s.cl.size) (hne : c ≠ c') (hw : worksFor s t c) (r : Bool) :
    ∀ a ∈ workerAccesses s t, ∀ b ∈ clientAccesses s c' r, kConflict a b = false :=
  no_worker_client_race hr hc hc' hne hw r

/-- the domain facts hold in EVERY state (no invariant needed): a client's caller and handler touch only pool fields under
    pool->m, fields of their own queue under its mutex, and fields of worker threads the client holds (or of an idle thread,
    under pool->m) -/
theorem C14_client_domain (s : St) (c : Nat) (r : Bool) : (clientAccesses s c r).all (inDomain s c) = true := by
  cases r
  · exact caller_inDomain s c
  · exact handler_inDomain s c

/-- non-vacuity: the race predicate fires outside the reachable set (two clients both holding worker 0: one reads its
    `running` flag without a lock while the other writes it) -/
example : raceBetweenK twoHolders (.client 0) (.client 1) = true := by decide

end TpK.C14

namespace Mtbl.C14sig
open Mtbl.Generated in
/-- every `pthread_cond_signal(&x->c)` of threadpool.c (table `signalLocks`, regenerated from the source on every run: the
    lock/unlock calls of each function in text order) is issued while the caller holds `x->m`.  A signal issued after the
    unlock would race with the thread it wakes: the result handler destroys its queue's condition variable and frees the
    queue as soon as it sees `finished && nthreads == 0`, a worker told to exit is joined and freed — an unsynchronised
    access to (possibly freed) `x->c`.  The machines model each signal as part of the critical section it sits in; this is
    the part of that modelling decision that is checked against the code. -/
theorem C14_signals_under_mutex :
    signalLocks.all (fun s => s.2.2.contains s.2.1) = true ∧ signalLocks.length = signalSites.length :=
  ⟨Mtbl.Owner.signals_under_their_mutex.2.1, Mtbl.Owner.signals_under_their_mutex.1⟩
end Mtbl.C14sig
