import MtblProofs.TpProofs
/-
  C14 — No data races in the concurrent uses the API allows (pool part).
  A race state = two different threads each have an enabled step, the two steps touch a common location, at least one
  writes it, and no mutex is held by both.  No reachable state of the pool machine is a race state.
-/
namespace Tp.C14
variable {max njobs : Nat} {ordered : Bool} {s : St}

theorem C14_norace (hm : 1 ≤ max) (hr : Reachable max njobs ordered s) :
    ∀ w1 w2, raceBetween s w1 w2 = false := Tp.C14_norace hm hr

end Tp.C14
