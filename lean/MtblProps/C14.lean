import MtblProofs.TpProofs
import MtblProofs.AccessProofs
/-
  C14 — No data races in the concurrent uses the API allows (pool part).
  A race state = two different threads each have an enabled step, the two steps touch a common location, at least one
  writes it, and no mutex is held by both.  No reachable state of the pool machine is a race state — for every pool
  size, job count, ordered or unordered delivery, every schedule, spurious wake-ups included.

  The access labels of the machine are tied to mtbl/threadpool.c by a table REGENERATED FROM THE C SOURCE on every run
  (Mtbl.Generated.accessSites): `C14_sites_declared` and `C14_declared_in_model` below re-check it.

  PARTIAL (DESIGN.md §8 C14): the machine has one caller and one result handler; several callers sharing one pool
  (`pool->m`, `pool->c` with several waiters) and the writer/sorter field partition are exercised only at run time under
  ThreadSanitizer (correspondence family `mt`); reader immutability is a regenerated table theorem
  (`C14_reader_immutable`) plus the same run-time check; the C11 memory model is not formalised.
-/
namespace Tp.C14
variable {max njobs : Nat} {ordered : Bool} {s : St}

theorem C14_norace (hm : 1 ≤ max) (hr : Reachable max njobs ordered s) :
    ∀ w1 w2, raceBetween s w1 w2 = false := Tp.C14_norace hm hr

/-- every access site of the current threadpool.c is declared in the site table -/
theorem C14_sites_declared :
    Mtbl.Generated.accessSites.all (fun s => declared.any (fun d => d.1 == s)) = true := sites_declared

/-- every declared site belonging to a machine step is labelled on that step with exactly the C code's lock set -/
theorem C14_declared_in_model : declared.all (fun d => siteInModel d.1 d.2) = true := declared_in_model

/-- the locking discipline of the pool's and the result queue's shared fields -/
theorem C14_pool_fields_locked : declared.all (fun d =>
    !(d.1.obj == "threadpool" && (d.1.field == "head" || d.1.field == "count")) || d.1.locks.contains "pool" ||
      d.2 == .setup) = true := pool_fields_locked
theorem C14_queue_fields_locked : declared.all (fun d =>
    !(d.1.obj == "resultq") || d.1.locks.contains "rq" || d.2 == .setup || d.2 == .teardown) = true :=
  queue_fields_locked

/-- the reader is immutable after open and iterators own what they write: every assignment to a field of
    struct mtbl_reader or struct block in reader.c / block.c sits in a constructor or destructor; all other assignments go
    to a reader_iter or block_iter (table regenerated from the source on every run) -/
theorem C14_reader_immutable : Mtbl.Generated.readerWrites.all (fun s =>
    s.obj == "reader_iter" || s.obj == "block_iter" || readerCtors.contains s.fn) = true := reader_immutable

/-- non-vacuity: the race predicate does fire on a machine state outside the reachable set (the caller assigning a job
    to a thread whose worker is in its unlocked section) -/
def racyState : St :=
  { max := 1, njobs := 2, ordered := true, count := 1, cpc := CPc.assign 0,
    thr := #[{ pc := WPc.gotJob, cb := some 0, running := true }] }
example : raceBetween racyState .caller (.worker 0) = true := by decide

end Tp.C14
