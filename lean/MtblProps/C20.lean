import MtblProofs.WriteAllProofs
/-
  C20 — Short writes and EINTR interruptions of write(2) never change the file; a hard write error stops the
  process loudly and is never reported as success.

  `writeAll buf script` is the model of `_write_all(fd, buf, size)` in mtbl/writer.c as a function of the outcomes
  of the successive write(2) calls (`WOut`: `full`, `short n`, `eintr`, `zero`, `error`; outcomes beyond the end
  of the script are `full`).  The result records the bytes the descriptor received (`accepted`), the
  `(offset, size)` of every write(2) issued (`calls`), and whether the function returned normally (`ok`) or an
  assertion stopped the process.  `_write_all` returns void: the only way it reports anything is by not returning.

  Termination: the loop of the model consumes one outcome per iteration of the C loop and the script is a finite
  list, so the recursion is on `script.length`; after the script every write is `full`, which ends the loop.  An
  infinite run of EINTRs (on which the C loop spins for ever) is outside the model: the theorems speak about every
  FINITE pattern of interruptions and short writes.
-/
namespace Mtbl.C20

/-- for EVERY benign outcome stream — any number of EINTRs, short writes of any positive length, in any order —
    `_write_all` returns normally and the descriptor has received exactly the buffer -/
theorem C20_bytes (buf : Bytes) (script : List WOut) (hb : benign script) (hne : buf ≠ []) :
    (writeAll buf script).ok = true ∧ (writeAll buf script).accepted = buf := Mtbl.C20_bytes buf script hb hne

/-- … i.e. byte-identical to the run in which every write completes in full (the empty script) -/
theorem C20_bytes_eq_full (buf : Bytes) (script : List WOut) (hb : benign script) (hne : buf ≠ []) :
    (writeAll buf script).accepted = (writeAll buf []).accepted ∧
    (writeAll buf script).ok = (writeAll buf []).ok := Mtbl.C20_bytes_eq_full buf script hb hne

/-- every write(2) the loop issues is for exactly the not-yet-accepted suffix of the buffer.
    `CallChain L off cs script` says: the first call of `cs` is `(off, L - off)` with `off < L`, and the rest is a
    chain starting at `off + got`, where `got` is the number of bytes the outcome consumed by this call accepted
    (`WOut.got`: `full ↦ size`, `short n ↦ min n size`, everything else `↦ 0`). -/
theorem C20_calls (buf : Bytes) (script : List WOut) :
    CallChain buf.length 0 (writeAll buf script).calls script := Mtbl.C20_calls buf script

/-- the same, index by index: call `i` is `(off, size)` with `off + size = |buf|` and `size > 0`; the first offset
    is 0; offset `i+1` = offset `i` + bytes accepted by call `i` (which consumed outcome `i` of the script).
    A loop that forgot `buf += n` (offset always 0) breaks the last clause at the first short write, one that forgot
    `size -= n` breaks the first clause. -/
theorem C20_calls_index (buf : Bytes) (script : List WOut) (i : Nat)
    (hi : i < (writeAll buf script).calls.length) :
    ((writeAll buf script).calls[i]).1 + ((writeAll buf script).calls[i]).2 = buf.length ∧
    0 < ((writeAll buf script).calls[i]).2 ∧
    (i = 0 → ((writeAll buf script).calls[i]).1 = 0) ∧
    (∀ hi' : i + 1 < (writeAll buf script).calls.length,
      ((writeAll buf script).calls[i + 1]).1 =
        ((writeAll buf script).calls[i]).1 + (script.getD i .full).got ((writeAll buf script).calls[i]).2) :=
  Mtbl.C20_calls_index buf script i hi

/-- offsets never go backwards -/
theorem C20_calls_mono (buf : Bytes) (script : List WOut) (i : Nat)
    (hi' : i + 1 < (writeAll buf script).calls.length) :
    ((writeAll buf script).calls[i]).1 ≤ ((writeAll buf script).calls[i + 1]).1 :=
  Mtbl.C20_calls_mono buf script i hi'

/-- NO script at all makes `_write_all` return normally with anything but the whole buffer written -/
theorem C20_never_false_success (buf : Bytes) (script : List WOut) :
    (writeAll buf script).ok = true → (writeAll buf script).accepted = buf :=
  Mtbl.C20_never_false_success buf script

/-- every script: normal return with exactly `buf` on the descriptor, or the process stopped -/
theorem C20_dichotomy (buf : Bytes) (script : List WOut) :
    ((writeAll buf script).ok = true ∧ (writeAll buf script).accepted = buf) ∨ (writeAll buf script).ok = false :=
  Mtbl.C20_dichotomy buf script

/-- a hard error stops the process: if, after a benign prefix that leaves bytes outstanding
    (`remaining |buf| pre > 0`), write(2) returns 0 (`zero`, or a "short write" of 0 bytes) or fails with an errno
    other than EINTR (`error`), the assertion fires; the descriptor holds exactly the bytes accepted so far and no
    further outcome is consumed -/
theorem C20_error (buf : Bytes) (pre : List WOut) (bad : WOut) (post : List WOut)
    (hb : benign pre) (hbad : bad = .zero ∨ bad = .error ∨ bad = .short 0)
    (hrem : 0 < remaining buf.length pre) :
    (writeAll buf (pre ++ bad :: post)).ok = false ∧
    (writeAll buf (pre ++ bad :: post)).rest = post ∧
    (writeAll buf (pre ++ bad :: post)).accepted = buf.take (buf.length - remaining buf.length pre) :=
  Mtbl.C20_error buf pre bad post hb hbad hrem

/-- the side condition of `C20_error` is exact: when the benign prefix already completes the buffer, the loop has
    ended and whatever follows in the script is not looked at -/
theorem C20_error_unreached (buf : Bytes) (pre tl : List WOut) (hne : buf ≠ [])
    (hb : benign pre) (hrem : remaining buf.length pre = 0) :
    (writeAll buf (pre ++ tl)).ok = true ∧ (writeAll buf (pre ++ tl)).accepted = buf :=
  Mtbl.C20_error_unreached buf pre tl hne hb hrem

/-- also when it aborts: what reached the descriptor is a prefix of the buffer (nothing is written twice, nothing
    is skipped) -/
theorem C20_accepted_prefix (buf : Bytes) (script : List WOut) :
    (writeAll buf script).accepted <+: buf := Mtbl.C20_accepted_prefix buf script

/-- `_write_all` asserts `size > 0`: an empty buffer stops the process … -/
theorem writeAll_empty (script : List WOut) : (writeAll [] script).ok = false := Mtbl.writeAll_empty script

/-- … and the writer never passes one: length varint ≥ 1 byte, checksum 4 bytes, stored block non-empty -/
theorem frameWrites_nonempty (stored : Bytes) (h : stored ≠ []) : ∀ b ∈ frameWrites stored, b ≠ [] :=
  Mtbl.frameWrites_nonempty stored h

/-- (block builder output is never empty: it ends with the 4-byte restart count; the trailer is 512 bytes) -/
theorem BB_finish_ne_nil (b : BB) : b.finish ≠ [] := Mtbl.BB_finish_ne_nil b
theorem Meta_write_length (m : Meta) : m.write.length = 512 := Mtbl.Meta_write_length m

/-- every write(2) consumes exactly one outcome: `rest` is the script minus one outcome per call issued
    (so a sequence of `_write_all` calls sees each outcome exactly once) -/
theorem writeAll_rest (buf : Bytes) (script : List WOut) :
    (writeAll buf script).rest = script.drop (writeAll buf script).calls.length := Mtbl.writeAll_rest buf script

/-- the three buffers written per block are the block frame of the format -/
theorem C20_frame (stored : Bytes) : (frameWrites stored).flatten = frame stored := Mtbl.C20_frame stored

/-- a whole sequence of `_write_all` calls against ONE outcome stream: under every benign fragmentation all of
    them return and the descriptor has received the concatenation of the buffers -/
theorem C20_many (bufs : List Bytes) (script : List WOut) (hb : benign script) (hne : ∀ b ∈ bufs, b ≠ []) :
    (writeMany bufs script {}).ok = true ∧ (writeMany bufs script {}).accepted = bufs.flatten :=
  Mtbl.C20_many bufs script hb hne

/-- file level, ANY script: normal completion ⇒ exactly the intended bytes -/
theorem C20_many_never_false_success (bufs : List Bytes) (script : List WOut)
    (hok : (writeMany bufs script {}).ok = true) : (writeMany bufs script {}).accepted = bufs.flatten :=
  Mtbl.C20_many_never_false_success bufs script hok

/-- file level, ANY script: what reached the descriptor is a prefix of the intended byte stream -/
theorem C20_many_prefix (bufs : List Bytes) (script : List WOut) :
    (writeMany bufs script {}).accepted <+: bufs.flatten := Mtbl.C20_many_prefix bufs script

/-- a whole file = three writes per block (data blocks, then the index block) and one for the trailer
    (`fileWrites`); its bytes do not depend on how write(2) fragments them -/
theorem C20_file (blocks : List Bytes) (trailer : Bytes) (script : List WOut) (hb : benign script)
    (hblocks : ∀ b ∈ blocks, b ≠ []) (htr : trailer ≠ []) :
    (writeMany (fileWrites blocks trailer) script {}).ok = true ∧
    (writeMany (fileWrites blocks trailer) script {}).accepted = (blocks.map frame).flatten ++ trailer :=
  Mtbl.C20_file blocks trailer script hb hblocks htr

/-- link to the writer model: `W.flush` appends nothing or exactly one block's three buffers (and without
    compression the stored block is non-empty) … -/
theorem C20_flush_writes (w : W) :
    w.flush.out = w.out ∨
    ∃ stored, w.flush.out = w.out ++ (frameWrites stored).flatten ∧ (w.cfg.compression = 0 → stored ≠ []) :=
  Mtbl.C20_flush_writes w

/-- … and `W.finish` = the flushed output followed by the index block's three writes and the trailer write, which
    arrive unchanged under every benign fragmentation -/
theorem C20_finish (w : W) (script : List WOut) (hb : benign script) :
    (writeMany (fileWrites [w.flush.index.finish] w.finishMeta.write) script {}).ok = true ∧
    w.flush.out ++ (writeMany (fileWrites [w.flush.index.finish] w.finishMeta.write) script {}).accepted
      = w.finish := Mtbl.C20_finish w script hb

/-- five bytes, two EINTRs before and three between two short writes: all five arrive, every retry re-issues the
    same suffix -/
example :
    writeAll [1, 2, 3, 4, 5] [.eintr, .short 2, .eintr, .eintr, .short 1, .full] =
      { accepted := [1, 2, 3, 4, 5], calls := [(0, 5), (0, 5), (2, 3), (2, 3), (2, 3), (3, 2)], ok := true, rest := [] } := by
  decide +kernel

/-- an I/O error after two accepted bytes: the process stops, two bytes are on the descriptor -/
example :
    writeAll [1, 2, 3, 4, 5] [.short 2, .error, .full] =
      { accepted := [1, 2], calls := [(0, 5), (2, 3)], ok := false, rest := [.full] } := by
  decide +kernel

end Mtbl.C20
