import MtblProps.Common
/-
  C11 — Every well-formed file is readable, not only the files this writer produces.
  `EFile` (MtblModel/Format.lean) is an encoder written from the format description, parameterised by every
  choice the format leaves open; `FileOK f comp decomp` = the choices are legal, the codec round-trips, sizes fit.
  For every such `f` the reader returns exactly the encoded entries — for full iteration, for the three lookups and
  for every seek history.   (R ∘ E)
-/
namespace Mtbl.C11

open RI (drainOut)

/-- **C11.**  For EVERY legal encoding `f` — format version 1 or 2, restart points anywhere (first at entry 0,
    strictly increasing), any number of shared key bytes up to the longest common prefix (0 at restart points), any
    separator with `last key of block ≤ separator < first key of next block`, any split of the entries into
    non-empty blocks, any foreign prefix, compressed or not, 32- or 64-bit restart arrays (any threshold `thr`) —
    the file opens, with or without checksum verification, and the reader `r` obtained returns exactly the
    encoded entries `f.entries`:

    1. **full iteration** returns them all, in order, then failure (NULL iterator only for the empty table);
    2. **lookups** `get k` / `get_prefix p` / `get_range k0 k1` return exactly the matching entries, in order,
       then failure (NULL iterator only when nothing matches);
    3. **seek histories**: on every kind of iterator with any start key, every finite history of `next` and
       `seek` calls returns what the abstract cursor over `f.entries` returns; the reader never aborts. -/
theorem C11_readable (f : EFile) (comp : Bytes → Bytes) (decomp : Nat → Bytes → Option Bytes)
    (hf : FileOK f comp decomp) (verify : Bool) :
    ∃ r, readerOpen true f.thr decomp verify (f.encode comp) = .ok r ∧
      -- 1. full iteration
      ((f.entries = [] ∧ readerIterInit true r none .iter = some none) ∨
       (∃ it₀, readerIterInit true r none .iter = some (some it₀) ∧
          (∀ m, rRun it₀ (List.replicate m .next) = some (drainOut f.entries m)) ∧
          rRun it₀ (List.replicate (f.entries.length + 1) .next) = some (f.entries.map some ++ [none]))) ∧
      -- 2. lookups
      (∀ k : Bytes,
        ((f.entries.filter fun e => bcmp e.key k == .eq) = [] ∧
          readerIterInit true r (some k) (.get k) = some none) ∨
        (∃ it₀, readerIterInit true r (some k) (.get k) = some (some it₀) ∧
          ∀ m, rRun it₀ (List.replicate m .next) =
            some (drainOut (f.entries.filter fun e => bcmp e.key k == .eq) m))) ∧
      (∀ p : Bytes,
        ((f.entries.filter fun e => isPrefix p e.key) = [] ∧
          readerIterInit true r (some p) (.pfx p) = some none) ∨
        (∃ it₀, readerIterInit true r (some p) (.pfx p) = some (some it₀) ∧
          ∀ m, rRun it₀ (List.replicate m .next) =
            some (drainOut (f.entries.filter fun e => isPrefix p e.key) m))) ∧
      (∀ k0 k1 : Bytes,
        ((f.entries.filter fun e => ble k0 e.key && ble e.key k1) = [] ∧
          readerIterInit true r (some k0) (.range k1) = some none) ∨
        (∃ it₀, readerIterInit true r (some k0) (.range k1) = some (some it₀) ∧
          ∀ m, rRun it₀ (List.replicate m .next) =
            some (drainOut (f.entries.filter fun e => ble k0 e.key && ble e.key k1) m))) ∧
      -- 3. seek histories
      (∀ (kind : Kind) (start : Option Bytes),
        (readerIterInit true r start kind = some none ∧
          lowerBound f.entries (start.getD []) = f.entries.length) ∨
        (∃ it₀, readerIterInit true r start kind = some (some it₀) ∧
          ∀ ops : List IOp,
            rRun it₀ ops = some (specRun kind f.entries ⟨lowerBound f.entries (start.getD []), false⟩ ops))) := by
  obtain ⟨r, t, hopen, ok, hent⟩ := hf.opens verify
  refine ⟨r, hopen, ?_⟩
  rw [← hent]
  exact ⟨ok.iterate, ok.get, ok.prefix, ok.range, ok.history⟩

/-- **C11 (open)**: the first half on its own, with the hypotheses spelled out instead of bundled -/
theorem C11_opens (f : EFile) (comp : Bytes → Bytes) (decomp : Nat → Bytes → Option Bytes) (verify : Bool)
    (hl : f.legal comp = true)
    (hcodec : f.compression ≠ 0 → ∀ raw, decomp f.compression (comp raw) = some raw)
    (hthr : f.thr < 2^32)
    (hsize : (f.encode comp).length < 2^64)
    (hnr : ∀ b ∈ f.blocks, b.restarts.length < 2^32 - 1) (hnri : f.indexRestarts.length < 2^32 - 1)
    (hraw : f.compression ≠ 0 → ∀ b ∈ f.blocks, (b.encode f.thr).length < 2^64)
    (hv1 : f.version = .v1 →
      (∀ b ∈ f.blocks, (if f.compression = 0 then b.encode f.thr else comp (b.encode f.thr)).length < 2^32) ∧
      ((f.indexBlock comp).encode f.thr).length < 2^32)
    (hcompr : f.compression < 2^64) :
    FileOK f comp decomp ∧
    ∃ r t, readerOpen true f.thr decomp verify (f.encode comp) = .ok r ∧ TableOK r t ∧ t.entries = f.entries :=
  ⟨⟨hl, hcodec, hthr, hsize, hnr, hnri, hraw, hv1, hcompr⟩,
   EFile.open_ok f comp decomp verify hl hcodec hthr hsize hnr hnri hraw hv1 hcompr⟩

/-- **C11 covers the writer**: the file the writer produces is one of the legal encodings (so C01–C03 on writer output
    are instances of C11) -/
theorem C11_covers_writer (cfg : WCfg) (comp : Bytes → Bytes) (decomp : Nat → Bytes → Option Bytes)
    (hw : WriterOK cfg comp decomp) (pre : Bytes) (es : List Entry) (hs : StrictSorted es)
    (hz : SizesOK cfg comp pre es) :
    FileOK (canonFile cfg pre es) comp decomp ∧
    (canonFile cfg pre es).encode comp = pre ++ Writer.run cfg pre.length es ∧
    (canonFile cfg pre es).entries = es :=
  ⟨hw.fileOK hs hz, (W_refines_format cfg comp hw.comp_eq pre es hs).symm, canonFile_entries cfg pre es⟩

/-! ### non-vacuity: files the writer would never produce -/

/-- the two-block example as v1 and as v2: non-maximal sharing (1 of 3 possible bytes), two restart points in a
    two-entry block, a separator `"ac"` that is not a key, two foreign bytes -/
example (ver : FVersion) (verify : Bool) := C11_readable _ _ _ (FileEnc.exFile_ok ver) verify

/-- the same with `thr := 8`: all three blocks carry 64-bit restart arrays -/
example (ver : FVersion) (verify : Bool) := C11_readable _ _ _ (FileEnc.exFile64_ok ver) verify

example : (FileEnc.exFile .v1).legal id = true ∧ (FileEnc.exFile .v2).legal id = true ∧
    (FileEnc.exFile64 .v1).legal id = true ∧ (FileEnc.exFile64 .v2).legal id = true := by decide +kernel

/-- the 64-bit restart arrays are really there: with `thr := 8` every block is longer than with the default threshold
    (4 more bytes per restart point), so the two encodings differ -/
example : ((FileEnc.exFile64 .v2).blocks.map fun b => (b.encode 8).length) = [32, 31] ∧
    ((FileEnc.exFile .v2).blocks.map fun b => (b.encode 4294967295).length) = [28, 23] ∧
    (FileEnc.exFile64 .v2).encode id ≠ (FileEnc.exFile .v2).encode id := by decide +kernel

/-- a compressed legal file (toy codec: blocks stored reversed), and the empty table -/
def exFileZ (ver : FVersion) : EFile := { FileEnc.exFile ver with compression := 1 }

theorem exFileZ_ok (ver : FVersion) : FileOK (exFileZ ver) List.reverse (fun _ s => some s.reverse) := by
  cases ver
  · exact ⟨by decide +kernel, fun _ raw => by simp, by decide +kernel, by decide +kernel, by decide +kernel,
      by decide +kernel, fun _ => by decide +kernel, fun _ => by decide +kernel, by decide +kernel⟩
  · exact ⟨by decide +kernel, fun _ raw => by simp, by decide +kernel, by decide +kernel, by decide +kernel,
      by decide +kernel, fun _ => by decide +kernel, (fun h => by cases h), by decide +kernel⟩

example (ver : FVersion) (verify : Bool) := C11_readable _ _ _ (exFileZ_ok ver) verify

theorem exEmpty_ok (ver : FVersion) : FileOK (FileEnc.exEmpty ver) id (fun _ _ => none) := by
  cases ver
  · exact ⟨by decide +kernel, fun h => absurd rfl h, by decide +kernel, by decide +kernel, by decide +kernel,
      by decide +kernel, fun h => absurd rfl h, fun _ => by decide +kernel, by decide +kernel⟩
  · exact ⟨by decide +kernel, fun h => absurd rfl h, by decide +kernel, by decide +kernel, by decide +kernel,
      by decide +kernel, fun h => absurd rfl h, (fun h => by cases h), by decide +kernel⟩

example (ver : FVersion) (verify : Bool) := C11_readable _ _ _ (exEmpty_ok ver) verify

end Mtbl.C11
