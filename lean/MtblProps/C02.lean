import MtblProps.Common
/-
  C02 — Lookups: `get`, `get_prefix`, `get_range` return exactly the entries of the table that match,
  in order, then failure; first on the writer's output (R ∘ E ∘ W), then on any legal encoding (R ∘ E).
  `drainOut F m` = what `m` successive `next` calls return: the first `m` entries of `F`, padded with failures.
-/
namespace Mtbl.C02

open RI (drainOut)

/-! ### on the writer's output -/

/-- **C02 (get).**  On the file written from strictly increasing adds `es`: for every key `k` (present or
    not, any length, also the empty key), the `get k` iterator returns exactly the entries of `es` whose key
    equals `k` (at most one), then failure for ever.  A NULL iterator (= always failing) is handed out only
    when there is no such entry. -/
theorem C02_get (cfg : WCfg) (comp : Bytes → Bytes) (decomp : Nat → Bytes → Option Bytes)
    (hw : WriterOK cfg comp decomp) (pre : Bytes) (es : List Entry) (hs : StrictSorted es)
    (hz : SizesOK cfg comp pre es) (verify : Bool) :
    ∃ r, readerOpen true cfg.thr decomp verify (pre ++ Writer.run cfg pre.length es) = .ok r ∧
      ∀ k : Bytes,
        ((es.filter fun e => bcmp e.key k == .eq) = [] ∧
          readerIterInit true r (some k) (.get k) = some none) ∨
        (∃ it₀, readerIterInit true r (some k) (.get k) = some (some it₀) ∧
          ∀ m, rRun it₀ (List.replicate m .next) =
            some (drainOut (es.filter fun e => bcmp e.key k == .eq) m)) := by
  obtain ⟨r, t, hopen, ok, hent⟩ := hw.opens hs hz verify
  exact ⟨r, hopen, fun k => by rw [← hent]; exact ok.get k⟩

/-- **C02 (prefix).**  The `get_prefix p` iterator returns exactly the entries of `es` whose key starts with
    `p`, in order, then failure; NULL only when there is none. -/
theorem C02_prefix (cfg : WCfg) (comp : Bytes → Bytes) (decomp : Nat → Bytes → Option Bytes)
    (hw : WriterOK cfg comp decomp) (pre : Bytes) (es : List Entry) (hs : StrictSorted es)
    (hz : SizesOK cfg comp pre es) (verify : Bool) :
    ∃ r, readerOpen true cfg.thr decomp verify (pre ++ Writer.run cfg pre.length es) = .ok r ∧
      ∀ p : Bytes,
        ((es.filter fun e => isPrefix p e.key) = [] ∧
          readerIterInit true r (some p) (.pfx p) = some none) ∨
        (∃ it₀, readerIterInit true r (some p) (.pfx p) = some (some it₀) ∧
          ∀ m, rRun it₀ (List.replicate m .next) =
            some (drainOut (es.filter fun e => isPrefix p e.key) m)) := by
  obtain ⟨r, t, hopen, ok, hent⟩ := hw.opens hs hz verify
  exact ⟨r, hopen, fun p => by rw [← hent]; exact ok.prefix p⟩

/-- **C02 (range).**  The `get_range k0 k1` iterator returns exactly the entries of `es` with
    `k0 ≤ key ≤ k1` (both ends inclusive; nothing when `k1 < k0`), in order, then failure; NULL only when
    there is none. -/
theorem C02_range (cfg : WCfg) (comp : Bytes → Bytes) (decomp : Nat → Bytes → Option Bytes)
    (hw : WriterOK cfg comp decomp) (pre : Bytes) (es : List Entry) (hs : StrictSorted es)
    (hz : SizesOK cfg comp pre es) (verify : Bool) :
    ∃ r, readerOpen true cfg.thr decomp verify (pre ++ Writer.run cfg pre.length es) = .ok r ∧
      ∀ k0 k1 : Bytes,
        ((es.filter fun e => ble k0 e.key && ble e.key k1) = [] ∧
          readerIterInit true r (some k0) (.range k1) = some none) ∨
        (∃ it₀, readerIterInit true r (some k0) (.range k1) = some (some it₀) ∧
          ∀ m, rRun it₀ (List.replicate m .next) =
            some (drainOut (es.filter fun e => ble k0 e.key && ble e.key k1) m)) := by
  obtain ⟨r, t, hopen, ok, hent⟩ := hw.opens hs hz verify
  exact ⟨r, hopen, fun k0 k1 => by rw [← hent]; exact ok.range k0 k1⟩

/-- draining completely: `|es| + 1` calls return the whole selection followed by at least one failure -/
theorem C02_drain_all (es : List Entry) (P : Entry → Bool) :
    drainOut (es.filter P) (es.length + 1) =
      (es.filter P).map some ++ List.replicate (es.length + 1 - (es.filter P).length) none :=
  drainOut_filter es P

/-! ### on any legal encoding (independent encoder: v1 or v2, any restart positions, any sharing, any
    separators, any block split) -/

/-- **C02 (get)** on any legal encoding `f` -/
theorem C02_get_file (f : EFile) (comp : Bytes → Bytes) (decomp : Nat → Bytes → Option Bytes)
    (hf : FileOK f comp decomp) (verify : Bool) :
    ∃ r, readerOpen true f.thr decomp verify (f.encode comp) = .ok r ∧
      ∀ k : Bytes,
        ((f.entries.filter fun e => bcmp e.key k == .eq) = [] ∧
          readerIterInit true r (some k) (.get k) = some none) ∨
        (∃ it₀, readerIterInit true r (some k) (.get k) = some (some it₀) ∧
          ∀ m, rRun it₀ (List.replicate m .next) =
            some (drainOut (f.entries.filter fun e => bcmp e.key k == .eq) m)) := by
  obtain ⟨r, t, hopen, ok, hent⟩ := hf.opens verify
  exact ⟨r, hopen, fun k => by rw [← hent]; exact ok.get k⟩

/-- **C02 (prefix)** on any legal encoding `f` -/
theorem C02_prefix_file (f : EFile) (comp : Bytes → Bytes) (decomp : Nat → Bytes → Option Bytes)
    (hf : FileOK f comp decomp) (verify : Bool) :
    ∃ r, readerOpen true f.thr decomp verify (f.encode comp) = .ok r ∧
      ∀ p : Bytes,
        ((f.entries.filter fun e => isPrefix p e.key) = [] ∧
          readerIterInit true r (some p) (.pfx p) = some none) ∨
        (∃ it₀, readerIterInit true r (some p) (.pfx p) = some (some it₀) ∧
          ∀ m, rRun it₀ (List.replicate m .next) =
            some (drainOut (f.entries.filter fun e => isPrefix p e.key) m)) := by
  obtain ⟨r, t, hopen, ok, hent⟩ := hf.opens verify
  exact ⟨r, hopen, fun p => by rw [← hent]; exact ok.prefix p⟩

/-- **C02 (range)** on any legal encoding `f` -/
theorem C02_range_file (f : EFile) (comp : Bytes → Bytes) (decomp : Nat → Bytes → Option Bytes)
    (hf : FileOK f comp decomp) (verify : Bool) :
    ∃ r, readerOpen true f.thr decomp verify (f.encode comp) = .ok r ∧
      ∀ k0 k1 : Bytes,
        ((f.entries.filter fun e => ble k0 e.key && ble e.key k1) = [] ∧
          readerIterInit true r (some k0) (.range k1) = some none) ∨
        (∃ it₀, readerIterInit true r (some k0) (.range k1) = some (some it₀) ∧
          ∀ m, rRun it₀ (List.replicate m .next) =
            some (drainOut (f.entries.filter fun e => ble k0 e.key && ble e.key k1) m)) := by
  obtain ⟨r, t, hopen, ok, hent⟩ := hf.opens verify
  exact ⟨r, hopen, fun k0 k1 => by rw [← hent]; exact ok.range k0 k1⟩

/-! ### non-vacuity -/

/-- the hypotheses hold for the five-block example; the three selections asked of it are not trivial:
    `get [1,2]` finds one entry, prefix `[2]` three, range `[1] … [1,2,3]` three, `get [5]` none -/
example (verify : Bool) :
    ∃ r, readerOpen true WriterEx.cfg.thr (fun _ _ => none) verify ([0xAA, 0xBB] ++ Writer.run WriterEx.cfg 2 WriterEx.es)
        = .ok r ∧
      ∀ k : Bytes,
        ((WriterEx.es.filter fun e => bcmp e.key k == .eq) = [] ∧
          readerIterInit true r (some k) (.get k) = some none) ∨
        (∃ it₀, readerIterInit true r (some k) (.get k) = some (some it₀) ∧
          ∀ m, rRun it₀ (List.replicate m .next) =
            some (drainOut (WriterEx.es.filter fun e => bcmp e.key k == .eq) m)) :=
  C02_get _ _ _ WriterEx.writerOK [0xAA, 0xBB] _ WriterEx.sorted WriterEx.sizesOK verify

example : (WriterEx.es.filter fun e => bcmp e.key [1, 2] == .eq) = [⟨[1, 2], []⟩] ∧
    (WriterEx.es.filter fun e => isPrefix [2] e.key) = [⟨[2], [9]⟩, ⟨[2, 0], [9]⟩, ⟨[2, 1], [9]⟩] ∧
    (WriterEx.es.filter fun e => ble [1] e.key && ble e.key [1, 2, 3]).map (·.key) = [[1], [1, 2], [1, 2, 3]] ∧
    (WriterEx.es.filter fun e => bcmp e.key [5] == .eq) = [] := by decide +kernel

example (verify : Bool) := C02_prefix _ _ _ WriterEx.writerOKZ [0xAA, 0xBB] _ WriterEx.sorted WriterEx.sizesOKZ verify
example (verify : Bool) := C02_range _ _ _ WriterEx.writerOK [0xAA, 0xBB] _ WriterEx.sorted WriterEx.sizesOK verify
example (ver : FVersion) (verify : Bool) := C02_get_file _ _ _ (FileEnc.exFile_ok ver) verify
example (ver : FVersion) (verify : Bool) := C02_prefix_file _ _ _ (FileEnc.exFile_ok ver) verify
example (ver : FVersion) (verify : Bool) := C02_range_file _ _ _ (FileEnc.exFile64_ok ver) verify

end Mtbl.C02
