import MtblProofs.MergerProofs
import MtblProofs.SourceProofs
import MtblProps.C01
/-
  C04 — Merger output is the sorted union of its sources, folded by the merge function.
  Sources are abstract cursors obeying the iterator contract (readers by C03, mergers, sorters, user sources).
  `c.fixF2 = true` is the repaired code (finding F2: the pinned code drops the entry with the empty key).
-/
namespace Mtbl.C04

/-- with a merge function whose calls succeed: every distinct key exactly once, ascending, and the value of each
    key is the fold of the merge function over ALL values the sources hold for it, each used exactly once (in some order) -/
theorem C04_merge (c : MCfg) (hF2 : c.fixF2 = true)
    (htot : ∀ a b, hle c a b = true ∨ hle c b a = true)
    (htrans : ∀ a b d, hle c a b = true → hle c b d = true → hle c a d = true)
    {f : Bytes → Bytes → Bytes → Option Bytes} (hm : c.merge = some f) (hok : ∀ k a b, f k a b ≠ none)
    (srcs : Array Src) (hs : ∀ s ∈ srcs.toList, Sorted s.es) (fuel : Nat)
    (hfuel : (srcs.toList.map fun s => s.es.length).sum + 1 ≤ fuel) :
    StrictSorted (mergerDrain c fuel (mergerInit c srcs)) ∧
    (∀ k, (∃ e ∈ mergerDrain c fuel (mergerInit c srcs), e.key = k) ↔
      (∃ e ∈ srcs.toList.flatMap Src.remaining, e.key = k)) ∧
    ∀ e ∈ mergerDrain c fuel (mergerInit c srcs),
      ∃ l, l.Perm (valuesOf e.key (srcs.toList.flatMap Src.remaining)) ∧ foldl1? f e.key l = some e.val :=
  mergerDrain_merge c hF2 htot htrans hm hok srcs hs fuel hfuel

/-- without a merge function: every source entry is emitted (a permutation of the inputs), in ascending key order,
    and in (key, dupsort) order when the sources are sorted that way -/
theorem C04_nomerge (c : MCfg) (hF2 : c.fixF2 = true)
    (htot : ∀ a b, hle c a b = true ∨ hle c b a = true)
    (htrans : ∀ a b d, hle c a b = true → hle c b d = true → hle c a d = true)
    (hm : c.merge = none) (srcs : Array Src) (hs : ∀ s ∈ srcs.toList, Sorted s.es) (fuel : Nat)
    (hfuel : (srcs.toList.map fun s => s.es.length).sum + 1 ≤ fuel) :
    (mergerDrain c fuel (mergerInit c srcs)).Perm (srcs.toList.flatMap Src.remaining) ∧
    Sorted (mergerDrain c fuel (mergerInit c srcs)) ∧
    (DSrcs c srcs → DSorted c (mergerDrain c fuel (mergerInit c srcs))) :=
  mergerDrain_nomerge c hF2 htot htrans hm srcs hs fuel hfuel

/-- mtbl_source_write on a merger with a merge function: every merged entry is accepted by the writer, the call reports
    success and the writer ends in the state of adding the merged content entry by entry — so the file it finishes is
    `Writer.run` of the merged content, which reads back as exactly that content (C01) -/
theorem C04_source_write (c : MCfg) (hF2 : c.fixF2 = true)
    (htot : ∀ a b, hle c a b = true ∨ hle c b a = true)
    (htrans : ∀ a b d, hle c a b = true → hle c b d = true → hle c a d = true)
    {f : Bytes → Bytes → Bytes → Option Bytes} (hm : c.merge = some f) (hok : ∀ k a b, f k a b ≠ none)
    (srcs : Array Src) (hs : ∀ s ∈ srcs.toList, Sorted s.es) (fuel : Nat)
    (hfuel : (srcs.toList.map fun s => s.es.length).sum + 1 ≤ fuel) (cfg : WCfg) (pre : Nat) :
    (W.new cfg pre).writeFrom (mergerDrain c fuel (mergerInit c srcs)) =
      (.success, ((W.new cfg pre).addAll (mergerDrain c fuel (mergerInit c srcs))).2) :=
  sourceWrite_sorted cfg pre _ (mergerDrain_merge c hF2 htot htrans hm hok srcs hs fuel hfuel).1

/-- … and for any source (e.g. a merger without a merge function that delivers a key twice): the copy stops at the first
    entry the writer refuses, reports failure, and the writer holds exactly the entries before it -/
theorem C04_source_write_stops (w : W) (pre : List Entry) (e : Entry) (rest : List Entry)
    (hp : ∀ r ∈ (w.addAll pre).1, r = Res.success) (he : ((w.addAll pre).2.add e.key e.val).1 = .failure) :
    w.writeFrom (pre ++ e :: rest) = (.failure, (w.addAll pre).2) := writeFrom_stops w pre e rest hp he

/-- the merge → write → read pipeline of `mtbl_merge` / `mtbl_source_write`: the merged content of a merger with a merge
    function, written entry by entry into a fresh writer (any configuration, any foreign prefix) and finished, opens and
    iterates back to exactly the merged content — C04_merge ∘ C04_source_write ∘ C01_roundtrip -/
theorem C04_merge_write_read (c : MCfg) (hF2 : c.fixF2 = true)
    (htot : ∀ a b, hle c a b = true ∨ hle c b a = true)
    (htrans : ∀ a b d, hle c a b = true → hle c b d = true → hle c a d = true)
    {f : Bytes → Bytes → Bytes → Option Bytes} (hm : c.merge = some f) (hok : ∀ k a b, f k a b ≠ none)
    (srcs : Array Src) (hs : ∀ s ∈ srcs.toList, Sorted s.es) (fuel : Nat)
    (hfuel : (srcs.toList.map fun s => s.es.length).sum + 1 ≤ fuel)
    (cfg : WCfg) (comp : Bytes → Bytes) (decomp : Nat → Bytes → Option Bytes) (hw : WriterOK cfg comp decomp)
    (pre : Bytes) (hz : SizesOK cfg comp pre (mergerDrain c fuel (mergerInit c srcs))) (verify : Bool) :
    let out := mergerDrain c fuel (mergerInit c srcs)
    let w := (W.new cfg pre.length).writeFrom out
    w.1 = .success ∧
    ∃ r, readerOpen true cfg.thr decomp verify (pre ++ w.2.finish) = .ok r ∧
      ((out = [] ∧ readerIterInit true r none .iter = some none) ∨
       (∃ it₀, readerIterInit true r none .iter = some (some it₀) ∧
          rRun it₀ (List.replicate (out.length + 1) .next) = some (out.map some ++ [none]))) := by
  intro out w
  have hsorted := (mergerDrain_merge c hF2 htot htrans hm hok srcs hs fuel hfuel).1
  have hw' : w = (.success, ((W.new cfg pre.length).addAll out).2) := sourceWrite_sorted cfg pre.length out hsorted
  refine ⟨by rw [hw'], ?_⟩
  have := Mtbl.C01.C01_roundtrip cfg comp decomp hw pre out hsorted hz verify
  rw [hw']
  exact this

/-- one call, with a merge function: exhausted, or the minimum key with all its values folded once each,
    or — if the callback reports failure while that key is being assembled — the call returns failure -/
theorem C04_step (c : MCfg) (hF2 : c.fixF2 = true)
    (htot : ∀ a b, hle c a b = true ∨ hle c b a = true)
    (htrans : ∀ a b d, hle c a b = true → hle c b d = true → hle c a d = true)
    {m : MIter} {f : Bytes → Bytes → Bytes → Option Bytes}
    (hi : MInv c m) (hm : c.merge = some f) (hfin : m.finished = false) :
    (∃ m', mergerNext c m = (.fail, m') ∧ pool m = [] ∧ m'.finished = true ∧ MInv c m') ∨
    (∃ k v m', mergerNext c m = (.ok k v, m') ∧ MInv c m' ∧
      ∃ grp : List Entry, grp ≠ [] ∧ (∀ e ∈ grp, e.key = k) ∧ (pool m).Perm (grp ++ pool m') ∧
        (∀ e ∈ pool m', bcmp k e.key = .lt) ∧
        ∃ l, l.Perm (grp.map (·.val)) ∧ foldl1? f k l = some v) ∨
    (∃ m', mergerNext c m = (.fail, m') ∧
      ∃ (k : Bytes) (pre : List Entry) (b : Entry) (rest : List Entry) (a' : Bytes),
        pre ≠ [] ∧ (∀ x ∈ pre, x.key = k) ∧ b.key = k ∧ (pool m).Perm (pre ++ b :: rest) ∧
        (∀ x ∈ pool m, bcmp k x.key ≠ .gt) ∧
        foldl1? f k (pre.map (·.val)) = some a' ∧ f k a' b.val = none) :=
  mergerNext_merge c hF2 htot htrans hi hm hfin

/-- the initial state satisfies the invariant and holds exactly what the sources deliver -/
theorem C04_init (c : MCfg)
    (htot : ∀ a b, hle c a b = true ∨ hle c b a = true)
    (htrans : ∀ a b d, hle c a b = true → hle c b d = true → hle c a d = true)
    (srcs : Array Src) (hs : ∀ s ∈ srcs.toList, Sorted s.es) :
    MInv c (mergerInit c srcs) ∧ (pool (mergerInit c srcs)).Perm (srcs.toList.flatMap Src.remaining) :=
  let h := mergerInit_inv c htot htrans srcs hs; ⟨h.1, h.2.1⟩

/-- the order hypotheses are satisfiable: without dupsort … -/
theorem C04_order_no_dupsort (c : MCfg) (h : c.dupsort = none) :
    (∀ a b, hle c a b = true ∨ hle c b a = true) ∧ (∀ a b d, hle c a b = true → hle c b d = true → hle c a d = true) :=
  ⟨hle_total_of_no_dupsort c h, hle_trans_of_no_dupsort c h⟩

/-- finding F2: with the pinned test (`cur_key` non-empty means "assembling") the entry with the empty key is dropped -/
theorem F2_witness :
    let srcs : Array Src := #[{ es := [⟨[], [118, 48]⟩, ⟨[97], [118, 49]⟩] }]
    let bad : MCfg := { merge := none, dupsort := none, fixF2 := false }
    let good : MCfg := { merge := none, dupsort := none, fixF2 := true }
    mergerDrain bad 5 (mergerInit bad srcs) = [⟨[97], [118, 49]⟩] ∧
    mergerDrain good 5 (mergerInit good srcs) = [⟨[], [118, 48]⟩, ⟨[97], [118, 49]⟩] := Mtbl.F2_witness

end Mtbl.C04
