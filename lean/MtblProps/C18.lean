import MtblProofs.ResProofs
/-
  C18 — Destroying all objects releases every descriptor, mapping, temp file, allocation.

  Machine: MtblModel/Res.lean — the resource effects of the API calls as the code performs them (writers: one
  descriptor; readers: one mapping, none when the file is not a table; mergers, iterators, pools: heap only; sorters: one
  mapping per spilled chunk, plus whatever `_mtbl_sorter_write_chunk` fails to release; filesets: the shared set's
  loaded readers, reference-counted across `dup`, reloaded only with no iterator open; merger iterators pin every
  fileset below them).  Requests are ARBITRARY: an ill-formed request (unknown slot, slot in use, wrong kind) is a no-op,
  so "every finite history" needs no well-formedness hypothesis.

  Heap is counted in abstract units and tied to the real process only at the end of a history (zero / not zero);
  descriptors, mappings and temp files are compared after every request (correspondence family `res`).
-/
namespace Res.C18

/-- the ledger always equals what the live objects and live shared filesets hold, plus what was leaked for good -/
theorem C18_invariant (ops : List Op) : (run {} ops).ledger = total (run {} ops) :=
  inv_run inv_init ops

/-- C18 (repaired sorter): whatever the history, once every object has been destroyed the process holds no additional
    descriptor, mapping, temp file or heap object -/
theorem C18_balanced (ops : List Op) (hf : freshSorters ops) (hall : allFree (run {} ops) = true) :
    (run {} ops).ledger = 0 := by
  have h := C18_invariant ops
  rw [total_of_allFree hall] at h
  rw [h]
  exact (clean_run clean_init ops hf).2.2.1

/-- with any combination of the two repairs (in particular the pinned code): what is left when everything is destroyed is
    exactly what the sorter's chunk code leaked -/
theorem C18_balanced_pinned_partial (f6 f10 : Bool) (ops : List Op)
    (hall : allFree (run { fixF6 := f6, fixF10 := f10 } ops) = true) :
    (run { fixF6 := f6, fixF10 := f10 } ops).ledger = (run { fixF6 := f6, fixF10 := f10 } ops).leaked := by
  have h : Inv (run { fixF6 := f6, fixF10 := f10 } ops) := by
    apply inv_run
    unfold Inv total
    show ({} : Ledger) = sumL ((List.replicate 64 Obj.free).map holds) + sumL ([].map holdsSet?) + ({} : Ledger)
    rw [List.map_replicate, holds_free, sumL_replicate_zero]
    simp only [List.map_nil, sumL, default_eq_zero]; abel
  rw [← total_of_allFree hall]; exact h

/-- nothing is ever written off as leaked by the repaired code -/
theorem C18_no_leak (ops : List Op) (hf : freshSorters ops) : (run {} ops).leaked = 0 :=
  (clean_run clean_init ops hf).2.2.1

/-- finding F6 in the machine: one spilled chunk, sorter destroyed — the pinned code keeps a descriptor -/
def f6History : List Op :=
  [.sorter 0 { limit := 64 }, .sadd 0 3 30, .sadd 0 1 30, .destroy 0]
theorem F6_witness : allFree (run { fixF6 := false, fixF10 := false } f6History) = true ∧
    (run { fixF6 := false, fixF10 := false } f6History).ledger.fds = 1 ∧
    (run {} f6History).ledger = 0 := by decide

/-- finding F10 in the machine: the merge callback fails inside a chunk -/
def f10History : List Op :=
  [.sorter 0 { limit := 100, failKey := some 1 }, .sadd 0 1 30, .sadd 0 1 30, .destroy 0]
theorem F10_witness : allFree (run { fixF6 := true, fixF10 := false } f10History) = true ∧
    (run { fixF6 := true, fixF10 := false } f10History).ledger = { fds := 1, heap := 1 } ∧
    (run {} f10History).ledger = 0 := by decide

/-- non-vacuity: a history over every kind of object, ending with everything destroyed; in the middle the ledger is not
    zero -/
def exHistory : List Op :=
  [.table 1 20, .table 2 20, .bad 3, .setfile 0 [1, 2, 3],
   .reader 0 1, .reader 1 3, .merger 2 [0], .fileset 3 0, .fsdup 4 3, .merger 5 [3, 2],
   .iter 6 5, .use 6, .pool 7, .sorter 8 { limit := 64, pooled := true }, .sadd 8 1 30, .sadd 8 2 30, .siter 9 8,
   .writer 10 false, .wadd 10,
   .destroy 6, .destroy 9, .destroy 8, .destroy 7, .destroy 5, .destroy 2, .destroy 4, .destroy 3,
   .destroy 1, .destroy 0, .destroy 10]
example : freshSorters exHistory := by
  intro op hop i ss h
  simp only [exHistory, List.mem_cons, List.mem_nil_iff, or_false] at hop
  rcases hop with hop | hop | hop | hop | hop | hop | hop | hop | hop | hop | hop | hop | hop | hop | hop | hop | hop |
    hop | hop | hop | hop | hop | hop | hop | hop | hop | hop | hop | hop | hop <;> subst hop <;> cases h <;> exact ⟨rfl, rfl⟩
example : allFree (run {} exHistory) = true := by decide +kernel
example : (run {} (exHistory.take 17)).ledger = { fds := 0, maps := 4, tmp := 0, heap := 10 } := by decide +kernel

end Res.C18
