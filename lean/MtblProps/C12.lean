import MtblProps.Common
import MtblProps.C01
import MtblProofs.VerifyProofs
/-
  C12 — Checksums: a file produced by the writer always passes `mtbl_verify` and can be read completely with
  `verify_checksums` enabled.  If any one to three bits, or any burst of up to 32 bits, inside a block's stored
  bytes or its checksum field are altered, `mtbl_verify` never reports the file OK, and a reader with
  `verify_checksums` never returns an entry decoded from that block (the process stops instead).

  Models: `verifyTool` (MtblModel/Verify.lean = src/mtbl_verify.c), `readerOpen` / `getBlock` with `verify = true`
  (MtblModel/Reader.lean; outcome `none` / `.abort` = the `assert(block_crc == calc_crc)` stopped the process).
  Damage = xor masks `ep` (on the stored bytes) and `ef` (on the 4-byte checksum field) of ONE frame;
  `Verify.Detectable n ep ef` = at least one bit set, and (at most three bits set and `8n + 32 < 2^31 - 1`, i.e.
  blocks below 256 MiB) or (all set bits of `ep ++ ef` within 32 consecutive bit positions).
  The detection strength of the CRC itself is `C12_detect_weight` / `C12_detect_burst_any` (CrcDetectProofs).
-/
namespace Mtbl.C12

open FileEnc Verify

/-- the hypothesis bundle of `FileOK` contains what the `mtbl_verify` theorems need -/
theorem vhyp {f : EFile} {comp : Bytes → Bytes} {decomp : Nat → Bytes → Option Bytes}
    (h : FileOK f comp decomp) : VHyp f comp :=
  vhyp_of_legal f comp h.legal h.thr h.size h.indexRestarts h.v1

/-! ### 1. intact files pass `mtbl_verify` -/

/-- **C12 (intact, mtbl_verify), every well-formed file.**  For every legal encoding `f` (format v1 or v2, any
    restart points / prefix sharing / separators / block split / foreign prefix, compressed or not):
    `mtbl_verify` reports OK.  (The open with `verify_checksums` succeeds — the index checksum matches —, the trailer
    fields `count_data_blocks`, `bytes_data_blocks`, `index_block_offset` are exact, the sweep walks the data frames
    exactly and every block checksum matches.) -/
theorem C12_intact_verify (f : EFile) (comp : Bytes → Bytes) (decomp : Nat → Bytes → Option Bytes)
    (hf : FileOK f comp decomp) : verifyTool f.thr decomp (f.encode comp) = .ok :=
  Mtbl.C12_intact_verify f comp decomp (vhyp hf)

/-- **C12 (intact, mtbl_verify), writer output.**  The bytes the writer produced for strictly increasing adds (after
    any foreign prefix `pre`) pass `mtbl_verify`. -/
theorem C12_intact_writer (cfg : WCfg) (comp : Bytes → Bytes) (decomp : Nat → Bytes → Option Bytes)
    (hw : WriterOK cfg comp decomp) (pre : Bytes) (es : List Entry) (hs : StrictSorted es)
    (hz : SizesOK cfg comp pre es) :
    verifyTool cfg.thr decomp (pre ++ Writer.run cfg pre.length es) = .ok := by
  rw [W_refines_format cfg comp hw.comp_eq pre es hs]
  exact C12_intact_verify (canonFile cfg pre es) comp decomp (hw.fileOK hs hz)

/-- the same for an arbitrary add sequence (refused adds leave no trace) -/
theorem C12_intact_writer_any (cfg : WCfg) (comp : Bytes → Bytes) (decomp : Nat → Bytes → Option Bytes)
    (hw : WriterOK cfg comp decomp) (pre : Bytes) (adds : List Entry)
    (hz : SizesOK cfg comp pre (acceptedOf none adds)) :
    verifyTool cfg.thr decomp (pre ++ Writer.run cfg pre.length adds) = .ok := by
  show verifyTool cfg.thr decomp (pre ++ ((W.new cfg pre.length).addAll adds).2.finish) = .ok
  rw [W_refines_format_any cfg comp hw.comp_eq pre adds]
  exact C12_intact_verify (canonFile cfg pre _) comp decomp (hw.fileOK (C08_accepted_sorted adds) hz)

/-! ### 2. intact files are read completely with `verify_checksums` -/

/-- **C12 (intact, reader), writer output.**  With `verify_checksums` enabled the bytes the writer produced open, and
    iterating from the start returns exactly the entries added, in order, and then failure: no checksum assertion
    fires on the way.  (C01 at `verify := true`.) -/
theorem C12_intact_read (cfg : WCfg) (comp : Bytes → Bytes) (decomp : Nat → Bytes → Option Bytes)
    (hw : WriterOK cfg comp decomp) (pre : Bytes) (es : List Entry) (hs : StrictSorted es)
    (hz : SizesOK cfg comp pre es) :
    ∃ r, readerOpen true cfg.thr decomp true (pre ++ Writer.run cfg pre.length es) = .ok r ∧
      r.verify = true ∧
      ((es = [] ∧ readerIterInit true r none .iter = some none) ∨
       (∃ it₀, readerIterInit true r none .iter = some (some it₀) ∧
          rRun it₀ (List.replicate (es.length + 1) .next) = some (es.map some ++ [none]))) := by
  have hopen := (hw.fileOK hs hz).opens_explicit true
  rw [← W_refines_format cfg comp hw.comp_eq pre es hs] at hopen
  obtain ⟨h1, ok, hent⟩ := hopen
  have hent' := hent.trans (canonFile_entries cfg pre es)
  refine ⟨_, h1, rfl, ?_⟩
  rcases readerIterInit_spec ok none .iter with ⟨h0, _⟩ | ⟨it, h0, _, _⟩
  · exact Or.inl ⟨by rw [← hent']; exact C01_null ok h0, h0⟩
  · exact Or.inr ⟨it, h0, by rw [← hent']; exact C01_iterate ok h0⟩

/-- **C12 (intact, reader), every well-formed file**: with `verify_checksums` the file opens and full iteration
    returns exactly the encoded entries -/
theorem C12_intact_read_file (f : EFile) (comp : Bytes → Bytes) (decomp : Nat → Bytes → Option Bytes)
    (hf : FileOK f comp decomp) :
    readerOpen true f.thr decomp true (f.encode comp) = .ok (openedRd f comp decomp true) ∧
      ((f.entries = [] ∧ readerIterInit true (openedRd f comp decomp true) none .iter = some none) ∨
       (∃ it₀, readerIterInit true (openedRd f comp decomp true) none .iter = some (some it₀) ∧
          rRun it₀ (List.replicate (f.entries.length + 1) .next) = some (f.entries.map some ++ [none]))) := by
  obtain ⟨h1, ok, hent⟩ := hf.opens_explicit true
  refine ⟨h1, ?_⟩
  rcases ok.iterate with ⟨h0, h2⟩ | ⟨it, h0, _, h2⟩
  · exact Or.inl ⟨by rw [← hent]; exact h0, h2⟩
  · exact Or.inr ⟨it, h0, by rw [← hent]; exact h2⟩

/-! ### 3. the verifying reader stops on a damaged block -/

/-- **C12 (frame level).**  Whatever the file is: if the bytes at `off` are a v2 frame — `venc len`, a 4-byte checksum
    field, `len` stored bytes — whose checksum test fails, `get_block` of a reader with `verify_checksums` yields no
    block: the process stops on `assert(block_crc == calc_crc)`.  (v1 analogue: `getBlock_detects_v1`.) -/
theorem C12_getBlock_detects (r : Rd) (off len : Nat) (field' payload' rest : Bytes)
    (hv : r.verify = true) (hver : r.m.version = .v2) (hoff : off < r.data.length)
    (h : r.data.drop off = venc len ++ field' ++ payload' ++ rest)
    (hp : payload'.length = len) (hf : field'.length = 4) (h64 : len < 2^64)
    (hbad : blockVerifies payload' field' = false) :
    getBlock r off = none :=
  getBlock_detects r off len field' payload' rest hv hver hoff h hp hf h64 hbad

/-- **C12 (reader).**  Let `f` be any well-formed file (v1 or v2), `b` its data block `j` at file offset `off`, and
    `ep` / `ef` detectable error patterns on its stored bytes / checksum field.  For the damaged file
    `file' = damagedData f comp b off ef ep` (= `f.encode comp` with those bytes xor-ed, nothing else changed):
    * `file'` still opens with `verify_checksums` (index frame and trailer are untouched), giving the reader
      `damagedRd … file'` that differs from the reader of the intact file only in its bytes;
    * `get_block` at `off` stops the process — and with it every iterator operation that needs block `j`
      (`blockAtIndex_stops`, `rNext_stops`, `rSeek_stops`): no entry decoded from the damaged block is ever returned;
    * every other data block `i ≠ j` loads exactly as from the intact file. -/
theorem C12_reader_detects (f : EFile) (comp : Bytes → Bytes) (decomp : Nat → Bytes → Option Bytes)
    (hf : FileOK f comp decomp) (j : Nat) (b : EBlock) (off : Nat) (ef ep : Bytes)
    (hb : f.blocks[j]? = some b) (hoff : (offs f comp)[j]? = some off)
    (hep : ep.length = (stored f comp b).length) (hef : ef.length = 4)
    (hd : Detectable (stored f comp b).length ep ef) :
    (damagedData f comp b off ef ep).length = (f.encode comp).length ∧
    readerOpen true f.thr decomp true (damagedData f comp b off ef ep) =
      .ok (damagedRd f comp decomp (damagedData f comp b off ef ep)) ∧
    getBlock (damagedRd f comp decomp (damagedData f comp b off ef ep)) off = none ∧
    ∀ i bi offi, i ≠ j → f.blocks[i]? = some bi → (offs f comp)[i]? = some offi →
      getBlock (damagedRd f comp decomp (damagedData f comp b off ef ep)) offi = some (blkOf f.thr bi) := by
  obtain ⟨h1, h2, h3, h4⟩ := Mtbl.C12_reader_detects f comp decomp (vhyp hf) j b off ef ep hb hoff hep hef hd
  refine ⟨h1, h2, h3, ?_⟩
  intro i bi offi hij hbi hoi
  rw [h4 i offi hij hoi]
  obtain ⟨_, ok, _⟩ := hf.opens_explicit true
  have hi : i < (tview f comp).nb := by rw [tview_nb]; exact BlockEnc.lt_of_getElem? _ _ _ hbi
  have := ok.get_block i hi
  rwa [tview_off f comp i offi hoi, tview_blk f comp i bi hbi] at this

/-- the iterator-level reading of "the process stops instead": an index entry that points at the damaged block
    cannot be turned into a block -/
theorem C12_blockAtIndex_stops (f : EFile) (comp : Bytes → Bytes) (decomp : Nat → Bytes → Option Bytes)
    (hf : FileOK f comp decomp) (j : Nat) (b : EBlock) (off : Nat) (ef ep : Bytes)
    (hb : f.blocks[j]? = some b) (hoff : (offs f comp)[j]? = some off)
    (hep : ep.length = (stored f comp b).length) (hef : ef.length = 4)
    (hd : Detectable (stored f comp b).length ep ef) (idx : BI) (hi : idxOffset idx = some off) :
    blockAtIndex (damagedRd f comp decomp (damagedData f comp b off ef ep)) idx = none :=
  blockAtIndex_stops _ idx off hi (C12_reader_detects f comp decomp hf j b off ef ep hb hoff hep hef hd).2.2.1

/-! ### 4. damage in the index block stops the open -/

/-- **C12 (index block).**  The same kind of damage in the index frame: `mtbl_reader_init` with `verify_checksums`
    stops on the index checksum assertion; `mtbl_verify`, which opens the file that way, is stopped there and does
    not report OK. -/
theorem C12_index_detects (f : EFile) (comp : Bytes → Bytes) (decomp : Nat → Bytes → Option Bytes)
    (hf : FileOK f comp decomp) (ef ep : Bytes)
    (hep : ep.length = (idxStored f comp).length) (hef : ef.length = 4)
    (hd : Detectable (idxStored f comp).length ep ef) :
    readerOpen true f.thr decomp true (damagedIndex f comp ef ep) = .abort "index crc" ∧
    verifyTool f.thr decomp (damagedIndex f comp ef ep) = .abort ∧
    verifyTool f.thr decomp (damagedIndex f comp ef ep) ≠ .ok := by
  obtain ⟨h1, h2⟩ := Mtbl.C12_index_detects f comp decomp (vhyp hf) ef ep hep hef hd
  exact ⟨h1, h2, by rw [h2]; exact fun h => VRes.noConfusion h⟩

/-! ### 5. `mtbl_verify` never reports a damaged file OK -/

/-- **C12 (mtbl_verify, data block).**  With detectable damage in data block `j`, `mtbl_verify` reports FAILED:
    the sweep passes the intact blocks before `j` (their length prefixes are intact, so the offsets agree) and the
    checksum comparison fails at block `j`. -/
theorem C12_verify_detects (f : EFile) (comp : Bytes → Bytes) (decomp : Nat → Bytes → Option Bytes)
    (hf : FileOK f comp decomp) (j : Nat) (b : EBlock) (off : Nat) (ef ep : Bytes)
    (hb : f.blocks[j]? = some b) (hoff : (offs f comp)[j]? = some off)
    (hep : ep.length = (stored f comp b).length) (hef : ef.length = 4)
    (hd : Detectable (stored f comp b).length ep ef) :
    verifyTool f.thr decomp (damagedData f comp b off ef ep) = .failed ∧
    verifyTool f.thr decomp (damagedData f comp b off ef ep) ≠ .ok := by
  have h := Mtbl.C12_verify_detects f comp decomp (vhyp hf) j b off ef ep hb hoff hep hef hd
  exact ⟨h, by rw [h]; exact fun h => VRes.noConfusion h⟩

/-- **C12 for the writer's files**: the three detection statements for the bytes `pre ++ Writer.run cfg pre.length es`
    (`file`), whose block structure is that of `canonFile cfg pre es` (`W_refines_format`): damage in data block `j`
    makes `mtbl_verify` report FAILED and `get_block` stop; damage in the index block stops the open. -/
theorem C12_writer_detects (cfg : WCfg) (comp : Bytes → Bytes) (decomp : Nat → Bytes → Option Bytes)
    (hw : WriterOK cfg comp decomp) (pre : Bytes) (es : List Entry) (hs : StrictSorted es)
    (hz : SizesOK cfg comp pre es) (ef ep : Bytes) (hef : ef.length = 4) :
    let f := canonFile cfg pre es
    let file := pre ++ Writer.run cfg pre.length es
    (∀ (j : Nat) (b : EBlock) (off : Nat), f.blocks[j]? = some b → (offs f comp)[j]? = some off →
      ep.length = (stored f comp b).length → Detectable (stored f comp b).length ep ef →
      let file' := damageFrame file (off + vlen (stored f comp b).length) (stored f comp b).length ef ep
      verifyTool cfg.thr decomp file' = .failed ∧
      readerOpen true cfg.thr decomp true file' = .ok (damagedRd f comp decomp file') ∧
      getBlock (damagedRd f comp decomp file') off = none) ∧
    (ep.length = (idxStored f comp).length → Detectable (idxStored f comp).length ep ef →
      let file' := damageFrame file (indexOff f comp + vlen (idxStored f comp).length) (idxStored f comp).length ef ep
      readerOpen true cfg.thr decomp true file' = .abort "index crc" ∧
      verifyTool cfg.thr decomp file' = .abort) := by
  intro f file
  have hfile : file = f.encode comp := W_refines_format cfg comp hw.comp_eq pre es hs
  have hf : FileOK f comp decomp := hw.fileOK hs hz
  refine ⟨?_, ?_⟩
  · intro j b off hb hoff hep hd file'
    have e : file' = damagedData f comp b off ef ep := by
      show damageFrame file _ _ _ _ = _
      rw [hfile]; rfl
    rw [e]
    obtain ⟨_, h2, h3, _⟩ := C12_reader_detects f comp decomp hf j b off ef ep hb hoff hep hef hd
    exact ⟨(C12_verify_detects f comp decomp hf j b off ef ep hb hoff hep hef hd).1, h2, h3⟩
  · intro hep hd file'
    have e : file' = damagedIndex f comp ef ep := by
      show damageFrame file _ _ _ _ = _
      rw [hfile]; rfl
    rw [e]
    obtain ⟨h1, h2, _⟩ := C12_index_detects f comp decomp hf ef ep hep hef hd
    exact ⟨h1, h2⟩

/-! ### 6. non-vacuity: the two-block example file of FileEncProofs (v2, two foreign bytes; data frames at
    offsets 2 and 35, 28 and 23 stored bytes; index frame at 63 with 20 stored bytes; 600 bytes in all) -/

namespace Ex

def noDecomp : Nat → Bytes → Option Bytes := fun _ _ => none
def blk1 : EBlock := (exFile .v2).blocks.getD 1 default
/-- one flipped bit (bit 4 of byte 5) in the 23 stored bytes of block 1 -/
def ep1 : Bytes := List.replicate 5 0 ++ [0x10] ++ List.replicate 17 0
/-- one flipped bit (bit 2 of byte 2) in the 20 stored bytes of the index block -/
def epI : Bytes := [0, 0, 4] ++ List.replicate 17 0
def zero4 : Bytes := [0, 0, 0, 0]
/-- a 32-bit burst straddling the boundary stored bytes / checksum field (`ep ++ ef` is the error word) -/
def epB : Bytes := List.replicate 21 0 ++ [0xF0, 0xFF]
def efB : Bytes := [0xA5, 0x0F, 0, 0]
def bad1 : Bytes := damagedData (exFile .v2) id blk1 35 zero4 ep1
def badB : Bytes := damagedData (exFile .v2) id blk1 35 efB epB
def badI : Bytes := damagedIndex (exFile .v2) id zero4 epI

theorem off1 : (offs (exFile .v2) id)[1]? = some 35 := by decide +kernel
theorem get1 : (exFile .v2).blocks[1]? = some blk1 := by decide +kernel
theorem len1 : ep1.length = (stored (exFile .v2) id blk1).length := by decide +kernel
theorem lenB : epB.length = (stored (exFile .v2) id blk1).length := by decide +kernel
theorem lenI : epI.length = (idxStored (exFile .v2) id).length := by decide +kernel

/-- evaluation: the intact file is OK -/
example : verifyTool (exFile .v2).thr noDecomp ((exFile .v2).encode id) = .ok := by decide +kernel
example : verifyTool (exFile .v1).thr noDecomp ((exFile .v1).encode id) = .ok := by decide +kernel
/-- one flipped bit in block 1's stored bytes: `mtbl_verify` FAILED, `get_block` stops, block 0 still loads, the
    damaged file still opens -/
example : verifyTool (exFile .v2).thr noDecomp bad1 = .failed := by decide +kernel
example : (getBlock (damagedRd (exFile .v2) id noDecomp bad1) 35).isNone = true := by decide +kernel
example : (getBlock (damagedRd (exFile .v2) id noDecomp bad1) 2).isSome = true := by decide +kernel
example : (getBlock (openedRd (exFile .v2) id noDecomp true) 35).isSome = true := by decide +kernel
example : (match readerOpen true (exFile .v2).thr noDecomp true bad1 with | .ok _ => true | _ => false) = true := by
  decide +kernel
/-- without `verify_checksums` the same block is handed out (the detection is the checksum test, nothing else) -/
example : (getBlock { damagedRd (exFile .v2) id noDecomp bad1 with verify := false } 35).isSome = true := by
  decide +kernel
/-- the burst -/
example : verifyTool (exFile .v2).thr noDecomp badB = .failed := by decide +kernel
example : (getBlock (damagedRd (exFile .v2) id noDecomp badB) 35).isNone = true := by decide +kernel
/-- one flipped bit in the index block: the open stops -/
example : verifyTool (exFile .v2).thr noDecomp badI = .abort := by decide +kernel
example : (match readerOpen true (exFile .v2).thr noDecomp true badI with
    | .abort "index crc" => true | _ => false) = true := by decide +kernel

/-- the hypotheses of the general theorems are satisfiable: the same three facts as instances -/
theorem det1 : Detectable (stored (exFile .v2) id blk1).length ep1 zero4 :=
  ⟨by decide +kernel, Or.inl ⟨by decide +kernel, by decide +kernel⟩⟩

theorem detI : Detectable (idxStored (exFile .v2) id).length epI zero4 :=
  ⟨by decide +kernel, Or.inl ⟨by decide +kernel, by decide +kernel⟩⟩

/-- the burst instance: all set bits of `epB ++ efB` lie in bit positions 168 .. 199 -/
theorem detB : Detectable (stored (exFile .v2) id blk1).length epB efB := by
  refine ⟨by decide +kernel, Or.inr ⟨168, fun i hi => ?_⟩⟩
  rcases Nat.lt_or_ge i 216 with h | h
  · have : ∀ j, j < 216 → bitAt (epB ++ efB) j = true → 168 ≤ j ∧ j < 168 + 32 := by decide +kernel
    exact this i h hi
  · unfold bitAt at hi
    have : (epB ++ efB).getD (i / 8) 0 = 0 := by
      rw [List.getD_eq_getElem?_getD, List.getElem?_eq_none (by
        have : (epB ++ efB).length = 27 := by decide
        omega)]
      rfl
    rw [this] at hi
    simp at hi

example : verifyTool (exFile .v2).thr noDecomp badB = .failed :=
  (C12_verify_detects _ _ _ (exFile_ok .v2) 1 blk1 35 efB epB get1 off1 lenB rfl detB).1

example : verifyTool (exFile .v2).thr noDecomp ((exFile .v2).encode id) = .ok :=
  C12_intact_verify _ _ _ (exFile_ok .v2)

example : verifyTool (exFile .v2).thr noDecomp bad1 = .failed :=
  (C12_verify_detects _ _ _ (exFile_ok .v2) 1 blk1 35 zero4 ep1 get1 off1 len1 rfl det1).1

example : getBlock (damagedRd (exFile .v2) id noDecomp bad1) 35 = none :=
  (C12_reader_detects _ _ _ (exFile_ok .v2) 1 blk1 35 zero4 ep1 get1 off1 len1 rfl det1).2.2.1

example : verifyTool (exFile .v2).thr noDecomp badI = .abort :=
  (C12_index_detects _ _ _ (exFile_ok .v2) zero4 epI lenI rfl detI).2.1

/-- the writer's five-block example passes `mtbl_verify`, uncompressed and through the toy compressor -/
example : verifyTool WriterEx.cfg.thr (fun _ _ => none) ([0xAA, 0xBB] ++ Writer.run WriterEx.cfg 2 WriterEx.es) = .ok :=
  C12_intact_writer _ _ _ WriterEx.writerOK [0xAA, 0xBB] _ WriterEx.sorted WriterEx.sizesOK

example : verifyTool WriterEx.cfgZ.thr (fun _ s => some s.reverse)
    ([0xAA, 0xBB] ++ Writer.run WriterEx.cfgZ 2 WriterEx.es) = .ok :=
  C12_intact_writer _ _ _ WriterEx.writerOKZ [0xAA, 0xBB] _ WriterEx.sorted WriterEx.sizesOKZ

end Ex

end Mtbl.C12
