import MtblProps.Common
/-
  C03 — Seek and continue: on every kind of iterator, every finite history of `next` / `seek` calls returns
  exactly what the abstract cursor over the sorted entry list returns; failure is sticky until the next seek.
  Proved for the reader with the F1 repair (`fixF1 := true`); `F1_witness` shows the pinned code
  (`fixF1 := false`) violating it on a two-block file.
-/
namespace Mtbl.C03

/-! ### on the writer's output -/

/-- **C03.**  On the file written from strictly increasing adds `es`: for every iterator kind (full, `get k`,
    `get_prefix p`, `get_range … k1`), every start key (`none` = `reader_iter`, from the first entry), and every
    finite history `ops` of `next` and `seek k` calls (any keys: present, absent, before the first, after the
    last, backwards, equal to the key just returned), the reader never aborts and returns exactly what the
    abstract cursor returns: `seek k` moves to `lowerBound es k`, `next` returns the entry under the cursor if it
    satisfies the kind's bound and fails (stickily) otherwise.  A NULL iterator is handed out only when no
    entry is at or after the start key. -/
theorem C03_history (cfg : WCfg) (comp : Bytes → Bytes) (decomp : Nat → Bytes → Option Bytes)
    (hw : WriterOK cfg comp decomp) (pre : Bytes) (es : List Entry) (hs : StrictSorted es)
    (hz : SizesOK cfg comp pre es) (verify : Bool) :
    ∃ r, readerOpen true cfg.thr decomp verify (pre ++ Writer.run cfg pre.length es) = .ok r ∧
      ∀ (kind : Kind) (start : Option Bytes),
        (readerIterInit true r start kind = some none ∧ lowerBound es (start.getD []) = es.length) ∨
        (∃ it₀, readerIterInit true r start kind = some (some it₀) ∧
          ∀ ops : List IOp,
            rRun it₀ ops = some (specRun kind es ⟨lowerBound es (start.getD []), false⟩ ops)) := by
  obtain ⟨r, t, hopen, ok, hent⟩ := hw.opens hs hz verify
  exact ⟨r, hopen, fun kind start => by rw [← hent]; exact ok.history kind start⟩

/-- **C03 (sticky failure).**  On the same file, for every iterator and after any history `ops`: if a `next`
    fails, every directly following `next` fails as well (until a `seek`). -/
theorem C03_sticky (cfg : WCfg) (comp : Bytes → Bytes) (decomp : Nat → Bytes → Option Bytes)
    (hw : WriterOK cfg comp decomp) (pre : Bytes) (es : List Entry) (hs : StrictSorted es)
    (hz : SizesOK cfg comp pre es) (verify : Bool) :
    ∃ r, readerOpen true cfg.thr decomp verify (pre ++ Writer.run cfg pre.length es) = .ok r ∧
      ∀ (kind : Kind) (start : Option Bytes) (it₀ : RIter),
        readerIterInit true r start kind = some (some it₀) →
        ∀ (ops : List IOp) (m : Nat) (out : List (Option Entry)),
          rRun it₀ (ops ++ .next :: List.replicate m .next) = some out →
          out[ops.length]? = some none →
          out.drop ops.length = List.replicate (m + 1) none := by
  obtain ⟨r, t, hopen, ok, _⟩ := hw.opens hs hz verify
  exact ⟨r, hopen, fun kind start it₀ h0 ops m out hrun hfail =>
    Mtbl.C03_sticky ok start kind h0 ops m hrun hfail⟩

/-! ### on any legal encoding -/

/-- **C03** on any legal encoding `f` (v1 or v2, any restart positions, sharing, separators, block split) -/
theorem C03_history_file (f : EFile) (comp : Bytes → Bytes) (decomp : Nat → Bytes → Option Bytes)
    (hf : FileOK f comp decomp) (verify : Bool) :
    ∃ r, readerOpen true f.thr decomp verify (f.encode comp) = .ok r ∧
      ∀ (kind : Kind) (start : Option Bytes),
        (readerIterInit true r start kind = some none ∧
          lowerBound f.entries (start.getD []) = f.entries.length) ∨
        (∃ it₀, readerIterInit true r start kind = some (some it₀) ∧
          ∀ ops : List IOp,
            rRun it₀ ops = some (specRun kind f.entries ⟨lowerBound f.entries (start.getD []), false⟩ ops)) := by
  obtain ⟨r, t, hopen, ok, hent⟩ := hf.opens verify
  exact ⟨r, hopen, fun kind start => by rw [← hent]; exact ok.history kind start⟩

/-- **C03 (sticky failure)** on any legal encoding -/
theorem C03_sticky_file (f : EFile) (comp : Bytes → Bytes) (decomp : Nat → Bytes → Option Bytes)
    (hf : FileOK f comp decomp) (verify : Bool) :
    ∃ r, readerOpen true f.thr decomp verify (f.encode comp) = .ok r ∧
      ∀ (kind : Kind) (start : Option Bytes) (it₀ : RIter),
        readerIterInit true r start kind = some (some it₀) →
        ∀ (ops : List IOp) (m : Nat) (out : List (Option Entry)),
          rRun it₀ (ops ++ .next :: List.replicate m .next) = some out →
          out[ops.length]? = some none →
          out.drop ops.length = List.replicate (m + 1) none := by
  obtain ⟨r, t, hopen, ok, _⟩ := hf.opens verify
  exact ⟨r, hopen, fun kind start it₀ h0 ops m out hrun hfail =>
    Mtbl.C03_sticky ok start kind h0 ops m hrun hfail⟩

/-- stickiness in terms of the abstract cursor: once stuck, `m` further `next` calls all fail -/
theorem C03_spec_sticky (kind : Kind) (es : List Entry) (m : Nat) (c : Cur) (h : c.stuck = true) :
    specRun kind es c (List.replicate m .next) = List.replicate m none :=
  RI.specRun_stuck kind es m c h

/-! ### finding F1: the pinned reader violates C03 -/

/-- `rRun` with the F1 switch exposed: `fixF1 = false` is `reader_iter_next` as pinned (the cached
    `block_offset` is not refreshed when the iterator moves into the next block), `true` the repaired one -/
def rRunWith (fixF1 : Bool) : RIter → List IOp → Option (List (Option Entry))
  | _, [] => some []
  | it, .next :: ops =>
    match rNext fixF1 it with
    | none => none
    | some (e, it') => (rRunWith fixF1 it' ops).map (e :: ·)
  | it, .seek k :: ops =>
    match rSeek it k with
    | none => none
    | some it' => (rRunWith fixF1 it' ops).map (none :: ·)

/-- with the repair, `rRunWith` is the `rRun` of the theorems above -/
theorem rRunWith_true (it : RIter) (ops : List IOp) : rRunWith true it ops = rRun it ops := by
  induction ops generalizing it with
  | nil => rfl
  | cons op ops ih =>
    cases op with
    | next =>
      simp only [rRunWith, rRun]
      cases rNext true it with
      | none => rfl
      | some p => simp only [ih]
    | seek k =>
      simp only [rRunWith, rRun]
      cases rSeek it k with
      | none => rfl
      | some it' => simp only [ih]

/-- open `file` (checksums verified, no compression), create an iterator of the given kind and start, run the history -/
def historyOn (fixF1 : Bool) (file : Bytes) (kind : Kind) (start : Option Bytes) (ops : List IOp) :
    Option (List (Option Entry)) :=
  match readerOpen true 4294967295 (fun _ _ => none) true file with
  | .ok r =>
    match readerIterInit fixF1 r start kind with
    | some (some it) => rRunWith fixF1 it ops
    | _ => none
  | _ => none

/-- the smallest block size: every entry gets its own data block -/
def f1Cfg : WCfg := { minBlockSize := 16, blockSize := 16 }

/-- two entries, two data blocks -/
def f1Es : List Entry := [⟨[1], [10]⟩, ⟨[2], [20]⟩]

/-- the file is written by the model of the real writer, and has two data blocks -/
theorem f1_two_blocks : (splitBlocks f1Cfg [] f1Es).map List.length = [1, 1] := by decide +kernel

/-- iterate across the block boundary, seek back to the key of the first block, `next` -/
def f1Ops : List IOp := [.next, .next, .seek [1], .next]

set_option maxRecDepth 100000 in
/-- **F1.**  On the two-block file written from `[1] ↦ [10]`, `[2] ↦ [20]`, the history
    `next, next, seek [1], next` on a full iterator must end with the entry `[1] ↦ [10]` (the abstract cursor,
    and the repaired reader, return it); the pinned reader returns `[2] ↦ [20]`, the first key of the block
    the iterator had moved into: `reader_iter_next` replaced the decoded block without refreshing the cached
    `block_offset`, so `reader_iter_seek` believes the first block is still loaded and seeks inside the wrong one. -/
theorem F1_witness :
    specRun .iter f1Es ⟨0, false⟩ f1Ops = [some ⟨[1], [10]⟩, some ⟨[2], [20]⟩, none, some ⟨[1], [10]⟩] ∧
    historyOn true (Writer.run f1Cfg 0 f1Es) .iter none f1Ops =
      some [some ⟨[1], [10]⟩, some ⟨[2], [20]⟩, none, some ⟨[1], [10]⟩] ∧
    historyOn false (Writer.run f1Cfg 0 f1Es) .iter none f1Ops =
      some [some ⟨[1], [10]⟩, some ⟨[2], [20]⟩, none, some ⟨[2], [20]⟩] := by
  decide +kernel

set_option maxRecDepth 100000 in
/-- **F1 on all four iterator kinds**: the same history on a full, a `get [1]`, a `get_prefix []` and a
    `get_range [1] [2]` iterator — the repaired reader agrees with the abstract cursor, the pinned one does not
    (the `get` iterator fails where it must find its key again). -/
theorem F1_witness_all_kinds :
    ∀ ks ∈ [(Kind.iter, (none : Option Bytes)), (.get [1], some [1]), (.pfx [], some []), (.range [2], some [1])],
      historyOn true (Writer.run f1Cfg 0 f1Es) ks.1 ks.2 f1Ops =
        some (specRun ks.1 f1Es ⟨lowerBound f1Es (ks.2.getD []), false⟩ f1Ops) ∧
      historyOn false (Writer.run f1Cfg 0 f1Es) ks.1 ks.2 f1Ops ≠
        some (specRun ks.1 f1Es ⟨lowerBound f1Es (ks.2.getD []), false⟩ f1Ops) := by
  decide +kernel

set_option maxRecDepth 100000 in
/-- **F1 behind a foreign prefix**: when the table does not start at file offset 0 the stale cached offset is
    first corrected by a `seek`, and the same defect shows one step later:
    `seek [1], next, next, seek [1], next` returns `[2] ↦ [20]` instead of `[1] ↦ [10]`. -/
theorem F1_witness_prefix :
    historyOn true ([0xAA, 0xBB] ++ Writer.run f1Cfg 2 f1Es) .iter none [.seek [1], .next, .next, .seek [1], .next] =
      some [none, some ⟨[1], [10]⟩, some ⟨[2], [20]⟩, none, some ⟨[1], [10]⟩] ∧
    historyOn false ([0xAA, 0xBB] ++ Writer.run f1Cfg 2 f1Es) .iter none [.seek [1], .next, .next, .seek [1], .next] =
      some [none, some ⟨[1], [10]⟩, some ⟨[2], [20]⟩, none, some ⟨[2], [20]⟩] := by
  decide +kernel

/-! ### non-vacuity -/

example (verify : Bool) := C03_history _ _ _ WriterEx.writerOK [0xAA, 0xBB] _ WriterEx.sorted WriterEx.sizesOK verify
example (verify : Bool) := C03_history _ _ _ WriterEx.writerOKZ [0xAA, 0xBB] _ WriterEx.sorted WriterEx.sizesOKZ verify
example (verify : Bool) := C03_sticky _ _ _ WriterEx.writerOK [0xAA, 0xBB] _ WriterEx.sorted WriterEx.sizesOK verify
example (ver : FVersion) (verify : Bool) := C03_history_file _ _ _ (FileEnc.exFile_ok ver) verify
example (ver : FVersion) (verify : Bool) := C03_sticky_file _ _ _ (FileEnc.exFile64_ok ver) verify

/-- the F1 file itself satisfies the hypotheses of `C03_history`, so for the repaired reader the witness history is
    an instance of the theorem -/
example : WriterOK f1Cfg id (fun _ _ => none) ∧ StrictSorted f1Es ∧ SizesOK f1Cfg id [] f1Es :=
  ⟨⟨rfl, fun h => absurd rfl h, by decide, by decide, by decide⟩, by unfold StrictSorted; decide +kernel,
   ⟨by decide +kernel, by decide +kernel, by decide +kernel, by decide +kernel, fun h => absurd rfl h⟩⟩

/-- a history on the five-block example that exercises every case of the cursor: seek to the key just returned,
    backward seek across blocks, seek between keys, seek past the end, run into the bound of a range iterator -/
example :
    specRun (.range [2]) WriterEx.es ⟨lowerBound WriterEx.es [1], false⟩
      [.next, .next, .seek [1, 2], .next, .seek [], .next, .seek [1, 5], .next, .next, .next, .seek [9], .next] =
    [some ⟨[1], [2, 3]⟩, some ⟨[1, 2], []⟩, none, some ⟨[1, 2], []⟩, none, some ⟨[], [1]⟩, none, some ⟨[2], [9]⟩,
     none, none, none, none] := by decide +kernel

end Mtbl.C03
