import MtblProofs.WriterProofs
import MtblProofs.FileEncProofs
import MtblProofs.ReaderIterProofs
import MtblProofs.Glue
/-
  Hypothesis bundles shared by the property theorems C01, C02, C03, C09, C10, C11, and the two
  assembly steps every one of them starts with:
    * `WriterOK.opens` : the bytes the writer produced open, and decode to exactly the entries added  (E ∘ W)
    * `FileOK.opens`   : the bytes of any legal encoding open, and decode to exactly the encoded entries (E)
-/
namespace Mtbl

/-- what the theorems assume about a writer configuration, its compressor and the reader's decompressor -/
structure WriterOK (cfg : WCfg) (comp : Bytes → Bytes) (decomp : Nat → Bytes → Option Bytes) : Prop where
  /-- the compressor does not fail -/
  comp_eq : cfg.comp = fun raw => some (comp raw)
  /-- library round trip (contract, = the part of C15 consumed here) -/
  codec : cfg.compression ≠ 0 → ∀ raw, decomp cfg.compression (comp raw) = some raw
  /-- restart interval 0 is excluded, as in the property text -/
  interval : 1 ≤ cfg.interval
  /-- the restart-width threshold is at most `UINT32_MAX` (it IS `UINT32_MAX` in block_builder.c) -/
  thr : cfg.thr < 2^32
  /-- the compression type fits its 64-bit trailer field -/
  compression_lt : cfg.compression < 2^64

/-- size side conditions on one run (all vacuous for files below 4 GiB / 2^64 bytes) -/
structure SizesOK (cfg : WCfg) (comp : Bytes → Bytes) (pre : Bytes) (es : List Entry) : Prop where
  /-- finding F11: longer entries are silently truncated by the C code -/
  lens : ∀ e ∈ es, e.key.length < 2^32 ∧ e.val.length < 2^32
  /-- the whole file (foreign prefix included) is shorter than 2^64 bytes -/
  file : ((canonFile cfg pre es).encode comp).length < 2^64
  /-- the restart count of every data block fits the 32-bit field at the end of the block
      (not a consequence of `file`: that only bounds it by 2^62) -/
  restarts : ∀ b ∈ (canonFile cfg pre es).blocks, b.restarts.length < 2^32 - 1
  /-- the same for the index block -/
  indexRestarts : (canonFile cfg pre es).indexRestarts.length < 2^32 - 1
  /-- with compression, the uncompressed size of every data block is below 2^64
      (not a consequence of `file`, which only sees the compressed bytes) -/
  raw : cfg.compression ≠ 0 → ∀ b ∈ (canonFile cfg pre es).blocks, (b.encode cfg.thr).length < 2^64

/-- for a table with fewer than 2^32 - 1 entries the two restart-count conditions hold by themselves, and without
    compression so does `raw`: what is left is "entries shorter than 4 GiB, file shorter than 2^64 bytes" -/
theorem SizesOK.of_small {cfg : WCfg} {comp : Bytes → Bytes} {pre : Bytes} {es : List Entry}
    (hi : 1 ≤ cfg.interval)
    (lens : ∀ e ∈ es, e.key.length < 2^32 ∧ e.val.length < 2^32)
    (file : ((canonFile cfg pre es).encode comp).length < 2^64)
    (count : es.length < 2^32 - 1)
    (raw : cfg.compression ≠ 0 → ∀ b ∈ (canonFile cfg pre es).blocks, (b.encode cfg.thr).length < 2^64) :
    SizesOK cfg comp pre es where
  lens := lens
  file := file
  restarts := Glue.canonFile_restarts_small cfg pre es hi count
  indexRestarts := Glue.canonFile_indexRestarts_small cfg pre es hi count
  raw := raw

/-- what the theorems assume about an encoding `f` made by the independent encoder, the compressor it was
    made with and the reader's decompressor: the choices are legal, the codec round-trips, and the size side
    conditions hold (the last five are vacuous for v2 files below 4 GiB) -/
structure FileOK (f : EFile) (comp : Bytes → Bytes) (decomp : Nat → Bytes → Option Bytes) : Prop where
  /-- restart points, shared-prefix lengths, separators, block split are legal choices -/
  legal : f.legal comp = true
  /-- library round trip (contract) -/
  codec : f.compression ≠ 0 → ∀ raw, decomp f.compression (comp raw) = some raw
  /-- restart-array width threshold: any value up to `UINT32_MAX` (small values force 64-bit restart arrays) -/
  thr : f.thr < 2^32
  /-- the whole file is shorter than 2^64 bytes -/
  size : (f.encode comp).length < 2^64
  restarts : ∀ b ∈ f.blocks, b.restarts.length < 2^32 - 1
  indexRestarts : f.indexRestarts.length < 2^32 - 1
  raw : f.compression ≠ 0 → ∀ b ∈ f.blocks, (b.encode f.thr).length < 2^64
  /-- version 1 stores block lengths in 32 bits -/
  v1 : f.version = .v1 →
    (∀ b ∈ f.blocks, (if f.compression = 0 then b.encode f.thr else comp (b.encode f.thr)).length < 2^32) ∧
    ((f.indexBlock comp).encode f.thr).length < 2^32
  compression_lt : f.compression < 2^64

/-- **E**: a legal encoding opens (with or without checksum verification) and decodes, block by block, to a
    table whose entries are exactly the encoded entries; the reader and the table are named -/
theorem FileOK.opens_explicit {f : EFile} {comp : Bytes → Bytes} {decomp : Nat → Bytes → Option Bytes}
    (h : FileOK f comp decomp) (verify : Bool) :
    readerOpen true f.thr decomp verify (f.encode comp) = .ok (FileEnc.openedRd f comp decomp verify) ∧
    TableOK (FileEnc.openedRd f comp decomp verify) (FileEnc.tview f comp) ∧
    (FileEnc.tview f comp).entries = f.entries :=
  EFile.open_ok_explicit f comp decomp verify h.legal h.codec h.thr h.size h.restarts h.indexRestarts h.raw
    h.v1 h.compression_lt

/-- **E**, existential form -/
theorem FileOK.opens {f : EFile} {comp : Bytes → Bytes} {decomp : Nat → Bytes → Option Bytes}
    (h : FileOK f comp decomp) (verify : Bool) :
    ∃ r t, readerOpen true f.thr decomp verify (f.encode comp) = .ok r ∧ TableOK r t ∧ t.entries = f.entries :=
  ⟨_, _, h.opens_explicit verify⟩

/-- the canonical file of a writer run satisfies everything the reader-side theorems ask of an encoding -/
theorem WriterOK.fileOK {cfg : WCfg} {comp : Bytes → Bytes} {decomp : Nat → Bytes → Option Bytes}
    (hw : WriterOK cfg comp decomp) {pre : Bytes} {es : List Entry} (hs : StrictSorted es)
    (hz : SizesOK cfg comp pre es) : FileOK (canonFile cfg pre es) comp decomp where
  legal := canonFile_legal cfg comp pre es hw.interval hs hz.lens hz.file
  codec := hw.codec
  thr := hw.thr
  size := hz.file
  restarts := hz.restarts
  indexRestarts := hz.indexRestarts
  raw := hz.raw
  v1 := fun h => by cases h
  compression_lt := hw.compression_lt

/-- **E ∘ W**: the bytes the writer produced for strictly increasing adds (after any foreign prefix) open, and
    decode to a table whose entries are exactly the entries added -/
theorem WriterOK.opens {cfg : WCfg} {comp : Bytes → Bytes} {decomp : Nat → Bytes → Option Bytes}
    (hw : WriterOK cfg comp decomp) {pre : Bytes} {es : List Entry} (hs : StrictSorted es)
    (hz : SizesOK cfg comp pre es) (verify : Bool) :
    ∃ r t, readerOpen true cfg.thr decomp verify (pre ++ Writer.run cfg pre.length es) = .ok r ∧
      TableOK r t ∧ t.entries = es := by
  rw [W_refines_format cfg comp hw.comp_eq pre es hs]
  obtain ⟨r, t, h1, h2, h3⟩ := (hw.fileOK hs hz).opens verify
  exact ⟨r, t, h1, h2, h3.trans (canonFile_entries cfg pre es)⟩

/-- the same for an arbitrary add sequence: what the file holds is the accepted subsequence -/
theorem WriterOK.opens_any {cfg : WCfg} {comp : Bytes → Bytes} {decomp : Nat → Bytes → Option Bytes}
    (hw : WriterOK cfg comp decomp) {pre : Bytes} (adds : List Entry)
    (hz : SizesOK cfg comp pre (acceptedOf none adds)) (verify : Bool) :
    ∃ r t, readerOpen true cfg.thr decomp verify (pre ++ Writer.run cfg pre.length adds) = .ok r ∧
      TableOK r t ∧ t.entries = acceptedOf none adds := by
  have h := W_refines_format_any cfg comp hw.comp_eq pre adds
  rw [← W_refines_format cfg comp hw.comp_eq pre _ (C08_accepted_sorted adds)] at h
  show ∃ r t, readerOpen true cfg.thr decomp verify (pre ++ ((W.new cfg pre.length).addAll adds).2.finish) = _ ∧ _
  rw [h]
  exact hw.opens (C08_accepted_sorted adds) hz verify

/-! ### the reader-side consequences of `TableOK`, in the disjunctive form the property theorems use
    (NULL iterator / real iterator), so that each property is `opens` followed by one of these -/

section Served
variable {r : Rd} {t : TableView}

/-- full iteration: NULL only for the empty table, otherwise `m` calls of `next` return the first `m` entries
    padded with failures -/
theorem TableOK.iterate (ok : TableOK r t) :
    (t.entries = [] ∧ readerIterInit true r none .iter = some none) ∨
    (∃ it₀, readerIterInit true r none .iter = some (some it₀) ∧
      (∀ m, rRun it₀ (List.replicate m .next) = some (RI.drainOut t.entries m)) ∧
      rRun it₀ (List.replicate (t.entries.length + 1) .next) = some (t.entries.map some ++ [none])) := by
  rcases readerIterInit_spec ok none .iter with ⟨h0, _⟩ | ⟨it, h0, _, _⟩
  · exact Or.inl ⟨C01_null ok h0, h0⟩
  · exact Or.inr ⟨it, h0, fun m => C01_iterate_m ok h0 m, C01_iterate ok h0⟩

/-- `mtbl_source_get` -/
theorem TableOK.get (ok : TableOK r t) (k : Bytes) :
    ((t.entries.filter fun e => bcmp e.key k == .eq) = [] ∧
      readerIterInit true r (some k) (.get k) = some none) ∨
    (∃ it₀, readerIterInit true r (some k) (.get k) = some (some it₀) ∧
      ∀ m, rRun it₀ (List.replicate m .next) =
        some (RI.drainOut (t.entries.filter fun e => bcmp e.key k == .eq) m)) := by
  rcases readerIterInit_spec ok (some k) (.get k) with ⟨h0, _⟩ | ⟨it, h0, _, _⟩
  · exact Or.inl ⟨C02_get_null ok k h0, h0⟩
  · exact Or.inr ⟨it, h0, fun m => C02_get ok k h0 m⟩

/-- `mtbl_source_get_prefix` -/
theorem TableOK.prefix (ok : TableOK r t) (p : Bytes) :
    ((t.entries.filter fun e => isPrefix p e.key) = [] ∧
      readerIterInit true r (some p) (.pfx p) = some none) ∨
    (∃ it₀, readerIterInit true r (some p) (.pfx p) = some (some it₀) ∧
      ∀ m, rRun it₀ (List.replicate m .next) =
        some (RI.drainOut (t.entries.filter fun e => isPrefix p e.key) m)) := by
  rcases readerIterInit_spec ok (some p) (.pfx p) with ⟨h0, _⟩ | ⟨it, h0, _, _⟩
  · exact Or.inl ⟨C02_prefix_null ok p h0, h0⟩
  · exact Or.inr ⟨it, h0, fun m => C02_prefix ok p h0 m⟩

/-- `mtbl_source_get_range` -/
theorem TableOK.range (ok : TableOK r t) (k0 k1 : Bytes) :
    ((t.entries.filter fun e => ble k0 e.key && ble e.key k1) = [] ∧
      readerIterInit true r (some k0) (.range k1) = some none) ∨
    (∃ it₀, readerIterInit true r (some k0) (.range k1) = some (some it₀) ∧
      ∀ m, rRun it₀ (List.replicate m .next) =
        some (RI.drainOut (t.entries.filter fun e => ble k0 e.key && ble e.key k1) m)) := by
  rcases readerIterInit_spec ok (some k0) (.range k1) with ⟨h0, _⟩ | ⟨it, h0, _, _⟩
  · exact Or.inl ⟨C02_range_null ok k0 k1 h0, h0⟩
  · exact Or.inr ⟨it, h0, fun m => C02_range ok k0 k1 h0 m⟩

/-- every history on every kind of iterator with any start: NULL only when nothing is at or after the start key,
    otherwise the history is the abstract cursor's -/
theorem TableOK.history (ok : TableOK r t) (kind : Kind) (start : Option Bytes) :
    (readerIterInit true r start kind = some none ∧
      lowerBound t.entries (start.getD []) = t.entries.length) ∨
    (∃ it₀, readerIterInit true r start kind = some (some it₀) ∧
      ∀ ops, rRun it₀ ops = some (specRun kind t.entries ⟨lowerBound t.entries (start.getD []), false⟩ ops)) := by
  rcases readerIterInit_spec ok start kind with ⟨h0, h1⟩ | ⟨it, h0, _, _⟩
  · exact Or.inl ⟨h0, h1⟩
  · exact Or.inr ⟨it, h0, fun ops => C03_history ok start kind h0 ops⟩

end Served

/-! ### non-vacuity: the worked five-block example of WriterProofs satisfies both bundles -/

theorem WriterEx.writerOK : WriterOK WriterEx.cfg id (fun _ _ => none) where
  comp_eq := rfl
  codec := fun h => absurd rfl h
  interval := by decide
  thr := by decide
  compression_lt := by decide

set_option maxRecDepth 100000 in
theorem WriterEx.sizesOK : SizesOK WriterEx.cfg id [0xAA, 0xBB] WriterEx.es where
  lens := by decide +kernel
  file := by decide +kernel
  restarts := by decide +kernel
  indexRestarts := by decide +kernel
  raw := fun h => absurd rfl h

/-- the same run through the toy compressor (`compression = 1`, every data block stored reversed) -/
theorem WriterEx.writerOKZ : WriterOK WriterEx.cfgZ List.reverse (fun _ s => some s.reverse) where
  comp_eq := rfl
  codec := fun _ raw => by simp
  interval := by decide
  thr := by decide
  compression_lt := by decide

set_option maxRecDepth 100000 in
theorem WriterEx.sizesOKZ : SizesOK WriterEx.cfgZ List.reverse [0xAA, 0xBB] WriterEx.es where
  lens := by decide +kernel
  file := by decide +kernel
  restarts := by decide +kernel
  indexRestarts := by decide +kernel
  raw := fun _ => by decide +kernel

theorem WriterEx.sorted : StrictSorted WriterEx.es := by unfold StrictSorted; decide +kernel

/-- the two-block example of FileEncProofs (non-maximal sharing, a separator that is not a key, two foreign
    bytes) satisfies `FileOK`, as v1 and as v2 -/
theorem FileEnc.exFile_ok (ver : FVersion) : FileOK (FileEnc.exFile ver) id (fun _ _ => none) := by
  cases ver
  · exact ⟨by decide +kernel, fun h => absurd rfl h, by decide +kernel, by decide +kernel, by decide +kernel,
      by decide +kernel, fun h => absurd rfl h, fun _ => by decide +kernel, by decide +kernel⟩
  · exact ⟨by decide +kernel, fun h => absurd rfl h, by decide +kernel, by decide +kernel, by decide +kernel,
      by decide +kernel, fun h => absurd rfl h, (fun h => by cases h), by decide +kernel⟩

/-- the same file with restart-width threshold 8: every block's entry region is longer than 8 bytes, so all three
    blocks (two data blocks, index block) carry 64-bit restart arrays -/
def FileEnc.exFile64 (ver : FVersion) : EFile := { FileEnc.exFile ver with thr := 8 }

example : ∀ b ∈ (FileEnc.exFile64 .v2).blocks, b.region.length > (FileEnc.exFile64 .v2).thr := by decide +kernel
example : ((FileEnc.exFile64 .v2).indexBlock id).region.length > (FileEnc.exFile64 .v2).thr := by decide +kernel

theorem FileEnc.exFile64_ok (ver : FVersion) : FileOK (FileEnc.exFile64 ver) id (fun _ _ => none) := by
  cases ver
  · exact ⟨by decide +kernel, fun h => absurd rfl h, by decide +kernel, by decide +kernel, by decide +kernel,
      by decide +kernel, fun h => absurd rfl h, fun _ => by decide +kernel, by decide +kernel⟩
  · exact ⟨by decide +kernel, fun h => absurd rfl h, by decide +kernel, by decide +kernel, by decide +kernel,
      by decide +kernel, fun h => absurd rfl h, (fun h => by cases h), by decide +kernel⟩

end Mtbl
