import MtblProofs.TpProofs
import MtblProofs.TpLive
/-
  C13 — Pooled writers and sorters: same result under every interleaving, no hangs.
  Theorems about the transition system of mtbl/threadpool.c (MtblModel/Tp.lean): they hold for EVERY reachable state,
  i.e. for every schedule of the caller, the worker threads and the result handler, including spurious wake-ups,
  for every pool size >= 1, every number of jobs, ordered and unordered delivery.
-/
namespace Tp.C13
variable {max njobs : Nat} {ordered : Bool} {s : St}

/-- the pool never runs more worker threads than its configured maximum -/
theorem C13_bound (hm : 1 ≤ max) (hr : Reachable max njobs ordered s) : s.count ≤ s.max := Tp.C13_bound hm hr

/-- every delivered result is the callback result of a submitted job, and no job is delivered twice -/
theorem C13_once (hm : 1 ≤ max) (hr : Reachable max njobs ordered s) :
    (∀ x ∈ s.delivered, ∃ j, x = some j ∧ j < s.njobs ∧
        (j < s.nextJob ∨ (s.ordered = false ∧ (∃ t, s.cpc = .enqueue t) ∧ j = s.nextJob))) ∧
    s.delivered.Nodup := Tp.C13_once_partial hm hr
/- Note: the bound `j < nextJob` asked for in DESIGN.md is false in the machine for unordered
   dispatch (the job counter is bumped in the step after the hand-off; C13_once_counterexample) — the statement above is
   the true one and loses nothing of the property ("delivered exactly once"). -/

/-- ordered delivery: results are delivered in submission order -/
theorem C13_order (hm : 1 ≤ max) (hr : Reachable max njobs ordered s) (ho : s.ordered = true) :
    s.delivered = (List.range s.delivered.length).map some := Tp.C13_order hm hr ho

/-- at termination every submitted job's result has been delivered exactly once -/
theorem C13_complete (hm : 1 ≤ max) (hr : Reachable max njobs ordered s) (ht : terminated s = true) :
    s.delivered.Perm ((List.range s.njobs).map some) := Tp.C13_complete_perm hm hr ht

theorem C13_complete_ordered (hm : 1 ≤ max) (hr : Reachable max njobs ordered s) (ht : terminated s = true)
    (ho : s.ordered = true) : s.delivered = (List.range s.njobs).map some := Tp.C13_complete_ordered hm hr ht ho

/-- no hang: in every reachable state that is not the final one, some thread can take a real (non-spurious) step —
    no lost wake-up, nobody sleeps for ever -/
theorem C13_deadlock_free (hm : 1 ≤ max) (hr : Reachable max njobs ordered s) (ht : terminated s = false) :
    ∃ w, (step s (.run w)).isSome = true := Tp.C13_deadlock_free hm hr ht

/-- why nobody sleeps for ever: every sleeper's predicate is false and the worker and the handler never sleep on the
    same thread's condition variable together -/
theorem C13_sleepers (hm : 1 ≤ max) (hr : Reachable max njobs ordered s) :
    (∀ t, t < s.thr.size → s.thr[t]!.pc = .top true → s.thr[t]!.running = false) ∧
    (∀ t, s.hpc = .waitRes t true → t < s.thr.size ∧ s.thr[t]!.running = true ∧ s.thr[t]!.pc ≠ .top true) ∧
    (s.hpc = .deq true → s.queue = [] ∧ ¬ (s.finished = true ∧ s.nthreads = 0)) ∧
    (s.cpc = .next true → s.idle = [] ∧ s.count = s.max) ∧
    (s.cpc = .destroy true → s.idle = [] ∧ s.count ≠ 0) := Tp.C13_sleepers hm hr

/-! ### no hangs: progress measure (liveness)

  `Phi : St → Nat` (MtblProofs/TpLive.lean) = 8 · (work still owed by the caller, the handler and every worker) + (number
  of threads standing awake at a loop head).  Every real step of ANY thread strictly decreases it, a spurious wake-up adds
  at most one.  Consequences, for every pool size, job count and delivery order:
   * `C13_steps_bounded`: along EVERY schedule — no fairness assumed — at most `128·njobs + 40·max + 42 + #spurious`
     real steps happen; the pool cannot stay busy for ever (no livelock) unless the OS wakes sleepers spuriously for ever;
   * `C13_no_hang`: when no thread can take a real step the caller has returned from `threadpool_destroy`
     (contrapositive of deadlock freedom) — so every maximal execution with finitely many spurious wake-ups is finite and
     ends with all calls returned;
   * `C13_can_finish`: from every reachable state some schedule of at most `Phi s` real steps ends in the final state.
  What remains outside the model: that the OS keeps scheduling some runnable thread, and the reduction of a critical
  section to one atomic step (data-race freedom, C14). -/

theorem C13_progress (hm : 1 ≤ max) (hr : Reachable max njobs ordered s) {l : Lbl} {s' : St} (hs : step s l = some s') :
    match l with | .run _ => Phi s' < Phi s | .spurious _ => Phi s' ≤ Phi s + 1 :=
  Tp.phi_step (Tp.inv_reachable hm hr) hs

theorem C13_steps_bounded (hm : 1 ≤ max) (ls : List Lbl) :
    (stepCount (init max njobs ordered) ls).1 ≤
      128 * njobs + 40 * max + 42 + (stepCount (init max njobs ordered) ls).2 := Tp.steps_bounded hm ls

theorem C13_no_hang (hm : 1 ≤ max) (hr : Reachable max njobs ordered s)
    (hq : ∀ w, (step s (.run w)).isSome = false) : terminated s = true := Tp.no_hang hm hr hq

theorem C13_can_finish (hm : 1 ≤ max) (hr : Reachable max njobs ordered s) :
    ∃ ls : List Who, ls.length ≤ Phi s ∧ terminated (runSched s (ls.map .run)) = true := Tp.can_finish hm hr

/-- non-vacuity: the example schedule (ordered, 2 threads, 3 jobs) takes 60 real steps and 10 spurious wake-ups, within the
    bound 128·3 + 40·2 + 42 + 10; the potential starts at 506 and ends at 0 -/
example : stepCount (init 2 3 true) Ex.schedOrd = (60, 10) ∧ Phi (init 2 3 true) = 506 ∧
    Phi (runSched (init 2 3 true) Ex.schedOrd) = 0 := by decide +kernel

end Tp.C13
