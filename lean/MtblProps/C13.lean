import MtblProofs.TpProofs
import MtblProofs.TpLive
import MtblProofs.PoolWriterProofs
import MtblProofs.PoolSorterProofs
import MtblProofs.TpShareProofs
import MtblProofs.TpKOrder
import MtblProofs.TpKWake
import MtblProofs.TpKUnord
import MtblProofs.TpKDead
import MtblProofs.TpKTerm
import MtblProofs.OwnerProofs
/-
  C13 — Pooled writers and sorters: same result under every interleaving, no hangs.
  Theorems about the transition system of mtbl/threadpool.c (MtblModel/Tp.lean): they hold for EVERY reachable state,
  i.e. for every schedule of the caller, the worker threads and the result handler, including spurious wake-ups,
  for every pool size >= 1, every number of jobs, ordered and unordered delivery.
-/
namespace Tp.C13
variable {max njobs : Nat} {ordered : Bool} {s : St}

/-- the pool never runs more worker threads than its configured maximum -/
theorem C13_bound (hm : 1 ≤ max) (hr : Reachable max njobs ordered s) : s.count ≤ s.max := Tp.C13_bound hm hr

/-- every delivered result is the callback result of a submitted job, and no job is delivered twice -/
theorem C13_once (hm : 1 ≤ max) (hr : Reachable max njobs ordered s) :
    (∀ x ∈ s.delivered, ∃ j, x = some j ∧ j < s.njobs ∧
        (j < s.nextJob ∨ (s.ordered = false ∧ (∃ t, s.cpc = .enqueue t) ∧ j = s.nextJob))) ∧
    s.delivered.Nodup := Tp.C13_once_partial hm hr
/- Note: the bound `j < nextJob` asked for in DESIGN.md is false in the machine for unordered
   dispatch (the job counter is bumped in the step after the hand-off; C13_once_counterexample) — the statement above is
   the true one and loses nothing of the property ("delivered exactly once"). -/

/-- ordered delivery: results are delivered in submission order -/
theorem C13_order (hm : 1 ≤ max) (hr : Reachable max njobs ordered s) (ho : s.ordered = true) :
    s.delivered = (List.range s.delivered.length).map some := Tp.C13_order hm hr ho

/-- at termination every submitted job's result has been delivered exactly once -/
theorem C13_complete (hm : 1 ≤ max) (hr : Reachable max njobs ordered s) (ht : terminated s = true) :
    s.delivered.Perm ((List.range s.njobs).map some) := Tp.C13_complete_perm hm hr ht

theorem C13_complete_ordered (hm : 1 ≤ max) (hr : Reachable max njobs ordered s) (ht : terminated s = true)
    (ho : s.ordered = true) : s.delivered = (List.range s.njobs).map some := Tp.C13_complete_ordered hm hr ht ho

/-- no hang: in every reachable state that is not the final one, some thread can take a real (non-spurious) step —
    no lost wake-up, nobody sleeps for ever -/
theorem C13_deadlock_free (hm : 1 ≤ max) (hr : Reachable max njobs ordered s) (ht : terminated s = false) :
    ∃ w, (step s (.run w)).isSome = true := Tp.C13_deadlock_free hm hr ht

/-- why nobody sleeps for ever: every sleeper's predicate is false and the worker and the handler never sleep on the
    same thread's condition variable together -/
theorem C13_sleepers (hm : 1 ≤ max) (hr : Reachable max njobs ordered s) :
    (∀ t, t < s.thr.size → s.thr[t]!.pc = .top true → s.thr[t]!.running = false) ∧
    (∀ t, s.hpc = .waitRes t true → t < s.thr.size ∧ s.thr[t]!.running = true ∧ s.thr[t]!.pc ≠ .top true) ∧
    (s.hpc = .deq true → s.queue = [] ∧ ¬ (s.finished = true ∧ s.nthreads = 0)) ∧
    (s.cpc = .next true → s.idle = [] ∧ s.count = s.max) ∧
    (s.cpc = .destroy true → s.idle = [] ∧ s.count ≠ 0) := Tp.C13_sleepers hm hr

/-! ### no hangs: progress measure (liveness)

  `Phi : St → Nat` (MtblProofs/TpLive.lean) = 8 · (work still owed by the caller, the handler and every worker) + (number
  of threads standing awake at a loop head).  Every real step of ANY thread strictly decreases it, a spurious wake-up adds
  at most one.  Consequences, for every pool size, job count and delivery order:
   * `C13_steps_bounded`: along EVERY schedule — no fairness assumed — at most `128·njobs + 40·max + 42 + #spurious`
     real steps happen; the pool cannot stay busy for ever (no livelock) unless the OS wakes sleepers spuriously for ever;
   * `C13_no_hang`: when no thread can take a real step the caller has returned from `threadpool_destroy`
     (contrapositive of deadlock freedom) — so every maximal execution with finitely many spurious wake-ups is finite and
     ends with all calls returned;
   * `C13_can_finish`: from every reachable state some schedule of at most `Phi s` real steps ends in the final state.
  What remains outside the model: that the OS keeps scheduling some runnable thread, and the reduction of a critical
  section to one atomic step (data-race freedom, C14). -/

theorem C13_progress (hm : 1 ≤ max) (hr : Reachable max njobs ordered s) {l : Lbl} {s' : St} (hs : step s l = some s') :
    match l with | .run _ => Phi s' < Phi s | .spurious _ => Phi s' ≤ Phi s + 1 :=
  Tp.phi_step (Tp.inv_reachable hm hr) hs

theorem C13_steps_bounded (hm : 1 ≤ max) (ls : List Lbl) :
    (stepCount (init max njobs ordered) ls).1 ≤
      128 * njobs + 40 * max + 42 + (stepCount (init max njobs ordered) ls).2 := Tp.steps_bounded hm ls

theorem C13_no_hang (hm : 1 ≤ max) (hr : Reachable max njobs ordered s)
    (hq : ∀ w, (step s (.run w)).isSome = false) : terminated s = true := Tp.no_hang hm hr hq

theorem C13_can_finish (hm : 1 ≤ max) (hr : Reachable max njobs ordered s) :
    ∃ ls : List Who, ls.length ≤ Phi s ∧ terminated (runSched s (ls.map .run)) = true := Tp.can_finish hm hr

/-- non-vacuity: the example schedule (ordered, 2 threads, 3 jobs) takes 60 real steps and 10 spurious wake-ups, within the
    bound 128·3 + 40·2 + 42 + 10; the potential starts at 506 and ends at 0 -/
example : stepCount (init 2 3 true) Ex.schedOrd = (60, 10) ∧ Phi (init 2 3 true) = 506 ∧
    Phi (runSched (init 2 3 true) Ex.schedOrd) = 0 := by decide +kernel

end Tp.C13

/-! ### the pooled writer: same file as without a pool

  `MtblModel/PoolWriter.lean` splits `_mtbl_writer_flush` the way the code does when `w->pool != NULL`: the caller cuts the
  block and dispatches it (`W.cut`), a worker compresses and the result handler writes the frame, advances offsets and
  counters and adds the index entry (`W.complete`).  A pooled writer is a writer plus the blocks dispatched and not yet
  delivered; its steps are `add` (caller) and `deliver` (the handler takes the OLDEST outstanding block: ordered delivery,
  `C13_order`); `finish` joins first (`C13_complete`, `C14_writer_join_first`).  The caller's part of an add and a
  completion touch disjoint fields (`addC_complete` — the functional counterpart of `C14_writer_partition`), hence: -/
namespace Mtbl.C13

/-- **C13, writer clause.**  For EVERY interleaving of adds and in-order deliveries (any configuration whose compressor does
    not fail, any file position): every add returns what the writer without a pool returns, and the finished file is
    byte-identical to the file written without a pool. -/
theorem C13_writer (cfg : WCfg) (hc : CompOK cfg) (pre : Nat) (steps : List PStep) :
    PW.runCodes { w := W.new cfg pre } steps = ((W.new cfg pre).addAll (addsOf steps)).1 ∧
    (PW.run { w := W.new cfg pre } steps).finish = Writer.run cfg pre (addsOf steps) :=
  pooled_writer_file cfg hc pre steps

/-- the same, from any state of a pooled writer: once what is outstanding has been delivered, it is the sequential writer -/
theorem C13_writer_state (p : PW) (hc : CompOK p.w.cfg) (steps : List PStep) :
    PW.runCodes p steps = (p.settle.addAll (addsOf steps)).1 ∧
    (p.run steps).settle = (p.settle.addAll (addsOf steps)).2 := pooled_eq_sequential p hc steps

/-- non-vacuity: 16-byte blocks, four adds (one refused) with the deliveries lagging behind: two blocks are outstanding
    after the last add -/
def exSteps : List PStep :=
  [.add [1] [9, 9, 9, 9, 9, 9, 9, 9], .add [2] [8, 8, 8, 8, 8, 8, 8, 8], .add [1, 5] [7], .add [3] [6, 6, 6, 6, 6, 6, 6, 6, 6],
   .deliver, .add [4] [5]]
def exCfg : WCfg := { compression := 0, blockSize := 16, minBlockSize := 16, interval := 2 }
example : CompOK exCfg := fun raw => ⟨raw, rfl⟩
example : (PW.run { w := W.new exCfg 0 } exSteps).pending.length = 2 ∧
    PW.runCodes { w := W.new exCfg 0 } exSteps = [.success, .success, .failure, .success, .success] := by decide +kernel

/-- **C13, sorter clause.**  With a pool the chunk jobs complete in any order, so the `readers` vector the final merger is
    built from is some permutation `cs'` of the chunks the sorter without a pool holds after its final flush (each chunk
    once: `C13_complete`; all of them before the merger is built: `C14_sorter_join_first`).  For EVERY such permutation the
    output is what C06_output states for the sequential order: strictly ascending keys, exactly the keys added, each value
    a combination of all the values added for its key, each used once. -/
theorem C13_sorter (c : SCfg) (f : Bytes → Bytes → Bytes → Option Bytes)
    (hsort : ∀ l, (c.sortFn l).Perm l ∧ Sorted (c.sortFn l)) (hm : c.merge = some f) (hok : ∀ k a b, f k a b ≠ none)
    (mc : MCfg) (hmm : mc.merge = some f) (hds : mc.dupsort = none) (hF2 : mc.fixF2 = true)
    (adds : List Entry) (fuel : Nat) (hfuel : adds.length + 1 ≤ fuel) :
    let r := Sorter.addAll { cfg := c } adds
    ∃ s1, (if r.2.vec.length > 0 then r.2.flush else (.success, r.2)) = (.success, s1) ∧
      ∀ cs' : List (List Entry), cs'.Perm s1.chunks →
        ∃ m, mergerIter mc cs' .iter [] = some m ∧
          StrictSorted (mergerDrain mc fuel m) ∧
          (∀ k, (∃ e ∈ mergerDrain mc fuel m, e.key = k) ↔ (∃ e ∈ adds, e.key = k)) ∧
          ∀ e ∈ mergerDrain mc fuel m, Folded f e.key (valuesOf e.key adds) e.val :=
  SorterProofs.pooled_sorter_output hsort hm hok mc hmm hds hF2 adds fuel hfuel

end Mtbl.C13

/-! ### several callers on one pool (`MtblModel/TpShare.lean`)

  The machine above has one caller.  Pooled writers and sorters may share one `mtbl_threadpool` from different caller threads;
  what they share is `threadpool_next` (take an idle thread, create one below the maximum, or sleep on `pool->c`) and the
  return-to-pool step of every result handler (push, signal `pool->c`).  `TpShare` models exactly that for ANY number of
  callers and handlers, with every choice `pthread_cond_signal` may make and spurious wake-ups.  What a thread does while
  held is the single-client protocol above.  They are tied to the code by the regenerated signal-site table; the same facts
  are proved below (`TpK.C13`) for the k-client MACHINE, which runs in lockstep with threadpool.c under the deterministic
  scheduler (`tpmulti` family, 1–4 clients). -/
namespace TpShare.C13

/-- for any number of callers: never more worker threads than the maximum, and every thread accounted for -/
theorem C13_shared_bound {max : Nat} {s : PSt} (hr : Reachable max s) :
    s.count ≤ s.max ∧ s.count = s.idle.length + s.held.length := share_bound hr

/-- a worker thread is handed to at most one caller at a time, and an idle thread to none -/
theorem C13_shared_exclusive {max : Nat} {s : PSt} (hr : Reachable max s) :
    (∀ t c1 c2, (t, c1) ∈ s.held → (t, c2) ∈ s.held → c1 = c2) ∧ (∀ t c, t ∈ s.idle → (t, c) ∉ s.held) :=
  share_exclusive hr

/-- no lost wake-up with several sleepers on `pool->c`: an idle thread next to a caller sleeping without a pending signal
    always comes with a caller that has been signalled and will run -/
theorem C13_shared_no_lost_wakeup {max : Nat} {s : PSt} (hr : Reachable max s)
    (hsl : ∃ c, (c, false) ∈ s.asleep) (hid : s.idle ≠ []) : ∃ c, (c, true) ∈ s.asleep :=
  share_no_lost_wakeup hr hsl hid

/-- the hypothesis this rests on, re-checked against the source on every run: the result handler signals `pool->c` after
    every push (table `Mtbl.Generated.signalSites`, regenerated from threadpool.c) -/
theorem C13_signal_sites : Mtbl.Generated.signalSites.contains ("resultq_next", "pool", "") = true ∧
    Mtbl.Generated.signalSites.length = 7 := by
  rw [Mtbl.Owner.signal_sites_as_modelled]; decide

/-- non-vacuity / why it matters: signalling only when the list was empty loses a wake-up with two sleepers -/
theorem C13_lazy_signal_witness :
    let run := fun (s : PSt) (ops : List Op) => ops.foldl (fun s op => (stepLazySignal s op).getD s) s
    let s := run { max := 2 } [.take 0, .take 1, .take 0, .take 1, .give 0 0, .give 1 0, .resume 0]
    s.idle = [0] ∧ s.asleep = [(1, false)] := lazy_signal_loses_a_wakeup

end TpShare.C13

/-! ### the k-client machine (`MtblModel/TpK.lean`): owner, any number of clients with their handlers, shared workers

  Same granularity as the one-client machine; replayed turn by turn against mtbl/threadpool.c under the deterministic scheduler
  with several client threads on one pool (`tpmulti` family: pool, every worker's mailbox, every client's queue, counter, flag
  and deliveries, enabled and sleeping sets compared after every turn).  For EVERY number of clients, pool size, job count,
  delivery mode and schedule (spurious wake-ups and the choice of the sleeper a signal wakes included): -/
namespace TpK.C13

/-- the pool never runs more worker threads than its maximum, however many clients share it -/
theorem C13_kclient_bound {n max njobs : Nat} {o : Bool} {s : St} (hr : Reachable n max njobs o s) : s.count ≤ s.max :=
  bound_reachable hr

/-- exclusive hand-out: every worker thread is in at most one place — the idle list, the owner's hands, one client's hands
    (caller, result queue or handler), or its own (an unordered job not yet queued) — and threads not yet created are nowhere -/
theorem C13_kclient_exclusive {n max njobs : Nat} {o : Bool} {s : St} (hr : Reachable n max njobs o s) :
    (∀ t, occ s t ≤ 1) ∧ (∀ t, s.thr.size ≤ t → occ s t = 0) :=
  ⟨(excl_reachable hr).le1, (excl_reachable hr).fresh⟩

/-- … so no worker is held by two clients at once, … -/
theorem C13_kclient_one_holder {n max njobs : Nat} {o : Bool} {s : St} (hr : Reachable n max njobs o s)
    {c1 c2 t : Nat} (h1 : c1 < s.cl.size) (h2 : c2 < s.cl.size) (hne : c1 ≠ c2)
    (m1 : t ∈ clView s.ordered s.cl[c1]!) : t ∉ clView s.ordered s.cl[c2]! :=
  (excl_reachable hr).two_clients h1 h2 hne m1

/-- … a thread a client holds is not idle, not being destroyed, exists, and is held exactly once (not both queued and in
    the handler's hands, not twice in the queue), … -/
theorem C13_kclient_held {n max njobs : Nat} {o : Bool} {s : St} (hr : Reachable n max njobs o s)
    {c t : Nat} (hc : c < s.cl.size) (m : t ∈ clView s.ordered s.cl[c]!) :
    t ∉ s.idle ∧ t ∉ oHand s.opc ∧ (clView s.ordered s.cl[c]!).count t = 1 ∧ t < s.thr.size ∧ wN s.thr[t]! = 0 :=
  (excl_reachable hr).client_holds hc m

/-- … and an idle thread is in the list once and in nobody's hands -/
theorem C13_kclient_idle {n max njobs : Nat} {o : Bool} {s : St} (hr : Reachable n max njobs o s) {t : Nat} (m : t ∈ s.idle) :
    s.idle.count t = 1 ∧ t ∉ oHand s.opc ∧ (∀ c, c < s.cl.size → t ∉ clView s.ordered s.cl[c]!) ∧ wN s.thr[t]! = 0 ∧
      t < s.thr.size :=
  (excl_reachable hr).idle_free m

/-- the hand-over protocol: the record of a worker thread has the shape its place requires — idle, in a caller's hands
    before the hand-over, or just returned by a handler: asleep or about to sleep at the loop head, no job, no result;
    handed over in order: working on the job, finished and about to say so, or done with the result in place; queued by
    itself or waited for (unordered): done with the result in place; told to exit: running with no job -/
theorem C13_kclient_protocol {n max njobs : Nat} {o : Bool} {s : St} (hr : Reachable n max njobs o s) (t : Nat) :
    Good s.ordered s.idle s.opc s.cl t s.thr[t]! := (inv_reachable hr).2 t

/-- ordered delivery (the mode pooled writers use) per client, whatever the other clients sharing the pool do: the results
    delivered to client c so far are exactly those of its jobs 0, 1, 2, … in this order — none twice, none out of order,
    none that was not submitted -/
theorem C13_kclient_order {n max njobs : Nat} {s : St} (hr : Reachable n max njobs true s) (ho : s.ordered = true) (c : Nat) :
    s.cl[c]!.delivered = (List.range s.cl[c]!.delivered.length).map some := order_reachable hr ho c

/-- … and when the client's thread has returned from `result_handler_destroy` it has been delivered the results of all its
    jobs, in order: this is what `C13_writer` takes from the pool for each of several pooled writers sharing it -/
theorem C13_kclient_complete {n max njobs : Nat} {o : Bool} {s : St} (hr : Reachable n max njobs o s)
    (ho : s.ordered = true) (c : Nat) (hd : s.cl[c]!.pc = .done) :
    s.cl[c]!.delivered = (List.range s.njobs).map some := complete_reachable hr ho c hd

/-- the invariant behind both: delivered results, the one in the handler's hands, the jobs of the queued threads in queue
    order and the job just handed over are, in this order, jobs 0, 1, 2, … of that client -/
theorem C13_kclient_line {n max njobs : Nat} {o : Bool} {s : St} (hr : Reachable n max njobs o s) (ho : s.ordered = true)
    (c : Nat) : line s.thr s.cl[c]! = (List.range (s.cl[c]!.nextJob + pend s.cl[c]!.pc)).map some :=
  jord_reachable hr ho c

/-- unordered delivery (the mode pooled sorters use) per client, whatever the other clients sharing the pool do: no result is
    delivered twice, none is missing (`none`), and only results of jobs the client has dispatched are delivered -/
theorem C13_kclient_unordered_once {n max njobs : Nat} {o : Bool} {s : St} (hr : Reachable n max njobs o s)
    (ho : s.ordered = false) (c : Nat) :
    s.cl[c]!.delivered.count none = 0 ∧
    ∀ j : Nat, s.cl[c]!.delivered.count (some j) ≤ 1 ∧
      (0 < s.cl[c]!.delivered.count (some j) → j < s.cl[c]!.nextJob + pend s.cl[c]!.pc) :=
  unordered_at_most_once hr ho c

/-- … and when the client's thread has returned it has been delivered the results of all its jobs, each exactly once: a
    permutation of the submissions (what `C13_sorter` takes from the pool, for each of several pooled sorters sharing it) -/
theorem C13_kclient_unordered_complete {n max njobs : Nat} {o : Bool} {s : St} (hr : Reachable n max njobs o s)
    (ho : s.ordered = false) (c : Nat) (hd : s.cl[c]!.pc = .done) :
    s.cl[c]!.delivered.Perm ((List.range s.njobs).map some) :=
  unordered_complete hr ho c hd

/-- the invariant behind both: every result of a client is in exactly one place — delivered, in the handler's hands, on a
    thread in the client's queue, or on a worker still carrying it — if the job has been dispatched, and nowhere otherwise;
    the outstanding counter `rq->nthreads` counts the queued threads and the workers still carrying a job of the client -/
theorem C13_kclient_unordered_places {n max njobs : Nat} {o : Bool} {s : St} (hr : Reachable n max njobs o s)
    (ho : s.ordered = false) (c : Nat) (x : Option Nat) :
    cntU s c x = want s.cl[c]! x ∧ NOk s.thr c s.cl[c]! :=
  ⟨(uord_reachable hr ho).cnt c x, (nord_reachable hr ho).n c⟩

/-- non-vacuity (unordered): two clients, pool of one worker, two jobs each, run to the end -/
example : Reachable 2 1 2 false (runAuto 200 (init 2 1 2 false)) ∧
    ((runAuto 200 (init 2 1 2 false)).ordered = false ∧ (runAuto 200 (init 2 1 2 false)).opc = .done ∧
     (runAuto 200 (init 2 1 2 false)).cl.toList.map (·.pc) = [CPc.done, CPc.done] ∧
     (runAuto 200 (init 2 1 2 false)).cl.toList.map (·.delivered.length) = [2, 2]) :=
  ⟨reachable_runAuto 200 .init, by decide +kernel⟩

/-- no lost wake-up on `pool->c` with several callers asleep in `threadpool_next` (the fault class of "signal only when the
    list was empty"): while some caller sleeps, the idle workers are no more than the callers standing at the loop head of
    `threadpool_next` with a job still to dispatch (signalled, woken spuriously, or just arrived); so an idle thread next to a
    sleeper always comes with a caller that is awake and about to take it -/
theorem C13_kclient_no_lost_wakeup {n max njobs : Nat} {o : Bool} {s : St} (hr : Reachable n max njobs o s)
    (hsl : ∃ c : Nat, s.cl[c]!.pc = .next true) :
    s.idle.length ≤ R s ∧ (s.idle ≠ [] → ∃ c : Nat, s.cl[c]!.pc = .next false ∧ s.cl[c]!.nextJob < s.njobs) :=
  no_lost_wakeup hr hsl

/-- the owner destroys the pool only after every client thread has returned, and then nobody sleeps in `threadpool_next` -/
theorem C13_kclient_joined_first {n max njobs : Nat} {o : Bool} {s : St} (hr : Reachable n max njobs o s)
    (ho : afterJoin s.opc = true) : (∀ c : Nat, s.cl[c]!.pc = .done ∨ s.cl[c]!.pc = .idle) ∧ S s = 0 :=
  ⟨(wk_reachable hr).over ho, (wk_reachable hr).no_sleeper ho⟩

/-- NO DEADLOCK, for every number of clients: in every reachable state in which the pool owner has not returned from
    `threadpool_destroy`, some thread can take a real step (no spurious wake-up needed) — so no `result_handler_destroy`
    (a writer's or sorter's close), no join and no `threadpool_destroy` can be left waiting with every thread asleep.
    `1 ≤ max` is the guard `mtbl_threadpool_init` applies (`thread_count > 0`, else no pool is created); without it the
    statement is false (witness below). -/
theorem C13_kclient_no_deadlock {n max njobs : Nat} {o : Bool} {s : St} (hr : Reachable n max njobs o s) (hn : 1 ≤ n)
    (hm : 1 ≤ max) (hd : s.opc ≠ .done) : ∃ w, (step s (.run w 0)).isSome = true :=
  no_deadlock hr hn hm hd

/-- hence a state in which nobody can move is the final one: the owner is back from `threadpool_destroy`, every client
    thread has returned, and (by `C13_kclient_complete` / `C13_kclient_unordered_complete`) each got all of its results -/
theorem C13_kclient_no_hang {n max njobs : Nat} {o : Bool} {s : St} (hr : Reachable n max njobs o s) (hn : 1 ≤ n)
    (hm : 1 ≤ max) (hq : ∀ w, (step s (.run w 0)).isSome = false) :
    s.opc = .done ∧ ∀ c : Nat, s.cl[c]!.pc = .done ∨ s.cl[c]!.pc = .idle := by
  have hd : s.opc = .done := by
    apply Classical.byContradiction; intro hx
    obtain ⟨w, hw⟩ := no_deadlock hr hn hm hx
    rw [hq w] at hw; cases hw
  exact ⟨hd, (wk_reachable hr).over (by rw [hd]; rfl)⟩

/-- PROGRESS MEASURE, for every number of clients: in every reachable state every real step of any thread — owner, callers,
    handlers, workers — strictly decreases `Phi`, and a spurious wake-up increases it by at most one -/
theorem C13_kclient_progress {n max njobs : Nat} {o : Bool} {s s' : St} {l : Lbl} (hr : Reachable n max njobs o s)
    (hn : 1 ≤ n) (hs : step s l = some s') :
    match l with
    | .run _ _ => Phi s' < Phi s
    | .spurious _ => Phi s' ≤ Phi s + 1 :=
  phi_step (live_reachable hn hr) (bound_reachable hr) hs

/-- hence along EVERY schedule from the initial state — fair or not; any number of clients, pool size, job count; ordered
    or unordered — the number of real steps taken is at most `n·(128·njobs + 73) + 40·max + 24` plus the number of spurious
    wake-ups that occurred: no schedule keeps a shared pool busy for ever unless the OS delivers infinitely many spurious
    wake-ups.  With `C13_kclient_no_hang`: every maximal execution with finitely many spurious wake-ups ends with every
    client's close and the owner's `threadpool_destroy` returned. -/
theorem C13_kclient_steps_bounded {n max njobs : Nat} {o : Bool} (hn : 1 ≤ n) (ls : List Lbl) :
    (stepCount (init n max njobs o) ls).1 ≤
      n * (128 * njobs + 73) + 40 * max + 24 + (stepCount (init n max njobs o) ls).2 :=
  steps_bounded hn ls

/-- and from every reachable state the final state can still be reached, by a schedule of at most `Phi s` real steps and no
    spurious wake-up -/
theorem C13_kclient_can_finish {n max njobs : Nat} {o : Bool} {s : St} (hn : 1 ≤ n) (hm : 1 ≤ max)
    (hr : Reachable n max njobs o s) :
    ∃ ls : List Who, ls.length ≤ Phi s ∧ (runSched s (ls.map fun w => .run w 0)).opc = .done :=
  can_finish hn hm hr

/-- END TO END, for the k-client machine: take ANY schedule from the initial state (any number of clients ≥ 1, any pool size
    ≥ 1, any job count, ordered or not, spurious wake-ups included).  If it is maximal — nobody can take a real step in the
    state it ends in — then the owner is back from `threadpool_destroy`, no worker thread is left (count 0, idle list empty),
    every client thread has returned from `result_handler_destroy`, and every client has been delivered the results of all
    its jobs: in dispatch order when ordering was requested (pooled writers), each exactly once otherwise (pooled sorters).
    And by `C13_kclient_steps_bounded` every schedule with finitely many spurious wake-ups extends to a maximal one. -/
theorem C13_kclient_maximal {n max njobs : Nat} {o : Bool} (hn : 1 ≤ n) (hm : 1 ≤ max) (ls : List Lbl)
    (hq : ∀ w, (step (runSched (init n max njobs o) ls) (.run w 0)).isSome = false) :
    (runSched (init n max njobs o) ls).opc = .done ∧ (runSched (init n max njobs o) ls).count = 0 ∧
    (runSched (init n max njobs o) ls).idle = [] ∧
    ∀ c : Nat, c < n →
      (runSched (init n max njobs o) ls).cl[c]!.pc = .done ∧
      (o = true → (runSched (init n max njobs o) ls).cl[c]!.delivered = (List.range njobs).map some) ∧
      (o = false → (runSched (init n max njobs o) ls).cl[c]!.delivered.Perm ((List.range njobs).map some)) :=
  maximal_run_complete hn hm ls hq

/-- non-vacuity of `C13_kclient_maximal`: a round-robin schedule of two clients on a pool of one worker, two jobs each,
    unordered, ends in a state where nobody can move (its hypothesis holds; checked over every thread of that state) -/
def rrSched : List Lbl :=
  (List.range 80).flatMap fun _ =>
    [.run .owner 0, .run (.client 0) 0, .run (.handler 0) 0, .run (.client 1) 0, .run (.handler 1) 0, .run (.worker 0) 0]
example : (allWho (runSched (init 2 1 2 false) rrSched)).all
    (fun w => (step (runSched (init 2 1 2 false) rrSched) (.run w 0)).isNone) = true ∧
    (runSched (init 2 1 2 false) rrSched).thr.size = 1 := by decide +kernel

/-- the invariants behind it hold in every reachable state: a worker asleep at its loop head has nothing to do, a handler
    asleep on its queue has an empty queue and is still owed a result or the finish flag, a caller asleep in
    `threadpool_next` sees the pool exhausted, the owner asleep in `threadpool_destroy` sees an empty idle list and a
    non-zero count, and the thread count is exactly the number of places occupied plus the threads being created -/
theorem C13_kclient_sleepers {n max njobs : Nat} {o : Bool} {s : St} (hr : Reachable n max njobs o s) (hn : 1 ≤ n) :
    (∀ t : Nat, s.thr[t]!.pc = .top true → s.thr[t]!.running = false) ∧
    (∀ c : Nat, s.cl[c]!.hpc = .deq true → s.cl[c]!.queue = [] ∧ ¬ (s.cl[c]!.finished = true ∧ s.cl[c]!.nthreads = 0)) ∧
    (∀ c : Nat, s.cl[c]!.pc = .next true → s.count = s.max) ∧
    (s.opc = .destroy true → s.idle = [] ∧ s.count ≠ 0) ∧
    s.count = s.idle.length + (oHand s.opc).length + sumA s.cl (plc s.ordered) + sumA s.thr wN := by
  have L := live_reachable hn hr
  exact ⟨L.strict, fun c => (L.cl c).deqSleep, L.phs.nextSleep, L.phs.destroySleep, L.tot⟩

/-- non-vacuity of `C13_kclient_no_lost_wakeup`: a reachable state with a caller asleep in `threadpool_next` (two clients, pool
    of one worker: client 0 holds the worker, client 1 found the pool exhausted) -/
def exSleepSched : List Lbl :=
  [.run .owner 0, .run .owner 0, .run (.client 0) 0, .run (.client 0) 0, .run (.client 0) 0, .run (.client 0) 0,
   .run (.client 1) 0, .run (.client 1) 0, .run (.client 1) 0]
def exSleep : St := exSleepSched.foldl (fun s l => (step s l).getD s) (init 2 1 1 true)
example : (exSleep.cl.toList.map (·.pc)) = [CPc.assign 0, CPc.next true] ∧ exSleep.count = 1 := by decide +kernel

/-- non-vacuity of `C13_kclient_no_deadlock`: in the state `exSleep` below (client 1 asleep in `threadpool_next`, the pool's
    only worker in client 0's hands) the owner has not finished and client 0 can move -/
example : exSleep.opc ≠ .done ∧
    (step exSleep (.run (.client 0) 0)).isSome = true := by
  decide +kernel

/-- the counting function on a concrete schedule (the nine steps to `exSleep`, with one spurious wake-up of a thread that
    is not asleep — skipped — and one of the sleeping client 1 — counted) -/
example : stepCount (init 2 1 1 true) (exSleepSched ++ [.spurious (.client 0), .spurious (.client 1)]) = (9, 1) := by
  decide +kernel

/-- why `1 ≤ max` is needed: with a pool of ZERO workers (which `mtbl_threadpool_init` never creates) the first dispatch
    sleeps for ever — a reachable state, the owner waiting in `pthread_join`, nobody able to move -/
example : Reachable 1 0 1 true (runAuto 20 (init 1 0 1 true)) ∧
    ((runAuto 20 (init 1 0 1 true)).opc = .joinC 0 ∧
     (allWho (runAuto 20 (init 1 0 1 true))).all (fun w => (step (runAuto 20 (init 1 0 1 true)) (.run w 0)).isNone) = true) :=
  ⟨reachable_runAuto 20 .init, by decide +kernel⟩


/-- non-vacuity of `C13_kclient_complete`: a reachable final state — two clients sharing a pool of ONE worker, two jobs each,
    run to the end under a first-enabled-thread scheduler — in which both client threads have returned -/
example : Reachable 2 1 2 true (runAuto 200 (init 2 1 2 true)) ∧
    ((runAuto 200 (init 2 1 2 true)).ordered = true ∧ (runAuto 200 (init 2 1 2 true)).opc = .done ∧
     (runAuto 200 (init 2 1 2 true)).cl.toList.map (·.pc) = [CPc.done, CPc.done] ∧
     (runAuto 200 (init 2 1 2 true)).cl.toList.map (·.delivered) = [[some 0, some 1], [some 0, some 1]]) :=
  ⟨reachable_runAuto 200 .init, by decide +kernel⟩

/-- non-vacuity: a reachable state with two clients each holding a worker (the owner starts both clients; each creates its
    handler, takes a worker slot below the maximum and creates the worker) -/
def exSched : List Lbl :=
  [.run .owner 0, .run .owner 0, .run (.client 0) 0, .run (.client 0) 0, .run (.client 0) 0, .run (.client 0) 0,
   .run (.client 1) 0, .run (.client 1) 0, .run (.client 1) 0, .run (.client 1) 0]
def exState : St := exSched.foldl (fun s l => (step s l).getD s) (init 2 2 1 true)
example : exState.count = 2 ∧ (exState.cl.toList.map (·.pc)) = [CPc.assign 0, CPc.assign 1] ∧ occ exState 0 = 1 ∧
    occ exState 1 = 1 := by decide

end TpK.C13
