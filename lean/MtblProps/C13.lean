import MtblProofs.TpProofs
/-
  C13 — Pooled writers and sorters: same result under every interleaving, no hangs.
  Theorems about the transition system of mtbl/threadpool.c (MtblModel/Tp.lean): they hold for EVERY reachable state,
  i.e. for every schedule of the caller, the worker threads and the result handler, including spurious wake-ups,
  for every pool size >= 1, every number of jobs, ordered and unordered delivery.
-/
namespace Tp.C13
variable {max njobs : Nat} {ordered : Bool} {s : St}

/-- the pool never runs more worker threads than its configured maximum -/
theorem C13_bound (hm : 1 ≤ max) (hr : Reachable max njobs ordered s) : s.count ≤ s.max := Tp.C13_bound hm hr

/-- every delivered result is the callback result of a submitted job, and no job is delivered twice -/
theorem C13_once (hm : 1 ≤ max) (hr : Reachable max njobs ordered s) :
    (∀ x ∈ s.delivered, ∃ j, x = some j ∧ j < s.njobs ∧
        (j < s.nextJob ∨ (s.ordered = false ∧ (∃ t, s.cpc = .enqueue t) ∧ j = s.nextJob))) ∧
    s.delivered.Nodup := Tp.C13_once_partial hm hr
/- Note: the bound `j < nextJob` asked for in DESIGN.md is false in the machine for unordered
   dispatch (the job counter is bumped in the step after the hand-off; C13_once_counterexample) — the statement above is
   the true one and loses nothing of the property ("delivered exactly once"). -/

/-- ordered delivery: results are delivered in submission order -/
theorem C13_order (hm : 1 ≤ max) (hr : Reachable max njobs ordered s) (ho : s.ordered = true) :
    s.delivered = (List.range s.delivered.length).map some := Tp.C13_order hm hr ho

/-- at termination every submitted job's result has been delivered exactly once -/
theorem C13_complete (hm : 1 ≤ max) (hr : Reachable max njobs ordered s) (ht : terminated s = true) :
    s.delivered.Perm ((List.range s.njobs).map some) := Tp.C13_complete_perm hm hr ht

theorem C13_complete_ordered (hm : 1 ≤ max) (hr : Reachable max njobs ordered s) (ht : terminated s = true)
    (ho : s.ordered = true) : s.delivered = (List.range s.njobs).map some := Tp.C13_complete_ordered hm hr ht ho

/-- no hang: in every reachable state that is not the final one, some thread can take a real (non-spurious) step —
    no lost wake-up, nobody sleeps for ever -/
theorem C13_deadlock_free (hm : 1 ≤ max) (hr : Reachable max njobs ordered s) (ht : terminated s = false) :
    ∃ w, (step s (.run w)).isSome = true := Tp.C13_deadlock_free hm hr ht

/-- why nobody sleeps for ever: every sleeper's predicate is false and the worker and the handler never sleep on the
    same thread's condition variable together -/
theorem C13_sleepers (hm : 1 ≤ max) (hr : Reachable max njobs ordered s) :
    (∀ t, t < s.thr.size → s.thr[t]!.pc = .top true → s.thr[t]!.running = false) ∧
    (∀ t, s.hpc = .waitRes t true → t < s.thr.size ∧ s.thr[t]!.running = true ∧ s.thr[t]!.pc ≠ .top true) ∧
    (s.hpc = .deq true → s.queue = [] ∧ ¬ (s.finished = true ∧ s.nthreads = 0)) ∧
    (s.cpc = .next true → s.idle = [] ∧ s.count = s.max) ∧
    (s.cpc = .destroy true → s.idle = [] ∧ s.count ≠ 0) := Tp.C13_sleepers hm hr

/- Liveness beyond deadlock freedom ("every call returns") needs a fair scheduler and finitely many spurious wake-ups;
   it is not mechanised (DESIGN.md: C13 is claimed with liveness partial).  The reduction "a critical section is one atomic
   step" rests on data-race freedom (C14). -/

end Tp.C13
