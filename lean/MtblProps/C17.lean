import MtblProofs.CrcProofs
/-
  C17 — mtbl_crc32c is the standard CRC-32C on every buffer, both implementations.
-/
namespace Mtbl.C17

/-- the table-driven implementation (tables and lane wiring regenerated from crc32c-slicing.c on every run)
    equals the bitwise definition for EVERY buffer and EVERY address alignment -/
theorem C17_slicing_eq_spec (align : Nat) (buf : Bytes) : slicing align buf = crc32c buf := C17_slicing align buf

/-- the instruction-driven implementation (tail switch regenerated from crc32c-sse42.c on every run) equals it too -/
theorem C17_sse42_eq_spec (buf : Bytes) : sse42 buf = crc32c buf := C17_sse42 buf

/-- the 8×256 table extracted from the C source equals the table computed from the polynomial -/
theorem C17_tables_generated : Generated.cTables = genTables := C17_tables

theorem C17_lanes_generated : Generated.cLanes =
    [(7,false,0),(6,false,8),(5,false,16),(4,false,24),(3,true,0),(2,true,8),(1,true,16),(0,true,24)] := C17_lanes

/-- for every residual length the tail switch's loads tile the remaining bytes exactly -/
theorem C17_tail_generated : ∀ n, n < 8 →
    let prog := Generated.sseTail.getD n []
    (prog.map (·.2)).sum = n ∧ contiguous prog := C17_ssetail

/-- whichever implementation the run-time detection selects, the result is the standard CRC-32C -/
theorem C17_dispatch (sse42Supported : Bool) (align : Nat) (buf : Bytes) :
    (if sse42Supported then sse42 buf else slicing align buf) = crc32c buf := by
  cases sse42Supported <;> simp [C17_slicing, C17_sse42]

/-- anchor: the specification is the iSCSI CRC (check value of "123456789") -/
theorem C17_check_value : crc32c "123456789".toUTF8.toList = 0xE3069283 := by decide +kernel

example : slicing 3 [1, 2, 3, 4, 5, 6, 7, 8, 9, 10, 11, 12, 13] = crc32c [1, 2, 3, 4, 5, 6, 7, 8, 9, 10, 11, 12, 13] := C17_slicing _ _

end Mtbl.C17
