import MtblProps.Common
import MtblProofs.ToolsProofs
/-
  C01 — What is written is what is read: a table written from strictly increasing adds, opened and iterated
  from the start, returns exactly the entries added, in order, then failure.   (R ∘ E ∘ W)
-/
namespace Mtbl.C01

/-- **C01.**  For every writer configuration (any compression type whose codec round-trips, any block size, any
    restart interval ≥ 1), every foreign prefix `pre` already in the file, every strictly increasing list of
    entries `es` (keys and values shorter than 4 GiB, F11) and with or without checksum verification:
    the bytes the writer produced open, and iterating from the start returns exactly `es`, in order, and then
    failure.  Only for the empty table the reader hands out a NULL iterator (which the C wrapper treats as an
    iterator that always fails). -/
theorem C01_roundtrip (cfg : WCfg) (comp : Bytes → Bytes) (decomp : Nat → Bytes → Option Bytes)
    (hw : WriterOK cfg comp decomp) (pre : Bytes) (es : List Entry) (hs : StrictSorted es)
    (hz : SizesOK cfg comp pre es) (verify : Bool) :
    ∃ r, readerOpen true cfg.thr decomp verify (pre ++ Writer.run cfg pre.length es) = .ok r ∧
      ((es = [] ∧ readerIterInit true r none .iter = some none) ∨
       (∃ it₀, readerIterInit true r none .iter = some (some it₀) ∧
          rRun it₀ (List.replicate (es.length + 1) .next) = some (es.map some ++ [none]))) := by
  obtain ⟨r, t, hopen, ok, hent⟩ := hw.opens hs hz verify
  refine ⟨r, hopen, ?_⟩
  rcases readerIterInit_spec ok none .iter with ⟨h0, _⟩ | ⟨it, h0, _, _⟩
  · exact Or.inl ⟨by rw [← hent]; exact C01_null ok h0, h0⟩
  · exact Or.inr ⟨it, h0, by rw [← hent]; exact C01_iterate ok h0⟩

/-- **C01**, any number of `next` calls: `m` calls return the first `m` entries added, padded with failures -/
theorem C01_roundtrip_m (cfg : WCfg) (comp : Bytes → Bytes) (decomp : Nat → Bytes → Option Bytes)
    (hw : WriterOK cfg comp decomp) (pre : Bytes) (es : List Entry) (hs : StrictSorted es)
    (hz : SizesOK cfg comp pre es) (verify : Bool) :
    ∃ r, readerOpen true cfg.thr decomp verify (pre ++ Writer.run cfg pre.length es) = .ok r ∧
      ((es = [] ∧ readerIterInit true r none .iter = some none) ∨
       (∃ it₀, readerIterInit true r none .iter = some (some it₀) ∧
          ∀ m, rRun it₀ (List.replicate m .next) = some (RI.drainOut es m))) := by
  obtain ⟨r, t, hopen, ok, hent⟩ := hw.opens hs hz verify
  refine ⟨r, hopen, ?_⟩
  rcases readerIterInit_spec ok none .iter with ⟨h0, _⟩ | ⟨it, h0, _, _⟩
  · exact Or.inl ⟨by rw [← hent]; exact C01_null ok h0, h0⟩
  · exact Or.inr ⟨it, h0, fun m => by rw [← hent]; exact C01_iterate_m ok h0 m⟩

/-- **C01 for arbitrary add sequences** (unsorted, repeated keys): what is read back is exactly the subsequence
    the writer accepted, `acceptedOf none adds` = the adds whose key is strictly greater than the last accepted
    key (C08); refused adds leave no trace in the file. -/
theorem C01_roundtrip_any (cfg : WCfg) (comp : Bytes → Bytes) (decomp : Nat → Bytes → Option Bytes)
    (hw : WriterOK cfg comp decomp) (pre : Bytes) (adds : List Entry)
    (hz : SizesOK cfg comp pre (acceptedOf none adds)) (verify : Bool) :
    ∃ r, readerOpen true cfg.thr decomp verify (pre ++ Writer.run cfg pre.length adds) = .ok r ∧
      ((acceptedOf none adds = [] ∧ readerIterInit true r none .iter = some none) ∨
       (∃ it₀, readerIterInit true r none .iter = some (some it₀) ∧
          rRun it₀ (List.replicate ((acceptedOf none adds).length + 1) .next) =
            some ((acceptedOf none adds).map some ++ [none]))) := by
  obtain ⟨r, t, hopen, ok, hent⟩ := hw.opens_any adds hz verify
  refine ⟨r, hopen, ?_⟩
  rcases readerIterInit_spec ok none .iter with ⟨h0, _⟩ | ⟨it, h0, _, _⟩
  · exact Or.inl ⟨by rw [← hent]; exact C01_null ok h0, h0⟩
  · exact Or.inr ⟨it, h0, by rw [← hent]; exact C01_iterate ok h0⟩


/-- **C01, mtbl_dump.**  The tool opens the file (no checksum verification) and runs `while (mtbl_iter_next(…))` on a
    whole-table iterator.  For every option set `o` (-s, -x, -k, -v, -K, -V) what it prints is `dumpSpec o es`: one line per
    entry of the matching subsequence of what was added, in order (`Tools.dumpPred_iff` says what "matching" is,
    `Tools.dumpSpec_sublist` that it is a subsequence, `Tools.dumpSpec_default` that without options it is everything).
    `m` is the number of `next` calls the loop gets to make; any `m > es.length` gives the same output, i.e. the loop
    stops at the first failure, which comes right after the last entry. -/
theorem C01_dump (cfg : WCfg) (comp : Bytes → Bytes) (decomp : Nat → Bytes → Option Bytes)
    (hw : WriterOK cfg comp decomp) (pre : Bytes) (es : List Entry) (hs : StrictSorted es)
    (hz : SizesOK cfg comp pre es) (o : Tools.DumpOpts) :
    ∃ r, readerOpen true cfg.thr decomp false (pre ++ Writer.run cfg pre.length es) = .ok r ∧
      ((es = [] ∧ readerIterInit true r none .iter = some none ∧ Tools.dumpSpec o es = []) ∨
       (∃ it₀, readerIterInit true r none .iter = some (some it₀) ∧
          ∀ m, es.length < m →
            (rRun it₀ (List.replicate m .next)).map (Tools.dumpOfRun o) = some (Tools.dumpSpec o es))) := by
  obtain ⟨r, hopen, h⟩ := C01_roundtrip_m cfg comp decomp hw pre es hs hz false
  refine ⟨r, hopen, ?_⟩
  rcases h with ⟨he, h0⟩ | ⟨it₀, h0, hrun⟩
  · exact Or.inl ⟨he, h0, by subst he; simp [Tools.dumpSpec]⟩
  · exact Or.inr ⟨it₀, h0, fun m hm => by rw [hrun m]; simp [Tools.dumpOfRun_drainOut o es hm]⟩

/-- the dump of the five-block example with `-x -k 01`: exactly the entries whose key starts with byte 01 -/
example : Tools.dumpSpec { hex := true, kpre := some [1] } WriterEx.es =
    ((WriterEx.es.filter fun e => e.key.take 1 == [1]).map (Tools.dumpLine { hex := true })) := by decide +kernel
example : Tools.dumpLine { hex := true } ⟨[0x61, 0xff], []⟩ = "00000002:61-ff 00000000:" ∧
    Tools.dumpLine {} ⟨[0x61, 0x22, 0x0a], [0x7e, 0x7f]⟩ = "\"a\\\"\\x0a\" \"~\\x7f\"" := by decide +kernel

/-- the writer itself never stops on an assertion while producing those bytes -/
theorem C01_writer_no_abort (cfg : WCfg) (comp : Bytes → Bytes) (decomp : Nat → Bytes → Option Bytes)
    (hw : WriterOK cfg comp decomp) (pre : Nat) (adds : List Entry) :
    ((W.new cfg pre).addAll adds).2.aborted = false :=
  W_no_abort cfg comp hw.comp_eq pre adds

/-! ### non-vacuity: the five-block example (empty key, a value larger than a block, two foreign bytes),
    uncompressed and through the toy compressor -/

example (verify : Bool) :
    ∃ r, readerOpen true WriterEx.cfg.thr (fun _ _ => none) verify ([0xAA, 0xBB] ++ Writer.run WriterEx.cfg 2 WriterEx.es)
        = .ok r ∧
      ((WriterEx.es = [] ∧ readerIterInit true r none .iter = some none) ∨
       (∃ it₀, readerIterInit true r none .iter = some (some it₀) ∧
          rRun it₀ (List.replicate (WriterEx.es.length + 1) .next) = some (WriterEx.es.map some ++ [none]))) :=
  C01_roundtrip _ _ _ WriterEx.writerOK [0xAA, 0xBB] _ WriterEx.sorted WriterEx.sizesOK verify

example (verify : Bool) :
    ∃ r, readerOpen true WriterEx.cfgZ.thr (fun _ s => some s.reverse) verify
        ([0xAA, 0xBB] ++ Writer.run WriterEx.cfgZ 2 WriterEx.es) = .ok r ∧
      ((WriterEx.es = [] ∧ readerIterInit true r none .iter = some none) ∨
       (∃ it₀, readerIterInit true r none .iter = some (some it₀) ∧
          rRun it₀ (List.replicate (WriterEx.es.length + 1) .next) = some (WriterEx.es.map some ++ [none]))) :=
  C01_roundtrip _ _ _ WriterEx.writerOKZ [0xAA, 0xBB] _ WriterEx.sorted WriterEx.sizesOKZ verify

/-- an add sequence with refused adds: two of the six are dropped -/
example : acceptedOf none [⟨[1], []⟩, ⟨[1], [7]⟩, ⟨[0, 255], []⟩, ⟨[1, 0], []⟩, ⟨[0x80], []⟩, ⟨[0x80, 0], [1]⟩] =
    [⟨[1], []⟩, ⟨[1, 0], []⟩, ⟨[0x80], []⟩, ⟨[0x80, 0], [1]⟩] := by decide +kernel

/-- the adds of the five-block example offered out of order: the two refused adds (`⟨[], [5]⟩` repeats the empty key,
    `⟨[0], [4]⟩` goes backwards) leave no trace, and exactly the seven accepted entries are read back -/
def exAdds : List Entry := [⟨[], [1]⟩, ⟨[], [5]⟩, ⟨[1], [2, 3]⟩, ⟨[0], [4]⟩] ++ WriterEx.es.drop 2

theorem exAdds_accepted : acceptedOf none exAdds = WriterEx.es := by decide +kernel

example (verify : Bool) :
    ∃ r, readerOpen true WriterEx.cfg.thr (fun _ _ => none) verify ([0xAA, 0xBB] ++ Writer.run WriterEx.cfg 2 exAdds)
        = .ok r ∧
      ∃ it₀, readerIterInit true r none .iter = some (some it₀) ∧
        rRun it₀ (List.replicate 8 .next) = some (WriterEx.es.map some ++ [none]) := by
  obtain ⟨r, h1, h2⟩ := C01_roundtrip_any _ _ _ WriterEx.writerOK [0xAA, 0xBB] exAdds
    (by rw [exAdds_accepted]; exact WriterEx.sizesOK) verify
  rw [exAdds_accepted] at h2
  rcases h2 with ⟨h, _⟩ | h
  · cases h
  · exact ⟨r, h1, h⟩

end Mtbl.C01
