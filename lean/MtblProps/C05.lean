import MtblProofs.MergerSeekProofs
/-
  C05 — Merger lookups and seeks behave like one table holding the merged content.
  `c.fixF2 = c.fixF8 = true` is the repaired code (finding F8: the pinned code takes the forward path for a seek to
  the key just returned and skips it).  Seeks are at or after the start of the iterator's range (`bcmp lo k ≠ .gt`),
  as the property requires; `seek_below_start_witness` shows the hypothesis is necessary for bounded iterators.
-/
namespace Mtbl.C05
open MergerSeek

/-- after ANY state reachable by next/seek histories (invariants `MInv`, `SeekInv`), `seek k` leaves the merger holding
    exactly what the live sources hold at or after `k`, and the invariants again — for every `k` at/after the start -/
theorem C05_seek (c : MCfg) (hF8 : c.fixF8 = true)
    (htot : ∀ a b, hle c a b = true ∨ hle c b a = true)
    (htrans : ∀ a b d, hle c a b = true → hle c b d = true → hle c a d = true)
    (lo : Bytes) {m : MIter} (hi : MInv c m) (hs : SeekInv lo m) (k : Bytes) (hlo : bcmp lo k ≠ .gt) :
    MInv c (mergerSeek c m k) ∧ SeekInv lo (mergerSeek c m k) ∧
    (pool (mergerSeek c m k)).Perm (m.live.flatMap fun i => ((m.srcs[i]!).seek k).remaining) ∧
    SFrame m (mergerSeek c m k) := mergerSeek_inv c hF8 htot htrans lo hi hs k hlo

/-- both invariants hold initially and are preserved by `next` (either merge mode, any outcome) -/
theorem C05_inv_init (c : MCfg) (tables : List (List Entry)) (kind : Kind) (start : Bytes) {m : MIter}
    (h : mergerIter c tables kind start = some m) : SeekInv start m ∧ m.curKey = [] :=
  mergerIter_seekInv c tables kind start h

theorem C05_inv_next (c : MCfg) (hF2 : c.fixF2 = true)
    (htot : ∀ a b, hle c a b = true ∨ hle c b a = true)
    (htrans : ∀ a b d, hle c a b = true → hle c b d = true → hle c a d = true)
    (lo : Bytes) {m : MIter} (hi : MInv c m) (hs : SeekInv lo m) : SeekInv lo (mergerNext c m).2 :=
  mergerNext_seekInv c hF2 htot htrans lo hi hs

/-- seek then iterate to the end, with a merge function: exactly the merged view of what the sources hold at/after `k`
    (keys once each, ascending, values = folds over all values of the key) -/
theorem C05_seek_drain (c : MCfg) (hF2 : c.fixF2 = true) (hF8 : c.fixF8 = true)
    (htot : ∀ a b, hle c a b = true ∨ hle c b a = true)
    (htrans : ∀ a b d, hle c a b = true → hle c b d = true → hle c a d = true)
    (lo : Bytes) {m : MIter} {f : Bytes → Bytes → Bytes → Option Bytes}
    (hi : MInv c m) (hs : SeekInv lo m) (hm : c.merge = some f) (hok : ∀ k a b, f k a b ≠ none)
    (k : Bytes) (hlo : bcmp lo k ≠ .gt) (fuel : Nat)
    (hfuel : (m.live.flatMap fun i => ((m.srcs[i]!).seek k).remaining).length < fuel) :
    IsMerged f (m.live.flatMap fun i => ((m.srcs[i]!).seek k).remaining)
      (mergerDrain c fuel (mergerSeek c m k)) :=
  Mtbl.C05_seek_drain c hF2 hF8 htot htrans lo hi hs hm hok k hlo fuel hfuel

theorem C05_seek_drain_nomerge (c : MCfg) (hF2 : c.fixF2 = true) (hF8 : c.fixF8 = true)
    (htot : ∀ a b, hle c a b = true ∨ hle c b a = true)
    (htrans : ∀ a b d, hle c a b = true → hle c b d = true → hle c a d = true)
    (lo : Bytes) {m : MIter} (hi : MInv c m) (hs : SeekInv lo m) (hm : c.merge = none)
    (k : Bytes) (hlo : bcmp lo k ≠ .gt) (fuel : Nat)
    (hfuel : (m.live.flatMap fun i => ((m.srcs[i]!).seek k).remaining).length < fuel) :
    (mergerDrain c fuel (mergerSeek c m k)).Perm (m.live.flatMap fun i => ((m.srcs[i]!).seek k).remaining) ∧
    Sorted (mergerDrain c fuel (mergerSeek c m k)) :=
  Mtbl.C05_seek_drain_nomerge c hF2 hF8 htot htrans lo hi hs hm k hlo fuel hfuel

/-- get / get_prefix / get_range on a merger source: exactly the merged view of the entries satisfying the bound
    ("filtering by key commutes with merging"); a NULL iterator iff no source holds such a key -/
theorem C05_lookup (c : MCfg) (hF2 : c.fixF2 = true)
    (htot : ∀ a b, hle c a b = true ∨ hle c b a = true)
    (htrans : ∀ a b d, hle c a b = true → hle c b d = true → hle c a d = true)
    {f : Bytes → Bytes → Bytes → Option Bytes} (hm : c.merge = some f) (hok : ∀ k a b, f k a b ≠ none)
    (tables : List (List Entry)) (hs : ∀ es ∈ tables, Sorted es) (kind : Kind) (start : Bytes)
    (hst : startOk kind start) :
    let T := tables.flatten.filter fun e => lookP kind start e.key
    (mergerIter c tables kind start = none ↔ kind ≠ .iter ∧ T = []) ∧
    ∀ m, mergerIter c tables kind start = some m → ∀ fuel, T.length < fuel →
      IsMerged f T (mergerDrain c fuel m) :=
  Mtbl.C05_lookup c hF2 htot htrans hm hok tables hs kind start hst

theorem C05_lookup_nomerge (c : MCfg) (hF2 : c.fixF2 = true)
    (htot : ∀ a b, hle c a b = true ∨ hle c b a = true)
    (htrans : ∀ a b d, hle c a b = true → hle c b d = true → hle c a d = true)
    (hm : c.merge = none)
    (tables : List (List Entry)) (hs : ∀ es ∈ tables, Sorted es) (kind : Kind) (start : Bytes)
    (hst : startOk kind start) {m : MIter} (hmi : mergerIter c tables kind start = some m)
    (fuel : Nat) (hfuel : (tables.flatten.filter fun e => lookP kind start e.key).length < fuel) :
    (mergerDrain c fuel m).Perm (tables.flatten.filter fun e => lookP kind start e.key) ∧
    Sorted (mergerDrain c fuel m) :=
  Mtbl.C05_lookup_nomerge c hF2 htot htrans hm tables hs kind start hst hmi fuel hfuel

/-- EVERY finite history of next and seek on a merger iterator returns the keys a single table holding the merged
    content `K` would return, and every returned value is a fold of all values of its key -/
theorem C05_history (c : MCfg) (hF2 : c.fixF2 = true) (hF8 : c.fixF8 = true)
    (htot : ∀ a b, hle c a b = true ∨ hle c b a = true)
    (htrans : ∀ a b d, hle c a b = true → hle c b d = true → hle c a d = true)
    {f : Bytes → Bytes → Bytes → Option Bytes} (hm : c.merge = some f) (hok : ∀ k a b, f k a b ≠ none)
    (tables : List (List Entry)) (hs : ∀ es ∈ tables, Sorted es)
    (K : List Entry) (hK : StrictSorted K)
    (hKeys : ∀ k, (∃ e ∈ K, e.key = k) ↔ (∃ e ∈ tables.flatten, e.key = k))
    {m0 : MIter} (h0 : mergerIter c tables .iter [] = some m0) (ops : List IOp) :
    (mRun c m0 ops).map (Option.map (·.key)) = (specRun .iter K { pos := 0 } ops).map (Option.map (·.key)) ∧
    ∀ e, some e ∈ mRun c m0 ops →
      ∃ l, l.Perm (valuesOf e.key tables.flatten) ∧ foldl1? f e.key l = some e.val :=
  Mtbl.C05_history c hF2 hF8 htot htrans hm hok tables hs K hK hKeys h0 ops

/- For the bounded kinds the per-operation refinement (C05_seek, C05_inv_next, C04_step) is proved for every kind and
   start key; the assembled `specRun` equality is stated for `.iter` only (C05_history) — registered as such. -/

/-- finding F8: seek to the key just returned; the pinned code returns the key AFTER it -/
theorem F8_witness :
    let srcs : Array Src := #[{ es := [⟨[97], [49]⟩, ⟨[98], [50]⟩, ⟨[99], [51]⟩] }]
    let bad : MCfg := { merge := none, dupsort := none, fixF8 := false }
    let good : MCfg := { merge := none, dupsort := none, fixF8 := true }
    let run (c : MCfg) : NextRes × NextRes × NextRes :=
      let m0 := mergerInit c srcs
      let r1 := mergerNext c m0
      let r2 := mergerNext c r1.2
      let m3 := mergerSeek c r2.2 [98]
      (r1.1, r2.1, (mergerNext c m3).1)
    run bad = (.ok [97] [49], .ok [98] [50], .ok [99] [51]) ∧
    run good = (.ok [97] [49], .ok [98] [50], .ok [98] [50]) ∧
    (specRun .iter [⟨[97], [49]⟩, ⟨[98], [50]⟩, ⟨[99], [51]⟩] { pos := 0 }
      [.next, .next, .seek [98], .next]) =
      [some ⟨[97], [49]⟩, some ⟨[98], [50]⟩, none, some ⟨[98], [50]⟩] := Mtbl.F8_witness

end Mtbl.C05
