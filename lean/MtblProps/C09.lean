import MtblProps.Common
import MtblProps.C01
/-
  C09 — What the writer produces is a well-formed file that follows the writer's own layout rules:
  it IS an encoding by the independent encoder (MtblModel/Format.lean) for legal choices, and those choices obey
  the restart cadence, the block-size rule and the block-cut rule.
-/
namespace Mtbl.C09

/-- **C09.**  For every configuration (total compressor, restart interval ≥ 1), foreign prefix `pre` and
    strictly increasing `es` (entries shorter than 4 GiB, file shorter than 2^64 bytes), there is a choice `f` of
    encoding parameters such that
    * `f` is a version-2 file after the prefix `pre`, with the configured compression type, block-size field and
      restart-width threshold;
    * the choices are legal and the entries encoded are exactly `es`;
    * the bytes in the file after the writer finished are, byte for byte, the independent encoder's output for `f`;
    * **cadence**: in every data block and in the index block the restart points are exactly the entry indices
      `0, interval, 2·interval, …`, an entry at a restart point shares nothing and every other entry shares
      exactly the longest common prefix with the key before it;
    * **separators**: the index key of a block is `bytes_shortest_separator(last key, first key of the next
      block)`, and the last key itself for the final block;
    * **size rule**: a data block holding more than one entry (whose entry region does not exceed the restart-width
      threshold — always the case below 4 GiB) is shorter than the block size;
    * **cut rule**: a data block was closed only because the first entry `(k, v)` of the next block made
      `size so far + 15 + |k| + |v| ≥ block size`; no data block is empty. -/
theorem C09_wellformed (cfg : WCfg) (comp : Bytes → Bytes) (hc : cfg.comp = fun raw => some (comp raw))
    (hi : 1 ≤ cfg.interval) (pre : Bytes) (es : List Entry) (hs : StrictSorted es)
    (hlen : ∀ e ∈ es, e.key.length < 2^32 ∧ e.val.length < 2^32)
    (hsize : ((canonFile cfg pre es).encode comp).length < 2^64) :
    ∃ f : EFile,
      (f.version = .v2 ∧ f.pre = pre ∧ f.compression = cfg.compression ∧
        f.blockSizeField = cfg.effBlockSize ∧ f.thr = cfg.thr) ∧
      f.legal comp = true ∧
      f.entries = es ∧
      pre ++ Writer.run cfg pre.length es = f.encode comp ∧
      -- cadence
      (∀ b, (b ∈ f.blocks ∨ b = f.indexBlock comp) →
        (∀ i, i ∈ b.restarts ↔ i < max b.items.length 1 ∧ i % cfg.interval = 0) ∧
        b.restarts.Pairwise (· < ·) ∧
        (∀ i it, b.items[i]? = some it →
          it.shared = if i % cfg.interval = 0 then 0
                      else lcp (((b.items[i - 1]?).map (·.e.key)).getD []) it.e.key)) ∧
      -- separators
      f.seps = canonSeps (f.blocks.map EBlock.entries) ∧
      -- size rule
      (∀ b ∈ f.blocks, 1 < b.items.length → b.region.length ≤ cfg.thr →
        (b.encode cfg.thr).length < cfg.effBlockSize) ∧
      -- cut rule
      (∀ b ∈ f.blocks, b.items ≠ []) ∧
      (∀ j b b' it, f.blocks[j]? = some b → f.blocks[j + 1]? = some b' → b'.items.head? = some it →
        (b.encode cfg.thr).length + 15 + it.e.key.length + it.e.val.length ≥ cfg.effBlockSize) := by
  refine ⟨canonFile cfg pre es, ⟨rfl, rfl, rfl, rfl, rfl⟩, canonFile_legal cfg comp pre es hi hs hlen hsize,
    canonFile_entries cfg pre es, W_refines_format cfg comp hc pre es hs, ?_, ?_, ?_, ?_, ?_⟩
  · rintro b (hb | rfl)
    · rw [(Glue.mem_blocks cfg pre es b hb).2]
      exact Glue.cadence_block cfg.interval hi _
    · rw [WriterP.canonFile_indexBlock]
      exact Glue.cadence_block cfg.interval hi _
  · rw [Glue.blocks_entries]; rfl
  · intro b hb h1 hreg
    obtain ⟨hB, hbe⟩ := Glue.mem_blocks cfg pre es b hb
    rw [hbe] at h1 hreg ⊢
    rw [Glue.canonBlock_items_length] at h1
    exact C09_size_rule_lt cfg es hlen _ hB h1 hreg
  · intro b hb hnil
    obtain ⟨hB, hbe⟩ := Glue.mem_blocks cfg pre es b hb
    have := WriterP.splitBlocks_ne_nil cfg es [] _ hB
    apply this
    show b.items.map (·.e) = []
    rw [hnil]; rfl
  · intro j b b' it hb hb' hit
    obtain ⟨hB, hbe⟩ := Glue.blocks_getElem? cfg pre es j b hb
    obtain ⟨hB', _⟩ := Glue.blocks_getElem? cfg pre es (j + 1) b' hb'
    have hcons : b'.entries = it.e :: b'.entries.tail := by
      show b'.items.map (·.e) = it.e :: (b'.items.map (·.e)).tail
      cases hitems : b'.items with
      | nil => rw [hitems] at hit; cases hit
      | cons x xs =>
        rw [hitems] at hit
        cases hit
        rfl
    rw [hcons] at hB'
    rw [hbe]
    exact (C09_cut_rule cfg es j _ _ _ hB hB').2

/-- **C09 (foreign prefix)**: whatever was in the file before the writer was attached to the descriptor is still
    there, untouched, in front of the table (the writer only appends; `Writer.run` returns the bytes written after
    offset `pre.length`, and block offsets in the index are absolute, i.e. they count the prefix). -/
theorem C09_prefix_untouched (cfg : WCfg) (comp : Bytes → Bytes) (hc : cfg.comp = fun raw => some (comp raw))
    (pre : Bytes) (es : List Entry) (hs : StrictSorted es) :
    ∃ rest, (canonFile cfg pre es).encode comp = pre ++ rest ∧ rest = Writer.run cfg pre.length es :=
  ⟨_, (W_refines_format cfg comp hc pre es hs).symm, rfl⟩

/-- **C09 for arbitrary add sequences**: the file is the well-formed file of the accepted adds -/
theorem C09_wellformed_any (cfg : WCfg) (comp : Bytes → Bytes) (hc : cfg.comp = fun raw => some (comp raw))
    (hi : 1 ≤ cfg.interval) (pre : Bytes) (adds : List Entry)
    (hlen : ∀ e ∈ acceptedOf none adds, e.key.length < 2^32 ∧ e.val.length < 2^32)
    (hsize : ((canonFile cfg pre (acceptedOf none adds)).encode comp).length < 2^64) :
    pre ++ Writer.run cfg pre.length adds = (canonFile cfg pre (acceptedOf none adds)).encode comp ∧
    (canonFile cfg pre (acceptedOf none adds)).legal comp = true ∧
    (canonFile cfg pre (acceptedOf none adds)).entries = acceptedOf none adds :=
  ⟨W_refines_format_any cfg comp hc pre adds, canonFile_legal_any cfg comp pre adds hi hlen hsize,
   canonFile_entries cfg pre _⟩

/-! ### the rules on the groups of entries the writer forms (`splitBlocks cfg [] es` = the entry lists of the data
    blocks, in order; data block `B` is encoded as `canonBlock cfg.interval B`) -/

/-- the data blocks of the file are the canonical encodings of the groups, the groups are non-empty and
    concatenate to `es` -/
theorem C09_groups (cfg : WCfg) (pre : Bytes) (es : List Entry) :
    (canonFile cfg pre es).blocks = (splitBlocks cfg [] es).map (canonBlock cfg.interval) ∧
    (splitBlocks cfg [] es).flatten = es ∧ (∀ B ∈ splitBlocks cfg [] es, B ≠ []) :=
  ⟨rfl, by rw [WriterP.splitBlocks_flatten]; rfl, WriterP.splitBlocks_ne_nil cfg es []⟩

/-- **C09 (size rule).**  A data block holding more than one entry, whose entry region is at most `thr` bytes
    (`thr = UINT32_MAX`: always the case below 4 GiB), is no longer than the configured block size (in fact strictly
    shorter).  A block with a single entry can have any size: an entry larger than a block gets a block of its own. -/
theorem C09_size_rule (cfg : WCfg) (es : List Entry)
    (hlen : ∀ e ∈ es, e.key.length < 2^32 ∧ e.val.length < 2^32)
    (B : List Entry) (hB : B ∈ splitBlocks cfg [] es) (h1 : 1 < B.length)
    (hreg : (canonBlock cfg.interval B).region.length ≤ cfg.thr) :
    ((canonBlock cfg.interval B).encode cfg.thr).length ≤ cfg.effBlockSize ∧
    ((canonBlock cfg.interval B).encode cfg.thr).length < cfg.effBlockSize :=
  ⟨Mtbl.C09_size_rule cfg es hlen B hB h1 hreg, C09_size_rule_lt cfg es hlen B hB h1 hreg⟩

/-- **C09 (size rule above the threshold).**  When the entry region was already longer than `thr` before the last
    entry was added (8-byte restart slots throughout), the block exceeds the block size by at most 3 bytes: the
    15-byte allowance of the cut test covers a 4-byte restart slot, not an 8-byte one. -/
theorem C09_size_rule_big (cfg : WCfg) (es : List Entry)
    (hlen : ∀ e ∈ es, e.key.length < 2^32 ∧ e.val.length < 2^32)
    (B : List Entry) (hB : B ∈ splitBlocks cfg [] es) (B1 : List Entry) (e : Entry) (hsplit : B = B1 ++ [e])
    (hreg : (canonBlock cfg.interval B1).region.length > cfg.thr) :
    ((canonBlock cfg.interval B).encode cfg.thr).length < cfg.effBlockSize + 4 :=
  Mtbl.C09_size_rule_big cfg es hlen B hB B1 e hsplit hreg

/-- **C09 (cut rule).**  Block `j` was closed only because the first entry `(k, v)` of block `j + 1` made
    `block_builder_current_size_estimate(block j) + 15 + |k| + |v| ≥ block_size`; the estimate is exact, it is
    the length of the finished block. -/
theorem C09_cut_rule (cfg : WCfg) (es : List Entry) (j : Nat) (B : List Entry) (e : Entry) (t : List Entry)
    (hB : (splitBlocks cfg [] es)[j]? = some B) (hB' : (splitBlocks cfg [] es)[j + 1]? = some (e :: t)) :
    BB.estimate (BB.addAll (bb0 cfg) B) + 15 + e.key.length + e.val.length ≥ cfg.effBlockSize ∧
    ((canonBlock cfg.interval B).encode cfg.thr).length + 15 + e.key.length + e.val.length ≥ cfg.effBlockSize :=
  Mtbl.C09_cut_rule cfg es j B e t hB hB'

/-- **C09 (no early cut).**  Conversely, inside a block every entry but the first failed the cut test: the writer
    never closes a block earlier than the rule demands. -/
theorem C09_nocut_rule (cfg : WCfg) (es : List Entry) (B : List Entry) (hB : B ∈ splitBlocks cfg [] es)
    (B1 : List Entry) (e : Entry) (B2 : List Entry) (hsplit : B = B1 ++ e :: B2) (hne : B1 ≠ []) :
    ((canonBlock cfg.interval B1).encode cfg.thr).length + 15 + e.key.length + e.val.length < cfg.effBlockSize :=
  Mtbl.C09_nocut_rule cfg es B hB B1 e B2 hsplit hne

/-! ### non-vacuity: the five-block example (block size 32, interval 2, two foreign bytes) -/

set_option maxRecDepth 100000 in
example := C09_wellformed WriterEx.cfg id rfl (by decide) [0xAA, 0xBB] WriterEx.es WriterEx.sorted
  WriterEx.sizesOK.lens WriterEx.sizesOK.file

example := C09_wellformed WriterEx.cfgZ List.reverse rfl (by decide) [0xAA, 0xBB] WriterEx.es WriterEx.sorted
  WriterEx.sizesOKZ.lens WriterEx.sizesOKZ.file

/-- the premises of the size rule and of the cut rule are met in the example: blocks 0 and 3 hold two entries, and
    block 2 (one entry with a 40-byte value, 54 bytes encoded, larger than the 32-byte block size) shows why single-entry blocks are exempt -/
example : (splitBlocks WriterEx.cfg [] WriterEx.es).map List.length = [2, 1, 1, 2, 1] ∧
    (splitBlocks WriterEx.cfg [] WriterEx.es).map
      (fun B => ((canonBlock WriterEx.cfg.interval B).encode WriterEx.cfg.thr).length) = [18, 13, 54, 18, 14] ∧
    WriterEx.cfg.effBlockSize = 32 := by decide +kernel

example : [0xAA, 0xBB] ++ Writer.run WriterEx.cfg 2 C01.exAdds = (canonFile WriterEx.cfg [0xAA, 0xBB] WriterEx.es).encode id := by
  have := (C09_wellformed_any WriterEx.cfg id rfl (by decide) [0xAA, 0xBB] C01.exAdds
    (by rw [C01.exAdds_accepted]; exact WriterEx.sizesOK.lens)
    (by rw [C01.exAdds_accepted]; exact WriterEx.sizesOK.file)).1
  rw [C01.exAdds_accepted] at this
  exact this

end Mtbl.C09
