import MtblProofs.VarintProofs
/-
  C16 — Varint and fixed-width integer codecs are exact inverses in standard form.
  Property theorems only (helper lemmas live in MtblProofs/VarintProofs.lean).
  All statements are for EVERY value / byte string, not samples.
-/
namespace Mtbl.C16

/-- encode32 then decode32 returns the value and the byte count; the count is `mtbl_varint_length` -/
theorem C16_roundtrip32 {v : Nat} (h : v < 2^32) (rest : Bytes) :
    vdecode32 (venc32 v ++ rest) = (v, vlen v) ∧ (venc32 v).length = vlen v := by
  refine ⟨vdecode32_venc32 h rest, ?_⟩
  rw [venc32_eq_venc h, venc_length]

/-- encode64 then decode64 -/
theorem C16_roundtrip64 {v : Nat} (h : v < 2^64) (rest : Bytes) :
    vdecode64 (venc v ++ rest) = (v, vlen v) ∧ (venc v).length = vlen v :=
  ⟨vdecode64_venc h rest, venc_length v⟩

/-- the unrolled 32-bit encoder and the 64-bit loop produce the same bytes -/
theorem C16_enc32_eq_enc64 {v : Nat} (h : v < 2^32) : venc32 v = venc v := venc32_eq_venc h

/-- a 32-bit encoding is also read correctly by the 64-bit decoder -/
theorem C16_cross {v : Nat} (h : v < 2^32) (rest : Bytes) : vdecode64 (venc32 v ++ rest) = (v, vlen v) :=
  vdecode64_venc32 h rest

/-- `mtbl_varint_length_packed` on an encoding (followed by anything) is the same count -/
theorem C16_length_packed (v : Nat) (rest : Bytes) : vlenPacked (venc v ++ rest) = vlen v :=
  vlenPacked_venc v rest

/-- the bytes are standard little-endian base-128: value, continuation bits, minimal length -/
theorem C16_standard_form (v : Nat) :
    leb128Val (venc v) = v ∧ (∀ b ∈ (venc v).dropLast, 128 ≤ b.toNat) ∧
    (∀ b, (venc v).getLast? = some b → b.toNat < 128 ∧ (128 ≤ v → b.toNat ≠ 0)) := venc_standard v

/-- truncated input (no terminating byte inside the buffer): length_packed reports 0 -/
theorem C16_truncated (d : Bytes) (h : ∀ b ∈ d, 128 ≤ b.toNat) : vlenPacked d = 0 := vlenPacked_truncated d h

/-- over-long input: the decoders report (0, 0) -/
theorem C16_overlong32 (d : Bytes) (h5 : 5 ≤ d.length) (h : ∀ b ∈ d.take 5, 128 ≤ b.toNat) : vdecode32 d = (0, 0) :=
  vdecode32_overlong d h5 h
theorem C16_overlong64 (d : Bytes) (h10 : 10 ≤ d.length) (h : ∀ b ∈ d.take 10, 128 ≤ b.toNat) : vdecode64 d = (0, 0) :=
  vdecode64_overlong d h10 h

/-- fixed-width codecs are exact little-endian inverses, in both directions -/
theorem C16_fixed32 {v : Nat} (h : v < 2^32) (rest : Bytes) : dec32 (fixed32 v ++ rest) = v ∧ (fixed32 v).length = 4 :=
  ⟨dec32_fixed32 h rest, fixed32_length v⟩
theorem C16_fixed64 {v : Nat} (h : v < 2^64) (rest : Bytes) : dec64 (fixed64 v ++ rest) = v ∧ (fixed64 v).length = 8 :=
  ⟨dec64_fixed64 h rest, fixed64_length v⟩
theorem C16_fixed32_inv (a b c d : UInt8) (rest : Bytes) : fixed32 (dec32 (a :: b :: c :: d :: rest)) = [a, b, c, d] :=
  fixed32_dec32 a b c d rest
theorem C16_fixed64_inv (a0 a1 a2 a3 a4 a5 a6 a7 : UInt8) (rest : Bytes) :
    fixed64 (dec64 (a0 :: a1 :: a2 :: a3 :: a4 :: a5 :: a6 :: a7 :: rest)) = [a0, a1, a2, a3, a4, a5, a6, a7] :=
  fixed64_dec64 a0 a1 a2 a3 a4 a5 a6 a7 rest

/-! non-vacuity: concrete instances at the multi-byte boundaries -/
example : vdecode32 (venc32 300 ++ [0xff]) = (300, 2) := by decide
example : venc32 (2^28) = [0x80, 0x80, 0x80, 0x80, 0x01] := by decide
example : vdecode64 (venc (2^63) ++ []) = (2^63, 10) := by decide +kernel
example : vdecode32 [0x80, 0x80, 0x80, 0x80, 0x80, 0x01] = (0, 0) := by decide

end Mtbl.C16
