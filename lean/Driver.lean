import Driver.Main
