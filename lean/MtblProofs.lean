import MtblModel
import MtblProofs.VarintProofs
import MtblProofs.BlockDefs
import MtblProofs.HeapProofs
