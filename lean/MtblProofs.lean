import MtblModel
