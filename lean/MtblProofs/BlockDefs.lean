import MtblModel.Block
import MtblModel.Spec
/-
  Representation predicates for the block layer (DESIGN.md appendix B).
  `BlockOK b v`  : the bytes of block `b` decode, entry by entry, to the abstract content `v`.
  `BRep b v bi p`: block iterator `bi` stands on entry `p` of `v` (`p = n` : exhausted / freshly initialised).
  The algorithmic theorems (BlockIterProofs) use only these facts, never the bytes;
  the byte-level theorems (BlockEncProofs) establish `BlockOK` for encoded blocks.
-/
namespace Mtbl

/-- abstract content of a well-formed block -/
structure BlockView where
  ents : List Entry          -- full keys and values, in order
  offs : List Nat            -- byte offset of each entry, plus one final element: the restart array offset
  rs   : List Nat            -- entry indices of the restart points
deriving Repr

namespace BlockView
def n (v : BlockView) : Nat := v.ents.length
def nr (v : BlockView) : Nat := v.rs.length
def key (v : BlockView) (i : Nat) : Bytes := (v.ents.getD i default).key
def val (v : BlockView) (i : Nat) : Bytes := (v.ents.getD i default).val
def off (v : BlockView) (i : Nat) : Nat := v.offs.getD i 0
def r (v : BlockView) (j : Nat) : Nat := v.rs.getD j 0
end BlockView

/-- what the bytes at entry `i` must decode to -/
def EntryOK (b : Blk) (v : BlockView) (i : Nat) : Prop :=
  ∃ sh ns vl p, decodeEntryAt b.data (v.off i) b.restartOffset = some (sh, ns, vl, p) ∧
    (i = 0 → sh = 0) ∧ sh ≤ (v.key (i - 1)).length ∧
    v.key i = (v.key (i - 1)).take sh ++ (b.data.drop p).take ns ∧
    v.val i = (b.data.drop (p + ns)).take vl ∧
    v.off (i + 1) = p + ns + vl ∧
    (i ∈ v.rs → sh = 0)

structure BlockOK (b : Blk) (v : BlockView) : Prop where
  size_ok : 8 ≤ b.size
  nr_ok : numRestarts b = v.nr
  nr_pos : 0 < v.nr
  offs_len : v.offs.length = v.n + 1
  off_zero : v.off 0 = 0
  off_last : v.off v.n = b.restartOffset
  off_mono : ∀ i, i < v.n → v.off i < v.off (i + 1)
  entry : ∀ i, i < v.n → EntryOK b v i
  r_zero : v.r 0 = 0
  r_mono : ∀ j, j + 1 < v.nr → v.r j < v.r (j + 1)
  r_lt : ∀ j, j < v.nr → v.r j < max v.n 1
  restart_pt : ∀ (bi : BI) j, bi.blk = b → bi.restarts = b.restartOffset → j < v.nr →
      getRestartPoint bi j = v.off (v.r j)
  sorted : StrictSorted v.ents

/-- iterator `bi` stands on entry `p` (`p = v.n`: not valid) -/
structure BRep (b : Blk) (v : BlockView) (bi : BI) (p : Nat) : Prop where
  blk_eq : bi.blk = b
  restarts_eq : bi.restarts = b.restartOffset
  nr_eq : bi.numRestarts = v.nr
  p_le : p ≤ v.n
  at_entry : p < v.n →
      bi.current = v.off p ∧ bi.next = v.off (p + 1) ∧ bi.key = v.key p ∧ bi.val = v.val p ∧
      bi.restartIndex < v.nr ∧ v.r bi.restartIndex ≤ p ∧
      (bi.restartIndex + 1 < v.nr → p ≤ v.r (bi.restartIndex + 1))
  at_end : p = v.n → bi.current = b.restartOffset ∧ bi.restartIndex = v.nr

/-- iterator about to parse entry `q` (`next` points at it; `key` holds what prefix sharing needs) -/
structure BPre (b : Blk) (v : BlockView) (bi : BI) (q : Nat) : Prop where
  blk_eq : bi.blk = b
  restarts_eq : bi.restarts = b.restartOffset
  nr_eq : bi.numRestarts = v.nr
  q_le : q ≤ v.n
  next_eq : bi.next = v.off q
  key_ok : (0 < q ∧ bi.key = v.key (q - 1)) ∨ (q ∈ v.rs ∧ bi.key = [])
  ri_lt : bi.restartIndex < v.nr
  ri_lo : v.r bi.restartIndex ≤ q
  ri_hi : bi.restartIndex + 1 < v.nr → q ≤ v.r (bi.restartIndex + 1) + 1

end Mtbl
