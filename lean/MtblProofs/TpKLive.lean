import MtblProofs.TpKUnord
/-
  The k-client pool machine: NO DEADLOCK.  In every reachable state in which the pool owner has not finished, some thread can
  take a step (not counting spurious wake-ups) — for every number of clients (at least one), every pool size (at least one
  worker), ordered or unordered delivery, every schedule.  So `result_handler_destroy`, `threadpool_destroy` and the joins
  inside them can always be reached and are never waited for in vain: no close or destroy call can hang with every thread
  asleep.  (That the steps taken are finitely many — termination proper — is proved for the one-client machine only.)
-/
set_option linter.unusedSimpArgs false
namespace TpK

/-! ### facts about one client's own record -/
def preH (pc : CPc) : Bool := match pc with | .idle | .start | .mkH => true | _ => false
def closing (pc : CPc) : Bool := match pc with | .joinH | .done => true | _ => false

structure CL (o : Bool) (cl : Client) : Prop where
  deqSleep : cl.hpc = .deq true → cl.queue = [] ∧ ¬ (cl.finished = true ∧ cl.nthreads = 0)
  hstart : preH cl.pc = false → cl.hstarted = true
  idleRec : cl.pc = .idle → cl.queue = [] ∧ cl.hpc = .deq false ∧ cl.hstarted = false ∧ cl.finished = false ∧ cl.nthreads = 0
  preRec : preH cl.pc = true → cl.hstarted = false ∧ cl.hpc = .deq false ∧ cl.queue = []
  finFlag : closing cl.pc = true → cl.finished = true
  ordN : o = true → cl.nthreads = (cl.queue.length : Int)

def CLAll (s : St) : Prop := ∀ c : Nat, CL s.ordered s.cl[c]!

theorem CL_default (o : Bool) : CL o (default : Client) := by
  have h1 : (default : Client).pc = .idle := rfl
  have h2 : (default : Client).hpc = .deq false := by decide
  have h3 : (default : Client).queue = [] := rfl
  have h4 : (default : Client).hstarted = false := rfl
  have h5 : (default : Client).finished = false := rfl
  have h6 : (default : Client).nthreads = 0 := rfl
  exact ⟨by simp [h2], by simp [h1, preH], fun _ => ⟨h3, h2, h4, h5, h6⟩, fun _ => ⟨h4, h2, h3⟩, by simp [h1, closing],
    fun _ => by simp [h6, h3]⟩

theorem CL_new (o : Bool) : CL o ({} : Client) :=
  ⟨by simp, by simp [preH], fun _ => ⟨rfl, rfl, rfl, rfl, rfl⟩, fun _ => ⟨rfl, rfl, rfl⟩, by simp [closing], fun _ => by simp⟩

theorem CL_wakeH {o : Bool} {cl : Client} (t : Nat) (h : CL o cl) : CL o (wakeH t cl) := by
  have e : (wakeH t cl).nthreads = cl.nthreads ∧ (wakeH t cl).finished = cl.finished ∧ (wakeH t cl).hstarted = cl.hstarted ∧
      ((wakeH t cl).hpc = .deq true → cl.hpc = .deq true) ∧ (cl.hpc = .deq false → (wakeH t cl).hpc = .deq false) := by
    unfold wakeH; split
    · rename_i t' hh
      split
      · exact ⟨rfl, rfl, rfl, by simp, by rw [hh]; simp⟩
      · exact ⟨rfl, rfl, rfl, id, id⟩
    · exact ⟨rfl, rfl, rfl, id, id⟩
  obtain ⟨e1, e2, e3, e4, e5⟩ := e
  refine ⟨fun hx => ?_, fun hx => ?_, fun hx => ?_, fun hx => ?_, fun hx => ?_, fun ho => ?_⟩
  · rw [wakeH_queue, e2, e1]; exact h.deqSleep (e4 hx)
  · rw [wakeH_pc] at hx; rw [e3]; exact h.hstart hx
  · rw [wakeH_pc] at hx
    obtain ⟨a, b, c1, d, f⟩ := h.idleRec hx
    rw [wakeH_queue, e3, e2, e1]; exact ⟨a, e5 b, c1, d, f⟩
  · rw [wakeH_pc] at hx
    obtain ⟨a, b, c1⟩ := h.preRec hx
    rw [wakeH_queue, e3]; exact ⟨a, e5 b, c1⟩
  · rw [wakeH_pc] at hx; rw [e2]; exact h.finFlag hx
  · rw [e1, wakeH_queue]; exact h.ordN ho

theorem cl_map_wakeH {o : Bool} {cls : Array Client} (t : Nat) (h : ∀ c : Nat, CL o cls[c]!) :
    ∀ c : Nat, CL o (cls.map (wakeH t))[c]! := by
  intro c
  rw [get_map]
  split
  · exact CL_wakeH t (h c)
  · exact CL_default o

theorem cl_modify {o : Bool} {cls : Array Client} (c0 : Nat) (f : Client → Client)
    (h : ∀ c : Nat, CL o cls[c]!) (hf : CL o (f cls[c0]!)) : ∀ c : Nat, CL o (cls.modify c0 f)[c]! := by
  intro c
  rw [get_modify]
  split
  · rename_i hc; rw [hc.1]; exact hf
  · exact h c

theorem clall_signalThr {s : St} (t : Nat) (h : CLAll s) : CLAll (signalThr s t) := cl_map_wakeH t h

theorem clall_signalRq {s : St} (c : Nat) (h : CLAll s) : CLAll (signalRq s c) := by
  show ∀ c' : Nat, CL s.ordered (s.cl.modify c _)[c']!
  apply cl_modify c _ h
  have hc := h c
  split
  · rename_i hh
    refine ⟨by simp, hc.hstart, fun hx => ?_, fun hx => ?_, hc.finFlag, hc.ordN⟩
    · have := (hc.idleRec hx).2.1; rw [hh] at this; cases this
    · have := (hc.preRec hx).2.1; rw [hh] at this; cases this
  · exact hc

theorem clall_signalPool {s : St} (k : Nat) (h : CLAll s) : CLAll (signalPool s k) := by
  unfold signalPool
  split
  · exact h
  · dsimp only
    split
    · exact h
    · rename_i hne
      have hp := poolSleepers_spec s _ (poolSleepers_pick s k hne)
      generalize (poolSleepers s)[k % (poolSleepers s).length]! = c at hp ⊢
      show ∀ c' : Nat, CL s.ordered (s.cl.modify c _)[c']!
      apply cl_modify c _ h
      have hc := h c
      refine ⟨hc.deqSleep, fun _ => ?_, by simp, by simp [preH], by simp [closing], hc.ordN⟩
      exact hc.hstart (by simp [hp, preH])


theorem modify_modify' {α : Type} (a : Array α) (t : Nat) (f g : α → α) :
    (a.modify t f).modify t g = a.modify t (fun x => g (f x)) := by
  apply Array.ext
  · simp
  · intro i h1 h2
    simp [Array.getElem_modify]; grind

def wakeDeq (cl : Client) : Client := match cl.hpc with | .deq true => { cl with hpc := .deq false } | _ => cl

theorem signalRq_setCl (s : St) (c : Nat) (f : Client → Client) :
    signalRq (setCl s c f) c = setCl s c (fun cl => wakeDeq (f cl)) := by
  show ({ (setCl s c f) with cl := (s.cl.modify c f).modify c _ } : St) = _
  rw [modify_modify']
  rfl

/-- workers only work for clients whose handler exists -/
def WF2 (s : St) : Prop := ∀ t c : Nat, (s.thr[t]!.rq = some c ∨ s.thr[t]!.pc = .selfEnq c) → c < s.cl.size ∧ preH s.cl[c]!.pc = false

theorem works_ordered {s : St} (hS : Sh s) (ho : s.ordered = true) (t c : Nat)
    (h : s.thr[t]!.rq = some c ∨ s.thr[t]!.pc = .selfEnq c) : False := by
  have hw : 0 < wN s.thr[t]! := by
    rcases h with h | h
    · simp only [wN, h, Option.isSome_some, if_true]; omega
    · simp [wN, h]
  have := ((hS t).self hw).1
  rw [ho] at this; cases this


theorem wf2_setThr {s : St} (t : Nat) (g : Thr → Thr) (h : WF2 s)
    (hg : ∀ c, ((g s.thr[t]!).rq = some c ∨ (g s.thr[t]!).pc = .selfEnq c) → (s.thr[t]!.rq = some c ∨ s.thr[t]!.pc = .selfEnq c)) :
    WF2 (setThr s t g) := by
  intro u c hu
  show c < s.cl.size ∧ preH s.cl[c]!.pc = false
  rw [thr_setThr] at hu
  split at hu
  · rename_i hh; rw [hh.1] at hu; exact h t c (hg c hu)
  · exact h u c hu

theorem wf2_setCl {s : St} (c0 : Nat) (f : Client → Client) (h : WF2 s)
    (hf : preH s.cl[c0]!.pc = false → preH (f s.cl[c0]!).pc = false) : WF2 (setCl s c0 f) := by
  intro u c hu
  have := h u c hu
  refine ⟨by simpa using this.1, ?_⟩
  rw [cl_get_setCl]; split
  · rename_i hh; rw [hh.1] at this ⊢; exact hf this.2
  · exact this.2

theorem wf2_signalThr {s : St} (t : Nat) (h : WF2 s) : WF2 (signalThr s t) := by
  intro u c hu
  have hu' : s.thr[u]!.rq = some c ∨ s.thr[u]!.pc = .selfEnq c := by
    rw [thr_signalThr] at hu
    split at hu
    · obtain ⟨_, _, _, h4, h5⟩ := wakeW_spec s.thr[u]!
      rw [h4, h5] at hu
      rcases hu with hu | hu
      · exact Or.inl hu
      · right
        split at hu
        · cases hu
        · exact hu
    · exact hu
  have := h u c hu'
  have hcl : (signalThr s t).cl = s.cl.map (wakeH t) := rfl
  refine ⟨by simpa [hcl] using this.1, ?_⟩
  rw [hcl, get_map, if_pos this.1, wakeH_pc]; exact this.2

theorem wf2_signalRq {s : St} (c : Nat) (h : WF2 s) : WF2 (signalRq s c) := by
  unfold signalRq
  apply wf2_setCl c _ h
  intro hp; split <;> exact hp

theorem wf2_signalPool {s : St} (k : Nat) (h : WF2 s) : WF2 (signalPool s k) := by
  unfold signalPool
  split
  · exact h
  · dsimp only
    split
    · exact h
    · apply wf2_setCl _ _ h
      intro _; rfl

theorem wf2_congr {s s' : St} (h : WF2 s) (e2 : s'.cl = s.cl) (e3 : s'.thr = s.thr) : WF2 s' := by
  intro u c hu
  rw [e3] at hu; rw [e2]; exact h u c hu

theorem wf2_step {s s' : St} {l : Lbl} (hS : Sh s) (hW : Wk s) (hU : UOrd s) (h : WF2 s) (hs : step s l = some s') : WF2 s' := by
  have nobodyFresh : ∀ i : Nat, s.cl[i]!.pc = .idle → ∀ t : Nat, ¬ (s.thr[t]!.rq = some i ∨ s.thr[t]!.pc = .selfEnq i) := by
    intro i hi t hw
    have := (h t i hw).2
    rw [hi] at this; simp [preH] at this
  cases l with
  | spurious w =>
    cases w with
    | owner =>
      simp only [step] at hs
      split at hs
      · injection hs with hs; subst hs; exact wf2_congr h rfl rfl
      · simp at hs
    | client c =>
      simp only [step] at hs
      split at hs
      · injection hs with hs; subst hs
        exact wf2_setCl c _ h (fun _ => rfl)
      · simp at hs
    | handler c =>
      simp only [step] at hs
      split at hs
      · injection hs with hs; subst hs; exact wf2_setCl c _ h (fun hp => hp)
      · injection hs with hs; subst hs; exact wf2_setCl c _ h (fun hp => hp)
      · simp at hs
    | worker t =>
      simp only [step] at hs
      split at hs
      · rename_i hp
        injection hs with hs; subst hs
        have hp' : s.thr[t]!.pc = .top true := by
          cases hx : s.thr[t]? with
          | none => simp [hx] at hp
          | some x => simp [hx] at hp; simp [getElem!_def, hx, hp]
        exact wf2_setThr t _ h (fun c hx => by simpa [hp'] using hx)
      · simp at hs
  | run w k =>
    cases w with
    | owner =>
      simp only [step, stepOwner] at hs
      split at hs
      · rename_i i ho
        injection hs with hs; subst hs
        have hidle := hW.fresh i i ho (Nat.le_refl _)
        intro u c hu
        have hu' : s.thr[u]!.rq = some c ∨ s.thr[u]!.pc = .selfEnq c := hu
        have := h u c hu'
        refine ⟨by simpa using this.1, ?_⟩
        show preH (s.cl.modify i _)[c]!.pc = false
        rw [get_modify]; split
        · rename_i hh
          exact absurd (hh.1 ▸ hu') (nobodyFresh i hidle u)
        · exact this.2
      · split at hs
        · injection hs with hs; subst hs; exact wf2_congr h rfl rfl
        · simp at hs
      · simp at hs
      · split at hs
        · injection hs with hs; subst hs; exact wf2_congr h rfl rfl
        · split at hs <;> (injection hs with hs; subst hs; exact wf2_congr h rfl rfl)
      · injection hs with hs; subst hs
        apply wf2_signalThr
        exact wf2_congr (wf2_setThr _ (fun th => { th with running := true }) h (fun _ hx => hx)) rfl rfl
      · split at hs
        · injection hs with hs; subst hs; exact wf2_congr h rfl rfl
        · simp at hs
      · simp at hs
    | client c =>
      simp only [step, stepClient] at hs
      split at hs
      case isFalse => simp at hs
      rename_i hc
      split at hs
      · simp at hs
      · rename_i hp
        injection hs with hs; subst hs
        exact wf2_setCl c _ h (fun hx => by rw [hp] at hx; simp [preH] at hx)
      · injection hs with hs; subst hs
        exact wf2_setCl c _ h (fun _ => rfl)
      · simp at hs
      · split at hs
        · injection hs with hs; subst hs; exact wf2_setCl c _ h (fun _ => rfl)
        · split at hs
          · injection hs with hs; subst hs
            exact wf2_setCl c _ (wf2_congr h rfl rfl) (fun _ => rfl)
          · split at hs
            · injection hs with hs; subst hs; exact wf2_setCl c _ h (fun _ => rfl)
            · injection hs with hs; subst hs
              exact wf2_setCl c _ (wf2_congr h rfl rfl) (fun _ => rfl)
      · -- create
        injection hs with hs; subst hs
        apply wf2_setCl c _ _ (fun _ => rfl)
        intro u c' hu
        have e : ({ s with thr := s.thr.push {} } : St).thr[u]! = (s.thr.push {})[u]! := rfl
        rw [e, get_push] at hu
        split at hu
        · simp at hu
        · exact h u c' hu
      · -- assign
        rename_i t hp
        injection hs with hs; subst hs
        apply wf2_signalThr
        apply wf2_setCl c _ _ (fun _ => rfl)
        -- the thread now works for c (unordered), whose pc is `assign`
        intro u c' hu
        show c' < s.cl.size ∧ preH s.cl[c']!.pc = false
        rw [thr_setThr] at hu
        split at hu
        · rename_i hh
          rcases hu with hx | hx
          · have : c' = c := by
              simp only at hx
              split at hx
              · cases hx
              · injection hx with hx; exact hx.symm
            rw [this]; exact ⟨hc, by rw [hp]; rfl⟩
          · rw [hh.1] at hx
            exact h t c' (Or.inr hx)
        · exact h u c' hu
      · rename_i t hp
        injection hs with hs; subst hs
        have hX : WF2 (setCl s c fun cl =>
            { cl with nthreads := cl.nthreads + 1, queue := if s.ordered then cl.queue ++ [t] else cl.queue,
                      pc := .next false, nextJob := cl.nextJob + 1 }) := wf2_setCl c _ h (fun _ => rfl)
        by_cases ho : s.ordered = true
        · simp only [setCl_ordered, ho, if_true] at hX ⊢
          exact wf2_signalRq c hX
        · simp only [setCl_ordered, ho, if_false] at hX ⊢
          exact hX
      · injection hs with hs; subst hs
        exact wf2_signalRq c (wf2_setCl c _ h (fun _ => rfl))
      · split at hs
        · injection hs with hs; subst hs; exact wf2_setCl c _ h (fun _ => rfl)
        · simp at hs
      · simp at hs
    | handler c =>
      simp only [step, stepHandler] at hs
      split at hs
      case isFalse => simp at hs
      split at hs
      · simp at hs
      split at hs
      · simp at hs
      · split at hs
        · injection hs with hs; subst hs; exact wf2_setCl c _ h (fun hp => hp)
        · split at hs <;> (injection hs with hs; subst hs; exact wf2_setCl c _ h (fun hp => hp))
      · simp at hs
      · split at hs <;> (injection hs with hs; subst hs)
        · exact wf2_setCl c _ h (fun hp => hp)
        · exact wf2_setCl c _ (wf2_setThr _ (fun th => { th with res := none }) h (fun _ hx => hx)) (fun hp => hp)
      · injection hs with hs; subst hs
        apply wf2_signalPool
        exact wf2_setCl c _ (wf2_congr h rfl rfl) (fun hp => hp)
      · injection hs with hs; subst hs; exact wf2_setCl c _ h (fun hp => hp)
      · simp at hs
    | worker t =>
      simp only [step, stepWorker] at hs
      split at hs
      case isFalse => simp at hs
      split at hs
      · simp at hs
      · rename_i hp
        have hp' : s.thr[t]!.pc = .top false := hp
        split at hs <;> (injection hs with hs; subst hs)
        · exact wf2_setThr t _ h (fun c hx => by simpa [hp'] using hx)
        · exact wf2_setThr t _ h (fun c hx => by simpa [hp'] using hx)
      · rename_i hp
        have hp' : s.thr[t]!.pc = .gotJob := hp
        split at hs
        · injection hs with hs; subst hs
          exact wf2_setThr t _ h (fun c hx => by simpa [hp'] using hx)
        · split at hs <;> (injection hs with hs; subst hs)
          · rename_i c0 hr
            have hr' : s.thr[t]!.rq = some c0 := hr
            refine wf2_setThr t _ h (fun c hx => ?_)
            left; rcases hx with hx | hx
            · cases hx
            · injection hx with hx; rw [hr', hx]
          · rename_i hr
            have hr' : s.thr[t]!.rq = none := hr
            exact wf2_setThr t _ h (fun c hx => by simp [hr'] at hx)
      · rename_i c hp
        injection hs with hs; subst hs
        apply wf2_signalRq
        apply wf2_setCl c _ _ (fun hx => hx)
        exact wf2_setThr t _ h (fun c' hx => by
          rcases hx with hx | hx
          · exact Or.inl hx
          · cases hx)
      · rename_i hp
        have hp' : s.thr[t]!.pc = .doneOrd := hp
        injection hs with hs; subst hs
        apply wf2_signalThr
        exact wf2_setThr t _ h (fun c hx => by simpa [hp'] using hx)
      · simp at hs


theorem clall_congr {s s' : St} (h : CLAll s) (e1 : s'.ordered = s.ordered) (e2 : s'.cl = s.cl) : CLAll s' := by
  intro c; rw [e1, e2]; exact h c

theorem CL_wakeDeq {o : Bool} {cl : Client}
    (h : (cl.hpc ≠ .deq true → CL o cl))
    (h' : cl.hpc = .deq true → CL o { cl with hpc := .deq false }) : CL o (wakeDeq cl) := by
  unfold wakeDeq
  split
  · rename_i hh; exact h' hh
  · rename_i hh; exact h (fun e => hh e)

theorem clall_step {s s' : St} {l : Lbl} (hS : Sh s) (hP : PhAll s) (hF : WF2 s) (h : CLAll s) (hs : step s l = some s') :
    CLAll s' := by
  -- the acting client or handler replaces its record
  have upd : ∀ (S0 : St) (c : Nat) (f : Client → Client), S0.ordered = s.ordered → S0.cl = s.cl →
      CL s.ordered (f s.cl[c]!) → CLAll (setCl S0 c f) := by
    intro S0 c f e1 e2 hf
    show ∀ c' : Nat, CL S0.ordered (S0.cl.modify c f)[c']!
    rw [e1, e2]; exact cl_modify c f h hf
  cases l with
  | spurious w =>
    cases w with
    | owner =>
      simp only [step] at hs
      split at hs
      · injection hs with hs; subst hs; exact clall_congr h rfl rfl
      · simp at hs
    | client c =>
      simp only [step] at hs
      split at hs
      · rename_i hp
        injection hs with hs; subst hs
        have hp' : s.cl[c]!.pc = .next true := by
          cases hx : s.cl[c]? with
          | none => simp [hx] at hp
          | some x => simp [hx] at hp; simp [getElem!_def, hx, hp]
        have hc := h c
        exact upd s c _ rfl rfl ⟨hc.deqSleep, fun _ => hc.hstart (by simp [hp', preH]), by simp, by simp [preH], by simp [closing], hc.ordN⟩
      · simp at hs
    | handler c =>
      have hc := h c
      simp only [step] at hs
      split at hs
      · rename_i hp
        injection hs with hs; subst hs
        have hp' : s.cl[c]!.hpc = .deq true := by
          cases hx : s.cl[c]? with
          | none => simp [hx] at hp
          | some x => simp [hx] at hp; simp [getElem!_def, hx, hp]
        refine upd s c _ rfl rfl ⟨by simp, hc.hstart, fun hx => ?_, fun hx => ?_, hc.finFlag, hc.ordN⟩
        · have := (hc.idleRec hx).2.1; rw [hp'] at this; cases this
        · have := (hc.preRec hx).2.1; rw [hp'] at this; cases this
      · rename_i t hp
        injection hs with hs; subst hs
        have hp' : s.cl[c]!.hpc = .waitRes t true := by
          cases hx : s.cl[c]? with
          | none => simp [hx] at hp
          | some x => simp [hx] at hp; simp [getElem!_def, hx, hp]
        refine upd s c _ rfl rfl ⟨by simp, hc.hstart, fun hx => ?_, fun hx => ?_, hc.finFlag, hc.ordN⟩
        · have := (hc.idleRec hx).2.1; rw [hp'] at this; cases this
        · have := (hc.preRec hx).2.1; rw [hp'] at this; cases this
      · simp at hs
    | worker t =>
      simp only [step] at hs
      split at hs
      · injection hs with hs; subst hs; exact clall_congr h rfl rfl
      · simp at hs
  | run w k =>
    cases w with
    | owner =>
      simp only [step, stepOwner] at hs
      split at hs
      · rename_i i _
        injection hs with hs; subst hs
        have hnew : CL s.ordered ({ pc := .start } : Client) :=
          ⟨by simp, by simp [preH], by simp, fun _ => ⟨rfl, rfl, rfl⟩, by simp [closing], fun _ => by simp⟩
        exact clall_congr (s := setCl s i fun _ => { pc := .start }) (upd s i (fun _ => { pc := .start }) rfl rfl hnew) rfl rfl
      · split at hs
        · injection hs with hs; subst hs; exact clall_congr h rfl rfl
        · simp at hs
      · simp at hs
      · split at hs
        · injection hs with hs; subst hs; exact clall_congr h rfl rfl
        · split at hs <;> (injection hs with hs; subst hs; exact clall_congr h rfl rfl)
      · injection hs with hs; subst hs
        apply clall_signalThr
        exact clall_congr h rfl rfl
      · split at hs
        · injection hs with hs; subst hs; exact clall_congr h rfl rfl
        · simp at hs
      · simp at hs
    | client c =>
      have hc := h c
      simp only [step, stepClient] at hs
      split at hs
      case isFalse => simp at hs
      rename_i hcs
      split at hs
      · simp at hs
      · -- start → mkH
        rename_i hp
        injection hs with hs; subst hs
        have hpre := hc.preRec (by simp [hp, preH])
        exact upd s c _ rfl rfl ⟨by simp [hpre.2.1], by simp [preH], by simp, fun _ => hpre, by simp [closing], hc.ordN⟩
      · -- mkH → next false, handler started
        rename_i hp
        injection hs with hs; subst hs
        have hpre := hc.preRec (by simp [hp, preH])
        exact upd s c _ rfl rfl ⟨by simp [hpre.2.1], fun _ => rfl, by simp, by simp [preH], by simp [closing], hc.ordN⟩
      · simp at hs
      · rename_i hp
        have hst := hc.hstart (by simp [hp, preH])
        -- a program point after the handler was started and before the close
        have mid : ∀ (S0 : St) (p : CPc), S0.ordered = s.ordered → S0.cl = s.cl → preH p = false → closing p = false →
            CLAll (setCl S0 c fun cl => { cl with pc := p }) := by
          intro S0 p e1 e2 h1 h2
          refine upd S0 c _ e1 e2 ⟨hc.deqSleep, fun _ => hst, fun hx => ?_, fun hx => ?_, fun hx => ?_, hc.ordN⟩
          · have hx' : p = .idle := hx
            rw [hx'] at h1; simp [preH] at h1
          · have hx' : preH p = true := hx
            rw [h1] at hx'; cases hx'
          · have hx' : closing p = true := hx
            rw [h2] at hx'; cases hx'
        split at hs
        · injection hs with hs; subst hs; exact mid s .finish rfl rfl rfl rfl
        · split at hs
          · injection hs with hs; subst hs; exact mid _ (.assign _) rfl rfl rfl rfl
          · split at hs
            · injection hs with hs; subst hs; exact mid s (.next true) rfl rfl rfl rfl
            · injection hs with hs; subst hs; exact mid _ .create rfl rfl rfl rfl
      · rename_i hp
        injection hs with hs; subst hs
        have hst := hc.hstart (by simp [hp, preH])
        exact upd _ c _ rfl rfl ⟨hc.deqSleep, fun _ => hst, by simp, by simp [preH], by simp [closing], hc.ordN⟩
      · rename_i t hp
        injection hs with hs; subst hs
        have hst := hc.hstart (by simp [hp, preH])
        apply clall_signalThr
        exact upd _ c _ rfl rfl ⟨hc.deqSleep, fun _ => hst, by simp, by simp [preH], by simp [closing], hc.ordN⟩
      · -- enqueue
        rename_i t hp
        injection hs with hs; subst hs
        have hst := hc.hstart (by simp [hp, preH])
        have hnf : s.cl[c]!.finished = false := by
          cases hf : s.cl[c]!.finished
          · rfl
          · have := (hP c).flag hf; rw [hp] at this; rcases this with e | e <;> cases e
        by_cases ho : s.ordered = true
        · simp only [setCl_ordered, ho, if_true]
          rw [signalRq_setCl]
          apply upd s c _ rfl rfl
          have hn := hc.ordN ho
          apply CL_wakeDeq
          · intro hne
            refine ⟨fun hx => absurd hx hne, fun _ => hst, by simp, by simp [preH], by simp [closing], fun _ => ?_⟩
            simp only [List.length_append, List.length_cons, List.length_nil]; push_cast; omega
          · intro _
            refine ⟨by simp, fun _ => hst, by simp, by simp [preH], by simp [closing], fun _ => ?_⟩
            simp only [List.length_append, List.length_cons, List.length_nil]; push_cast; omega
        · simp only [setCl_ordered, ho, if_false]
          refine upd s c _ rfl rfl ⟨fun hx => ?_, fun _ => hst, by simp, by simp [preH], by simp [closing], fun hx => absurd hx ho⟩
          have := hc.deqSleep hx
          exact ⟨this.1, by simp [hnf]⟩
      · -- finish
        rename_i hp
        injection hs with hs; subst hs
        have hst := hc.hstart (by simp [hp, preH])
        rw [signalRq_setCl]
        apply upd s c _ rfl rfl
        apply CL_wakeDeq
        · intro hne
          exact ⟨fun hx => absurd hx hne, fun _ => hst, by simp, by simp [preH], fun _ => rfl, hc.ordN⟩
        · intro _
          exact ⟨by simp, fun _ => hst, by simp, by simp [preH], fun _ => rfl, hc.ordN⟩
      · rename_i hp
        split at hs
        · injection hs with hs; subst hs
          have hst := hc.hstart (by simp [hp, preH])
          have hfin := hc.finFlag (by simp [hp, closing])
          exact upd s c _ rfl rfl ⟨hc.deqSleep, fun _ => hst, by simp, by simp [preH], fun _ => hfin, hc.ordN⟩
        · simp at hs
      · simp at hs
    | handler c =>
      have hc := h c
      simp only [step, stepHandler] at hs
      split at hs
      case isFalse => simp at hs
      split at hs
      · simp at hs
      rename_i hstd
      have hstd' : s.cl[c]!.hstarted = true := by simpa using hstd
      have hnp : preH s.cl[c]!.pc = false := by
        cases hx : preH s.cl[c]!.pc
        · rfl
        · have := (hc.preRec hx).1; rw [hstd'] at this; cases this
      have hni : s.cl[c]!.pc ≠ .idle := by intro e; rw [e] at hnp; simp [preH] at hnp
      -- the handler replaces its own fields; the caller's fields stay
      have hupd : ∀ (S0 : St) (f : Client → Client), S0.ordered = s.ordered → S0.cl = s.cl →
          ((f s.cl[c]!).pc = s.cl[c]!.pc ∧ (f s.cl[c]!).hstarted = s.cl[c]!.hstarted ∧ (f s.cl[c]!).finished = s.cl[c]!.finished) →
          ((f s.cl[c]!).hpc = .deq true → (f s.cl[c]!).queue = [] ∧ ¬ ((f s.cl[c]!).finished = true ∧ (f s.cl[c]!).nthreads = 0)) →
          (s.ordered = true → (f s.cl[c]!).nthreads = ((f s.cl[c]!).queue.length : Int)) → CLAll (setCl S0 c f) := by
        intro S0 f e1 e2 hk hd hn
        obtain ⟨k1, k2, k3⟩ := hk
        refine upd S0 c f e1 e2 ⟨hd, fun _ => by rw [k2]; exact hstd', fun hx => ?_, fun hx => ?_, fun hx => ?_, hn⟩
        · rw [k1] at hx; exact absurd hx hni
        · rw [k1, hnp] at hx; cases hx
        · rw [k1] at hx; rw [k3]; exact hc.finFlag hx
      split at hs
      · simp at hs
      · rename_i hp
        split at hs
        · rename_i t rest hq
          injection hs with hs; subst hs
          refine hupd s _ rfl rfl ⟨rfl, rfl, rfl⟩ (by simp) (fun ho => ?_)
          have := hc.ordN ho
          rw [hq] at this
          simp only [List.length_cons] at this ⊢
          push_cast at this ⊢; omega
        · rename_i hq
          split at hs
          · injection hs with hs; subst hs
            exact hupd s _ rfl rfl ⟨rfl, rfl, rfl⟩ (by simp) hc.ordN
          · rename_i hfin
            injection hs with hs; subst hs
            refine hupd s _ rfl rfl ⟨rfl, rfl, rfl⟩ (fun _ => ⟨hq, ?_⟩) hc.ordN
            intro hx
            apply hfin
            have h1 : s.cl[c]!.finished = true := hx.1
            have h2 : s.cl[c]!.nthreads = 0 := hx.2
            simp [h1, h2]
      · simp at hs
      · split at hs <;> (injection hs with hs; subst hs)
        · exact hupd s _ rfl rfl ⟨rfl, rfl, rfl⟩ (by simp) hc.ordN
        · exact hupd _ _ rfl rfl ⟨rfl, rfl, rfl⟩ (by simp) hc.ordN
      · injection hs with hs; subst hs
        apply clall_signalPool
        exact hupd _ _ rfl rfl ⟨rfl, rfl, rfl⟩ (by simp) hc.ordN
      · injection hs with hs; subst hs
        exact hupd s _ rfl rfl ⟨rfl, rfl, rfl⟩ (by simp) hc.ordN
      · simp at hs
    | worker t =>
      simp only [step, stepWorker] at hs
      split at hs
      case isFalse => simp at hs
      split at hs
      · simp at hs
      · split at hs <;> (injection hs with hs; subst hs; exact clall_congr h rfl rfl)
      · split at hs
        · injection hs with hs; subst hs; exact clall_congr h rfl rfl
        · split at hs <;> (injection hs with hs; subst hs; exact clall_congr h rfl rfl)
      · -- selfEnq c: the worker enters c's queue and wakes c's handler
        rename_i c hp
        injection hs with hs; subst hs
        have hc := h c
        have hp' : s.thr[t]!.pc = .selfEnq c := hp
        have hno : s.ordered = false := by
          cases ho : s.ordered
          · rfl
          · exact absurd (Or.inr hp') (fun hw => works_ordered hS ho t c hw)
        obtain ⟨_, hpre⟩ := hF t c (Or.inr hp')
        have hni : s.cl[c]!.pc ≠ .idle := by intro e; rw [e] at hpre; simp [preH] at hpre
        rw [signalRq_setCl]
        apply upd (setThr s t _) c _ rfl rfl
        apply CL_wakeDeq
        · intro hne
          refine ⟨fun hx => absurd hx hne, hc.hstart, fun hx => absurd hx hni, fun hx => ?_, hc.finFlag, fun hx => ?_⟩
          · have hx' : preH s.cl[c]!.pc = true := hx
            rw [hpre] at hx'; cases hx'
          · rw [hno] at hx; cases hx
        · intro _
          refine ⟨by simp, hc.hstart, fun hx => absurd hx hni, fun hx => ?_, hc.finFlag, fun hx => ?_⟩
          · have hx' : preH s.cl[c]!.pc = true := hx
            rw [hpre] at hx'; cases hx'
          · rw [hno] at hx; cases hx
      · injection hs with hs; subst hs
        apply clall_signalThr
        exact clall_congr h rfl rfl
      · simp at hs


/-! ### a worker asleep at its loop head has nothing to do -/
theorem strict_signalThr {X : St} (t : Nat) (h : ∀ u : Nat, u ≠ t → X.thr[u]!.pc = .top true → X.thr[u]!.running = false) :
    ∀ u : Nat, (signalThr X t).thr[u]!.pc = .top true → (signalThr X t).thr[u]!.running = false := by
  intro u hp
  rw [thr_signalThr] at hp ⊢
  split at hp
  · rename_i hh
    exfalso
    obtain ⟨_, _, _, _, h5⟩ := wakeW_spec X.thr[u]!
    rw [h5] at hp
    split at hp
    · cases hp
    · rename_i hne; exact hne hp
  · rename_i hh
    rw [if_neg hh]
    by_cases hut : u = t
    · -- t is not a thread record: the default record is awake
      subst hut
      have hlt : ¬ u < X.thr.size := fun x => hh ⟨rfl, x⟩
      have : X.thr[u]! = default := by grind
      rw [this] at hp; cases hp
    · exact h u hut hp


def Strict (s : St) : Prop := ∀ t : Nat, s.thr[t]!.pc = .top true → s.thr[t]!.running = false

theorem strict_setThr {s : St} (t : Nat) (g : Thr → Thr) (h : Strict s)
    (hg : (g s.thr[t]!).pc = .top true → (g s.thr[t]!).running = false) : Strict (setThr s t g) := by
  intro u hp
  rw [thr_setThr] at hp ⊢
  split at hp
  · rename_i hh; rw [if_pos hh]; rw [hh.1] at hp ⊢; exact hg hp
  · rename_i hh; rw [if_neg hh]; exact h u hp

theorem strict_signal_setThr {s : St} (t : Nat) (g : Thr → Thr) (h : Strict s) : Strict (signalThr (setThr s t g) t) := by
  apply strict_signalThr
  intro u hut hp
  rw [thr_setThr, if_neg (fun hx => hut hx.1)] at hp ⊢
  exact h u hp

theorem strict_congr {s s' : St} (h : Strict s) (e : s'.thr = s.thr) : Strict s' := by
  intro t hp; rw [e] at hp ⊢; exact h t hp

theorem strict_step {s s' : St} {l : Lbl} (h : Strict s) (hs : step s l = some s') : Strict s' := by
  cases l with
  | spurious w =>
    cases w with
    | owner =>
      simp only [step] at hs
      split at hs
      · injection hs with hs; subst hs; exact strict_congr h rfl
      · simp at hs
    | client c =>
      simp only [step] at hs
      split at hs
      · injection hs with hs; subst hs; exact strict_congr h rfl
      · simp at hs
    | handler c =>
      simp only [step] at hs
      split at hs
      · injection hs with hs; subst hs; exact strict_congr h rfl
      · injection hs with hs; subst hs; exact strict_congr h rfl
      · simp at hs
    | worker t =>
      simp only [step] at hs
      split at hs
      · injection hs with hs; subst hs
        exact strict_setThr t _ h (by simp)
      · simp at hs
  | run w k =>
    cases w with
    | owner =>
      simp only [step, stepOwner] at hs
      split at hs
      · injection hs with hs; subst hs; exact strict_congr h rfl
      · split at hs
        · injection hs with hs; subst hs; exact strict_congr h rfl
        · simp at hs
      · simp at hs
      · split at hs
        · injection hs with hs; subst hs; exact strict_congr h rfl
        · split at hs <;> (injection hs with hs; subst hs; exact strict_congr h rfl)
      · rename_i t _
        injection hs with hs; subst hs
        exact strict_congr (strict_signal_setThr t (fun th => { th with running := true }) h) rfl
      · split at hs
        · injection hs with hs; subst hs; exact strict_congr h rfl
        · simp at hs
      · simp at hs
    | client c =>
      simp only [step, stepClient] at hs
      split at hs
      case isFalse => simp at hs
      split at hs
      · simp at hs
      · injection hs with hs; subst hs; exact strict_congr h rfl
      · injection hs with hs; subst hs; exact strict_congr h rfl
      · simp at hs
      · split at hs
        · injection hs with hs; subst hs; exact strict_congr h rfl
        · split at hs
          · injection hs with hs; subst hs; exact strict_congr h rfl
          · split at hs <;> (injection hs with hs; subst hs; exact strict_congr h rfl)
      · injection hs with hs; subst hs
        intro u hp
        have e : (setCl { s with thr := s.thr.push {} } c fun cl => { cl with pc := .assign s.thr.size }).thr[u]! =
            (s.thr.push {})[u]! := rfl
        rw [e, get_push] at hp ⊢
        split at hp
        · cases hp
        · rename_i hh; rw [if_neg hh]; exact h u hp
      · rename_i t _
        injection hs with hs; subst hs
        have := strict_signal_setThr t (fun th : Thr =>
          ({ th with rq := if s.ordered then none else some c, cb := some s.cl[c]!.nextJob, running := true } : Thr)) h
        intro u hp
        exact this u hp
      · injection hs with hs; subst hs
        by_cases ho : s.ordered = true
        · simp only [setCl_ordered, ho, if_true]; exact strict_congr h rfl
        · simp only [setCl_ordered, ho, if_false]; exact strict_congr h rfl
      · injection hs with hs; subst hs; exact strict_congr h rfl
      · split at hs
        · injection hs with hs; subst hs; exact strict_congr h rfl
        · simp at hs
      · simp at hs
    | handler c =>
      simp only [step, stepHandler] at hs
      split at hs
      case isFalse => simp at hs
      split at hs
      · simp at hs
      split at hs
      · simp at hs
      · split at hs
        · injection hs with hs; subst hs; exact strict_congr h rfl
        · split at hs <;> (injection hs with hs; subst hs; exact strict_congr h rfl)
      · simp at hs
      · rename_i t _
        split at hs <;> (injection hs with hs; subst hs)
        · exact strict_congr h rfl
        · exact strict_congr (strict_setThr t (fun th => { th with res := none }) h (fun hp => h t hp)) rfl
      · injection hs with hs; subst hs
        have e : ∀ k X, X.thr = s.thr → (signalPool X k).thr = s.thr := by
          intro k X e; unfold signalPool; split
          · exact e
          · dsimp only; split
            · exact e
            · exact e
        exact strict_congr h (e k _ rfl)
      · injection hs with hs; subst hs; exact strict_congr h rfl
      · simp at hs
    | worker t =>
      simp only [step, stepWorker] at hs
      split at hs
      case isFalse => simp at hs
      split at hs
      · simp at hs
      · split at hs <;> (injection hs with hs; subst hs)
        · exact strict_setThr t _ h (by simp)
        · rename_i hr
          refine strict_setThr t _ h (fun _ => ?_)
          simpa using hr
      · split at hs
        · injection hs with hs; subst hs; exact strict_setThr t _ h (by simp)
        · split at hs <;> (injection hs with hs; subst hs)
          · exact strict_setThr t _ h (by simp)
          · exact strict_setThr t _ h (by simp)
      · injection hs with hs; subst hs
        exact strict_congr (strict_setThr t (fun th => { th with pc := .top false }) h (fun hx => by cases hx)) rfl
      · injection hs with hs; subst hs
        exact strict_signal_setThr t _ h
      · simp at hs


structure Phs (s : St) : Prop where
  nextSleep : ∀ c : Nat, s.cl[c]!.pc = .next true → s.count = s.max
  destroySleep : s.opc = .destroy true → s.idle = [] ∧ s.count ≠ 0
  started : (afterJoin s.opc = true ∨ ∃ i, s.opc = .joinC i) → ∀ c : Nat, c < s.cl.size → s.cl[c]!.pc ≠ .idle
  spawnLt : ∀ j : Nat, s.opc = .spawn j → j < s.cl.size ∧ ∀ c : Nat, c < j → s.cl[c]!.pc ≠ .idle
  joinLt : ∀ i : Nat, s.opc = .joinC i → i < s.cl.size

/-- the acting client changes its program point (from a started one to a started one), possibly with the counters -/
theorem phs_client {s S0 : St} (c : Nat) (f : Client → Client) (h : Phs s)
    (e1 : S0.cl = s.cl) (e2 : S0.opc = s.opc) (e3 : S0.max = s.max)
    (hidle : S0.opc = .destroy true → S0.idle = [] ∧ S0.count ≠ 0)
    (hni : (f s.cl[c]!).pc ≠ .idle)
    (hsl : ∀ c' : Nat, (if c' = c ∧ c < s.cl.size then (f s.cl[c]!).pc else s.cl[c']!.pc) = .next true → S0.count = s.max) :
    Phs (setCl S0 c f) := by
  have hget : ∀ c' : Nat, (setCl S0 c f).cl[c']!.pc = if c' = c ∧ c < s.cl.size then (f s.cl[c]!).pc else s.cl[c']!.pc := by
    intro c'
    rw [cl_get_setCl, e1]
    split
    · rename_i hh; rw [hh.1]
    · rfl
  have hne : ∀ c' : Nat, s.cl[c']!.pc ≠ .idle → (setCl S0 c f).cl[c']!.pc ≠ .idle := by
    intro c' hx
    rw [hget]; split
    · exact hni
    · exact hx
  refine ⟨fun c' hp => ?_, hidle, fun ho c' hc' => ?_, fun j ho => ?_, fun i ho => ?_⟩
  · rw [hget] at hp
    show S0.count = S0.max
    rw [e3]; exact hsl c' hp
  · have ho' : afterJoin s.opc = true ∨ ∃ i, s.opc = .joinC i := by
      have : (setCl S0 c f).opc = s.opc := e2
      rw [this] at ho; exact ho
    have hc'' : c' < s.cl.size := by simpa [e1] using hc'
    exact hne c' (h.started ho' c' hc'')
  · have ho' : s.opc = .spawn j := by rw [← e2]; exact ho
    obtain ⟨a, b⟩ := h.spawnLt j ho'
    exact ⟨by simpa [e1] using a, fun c' hc' => hne c' (b c' hc')⟩
  · have ho' : s.opc = .joinC i := by rw [← e2]; exact ho
    simpa [e1] using h.joinLt i ho'

theorem phs_neutral {s s' : St} (h : Phs s) (e1 : s'.opc = s.opc) (e2 : s'.max = s.max) (e3 : s'.count = s.count)
    (e4 : s'.idle = s.idle) (e5 : s'.cl.size = s.cl.size) (hcl : ∀ c : Nat, s'.cl[c]!.pc = s.cl[c]!.pc) : Phs s' := by
  refine ⟨fun c hp => ?_, fun ho => ?_, fun ho c hc => ?_, fun j ho => ?_, fun i ho => ?_⟩
  · rw [hcl] at hp; rw [e3, e2]; exact h.nextSleep c hp
  · rw [e1] at ho; rw [e4, e3]; exact h.destroySleep ho
  · rw [e1] at ho; rw [hcl]; exact h.started ho c (by omega)
  · rw [e1] at ho; obtain ⟨a, b⟩ := h.spawnLt j ho
    exact ⟨by omega, fun c hc => by rw [hcl]; exact b c hc⟩
  · rw [e1] at ho; have := h.joinLt i ho; omega


theorem pc_signalThr (s : St) (t c : Nat) : (signalThr s t).cl[c]!.pc = s.cl[c]!.pc := by
  show ((s.cl.map (wakeH t))[c]!).pc = _
  rw [get_map]; split
  · exact wakeH_pc _ _
  · rename_i hc
    have : s.cl[c]! = default := by grind
    rw [this]

theorem phs_signalThr {s : St} (t : Nat) (h : Phs s) : Phs (signalThr s t) :=
  phs_neutral h rfl rfl rfl rfl (by simp) (pc_signalThr s t)

theorem pc_signalRq (s : St) (c0 c : Nat) : (signalRq s c0).cl[c]!.pc = s.cl[c]!.pc := by
  unfold signalRq
  rw [cl_get_setCl]; split
  · rename_i hh; rw [hh.1]; split <;> rfl
  · rfl

theorem phs_signalRq {s : St} (c : Nat) (h : Phs s) : Phs (signalRq s c) :=
  phs_neutral h rfl rfl rfl rfl (by simp) (pc_signalRq s c)

/-- a push onto the idle list followed by pthread_cond_signal(&pool->c) -/
theorem phs_push_signal {s X : St} (t k : Nat) (h : Phs s) (hW : Wk s) (hi : X.idle = t :: s.idle) (ho : X.opc = s.opc)
    (hm : X.max = s.max) (hcnt : X.count = s.count) (hsz : X.cl.size = s.cl.size)
    (hcl : ∀ c : Nat, X.cl[c]!.pc = s.cl[c]!.pc) : Phs (signalPool X k) := by
  unfold signalPool
  split
  · rename_i hox
    have hos : s.opc = .destroy true := by rw [← ho]; exact hox
    refine ⟨fun c hp => ?_, fun hoo => (by cases hoo), fun _ c hc => ?_, fun j hoo => (by cases hoo), fun i hoo => (by cases hoo)⟩
    · have hp' : X.cl[c]!.pc = .next true := hp
      rw [hcl] at hp'
      show X.count = X.max
      rw [hcnt, hm]; exact h.nextSleep c hp'
    · show X.cl[c]!.pc ≠ .idle
      rw [hcl]; exact h.started (Or.inl (by rw [hos]; rfl)) c (by rw [← hsz]; exact hc)
  · rename_i hnd
    dsimp only
    have hX : Phs X := by
      refine ⟨fun c hp => ?_, fun hoo => ?_, fun hoo c hc => ?_, fun j hoo => ?_, fun i hoo => ?_⟩
      · rw [hcl] at hp; rw [hcnt, hm]; exact h.nextSleep c hp
      · exact absurd hoo (fun e => hnd e)
      · rw [ho] at hoo; rw [hcl]; exact h.started hoo c (by omega)
      · rw [ho] at hoo; obtain ⟨a, b⟩ := h.spawnLt j hoo
        exact ⟨by omega, fun c hc => by rw [hcl]; exact b c hc⟩
      · rw [ho] at hoo; have := h.joinLt i hoo; omega
    split
    · exact hX
    · rename_i hne
      have hp := poolSleepers_spec X _ (poolSleepers_pick X k hne)
      generalize (poolSleepers X)[k % (poolSleepers X).length]! = c at hp ⊢
      refine phs_client (s := X) c _ hX rfl rfl rfl hX.destroySleep (by simp) (fun c' hx => ?_)
      split at hx
      · cases hx
      · exact hX.nextSleep c' hx

theorem phs_step {s s' : St} {l : Lbl} (hW : Wk s) (h : Phs s) (hs : step s l = some s') : Phs s' := by
  cases l with
  | spurious w =>
    cases w with
    | owner =>
      simp only [step] at hs
      split at hs
      · rename_i ho
        injection hs with hs; subst hs
        exact ⟨h.nextSleep, fun hoo => (by cases hoo), fun _ => h.started (Or.inl (by rw [ho]; rfl)),
          fun j hoo => (by cases hoo), fun i hoo => (by cases hoo)⟩
      · simp at hs
    | client c =>
      simp only [step] at hs
      split at hs
      · injection hs with hs; subst hs
        refine phs_client c _ h rfl rfl rfl h.destroySleep (by simp) (fun c' hx => ?_)
        split at hx
        · cases hx
        · exact h.nextSleep c' hx
      · simp at hs
    | handler c =>
      simp only [step] at hs
      split at hs
      · injection hs with hs; subst hs
        exact phs_neutral h rfl rfl rfl rfl (by simp) (fun c' => by rw [cl_get_setCl]; split; (rename_i hh; rw [hh.1]); rfl)
      · injection hs with hs; subst hs
        exact phs_neutral h rfl rfl rfl rfl (by simp) (fun c' => by rw [cl_get_setCl]; split; (rename_i hh; rw [hh.1]); rfl)
      · simp at hs
    | worker t =>
      simp only [step] at hs
      split at hs
      · injection hs with hs; subst hs
        exact phs_neutral h rfl rfl rfl rfl rfl (fun _ => rfl)
      · simp at hs
  | run w k =>
    cases w with
    | owner =>
      simp only [step, stepOwner] at hs
      split at hs
      · -- spawn i
        rename_i i ho
        injection hs with hs; subst hs
        obtain ⟨hlt, hst⟩ := h.spawnLt i ho
        have hget : ∀ c : Nat, (s.cl.modify i fun _ => ({ pc := .start } : Client))[c]!.pc =
            if c = i then .start else s.cl[c]!.pc := by
          intro c; rw [get_modify]; split
          · rename_i hh; rw [if_pos hh.1]
          · rename_i hh; rw [if_neg (fun e => hh ⟨e, hlt⟩)]
        refine ⟨fun c hp => ?_, fun hoo => ?_, fun hoo c hc => ?_, fun j hoo => ?_, fun i' hoo => ?_⟩
        · have hp' : (s.cl.modify i fun _ => ({ pc := .start } : Client))[c]!.pc = .next true := hp
          rw [hget] at hp'
          split at hp'
          · cases hp'
          · exact h.nextSleep c hp'
        · have : (if i + 1 < s.cl.size then OPc.spawn (i + 1) else OPc.joinC 0) = .destroy true := hoo
          split at this <;> cases this
        · show (s.cl.modify i fun _ => ({ pc := .start } : Client))[c]!.pc ≠ .idle
          have hlast : ¬ i + 1 < s.cl.size := by
            intro hx
            have hoo' : afterJoin (if i + 1 < s.cl.size then OPc.spawn (i + 1) else OPc.joinC 0) = true ∨
                ∃ i', (if i + 1 < s.cl.size then OPc.spawn (i + 1) else OPc.joinC 0) = .joinC i' := hoo
            rw [if_pos hx] at hoo'
            rcases hoo' with e | ⟨_, e⟩
            · simp [afterJoin] at e
            · cases e
          have hc' : c < s.cl.size := by simpa using hc
          rw [hget]; split
          · simp
          · rename_i hne; exact hst c (by omega)
        · have hj : (if i + 1 < s.cl.size then OPc.spawn (i + 1) else OPc.joinC 0) = .spawn j := hoo
          split at hj
          · rename_i hx
            injection hj with hj; subst hj
            refine ⟨by simpa using hx, fun c hc => ?_⟩
            show (s.cl.modify i fun _ => ({ pc := .start } : Client))[c]!.pc ≠ .idle
            rw [hget]; split
            · simp
            · rename_i hne; exact hst c (by omega)
          · cases hj
        · have hj : (if i + 1 < s.cl.size then OPc.spawn (i + 1) else OPc.joinC 0) = .joinC i' := hoo
          split at hj
          · cases hj
          · injection hj with hj; subst hj
            show 0 < (s.cl.modify i _).size
            simp; omega
      · -- joinC i
        rename_i i ho
        split at hs
        · injection hs with hs; subst hs
          have hlt := h.joinLt i ho
          have hst := h.started (Or.inr ⟨i, ho⟩)
          refine ⟨h.nextSleep, fun hoo => ?_, fun _ => hst, fun j hoo => ?_, fun i' hoo => ?_⟩
          · have : (if i + 1 < s.cl.size then OPc.joinC (i + 1) else OPc.destroy false) = .destroy true := hoo
            split at this <;> cases this
          · have : (if i + 1 < s.cl.size then OPc.joinC (i + 1) else OPc.destroy false) = .spawn j := hoo
            split at this <;> cases this
          · have hj : (if i + 1 < s.cl.size then OPc.joinC (i + 1) else OPc.destroy false) = .joinC i' := hoo
            split at hj
            · rename_i hx; injection hj with hj; subst hj; exact hx
            · cases hj
        · simp at hs
      · simp at hs
      · -- destroy false
        rename_i ho
        have hst := h.started (Or.inl (by rw [ho]; rfl))
        split at hs
        · injection hs with hs; subst hs
          exact ⟨h.nextSleep, fun hoo => (by cases hoo), fun _ => hst, fun j hoo => (by cases hoo), fun i hoo => (by cases hoo)⟩
        · rename_i hcnt
          split at hs
          · rename_i hi
            injection hs with hs; subst hs
            exact ⟨h.nextSleep, fun _ => ⟨hi, hcnt⟩, fun _ => hst, fun j hoo => (by cases hoo), fun i hoo => (by cases hoo)⟩
          · injection hs with hs; subst hs
            exact ⟨h.nextSleep, fun hoo => (by cases hoo), fun _ => hst, fun j hoo => (by cases hoo), fun i hoo => (by cases hoo)⟩
      · rename_i t ho
        have hst := h.started (Or.inl (by rw [ho]; rfl))
        injection hs with hs; subst hs
        apply phs_signalThr
        exact ⟨h.nextSleep, fun hoo => (by cases hoo), fun _ => hst, fun j hoo => (by cases hoo), fun i hoo => (by cases hoo)⟩
      · rename_i t ho
        have hst := h.started (Or.inl (by rw [ho]; rfl))
        have hov := hW.over (by rw [ho]; rfl)
        split at hs
        · injection hs with hs; subst hs
          refine ⟨fun c hp => ?_, fun hoo => (by cases hoo), fun _ => hst, fun j hoo => (by cases hoo), fun i hoo => (by cases hoo)⟩
          have hp' : s.cl[c]!.pc = .next true := hp
          rcases hov c with e | e <;> (rw [e] at hp'; cases hp')
        · simp at hs
      · simp at hs
    | client c =>
      simp only [step, stepClient] at hs
      split at hs
      case isFalse => simp at hs
      rename_i hcs
      -- sleepers other than the acting client keep what they had
      have others : ∀ (p : CPc), p ≠ .next true → ∀ c' : Nat,
          (if c' = c ∧ c < s.cl.size then p else s.cl[c']!.pc) = .next true → s.count = s.max := by
        intro p hp c' hx
        split at hx
        · exact absurd hx hp
        · exact h.nextSleep c' hx
      split at hs
      · simp at hs
      · injection hs with hs; subst hs
        exact phs_client c _ h rfl rfl rfl h.destroySleep (by simp) (others .mkH (by simp))
      · injection hs with hs; subst hs
        exact phs_client c _ h rfl rfl rfl h.destroySleep (by simp) (others (.next false) (by simp))
      · simp at hs
      · split at hs
        · injection hs with hs; subst hs
          exact phs_client c _ h rfl rfl rfl h.destroySleep (by simp) (others .finish (by simp))
        · split at hs
          · rename_i t rest hi
            injection hs with hs; subst hs
            refine phs_client (S0 := { s with idle := rest }) c _ h rfl rfl rfl (fun hoo => ?_) (by simp) (others (.assign t) (by simp))
            have := (h.destroySleep hoo).1
            rw [hi] at this; cases this
          · rename_i hi
            split at hs
            · rename_i hcm
              injection hs with hs; subst hs
              refine phs_client c _ h rfl rfl rfl h.destroySleep (by simp) (fun c' hx => ?_)
              split at hx
              · exact hcm
              · exact h.nextSleep c' hx
            · rename_i hcm
              injection hs with hs; subst hs
              refine phs_client (S0 := { s with count := s.count + 1 }) c _ h rfl rfl rfl
                (fun hoo => ⟨(h.destroySleep hoo).1, by show s.count + 1 ≠ 0; omega⟩) (by simp) (fun c' hx => ?_)
              split at hx
              · cases hx
              · exact absurd (h.nextSleep c' hx) hcm
      · injection hs with hs; subst hs
        exact phs_client (S0 := { s with thr := s.thr.push {} }) c _ h rfl rfl rfl h.destroySleep (by simp)
          (others (.assign s.thr.size) (by simp))
      · rename_i t _
        injection hs with hs; subst hs
        apply phs_signalThr
        exact phs_client (S0 := setThr s t _) c _ h rfl rfl rfl h.destroySleep (by simp) (others (.enqueue t) (by simp))
      · rename_i t _
        injection hs with hs; subst hs
        have hX : Phs (setCl s c fun cl =>
            { cl with nthreads := cl.nthreads + 1, queue := if s.ordered then cl.queue ++ [t] else cl.queue,
                      pc := .next false, nextJob := cl.nextJob + 1 }) :=
          phs_client c _ h rfl rfl rfl h.destroySleep (by simp) (others (.next false) (by simp))
        by_cases ho : s.ordered = true
        · simp only [setCl_ordered, ho, if_true] at hX ⊢
          exact phs_signalRq c hX
        · simp only [setCl_ordered, ho, if_false] at hX ⊢
          exact hX
      · injection hs with hs; subst hs
        apply phs_signalRq
        exact phs_client c _ h rfl rfl rfl h.destroySleep (by simp) (others .joinH (by simp))
      · split at hs
        · injection hs with hs; subst hs
          exact phs_client c _ h rfl rfl rfl h.destroySleep (by simp) (others .done (by simp))
        · simp at hs
      · simp at hs
    | handler c =>
      simp only [step, stepHandler] at hs
      split at hs
      case isFalse => simp at hs
      split at hs
      · simp at hs
      have keep : ∀ (S0 : St) (f : Client → Client), S0.opc = s.opc → S0.max = s.max → S0.count = s.count → S0.idle = s.idle →
          S0.cl = s.cl → (∀ cl, (f cl).pc = cl.pc) → Phs (setCl S0 c f) := by
        intro S0 f e1 e2 e3 e4 e5 hf
        refine phs_neutral h e1 e2 e3 e4 (by simp [e5]) (fun c' => ?_)
        rw [cl_get_setCl, e5]; split
        · rename_i hh; rw [hh.1]; exact hf _
        · rfl
      split at hs
      · simp at hs
      · split at hs
        · injection hs with hs; subst hs; exact keep s _ rfl rfl rfl rfl rfl (fun _ => rfl)
        · split at hs <;> (injection hs with hs; subst hs; exact keep s _ rfl rfl rfl rfl rfl (fun _ => rfl))
      · simp at hs
      · split at hs <;> (injection hs with hs; subst hs)
        · exact keep s _ rfl rfl rfl rfl rfl (fun _ => rfl)
        · exact keep _ _ rfl rfl rfl rfl rfl (fun _ => rfl)
      · rename_i t r _
        injection hs with hs; subst hs
        refine phs_push_signal (X := setCl { s with idle := t :: s.idle } c fun cl => { cl with hpc := .callback r })
          t k h hW rfl rfl rfl rfl (by simp) (fun c' => ?_)
        rw [cl_get_setCl]; split
        · rename_i hh; rw [hh.1]
        · rfl
      · injection hs with hs; subst hs; exact keep s _ rfl rfl rfl rfl rfl (fun _ => rfl)
      · simp at hs
    | worker t =>
      simp only [step, stepWorker] at hs
      split at hs
      case isFalse => simp at hs
      have thrOnly : ∀ thr', Phs { s with thr := thr' } := fun _ => phs_neutral h rfl rfl rfl rfl rfl (fun _ => rfl)
      split at hs
      · simp at hs
      · split at hs <;> (injection hs with hs; subst hs; exact thrOnly _)
      · split at hs
        · injection hs with hs; subst hs; exact thrOnly _
        · split at hs <;> (injection hs with hs; subst hs; exact thrOnly _)
      · rename_i c _
        injection hs with hs; subst hs
        apply phs_signalRq
        refine phs_neutral h rfl rfl rfl rfl (by simp) (fun c' => ?_)
        rw [cl_get_setCl]; split
        · rename_i hh; rw [hh.1]; rfl
        · rfl
      · injection hs with hs; subst hs
        exact phs_signalThr _ (thrOnly _)
      · simp at hs

end TpK
