import MtblModel.PoolWriter
/-
  C13, first clause: "with a thread pool … the writer's output file is byte-identical to the one written without a pool".
  For EVERY interleaving of the caller's adds with the result handler's deliveries (ordered delivery, C13_order; everything
  delivered at the join, C13_complete): the pooled writer, once everything outstanding has been delivered, is in exactly
  the state of the sequential writer — same result code for every add, same file.
-/
namespace Mtbl

/-- the caller's part of mtbl_writer_add: result, the block cut (if any), the writer without that block's completion -/
def W.addC (w : W) (k v : Bytes) : Res × Option WBlock × W :=
  if w.m.countEntries > 0 ∧ bcmp k w.lastKey != .gt then (.failure, none, w) else
  let est := w.data.estimate + 15 + k.length + v.length
  let c := if est ≥ w.cfg.effBlockSize then
      ({ w with lastKey := shortestSep w.lastKey k, aborted := w.aborted || !sepAssertOk w.lastKey k } : W).cut
    else (none, w)
  (.success, c.1, { c.2 with lastKey := k,
                             m := { c.2.m with countEntries := c.2.m.countEntries + 1,
                                               bytesKeys := c.2.m.bytesKeys + k.length,
                                               bytesValues := c.2.m.bytesValues + v.length },
                             data := c.2.data.add { key := k, val := v } })

def optComplete (w : W) : Option WBlock → W
  | none => w
  | some b => w.complete b

theorem W.ext' {a b : W} (h1 : a.cfg = b.cfg) (h2 : a.out = b.out) (h3 : a.m = b.m) (h4 : a.data = b.data)
    (h5 : a.index = b.index) (h6 : a.lastKey = b.lastKey) (h7 : a.lastOffset = b.lastOffset)
    (h8 : a.pendingOffset = b.pendingOffset) (h9 : a.aborted = b.aborted) : a = b := by
  cases a; cases b; simp_all

/-- the compressor does not fail (as in C01 / C08_no_abort; a failure is an assertion failure in the C code) -/
def CompOK (cfg : WCfg) : Prop := ∀ raw, ∃ stored, (if cfg.compression = 0 then some raw else cfg.comp raw) = some stored

theorem PW.add_eq (p : PW) (k v : Bytes) :
    p.add k v = ((p.w.addC k v).1,
      if (p.w.addC k v).1 = .failure then p else { w := (p.w.addC k v).2.2, pending := p.pending ++ (p.w.addC k v).2.1.toList }) := by
  unfold PW.add W.addC
  by_cases hg : p.w.m.countEntries > 0 ∧ bcmp k p.w.lastKey != .gt
  · simp only [hg, and_self, if_true]
  · simp only [hg, if_false]
    split <;> simp

theorem flush_eq (w : W) (hc : CompOK w.cfg) : w.flush = optComplete w.cut.2 w.cut.1 := by
  unfold W.flush W.cut
  split
  · rfl
  · obtain ⟨stored, hst⟩ := hc w.data.finish
    simp only [optComplete, W.complete, hst]

theorem cut_cfg (w : W) : w.cut.2.cfg = w.cfg := by unfold W.cut; split <;> rfl

/-- sequential add = caller part, then the completion of the block that was cut (if any) -/
theorem add_eq_addC (w : W) (hc : CompOK w.cfg) (k v : Bytes) :
    w.add k v = ((w.addC k v).1, optComplete (w.addC k v).2.2 (w.addC k v).2.1) := by
  unfold W.add W.addC
  by_cases hg : w.m.countEntries > 0 ∧ bcmp k w.lastKey != .gt
  · simp only [hg, and_self, if_true]; rfl
  · simp only [hg, if_false]
    split
    · have hw1 : CompOK ({ w with lastKey := shortestSep w.lastKey k, aborted := w.aborted || !sepAssertOk w.lastKey k } : W).cfg := hc
      rw [flush_eq _ hw1]
      generalize hcut : ({ w with lastKey := shortestSep w.lastKey k, aborted := w.aborted || !sepAssertOk w.lastKey k } : W).cut = c
      have hcfg : c.2.cfg = w.cfg := by rw [← hcut, cut_cfg]
      obtain ⟨blk, w'⟩ := c
      cases blk with
      | none => rfl
      | some b =>
        obtain ⟨stored, hst⟩ := hc b.raw
        simp only at hcfg
        simp only [optComplete, W.complete, hcfg, hst]
    · rfl

/-- a completion commutes with the caller's part of an add -/
theorem addC_complete (w : W) (hc : CompOK w.cfg) (b : WBlock) (k v : Bytes) :
    (w.complete b).addC k v = ((w.addC k v).1, (w.addC k v).2.1, (w.addC k v).2.2.complete b) := by
  obtain ⟨stored, hst⟩ := hc b.raw
  unfold W.addC W.complete W.cut
  simp only [hst]
  by_cases hg : w.m.countEntries > 0 ∧ bcmp k w.lastKey != .gt
  · simp only [hg, and_self, if_true, hst]
  · simp only [hg, if_false]
    split
    · split
      · simp only [hst]
      · simp only [hst]
    · simp only [hst]

theorem complete_cfg (w : W) (b : WBlock) : (w.complete b).cfg = w.cfg := by
  unfold W.complete
  simp only
  split <;> rfl

theorem foldl_complete_cfg (bs : List WBlock) (w : W) : (bs.foldl W.complete w).cfg = w.cfg := by
  induction bs generalizing w with
  | nil => rfl
  | cons b bs ih => simp only [List.foldl_cons]; rw [ih, complete_cfg]

theorem addC_foldl (bs : List WBlock) (w : W) (hc : CompOK w.cfg) (k v : Bytes) :
    (bs.foldl W.complete w).addC k v =
      ((w.addC k v).1, (w.addC k v).2.1, bs.foldl W.complete (w.addC k v).2.2) := by
  induction bs generalizing w with
  | nil => rfl
  | cons b bs ih =>
    simp only [List.foldl_cons]
    rw [ih (w.complete b) (by rw [complete_cfg]; exact hc), addC_complete w hc b k v]

theorem cut_complete (w : W) (hc : CompOK w.cfg) (b : WBlock) : (w.complete b).cut = (w.cut.1, w.cut.2.complete b) := by
  obtain ⟨stored, hst⟩ := hc b.raw
  unfold W.cut W.complete
  simp only [hst]
  split <;> simp only [hst]

theorem cut_foldl (bs : List WBlock) (w : W) (hc : CompOK w.cfg) :
    (bs.foldl W.complete w).cut = (w.cut.1, bs.foldl W.complete w.cut.2) := by
  induction bs generalizing w with
  | nil => rfl
  | cons b bs ih =>
    simp only [List.foldl_cons]
    rw [ih (w.complete b) (by rw [complete_cfg]; exact hc), cut_complete w hc b]

theorem foldl_optComplete (bs : List WBlock) (w : W) (o : Option WBlock) :
    (bs ++ o.toList).foldl W.complete w = optComplete (bs.foldl W.complete w) o := by
  cases o <;> simp [optComplete, List.foldl_append]

/-- the writer once everything outstanding has been delivered -/
def PW.settle (p : PW) : W := p.pending.foldl W.complete p.w

theorem addC_cfg (w : W) (k v : Bytes) : (w.addC k v).2.2.cfg = w.cfg := by
  unfold W.addC
  split
  · rfl
  · simp only
    split
    · exact cut_cfg _
    · rfl

/-- **an add commutes with the outstanding deliveries**: same result code, and the settled state after the pooled add is
    the sequential add applied to the settled state -/
theorem settle_add (p : PW) (hc : CompOK p.w.cfg) (k v : Bytes) :
    (p.add k v).1 = (p.settle.add k v).1 ∧ (p.add k v).2.settle = (p.settle.add k v).2 := by
  have hs : CompOK p.settle.cfg := by unfold PW.settle; rw [foldl_complete_cfg]; exact hc
  rw [PW.add_eq, add_eq_addC _ hs]
  unfold PW.settle
  rw [addC_foldl _ _ hc]
  refine ⟨rfl, ?_⟩
  simp only
  by_cases hf : (p.w.addC k v).1 = .failure
  · simp only [hf, if_true]
    have hnone : (p.w.addC k v).2.1 = none ∧ (p.w.addC k v).2.2 = p.w := by
      by_cases hg : p.w.m.countEntries > 0 ∧ bcmp k p.w.lastKey != .gt
      · unfold W.addC; simp only [hg, and_self, if_true]
      · exfalso; unfold W.addC at hf; simp only [hg, if_false] at hf; cases hf
    rw [hnone.1, hnone.2]; rfl
  · simp only [hf, if_false, foldl_optComplete]

theorem settle_deliver (p : PW) : p.deliver.settle = p.settle := by
  unfold PW.deliver PW.settle
  split
  · rfl
  · rename_i b rest h; simp [h]

theorem step_cfg (p : PW) (st : PStep) : (p.step st).w.cfg = p.w.cfg := by
  cases st with
  | add k v =>
    simp only [PW.step]; rw [PW.add_eq]
    simp only
    split
    · rfl
    · exact addC_cfg _ _ _
  | deliver =>
    simp only [PW.step, PW.deliver]
    split
    · rfl
    · exact complete_cfg _ _

/-- the adds of a step sequence, in order -/
def addsOf : List PStep → List Entry
  | [] => []
  | .add k v :: r => ⟨k, v⟩ :: addsOf r
  | .deliver :: r => addsOf r

/-- result codes of the adds of a step sequence run on the pooled writer -/
def PW.runCodes (p : PW) : List PStep → List Res
  | [] => []
  | .add k v :: r => (p.add k v).1 :: PW.runCodes (p.add k v).2 r
  | .deliver :: r => PW.runCodes p.deliver r

def PW.run (p : PW) (steps : List PStep) : PW := steps.foldl PW.step p

/-- **every interleaving of adds and (in-order) deliveries**: the add result codes are those of the sequential writer, and the
    settled state is the sequential writer's state after the same adds -/
theorem pooled_eq_sequential (p : PW) (hc : CompOK p.w.cfg) (steps : List PStep) :
    PW.runCodes p steps = (p.settle.addAll (addsOf steps)).1 ∧
    (p.run steps).settle = (p.settle.addAll (addsOf steps)).2 := by
  induction steps generalizing p with
  | nil => exact ⟨rfl, rfl⟩
  | cons st steps ih =>
    cases st with
    | add k v =>
      obtain ⟨h1, h2⟩ := settle_add p hc k v
      have hc' : CompOK (p.add k v).2.w.cfg := by
        have := step_cfg p (.add k v); simp only [PW.step] at this; rw [this]; exact hc
      obtain ⟨i1, i2⟩ := ih (p.add k v).2 hc'
      simp only [PW.runCodes, PW.run, List.foldl_cons, PW.step, addsOf, W.addAll]
      refine ⟨?_, ?_⟩
      · rw [i1, h1, h2]
      · have : (List.foldl PW.step (p.add k v).2 steps) = ((p.add k v).2.run steps) := rfl
        rw [this, i2, h2]
    | deliver =>
      have hc' : CompOK p.deliver.w.cfg := by
        have := step_cfg p .deliver; simp only [PW.step] at this; rw [this]; exact hc
      obtain ⟨i1, i2⟩ := ih p.deliver hc'
      simp only [PW.runCodes, PW.run, List.foldl_cons, PW.step, addsOf]
      rw [settle_deliver] at i1 i2
      exact ⟨i1, i2⟩

/-- the finished file: join, index, trailer — the sequential writer's `finish` of the settled state -/
theorem finish_eq (p : PW) (hc : CompOK p.w.cfg) : p.finish = p.settle.finish := by
  have hs : CompOK p.settle.cfg := by unfold PW.settle; rw [foldl_complete_cfg]; exact hc
  unfold PW.finish W.finish
  rw [flush_eq _ hs]
  unfold PW.settle
  rw [cut_foldl _ _ hc]
  simp only [foldl_optComplete]

/-- **C13, writer clause.**  A pooled writer started on an empty file position `pre`, driven by ANY interleaving of adds and
    in-order deliveries, then finished: the add result codes and the file are exactly those of the writer without a pool. -/
theorem pooled_writer_file (cfg : WCfg) (hc : CompOK cfg) (pre : Nat) (steps : List PStep) :
    PW.runCodes { w := W.new cfg pre } steps = ((W.new cfg pre).addAll (addsOf steps)).1 ∧
    (PW.run { w := W.new cfg pre } steps).finish = Writer.run cfg pre (addsOf steps) := by
  have h := pooled_eq_sequential { w := W.new cfg pre } (by exact hc) steps
  refine ⟨h.1, ?_⟩
  have hc' : CompOK (PW.run { w := W.new cfg pre } steps).w.cfg := by
    have : ∀ (p : PW) (l : List PStep), (p.run l).w.cfg = p.w.cfg := by
      intro p l
      induction l generalizing p with
      | nil => rfl
      | cons s l ih => simp only [PW.run, List.foldl_cons]; exact (ih (p.step s)).trans (step_cfg p s)
    rw [this]; exact hc
  rw [finish_eq _ hc', h.2]
  rfl

end Mtbl
