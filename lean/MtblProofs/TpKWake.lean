import MtblProofs.TpKShape
/-
  The k-client pool machine: NO LOST WAKE-UP on pool->c with several callers asleep in threadpool_next.  Whenever some caller
  sleeps (without a pending signal), every idle worker thread is matched by a caller that stands at the loop head of
  threadpool_next with a job still to dispatch — a caller that was signalled, woken spuriously or has just arrived — and will
  take it.  So the pool is never left with idle threads while everybody who could use them sleeps (the fault class of the
  seeded change C13e: "signal only when the list was empty").  For every number of clients and every schedule.
-/
set_option linter.unusedSimpArgs false
namespace TpK

def ready (njobs : Nat) (cl : Client) : Nat := if cl.pc = .next false ∧ cl.nextJob < njobs then 1 else 0
def asleepN (cl : Client) : Nat := if cl.pc = .next true then 1 else 0
def R (s : St) : Nat := sumA s.cl (ready s.njobs)
def S (s : St) : Nat := sumA s.cl asleepN

/-- the owner has joined every client (it is in threadpool_destroy, or done) -/
def afterJoin : OPc → Bool
  | .destroy _ => true | .kill _ => true | .joinW _ => true | .done => true | _ => false

structure Wk (s : St) : Prop where
  match_ : 0 < S s → s.idle.length ≤ R s
  fresh : ∀ i j : Nat, s.opc = .spawn j → j ≤ i → s.cl[i]!.pc = .idle
  jobs : ∀ c : Nat, s.cl[c]!.pc = .next true → s.cl[c]!.nextJob < s.njobs
  joined : ∀ i c : Nat, s.opc = .joinC i → c < i → s.cl[c]!.pc = .done
  over : afterJoin s.opc = true → ∀ c : Nat, s.cl[c]!.pc = .done ∨ s.cl[c]!.pc = .idle

theorem ready_default (n : Nat) : ready n (default : Client) = 0 := by
  have : (default : Client).pc = .idle := rfl
  simp [ready, this]
theorem asleepN_default : asleepN (default : Client) = 0 := by
  have : (default : Client).pc = .idle := rfl
  simp [asleepN, this]

/-- how R and S move when one client's record changes -/
theorem RS_setCl (s : St) (c : Nat) (f : Client → Client) (hc : c < s.cl.size) :
    R (setCl s c f) + ready s.njobs s.cl[c]! = R s + ready s.njobs (f s.cl[c]!) ∧
    S (setCl s c f) + asleepN s.cl[c]! = S s + asleepN (f s.cl[c]!) :=
  ⟨sumA_modify s.cl c f (ready s.njobs) hc, sumA_modify s.cl c f asleepN hc⟩

theorem RS_setCl_same (s : St) (c : Nat) (f : Client → Client)
    (h : (f s.cl[c]!).pc = s.cl[c]!.pc ∧ (f s.cl[c]!).nextJob = s.cl[c]!.nextJob) :
    R (setCl s c f) = R s ∧ S (setCl s c f) = S s := by
  by_cases hc : c < s.cl.size
  · obtain ⟨h1, h2⟩ := RS_setCl s c f hc
    simp only [ready, asleepN, h.1, h.2] at h1 h2
    exact ⟨by omega, by omega⟩
  · exact ⟨sumA_modify_oob _ _ _ _ hc, sumA_modify_oob _ _ _ _ hc⟩

theorem RS_map_wakeH (s : St) (t : Nat) :
    sumA (s.cl.map (wakeH t)) (ready s.njobs) = R s ∧ sumA (s.cl.map (wakeH t)) asleepN = S s := by
  have e : ∀ cl : Client, (wakeH t cl).nextJob = cl.nextJob := by
    intro cl; unfold wakeH; split
    · split <;> rfl
    · rfl
  exact ⟨sumA_map_same _ _ _ (fun x => by simp [ready, wakeH_pc, e]),
    sumA_map_same _ _ _ (fun x => by simp [asleepN, wakeH_pc])⟩

theorem cl_get_setCl (s : St) (c c' : Nat) (f : Client → Client) :
    (setCl s c f).cl[c']! = if c' = c ∧ c < s.cl.size then f s.cl[c']! else s.cl[c']! := by
  show (s.cl.modify c f)[c']! = _
  rw [get_modify]


theorem ready_le_R (s : St) (c : Nat) (hc : c < s.cl.size) : ready s.njobs s.cl[c]! ≤ R s := sumA_le s.cl _ c hc
theorem asleep_le_S (s : St) (c : Nat) (hc : c < s.cl.size) : asleepN s.cl[c]! ≤ S s := sumA_le s.cl _ c hc

/-- the acting client `c` changes its own record (on a state `S0` that differs from `s` at most in idle list, count, threads) -/
theorem wk_client {s S0 : St} {c : Nat} (f : Client → Client) (hc : c < s.cl.size)
    (h0 : S0.cl = s.cl ∧ S0.opc = s.opc ∧ S0.njobs = s.njobs) (h : Wk s)
    (hpc : s.cl[c]!.pc ≠ .idle) (hpd : s.cl[c]!.pc ≠ .done)
    (hjobs : (f s.cl[c]!).pc = .next true → (f s.cl[c]!).nextJob < s.njobs)
    (hmatch : ∀ S' : Nat, S' + asleepN s.cl[c]! = S s + asleepN (f s.cl[c]!) → 0 < S' →
      S0.idle.length + ready s.njobs s.cl[c]! ≤ R s + ready s.njobs (f s.cl[c]!)) : Wk (setCl S0 c f) := by
  obtain ⟨e1, e2, e3⟩ := h0
  have hc0 : c < S0.cl.size := by rw [e1]; exact hc
  obtain ⟨r1, r2⟩ := RS_setCl S0 c f hc0
  have eR : R S0 = R s := by unfold R; rw [e1, e3]
  have eS : S S0 = S s := by unfold S; rw [e1]
  rw [e1, e3, eR] at r1
  rw [e1, eS] at r2
  refine ⟨fun hpos => ?_, fun i j ho hij => ?_, fun c' hp => ?_, fun i c' ho hci => ?_, fun ho c' => ?_⟩
  rotate_left 3
  · -- clients joined so far are done, so the acting client is not among them
    have ho' : s.opc = .joinC i := by rw [← e2]; exact ho
    rw [cl_get_setCl]; split
    · rename_i hh
      have := h.joined i c ho' (by rw [← hh.1]; exact hci)
      exact absurd this hpd
    · rw [e1]; exact h.joined i c' ho' hci
  · -- nobody acts after the owner has joined everybody
    have ho' : afterJoin s.opc = true := by rw [← e2]; exact ho
    rcases h.over ho' c with hx | hx
    · exact absurd hx hpd
    · exact absurd hx hpc
  · have := hmatch _ r2 hpos
    show S0.idle.length ≤ R (setCl S0 c f)
    omega
  · have ho' : s.opc = .spawn j := by rw [← e2]; exact ho
    have hi := h.fresh i j ho' hij
    rw [cl_get_setCl]
    split
    · rename_i hh; rw [hh.1] at hi; exact absurd hi hpc
    · rw [e1]; exact hi
  · show _ < S0.njobs
    rw [e3]
    rw [cl_get_setCl] at hp ⊢
    by_cases hh : c' = c ∧ c < S0.cl.size
    · rw [if_pos hh] at hp ⊢; rw [hh.1, e1] at hp ⊢; exact hjobs hp
    · rw [if_neg hh] at hp ⊢; rw [e1] at hp ⊢; exact h.jobs c' hp

/-- a step that leaves every client's program counter and job counter alone (and the idle list no longer, the owner as is) -/
theorem wk_neutral {s s' : St} (h : Wk s) (hn : s'.njobs = s.njobs) (ho : s'.opc = s.opc)
    (hi : s'.idle.length ≤ s.idle.length) (hR : R s' = R s) (hS : S s' = S s)
    (hcl : ∀ c : Nat, s'.cl[c]!.pc = s.cl[c]!.pc ∧ s'.cl[c]!.nextJob = s.cl[c]!.nextJob) : Wk s' := by
  refine ⟨fun hpos => ?_, fun i j hoo hij => ?_, fun c hp => ?_, fun i c hoo hci => ?_, fun hoo c => ?_⟩
  · rw [hS] at hpos; have := h.match_ hpos; rw [hR]; omega
  · rw [(hcl i).1]; exact h.fresh i j (by rw [← ho]; exact hoo) hij
  · rw [(hcl c).1] at hp; rw [(hcl c).2, hn]; exact h.jobs c hp
  · rw [(hcl c).1]; exact h.joined i c (by rw [← ho]; exact hoo) hci
  · rw [(hcl c).1]; exact h.over (by rw [← ho]; exact hoo) c

theorem wk_setCl_same {s : St} (c : Nat) (f : Client → Client) (h : Wk s)
    (hf : ∀ cl, (f cl).pc = cl.pc ∧ (f cl).nextJob = cl.nextJob) : Wk (setCl s c f) := by
  obtain ⟨r, s1⟩ := RS_setCl_same s c f (hf _)
  refine wk_neutral h rfl rfl (Nat.le_refl _) r s1 (fun c' => ?_)
  rw [cl_get_setCl]; split
  · rename_i hh; rw [hh.1]; exact hf _
  · exact ⟨rfl, rfl⟩

theorem wk_signalThr {s : St} (t : Nat) (h : Wk s) : Wk (signalThr s t) := by
  obtain ⟨r, s1⟩ := RS_map_wakeH s t
  refine wk_neutral h rfl rfl (Nat.le_refl _) r s1 (fun c => ?_)
  show ((s.cl.map (wakeH t))[c]!).pc = _ ∧ ((s.cl.map (wakeH t))[c]!).nextJob = _
  have e : ∀ cl : Client, (wakeH t cl).nextJob = cl.nextJob := by
    intro cl; unfold wakeH; split
    · split <;> rfl
    · rfl
  rw [get_map]; split
  · exact ⟨wakeH_pc _ _, e _⟩
  · rename_i hc
    have : s.cl[c]! = default := by grind
    rw [this]; exact ⟨rfl, rfl⟩

theorem wk_signalRq {s : St} (c : Nat) (h : Wk s) : Wk (signalRq s c) := by
  unfold signalRq
  apply wk_setCl_same c _ h
  intro cl; split <;> exact ⟨rfl, rfl⟩

theorem wk_thr {s : St} (thr' : Array Thr) (h : Wk s) : Wk { s with thr := thr' } :=
  ⟨h.match_, h.fresh, h.jobs, h.joined, h.over⟩
theorem wk_count {s : St} (n : Nat) (h : Wk s) : Wk { s with count := n } :=
  ⟨h.match_, h.fresh, h.jobs, h.joined, h.over⟩

theorem list_sum_zero {α : Type} (l : List α) (f : α → Nat) (h : ∀ x ∈ l, f x = 0) : (l.map f).sum = 0 := by
  induction l with
  | nil => rfl
  | cons a l ih =>
    simp only [List.map_cons, List.sum_cons]
    rw [h a (by simp), ih (fun x hx => h x (by simp [hx]))]

theorem sumA_zero {α : Type} [Inhabited α] (a : Array α) (f : α → Nat) (h : ∀ c : Nat, f a[c]! = 0) : sumA a f = 0 := by
  unfold sumA
  apply list_sum_zero
  intro x hx
  obtain ⟨i, hi, rfl⟩ := List.getElem_of_mem hx
  have := h i
  rw [getElem!_pos a i (by simpa using hi)] at this
  simpa using this

/-- after the owner has joined every client nobody sleeps in threadpool_next -/
theorem Wk.no_sleeper {s : St} (h : Wk s) (ho : afterJoin s.opc = true) : S s = 0 := by
  apply sumA_zero
  intro c
  rcases h.over ho c with hx | hx <;> simp [asleepN, hx]


theorem wk_stepClient {s s' : St} {c : Nat} (h : Wk s) (hs : stepClient s c = some s') : Wk s' := by
  unfold stepClient at hs
  split at hs
  case isFalse => simp at hs
  rename_i hc
  dsimp only at hs
  have hR := ready_le_R s c hc
  have hS := asleep_le_S s c hc
  split at hs
  · simp at hs
  · rename_i hp
    injection hs with hs; subst hs
    refine wk_client _ hc ⟨rfl, rfl, rfl⟩ h (by simp [hp]) (by simp [hp]) (by simp) (fun S' e hpos => ?_)
    have := h.match_
    simp only [ready, asleepN, hp] at e hR hS ⊢; simp at e hR hS ⊢; omega
  · rename_i hp
    injection hs with hs; subst hs
    refine wk_client _ hc ⟨rfl, rfl, rfl⟩ h (by simp [hp]) (by simp [hp]) (by simp) (fun S' e hpos => ?_)
    have := h.match_
    simp only [ready, asleepN, hp] at e hR hS ⊢; simp at e hR hS ⊢
    split <;> omega
  · simp at hs
  · rename_i hp
    split at hs
    · rename_i hj
      injection hs with hs; subst hs
      refine wk_client _ hc ⟨rfl, rfl, rfl⟩ h (by simp [hp]) (by simp [hp]) (by simp) (fun S' e hpos => ?_)
      have := h.match_
      have hnl : ¬ s.cl[c]!.nextJob < s.njobs := by omega
      simp only [ready, asleepN, hp, hnl] at e hR hS ⊢; simp at e hR hS ⊢; omega
    · rename_i hj
      have hlt : s.cl[c]!.nextJob < s.njobs := by omega
      split at hs
      · rename_i t rest hi
        injection hs with hs; subst hs
        refine wk_client _ hc ⟨rfl, rfl, rfl⟩ h (by simp [hp]) (by simp [hp]) (by simp) (fun S' e hpos => ?_)
        have := h.match_
        simp only [ready, asleepN, hp, hlt] at e hR hS ⊢; simp at e hR hS ⊢
        rw [hi] at this; simp at this; omega
      · rename_i hi
        split at hs
        · injection hs with hs; subst hs
          refine wk_client _ hc ⟨rfl, rfl, rfl⟩ h (by simp [hp]) (by simp [hp]) (fun _ => hlt) (fun S' e hpos => ?_)
          simp only [ready, asleepN, hp, hlt] at e hR hS ⊢; simp at e hR hS ⊢
          rw [hi]; simp; omega
        · injection hs with hs; subst hs
          refine wk_client _ hc ⟨rfl, rfl, rfl⟩ h (by simp [hp]) (by simp [hp]) (by simp) (fun S' e hpos => ?_)
          simp only [ready, asleepN, hp, hlt] at e hR hS ⊢; simp at e hR hS ⊢
          show s.idle.length + 1 ≤ R s
          rw [hi]; simp; omega
  · rename_i hp
    injection hs with hs; subst hs
    refine wk_client _ hc ⟨rfl, rfl, rfl⟩ h (by simp [hp]) (by simp [hp]) (by simp) (fun S' e hpos => ?_)
    have := h.match_
    simp only [ready, asleepN, hp] at e hR hS ⊢; simp at e hR hS ⊢; omega
  · rename_i t hp
    injection hs with hs; subst hs
    apply wk_signalThr
    refine wk_client _ hc ⟨rfl, rfl, rfl⟩ h (by simp [hp]) (by simp [hp]) (by simp) (fun S' e hpos => ?_)
    have := h.match_
    simp only [ready, asleepN, hp] at e hR hS ⊢; simp at e hR hS ⊢; omega
  · rename_i t hp
    injection hs with hs; subst hs
    have hX : Wk (setCl s c fun cl =>
        { cl with nthreads := cl.nthreads + 1, queue := if s.ordered then cl.queue ++ [t] else cl.queue,
                  pc := .next false, nextJob := cl.nextJob + 1 }) := by
      refine wk_client _ hc ⟨rfl, rfl, rfl⟩ h (by simp [hp]) (by simp [hp]) (by simp) (fun S' e hpos => ?_)
      have := h.match_
      simp only [ready, asleepN, hp] at e hR hS ⊢; simp at e hR hS ⊢
      split <;> omega
    by_cases ho : s.ordered = true
    · simp only [setCl_ordered, ho, if_true] at hX ⊢
      exact wk_signalRq c hX
    · simp only [setCl_ordered, ho, if_false] at hX ⊢
      exact hX
  · rename_i hp
    injection hs with hs; subst hs
    apply wk_signalRq
    refine wk_client _ hc ⟨rfl, rfl, rfl⟩ h (by simp [hp]) (by simp [hp]) (by simp) (fun S' e hpos => ?_)
    have := h.match_
    simp only [ready, asleepN, hp] at e hR hS ⊢; simp at e hR hS ⊢; omega
  · rename_i hp
    split at hs
    · injection hs with hs; subst hs
      refine wk_client _ hc ⟨rfl, rfl, rfl⟩ h (by simp [hp]) (by simp [hp]) (by simp) (fun S' e hpos => ?_)
      have := h.match_
      simp only [ready, asleepN, hp] at e hR hS ⊢; simp at e hR hS ⊢; omega
    · simp at hs
  · simp at hs


theorem wk_stepOwner {s s' : St} (h : Wk s) (hs : stepOwner s = some s') : Wk s' := by
  unfold stepOwner at hs
  split at hs
  · -- spawn: the client record is still the initial one, so nothing is counted for it before or after
    rename_i i ho
    injection hs with hs; subst hs
    have hfr := h.fresh i i ho (Nat.le_refl _)
    have hRS : R (setCl s i fun _ => { pc := .start }) = R s ∧ S (setCl s i fun _ => { pc := .start }) = S s := by
      by_cases hi : i < s.cl.size
      · obtain ⟨r1, r2⟩ := RS_setCl s i (fun _ => { pc := .start }) hi
        simp only [ready, asleepN, hfr] at r1 r2
        simp at r1 r2
        exact ⟨r1, r2⟩
      · exact ⟨sumA_modify_oob _ _ _ _ hi, sumA_modify_oob _ _ _ _ hi⟩
    refine ⟨fun hpos => ?_, fun i' j hoo hij => ?_, fun c hp => ?_, fun i' c hoo hci => ?_, fun hoo => ?_⟩
    · have e1 : S ({ setCl s i (fun _ => { pc := .start }) with opc := if i + 1 < s.cl.size then .spawn (i + 1) else .joinC 0 }) = S s := hRS.2
      have e2 : R ({ setCl s i (fun _ => { pc := .start }) with opc := if i + 1 < s.cl.size then .spawn (i + 1) else .joinC 0 }) = R s := hRS.1
      rw [e1] at hpos; rw [e2]; exact h.match_ hpos
    · have hj : j = i + 1 := by
        have : (if i + 1 < s.cl.size then OPc.spawn (i + 1) else OPc.joinC 0) = .spawn j := hoo
        split at this
        · injection this with this; exact this.symm
        · cases this
      have := h.fresh i' i ho (by omega)
      show ((s.cl.modify i _)[i']!).pc = .idle
      rw [get_modify, if_neg (by omega)]; exact this
    · have hp' : ((s.cl.modify i fun _ => ({ pc := .start } : Client))[c]!).pc = .next true := hp
      rw [get_modify] at hp'
      show ((s.cl.modify i _)[c]!).nextJob < s.njobs
      rw [get_modify]
      split at hp'
      · simp at hp'
      · rename_i hh; rw [if_neg hh]; exact h.jobs c hp'
    · have : (if i + 1 < s.cl.size then OPc.spawn (i + 1) else OPc.joinC 0) = .joinC i' := hoo
      split at this
      · cases this
      · injection this with this; omega
    · have : afterJoin (if i + 1 < s.cl.size then OPc.spawn (i + 1) else OPc.joinC 0) = true := hoo
      split at this <;> simp [afterJoin] at this
  · rename_i i ho
    split at hs
    · rename_i hd
      injection hs with hs; subst hs
      have hdone : s.cl[i]!.pc = .done := by
        cases hx : s.cl[i]? with
        | none => simp [hx] at hd
        | some x => simp [hx] at hd; simp [getElem!_def, hx, hd]
      refine ⟨h.match_, fun i' j hoo _ => ?_, h.jobs, fun i' c hoo hci => ?_, fun hoo c => ?_⟩
      · have : (if i + 1 < s.cl.size then OPc.joinC (i + 1) else OPc.destroy false) = .spawn j := hoo
        split at this <;> cases this
      · have : (if i + 1 < s.cl.size then OPc.joinC (i + 1) else OPc.destroy false) = .joinC i' := hoo
        split at this
        · injection this with this
          by_cases hci' : c < i
          · exact h.joined i c ho hci'
          · have : c = i := by omega
            rw [this]; exact hdone
        · cases this
      · have hoo' : afterJoin (if i + 1 < s.cl.size then OPc.joinC (i + 1) else OPc.destroy false) = true := hoo
        split at hoo'
        · simp [afterJoin] at hoo'
        · rename_i hlast
          by_cases hcs : c < s.cl.size
          · left
            by_cases hci' : c < i
            · exact h.joined i c ho hci'
            · have : c = i := by omega
              rw [this]; exact hdone
          · right
            have : s.cl[c]! = default := by grind
            rw [this]; rfl
    · simp at hs
  · simp at hs
  · rename_i ho
    have hov := h.over (by simp [afterJoin, ho])
    split at hs
    · injection hs with hs; subst hs
      exact ⟨h.match_, (fun _ _ hoo _ => by cases hoo), h.jobs, (fun _ _ hoo _ => by cases hoo), fun _ => hov⟩
    · split at hs
      · injection hs with hs; subst hs
        exact ⟨h.match_, (fun _ _ hoo _ => by cases hoo), h.jobs, (fun _ _ hoo _ => by cases hoo), fun _ => hov⟩
      · rename_i t rest hi
        injection hs with hs; subst hs
        refine ⟨fun hpos => ?_, (fun _ _ hoo _ => by cases hoo), h.jobs, (fun _ _ hoo _ => by cases hoo), fun _ => hov⟩
        have := h.match_ hpos
        rw [hi] at this
        show rest.length ≤ R s
        simp at this; omega
  · rename_i t ho
    have hov := h.over (by simp [afterJoin, ho])
    injection hs with hs; subst hs
    apply wk_signalThr
    exact ⟨h.match_, (fun _ _ hoo _ => by cases hoo), h.jobs, (fun _ _ hoo _ => by cases hoo), fun _ => hov⟩
  · rename_i t ho
    have hov := h.over (by simp [afterJoin, ho])
    split at hs
    · injection hs with hs; subst hs
      exact ⟨h.match_, (fun _ _ hoo _ => by cases hoo), h.jobs, (fun _ _ hoo _ => by cases hoo), fun _ => hov⟩
    · simp at hs
  · simp at hs

theorem wk_stepWorker {s s' : St} {t : Nat} (h : Wk s) (hs : stepWorker s t = some s') : Wk s' := by
  unfold stepWorker at hs
  split at hs
  case isFalse => simp at hs
  dsimp only at hs
  split at hs
  · simp at hs
  · split at hs <;> (injection hs with hs; subst hs; exact wk_thr _ h)
  · split at hs
    · injection hs with hs; subst hs; exact wk_thr _ h
    · split at hs <;> (injection hs with hs; subst hs; exact wk_thr _ h)
  · rename_i c hp
    injection hs with hs; subst hs
    apply wk_signalRq
    exact wk_setCl_same c _ (wk_thr _ h) (fun _ => ⟨rfl, rfl⟩)
  · injection hs with hs; subst hs
    exact wk_signalThr _ (wk_thr _ h)
  · simp at hs


/-- pthread_cond_signal(&pool->c) after a push: a sleeper (if any) is moved to the loop head, where it counts as ready -/
theorem wk_push_signal {s X : St} (t k : Nat) (h : Wk s) (hi : X.idle = t :: s.idle) (ho : X.opc = s.opc)
    (hn : X.njobs = s.njobs) (hRS : R X = R s ∧ S X = S s)
    (hcl : ∀ c : Nat, X.cl[c]!.pc = s.cl[c]!.pc ∧ X.cl[c]!.nextJob = s.cl[c]!.nextJob) (hsz : X.cl.size = s.cl.size) :
    Wk (signalPool X k) := by
  unfold signalPool
  split
  · -- the owner sleeps in threadpool_destroy: every client has been joined, nobody sleeps in threadpool_next
    rename_i hox
    have hos : afterJoin s.opc = true := by rw [← ho, hox]; rfl
    have hS0 := h.no_sleeper hos
    have hov := h.over hos
    refine ⟨fun hpos => ?_, (fun _ _ hoo _ => by cases hoo), fun c hp => ?_, (fun _ _ hoo _ => by cases hoo), fun _ c => ?_⟩
    · have e1 : S { X with opc := .destroy false } = S X := rfl
      rw [e1, hRS.2, hS0] at hpos; cases hpos
    · have hp' : X.cl[c]!.pc = .next true := hp
      rw [(hcl c).1] at hp'
      show X.cl[c]!.nextJob < X.njobs
      rw [(hcl c).2, hn]; exact h.jobs c hp'
    · show X.cl[c]!.pc = .done ∨ X.cl[c]!.pc = .idle
      rw [(hcl c).1]; exact hov c
  · dsimp only
    split
    · -- nobody sleeps
      rename_i hne
      have hS0 : S X = 0 := by
        apply sumA_zero
        intro c
        by_cases hc : c < X.cl.size
        · simp only [asleepN]
          split
          · rename_i hp
            exfalso
            have : c ∈ poolSleepers X := by
              simp only [poolSleepers, List.mem_filter, List.mem_range, beq_iff_eq]
              exact ⟨hc, hp⟩
            have hem : poolSleepers X = [] := by simpa using hne
            rw [hem] at this; cases this
          · rfl
        · have : X.cl[c]! = default := by grind
          rw [this]; exact asleepN_default
      refine ⟨fun hpos => (by rw [hS0] at hpos; cases hpos), fun i j hoo hij => ?_, fun c hp => ?_, fun i c hoo hci => ?_,
        fun hoo c => ?_⟩
      · rw [(hcl i).1]; exact h.fresh i j (by rw [← ho]; exact hoo) hij
      · rw [(hcl c).1] at hp; rw [(hcl c).2, hn]; exact h.jobs c hp
      · rw [(hcl c).1]; exact h.joined i c (by rw [← ho]; exact hoo) hci
      · rw [(hcl c).1]; exact h.over (by rw [← ho]; exact hoo) c
    · rename_i hne
      have hp := poolSleepers_spec X _ (poolSleepers_pick X k hne)
      have hmem := poolSleepers_pick X k hne
      generalize (poolSleepers X)[k % (poolSleepers X).length]! = c at hp hmem ⊢
      have hc : c < X.cl.size := by
        simp only [poolSleepers, List.mem_filter, List.mem_range] at hmem; exact hmem.1
      have hps : s.cl[c]!.pc = .next true := by rw [← (hcl c).1]; exact hp
      have hjob := h.jobs c hps
      obtain ⟨r1, r2⟩ := RS_setCl X c (fun cl => { cl with pc := .next false }) hc
      have hjobX : X.cl[c]!.nextJob < X.njobs := by rw [(hcl c).2, hn]; exact hjob
      simp only [ready, asleepN, hp, hjobX] at r1 r2
      simp at r1 r2
      refine ⟨fun hpos => ?_, fun i j hoo hij => ?_, fun c' hp' => ?_, fun i c' hoo hci => ?_, fun hoo c' => ?_⟩
      · -- a sleeper existed before the push, so the old match applies; one more idle thread, one more ready caller
        have hSs : 0 < S s := by rw [← hRS.2]; omega
        have := h.match_ hSs
        show X.idle.length ≤ R (setCl X c _)
        rw [hi]; simp; omega
      · have hfr := h.fresh i j (by rw [← ho]; exact hoo) hij
        rw [cl_get_setCl]; split
        · rename_i hh; rw [hh.1, hps] at hfr; cases hfr
        · rw [(hcl i).1]; exact hfr
      · rw [cl_get_setCl] at hp' ⊢
        show _ < X.njobs
        split at hp'
        · simp at hp'
        · rename_i hh; rw [if_neg hh, (hcl c').2, hn]; rw [(hcl c').1] at hp'; exact h.jobs c' hp'
      · have hj := h.joined i c' (by rw [← ho]; exact hoo) hci
        rw [cl_get_setCl]; split
        · rename_i hh; rw [hh.1, hps] at hj; cases hj
        · rw [(hcl c').1]; exact hj
      · rcases h.over (by rw [← ho]; exact hoo) c with hx | hx <;> (rw [hps] at hx; cases hx)

theorem wk_stepHandler {s s' : St} {c k : Nat} (h : Wk s) (hs : stepHandler s c k = some s') : Wk s' := by
  unfold stepHandler at hs
  split at hs
  case isFalse => simp at hs
  rename_i hc
  dsimp only at hs
  split at hs
  · simp at hs
  split at hs
  · simp at hs
  · split at hs
    · injection hs with hs; subst hs
      exact wk_setCl_same c _ h (fun _ => ⟨rfl, rfl⟩)
    · split at hs <;> (injection hs with hs; subst hs; exact wk_setCl_same c _ h (fun _ => ⟨rfl, rfl⟩))
  · simp at hs
  · split at hs <;> (injection hs with hs; subst hs)
    · exact wk_setCl_same c _ h (fun _ => ⟨rfl, rfl⟩)
    · exact wk_setCl_same c _ (wk_thr _ h) (fun _ => ⟨rfl, rfl⟩)
  · rename_i t r hp
    injection hs with hs; subst hs
    refine wk_push_signal (X := setCl { s with idle := t :: s.idle } c fun cl => { cl with hpc := .callback r })
      t k h rfl rfl rfl ?_ ?_ ?_
    · exact RS_setCl_same { s with idle := t :: s.idle } c _ ⟨rfl, rfl⟩
    · intro c'
      rw [cl_get_setCl]; split
      · rename_i hh; rw [hh.1]; exact ⟨rfl, rfl⟩
      · exact ⟨rfl, rfl⟩
    · simp
  · injection hs with hs; subst hs
    exact wk_setCl_same c _ h (fun _ => ⟨rfl, rfl⟩)
  · simp at hs

theorem wk_spurious {s s' : St} {w : Who} (h : Wk s) (hs : step s (.spurious w) = some s') : Wk s' := by
  cases w with
  | owner =>
    simp only [step] at hs
    split at hs
    · rename_i ho
      injection hs with hs; subst hs
      have hov := h.over (by simp [afterJoin, ho])
      exact ⟨h.match_, (fun _ _ hoo _ => by cases hoo), h.jobs, (fun _ _ hoo _ => by cases hoo), fun _ => hov⟩
    · simp at hs
  | client c =>
    simp only [step] at hs
    split at hs
    · rename_i hp
      injection hs with hs; subst hs
      have hp' : s.cl[c]!.pc = .next true := by
        cases hx : s.cl[c]? with
        | none => simp [hx] at hp
        | some x => simp [hx] at hp; simp [getElem!_def, hx, hp]
      have hc : c < s.cl.size := by
        apply Classical.byContradiction; intro hn
        have : s.cl[c]! = default := by grind
        rw [this] at hp'; cases hp'
      have hjob := h.jobs c hp'
      have hR := ready_le_R s c hc
      have hS := asleep_le_S s c hc
      refine wk_client _ hc ⟨rfl, rfl, rfl⟩ h (by simp [hp']) (by simp [hp']) (by simp) (fun S' e hpos => ?_)
      have := h.match_
      simp only [ready, asleepN, hp', hjob] at e hR hS ⊢; simp at e hR hS ⊢; omega
    · simp at hs
  | handler c =>
    simp only [step] at hs
    split at hs
    · injection hs with hs; subst hs
      exact wk_setCl_same c _ h (fun _ => ⟨rfl, rfl⟩)
    · injection hs with hs; subst hs
      exact wk_setCl_same c _ h (fun _ => ⟨rfl, rfl⟩)
    · simp at hs
  | worker t =>
    simp only [step] at hs
    split at hs
    · injection hs with hs; subst hs; exact wk_thr _ h
    · simp at hs

theorem wk_init (n max njobs : Nat) (o : Bool) : Wk (init n max njobs o) := by
  have hcl : ∀ c : Nat, (init n max njobs o).cl[c]!.pc = .idle := by
    intro c
    by_cases hc : c < n
    · simp [init, hc]
    · simp [init, hc]; rfl
  have hS : S (init n max njobs o) = 0 := sumA_zero _ _ (fun c => by simp [asleepN, hcl c])
  exact ⟨fun hpos => (by rw [hS] at hpos; cases hpos), fun i _ _ _ => hcl i, fun c hp => (by rw [hcl c] at hp; cases hp),
    (fun _ _ hoo _ => by cases hoo), fun hoo => (by simp [init, afterJoin] at hoo)⟩

theorem wk_reachable {n max njobs : Nat} {o : Bool} {s : St} (hr : Reachable n max njobs o s) : Wk s := by
  induction hr with
  | init => exact wk_init _ _ _ _
  | @step s1 s2 l hr' hs ih =>
    cases l with
    | spurious w => exact wk_spurious ih hs
    | run w k =>
      cases w with
      | owner => exact wk_stepOwner ih hs
      | client c => exact wk_stepClient ih hs
      | handler c => exact wk_stepHandler ih hs
      | worker t => exact wk_stepWorker ih hs

/-- NO LOST WAKE-UP, any number of clients: while some caller sleeps in threadpool_next, the idle worker threads are no more
    than the callers standing at the loop head of threadpool_next with a job still to dispatch; in particular an idle thread
    next to a sleeper always comes with a caller that is awake and about to take it -/
theorem no_lost_wakeup {n max njobs : Nat} {o : Bool} {s : St} (hr : Reachable n max njobs o s)
    (hsl : ∃ c : Nat, s.cl[c]!.pc = .next true) :
    s.idle.length ≤ R s ∧ (s.idle ≠ [] → ∃ c : Nat, s.cl[c]!.pc = .next false ∧ s.cl[c]!.nextJob < s.njobs) := by
  have h := wk_reachable hr
  obtain ⟨c, hp⟩ := hsl
  have hc : c < s.cl.size := by
    apply Classical.byContradiction; intro hn
    have : s.cl[c]! = default := by grind
    rw [this] at hp; cases hp
  have hS : 0 < S s := by
    have := asleep_le_S s c hc
    simp [asleepN, hp] at this; exact this
  have hm := h.match_ hS
  refine ⟨hm, fun hne => ?_⟩
  have hlen : 0 < s.idle.length := List.length_pos_iff.mpr hne
  have hR : 0 < R s := by omega
  apply Classical.byContradiction; intro hno
  have : R s = 0 := by
    apply sumA_zero
    intro c'
    simp only [ready]
    split
    · rename_i hh; exact absurd ⟨c', hh⟩ hno
    · rfl
  omega

end TpK
