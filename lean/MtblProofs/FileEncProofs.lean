import MtblModel.Format
import MtblModel.Reader
import MtblProofs.TableDefs
import MtblProofs.BlockEncProofs
import MtblProofs.VarintProofs
import MtblProofs.OrderProofs
import MtblProofs.CrcProofs
import MtblProofs.OpenProofs
/-
  C11, first half ("R — every well-formed file is readable"):
  for every legal choice of encoding (`EFile.legal`), opening the encoded bytes with the reader model
  succeeds, and the opened reader satisfies `TableOK` for a table view whose entries are exactly the
  encoded entries.
-/
namespace Mtbl

namespace FileEnc

/-! ### A. the trailer -/

/-- the 512 trailer bytes with an arbitrary magic number -/
def mkTrailer (m : Meta) (magic : Nat) : Bytes :=
  let body := m.fields.flatMap fixed64
  body ++ List.replicate (METADATA_SIZE - body.length - 4) (0 : UInt8) ++ fixed32 magic

theorem write_eq (m : Meta) : Meta.write m = mkTrailer m MAGIC_V2 := rfl

theorem flatMap_fixed64_length (xs : List Nat) : (xs.flatMap fixed64).length = 8 * xs.length := by
  induction xs with
  | nil => rfl
  | cons x xs ih =>
    rw [List.flatMap_cons, List.length_append, ih, fixed64_length, List.length_cons]; omega

theorem fields_length (m : Meta) : m.fields.length = 9 := rfl

theorem mkTrailer_length (m : Meta) (magic : Nat) : (mkTrailer m magic).length = 512 := by
  unfold mkTrailer
  simp only [List.length_append, List.length_replicate, flatMap_fixed64_length, fields_length,
    fixed32_length, METADATA_SIZE]

theorem fixed64_mod (v : Nat) : fixed64 (v % 2^64) = fixed64 v := by
  unfold fixed64
  have e1 : v % 2^64 % 4294967296 = v % 4294967296 := by omega
  have e2 : v % 2^64 / 4294967296 % 4294967296 = v / 4294967296 % 4294967296 := by omega
  rw [e1, e2]

/-- decoding a `fixed64` word gives the value truncated to 64 bits -/
theorem dec64_fixed64_mod (v : Nat) (r : Bytes) : dec64 (fixed64 v ++ r) = v % 2^64 := by
  rw [← fixed64_mod, dec64_fixed64 (Nat.mod_lt _ (by decide))]

/-- the `i`-th 64-bit word of a sequence of `fixed64` words -/
theorem dec64_flatMap (xs : List Nat) (r : Bytes) :
    ∀ (i : Nat) (hi : i < xs.length), dec64 ((xs.flatMap fixed64 ++ r).drop (8 * i)) = xs[i] % 2^64 := by
  induction xs with
  | nil => intro i hi; cases hi
  | cons x xs ih =>
    intro i hi
    rw [List.flatMap_cons, List.append_assoc]
    cases i with
    | zero =>
      rw [Nat.mul_zero, List.drop_zero, dec64_fixed64_mod]
      rfl
    | succ i =>
      have e : 8 * (i + 1) = 8 + 8 * i := by omega
      rw [e, ← List.drop_drop, List.drop_left' (fixed64_length x)]
      rw [ih i (by simpa using hi)]
      rfl

theorem magic_v1_lt : MAGIC_V1 < 2^32 := by decide
theorem magic_v2_lt : MAGIC_V2 < 2^32 := by decide

theorem mkTrailer_magic (m : Meta) (magic : Nat) (hm : magic < 2^32) :
    dec32 ((mkTrailer m magic).drop (METADATA_SIZE - 4)) = magic := by
  unfold mkTrailer
  have hl : (m.fields.flatMap fixed64 ++
      List.replicate (METADATA_SIZE - (m.fields.flatMap fixed64).length - 4) (0 : UInt8)).length
      = METADATA_SIZE - 4 := by
    simp only [List.length_append, List.length_replicate, flatMap_fixed64_length, fields_length,
      METADATA_SIZE]
  rw [List.drop_left' hl]
  have := dec32_fixed32 hm []
  rwa [List.append_nil] at this

theorem mkTrailer_field (m : Meta) (magic : Nat) (i : Nat)
    (hi : i < m.fields.length) : dec64 ((mkTrailer m magic).drop (8 * i)) = m.fields[i] % 2^64 := by
  unfold mkTrailer
  simp only [List.append_assoc]
  exact dec64_flatMap m.fields _ i hi

/-- the metadata with every field truncated to 64 bits (what survives a round trip through the trailer) -/
def trunc (m : Meta) : Meta :=
  { version := m.version,
    indexBlockOffset := m.indexBlockOffset % 2^64, dataBlockSize := m.dataBlockSize % 2^64,
    compression := m.compression % 2^64, countEntries := m.countEntries % 2^64,
    countDataBlocks := m.countDataBlocks % 2^64, bytesDataBlocks := m.bytesDataBlocks % 2^64,
    bytesIndexBlock := m.bytesIndexBlock % 2^64, bytesKeys := m.bytesKeys % 2^64,
    bytesValues := m.bytesValues % 2^64 }

theorem trunc_eq (m : Meta) (h : ∀ x ∈ m.fields, x < 2^64) : trunc m = m := by
  cases m
  simp only [Meta.fields, List.mem_cons, List.not_mem_nil, or_false, forall_eq_or_imp, forall_eq] at h
  obtain ⟨h0, h1, h2, h3, h4, h5, h6, h7, h8⟩ := h
  simp only [trunc, Nat.mod_eq_of_lt h0, Nat.mod_eq_of_lt h1, Nat.mod_eq_of_lt h2, Nat.mod_eq_of_lt h3,
    Nat.mod_eq_of_lt h4, Nat.mod_eq_of_lt h5, Nat.mod_eq_of_lt h6, Nat.mod_eq_of_lt h7, Nat.mod_eq_of_lt h8]

/-- reading back a trailer (no size assumptions): the nine fields truncated to 64 bits, and the
    version selected by the magic -/
theorem read_mkTrailer_trunc (m : Meta) (magic : Nat) (ver : Version)
    (hv : (magic = MAGIC_V1 ∧ ver = .v1) ∨ (magic = MAGIC_V2 ∧ ver = .v2)) :
    Meta.read (mkTrailer m magic) = some { trunc m with version := ver } := by
  have hm : magic < 2^32 := by
    rcases hv with ⟨rfl, _⟩ | ⟨rfl, _⟩
    · exact magic_v1_lt
    · exact magic_v2_lt
  have f0 := mkTrailer_field m magic 0 (by rw [fields_length]; omega)
  have f1 := mkTrailer_field m magic 1 (by rw [fields_length]; omega)
  have f2 := mkTrailer_field m magic 2 (by rw [fields_length]; omega)
  have f3 := mkTrailer_field m magic 3 (by rw [fields_length]; omega)
  have f4 := mkTrailer_field m magic 4 (by rw [fields_length]; omega)
  have f5 := mkTrailer_field m magic 5 (by rw [fields_length]; omega)
  have f6 := mkTrailer_field m magic 6 (by rw [fields_length]; omega)
  have f7 := mkTrailer_field m magic 7 (by rw [fields_length]; omega)
  have f8 := mkTrailer_field m magic 8 (by rw [fields_length]; omega)
  simp only [Nat.mul_zero, List.drop_zero, Nat.mul_one, Nat.reduceMul] at f0 f1 f2 f3 f4 f5 f6 f7 f8
  unfold Meta.read
  simp only [mkTrailer_magic m magic hm, f0, f1, f2, f3, f4, f5, f6, f7, f8]
  rcases hv with ⟨rfl, rfl⟩ | ⟨rfl, rfl⟩
  · simp [Meta.fields, trunc]
  · have : MAGIC_V2 ≠ MAGIC_V1 := by decide
    simp [Meta.fields, trunc, this]

/-- reading back a trailer whose fields fit in 64 bits -/
theorem read_mkTrailer (m : Meta) (h : ∀ x ∈ m.fields, x < 2^64) (magic : Nat) (ver : Version)
    (hv : (magic = MAGIC_V1 ∧ ver = .v1) ∨ (magic = MAGIC_V2 ∧ ver = .v2)) :
    Meta.read (mkTrailer m magic) = some { m with version := ver } := by
  rw [read_mkTrailer_trunc m magic ver hv, trunc_eq m h]

end FileEnc

open FileEnc in
/-- metadata_read inverts metadata_write (which always writes the v2 magic) -/
theorem Meta.read_write (m : Meta) (h : ∀ x ∈ m.fields, x < 2^64) :
    Meta.read (Meta.write m) = some { m with version := .v2 } := by
  rw [write_eq]
  exact read_mkTrailer m h MAGIC_V2 .v2 (Or.inr ⟨rfl, rfl⟩)

open FileEnc in
/-- the same trailer with the v1 magic (as `EFile.encode` writes it for a v1 file) reads back as v1 -/
theorem Meta.read_trailer_v1 (m : Meta) (h : ∀ x ∈ m.fields, x < 2^64) :
    Meta.read (mkTrailer m MAGIC_V1) = some { m with version := .v1 } :=
  read_mkTrailer m h MAGIC_V1 .v1 (Or.inl ⟨rfl, rfl⟩)

open FileEnc in
theorem Meta.write_length (m : Meta) : (Meta.write m).length = 512 := by
  rw [write_eq]; exact mkTrailer_length m MAGIC_V2

/-! ### B. structure of the encoded file -/

/-- the reader's version tag for an encoder version -/
def FVersion.toV : FVersion → Version
  | .v1 => .v1
  | .v2 => .v2

namespace FileEnc

/-- bytes of data block `b` as stored in the file (compressed unless `compression = 0`) -/
def stored (f : EFile) (comp : Bytes → Bytes) (b : EBlock) : Bytes :=
  if f.compression = 0 then b.encode f.thr else comp (b.encode f.thr)

/-- all data frames, concatenated -/
def fdata (f : EFile) (comp : Bytes → Bytes) : Bytes := (f.dataFrames comp).flatMap id

/-- the frame of the index block (never compressed) -/
def idxFrame (f : EFile) (comp : Bytes → Bytes) : Bytes :=
  eframe f.version ((f.indexBlock comp).encode f.thr)

/-- the metadata `EFile.encode` stores in the trailer -/
def fmeta (f : EFile) (comp : Bytes → Bytes) : Meta :=
  { version := f.version.toV,
    indexBlockOffset := f.pre.length + (fdata f comp).length, dataBlockSize := f.blockSizeField,
    compression := f.compression, countEntries := (f.blocks.flatMap (·.entries)).length,
    countDataBlocks := f.blocks.length, bytesDataBlocks := (fdata f comp).length,
    bytesIndexBlock := (idxFrame f comp).length,
    bytesKeys := ((f.blocks.flatMap (·.entries)).map (·.key.length)).sum,
    bytesValues := ((f.blocks.flatMap (·.entries)).map (·.val.length)).sum }

def fmagic (f : EFile) : Nat := match f.version with | .v1 => MAGIC_V1 | .v2 => MAGIC_V2

/-- the 512 trailer bytes of the encoded file -/
def trailer (f : EFile) (comp : Bytes → Bytes) : Bytes := mkTrailer (fmeta f comp) (fmagic f)

/-- the index offset stored in the trailer -/
def indexOff (f : EFile) (comp : Bytes → Bytes) : Nat := f.pre.length + (fdata f comp).length

/-- file offsets of the data frames -/
def offs (f : EFile) (comp : Bytes → Bytes) : List Nat := frameOffsets f.pre.length (f.dataFrames comp)

theorem dataFrames_eq (f : EFile) (comp : Bytes → Bytes) :
    f.dataFrames comp = f.blocks.map fun b => eframe f.version (stored f comp b) := rfl

theorem encode_eq (f : EFile) (comp : Bytes → Bytes) :
    f.encode comp = f.pre ++ fdata f comp ++ idxFrame f comp ++ trailer f comp := rfl

theorem trailer_length (f : EFile) (comp : Bytes → Bytes) : (trailer f comp).length = 512 :=
  mkTrailer_length _ _

theorem encode_length (f : EFile) (comp : Bytes → Bytes) :
    (f.encode comp).length = indexOff f comp + (idxFrame f comp).length + 512 := by
  rw [encode_eq]
  simp only [List.length_append, trailer_length, indexOff]

theorem encode_drop_index (f : EFile) (comp : Bytes → Bytes) :
    (f.encode comp).drop (indexOff f comp) = idxFrame f comp ++ trailer f comp := by
  rw [encode_eq, List.append_assoc]
  exact List.drop_left' (by simp only [List.length_append, indexOff])

theorem encode_drop_trailer (f : EFile) (comp : Bytes → Bytes) :
    (f.encode comp).drop ((f.encode comp).length - 512) = trailer f comp := by
  have h : (f.encode comp).length - 512 = (f.pre ++ fdata f comp ++ idxFrame f comp).length := by
    rw [encode_length]; simp only [List.length_append, indexOff]; omega
  rw [h, encode_eq]
  exact List.drop_left

theorem frameOffsets_length (frs : List Bytes) : ∀ s, (frameOffsets s frs).length = frs.length := by
  induction frs with
  | nil => intro s; rfl
  | cons fr frs ih => intro s; simp only [frameOffsets, List.length_cons, ih]

/-- `frameOffsets` really are the running sums of the frame lengths -/
theorem frameOffsets_getElem? (frs : List Bytes) : ∀ (s j : Nat), j < frs.length →
    (frameOffsets s frs)[j]? = some (s + ((frs.take j).flatMap id).length) := by
  induction frs with
  | nil => intro s j hj; cases hj
  | cons fr frs ih =>
    intro s j hj
    cases j with
    | zero => simp [frameOffsets]
    | succ j =>
      simp only [frameOffsets, List.getElem?_cons_succ, List.take_succ_cons, List.flatMap_cons,
        List.length_append, id]
      rw [ih (s + fr.length) j (by simpa using hj)]
      simp only [Nat.add_assoc]

theorem flatMap_split (frs : List Bytes) : ∀ (j : Nat) (fr : Bytes), frs[j]? = some fr →
    frs.flatMap id = (frs.take j).flatMap id ++ fr ++ (frs.drop (j + 1)).flatMap id := by
  induction frs with
  | nil => intro j fr h; simp at h
  | cons a frs ih =>
    intro j fr h
    cases j with
    | zero =>
      simp only [List.getElem?_cons_zero, Option.some.injEq] at h
      subst h
      simp
    | succ j =>
      simp only [List.getElem?_cons_succ] at h
      simp only [List.take_succ_cons, List.flatMap_cons, List.drop_succ_cons, id, List.append_assoc]
      rw [ih j fr h]
      simp only [List.append_assoc]

/-- the offset computed by `frameOffsets` for frame `j` is where frame `j` starts in the file -/
theorem encode_drop_frame (f : EFile) (comp : Bytes → Bytes) (j : Nat) (fr : Bytes) (off : Nat)
    (hfr : (f.dataFrames comp)[j]? = some fr) (hoff : (offs f comp)[j]? = some off) :
    ∃ rest, (f.encode comp).drop off = fr ++ rest ∧ off + fr.length ≤ indexOff f comp := by
  have hj : j < (f.dataFrames comp).length := BlockEnc.lt_of_getElem? _ _ _ hfr
  have ho := frameOffsets_getElem? (f.dataFrames comp) f.pre.length j hj
  unfold offs at hoff
  rw [ho] at hoff
  have hoff := Option.some.inj hoff
  have hs := flatMap_split (f.dataFrames comp) j fr hfr
  refine ⟨((f.dataFrames comp).drop (j + 1)).flatMap id ++ idxFrame f comp ++ trailer f comp, ?_, ?_⟩
  · rw [encode_eq]
    unfold fdata
    rw [hs]
    have e : f.pre ++ (((f.dataFrames comp).take j).flatMap id ++ fr ++
          ((f.dataFrames comp).drop (j + 1)).flatMap id) ++ idxFrame f comp ++ trailer f comp
        = (f.pre ++ ((f.dataFrames comp).take j).flatMap id) ++
          (fr ++ (((f.dataFrames comp).drop (j + 1)).flatMap id ++ idxFrame f comp ++ trailer f comp)) := by
      simp only [List.append_assoc]
    rw [e]
    exact List.drop_left' (by rw [List.length_append]; exact hoff)
  · unfold indexOff fdata
    rw [hs]
    simp only [List.length_append]
    omega

/-! ### C. one frame, as the reader parses it -/

def lenPrefix (ver : FVersion) (n : Nat) : Bytes := match ver with | .v1 => fixed32 n | .v2 => venc n
def prefixLen (ver : FVersion) (n : Nat) : Nat := match ver with | .v1 => 4 | .v2 => vlen n

theorem eframe_eq (ver : FVersion) (s : Bytes) :
    eframe ver s = lenPrefix ver s.length ++ (fixed32 (crc32c s) ++ s) := by
  unfold eframe lenPrefix
  rw [List.append_assoc]
  cases ver <;> rfl

theorem lenPrefix_length (ver : FVersion) (n : Nat) : (lenPrefix ver n).length = prefixLen ver n := by
  cases ver
  · rfl
  · exact venc_length n

theorem prefixLen_pos (ver : FVersion) (n : Nat) : 0 < prefixLen ver n := by
  cases ver
  · show 0 < 4; omega
  · exact vlen_pos n

theorem eframe_length (ver : FVersion) (s : Bytes) :
    (eframe ver s).length = prefixLen ver s.length + 4 + s.length := by
  rw [eframe_eq]
  simp only [List.length_append, lenPrefix_length, fixed32_length]
  omega

theorem crc32c_lt (d : Bytes) : crc32c d < 2^32 := by
  unfold crc32c crcRaw
  exact Nat.xor_lt_two_pow (CrcP.foldl_crcByte_lt d (by decide)) (by decide)

/-- everything the reader computes from the bytes of one frame found at offset `off` -/
theorem frame_parse (file : Bytes) (off : Nat) (ver : FVersion) (s rest : Bytes)
    (h : file.drop off = eframe ver s ++ rest)
    (h64 : s.length < 2^64) (h32 : ver = .v1 → s.length < 2^32) :
    off + prefixLen ver s.length + 4 + s.length + rest.length = file.length ∧
    (if ver.toV = .v1 then (dec32 (file.drop off), 4) else vdecode64 (file.drop off))
      = (s.length, prefixLen ver s.length) ∧
    rdAt file (off + prefixLen ver s.length + 4) s.length = some s ∧
    dec32 (file.drop (off + prefixLen ver s.length)) = crc32c s := by
  have hpos := prefixLen_pos ver s.length
  have hlen : off + prefixLen ver s.length + 4 + s.length + rest.length = file.length := by
    have := congrArg List.length h
    rw [List.length_drop, List.length_append, eframe_length] at this
    omega
  have hd1 : file.drop (off + prefixLen ver s.length) = fixed32 (crc32c s) ++ (s ++ rest) := by
    rw [← List.drop_drop, h, eframe_eq]
    simp only [List.append_assoc]
    exact List.drop_left' (lenPrefix_length ver s.length)
  have hd2 : file.drop (off + prefixLen ver s.length + 4) = s ++ rest := by
    rw [← List.drop_drop, hd1]
    exact List.drop_left' (fixed32_length _)
  refine ⟨hlen, ?_, ?_, ?_⟩
  · rw [h, eframe_eq, List.append_assoc]
    cases ver with
    | v1 =>
      rw [if_pos (show FVersion.v1.toV = Version.v1 from rfl)]
      show (dec32 (fixed32 s.length ++ _), 4) = (s.length, 4)
      rw [dec32_fixed32 (h32 rfl)]
    | v2 =>
      rw [if_neg (by simp [FVersion.toV])]
      show vdecode64 (venc s.length ++ _) = (s.length, vlen s.length)
      exact vdecode64_venc h64 _
  · unfold rdAt
    rw [if_pos (by omega), hd2, List.take_left]
  · rw [hd1, dec32_fixed32 (crc32c_lt s)]

/-- get_block on a frame: the length prefix, the bounds check and the (optional) CRC check all pass;
    what remains is decompression and `block_init` -/
theorem getBlock_frame (r : Rd) (off : Nat) (ver : FVersion) (s rest : Bytes)
    (h : r.data.drop off = eframe ver s ++ rest) (hver : r.m.version = ver.toV)
    (h64 : s.length < 2^64) (h32 : ver = .v1 → s.length < 2^32) :
    getBlock r off =
      match (if r.m.compression = 0 then some s else r.decomp r.m.compression s) with
      | none => none
      | some c => blockInit r.thr c := by
  obtain ⟨hlen, hpre, hrd, hcrc⟩ := frame_parse r.data off ver s rest h h64 h32
  have hpos := prefixLen_pos ver s.length
  rw [← hver] at hpre
  unfold getBlock
  rw [if_neg (by omega)]
  simp only [hpre, hrd, hcrc, ne_eq, not_true_eq_false, and_false, if_false]
  generalize (if r.m.compression = 0 then some s else r.decomp r.m.compression s) = o
  cases o <;> rfl

end FileEnc

open FileEnc in
/-- get_block at the offset of data block `j` of an encoded file yields `block_init` of the block's
    bytes — with or without checksum verification, compressed or not -/
theorem eframe_getBlock (f : EFile) (comp : Bytes → Bytes) (r : Rd) (j : Nat) (b : EBlock) (off : Nat)
    (hdata : r.data = f.encode comp) (hver : r.m.version = f.version.toV)
    (hcomp : r.m.compression = f.compression) (hthr : r.thr = f.thr)
    (hcodec : f.compression ≠ 0 → ∀ raw, r.decomp f.compression (comp raw) = some raw)
    (hb : f.blocks[j]? = some b) (hoff : (offs f comp)[j]? = some off)
    (h64 : (stored f comp b).length < 2^64)
    (h32 : f.version = .v1 → (stored f comp b).length < 2^32) :
    getBlock r off = blockInit f.thr (b.encode f.thr) := by
  have hfr : (f.dataFrames comp)[j]? = some (eframe f.version (stored f comp b)) := by
    rw [dataFrames_eq, List.getElem?_map, hb]; rfl
  obtain ⟨rest, hdrop, _⟩ := encode_drop_frame f comp j _ off hfr hoff
  rw [← hdata] at hdrop
  rw [getBlock_frame r off f.version _ rest hdrop hver h64 h32, hcomp, hthr]
  unfold stored
  by_cases hc : f.compression = 0
  · simp only [hc, if_true]
  · simp only [hc, if_false, hcodec hc]

/-! ### D. opening the encoded file -/

namespace FileEnc

/-- the metadata the reader holds after opening the encoded file -/
def rmeta (f : EFile) (comp : Bytes → Bytes) : Meta :=
  { trunc (fmeta f comp) with version := f.version.toV }

/-- the trailer of the encoded file reads back (fields truncated to 64 bits; no truncation when they fit) -/
theorem trailer_read (f : EFile) (comp : Bytes → Bytes) :
    Meta.read (trailer f comp) = some (rmeta f comp) := by
  unfold trailer rmeta
  apply read_mkTrailer_trunc
  unfold fmagic
  cases f.version
  · exact Or.inl ⟨rfl, rfl⟩
  · exact Or.inr ⟨rfl, rfl⟩

theorem rmeta_eq (f : EFile) (comp : Bytes → Bytes) (h : ∀ x ∈ (fmeta f comp).fields, x < 2^64) :
    rmeta f comp = fmeta f comp := by
  unfold rmeta
  rw [trunc_eq _ h]
  rfl

/-- bytes of the index block as stored -/
def idxStored (f : EFile) (comp : Bytes → Bytes) : Bytes := (f.indexBlock comp).encode f.thr

theorem idxFrame_eq (f : EFile) (comp : Bytes → Bytes) :
    idxFrame f comp = eframe f.version (idxStored f comp) := rfl

theorem openTail_ok (thr : Nat) (decomp : Nat → Bytes → Option Bytes) (verify : Bool) (file : Bytes)
    (m : Meta) (io ilen ill : Nat) (body : Bytes) (b : Blk)
    (hrd : rdAt file (io + ill + 4) ilen = some body)
    (hcrc : dec32 (file.drop (io + ill)) = crc32c body)
    (h8 : 8 ≤ ilen) (hb : blockInit thr body = some b) :
    OpenProofs.openTail thr decomp verify file m io ilen ill =
      .ok { data := file, m, verify, thr, decomp, index := b } := by
  have h4 : ¬ ilen < 4 := by omega
  have h8' : ¬ ilen < 8 := by omega
  unfold OpenProofs.openTail
  simp only [hrd, hcrc, if_true, ite_self, h4, h8', if_false, hb]

theorem take10 (v : Nat) (hv : v < 2^64) (rest : Bytes) :
    vdecode64 ((venc v ++ rest).take 10) = (v, vlen v) := by
  rw [List.take_append, List.take_of_length_le (by rw [venc_length]; exact vlen_le10 hv)]
  exact vdecode64_venc hv _

/-- `mtbl_reader_init` on the encoded file, given that `block_init` accepts the index block -/
theorem open_index (f : EFile) (comp : Bytes → Bytes) (decomp : Nat → Bytes → Option Bytes)
    (verify : Bool) (hsize : (f.encode comp).length < 2^64)
    (h8 : 8 ≤ (idxStored f comp).length)
    (h32 : f.version = .v1 → (idxStored f comp).length < 2^32)
    (b : Blk) (hb : blockInit f.thr (idxStored f comp) = some b) :
    readerOpen true f.thr decomp verify (f.encode comp) =
      .ok { data := f.encode comp, m := rmeta f comp, verify, thr := f.thr, decomp, index := b } := by
  have p64 : (2:Nat)^64 = 18446744073709551616 := by decide
  have hlen := encode_length f comp
  have hfl := eframe_length f.version (idxStored f comp)
  rw [← idxFrame_eq] at hfl
  have hdropT : (f.encode comp).drop ((f.encode comp).length - METADATA_SIZE) = trailer f comp :=
    encode_drop_trailer f comp
  have hio : (rmeta f comp).indexBlockOffset = indexOff f comp := by
    show (f.pre.length + (fdata f comp).length) % 2^64 = indexOff f comp
    unfold indexOff at hlen ⊢
    exact Nat.mod_eq_of_lt (by omega)
  have hv : (rmeta f comp).version = f.version.toV := rfl
  have hdropI := encode_drop_index f comp
  rw [idxFrame_eq] at hdropI
  have h64 : (idxStored f comp).length < 2^64 := by omega
  obtain ⟨_, hpre, hrd, hcrc⟩ :=
    frame_parse (f.encode comp) (indexOff f comp) f.version (idxStored f comp) (trailer f comp) hdropI h64 h32
  have hmin : (if f.version.toV = Version.v1 then 16 else 13) ≤ (idxFrame f comp).length := by
    rw [hfl]
    cases f.version
    · show 16 ≤ 4 + 4 + _; omega
    · have := vlen_pos (idxStored f comp).length
      show 13 ≤ vlen _ + 4 + _
      omega
  have hp : OpenProofs.openPrefix (f.encode comp) (rmeta f comp) =
      ((idxStored f comp).length, prefixLen f.version (idxStored f comp).length) := by
    unfold OpenProofs.openPrefix
    rw [hio, hv, hdropI]
    cases hver : f.version with
    | v1 =>
      rw [hver] at hpre hdropI
      rw [← hdropI]
      exact hpre
    | v2 =>
      rw [if_neg (by simp [FVersion.toV])]
      rw [eframe_eq, List.append_assoc]
      exact take10 _ h64 _
  rw [OpenProofs.readerOpen_eq]
  simp only [hdropT, trailer_read, hio, hv, hp]
  have hM : METADATA_SIZE = 512 := rfl
  have hU : U64 = 18446744073709551616 := rfl
  rw [if_neg (by omega)]
  have hend : (indexOff f comp + METADATA_SIZE + (if f.version.toV = Version.v1 then 16 else 13)) % U64
      = indexOff f comp + METADATA_SIZE + (if f.version.toV = Version.v1 then 16 else 13) := by
    apply Nat.mod_eq_of_lt
    omega
  rw [hend, if_neg (by omega), if_neg (by omega)]
  exact openTail_ok _ _ _ _ _ _ _ _ _ b hrd hcrc h8 hb


/-- **Structure of the encoded file** (all in one place): the four parts, the trailer is 512 bytes and
    reads back as `rmeta` whose index offset is the length of everything before the index frame, and
    the offsets computed by `frameOffsets` are where the frames really start. -/
theorem encode_structure (f : EFile) (comp : Bytes → Bytes) :
    f.encode comp = f.pre ++ fdata f comp ++ idxFrame f comp ++ trailer f comp ∧
    fdata f comp = (f.dataFrames comp).flatMap id ∧
    idxFrame f comp = eframe f.version ((f.indexBlock comp).encode f.thr) ∧
    (trailer f comp).length = 512 ∧
    (f.encode comp).length = f.pre.length + (fdata f comp).length + (idxFrame f comp).length + 512 ∧
    (f.encode comp).drop ((f.encode comp).length - 512) = trailer f comp ∧
    Meta.read (trailer f comp) = some (rmeta f comp) ∧
    (rmeta f comp).version = f.version.toV ∧
    (rmeta f comp).indexBlockOffset = (f.pre.length + (fdata f comp).length) % 2^64 ∧
    (f.encode comp).drop (f.pre.length + (fdata f comp).length) = idxFrame f comp ++ trailer f comp ∧
    ∀ (j : Nat) (fr : Bytes) (off : Nat), (f.dataFrames comp)[j]? = some fr →
      (frameOffsets f.pre.length (f.dataFrames comp))[j]? = some off →
      ∃ rest, (f.encode comp).drop off = fr ++ rest ∧
        off + fr.length ≤ f.pre.length + (fdata f comp).length :=
  ⟨rfl, rfl, rfl, trailer_length f comp, encode_length f comp, encode_drop_trailer f comp,
   trailer_read f comp, rfl, rfl, encode_drop_index f comp,
   fun j fr off hfr hoff => encode_drop_frame f comp j fr off hfr hoff⟩

/-! ### E. `EFile.legal` as a proposition -/

structure FLegalP (f : EFile) (comp : Bytes → Bytes) : Prop where
  blocks : ∀ b ∈ f.blocks, b.legal = true ∧ b.items ≠ []
  seps_len : f.seps.length = f.blocks.length
  index : (f.indexBlock comp).legal = true
  chain : ∀ j b, f.blocks[j]? = some b → ∃ last sep, b.items.getLast? = some last ∧
    f.seps[j]? = some sep ∧ bcmp last.e.key sep ≠ .gt ∧
    ∀ nb, f.blocks[j + 1]? = some nb → ∃ fst, nb.items.head? = some fst ∧ bcmp sep fst.e.key = .lt

theorem legalP_of_legal (f : EFile) (comp : Bytes → Bytes) (h : f.legal comp = true) : FLegalP f comp := by
  unfold EFile.legal at h
  simp only [Bool.and_eq_true, beq_iff_eq] at h
  obtain ⟨⟨⟨h1, h2⟩, h3⟩, h4⟩ := h
  refine ⟨?_, h2, h3, ?_⟩
  · intro b hb
    have := List.all_eq_true.mp h1 b hb
    simp only [Bool.and_eq_true, Bool.not_eq_true', List.isEmpty_eq_false_iff] at this
    exact this
  · intro j b hb
    have := List.all_eq_true.mp h4 (b, j) (List.mem_zipIdx_iff_getElem?.mpr hb)
    simp only [] at this
    cases hgl : b.items.getLast? with
    | none => rw [hgl] at this; simp at this
    | some last =>
      cases hsp : f.seps[j]? with
      | none => rw [hgl, hsp] at this; simp at this
      | some sep =>
        rw [hgl, hsp] at this
        simp only [Bool.and_eq_true] at this
        obtain ⟨hle, hnext⟩ := this
        refine ⟨last, sep, rfl, rfl, ?_, ?_⟩
        · unfold ble at hle
          simpa using hle
        · intro nb hnb
          rw [hnb] at hnext
          simp only [] at hnext
          cases hh : nb.items.head? with
          | none => rw [hh] at hnext; simp at hnext
          | some fst =>
            rw [hh] at hnext
            refine ⟨fst, rfl, ?_⟩
            unfold blt at hnext
            simpa using hnext

/-! ### F. offsets -/

theorem frameOffsets_ge (frs : List Bytes) : ∀ s, ∀ o ∈ frameOffsets s frs, s ≤ o := by
  induction frs with
  | nil => intro s o ho; simp [frameOffsets] at ho
  | cons fr frs ih =>
    intro s o ho
    simp only [frameOffsets, List.mem_cons] at ho
    rcases ho with rfl | ho
    · exact Nat.le_refl _
    · have := ih _ o ho; omega

theorem frameOffsets_pairwise (frs : List Bytes) (hne : ∀ fr ∈ frs, 0 < fr.length) :
    ∀ s, (frameOffsets s frs).Pairwise (· < ·) := by
  induction frs with
  | nil => intro s; exact List.Pairwise.nil
  | cons fr frs ih =>
    intro s
    simp only [frameOffsets, List.pairwise_cons]
    refine ⟨?_, ih (fun x hx => hne x (List.mem_cons_of_mem _ hx)) _⟩
    intro o ho
    have := frameOffsets_ge frs _ o ho
    have := hne fr (List.mem_cons_self ..)
    omega

theorem offs_length (f : EFile) (comp : Bytes → Bytes) : (offs f comp).length = f.blocks.length := by
  unfold offs
  rw [frameOffsets_length, dataFrames_eq, List.length_map]

theorem offs_pairwise (f : EFile) (comp : Bytes → Bytes) : (offs f comp).Pairwise (· < ·) := by
  apply frameOffsets_pairwise
  intro fr hfr
  rw [dataFrames_eq, List.mem_map] at hfr
  obtain ⟨b, _, rfl⟩ := hfr
  rw [eframe_length]
  have := prefixLen_pos f.version (stored f comp b).length
  omega

/-! ### G. the index block -/

theorem indexBlock_length (f : EFile) (comp : Bytes → Bytes) (h : f.seps.length = f.blocks.length) :
    (f.indexBlock comp).items.length = f.blocks.length := by
  have := offs_length f comp
  unfold offs at this
  simp only [EFile.indexBlock, List.length_map, List.length_zipIdx, List.length_zip, this, h]
  omega

theorem indexBlock_item (f : EFile) (comp : Bytes → Bytes) (j : Nat) (sep : Bytes) (off : Nat)
    (hs : f.seps[j]? = some sep) (ho : (offs f comp)[j]? = some off) :
    (f.indexBlock comp).items[j]? =
      some { shared := f.indexShared.getD j 0, e := { key := sep, val := venc off } } := by
  have hz : (f.seps.zip (offs f comp))[j]? = some (sep, off) := List.getElem?_zip_eq_some.mpr ⟨hs, ho⟩
  unfold offs at hz
  simp only [EFile.indexBlock, List.getElem?_map, List.getElem?_zipIdx, hz, Option.map_some,
    Nat.zero_add]

/-! ### H. sortedness of the concatenation -/

/-- blocks are separated by keys: block `j` ≤ `sep j` < block `j + 1` -/
def Chain (bs : List EBlock) (seps : List Bytes) : Prop :=
  ∀ j b, bs[j]? = some b → ∃ sep, seps[j]? = some sep ∧ b.entries ≠ [] ∧
    (∀ e ∈ b.entries, bcmp e.key sep ≠ .gt) ∧
    ∀ nb, bs[j + 1]? = some nb → ∀ e ∈ nb.entries, bcmp sep e.key = .lt

theorem Chain.tail {b : EBlock} {bs : List EBlock} {sep : Bytes} {seps : List Bytes}
    (h : Chain (b :: bs) (sep :: seps)) : Chain bs seps := by
  intro j b' hb'
  have := h (j + 1) b' (by simpa using hb')
  simpa using this

theorem Chain.seps_cons {b : EBlock} {bs : List EBlock} {seps : List Bytes}
    (h : Chain (b :: bs) seps) : ∃ sep srest, seps = sep :: srest := by
  obtain ⟨sep, hs, _⟩ := h 0 b rfl
  cases seps with
  | nil => simp at hs
  | cons s srest => exact ⟨s, srest, rfl⟩

theorem lower_all : ∀ (bs : List EBlock) (seps : List Bytes) (k : Bytes), Chain bs seps →
    (∀ b, bs[0]? = some b → ∀ e ∈ b.entries, bcmp k e.key = .lt) →
    ∀ e ∈ bs.flatMap (·.entries), bcmp k e.key = .lt := by
  intro bs
  induction bs with
  | nil => intro seps k _ _ e he; simp at he
  | cons b rest ih =>
    intro seps k hc hk e he
    obtain ⟨sep, srest, rfl⟩ := hc.seps_cons
    rw [List.flatMap_cons, List.mem_append] at he
    rcases he with he | he
    · exact hk b rfl e he
    · refine ih srest k hc.tail ?_ e he
      intro nb hnb e' he'
      obtain ⟨sep', hs', hne, hlo, hhi⟩ := hc 0 b rfl
      simp only [List.getElem?_cons_zero, Option.some.injEq] at hs'
      subst hs'
      obtain ⟨x, hx⟩ := List.exists_mem_of_ne_nil _ hne
      have h1 : bcmp k sep = .lt := bcmp_lt_le_trans (hk b rfl x hx) (hlo x hx)
      exact bcmp_lt_trans h1 (hhi nb (by simpa using hnb) e' he')

theorem sorted_blocks : ∀ (bs : List EBlock) (seps : List Bytes), Chain bs seps →
    (∀ b ∈ bs, StrictSorted b.entries) → StrictSorted (bs.flatMap (·.entries)) := by
  intro bs
  induction bs with
  | nil => intro _ _ _; exact List.Pairwise.nil
  | cons b rest ih =>
    intro seps hc hs
    obtain ⟨sep, srest, rfl⟩ := hc.seps_cons
    rw [List.flatMap_cons]
    unfold StrictSorted
    rw [List.pairwise_append]
    refine ⟨hs b (List.mem_cons_self ..), ih srest hc.tail (fun x hx => hs x (List.mem_cons_of_mem _ hx)), ?_⟩
    intro x hx y hy
    obtain ⟨sep', hs', _, hlo, hhi⟩ := hc 0 b rfl
    simp only [List.getElem?_cons_zero, Option.some.injEq] at hs'
    subst hs'
    have h2 := lower_all rest srest sep hc.tail (fun nb hnb => hhi nb (by simpa using hnb)) y hy
    exact bcmp_le_lt_trans (hlo x hx) h2

theorem sorted_le_last (l : List Entry) (hs : StrictSorted l) (last : Entry) (h : l.getLast? = some last) :
    ∀ e ∈ l, bcmp e.key last.key ≠ .gt := by
  obtain ⟨ys, rfl⟩ := List.getLast?_eq_some_iff.mp h
  unfold StrictSorted at hs
  rw [List.pairwise_append] at hs
  intro e he
  rw [List.mem_append, List.mem_singleton] at he
  rcases he with he | rfl
  · rw [hs.2.2 e he last (List.mem_singleton.mpr rfl)]; decide
  · rw [bcmp_refl]; decide

theorem sorted_ge_first (l : List Entry) (hs : StrictSorted l) (fst : Entry) (h : l.head? = some fst) :
    ∀ e ∈ l, bcmp fst.key e.key ≠ .gt := by
  cases l with
  | nil => simp at h
  | cons a tl =>
    simp only [List.head?_cons, Option.some.injEq] at h
    subst h
    unfold StrictSorted at hs
    rw [List.pairwise_cons] at hs
    intro e he
    rw [List.mem_cons] at he
    rcases he with rfl | he
    · rw [bcmp_refl]; decide
    · rw [hs.1 e he]; decide

theorem chain_of_legal (f : EFile) (comp : Bytes → Bytes) (hl : FLegalP f comp) : Chain f.blocks f.seps := by
  intro j b hb
  obtain ⟨last, sep, hlast, hsep, hle, hnext⟩ := hl.chain j b hb
  have hbm : b ∈ f.blocks := List.mem_of_getElem? hb
  have hsorted := BlockEnc.sorted_encode b ((BlockEnc.legal_iff b).mp (hl.blocks b hbm).1)
  refine ⟨sep, hsep, ?_, ?_, ?_⟩
  · intro h
    have h' : b.items = [] := by simpa [EBlock.entries] using h
    rw [h'] at hlast
    simp at hlast
  · intro e he
    have hl' : b.entries.getLast? = some last.e := by
      simp only [EBlock.entries, List.getLast?_map, hlast, Option.map_some]
    exact bcmp_le_trans (sorted_le_last _ hsorted _ hl' e he) hle
  · intro nb hnb e he
    obtain ⟨fst, hfst, hlt⟩ := hnext nb hnb
    have hnbm : nb ∈ f.blocks := List.mem_of_getElem? hnb
    have hsorted' := BlockEnc.sorted_encode nb ((BlockEnc.legal_iff nb).mp (hl.blocks nb hnbm).1)
    have hf' : nb.entries.head? = some fst.e := by
      simp only [EBlock.entries, List.head?_map, hfst, Option.map_some]
    exact bcmp_lt_le_trans hlt (sorted_ge_first _ hsorted' _ hf' e he)


/-! ### I. the table view of an encoded file -/

/-- the block `block_init` builds from the bytes of an encoder block -/
def blkOf (thr : Nat) (b : EBlock) : Blk :=
  { data := b.encode thr, size := (b.encode thr).length, restartOffset := b.region.length, thr := thr }

theorem encode_ok' (thr : Nat) (b : EBlock) (hl : b.legal = true) (hthr : thr < 2^32)
    (hsize : (b.encode thr).length < 2^64) (hnr : b.restarts.length < 2^32 - 1) :
    blockInit thr (b.encode thr) = some (blkOf thr b) ∧ BlockOK (blkOf thr b) b.view := by
  obtain ⟨blk, h1, _, _, _, hok⟩ := EBlock.encode_ok thr b hl hthr hsize hnr
  have h2 := BlockEnc.blockInit_encode thr b ((BlockEnc.legal_iff b).mp hl).restarts_pos hsize hnr
  rw [h2] at h1
  have : blk = blkOf thr b := (Option.some.inj h1).symm
  subst this
  exact ⟨h2, hok⟩

/-- the decoded content of the encoded file -/
def tview (f : EFile) (comp : Bytes → Bytes) : TableView :=
  { blocks := f.blocks.map fun b => (blkOf f.thr b, b.view),
    offs := offs f comp,
    index := (blkOf f.thr (f.indexBlock comp), (f.indexBlock comp).view) }

theorem tview_nb (f : EFile) (comp : Bytes → Bytes) : (tview f comp).nb = f.blocks.length := by
  simp only [TableView.nb, tview, List.length_map]

theorem tview_blk (f : EFile) (comp : Bytes → Bytes) (j : Nat) (b : EBlock) (hb : f.blocks[j]? = some b) :
    (tview f comp).blk j = blkOf f.thr b := by
  simp only [TableView.blk, tview, List.getD_eq_getElem?_getD, List.getElem?_map, hb, Option.map_some,
    Option.getD_some]

theorem tview_view (f : EFile) (comp : Bytes → Bytes) (j : Nat) (b : EBlock) (hb : f.blocks[j]? = some b) :
    (tview f comp).view j = b.view := by
  simp only [TableView.view, tview, List.getD_eq_getElem?_getD, List.getElem?_map, hb, Option.map_some,
    Option.getD_some]

theorem tview_off (f : EFile) (comp : Bytes → Bytes) (j : Nat) (off : Nat)
    (ho : (offs f comp)[j]? = some off) : (tview f comp).off j = off := by
  simp only [TableView.off, tview, List.getD_eq_getElem?_getD, ho, Option.getD_some]

theorem tview_entries (f : EFile) (comp : Bytes → Bytes) : (tview f comp).entries = f.entries := by
  simp only [TableView.entries, tview, EFile.entries, List.flatMap_map, EBlock.view_ents]

theorem tview_sep (f : EFile) (comp : Bytes → Bytes) (j : Nat) (sep : Bytes) (off : Nat)
    (hs : f.seps[j]? = some sep) (ho : (offs f comp)[j]? = some off) : (tview f comp).sep j = sep := by
  show (f.indexBlock comp).view.key j = sep
  rw [EBlock.view_key_of _ j _ (indexBlock_item f comp j sep off hs ho)]

theorem tview_index_val (f : EFile) (comp : Bytes → Bytes) (j : Nat) (sep : Bytes) (off : Nat)
    (hs : f.seps[j]? = some sep) (ho : (offs f comp)[j]? = some off) :
    (tview f comp).index.2.val j = venc off := by
  show (f.indexBlock comp).view.val j = venc off
  rw [EBlock.view_val_of _ j _ (indexBlock_item f comp j sep off hs ho)]

/-- the reader obtained by opening the encoded file -/
def openedRd (f : EFile) (comp : Bytes → Bytes) (decomp : Nat → Bytes → Option Bytes) (verify : Bool) : Rd :=
  { data := f.encode comp, m := rmeta f comp, verify := verify, thr := f.thr, decomp := decomp,
    index := blkOf f.thr (f.indexBlock comp) }

theorem getLast?_getD {α : Type} (l : List α) (x d : α) (h : l.getLast? = some x) :
    l.getD (l.length - 1) d = x := by
  rw [List.getLast?_eq_getElem?] at h
  rw [List.getD_eq_getElem?_getD, h]; rfl

theorem head?_getD {α : Type} (l : List α) (x d : α) (h : l.head? = some x) : l.getD 0 d = x := by
  rw [List.head?_eq_getElem?] at h
  rw [List.getD_eq_getElem?_getD, h]; rfl

/-- the opened reader decodes, block by block, to `tview` -/
theorem tableOK_encode (f : EFile) (comp : Bytes → Bytes) (decomp : Nat → Bytes → Option Bytes)
    (verify : Bool) (hl : f.legal comp = true)
    (hcodec : f.compression ≠ 0 → ∀ raw, decomp f.compression (comp raw) = some raw)
    (hthr : f.thr < 2^32) (hsize : (f.encode comp).length < 2^64)
    (hnr : ∀ b ∈ f.blocks, b.restarts.length < 2^32 - 1) (hnri : f.indexRestarts.length < 2^32 - 1)
    (hraw : f.compression ≠ 0 → ∀ b ∈ f.blocks, (b.encode f.thr).length < 2^64)
    (hv1 : f.version = .v1 → ∀ b ∈ f.blocks, (stored f comp b).length < 2^32)
    (hcompr : f.compression < 2^64) :
    TableOK (openedRd f comp decomp verify) (tview f comp) := by
  have hL := legalP_of_legal f comp hl
  have hlen := encode_length f comp
  have hidx8 := eframe_length f.version (idxStored f comp)
  rw [← idxFrame_eq] at hidx8
  have hidxsize : ((f.indexBlock comp).encode f.thr).length < 2^64 := by
    show (idxStored f comp).length < 2^64
    omega
  obtain ⟨_, hidxok⟩ := encode_ok' f.thr (f.indexBlock comp) hL.index hthr hidxsize hnri
  have hnb := tview_nb f comp
  -- per-block facts
  have hget : ∀ j, j < f.blocks.length → ∃ b off sep, f.blocks[j]? = some b ∧
      (offs f comp)[j]? = some off ∧ f.seps[j]? = some sep := by
    intro j hj
    obtain ⟨b, hb⟩ := BlockEnc.getElem?_of_lt f.blocks j hj
    obtain ⟨off, ho⟩ := BlockEnc.getElem?_of_lt (offs f comp) j (by rw [offs_length]; exact hj)
    obtain ⟨sep, hs⟩ := BlockEnc.getElem?_of_lt f.seps j (by rw [hL.seps_len]; exact hj)
    exact ⟨b, off, sep, hb, ho, hs⟩
  have hframe : ∀ (j : Nat) (b : EBlock) (off : Nat), f.blocks[j]? = some b → (offs f comp)[j]? = some off →
      off + prefixLen f.version (stored f comp b).length + 4 + (stored f comp b).length ≤ indexOff f comp := by
    intro j b off hb ho
    have hfr : (f.dataFrames comp)[j]? = some (eframe f.version (stored f comp b)) := by
      rw [dataFrames_eq, List.getElem?_map, hb]; rfl
    obtain ⟨_, _, hle⟩ := encode_drop_frame f comp j _ off hfr ho
    rw [eframe_length] at hle
    omega
  have hbsize : ∀ b ∈ f.blocks, (b.encode f.thr).length < 2^64 := by
    intro b hbm
    by_cases hc : f.compression = 0
    · obtain ⟨j, hj, rfl⟩ := List.mem_iff_getElem.mp hbm
      obtain ⟨off, ho⟩ := BlockEnc.getElem?_of_lt (offs f comp) j (by rw [offs_length]; exact hj)
      have := hframe j f.blocks[j] off (List.getElem?_eq_getElem hj) ho
      unfold stored at this
      rw [if_pos hc] at this
      omega
    · exact hraw hc b hbm
  refine
    { index_blk := rfl, index_ok := hidxok, index_n := ?_, offs_len := ?_, index_val := ?_,
      get_block := ?_, block_ok := ?_, nonempty := ?_, offs_inj := ?_, sep_lo := ?_, sep_hi := ?_,
      sorted := ?_ }
  · rw [hnb]
    show (f.indexBlock comp).view.n = _
    rw [EBlock.view_n, indexBlock_length f comp hL.seps_len]
  · rw [hnb]; exact offs_length f comp
  · intro j hj
    rw [hnb] at hj
    obtain ⟨b, off, sep, hb, ho, hs⟩ := hget j hj
    rw [tview_index_val f comp j sep off hs ho, tview_off f comp j off ho]
    have hoff : off < 2^64 := by have := hframe j b off hb ho; omega
    have := vdecode64_venc hoff []
    rw [List.append_nil] at this
    rw [this]
  · intro j hj
    rw [hnb] at hj
    obtain ⟨b, off, sep, hb, ho, hs⟩ := hget j hj
    have hbm : b ∈ f.blocks := List.mem_of_getElem? hb
    rw [tview_off f comp j off ho, tview_blk f comp j b hb]
    have hst : (stored f comp b).length < 2^64 := by have := hframe j b off hb ho; omega
    have hcomp : (openedRd f comp decomp verify).m.compression = f.compression :=
      Nat.mod_eq_of_lt hcompr
    rw [eframe_getBlock f comp (openedRd f comp decomp verify) j b off rfl rfl hcomp rfl hcodec hb ho hst
      (fun h => hv1 h b hbm)]
    exact (encode_ok' f.thr b (hL.blocks b hbm).1 hthr (hbsize b hbm) (hnr b hbm)).1
  · intro j hj
    rw [hnb] at hj
    obtain ⟨b, off, sep, hb, ho, hs⟩ := hget j hj
    have hbm : b ∈ f.blocks := List.mem_of_getElem? hb
    rw [tview_blk f comp j b hb, tview_view f comp j b hb]
    exact (encode_ok' f.thr b (hL.blocks b hbm).1 hthr (hbsize b hbm) (hnr b hbm)).2
  · intro j hj
    rw [hnb] at hj
    obtain ⟨b, off, sep, hb, ho, hs⟩ := hget j hj
    have hbm : b ∈ f.blocks := List.mem_of_getElem? hb
    rw [tview_view f comp j b hb, EBlock.view_n]
    exact List.length_pos_iff.mpr (hL.blocks b hbm).2
  · intro i j hi hj heq
    rw [hnb] at hi hj
    obtain ⟨_, oi, _, _, hoi, _⟩ := hget i hi
    obtain ⟨_, oj, _, _, hoj, _⟩ := hget j hj
    rw [tview_off f comp i oi hoi, tview_off f comp j oj hoj] at heq
    have hpw := List.pairwise_iff_getElem.mp (offs_pairwise f comp)
    have hli : i < (offs f comp).length := by rw [offs_length]; exact hi
    have hlj : j < (offs f comp).length := by rw [offs_length]; exact hj
    rw [List.getElem?_eq_getElem hli] at hoi
    rw [List.getElem?_eq_getElem hlj] at hoj
    have ei := Option.some.inj hoi
    have ej := Option.some.inj hoj
    rcases Nat.lt_trichotomy i j with h | h | h
    · have := hpw i j hli hlj h; omega
    · exact h
    · have := hpw j i hlj hli h; omega
  · intro j hj
    rw [hnb] at hj
    obtain ⟨b, off, sep, hb, ho, hs⟩ := hget j hj
    obtain ⟨last, sep', hlast, hs', hle, _⟩ := hL.chain j b hb
    rw [hs] at hs'
    have := Option.some.inj hs'
    subst this
    rw [tview_view f comp j b hb, tview_sep f comp j sep off hs ho, EBlock.view_n, EBlock.view_key,
      getLast?_getD _ _ _ hlast]
    exact hle
  · intro j hj
    rw [hnb] at hj
    obtain ⟨b, off, sep, hb, ho, hs⟩ := hget j (by omega)
    obtain ⟨nb, _, _, hnb', _, _⟩ := hget (j + 1) hj
    obtain ⟨last, sep', hlast, hs', hle, hnext⟩ := hL.chain j b hb
    rw [hs] at hs'
    have := Option.some.inj hs'
    subst this
    obtain ⟨fst, hfst, hlt⟩ := hnext nb hnb'
    rw [tview_view f comp (j + 1) nb hnb', tview_sep f comp j sep off hs ho, EBlock.view_key,
      head?_getD _ _ _ hfst]
    exact hlt
  · rw [tview_entries]
    exact sorted_blocks f.blocks f.seps (chain_of_legal f comp hL)
      (fun b hbm => BlockEnc.sorted_encode b ((BlockEnc.legal_iff b).mp (hL.blocks b hbm).1))

end FileEnc

open FileEnc in
/-- **C11 (R, first half): every well-formed file is readable.**
    For every legal choice of encoding — restart points, shared-prefix lengths, separators, block
    boundaries, leading foreign bytes, format version, compression, restart-array width — opening the
    encoded bytes succeeds, and the opened reader decodes block by block to a table whose entries are
    exactly the encoded entries.  Explicit form: the reader and the table view are named. -/
theorem EFile.open_ok_explicit (f : EFile) (comp : Bytes → Bytes) (decomp : Nat → Bytes → Option Bytes)
    (verify : Bool)
    (hl : f.legal comp = true)
    (hcodec : f.compression ≠ 0 → ∀ raw, decomp f.compression (comp raw) = some raw)
    (hthr : f.thr < 2^32)
    (hsize : (f.encode comp).length < 2^64)
    (hnr : ∀ b ∈ f.blocks, b.restarts.length < 2^32 - 1) (hnri : f.indexRestarts.length < 2^32 - 1)
    (hraw : f.compression ≠ 0 → ∀ b ∈ f.blocks, (b.encode f.thr).length < 2^64)
    (hv1 : f.version = .v1 →
      (∀ b ∈ f.blocks, (if f.compression = 0 then b.encode f.thr else comp (b.encode f.thr)).length < 2^32) ∧
      ((f.indexBlock comp).encode f.thr).length < 2^32)
    (hcompr : f.compression < 2^64) :
    readerOpen true f.thr decomp verify (f.encode comp) = .ok (openedRd f comp decomp verify) ∧
    TableOK (openedRd f comp decomp verify) (tview f comp) ∧
    (tview f comp).entries = f.entries := by
  have hL := legalP_of_legal f comp hl
  have hlen := FileEnc.encode_length f comp
  have hidx8 := eframe_length f.version (idxStored f comp)
  rw [← idxFrame_eq] at hidx8
  have hidxsize : ((f.indexBlock comp).encode f.thr).length < 2^64 := by
    show (idxStored f comp).length < 2^64
    omega
  obtain ⟨hinit, _⟩ := encode_ok' f.thr (f.indexBlock comp) hL.index hthr hidxsize hnri
  have h8 : 8 ≤ (idxStored f comp).length := by
    have := BlockEnc.encode_length f.thr (f.indexBlock comp)
    have hpos := ((BlockEnc.legal_iff _).mp hL.index).restarts_pos
    have hw : 4 ≤ BlockEnc.rw_ f.thr (f.indexBlock comp) := by unfold BlockEnc.rw_; split <;> omega
    have hmul : 4 ≤ (f.indexBlock comp).restarts.length * BlockEnc.rw_ f.thr (f.indexBlock comp) :=
      Nat.le_trans hw (Nat.le_mul_of_pos_left _ hpos)
    show 8 ≤ ((f.indexBlock comp).encode f.thr).length
    omega
  refine ⟨?_, ?_, tview_entries f comp⟩
  · exact open_index f comp decomp verify hsize h8 (fun h => (hv1 h).2) _ hinit
  · exact tableOK_encode f comp decomp verify hl hcodec hthr hsize hnr hnri hraw
      (fun h => (hv1 h).1) hcompr

/-- **C11 (R, first half)**, existential form. -/
theorem EFile.open_ok (f : EFile) (comp : Bytes → Bytes) (decomp : Nat → Bytes → Option Bytes)
    (verify : Bool)
    (hl : f.legal comp = true)
    (hcodec : f.compression ≠ 0 → ∀ raw, decomp f.compression (comp raw) = some raw)
    (hthr : f.thr < 2^32)
    (hsize : (f.encode comp).length < 2^64)
    (hnr : ∀ b ∈ f.blocks, b.restarts.length < 2^32 - 1) (hnri : f.indexRestarts.length < 2^32 - 1)
    (hraw : f.compression ≠ 0 → ∀ b ∈ f.blocks, (b.encode f.thr).length < 2^64)
    (hv1 : f.version = .v1 →
      (∀ b ∈ f.blocks, (if f.compression = 0 then b.encode f.thr else comp (b.encode f.thr)).length < 2^32) ∧
      ((f.indexBlock comp).encode f.thr).length < 2^32)
    (hcompr : f.compression < 2^64) :
    ∃ r t, readerOpen true f.thr decomp verify (f.encode comp) = .ok r ∧ TableOK r t ∧
      t.entries = f.entries :=
  ⟨_, _, EFile.open_ok_explicit f comp decomp verify hl hcodec hthr hsize hnr hnri hraw hv1 hcompr⟩


/-! ### J. the hypotheses are satisfiable: a concrete two-block file, as v2 and as v1 -/

namespace FileEnc

/-- two data blocks after two foreign bytes; the third entry shares only 1 of the 3 bytes it could
    (non-maximal `shared`); block 1 has two restart points; the first separator `"ac"` lies strictly
    between `"abdf"` and `"b"` and is not a key of the table -/
def exFile (ver : FVersion) : EFile :=
  { version := ver,
    pre := [0x23, 0x21],
    blocks := [
      { items := [ { shared := 0, e := { key := [97, 98, 99], val := [1] } },
                   { shared := 2, e := { key := [97, 98, 100, 101], val := [] } },
                   { shared := 1, e := { key := [97, 98, 100, 102], val := [2, 3] } } ],
        restarts := [0] },
      { items := [ { shared := 0, e := { key := [98], val := [4] } },
                   { shared := 0, e := { key := [98, 0], val := [5] } } ],
        restarts := [0, 1] } ],
    seps := [[97, 99], [98, 0]],
    indexShared := [0, 0],
    indexRestarts := [0],
    compression := 0 }

example : (exFile .v2).legal id = true := by decide +kernel
example : (exFile .v1).legal id = true := by decide +kernel

/-- every hypothesis of `EFile.open_ok` holds for the example, in both versions, with and without
    checksum verification -/
theorem exFile_open (ver : FVersion) (verify : Bool) :
    ∃ r t, readerOpen true (exFile ver).thr (fun _ _ => none) verify ((exFile ver).encode id) = .ok r ∧
      TableOK r t ∧ t.entries = (exFile ver).entries := by
  cases ver
  · exact EFile.open_ok (exFile .v1) id _ verify (by decide +kernel) (fun h => absurd rfl h)
      (by decide +kernel) (by decide +kernel) (by decide +kernel) (by decide +kernel)
      (fun h => absurd rfl h) (fun _ => by decide +kernel) (by decide +kernel)
  · exact EFile.open_ok (exFile .v2) id _ verify (by decide +kernel) (fun h => absurd rfl h)
      (by decide +kernel) (by decide +kernel) (by decide +kernel) (by decide +kernel)
      (fun h => absurd rfl h) (fun h => by cases h) (by decide +kernel)

/-- the corner case of a table without data blocks: legal, and `EFile.open_ok` applies (`t.nb = 0`,
    index block with no entries and the single restart point 0) -/
def exEmpty (ver : FVersion) : EFile :=
  { version := ver, blocks := [], seps := [], indexShared := [] }

theorem exEmpty_open (ver : FVersion) (verify : Bool) :
    ∃ r t, readerOpen true (exEmpty ver).thr (fun _ _ => none) verify ((exEmpty ver).encode id) = .ok r ∧
      TableOK r t ∧ t.entries = [] := by
  cases ver
  · exact EFile.open_ok (exEmpty .v1) id _ verify (by decide +kernel) (fun h => absurd rfl h)
      (by decide +kernel) (by decide +kernel) (by decide +kernel) (by decide +kernel)
      (fun h => absurd rfl h) (fun _ => by decide +kernel) (by decide +kernel)
  · exact EFile.open_ok (exEmpty .v2) id _ verify (by decide +kernel) (fun h => absurd rfl h)
      (by decide +kernel) (by decide +kernel) (by decide +kernel) (by decide +kernel)
      (fun h => absurd rfl h) (fun h => by cases h) (by decide +kernel)

end FileEnc

end Mtbl
