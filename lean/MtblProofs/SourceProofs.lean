import MtblModel.Source
import MtblProofs.GateProofs
/-
  mtbl_source_write: it succeeds and leaves the writer in the state of `addAll` exactly when every add is accepted; on a
  strictly sorted source (e.g. any merger with a merge function, C04_merge) everything is written.
-/
namespace Mtbl

theorem writeFrom_of_all_success (w : W) (es : List Entry) (h : ∀ r ∈ (w.addAll es).1, r = Res.success) :
    w.writeFrom es = (.success, (w.addAll es).2) := by
  induction es generalizing w with
  | nil => rfl
  | cons e es ih =>
    rw [Gate.addAll_cons] at h ⊢
    have h1 : (w.add e.key e.val).1 = .success := h _ List.mem_cons_self
    have h2 := ih (w.add e.key e.val).2 (fun r hr => h r (List.mem_cons_of_mem _ hr))
    simp only [W.writeFrom, h1, if_true]
    exact h2

/-- a refusal stops the copy: the result is failure and the writer holds exactly the entries before the refused one -/
theorem writeFrom_stops (w : W) (pre : List Entry) (e : Entry) (rest : List Entry)
    (hp : ∀ r ∈ (w.addAll pre).1, r = Res.success) (he : ((w.addAll pre).2.add e.key e.val).1 = .failure) :
    w.writeFrom (pre ++ e :: rest) = (.failure, (w.addAll pre).2) := by
  induction pre generalizing w with
  | nil =>
    simp only [List.nil_append, W.writeFrom, Gate.addAll_nil] at he ⊢
    rw [he]; simp only [reduceCtorEq, if_false]
    have := C08_refused_noop w e.key e.val he
    rw [Prod.ext_iff]; exact ⟨he, this⟩
  | cons p pre ih =>
    rw [Gate.addAll_cons] at hp he ⊢
    have h1 : (w.add p.key p.val).1 = .success := hp _ List.mem_cons_self
    simp only [List.cons_append, W.writeFrom, h1, if_true]
    exact ih (w.add p.key p.val).2 (fun r hr => hp r (List.mem_cons_of_mem _ hr)) he

/-- a strictly sorted source is written completely: same result and same writer state (hence same file) as adding
    its entries one by one -/
theorem sourceWrite_sorted (cfg : WCfg) (pre : Nat) (es : List Entry) (hs : StrictSorted es) :
    (W.new cfg pre).writeFrom es = (.success, ((W.new cfg pre).addAll es).2) := by
  apply writeFrom_of_all_success
  rw [C08_history cfg pre es, (Gate.sorted_gen none es hs (fun _ h => by cases h)).1]
  intro r hr
  obtain ⟨_, _, rfl⟩ := List.mem_map.mp hr
  rfl

end Mtbl
