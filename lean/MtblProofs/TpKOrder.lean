import MtblProofs.TpKShape
/-
  The k-client pool machine, ordered delivery (the mode pooled writers use): for every client, at every moment, the results
  delivered so far, the one in the handler's hands, the jobs of the threads in the client's result queue (in queue order) and
  the job just handed over by the caller are, in this order, exactly jobs 0, 1, 2, … of that client — whatever the other
  clients sharing the pool do.  Consequences: each client's results are delivered in submission order, none twice, and when
  the client's thread has returned all of them have been delivered.
-/
set_option linter.unusedSimpArgs false
namespace TpK

def jobOf (th : Thr) : Option Nat := match th.cb with | some j => some j | none => th.res

def hJob (thr : Array Thr) (h : HPc) : List (Option Nat) := match h with
  | .waitRes t _ => [jobOf thr[t]!]
  | .giveBack _ r => [r]
  | .callback r => [r]
  | _ => []
def cJob (thr : Array Thr) (pc : CPc) : List (Option Nat) := match pc with
  | .enqueue t => [jobOf thr[t]!]
  | _ => []
def pend (pc : CPc) : Nat := match pc with | .enqueue _ => 1 | _ => 0

/-- the jobs of client `cl`, oldest first -/
def line (thr : Array Thr) (cl : Client) : List (Option Nat) :=
  cl.delivered ++ hJob thr cl.hpc ++ cl.queue.map (fun t => jobOf thr[t]!) ++ cJob thr cl.pc

def J (thr : Array Thr) (cl : Client) : Prop := line thr cl = (List.range (cl.nextJob + pend cl.pc)).map some

/-- ordered mode: every client's line is 0, 1, 2, …; an `assign` hand holds a thread without a job -/
def JOrd (s : St) : Prop := s.ordered = true → ∀ c : Nat, J s.thr s.cl[c]!

theorem J_default (thr : Array Thr) : J thr (default : Client) := by
  show line thr default = _
  have h1 : (default : Client).delivered = [] := rfl
  have h2 : (default : Client).hpc = .deq false := by decide
  have h3 : (default : Client).queue = [] := rfl
  have h4 : (default : Client).pc = .idle := rfl
  have h5 : (default : Client).nextJob = 0 := rfl
  simp [line, h1, h2, h3, h4, h5, hJob, cJob, pend]

theorem J_new (thr : Array Thr) : J thr ({} : Client) := by
  simp [J, line, hJob, cJob, pend]

/-- the line of a client depends only on the client's record and on the jobs of the threads it holds -/
theorem line_congr (o : Bool) (thr thr' : Array Thr) (cl : Client) (ho : o = true)
    (h : ∀ t ∈ clView o cl, jobOf thr'[t]! = jobOf thr[t]!) : line thr' cl = line thr cl := by
  subst ho
  unfold line
  have hq : cl.queue.map (fun t => jobOf thr'[t]!) = cl.queue.map (fun t => jobOf thr[t]!) :=
    List.map_congr_left fun t m => h t (mem_view_queue m)
  have hh : hJob thr' cl.hpc = hJob thr cl.hpc := by
    cases hp : cl.hpc with
    | waitRes t a => simp only [hJob]; rw [h t (mem_view_wait hp)]
    | _ => rfl
  have hc : cJob thr' cl.pc = cJob thr cl.pc := by
    cases hp : cl.pc with
    | enqueue t => simp only [cJob]; rw [h t (mem_view_enq hp rfl)]
    | _ => rfl
  rw [hq, hh, hc]

theorem J_congr (o : Bool) (thr thr' : Array Thr) (cl : Client) (ho : o = true)
    (h : ∀ t ∈ clView o cl, jobOf thr'[t]! = jobOf thr[t]!) (hj : J thr cl) : J thr' cl := by
  unfold J at hj ⊢
  rw [line_congr o thr thr' cl ho h]; exact hj


theorem line_wakeH (thr : Array Thr) (t : Nat) (cl : Client) : line thr (wakeH t cl) = line thr cl := by
  unfold line
  have h1 : (wakeH t cl).delivered = cl.delivered := by
    unfold wakeH; split
    · split <;> rfl
    · rfl
  have h2 : hJob thr (wakeH t cl).hpc = hJob thr cl.hpc := by
    unfold wakeH; split
    · rename_i t' hh
      split
      · rename_i ht; rw [hh]; subst ht; rfl
      · rfl
    · rfl
  rw [h1, h2, wakeH_queue, wakeH_pc]

theorem J_wakeH (thr : Array Thr) (t : Nat) (cl : Client) (h : J thr cl) : J thr (wakeH t cl) := by
  unfold J at h ⊢
  have h3 : (wakeH t cl).nextJob = cl.nextJob := by
    unfold wakeH; split
    · split <;> rfl
    · rfl
  rw [line_wakeH, wakeH_pc, h3]; exact h

theorem J_map_wakeH {thr : Array Thr} {cls : Array Client} (t : Nat) (h : ∀ c : Nat, J thr cls[c]!) :
    ∀ c : Nat, J thr (cls.map (wakeH t))[c]! := by
  intro c
  rw [get_map]
  split
  · exact J_wakeH thr t _ (h c)
  · exact J_default thr

theorem J_modify {thr : Array Thr} {cls : Array Client} (c0 : Nat) (f : Client → Client)
    (h : ∀ c : Nat, J thr cls[c]!) (hf : J thr (f cls[c0]!)) : ∀ c : Nat, J thr (cls.modify c0 f)[c]! := by
  intro c
  rw [get_modify]
  split
  · rename_i hc; rw [hc.1]; exact hf
  · exact h c

/-- a record with the same line and the same job count -/
theorem J_same {thr : Array Thr} {cl cl' : Client} (h : J thr cl) (h1 : line thr cl' = line thr cl)
    (h2 : cl'.nextJob + pend cl'.pc = cl.nextJob + pend cl.pc) : J thr cl' := by
  unfold J at h ⊢; rw [h1, h2]; exact h

theorem jobOf_wakeW (th : Thr) : jobOf (wakeW th) = jobOf th := by
  obtain ⟨_, h2, h3, _, _⟩ := wakeW_spec th
  simp only [jobOf, h2, h3]

/-- threads outside every client's hands, or whose job does not change, leave every line as it is -/
theorem J_thr_update {s : St} (ho : s.ordered = true) {thr' : Array Thr}
    (h : ∀ c : Nat, J s.thr s.cl[c]!)
    (hj : ∀ (c : Nat) (t : Nat), t ∈ clView s.ordered s.cl[c]! → jobOf thr'[t]! = jobOf s.thr[t]!) :
    ∀ c : Nat, J thr' s.cl[c]! :=
  fun c => J_congr s.ordered s.thr thr' _ ho (hj c) (h c)

theorem jord_signalThr {s : St} (t : Nat) (h : JOrd s) : JOrd (signalThr s t) := by
  intro ho
  have ho' : s.ordered = true := ho
  have h1 : ∀ c : Nat, J (signalThr s t).thr s.cl[c]! := by
    apply J_thr_update ho' (h ho')
    intro c u _
    rw [thr_signalThr]
    split
    · exact jobOf_wakeW _
    · rfl
  have h2 : (signalThr s t).cl = s.cl.map (wakeH t) := rfl
  rw [h2]
  exact J_map_wakeH t h1

theorem jord_signalRq {s : St} (c : Nat) (h : JOrd s) : JOrd (signalRq s c) := by
  intro ho
  have ho' : s.ordered = true := ho
  show ∀ c' : Nat, J s.thr (s.cl.modify c _)[c']!
  apply J_modify c _ (h ho')
  apply J_same (h ho' c)
  · cases hp : s.cl[c]!.hpc with
    | deq a => cases a <;> simp [line, hJob, hp]
    | _ => simp [hp]
  · split <;> rfl

theorem jord_signalPool {s : St} (k : Nat) (h : JOrd s) : JOrd (signalPool s k) := by
  unfold signalPool
  split
  · exact h
  · dsimp only
    split
    · exact h
    · rename_i hne
      have hp := poolSleepers_spec s _ (poolSleepers_pick s k hne)
      generalize (poolSleepers s)[k % (poolSleepers s).length]! = c at hp ⊢
      intro ho
      have ho' : s.ordered = true := ho
      show ∀ c' : Nat, J s.thr (s.cl.modify c _)[c']!
      apply J_modify c _ (h ho')
      apply J_same (h ho' c)
      · simp [line, cJob, hp]
      · simp [pend, hp]


/-- a caller that moves to a program point with no job in hand (at most dropping the one it had) -/
theorem J_drop_pc {thr : Array Thr} {cl : Client} (p : CPc) (hc : cJob thr p = []) (hn : pend p = 0) (h : J thr cl) :
    J thr { cl with pc := p } := by
  unfold J line at h ⊢
  simp only [hc, hn, List.append_nil, Nat.add_zero]
  cases hp : cl.pc with
  | enqueue t =>
    simp only [hp, cJob, pend, List.range_succ, List.map_append, List.map_cons, List.map_nil] at h
    exact (List.append_inj' h rfl).1
  | _ => simp only [hp, cJob, pend, List.append_nil, Nat.add_zero] at h; exact h

theorem jord_setCl_drop {s : St} (c : Nat) (f : Client → Client) (p : CPc) (h : JOrd s)
    (hf : ∀ cl, line s.thr (f cl) = line s.thr { cl with pc := p } ∧ (f cl).nextJob = cl.nextJob ∧ (f cl).pc = p)
    (hc : cJob s.thr p = []) (hn : pend p = 0) : JOrd (setCl s c f) := by
  intro ho
  have ho' : s.ordered = true := ho
  show ∀ c' : Nat, J s.thr (s.cl.modify c f)[c']!
  apply J_modify c f (h ho')
  have := J_drop_pc p hc hn (h ho' c)
  unfold J at this ⊢
  rw [(hf _).1, (hf _).2.1, (hf _).2.2]; exact this

theorem jord_stepOwner {s s' : St} (hE : Excl s) (h : JOrd s) (hs : stepOwner s = some s') : JOrd s' := by
  unfold stepOwner at hs
  split at hs
  · rename_i i ho
    injection hs with hs; subst hs
    intro hord
    have hord' : s.ordered = true := hord
    show ∀ c' : Nat, J s.thr (s.cl.modify i _)[c']!
    apply J_modify i _ (h hord')
    simp [J, line, hJob, cJob, pend]
  · split at hs
    · injection hs with hs; subst hs; exact h
    · simp at hs
  · simp at hs
  · split at hs
    · injection hs with hs; subst hs; exact h
    · split at hs <;> (injection hs with hs; subst hs; exact h)
  · rename_i t ho
    injection hs with hs; subst hs
    apply jord_signalThr
    intro hord
    have hord' : s.ordered = true := hord
    show ∀ c : Nat, J (setThr s t _).thr s.cl[c]!
    apply J_thr_update hord' (h hord')
    intro c u _
    rw [thr_setThr]; split <;> rfl
  · split at hs
    · injection hs with hs; subst hs; exact h
    · simp at hs
  · simp at hs

theorem jobOf_worker_step (th : Thr) (j : Nat) (hcb : th.cb = some j) (p : WPc) (r : Bool) (q : Option Nat) :
    jobOf { th with res := some j, cb := none, rq := q, running := r, pc := p } = jobOf th := by
  simp [jobOf, hcb]

theorem jord_stepWorker {s s' : St} {t : Nat} (hS : Sh s) (h : JOrd s) (hs : stepWorker s t = some s') : JOrd s' := by
  unfold stepWorker at hs
  split at hs
  case isFalse => simp at hs
  dsimp only at hs
  -- a step that changes the record of t without changing its job
  have upd : ∀ g : Thr → Thr, jobOf (g s.thr[t]!) = jobOf s.thr[t]! → JOrd (setThr s t g) := by
    intro g hg hord
    have hord' : s.ordered = true := hord
    show ∀ c : Nat, J (setThr s t g).thr s.cl[c]!
    apply J_thr_update hord' (h hord')
    intro c u _
    rw [thr_setThr]; split
    · rename_i hc; rw [hc.1]; exact hg
    · rfl
  split at hs
  · simp at hs
  · split at hs <;> (injection hs with hs; subst hs)
    · exact upd _ rfl
    · exact upd _ rfl
  · split at hs
    · injection hs with hs; subst hs; exact upd _ rfl
    · rename_i j hcb
      have hcb' : s.thr[t]!.cb = some j := hcb
      split at hs <;> (injection hs with hs; subst hs)
      · exact upd _ (by simp [jobOf, hcb'])
      · exact upd _ (by simp [jobOf, hcb'])
  · -- selfEnq happens in unordered mode only
    rename_i c hp
    injection hs with hs; subst hs
    intro hord
    have hord' : s.ordered = true := hord
    have := ((hS t).self (by simp [wN, hp])).1
    rw [hord'] at this; cases this
  · injection hs with hs; subst hs
    exact jord_signalThr t (upd _ rfl)
  · simp at hs


theorem range_succ_map (n : Nat) : (List.range (n + 1)).map some = (List.range n).map some ++ [some n] := by
  rw [List.range_succ, List.map_append]; rfl

theorem jord_stepClient {s s' : St} {c : Nat} (hE : Excl s) (hS : Sh s) (h : JOrd s) (hs : stepClient s c = some s') :
    JOrd s' := by
  unfold stepClient at hs
  split at hs
  case isFalse => simp at hs
  rename_i hc
  dsimp only at hs
  split at hs
  · simp at hs
  · injection hs with hs; subst hs
    exact jord_setCl_drop c _ .mkH h (fun _ => ⟨rfl, rfl, rfl⟩) rfl rfl
  · injection hs with hs; subst hs
    exact jord_setCl_drop c _ (.next false) h (fun _ => ⟨rfl, rfl, rfl⟩) rfl rfl
  · simp at hs
  · split at hs
    · injection hs with hs; subst hs
      exact jord_setCl_drop c _ .finish h (fun _ => ⟨rfl, rfl, rfl⟩) rfl rfl
    · split at hs
      · rename_i t rest hi
        injection hs with hs; subst hs
        have h1 : JOrd { s with idle := rest } := h
        exact jord_setCl_drop c _ (.assign t) h1 (fun _ => ⟨rfl, rfl, rfl⟩) rfl rfl
      · split at hs
        · injection hs with hs; subst hs
          exact jord_setCl_drop c _ (.next true) h (fun _ => ⟨rfl, rfl, rfl⟩) rfl rfl
        · injection hs with hs; subst hs
          have h1 : JOrd { s with count := s.count + 1 } := h
          exact jord_setCl_drop c _ .create h1 (fun _ => ⟨rfl, rfl, rfl⟩) rfl rfl
  · -- create
    injection hs with hs; subst hs
    have h1 : JOrd { s with thr := s.thr.push {} } := by
      intro hord
      have hord' : s.ordered = true := hord
      show ∀ c' : Nat, J (s.thr.push {}) s.cl[c']!
      apply J_thr_update hord' (h hord')
      intro c' u m
      rw [get_push, if_neg]
      have := (hE.client m).2.2.2.1
      omega
    exact jord_setCl_drop c _ (.assign s.thr.size) h1 (fun _ => ⟨rfl, rfl, rfl⟩) rfl rfl
  · -- assign
    rename_i t hp
    injection hs with hs; subst hs
    apply jord_signalThr
    intro hord
    have hord' : s.ordered = true := hord
    have hm : t ∈ clView s.ordered s.cl[c]! := mem_view_assign hp
    obtain ⟨e1, e2, e3, e4, e5, e6⟩ := hE.client hm
    obtain ⟨q1, q2⟩ := count_view_assign hp e5
    obtain ⟨w1, w2⟩ := not_wait_of_not_hHand q2
    simp only [setCl_cl, setCl_thr, setThr_cl]
    generalize hg : (fun th : Thr =>
      ({ th with rq := if s.ordered then none else some c, cb := some s.cl[c]!.nextJob, running := true } : Thr)) = g
    have hthr : ∀ u, u ≠ t → (setThr s t g).thr[u]! = s.thr[u]! := by
      intro u hu; rw [thr_setThr, if_neg (fun hx => hu hx.1)]
    have htt : (setThr s t g).thr[t]! = g s.thr[t]! := by rw [thr_setThr, if_pos ⟨rfl, e4⟩]
    -- the other clients do not hold t
    have hothers : ∀ c' : Nat, J (setThr s t g).thr s.cl[c']! ∨ c' = c := by
      intro c'
      by_cases hcc : c' = c
      · exact Or.inr hcc
      · left
        apply J_congr s.ordered s.thr _ _ hord' _ (h hord' c')
        intro u m
        rw [hthr u (fun hu => e6 c' hcc (hu ▸ m))]
    intro c'
    rw [get_modify]
    split
    · rename_i hcc
      rw [hcc.1]
      have hold := h hord' c
      unfold J line at hold ⊢
      simp only [hp, cJob, pend, List.append_nil, Nat.add_zero] at hold
      have hq : s.cl[c]!.queue.map (fun u => jobOf (setThr s t g).thr[u]!) = s.cl[c]!.queue.map (fun u => jobOf s.thr[u]!) :=
        List.map_congr_left fun u m => by rw [hthr u (fun hu => q1 (hu ▸ m))]
      have hh : hJob (setThr s t g).thr s.cl[c]!.hpc = hJob s.thr s.cl[c]!.hpc := by
        cases hpc : s.cl[c]!.hpc with
        | waitRes t' a =>
          simp only [hJob]
          rw [hthr t' (fun hu => w1 a (hu ▸ hpc))]
        | _ => rfl
      have hj : jobOf (setThr s t g).thr[t]! = some s.cl[c]!.nextJob := by
        rw [htt, ← hg]; simp [jobOf]
      simp only [cJob, pend, hq, hh, hj, range_succ_map, ← hold, List.append_assoc]
    · rename_i hcc
      rcases hothers c' with h1 | h1
      · exact h1
      · exact absurd ⟨h1, hc⟩ hcc
  · -- enqueue
    rename_i t hp
    injection hs with hs; subst hs
    have hX : JOrd (setCl s c fun cl =>
        { cl with nthreads := cl.nthreads + 1, queue := if s.ordered then cl.queue ++ [t] else cl.queue,
                  pc := .next false, nextJob := cl.nextJob + 1 }) := by
      intro hord
      have hord' : s.ordered = true := hord
      show ∀ c' : Nat, J s.thr (s.cl.modify c _)[c']!
      apply J_modify c _ (h hord')
      have hold := h hord' c
      unfold J line at hold ⊢
      simp only [hp, cJob, pend] at hold
      simp only [hord', if_true, cJob, pend, List.map_append, List.map_cons, List.map_nil, List.append_nil, Nat.add_zero]
      rw [← hold]; simp [List.append_assoc]
    by_cases ho : s.ordered = true
    · simp only [setCl_ordered, ho, if_true] at hX ⊢
      exact jord_signalRq c hX
    · simp only [setCl_ordered, ho, if_false] at hX ⊢
      exact hX
  · injection hs with hs; subst hs
    apply jord_signalRq
    exact jord_setCl_drop c _ .joinH h (fun cl => ⟨rfl, rfl, rfl⟩) rfl rfl
  · split at hs
    · injection hs with hs; subst hs
      exact jord_setCl_drop c _ .done h (fun _ => ⟨rfl, rfl, rfl⟩) rfl rfl
    · simp at hs
  · simp at hs


/-- a handler step that only changes its own record and keeps the line -/
theorem jord_setCl_same {s : St} (c : Nat) (f : Client → Client) (h : JOrd s)
    (hf : line s.thr (f s.cl[c]!) = line s.thr s.cl[c]! ∧
      (f s.cl[c]!).nextJob + pend (f s.cl[c]!).pc = s.cl[c]!.nextJob + pend s.cl[c]!.pc) : JOrd (setCl s c f) := by
  intro ho
  have ho' : s.ordered = true := ho
  show ∀ c' : Nat, J s.thr (s.cl.modify c f)[c']!
  exact J_modify c f (h ho') (J_same (h ho' c) hf.1 hf.2)

theorem jord_stepHandler {s s' : St} {c k : Nat} (hE : Excl s) (hS : Sh s) (h : JOrd s)
    (hs : stepHandler s c k = some s') : JOrd s' := by
  unfold stepHandler at hs
  split at hs
  case isFalse => simp at hs
  rename_i hc
  dsimp only at hs
  split at hs
  · simp at hs
  split at hs
  · simp at hs
  · -- deq false
    rename_i hp
    split at hs
    · rename_i t rest hq
      injection hs with hs; subst hs
      exact jord_setCl_same c _ h ⟨by simp [line, hJob, hp, hq], rfl⟩
    · split at hs <;> (injection hs with hs; subst hs)
      · exact jord_setCl_same c _ h ⟨by simp [line, hJob, hp], rfl⟩
      · exact jord_setCl_same c _ h ⟨by simp [line, hJob, hp], rfl⟩
  · simp at hs
  · -- waitRes t false
    rename_i t hp
    split at hs <;> (injection hs with hs; subst hs)
    · exact jord_setCl_same c _ h ⟨by simp [line, hJob, hp], rfl⟩
    · rename_i hr
      intro hord
      have hord' : s.ordered = true := hord
      have hm : t ∈ clView s.ordered s.cl[c]! := mem_view_wait hp
      obtain ⟨e1, e2, e3, e4, e5, e6⟩ := hE.client hm
      obtain ⟨q1, q2⟩ := count_view_hHand (by simp [hp]) e5
      have hsq := (((hS t).cl c).wait false hp).1
      have hnr : s.thr[t]!.running = false := by simpa using hr
      have hcb : s.thr[t]!.cb = none := by
        unfold SQ at hsq
        rw [if_pos hord'] at hsq
        rcases hsq.2 with ⟨_, a, _⟩ | ⟨_, a, _⟩ | ⟨_, _, b, _⟩
        · rw [hnr] at a; cases a
        · rw [hnr] at a; cases a
        · exact b
      simp only [setCl_cl, setCl_thr, setThr_cl]
      have hthr : ∀ u, u ≠ t → (setThr s t fun th => { th with res := none }).thr[u]! = s.thr[u]! := by
        intro u hu; rw [thr_setThr, if_neg (fun hx => hu hx.1)]
      intro c'
      rw [get_modify]
      split
      · rename_i hcc
        rw [hcc.1]
        have hold := h hord' c
        unfold J line at hold ⊢
        have hq : s.cl[c]!.queue.map (fun u => jobOf (setThr s t fun th => { th with res := none }).thr[u]!) =
            s.cl[c]!.queue.map (fun u => jobOf s.thr[u]!) :=
          List.map_congr_left fun u m => by rw [hthr u (fun hu => q2 (hu ▸ m))]
        have hcj : cJob (setThr s t fun th => { th with res := none }).thr s.cl[c]!.pc = cJob s.thr s.cl[c]!.pc := by
          cases hpc : s.cl[c]!.pc with
          | enqueue t' =>
            simp only [cJob]
            rw [hthr t' (fun hu => q1 (by rw [hpc, hu]; simp [hord']))]
          | _ => rfl
        simp only [hp, hJob] at hold
        have hjob : jobOf s.thr[t]! = s.thr[t]!.res := by simp [jobOf, hcb]
        simp only [hJob, hq, hcj, ← hold, hjob]
      · rename_i hcc
        have hne : c' ≠ c := fun e => hcc ⟨e, hc⟩
        apply J_congr s.ordered s.thr _ _ hord' _ (h hord' c')
        intro u m
        rw [hthr u (fun hu => e6 c' hne (hu ▸ m))]
  · -- giveBack
    rename_i t r hp
    injection hs with hs; subst hs
    apply jord_signalPool
    have h1 : JOrd { s with idle := t :: s.idle } := h
    exact jord_setCl_same c _ h1 ⟨by simp [line, hJob, hp], rfl⟩
  · -- callback
    rename_i r hp
    injection hs with hs; subst hs
    exact jord_setCl_same c _ h ⟨by simp [line, hJob, hp], rfl⟩
  · simp at hs

theorem jord_spurious {s s' : St} {w : Who} (h : JOrd s) (hs : step s (.spurious w) = some s') : JOrd s' := by
  cases w with
  | owner =>
    simp only [step] at hs
    split at hs
    · injection hs with hs; subst hs; exact h
    · simp at hs
  | client c =>
    simp only [step] at hs
    split at hs
    · rename_i hp
      injection hs with hs; subst hs
      have hp' : s.cl[c]!.pc = .next true := by
        cases hx : s.cl[c]? with
        | none => simp [hx] at hp
        | some x => simp [hx] at hp; simp [getElem!_def, hx, hp]
      exact jord_setCl_same c _ h ⟨by simp [line, cJob, hp'], by simp [pend, hp']⟩
    · simp at hs
  | handler c =>
    simp only [step] at hs
    split at hs
    · rename_i hp
      injection hs with hs; subst hs
      have hp' : s.cl[c]!.hpc = .deq true := by
        cases hx : s.cl[c]? with
        | none => simp [hx] at hp
        | some x => simp [hx] at hp; simp [getElem!_def, hx, hp]
      exact jord_setCl_same c _ h ⟨by simp [line, hJob, hp'], rfl⟩
    · rename_i t hp
      injection hs with hs; subst hs
      have hp' : s.cl[c]!.hpc = .waitRes t true := by
        cases hx : s.cl[c]? with
        | none => simp [hx] at hp
        | some x => simp [hx] at hp; simp [getElem!_def, hx, hp]
      exact jord_setCl_same c _ h ⟨by simp [line, hJob, hp'], rfl⟩
    · simp at hs
  | worker t =>
    simp only [step] at hs
    split at hs
    · injection hs with hs; subst hs
      intro hord
      have hord' : s.ordered = true := hord
      show ∀ c : Nat, J (setThr s t _).thr s.cl[c]!
      apply J_thr_update hord' (h hord')
      intro c u _
      rw [thr_setThr]; split <;> rfl
    · simp at hs

theorem jord_init (n max njobs : Nat) (o : Bool) : JOrd (init n max njobs o) := by
  intro _ c
  by_cases hc : c < n
  · have : (init n max njobs o).cl[c]! = {} := by simp [init, hc]
    rw [this]; exact J_new _
  · have : (init n max njobs o).cl[c]! = default := by simp [init, hc]
    rw [this]; exact J_default _

theorem jord_reachable {n max njobs : Nat} {o : Bool} {s : St} (hr : Reachable n max njobs o s) : JOrd s := by
  induction hr with
  | init => exact jord_init _ _ _ _
  | @step s1 s2 l hr' hs ih =>
    have hI := inv_reachable hr'
    cases l with
    | spurious w => exact jord_spurious ih hs
    | run w k =>
      cases w with
      | owner => exact jord_stepOwner hI.1 ih hs
      | client c => exact jord_stepClient hI.1 hI.2 ih hs
      | handler c => exact jord_stepHandler hI.1 hI.2 ih hs
      | worker t => exact jord_stepWorker hI.2 ih hs

/-! ### what it means for a client -/
theorem range_map_prefix {l r : List (Option Nat)} {n : Nat} (h : l ++ r = (List.range n).map some) :
    l = (List.range l.length).map some := by
  have hlen : l.length ≤ n := by
    have := congrArg List.length h
    simp at this; omega
  have h1 : (l ++ r).take l.length = ((List.range n).map some).take l.length := by rw [h]
  rw [List.take_left, ← List.map_take, List.take_range, Nat.min_eq_left hlen] at h1
  exact h1

/-- ORDERED DELIVERY PER CLIENT, any number of clients on the pool: what client c has been delivered so far is exactly the
    results of its jobs 0, 1, …, in this order (in particular no result twice, none that was not submitted) -/
theorem order_reachable {n max njobs : Nat} {s : St} (hr : Reachable n max njobs true s) (ho : s.ordered = true) (c : Nat) :
    s.cl[c]!.delivered = (List.range s.cl[c]!.delivered.length).map some := by
  have h := jord_reachable hr ho c
  unfold J line at h
  rw [List.append_assoc, List.append_assoc] at h
  exact range_map_prefix h


/-! ### phases of a client: all jobs dispatched before the handler is told to finish; the handler exits with an empty queue;
    the client thread returns after the handler -/
structure Ph (njobs : Nat) (o : Bool) (cl : Client) : Prop where
  le : cl.nextJob + pend cl.pc ≤ njobs
  lt : (cl.pc = .create ∨ ∃ t, cl.pc = .assign t) → cl.nextJob < njobs
  fin : (cl.pc = .finish ∨ cl.pc = .joinH ∨ cl.pc = .done) → cl.nextJob = njobs
  flag : cl.finished = true → (cl.pc = .joinH ∨ cl.pc = .done)
  exit : cl.hpc = .exited → cl.finished = true ∧ (o = true → cl.queue = [])
  done : cl.pc = .done → cl.hpc = .exited

def PhAll (s : St) : Prop := ∀ c : Nat, Ph s.njobs s.ordered s.cl[c]!

theorem Ph_default (n : Nat) (o : Bool) : Ph n o (default : Client) := by
  have h1 : (default : Client).pc = .idle := rfl
  have h2 : (default : Client).hpc = .deq false := by decide
  have h3 : (default : Client).nextJob = 0 := rfl
  have h4 : (default : Client).finished = false := rfl
  exact ⟨by simp [h1, h3, pend], by simp [h1], by simp [h1], by simp [h4], by simp [h2], by simp [h1]⟩

theorem Ph_new (n : Nat) (o : Bool) : Ph n o ({} : Client) :=
  ⟨by simp [pend], by simp, by simp, by simp, by simp, by simp⟩

theorem Ph_wakeH {n : Nat} {o : Bool} {cl : Client} (t : Nat) (h : Ph n o cl) : Ph n o (wakeH t cl) := by
  have e : (wakeH t cl).nextJob = cl.nextJob ∧ (wakeH t cl).finished = cl.finished ∧
      ((wakeH t cl).hpc = .exited → cl.hpc = .exited) := by
    unfold wakeH; split
    · split
      · exact ⟨rfl, rfl, by simp⟩
      · exact ⟨rfl, rfl, id⟩
    · exact ⟨rfl, rfl, id⟩
  refine ⟨by rw [wakeH_pc, e.1]; exact h.le, by rw [wakeH_pc, e.1]; exact h.lt, by rw [wakeH_pc, e.1]; exact h.fin,
    by rw [wakeH_pc, e.2.1]; exact h.flag, fun hx => ?_, fun hx => ?_⟩
  · rw [e.2.1, wakeH_queue]; exact h.exit (e.2.2 hx)
  · rw [wakeH_pc] at hx
    have := h.done hx
    simp [wakeH, this]

theorem ph_map_wakeH {n : Nat} {o : Bool} {cls : Array Client} (t : Nat) (h : ∀ c : Nat, Ph n o cls[c]!) :
    ∀ c : Nat, Ph n o (cls.map (wakeH t))[c]! := by
  intro c
  rw [get_map]
  split
  · exact Ph_wakeH t (h c)
  · exact Ph_default n o

theorem ph_modify {n : Nat} {o : Bool} {cls : Array Client} (c0 : Nat) (f : Client → Client)
    (h : ∀ c : Nat, Ph n o cls[c]!) (hf : Ph n o (f cls[c0]!)) : ∀ c : Nat, Ph n o (cls.modify c0 f)[c]! := by
  intro c
  rw [get_modify]
  split
  · rename_i hc; rw [hc.1]; exact hf
  · exact h c

theorem ph_signalThr {s : St} (t : Nat) (h : PhAll s) : PhAll (signalThr s t) := ph_map_wakeH t h

theorem ph_signalRq {s : St} (c : Nat) (h : PhAll s) : PhAll (signalRq s c) := by
  show ∀ c' : Nat, Ph s.njobs s.ordered (s.cl.modify c _)[c']!
  apply ph_modify c _ h
  have hc := h c
  split
  · rename_i hh
    exact ⟨hc.le, hc.lt, hc.fin, hc.flag, by simp, fun hx => by have := hc.done hx; rw [hh] at this; cases this⟩
  · exact hc

theorem ph_signalPool {s : St} (k : Nat) (h : PhAll s) : PhAll (signalPool s k) := by
  unfold signalPool
  split
  · exact h
  · dsimp only
    split
    · exact h
    · rename_i hne
      have hp := poolSleepers_spec s _ (poolSleepers_pick s k hne)
      generalize (poolSleepers s)[k % (poolSleepers s).length]! = c at hp ⊢
      show ∀ c' : Nat, Ph s.njobs s.ordered (s.cl.modify c _)[c']!
      apply ph_modify c _ h
      have hc := h c
      refine ⟨by have := hc.le; simpa [pend, hp] using this, by simp, by simp,
        fun hx => by have := hc.flag hx; simp [hp] at this, hc.exit, by simp⟩

theorem ph_thr {s : St} (thr' : Array Thr) (h : PhAll s) : PhAll { s with thr := thr' } := h

theorem ph_stepOwner {s s' : St} (h : PhAll s) (hs : stepOwner s = some s') : PhAll s' := by
  unfold stepOwner at hs
  split at hs
  · rename_i i ho
    injection hs with hs; subst hs
    show ∀ c' : Nat, Ph s.njobs s.ordered (s.cl.modify i _)[c']!
    apply ph_modify i _ h
    exact ⟨by simp [pend], by simp, by simp, by simp, by simp, by simp⟩
  · split at hs
    · injection hs with hs; subst hs; exact h
    · simp at hs
  · simp at hs
  · split at hs
    · injection hs with hs; subst hs; exact h
    · split at hs <;> (injection hs with hs; subst hs; exact h)
  · injection hs with hs; subst hs
    exact ph_signalThr _ (show PhAll _ from h)
  · split at hs
    · injection hs with hs; subst hs; exact h
    · simp at hs
  · simp at hs

theorem ph_stepWorker {s s' : St} {t : Nat} (hS : Sh s) (h : PhAll s) (hs : stepWorker s t = some s') : PhAll s' := by
  unfold stepWorker at hs
  split at hs
  case isFalse => simp at hs
  dsimp only at hs
  split at hs
  · simp at hs
  · split at hs <;> (injection hs with hs; subst hs; exact h)
  · split at hs
    · injection hs with hs; subst hs; exact h
    · split at hs <;> (injection hs with hs; subst hs; exact h)
  · rename_i c hp
    injection hs with hs; subst hs
    apply ph_signalRq
    have ho := ((hS t).self (by simp [wN, hp])).1
    show ∀ c' : Nat, Ph s.njobs s.ordered (s.cl.modify c _)[c']!
    apply ph_modify c _ h
    have hc := h c
    exact ⟨hc.le, hc.lt, hc.fin, hc.flag, fun hx => ⟨(hc.exit hx).1, fun hx2 => by rw [ho] at hx2; cases hx2⟩, hc.done⟩
  · injection hs with hs; subst hs
    exact ph_signalThr _ (show PhAll _ from h)
  · simp at hs

theorem ph_stepClient {s s' : St} {c : Nat} (h : PhAll s) (hs : stepClient s c = some s') : PhAll s' := by
  unfold stepClient at hs
  split at hs
  case isFalse => simp at hs
  rename_i hcs
  dsimp only at hs
  have hc := h c
  have upd : ∀ (S : St) (f : Client → Client), S.cl = s.cl → S.njobs = s.njobs → S.ordered = s.ordered →
      Ph s.njobs s.ordered (f s.cl[c]!) → PhAll (setCl S c f) := by
    intro S f h1 h2 h3 hf
    show ∀ c' : Nat, Ph S.njobs S.ordered (S.cl.modify c f)[c']!
    rw [h1, h2, h3]
    exact ph_modify c f h hf
  split at hs
  · simp at hs
  · -- start
    rename_i hp
    injection hs with hs; subst hs
    exact upd s _ rfl rfl rfl ⟨by have := hc.le; simpa [pend, hp] using this, by simp, by simp,
      fun hx => by have := hc.flag hx; simp [hp] at this, hc.exit, by simp⟩
  · rename_i hp
    injection hs with hs; subst hs
    exact upd s _ rfl rfl rfl ⟨by have := hc.le; simpa [pend, hp] using this, by simp, by simp,
      fun hx => by have := hc.flag hx; simp [hp] at this, hc.exit, by simp⟩
  · simp at hs
  · rename_i hp
    split at hs
    · rename_i hj
      injection hs with hs; subst hs
      have hle := hc.le
      simp only [pend, hp, Nat.add_zero] at hle
      exact upd s _ rfl rfl rfl ⟨by simpa [pend] using hle, by simp, fun _ => by show s.cl[c]!.nextJob = s.njobs; omega,
        fun hx => by have := hc.flag hx; simp [hp] at this, hc.exit, by simp⟩
    · rename_i hj
      split at hs
      · injection hs with hs; subst hs
        exact upd _ _ rfl rfl rfl ⟨by have := hc.le; simpa [pend, hp] using this,
          fun _ => by show s.cl[c]!.nextJob < s.njobs; omega, by simp,
          fun hx => by have := hc.flag hx; simp [hp] at this, hc.exit, by simp⟩
      · split at hs
        · injection hs with hs; subst hs
          exact upd s _ rfl rfl rfl ⟨by have := hc.le; simpa [pend, hp] using this, by simp, by simp,
            fun hx => by have := hc.flag hx; simp [hp] at this, hc.exit, by simp⟩
        · injection hs with hs; subst hs
          exact upd _ _ rfl rfl rfl ⟨by have := hc.le; simpa [pend, hp] using this,
            fun _ => by show s.cl[c]!.nextJob < s.njobs; omega, by simp,
            fun hx => by have := hc.flag hx; simp [hp] at this, hc.exit, by simp⟩
  · rename_i hp
    injection hs with hs; subst hs
    have hlt := hc.lt (Or.inl hp)
    exact upd _ _ rfl rfl rfl ⟨by show s.cl[c]!.nextJob + 0 ≤ s.njobs; omega,
      fun _ => hlt, by simp, fun hx => by have := hc.flag hx; simp [hp] at this, hc.exit, by simp⟩
  · rename_i t hp
    injection hs with hs; subst hs
    have hlt := hc.lt (Or.inr ⟨t, hp⟩)
    apply ph_signalThr
    exact upd _ _ rfl rfl rfl ⟨by show s.cl[c]!.nextJob + 1 ≤ s.njobs; omega, by simp, by simp,
      fun hx => by have := hc.flag hx; simp [hp] at this, hc.exit, by simp⟩
  · rename_i t hp
    injection hs with hs; subst hs
    have hle := hc.le
    simp only [pend, hp] at hle
    have hX : PhAll (setCl s c fun cl =>
        { cl with nthreads := cl.nthreads + 1, queue := if s.ordered then cl.queue ++ [t] else cl.queue,
                  pc := .next false, nextJob := cl.nextJob + 1 }) := by
      refine upd s _ rfl rfl rfl ⟨by show s.cl[c]!.nextJob + 1 + 0 ≤ s.njobs; omega, by simp, by simp,
        fun hx => by have := hc.flag hx; simp [hp] at this, fun hx => ?_, by simp⟩
      have := hc.flag (hc.exit hx).1
      simp [hp] at this
    by_cases ho : s.ordered = true
    · simp only [setCl_ordered, ho, if_true] at hX ⊢
      exact ph_signalRq c hX
    · simp only [setCl_ordered, ho, if_false] at hX ⊢
      exact hX
  · rename_i hp
    injection hs with hs; subst hs
    apply ph_signalRq
    have hf := hc.fin (Or.inl hp)
    refine upd s _ rfl rfl rfl ⟨by show s.cl[c]!.nextJob + 0 ≤ s.njobs; omega, by simp, fun _ => hf, by simp,
      fun hx => ?_, by simp⟩
    exact ⟨rfl, (hc.exit hx).2⟩
  · rename_i hp
    split at hs
    · rename_i he
      injection hs with hs; subst hs
      have hf := hc.fin (Or.inr (Or.inl hp))
      exact upd s _ rfl rfl rfl ⟨by show s.cl[c]!.nextJob + 0 ≤ s.njobs; omega, by simp, fun _ => hf, by simp,
        hc.exit, fun _ => he⟩
    · simp at hs
  · simp at hs

theorem ph_stepHandler {s s' : St} {c k : Nat} (h : PhAll s) (hs : stepHandler s c k = some s') : PhAll s' := by
  unfold stepHandler at hs
  split at hs
  case isFalse => simp at hs
  dsimp only at hs
  have hc := h c
  split at hs
  · simp at hs
  have upd : ∀ (S : St) (f : Client → Client), S.cl = s.cl → S.njobs = s.njobs → S.ordered = s.ordered →
      (∀ cl, (f cl).pc = cl.pc ∧ (f cl).nextJob = cl.nextJob ∧ (f cl).finished = cl.finished) →
      ((f s.cl[c]!).hpc = .exited → s.cl[c]!.finished = true ∧ (s.ordered = true → (f s.cl[c]!).queue = [])) →
      (s.cl[c]!.pc = .done → (f s.cl[c]!).hpc = .exited) → PhAll (setCl S c f) := by
    intro S f h1 h2 h3 hf he hd
    show ∀ c' : Nat, Ph S.njobs S.ordered (S.cl.modify c f)[c']!
    rw [h1, h2, h3]
    apply ph_modify c f h
    obtain ⟨f1, f2, f3⟩ := hf s.cl[c]!
    exact ⟨by rw [f1, f2]; exact hc.le, by rw [f1, f2]; exact hc.lt, by rw [f1, f2]; exact hc.fin,
      by rw [f1, f3]; exact hc.flag, fun hx => by rw [f3]; exact he hx, fun hx => by rw [f1] at hx; exact hd hx⟩
  -- the handler is alive, so the client has not returned
  have alive : ∀ x, s.cl[c]!.hpc = x → x ≠ .exited → s.cl[c]!.pc ≠ .done := by
    intro x hx hne hd
    have := hc.done hd
    rw [hx] at this; exact hne this
  split at hs
  · simp at hs
  · rename_i hp
    have hnd := alive _ hp (by simp)
    split at hs
    · rename_i t rest hq
      injection hs with hs; subst hs
      exact upd s _ rfl rfl rfl (fun _ => ⟨rfl, rfl, rfl⟩) (by simp) (fun hx => absurd hx hnd)
    · split at hs
      · rename_i hq hfin
        injection hs with hs; subst hs
        refine upd s _ rfl rfl rfl (fun _ => ⟨rfl, rfl, rfl⟩) (fun _ => ⟨?_, fun _ => hq⟩) (fun hx => absurd hx hnd)
        simp only [Bool.and_eq_true] at hfin; exact hfin.1
      · injection hs with hs; subst hs
        exact upd s _ rfl rfl rfl (fun _ => ⟨rfl, rfl, rfl⟩) (by simp) (fun hx => absurd hx hnd)
  · simp at hs
  · rename_i t hp
    have hnd := alive _ hp (by simp)
    split at hs <;> (injection hs with hs; subst hs)
    · exact upd s _ rfl rfl rfl (fun _ => ⟨rfl, rfl, rfl⟩) (by simp) (fun hx => absurd hx hnd)
    · exact upd _ _ rfl rfl rfl (fun _ => ⟨rfl, rfl, rfl⟩) (by simp) (fun hx => absurd hx hnd)
  · rename_i t r hp
    have hnd := alive _ hp (by simp)
    injection hs with hs; subst hs
    apply ph_signalPool
    exact upd _ _ rfl rfl rfl (fun _ => ⟨rfl, rfl, rfl⟩) (by simp) (fun hx => absurd hx hnd)
  · rename_i r hp
    have hnd := alive _ hp (by simp)
    injection hs with hs; subst hs
    exact upd s _ rfl rfl rfl (fun _ => ⟨rfl, rfl, rfl⟩) (by simp) (fun hx => absurd hx hnd)
  · simp at hs

theorem ph_spurious {s s' : St} {w : Who} (h : PhAll s) (hs : step s (.spurious w) = some s') : PhAll s' := by
  cases w with
  | owner =>
    simp only [step] at hs
    split at hs
    · injection hs with hs; subst hs; exact h
    · simp at hs
  | client c =>
    simp only [step] at hs
    split at hs
    · rename_i hp
      injection hs with hs; subst hs
      have hp' : s.cl[c]!.pc = .next true := by
        cases hx : s.cl[c]? with
        | none => simp [hx] at hp
        | some x => simp [hx] at hp; simp [getElem!_def, hx, hp]
      have hc := h c
      show ∀ c' : Nat, Ph s.njobs s.ordered (s.cl.modify c _)[c']!
      apply ph_modify c _ h
      exact ⟨by have := hc.le; simpa [pend, hp'] using this, by simp, by simp,
        fun hx => by have := hc.flag hx; simp [hp'] at this, hc.exit, by simp⟩
    · simp at hs
  | handler c =>
    have hc := h c
    simp only [step] at hs
    split at hs
    · rename_i hp
      injection hs with hs; subst hs
      have hp' : s.cl[c]!.hpc = .deq true := by
        cases hx : s.cl[c]? with
        | none => simp [hx] at hp
        | some x => simp [hx] at hp; simp [getElem!_def, hx, hp]
      show ∀ c' : Nat, Ph s.njobs s.ordered (s.cl.modify c _)[c']!
      apply ph_modify c _ h
      exact ⟨hc.le, hc.lt, hc.fin, hc.flag, by simp, fun hx => by have := hc.done hx; rw [hp'] at this; cases this⟩
    · rename_i t hp
      injection hs with hs; subst hs
      have hp' : s.cl[c]!.hpc = .waitRes t true := by
        cases hx : s.cl[c]? with
        | none => simp [hx] at hp
        | some x => simp [hx] at hp; simp [getElem!_def, hx, hp]
      show ∀ c' : Nat, Ph s.njobs s.ordered (s.cl.modify c _)[c']!
      apply ph_modify c _ h
      exact ⟨hc.le, hc.lt, hc.fin, hc.flag, by simp, fun hx => by have := hc.done hx; rw [hp'] at this; cases this⟩
    · simp at hs
  | worker t =>
    simp only [step] at hs
    split at hs
    · injection hs with hs; subst hs; exact h
    · simp at hs

theorem ph_init (n max njobs : Nat) (o : Bool) : PhAll (init n max njobs o) := by
  intro c
  by_cases hc : c < n
  · have : (init n max njobs o).cl[c]! = {} := by simp [init, hc]
    rw [this]; exact Ph_new _ _
  · have : (init n max njobs o).cl[c]! = default := by simp [init, hc]
    rw [this]; exact Ph_default _ _

theorem ph_reachable {n max njobs : Nat} {o : Bool} {s : St} (hr : Reachable n max njobs o s) : PhAll s := by
  induction hr with
  | init => exact ph_init _ _ _ _
  | @step s1 s2 l hr' hs ih =>
    have hI := inv_reachable hr'
    cases l with
    | spurious w => exact ph_spurious ih hs
    | run w k =>
      cases w with
      | owner => exact ph_stepOwner ih hs
      | client c => exact ph_stepClient ih hs
      | handler c => exact ph_stepHandler ih hs
      | worker t => exact ph_stepWorker hI.2 ih hs

/-- ALL RESULTS BEFORE THE CLIENT RETURNS, any number of clients on the pool (ordered delivery): when client c's thread has
    returned from result_handler_destroy, it has been delivered the results of all its `njobs` jobs, in order -/
theorem complete_reachable {n max njobs : Nat} {o : Bool} {s : St} (hr : Reachable n max njobs o s)
    (ho : s.ordered = true) (c : Nat) (hd : s.cl[c]!.pc = .done) :
    s.cl[c]!.delivered = (List.range s.njobs).map some := by
  have hJ := jord_reachable hr ho c
  have hP := ph_reachable hr c
  have he := hP.done hd
  have hq := (hP.exit he).2 ho
  have hn := hP.fin (Or.inr (Or.inr hd))
  unfold J line at hJ
  simp only [he, hq, hd, hJob, cJob, pend, List.map_nil, List.append_nil, Nat.add_zero, hn] at hJ
  exact hJ


/-! ### a deterministic scheduler, for non-vacuity examples: always the first enabled thread -/
def allWho (s : St) : List Who :=
  .owner :: ((List.range s.cl.size).flatMap fun c => [Who.client c, Who.handler c]) ++ (List.range s.thr.size).map Who.worker
def firstEnabled (s : St) : Option Lbl :=
  (allWho s).findSome? fun w => if (step s (.run w 0)).isSome then some (.run w 0) else none
def runAuto : Nat → St → St
  | 0, s => s
  | f + 1, s => match firstEnabled s with
    | some l => runAuto f ((step s l).getD s)
    | none => s
theorem reachable_runAuto {n max njobs : Nat} {o : Bool} (f : Nat) {s : St} (h : Reachable n max njobs o s) :
    Reachable n max njobs o (runAuto f s) := by
  induction f generalizing s with
  | zero => exact h
  | succ f ih =>
    unfold runAuto
    split
    · rename_i l _
      cases hs : step s l with
      | none => simp only [Option.getD_none]; exact ih h
      | some s' => simp only [Option.getD_some]; exact ih (Reachable.step h hs)
    · exact h

end TpK
