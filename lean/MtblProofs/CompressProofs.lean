import MtblModel.Compress
import MtblProofs.VarintProofs
/-
  C15 — proofs about the compression wrappers (MtblModel/Compress.lean).
-/
namespace Mtbl
namespace Cz

theorem U32_eq : U32 = 2 ^ 32 := by decide
theorem INT_MAX_lt_U32 : INT_MAX < U32 := by decide

/-! ### 1. levels -/

@[simp] theorem effLevel_none (L : Lib) (l : Option Int) : effLevel L .none l = 0 := rfl
@[simp] theorem effLevel_snappy (L : Lib) (l : Option Int) : effLevel L .snappy l = 0 := rfl
@[simp] theorem effLevel_lz4 (L : Lib) (l : Option Int) : effLevel L .lz4 l = 0 := rfl
@[simp] theorem effLevel_zlib_default (L : Lib) : effLevel L .zlib none = -1 := rfl
@[simp] theorem effLevel_zlib (L : Lib) (l : Int) :
    effLevel L .zlib (some l) = if l < -1 then 0 else if l > 9 then 9 else l := rfl
@[simp] theorem effLevel_lz4hc_default (L : Lib) : effLevel L .lz4hc none = 9 := rfl
@[simp] theorem effLevel_lz4hc (L : Lib) (l : Int) :
    effLevel L .lz4hc (some l) = if l < 0 then 0 else l := rfl
@[simp] theorem effLevel_zstd_default (L : Lib) :
    effLevel L .zstd none = if 9 < L.zstdMin then L.zstdMin else if 9 > L.zstdMax then L.zstdMax else 9 := rfl
@[simp] theorem effLevel_zstd (L : Lib) (l : Int) :
    effLevel L .zstd (some l) = if l < L.zstdMin then L.zstdMin else if l > L.zstdMax then L.zstdMax else l := rfl

theorem effLevel_zlib_range (L : Lib) (l : Option Int) : -1 ≤ effLevel L .zlib l ∧ effLevel L .zlib l ≤ 9 := by
  cases l with
  | none => simp
  | some l => simp only [effLevel_zlib]; split <;> (try split) <;> omega

theorem effLevel_lz4hc_range (L : Lib) (l : Option Int) : 0 ≤ effLevel L .lz4hc l := by
  cases l with
  | none => simp
  | some l => simp only [effLevel_lz4hc]; split <;> omega

theorem effLevel_zstd_range (L : Lib) (hmm : L.zstdMin ≤ L.zstdMax) (l : Option Int) :
    L.zstdMin ≤ effLevel L .zstd l ∧ effLevel L .zstd l ≤ L.zstdMax := by
  cases l with
  | none => simp only [effLevel_zstd_default]; split <;> (try split) <;> omega
  | some l => simp only [effLevel_zstd]; split <;> (try split) <;> omega

/-- a level inside the library's range is handed over unchanged -/
theorem effLevel_zlib_id (L : Lib) (l : Int) (h1 : -1 ≤ l) (h2 : l ≤ 9) : effLevel L .zlib (some l) = l := by
  simp only [effLevel_zlib]; split <;> (try split) <;> omega
theorem effLevel_lz4hc_id (L : Lib) (l : Int) (h1 : 0 ≤ l) : effLevel L .lz4hc (some l) = l := by
  simp only [effLevel_lz4hc]; split <;> omega
theorem effLevel_zstd_id (L : Lib) (l : Int) (h1 : L.zstdMin ≤ l) (h2 : l ≤ L.zstdMax) :
    effLevel L .zstd (some l) = l := by
  simp only [effLevel_zstd]; split <;> (try split) <;> omega

/-- `compress` only looks at the level through `effLevel` -/
theorem compress_level_congr (f : Bool) (L : Lib) (a : Algo) (l₁ l₂ : Option Int) (input : Bytes)
    (h : effLevel L a l₁ = effLevel L a l₂) : compress f L a l₁ input = compress f L a l₂ input := by
  simp only [compress, h]

/-- snappy and lz4 ignore the level -/
theorem compress_snappy_level (f : Bool) (L : Lib) (l₁ l₂ : Option Int) (input : Bytes) :
    compress f L .snappy l₁ input = compress f L .snappy l₂ input := compress_level_congr _ _ _ _ _ _ rfl
theorem compress_lz4_level (f : Bool) (L : Lib) (l₁ l₂ : Option Int) (input : Bytes) :
    compress f L .lz4 l₁ input = compress f L .lz4 l₂ input := compress_level_congr _ _ _ _ _ _ rfl

/-- `mtbl_compress` is `mtbl_compress_level` at the built-in default -/
theorem compress_default_zlib (f : Bool) (L : Lib) (input : Bytes) :
    compress f L .zlib none input = compress f L .zlib (some (-1)) input := compress_level_congr _ _ _ _ _ _ rfl
theorem compress_default_lz4hc (f : Bool) (L : Lib) (input : Bytes) :
    compress f L .lz4hc none input = compress f L .lz4hc (some 9) input := compress_level_congr _ _ _ _ _ _ rfl
theorem compress_default_zstd (f : Bool) (L : Lib) (input : Bytes) :
    compress f L .zstd none input = compress f L .zstd (some 9) input := compress_level_congr _ _ _ _ _ _ rfl

/-! #### what exactly reaches the library, per algorithm -/

theorem compress_snappy (f : Bool) (L : Lib) (l : Option Int) (input : Bytes) :
    compress f L .snappy l input =
      match L.comp .snappy 0 (L.bound .snappy input.length) input with
      | some o => .ok o
      | none => .fail := rfl

theorem compress_zlib (f : Bool) (L : Lib) (l : Option Int) (input : Bytes) :
    compress f L .zlib l input =
      let cap := if f then L.deflateBound (effLevel L .zlib l) input.length else 2 * input.length
      if input.length ≥ U32 ∨ cap ≥ U32 then .wrap
      else match L.comp .zlib (effLevel L .zlib l) cap input with
        | some o => .ok o
        | none => .abort := by
  have hr := effLevel_zlib_range L l
  simp only [compress, libCap, dstCap]
  rw [if_neg (by omega)]
  rfl

theorem compress_lz4 (f : Bool) (L : Lib) (l : Option Int) (input : Bytes) :
    compress f L .lz4 l input =
      if input.length > INT_MAX then .fail
      else match L.comp .lz4 0 (L.bound .lz4 input.length) input with
        | none => .fail
        | some o => if o.isEmpty then .fail else .ok (fixed32 input.length ++ o) := by
  simp only [compress, libCap, dstCap, effLevel_lz4, Nat.add_sub_cancel]
  rfl

theorem compress_lz4hc (f : Bool) (L : Lib) (l : Option Int) (input : Bytes) :
    compress f L .lz4hc l input =
      if input.length > INT_MAX then .fail
      else match L.comp .lz4hc (effLevel L .lz4hc l) (L.bound .lz4 input.length) input with
        | none => .fail
        | some o => if o.isEmpty then .fail else .ok (fixed32 input.length ++ o) := by
  simp only [compress, libCap, dstCap, Nat.add_sub_cancel]
  rfl

theorem compress_zstd (f : Bool) (L : Lib) (l : Option Int) (input : Bytes) :
    compress f L .zstd l input =
      if input.length > INT_MAX then .fail
      else match L.comp .zstd (effLevel L .zstd l)
          (if L.bound .zstd input.length < INT_MAX / 2 then 2 * L.bound .zstd input.length
           else L.bound .zstd input.length) input with
        | some o => .ok o
        | none => .fail := by
  simp only [compress, libCap, dstCap]
  rfl

/-! ### 2. round trip -/

theorem sized_eq {size : Nat} {o : Bytes} (h : o.length = size) : sized size o = o := by
  simp [sized, ← h]

/-- the grow loop ends with the original as soon as the buffer is large enough, and never aborts before -/
theorem inflateLoop_ok {L : Lib} (h : LibOK L) {lvl : Int} {cap : Nat} {inp out : Bytes}
    (hc : L.comp .zlib lvl cap inp = some out) (hn : inp.length < U32) :
    ∀ fuel room, inp.length ≤ room * 2 ^ fuel → inflateLoop L out fuel room = .ok inp := by
  intro fuel
  induction fuel with
  | zero =>
    intro room hr
    have hd := h.roundtrip .zlib lvl cap inp out room (by decide) hn hc (by omega)
    simp only [decoder] at hd
    rw [inflateLoop, hd]
  | succ fuel ih =>
    intro room hr
    by_cases hle : inp.length ≤ room
    · have hd := h.roundtrip .zlib lvl cap inp out room (by decide) hn hc hle
      simp only [decoder] at hd
      rw [inflateLoop, hd]
    · have hd := h.zlib_too_small lvl cap inp out room hc (by omega)
      rw [inflateLoop, hd]
      simp only
      rw [if_neg (by omega)]
      apply ih
      rw [Nat.pow_succ] at hr
      rw [Nat.mul_comm 2 room, Nat.mul_assoc, Nat.mul_comm 2]
      exact hr

/-- the statement shape of C15 for one call -/
def RT (f4 f5 : Bool) (L : Lib) (a : Algo) (level : Option Int) (input : Bytes) : Prop :=
  compress f4 L a level input = .fail ∨
    ∃ out, compress f4 L a level input = .ok out ∧ decompress f5 L a out = .ok input

theorem rt_snappy (f4 f5 : Bool) {L : Lib} (h : LibOK L) (level : Option Int) (input : Bytes)
    (hn : input.length < U32) : RT f4 f5 L .snappy level input := by
  unfold RT
  rw [compress_snappy]
  cases hc : L.comp .snappy 0 (L.bound .snappy input.length) input with
  | none => exact Or.inl rfl
  | some o =>
    refine Or.inr ⟨o, rfl, ?_⟩
    have hs := h.snappy_size _ _ _ _ hn hc
    have hd := h.roundtrip .snappy _ _ _ _ input.length (by decide) hn hc (Nat.le_refl _)
    simp only [decoder] at hd
    simp only [decompress, hs, hd]

theorem rt_zstd (f4 f5 : Bool) {L : Lib} (h : LibOK L) (level : Option Int) (input : Bytes)
    (hn : input.length ≤ INT_MAX) (hb : L.bound .zstd input.length ≤ INT_MAX)
    (h5 : f5 = false → input.length ≠ 0) : RT f4 f5 L .zstd level input := by
  unfold RT
  rw [compress_zstd, if_neg (by omega)]
  have hn' : input.length < U32 := by have := INT_MAX_lt_U32; omega
  generalize hcap : (if L.bound .zstd input.length < INT_MAX / 2 then 2 * L.bound .zstd input.length
           else L.bound .zstd input.length) = cap
  have hcapb : cap ≤ INT_MAX := by
    have h2 : INT_MAX / 2 = 1073741823 := by decide
    rw [← hcap, h2]
    by_cases hlt : L.bound .zstd input.length < 1073741823
    · rw [if_pos hlt]; simp only [INT_MAX]; omega
    · rw [if_neg hlt]; exact hb
  cases hc : L.comp .zstd (effLevel L .zstd level) cap input with
  | none => exact Or.inl rfl
  | some o =>
    refine Or.inr ⟨o, rfl, ?_⟩
    have hs := h.zstd_size _ _ _ _ hn' hc
    have hf := h.fits _ _ _ _ _ hc
    have hd := h.roundtrip .zstd _ _ _ _ input.length (by decide) hn' hc (Nat.le_refl _)
    simp only [decoder] at hd
    have hz : ¬ (input.length = 0 ∧ (!f5) = true) := by
      cases f5 with
      | true => simp
      | false => intro hh; exact h5 rfl hh.1
    simp only [decompress, hs, hd]
    rw [if_neg (by omega), if_neg hz, sized_eq rfl]

theorem rt_lz4_aux (f5 : Bool) {L : Lib} (h : LibOK L) (a : Algo) (ha : a = .lz4 ∨ a = .lz4hc) (lvl : Int)
    (input o : Bytes) (hn : input.length ≤ INT_MAX) (hb : L.bound .lz4 input.length + 4 ≤ INT_MAX)
    (hc : L.comp a lvl (L.bound .lz4 input.length) input = some o) :
    decompress f5 L a (fixed32 input.length ++ o) = .ok input := by
  have hn' : input.length < U32 := by have := INT_MAX_lt_U32; omega
  have hf := h.fits _ _ _ _ _ hc
  have hd : L.decomp .lz4 input.length o = .ok input := by
    have := h.roundtrip a _ _ _ _ input.length (by rcases ha with rfl | rfl <;> decide) hn' hc (Nat.le_refl _)
    rcases ha with rfl | rfl <;> simpa only [decoder] using this
  have hlen : (fixed32 input.length ++ o).length = 4 + o.length := by
    rw [List.length_append, fixed32_length]
  have hdec : dec32 (fixed32 input.length ++ o) = input.length :=
    dec32_fixed32 (by rw [← U32_eq]; exact hn') o
  have hdrop : (fixed32 input.length ++ o).drop 4 = o := by
    rw [List.drop_append_of_le_length (by rw [fixed32_length]; omega)]
    simp [fixed32]
  have key : (if (fixed32 input.length ++ o).length > INT_MAX ∨ (fixed32 input.length ++ o).length < 4 then CRes.fail
      else if dec32 (fixed32 input.length ++ o) > INT_MAX then CRes.fail
      else match L.decomp .lz4 (dec32 (fixed32 input.length ++ o)) ((fixed32 input.length ++ o).drop 4) with
        | .ok w => .ok (sized (dec32 (fixed32 input.length ++ o)) w)
        | _ => .fail) = .ok input := by
    rw [hdec, hdrop, hlen, if_neg (by omega), if_neg (by omega), hd]
    simp only
    rw [sized_eq rfl]
  rcases ha with rfl | rfl <;> exact key

theorem rt_lz4 (f4 f5 : Bool) {L : Lib} (h : LibOK L) (level : Option Int) (input : Bytes)
    (hn : input.length ≤ INT_MAX) (hb : L.bound .lz4 input.length + 4 ≤ INT_MAX) :
    RT f4 f5 L .lz4 level input := by
  unfold RT
  rw [compress_lz4, if_neg (by omega)]
  cases hc : L.comp .lz4 0 (L.bound .lz4 input.length) input with
  | none => exact Or.inl rfl
  | some o =>
    by_cases he : o.isEmpty = true
    · left; simp only [he, if_true]
    · right
      refine ⟨fixed32 input.length ++ o, by simp only [he]; rfl, ?_⟩
      exact rt_lz4_aux f5 h .lz4 (Or.inl rfl) 0 input o hn hb hc

theorem rt_lz4hc (f4 f5 : Bool) {L : Lib} (h : LibOK L) (level : Option Int) (input : Bytes)
    (hn : input.length ≤ INT_MAX) (hb : L.bound .lz4 input.length + 4 ≤ INT_MAX) :
    RT f4 f5 L .lz4hc level input := by
  unfold RT
  rw [compress_lz4hc, if_neg (by omega)]
  cases hc : L.comp .lz4hc (effLevel L .lz4hc level) (L.bound .lz4 input.length) input with
  | none => exact Or.inl rfl
  | some o =>
    by_cases he : o.isEmpty = true
    · left; simp only [he, if_true]
    · right
      refine ⟨fixed32 input.length ++ o, by simp only [he]; rfl, ?_⟩
      exact rt_lz4_aux f5 h .lz4hc (Or.inr rfl) _ input o hn hb hc

/-- zlib compression SUCCEEDS whenever the destination is at least `deflateBound` and the 32-bit counters hold -/
theorem compress_zlib_ok (f4 : Bool) {L : Lib} (h : LibOK L) (level : Option Int) (input : Bytes)
    (hn : input.length < U32)
    (hcap : dstCap f4 L .zlib (effLevel L .zlib level) input.length < U32)
    (h4 : f4 = false → L.deflateBound (effLevel L .zlib level) input.length ≤ 2 * input.length) :
    ∃ out, compress f4 L .zlib level input = .ok out ∧
      L.comp .zlib (effLevel L .zlib level) (dstCap f4 L .zlib (effLevel L .zlib level) input.length) input = some out := by
  have hr := effLevel_zlib_range L level
  rw [compress_zlib]
  simp only [dstCap] at hcap ⊢
  have hb : L.deflateBound (effLevel L .zlib level) input.length ≤
      (if f4 = true then L.deflateBound (effLevel L .zlib level) input.length else 2 * input.length) := by
    cases f4 with
    | true => simp
    | false => simpa using h4 rfl
  have hs := h.zlib_finishes _ _ input hr.1 hr.2 hn hb
  rw [if_neg (by omega)]
  cases hc : L.comp .zlib (effLevel L .zlib level)
      (if f4 = true then L.deflateBound (effLevel L .zlib level) input.length else 2 * input.length) input with
  | none => rw [hc] at hs; simp at hs
  | some o => exact ⟨o, rfl, rfl⟩

theorem rt_zlib (f4 f5 : Bool) {L : Lib} (h : LibOK L) (level : Option Int) (input : Bytes)
    (hn : input.length ≤ INT_MAX)
    (hfit : 4 * dstCap f4 L .zlib (effLevel L .zlib level) input.length + 1024 < U32)
    (h4 : f4 = false → L.deflateBound (effLevel L .zlib level) input.length ≤ 2 * input.length) :
    RT f4 f5 L .zlib level input := by
  have hn' : input.length < U32 := by have := INT_MAX_lt_U32; omega
  obtain ⟨out, hco, hc⟩ := compress_zlib_ok f4 h level input hn' (by omega) h4
  refine Or.inr ⟨out, hco, ?_⟩
  have hf := h.fits _ _ _ _ _ hc
  have hloop := inflateLoop_ok h hc hn' 32 (4 * out.length - (4 * out.length) % 1024 + 1024) (by
    have h1 : INT_MAX ≤ 1024 * 2 ^ 32 := by decide
    have h2 : 1024 ≤ 4 * out.length - (4 * out.length) % 1024 + 1024 := by omega
    exact Nat.le_trans (Nat.le_trans hn h1) (Nat.mul_le_mul_right _ h2))
  simp only [decompress]
  rw [if_neg (by have := Nat.mod_le (4 * out.length) 1024; omega)]
  exact hloop

/-- C15 for both the pinned and the repaired wrappers: the two side conditions `h4`, `h5` are exactly what the
    defects F4 and F5 violate, and they are vacuous for the repaired code (`f4 = f5 = true`). -/
theorem roundtrip_gen (f4 f5 : Bool) {L : Lib} (h : LibOK L) (a : Algo) (ha : a ≠ .none) (level : Option Int)
    (input : Bytes) (hn : input.length ≤ INT_MAX)
    (hfit : Fits f4 L a (effLevel L a level) input.length)
    (h4 : f4 = false → a = .zlib → L.deflateBound (effLevel L .zlib level) input.length ≤ 2 * input.length)
    (h5 : f5 = false → a = .zstd → input.length ≠ 0) :
    RT f4 f5 L a level input := by
  have hn' : input.length < U32 := by have := INT_MAX_lt_U32; omega
  cases a with
  | none => exact absurd rfl ha
  | snappy => exact rt_snappy f4 f5 h level input hn'
  | zlib => exact rt_zlib f4 f5 h level input hn hfit (fun e => h4 e rfl)
  | lz4 => exact rt_lz4 f4 f5 h level input hn hfit
  | lz4hc => exact rt_lz4hc f4 f5 h level input hn hfit
  | zstd => exact rt_zstd f4 f5 h level input hn hfit (fun e => h5 e rfl)

/-- `BoundSane` and "at most 512 MiB" imply the size side conditions, for every algorithm and level -/
theorem fits_of_boundSane {L : Lib} (hb : BoundSane L) (a : Algo) (lvl : Int) (n : Nat) (hn : n ≤ 536870912) :
    Fits true L a lvl n := by
  have h1 := hb.1 .lz4 n
  have h2 := hb.1 .zstd n
  have h3 := hb.2 lvl n
  cases a <;> simp only [Fits, dstCap, U32, INT_MAX, if_true] <;> omega

/-! ### 3. no abort, `none`, unknown enum values -/

theorem compress_none (f : Bool) (L : Lib) (l : Option Int) (input : Bytes) : compress f L .none l input = .fail := rfl
theorem decompress_none (f : Bool) (L : Lib) (stored : Bytes) : decompress f L .none stored = .fail := rfl

theorem compressT_unknown (f : Bool) (L : Lib) (t : Nat) (ht : 6 ≤ t) (l : Option Int) (input : Bytes) :
    compressT f L t l input = .fail := by
  match t, ht with
  | n + 6, _ => rfl

theorem decompressT_unknown (f : Bool) (L : Lib) (t : Nat) (ht : 6 ≤ t) (stored : Bytes) :
    decompressT f L t stored = .fail := by
  match t, ht with
  | n + 6, _ => rfl

/-- the snappy, lz4, lz4hc and zstd compress wrappers contain no assertion: whatever the library does
    (no `LibOK` needed) and whatever the input size, the result is success or reported failure -/
theorem compress_graceful_of_ne_zlib (f : Bool) (L : Lib) (a : Algo) (ha : a ≠ .zlib) (l : Option Int)
    (input : Bytes) : (compress f L a l input).graceful = true := by
  cases a with
  | zlib => exact absurd rfl ha
  | none => rfl
  | snappy => rw [compress_snappy]; split <;> rfl
  | lz4 => rw [compress_lz4]; repeat' split
           all_goals rfl
  | lz4hc => rw [compress_lz4hc]; repeat' split
             all_goals rfl
  | zstd => rw [compress_zstd]; repeat' split
            all_goals rfl

/-- with the repaired zstd wrapper, decompression of ANY bytes by snappy, lz4, lz4hc, zstd is success or failure -/
theorem decompress_graceful_of_ne_zlib (L : Lib) (a : Algo) (ha : a ≠ .zlib) (stored : Bytes) :
    (decompress true L a stored).graceful = true := by
  cases a with
  | zlib => exact absurd rfl ha
  | none => rfl
  | snappy => simp only [decompress]; repeat' split
              all_goals rfl
  | lz4 => simp only [decompress, decompressLz4]; repeat' split
           all_goals rfl
  | lz4hc => simp only [decompress, decompressLz4]; repeat' split
             all_goals rfl
  | zstd => simp only [decompress]; repeat' split
            all_goals first | rfl | simp_all

/-! ### 4. the name table -/

theorem caseEq_iff (s name : String) : caseEq s name = true ↔ s.toList.map Char.toLower = name.toList := by
  unfold caseEq
  rw [beq_iff_eq, ← String.toList_inj, String.toLower, String.toList_map]

/-- the table as a function of the case-folded characters -/
def fromChars (cs : List Char) : Option Nat :=
  if cs = ['n','o','n','e'] then some 0
  else if cs = ['s','n','a','p','p','y'] then some 1
  else if cs = ['z','l','i','b'] then some 2
  else if cs = ['l','z','4'] then some 3
  else if cs = ['l','z','4','h','c'] then some 4
  else if cs = ['z','s','t','d'] then some 5
  else none

theorem decide_caseEq (s name : String) :
    caseEq s name = decide (s.toList.map Char.toLower = name.toList) := by
  rw [Bool.eq_iff_iff, caseEq_iff, decide_eq_true_iff]

theorem typeFromStr_eq (s : String) : typeFromStr s = fromChars (s.toList.map Char.toLower) := by
  have e0 : "none".toList = ['n','o','n','e'] := by decide
  have e1 : "snappy".toList = ['s','n','a','p','p','y'] := by decide
  have e2 : "zlib".toList = ['z','l','i','b'] := by decide
  have e3 : "lz4".toList = ['l','z','4'] := by decide
  have e4 : "lz4hc".toList = ['l','z','4','h','c'] := by decide
  have e5 : "zstd".toList = ['z','s','t','d'] := by decide
  simp only [typeFromStr, fromChars, decide_caseEq, e0, e1, e2, e3, e4, e5, decide_eq_true_eq]

theorem names_roundtrip : ∀ t, t < 6 → ∃ s, typeToStr t = some s ∧ typeFromStr s = some t := by
  intro t ht
  match t, ht with
  | 0, _ => exact ⟨"none", rfl, by rw [typeFromStr_eq]; decide⟩
  | 1, _ => exact ⟨"snappy", rfl, by rw [typeFromStr_eq]; decide⟩
  | 2, _ => exact ⟨"zlib", rfl, by rw [typeFromStr_eq]; decide⟩
  | 3, _ => exact ⟨"lz4", rfl, by rw [typeFromStr_eq]; decide⟩
  | 4, _ => exact ⟨"lz4hc", rfl, by rw [typeFromStr_eq]; decide⟩
  | 5, _ => exact ⟨"zstd", rfl, by rw [typeFromStr_eq]; decide⟩

theorem typeToStr_unknown : ∀ t, 6 ≤ t → typeToStr t = none := by
  intro t ht
  match t, ht with
  | n + 6, _ => rfl

/-- the names as character lists -/
def nameChars : Nat → Option (List Char)
  | 0 => some ['n','o','n','e']
  | 1 => some ['s','n','a','p','p','y']
  | 2 => some ['z','l','i','b']
  | 3 => some ['l','z','4']
  | 4 => some ['l','z','4','h','c']
  | 5 => some ['z','s','t','d']
  | _ => none

theorem typeToStr_chars (t : Nat) : (typeToStr t).map String.toList = nameChars t := by
  match t with
  | 0 => decide
  | 1 => decide
  | 2 => decide
  | 3 => decide
  | 4 => decide
  | 5 => decide
  | n + 6 => rfl

theorem fromChars_iff (cs : List Char) (t : Nat) : fromChars cs = some t ↔ nameChars t = some cs := by
  constructor
  · intro h
    unfold fromChars at h
    repeat' split at h
    all_goals first
      | (cases h; subst_vars; rfl)
      | cases h
  · intro h
    match t, h with
    | 0, h => cases h; decide
    | 1, h => cases h; decide
    | 2, h => cases h; decide
    | 3, h => cases h; decide
    | 4, h => cases h; decide
    | 5, h => cases h; decide
    | n + 6, h => cases h

/-- EXACT characterisation of `mtbl_compression_type_from_str`: a string is accepted, with value `t`, iff folding
    its letters A–Z to lower case gives the name `mtbl_compression_type_to_str` prints for `t` -/
theorem typeFromStr_iff (s : String) (t : Nat) :
    typeFromStr s = some t ↔ typeToStr t = some s.toLower := by
  rw [typeFromStr_eq, fromChars_iff, ← typeToStr_chars]
  cases h : typeToStr t with
  | none => simp
  | some nm =>
    simp only [Option.map_some, Option.some.injEq]
    rw [← String.toList_inj (s₁ := nm), String.toLower, String.toList_map]

theorem typeFromStr_lt (s : String) (t : Nat) (h : typeFromStr s = some t) : t < 6 := by
  rw [typeFromStr_iff] at h
  apply Classical.byContradiction
  intro hge
  rw [typeToStr_unknown t (by omega)] at h
  cases h

/-- unknown names are refused -/
theorem typeFromStr_none_iff (s : String) : typeFromStr s = none ↔ ∀ t, typeToStr t ≠ some s.toLower := by
  constructor
  · intro h t ht
    rw [← typeFromStr_iff, h] at ht
    cases ht
  · intro h
    cases hs : typeFromStr s with
    | none => rfl
    | some t => exact absurd ((typeFromStr_iff s t).1 hs) (h t)

/-! ### 5. the toy library satisfies the contracts -/

theorem toyHdr_length (a : Algo) (n : Nat) : (toyHdr a n).length = toyHdrLen a := by
  cases a <;> rfl

theorem toyHdrLen_decoder (a : Algo) : toyHdrLen (decoder a) = toyHdrLen a := by
  cases a <;> rfl

theorem toy_comp_some {a : Algo} {lvl : Int} {cap : Nat} {inp out : Bytes}
    (h : toy.comp a lvl cap inp = some out) :
    out = toyHdr a inp.length ++ inp ∧ toyHdrLen a + inp.length ≤ cap := by
  simp only [toy] at h
  split at h
  · rename_i hle
    rw [List.length_append, toyHdr_length] at hle
    cases h
    exact ⟨rfl, hle⟩
  · cases h

theorem toy_drop (a : Algo) (n : Nat) (inp : Bytes) : (toyHdr a n ++ inp).drop (toyHdrLen a) = inp := by
  rw [← toyHdr_length a n, List.drop_left]

theorem toyLen_hdr {n : Nat} (hn : n < U32) (inp : Bytes) : toyLen (fixed32 n ++ inp) = some n := by
  unfold toyLen
  rw [if_neg (by rw [List.length_append, fixed32_length]; omega), dec32_fixed32 (by rw [← U32_eq]; exact hn)]

theorem toy_ok : LibOK toy where
  fits := by
    intro a lvl cap inp out h
    obtain ⟨rfl, hle⟩ := toy_comp_some h
    rw [List.length_append, toyHdr_length]; exact hle
  roundtrip := by
    intro a lvl cap inp out room _ _ h hroom
    obtain ⟨rfl, _⟩ := toy_comp_some h
    simp only [toy, toyHdrLen_decoder, toy_drop]
    rw [if_neg (by rw [List.length_append, toyHdr_length]; omega), if_pos hroom]
  zlib_too_small := by
    intro lvl cap inp out room h hroom
    obtain ⟨rfl, _⟩ := toy_comp_some h
    simp only [toy, toy_drop]
    rw [if_neg (by rw [List.length_append, toyHdr_length]; omega), if_neg (by omega)]
  zlib_finishes := by
    intro lvl cap inp _ _ _ hcap
    simp only [toy] at hcap ⊢
    rw [if_pos (by rw [List.length_append, toyHdr_length]; simp only [toyHdrLen]; omega)]
    rfl
  zstd_size := by
    intro lvl cap inp out hn h
    obtain ⟨rfl, _⟩ := toy_comp_some h
    exact toyLen_hdr hn inp
  snappy_size := by
    intro lvl cap inp out hn h
    obtain ⟨rfl, _⟩ := toy_comp_some h
    exact toyLen_hdr hn inp

theorem toy_boundSane : BoundSane toy := by
  constructor
  · intro a n; cases a <;> simp only [toy, toyHdrLen] <;> omega
  · intro lvl n; simp only [toy]; omega

/-! ### 6. the C15 statements -/

theorem C15_roundtrip {L : Lib} (h : LibOK L) (a : Algo) (ha : a ≠ .none) (level : Option Int) (input : Bytes)
    (hn : input.length ≤ INT_MAX) (hfit : Fits true L a (effLevel L a level) input.length) :
    compress true L a level input = .fail ∨
      ∃ out, compress true L a level input = .ok out ∧ decompress true L a out = .ok input :=
  roundtrip_gen true true h a ha level input hn hfit (fun e => by cases e) (fun e => by cases e)

theorem C15_roundtrip_512MiB {L : Lib} (h : LibOK L) (hb : BoundSane L) (a : Algo) (ha : a ≠ .none)
    (level : Option Int) (input : Bytes) (hn : input.length ≤ 536870912) :
    compress true L a level input = .fail ∨
      ∃ out, compress true L a level input = .ok out ∧ decompress true L a out = .ok input :=
  C15_roundtrip h a ha level input (by simp only [INT_MAX]; omega) (fits_of_boundSane hb a _ _ hn)

/-- the pinned code: the same statement holds exactly away from the two defects -/
theorem C15_roundtrip_pinned_partial {L : Lib} (h : LibOK L) (a : Algo) (ha : a ≠ .none) (level : Option Int)
    (input : Bytes) (hn : input.length ≤ INT_MAX) (hfit : Fits false L a (effLevel L a level) input.length)
    (h4 : a = .zlib → L.deflateBound (effLevel L .zlib level) input.length ≤ 2 * input.length)
    (h5 : a = .zstd → input.length ≠ 0) :
    compress false L a level input = .fail ∨
      ∃ out, compress false L a level input = .ok out ∧ decompress false L a out = .ok input :=
  roundtrip_gen false false h a ha level input hn hfit (fun _ => h4) (fun _ => h5)

/-- compress never aborts: for snappy, lz4, lz4hc, zstd on inputs of ANY size; for zlib as long as the input size
    and `deflateBound` of it fit the 32-bit `z_stream` counters (then it even succeeds). -/
theorem C15_compress_never_abort {L : Lib} (h : LibOK L) (a : Algo) (level : Option Int) (input : Bytes)
    (hz : a = .zlib → input.length < U32 ∧ L.deflateBound (effLevel L .zlib level) input.length < U32) :
    (compress true L a level input).graceful = true := by
  by_cases ha : a = .zlib
  · subst ha
    obtain ⟨h1, h2⟩ := hz rfl
    obtain ⟨out, ho, _⟩ := compress_zlib_ok true h level input h1 (by simpa [dstCap] using h2) (fun e => by cases e)
    rw [ho]; rfl
  · exact compress_graceful_of_ne_zlib true L a ha level input

/-- whatever a successful compress returned decompresses to the input (so decompress does not abort on it) -/
theorem C15_decompress_of_compress {L : Lib} (h : LibOK L) (a : Algo) (level : Option Int)
    (input out : Bytes) (hn : input.length ≤ INT_MAX) (hfit : Fits true L a (effLevel L a level) input.length)
    (hc : compress true L a level input = .ok out) : decompress true L a out = .ok input := by
  have ha : a ≠ .none := by
    intro e; subst e; rw [compress_none] at hc; cases hc
  rcases C15_roundtrip h a ha level input hn hfit with hf | ⟨o, ho, hd⟩
  · rw [hf] at hc; cases hc
  · rw [ho] at hc; cases hc; exact hd

theorem C15_never_abort {L : Lib} (h : LibOK L) (a : Algo) (level : Option Int) (input : Bytes) :
    ((a = .zlib → input.length < U32 ∧ L.deflateBound (effLevel L .zlib level) input.length < U32) →
      compress true L a level input ≠ .abort ∧ compress true L a level input ≠ .wrap) ∧
    (input.length ≤ INT_MAX → Fits true L a (effLevel L a level) input.length →
      ∀ out, compress true L a level input = .ok out →
        decompress true L a out ≠ .abort ∧ decompress true L a out ≠ .wrap) ∧
    (a ≠ .zlib → ∀ stored, decompress true L a stored ≠ .abort ∧ decompress true L a stored ≠ .wrap) := by
  refine ⟨fun hz => ?_, fun hn hfit out hc => ?_, fun ha stored => ?_⟩
  · have := C15_compress_never_abort h a level input hz
    constructor <;> (intro e; rw [e] at this; cases this)
  · rw [C15_decompress_of_compress h a level input out hn hfit hc]
    constructor <;> (intro e; cases e)
  · have := decompress_graceful_of_ne_zlib L a ha stored
    constructor <;> (intro e; rw [e] at this; cases this)

theorem C15_none_unknown (f : Bool) (L : Lib) (level : Option Int) (buf : Bytes) :
    compress f L .none level buf = .fail ∧ decompress f L .none buf = .fail ∧
    (∀ t, 6 ≤ t → compressT f L t level buf = .fail ∧ decompressT f L t buf = .fail) ∧
    (∀ a, compressT f L a.toNat level buf = compress f L a level buf ∧
          decompressT f L a.toNat buf = decompress f L a buf) := by
  refine ⟨rfl, rfl, fun t ht => ⟨compressT_unknown f L t ht level buf, decompressT_unknown f L t ht buf⟩, ?_⟩
  intro a; cases a <;> exact ⟨rfl, rfl⟩

theorem C15_levels (L : Lib) (l : Int) :
    effLevel L .zlib none = -1 ∧
    effLevel L .zlib (some l) = (if l < -1 then 0 else if l > 9 then 9 else l) ∧
    effLevel L .lz4hc none = 9 ∧
    effLevel L .lz4hc (some l) = (if l < 0 then 0 else l) ∧
    effLevel L .zstd none = (if 9 < L.zstdMin then L.zstdMin else if 9 > L.zstdMax then L.zstdMax else 9) ∧
    effLevel L .zstd (some l) = (if l < L.zstdMin then L.zstdMin else if l > L.zstdMax then L.zstdMax else l) ∧
    (∀ f l₁ l₂ input, compress f L .snappy l₁ input = compress f L .snappy l₂ input) ∧
    (∀ f l₁ l₂ input, compress f L .lz4 l₁ input = compress f L .lz4 l₂ input) ∧
    (∀ f a l₁ l₂ input, effLevel L a l₁ = effLevel L a l₂ → compress f L a l₁ input = compress f L a l₂ input) :=
  ⟨rfl, rfl, rfl, rfl, rfl, rfl, fun f => compress_snappy_level f L, fun f => compress_lz4_level f L,
    fun f a l₁ l₂ input => compress_level_congr f L a l₁ l₂ input⟩

theorem C15_names :
    (∀ t, t < 6 → ∃ s, typeToStr t = some s ∧ typeFromStr s = some t) ∧
    (∀ t, 6 ≤ t → typeToStr t = none) ∧
    (∀ s t, typeFromStr s = some t ↔ typeToStr t = some s.toLower) ∧
    (∀ s t, typeFromStr s = some t → t < 6) ∧
    (∀ s, typeFromStr s = none ↔ ∀ t, typeToStr t ≠ some s.toLower) :=
  ⟨names_roundtrip, typeToStr_unknown, typeFromStr_iff, typeFromStr_lt, typeFromStr_none_iff⟩

/-! ### 7. witnesses for the pinned code (and non-vacuity of `LibOK`) -/

/-- F4: a library that meets every contract, and the pinned zlib wrapper aborts on a 3-byte input, while the
    repaired one round-trips it -/
theorem F4_witness : ∃ L, LibOK L ∧ compress false L .zlib none [1, 2, 3] = .abort ∧
    ∃ out, compress true L .zlib none [1, 2, 3] = .ok out ∧ decompress true L .zlib out = .ok [1, 2, 3] :=
  ⟨toy, toy_ok, by decide, [0, 0, 0, 0, 0, 0, 0, 0, 0, 0, 0, 1, 2, 3], by decide, by decide⟩

/-- F5: the empty input compresses (both wrappers are identical there), the pinned zstd decompressor refuses the
    result, the repaired one returns the empty buffer -/
theorem F5_witness : ∃ L, LibOK L ∧ ∃ out, compress false L .zstd none [] = .ok out ∧
    compress true L .zstd none [] = .ok out ∧
    decompress false L .zstd out = .fail ∧ decompress true L .zstd out = .ok [] :=
  ⟨toy, toy_ok, [0, 0, 0, 0], by decide, by decide, by decide, by decide⟩

/-- outside C15 (the bytes do not come from `mtbl_compress`): on bytes whose frame header zstd cannot read, the
    pinned decompressor aborts in `my_malloc`; a corrupt deflate stream aborts `_mtbl_decompress_zlib` in both
    versions (the assertion on `inflate`'s return value) -/
theorem garbage_aborts_witness : decompress false toy .zstd [] = .abort ∧ decompress true toy .zstd [] = .fail ∧
    decompress true toy .zlib [1, 2, 3] = .abort := ⟨by decide, by decide, by decide⟩

/-- the size condition on zlib in `C15_never_abort` cannot be dropped: 11 bytes below 4 GiB the destination size
    no longer fits `avail_out` -/
theorem zlib_wrap_witness : compress true toy .zlib none (List.replicate (U32 - 11) 0) = .wrap := by
  rw [compress_zlib]
  simp only [List.length_replicate, if_true, toy]
  rw [if_pos (Or.inr (by decide))]

/-- non-vacuity of the round-trip theorem: the toy library is an instance, for every algorithm, level and every
    input up to 512 MiB, and there compress always succeeds -/
theorem toy_roundtrip (a : Algo) (ha : a ≠ .none) (level : Option Int) (input : Bytes)
    (hn : input.length ≤ 536870912) :
    compress true toy a level input = .fail ∨
      ∃ out, compress true toy a level input = .ok out ∧ decompress true toy a out = .ok input :=
  C15_roundtrip_512MiB toy_ok toy_boundSane a ha level input hn

example : compress true toy .lz4hc (some (-7)) [9, 9, 9, 9] = .ok [4, 0, 0, 0, 0, 9, 9, 9, 9] ∧
    decompress true toy .lz4 [4, 0, 0, 0, 0, 9, 9, 9, 9] = .ok [9, 9, 9, 9] := ⟨by decide, by decide⟩

end Cz
end Mtbl
