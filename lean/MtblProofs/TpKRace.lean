import MtblModel.Tp
import MtblProofs.TpKProofs
/-
  Sharing a pool adds no data race BETWEEN clients (C14, several pooled writers / sorters on one mtbl_threadpool).

  The accesses of client c's caller and result handler in the k-client machine are those of the one-client machine
  (`Tp.accesses`, whose labels are tied to mtbl/threadpool.c by the regenerated site table, see C14_declared_in_model)
  evaluated on the client's view of the state and relabelled with the client's own result queue and mutex.  In every
  reachable state of the k-client machine, for every number of clients, pool size and schedule: no access of client c1's
  caller or handler conflicts with an access of client c2's caller or handler (c1 ≠ c2).  The proof uses only the exclusive
  hand-out invariant (`TpK.excl_reachable`): both touch pool fields under pool->m, their own queue's fields, and fields of
  worker threads they hold — and no worker is held by two clients.
-/
set_option linter.unusedSimpArgs false
namespace TpK

/-! ### client c's view as a state of the one-client machine -/
def toCPc : CPc → Tp.CPc
  | .next a => .next a
  | .create => .create
  | .assign t => .assign t
  | .enqueue t => .enqueue t
  | .finish => .finish
  | _ => .joinH            -- not started, starting, joining or done: no shared access (as `Tp.CPc.joinH`)
def toHPc : HPc → Tp.HPc
  | .deq a => .deq a
  | .waitRes t a => .waitRes t a
  | .giveBack t r => .giveBack t r
  | .callback r => .callback r
  | .exited => .exited
def toWPc : WPc → Tp.WPc
  | .top a => .top a
  | .gotJob => .gotJob
  | .selfEnq _ => .selfEnq
  | .doneOrd => .doneOrd
  | .exited => .exited
def toThr (th : Thr) : Tp.Thr := { pc := toWPc th.pc, running := th.running, cb := th.cb, res := th.res, rq := th.rq.isSome }

def view (s : St) (c : Nat) : Tp.St :=
  let cl := s.cl[c]!
  { max := s.max, njobs := s.njobs, ordered := s.ordered, thr := s.thr.map toThr, idle := s.idle, count := s.count,
    queue := cl.queue, nthreads := cl.nthreads, finished := cl.finished, cpc := toCPc cl.pc, nextJob := cl.nextJob,
    hpc := if cl.hstarted then toHPc cl.hpc else .exited, delivered := cl.delivered }

/-! ### locations and locks of the k-client program -/
inductive KLock | pool | rq (c : Nat) | thr (t : Nat)
deriving DecidableEq, Repr
inductive KLoc
  | thrRunning (t : Nat) | thrCb (t : Nat) | thrRes (t : Nat) | thrRq (t : Nat) | thrNext (t : Nat)
  | poolHead | poolCount | rqHead (c : Nat) | rqNthreads (c : Nat) | rqFinished (c : Nat)
deriving DecidableEq, Repr
structure KAccess where
  loc : KLoc
  write : Bool
  locks : List KLock
deriving DecidableEq, Repr

def kLock (c : Nat) : Tp.Lock → KLock
  | .pool => .pool | .rq => .rq c | .thr t => .thr t
def kLoc (c : Nat) : Tp.Loc → KLoc
  | .thrRunning t => .thrRunning t | .thrCb t => .thrCb t | .thrRes t => .thrRes t | .thrRq t => .thrRq t
  | .thrNext t => .thrNext t | .poolHead => .poolHead | .poolCount => .poolCount
  | .rqHead => .rqHead c | .rqNthreads => .rqNthreads c | .rqFinished => .rqFinished c
def kAcc (c : Nat) (a : Tp.Access) : KAccess := { loc := kLoc c a.loc, write := a.write, locks := a.locks.map (kLock c) }

/-- what client c's caller (`false`) / result handler (`true`) touches in its next step -/
def clientAccesses (s : St) (c : Nat) (handler : Bool) : List KAccess :=
  (Tp.accesses (view s c) (if handler then .handler else .caller)).map (kAcc c)

def kConflict (a b : KAccess) : Bool :=
  a.loc == b.loc && (a.write || b.write) && !(a.locks.any fun l => b.locks.contains l)

/-! ### every access of client c stays in c's domain -/
def thrOf : KLoc → Option Nat
  | .thrRunning t => some t | .thrCb t => some t | .thrRes t => some t | .thrRq t => some t | .thrNext t => some t
  | _ => none
def rqOf : KLoc → Option Nat
  | .rqHead c => some c | .rqNthreads c => some c | .rqFinished c => some c
  | _ => none

/-- pool fields under pool->m; fields of c's own queue under its mutex; fields of a worker thread that c holds, or of an idle thread under
    pool->m -/
def inDomain (s : St) (c : Nat) (a : KAccess) : Bool :=
  match thrOf a.loc, rqOf a.loc with
  | some t, _ => (clView s.ordered s.cl[c]!).contains t || (s.idle.contains t && a.locks.contains .pool)
  | none, some c' => c' == c && a.locks.contains (.rq c)
  | none, none => a.locks.contains .pool


theorem caller_inDomain (s : St) (c : Nat) : (clientAccesses s c false).all (inDomain s c) = true := by
  unfold clientAccesses view
  cases hp : s.cl[c]!.pc with
  | next a =>
    cases a
    · cases hi : s.idle <;>
        simp [toCPc, hp, hi, Tp.accesses, Tp.acc, kAcc, kLoc, kLock, inDomain, thrOf, rqOf]
    · simp [toCPc, hp, Tp.accesses]
  | enqueue t =>
    cases ho : s.ordered <;>
      simp [toCPc, hp, ho, Tp.accesses, Tp.acc, kAcc, kLoc, kLock, inDomain, thrOf, rqOf, clView, cHand]
  | assign t => simp [toCPc, hp, Tp.accesses, Tp.acc, kAcc, kLoc, kLock, inDomain, thrOf, rqOf, clView, cHand]
  | _ => simp [toCPc, hp, Tp.accesses, Tp.acc, kAcc, kLoc, kLock, inDomain, thrOf, rqOf]

theorem handler_inDomain (s : St) (c : Nat) : (clientAccesses s c true).all (inDomain s c) = true := by
  unfold clientAccesses view
  cases hs : s.cl[c]!.hstarted
  · simp [hs, Tp.accesses]
  · cases hp : s.cl[c]!.hpc with
    | deq a =>
      cases a
      · cases hq : s.cl[c]!.queue <;>
          simp [toHPc, hp, hs, hq, Tp.accesses, Tp.acc, kAcc, kLoc, kLock, inDomain, thrOf, rqOf, clView]
      · simp [toHPc, hp, hs, Tp.accesses]
    | waitRes t a =>
      cases a
      · simp only [toHPc, hp, hs, Tp.accesses, if_true]
        split <;> simp [Tp.acc, kAcc, kLoc, kLock, inDomain, thrOf, rqOf, clView, hHand, hp]
      · simp [toHPc, hp, hs, Tp.accesses]
    | giveBack t r => simp [toHPc, hp, hs, Tp.accesses, Tp.acc, kAcc, kLoc, kLock, inDomain, thrOf, rqOf, clView, hHand]
    | _ => simp [toHPc, hp, hs, Tp.accesses]


theorem pool_shared (a b : KAccess) (ha : a.locks.contains .pool = true) (hb : b.locks.contains .pool = true) :
    (a.locks.any fun l => b.locks.contains l) = true := by
  rw [List.any_eq_true]
  exact ⟨.pool, by simpa using ha, hb⟩

theorem domain_disjoint {s : St} (h : Excl s) {c1 c2 : Nat} (h1 : c1 < s.cl.size) (h2 : c2 < s.cl.size) (hne : c1 ≠ c2)
    (a b : KAccess) (ha : inDomain s c1 a = true) (hb : inDomain s c2 b = true) : kConflict a b = false := by
  unfold kConflict
  by_cases hl : a.loc = b.loc
  · unfold inDomain at ha hb
    rw [← hl] at hb
    cases ht : thrOf a.loc with
    | some t =>
      simp only [ht, Bool.or_eq_true, Bool.and_eq_true, List.contains_iff_mem] at ha hb
      rcases ha with ha | ha <;> rcases hb with hb | hb
      · exact absurd hb (h.two_clients h1 h2 hne ha)
      · exact absurd hb.1 (h.client_holds h1 ha).1
      · exact absurd ha.1 (h.client_holds h2 hb).1
      · have := pool_shared a b (by simpa using ha.2) (by simpa using hb.2)
        rw [this]; simp
    | none =>
      cases hr : rqOf a.loc with
      | some c' =>
        simp only [ht, hr, Bool.and_eq_true, beq_iff_eq] at ha hb
        exact absurd (ha.1.symm.trans hb.1) hne
      | none =>
        simp only [ht, hr] at ha hb
        have := pool_shared a b ha hb
        rw [this]; simp
  · simp [hl]

/-- NO RACE BETWEEN CLIENTS: in every reachable state of the k-client machine, no access of the caller or result handler of
    one client conflicts with an access of the caller or result handler of another client -/
theorem no_cross_client_race {n max njobs : Nat} {o : Bool} {s : St} (hr : Reachable n max njobs o s)
    {c1 c2 : Nat} (h1 : c1 < s.cl.size) (h2 : c2 < s.cl.size) (hne : c1 ≠ c2) (r1 r2 : Bool) :
    ∀ a ∈ clientAccesses s c1 r1, ∀ b ∈ clientAccesses s c2 r2, kConflict a b = false := by
  intro a ha b hb
  have da : inDomain s c1 a = true := by
    cases r1
    · exact List.all_eq_true.mp (caller_inDomain s c1) a ha
    · exact List.all_eq_true.mp (handler_inDomain s c1) a ha
  have db : inDomain s c2 b = true := by
    cases r2
    · exact List.all_eq_true.mp (caller_inDomain s c2) b hb
    · exact List.all_eq_true.mp (handler_inDomain s c2) b hb
  exact domain_disjoint (excl_reachable hr) h1 h2 hne a b da db

/-! ### workers: a worker thread carrying a job of client c does not conflict with another client either -/
def enqClient (s : St) (t : Nat) : Nat := match (s.thr[t]?).map (·.pc) with | some (WPc.selfEnq c) => c | _ => 0

/-- what worker t touches in its next step (labels of the one-client machine; the queue it enters is its job's client's) -/
def workerAccesses (s : St) (t : Nat) : List KAccess :=
  (Tp.accesses (view s (enqClient s t)) (.worker t)).map (kAcc (enqClient s t))

/-- worker t is working for client c: c holds it (ordered dispatch), or it carries an unordered job of c -/
def worksFor (s : St) (t c : Nat) : Prop :=
  t ∈ clView s.ordered s.cl[c]! ∨ s.thr[t]!.rq = some c ∨ s.thr[t]!.pc = .selfEnq c

def inWorkerDomain (s : St) (t : Nat) (a : KAccess) : Bool :=
  thrOf a.loc == some t ||
    (match (s.thr[t]?).map (·.pc) with | some (WPc.selfEnq c) => rqOf a.loc == some c | _ => false)

theorem worker_inDomain (s : St) (t : Nat) : (workerAccesses s t).all (inWorkerDomain s t) = true := by
  unfold workerAccesses view enqClient
  cases hth : s.thr[t]? with
  | none => simp [Tp.accesses, hth]
  | some th =>
    cases hp : th.pc with
    | top a => cases a <;> simp [Tp.accesses, hth, hp, toThr, toWPc, Tp.acc, kAcc, kLoc, kLock, inWorkerDomain, thrOf]
    | gotJob =>
      cases hr : th.rq <;>
        simp [Tp.accesses, hth, hp, hr, toThr, toWPc, Tp.acc, kAcc, kLoc, kLock, inWorkerDomain, thrOf]
    | selfEnq c => simp [Tp.accesses, hth, hp, toThr, toWPc, Tp.acc, kAcc, kLoc, kLock, inWorkerDomain, thrOf, rqOf]
    | doneOrd => simp [Tp.accesses, hth, hp, toThr, toWPc, Tp.acc, kAcc, kLoc, kLock, inWorkerDomain, thrOf]
    | exited => simp [Tp.accesses, hth, hp, toThr, toWPc]

theorem Excl.worker_free {s : St} (h : Excl s) {t c c' : Nat} (hc : c < s.cl.size) (hc' : c' < s.cl.size) (hne : c ≠ c')
    (hw : worksFor s t c) : t ∉ clView s.ordered s.cl[c']! ∧ t ∉ s.idle := by
  rcases hw with hw | hw | hw
  · exact ⟨h.two_clients hc hc' hne hw, (h.client_holds hc hw).1⟩
  all_goals
    have a3 := h.le1 t
    simp only [occ] at a3
    have hwn : 0 < wN s.thr[t]! := by simp only [wN, hw]; simp <;> omega
    refine ⟨fun m => ?_, fun m => ?_⟩
    · have b1 : 0 < clCount s.ordered t s.cl[c']! := List.count_pos_iff.mpr m
      have := sumA_le s.cl (clCount s.ordered t) c' hc'; omega
    · have : 0 < s.idle.count t := List.count_pos_iff.mpr m; omega

/-- NO RACE BETWEEN A CLIENT AND ANOTHER CLIENT'S WORKERS: a worker thread working for client c never conflicts with the
    caller or result handler of a different client c' -/
theorem no_worker_client_race {n max njobs : Nat} {o : Bool} {s : St} (hr : Reachable n max njobs o s)
    {t c c' : Nat} (hc : c < s.cl.size) (hc' : c' < s.cl.size) (hne : c ≠ c') (hw : worksFor s t c) (r : Bool) :
    ∀ a ∈ workerAccesses s t, ∀ b ∈ clientAccesses s c' r, kConflict a b = false := by
  intro a ha b hb
  have hE := excl_reachable hr
  have hfree := hE.worker_free hc hc' hne hw
  have da := List.all_eq_true.mp (worker_inDomain s t) a ha
  have db : inDomain s c' b = true := by
    cases r
    · exact List.all_eq_true.mp (caller_inDomain s c') b hb
    · exact List.all_eq_true.mp (handler_inDomain s c') b hb
  unfold kConflict
  by_cases hl : a.loc = b.loc
  · exfalso
    unfold inWorkerDomain at da
    unfold inDomain at db
    rw [← hl] at db
    rcases Bool.or_eq_true _ _ ▸ da with d1 | d1
    · have ht : thrOf a.loc = some t := by simpa using d1
      simp only [ht, Bool.or_eq_true, Bool.and_eq_true, List.contains_iff_mem] at db
      rcases db with db | db
      · exact hfree.1 db
      · exact hfree.2 db.1
    · split at d1
      · rename_i c2 hpc
        have hr2 : rqOf a.loc = some c2 := by simpa using d1
        have ht : thrOf a.loc = none := by
          cases hloc : a.loc <;> simp [hloc, rqOf, thrOf] at hr2 ⊢
        simp only [ht, hr2, Bool.and_eq_true, beq_iff_eq] at db
        replace db := db.1
        -- the worker is about to enter the queue of c2 = c'; but it works for c ≠ c'
        have hpc' : s.thr[t]!.pc = .selfEnq c2 := by
          cases hth : s.thr[t]? with
          | none => simp [hth] at hpc
          | some th => simp [hth] at hpc; simp [getElem!_def, hth, hpc]
        have hwn : 0 < wN s.thr[t]! := by simp [wN, hpc']
        rcases hw with hw | hw | hw
        · have := (hE.client_holds hc hw).2.2.2.2; omega
        · -- rq = some c and pc = selfEnq: two self-places
          have a3 := hE.le1 t
          simp only [occ, wN, hw, hpc'] at a3
          simp at a3
        · rw [hpc'] at hw; injection hw with hw; exact hne (hw.symm.trans db)
      · simp at d1
  · simp [hl]

/-- non-vacuity: outside the reachable set the predicate does fire — two clients both holding worker 0 -/
def twoHolders : St :=
  { max := 1, njobs := 1, ordered := true, count := 1, thr := #[{}], opc := .joinC 0,
    cl := #[{ pc := .assign 0, hstarted := true }, { pc := .assign 0, hstarted := true }] }
example : ∃ a ∈ clientAccesses twoHolders 0 false, ∃ b ∈ clientAccesses twoHolders 1 false, kConflict a b = true := by
  decide

end TpK
