import MtblModel.TpK
/-
  The k-client pool machine (MtblModel/TpK.lean): pool-level invariants for ANY number of clients, any pool size, any
  schedule (spurious wake-ups and the choice of the woken sleeper included).

  * exclusive hand-out (`excl_reachable`): a worker thread is, at any moment, in at most ONE of the places that give a thread
    of the program the right to touch it — the pool's idle list, the hands of one client's caller (between threadpool_next
    and the hand-over), one client's result queue, the hands of one client's result handler, its own hands (an unordered job
    it has not yet queued), the owner's hands in threadpool_destroy — and never in two clients' at once;
  * the bound (`bound_reachable`): count ≤ max;
  * clients are joined before the pool is destroyed (`phase_reachable`): while the owner is in threadpool_destroy every
    client is done and every handler has exited.
-/
set_option linter.unusedSimpArgs false
namespace TpK

/-! ### arrays -/
theorem get_modify {α : Type} [Inhabited α] (a : Array α) (t u : Nat) (f : α → α) :
    (a.modify t f)[u]! = if u = t ∧ t < a.size then f a[u]! else a[u]! := by
  grind

theorem get_push {α : Type} [Inhabited α] (a : Array α) (x : α) (u : Nat) :
    (a.push x)[u]! = if u = a.size then x else a[u]! := by
  grind

def sumA {α : Type} (a : Array α) (f : α → Nat) : Nat := (a.toList.map f).sum

theorem list_sum_set {α : Type} (l : List α) (i : Nat) (x : α) (f : α → Nat) (h : i < l.length) :
    ((l.set i x).map f).sum + f l[i] = (l.map f).sum + f x := by
  induction l generalizing i with
  | nil => simp at h
  | cons a l ih =>
    cases i with
    | zero => simp; omega
    | succ i =>
      have := ih i (by simpa using h)
      simp only [List.set_cons_succ, List.map_cons, List.sum_cons, List.getElem_cons_succ]
      omega

theorem sumA_modify {α : Type} [Inhabited α] (a : Array α) (c : Nat) (g : α → α) (f : α → Nat) (h : c < a.size) :
    sumA (a.modify c g) f + f a[c]! = sumA a f + f (g a[c]!) := by
  have h1 : a.modify c g = a.set c (g a[c]) h := by
    apply Array.ext
    · simp
    · intro i h1 h2
      simp [Array.getElem_modify, Array.getElem_set]
      grind
  have h2 : a[c]! = a[c] := getElem!_pos a c h
  rw [h1, h2, sumA, sumA, Array.toList_set]
  have := list_sum_set a.toList c (g a[c]) f (by simpa using h)
  simpa using this

theorem sumA_modify_oob {α : Type} (a : Array α) (c : Nat) (g : α → α) (f : α → Nat) (h : ¬ c < a.size) :
    sumA (a.modify c g) f = sumA a f := by
  have : a.modify c g = a := by
    apply Array.ext
    · simp
    · intro i h1 h2
      simp [Array.getElem_modify]; grind
  rw [this]

theorem sumA_map_same {α : Type} (a : Array α) (g : α → α) (f : α → Nat) (h : ∀ x, f (g x) = f x) :
    sumA (a.map g) f = sumA a f := by
  simp [sumA, List.map_map, Function.comp_def, h]

theorem sumA_replicate {α : Type} (n : Nat) (x : α) (f : α → Nat) (h : f x = 0) : sumA (Array.replicate n x) f = 0 := by
  simp [sumA, h]

theorem list_le_sum {α : Type} (l : List α) (f : α → Nat) (x : α) (h : x ∈ l) : f x ≤ (l.map f).sum := by
  induction l with
  | nil => simp at h
  | cons a l ih =>
    rcases List.mem_cons.mp h with rfl | h
    · simp
    · have := ih h; simp; omega

theorem sumA_le {α : Type} [Inhabited α] (a : Array α) (f : α → Nat) (c : Nat) (h : c < a.size) : f a[c]! ≤ sumA a f := by
  rw [getElem!_pos a c h, sumA]
  exact list_le_sum _ _ _ (by simp)

/-! ### places -/
def cHand (pc : CPc) (ordered : Bool) : List Nat := match pc with
  | .assign t => [t]
  | .enqueue t => if ordered then [t] else []
  | _ => []
def hHand (h : HPc) : List Nat := match h with
  | .waitRes t _ => [t]
  | .giveBack t _ => [t]
  | _ => []
def oHand (o : OPc) : List Nat := match o with
  | .kill t => [t]
  | .joinW t => [t]
  | _ => []
/-- the worker threads a client holds: in the caller's hands, in its result queue, in its handler's hands -/
def clView (ordered : Bool) (cl : Client) : List Nat := cHand cl.pc ordered ++ cl.queue ++ hHand cl.hpc
def clCount (ordered : Bool) (u : Nat) (cl : Client) : Nat := (clView ordered cl).count u
/-- a worker holds itself while it carries an unordered job that it has not queued yet -/
def wN (th : Thr) : Nat := (if th.rq.isSome then 1 else 0) + (match th.pc with | .selfEnq _ => 1 | _ => 0)

/-- in how many places worker thread `u` is -/
def occ (s : St) (u : Nat) : Nat :=
  s.idle.count u + (oHand s.opc).count u + sumA s.cl (clCount s.ordered u) + wN s.thr[u]!

structure Excl (s : St) : Prop where
  le1 : ∀ u, occ s u ≤ 1
  fresh : ∀ u, s.thr.size ≤ u → occ s u = 0

/-- which client (if any) holds worker `u`, and through what -/
def heldBy (s : St) (c u : Nat) : Prop := u ∈ clView s.ordered s.cl[c]!

@[simp] theorem wN_default : wN (default : Thr) = 0 := by decide

/-! ### projections of the primitive updates -/
@[simp] theorem setCl_ordered (s : St) (c : Nat) (f : Client → Client) : (setCl s c f).ordered = s.ordered := rfl
@[simp] theorem setCl_idle (s : St) (c : Nat) (f : Client → Client) : (setCl s c f).idle = s.idle := rfl
@[simp] theorem setCl_opc (s : St) (c : Nat) (f : Client → Client) : (setCl s c f).opc = s.opc := rfl
@[simp] theorem setCl_thr (s : St) (c : Nat) (f : Client → Client) : (setCl s c f).thr = s.thr := rfl
@[simp] theorem setCl_count (s : St) (c : Nat) (f : Client → Client) : (setCl s c f).count = s.count := rfl
@[simp] theorem setCl_max (s : St) (c : Nat) (f : Client → Client) : (setCl s c f).max = s.max := rfl
@[simp] theorem setCl_njobs (s : St) (c : Nat) (f : Client → Client) : (setCl s c f).njobs = s.njobs := rfl
@[simp] theorem setCl_cl (s : St) (c : Nat) (f : Client → Client) : (setCl s c f).cl = s.cl.modify c f := rfl
@[simp] theorem setThr_ordered (s : St) (t : Nat) (f : Thr → Thr) : (setThr s t f).ordered = s.ordered := rfl
@[simp] theorem setThr_idle (s : St) (t : Nat) (f : Thr → Thr) : (setThr s t f).idle = s.idle := rfl
@[simp] theorem setThr_opc (s : St) (t : Nat) (f : Thr → Thr) : (setThr s t f).opc = s.opc := rfl
@[simp] theorem setThr_cl (s : St) (t : Nat) (f : Thr → Thr) : (setThr s t f).cl = s.cl := rfl
@[simp] theorem setThr_count (s : St) (t : Nat) (f : Thr → Thr) : (setThr s t f).count = s.count := rfl
@[simp] theorem setThr_max (s : St) (t : Nat) (f : Thr → Thr) : (setThr s t f).max = s.max := rfl
@[simp] theorem setThr_njobs (s : St) (t : Nat) (f : Thr → Thr) : (setThr s t f).njobs = s.njobs := rfl
@[simp] theorem setThr_thr (s : St) (t : Nat) (f : Thr → Thr) : (setThr s t f).thr = s.thr.modify t f := rfl

/-! ### how `occ` moves under the primitive updates -/
theorem occ_setCl (s : St) (c : Nat) (f : Client → Client) (u : Nat) (h : c < s.cl.size) :
    occ (setCl s c f) u + clCount s.ordered u s.cl[c]! = occ s u + clCount s.ordered u (f s.cl[c]!) := by
  have := sumA_modify s.cl c f (clCount s.ordered u) h
  simp only [occ, setCl_ordered, setCl_idle, setCl_opc, setCl_thr, setCl_cl]
  omega

theorem occ_setCl_same (s : St) (c : Nat) (f : Client → Client) (u : Nat)
    (hf : clView s.ordered (f s.cl[c]!) = clView s.ordered s.cl[c]!) : occ (setCl s c f) u = occ s u := by
  by_cases h : c < s.cl.size
  · have := occ_setCl s c f u h
    simp only [clCount, hf] at this
    omega
  · simp only [occ, setCl_ordered, setCl_idle, setCl_opc, setCl_thr, setCl_cl, sumA_modify_oob _ _ _ _ h]

theorem occ_setThr (s : St) (t : Nat) (f : Thr → Thr) (u : Nat) :
    occ (setThr s t f) u + (if u = t ∧ t < s.thr.size then wN s.thr[u]! else 0) =
    occ s u + (if u = t ∧ t < s.thr.size then wN (f s.thr[u]!) else 0) := by
  simp only [occ, setThr_ordered, setThr_idle, setThr_opc, setThr_cl, setThr_thr, get_modify]
  split <;> omega

theorem occ_setThr_same (s : St) (t : Nat) (f : Thr → Thr) (u : Nat) (hf : wN (f s.thr[t]!) = wN s.thr[t]!) :
    occ (setThr s t f) u = occ s u := by
  have := occ_setThr s t f u
  split at this
  · rename_i h; rw [h.1] at this; rw [h.1]; omega
  · omega

/-! ### signals do not move threads -/
theorem occ_signalRq (s : St) (c : Nat) (u : Nat) : occ (signalRq s c) u = occ s u := by
  unfold signalRq
  apply occ_setCl_same
  cases h : s.cl[c]!.hpc with
  | deq a => cases a <;> simp [clView, hHand, h]
  | _ => simp

def wakeH (t : Nat) (c : Client) : Client := match c.hpc with
  | .waitRes t' true => if t' = t then { c with hpc := .waitRes t false } else c
  | _ => c

@[simp] theorem wakeH_queue (t : Nat) (c : Client) : (wakeH t c).queue = c.queue := by
  unfold wakeH; split
  · split <;> rfl
  · rfl
@[simp] theorem wakeH_pc (t : Nat) (c : Client) : (wakeH t c).pc = c.pc := by
  unfold wakeH; split
  · split <;> rfl
  · rfl
@[simp] theorem hHand_wakeH (t : Nat) (c : Client) : hHand (wakeH t c).hpc = hHand c.hpc := by
  unfold wakeH; split
  · split
    · rename_i h h2; rw [h]; subst h2; rfl
    · rfl
  · rfl

theorem clView_wakeH (o : Bool) (t : Nat) (c : Client) : clView o (wakeH t c) = clView o c := by
  unfold wakeH
  split
  · split
    · rename_i h _; simp [clView, hHand, h]; omega
    · rfl
  · rfl

theorem occ_signalThr (s : St) (t : Nat) (u : Nat) : occ (signalThr s t) u = occ s u := by
  have h1 : signalThr s t =
      { (setThr s t fun th => match th.pc with | .top true => { th with pc := .top false } | _ => th) with
        cl := s.cl.map (wakeH t) } := rfl
  rw [h1]
  have h2 := occ_setThr_same s t (fun th => match th.pc with | .top true => { th with pc := .top false } | _ => th) u
    (by cases h : s.thr[t]!.pc with
        | top a => cases a <;> simp [wN, h]
        | _ => simp)
  rw [← h2]
  simp only [occ, setThr_ordered, setThr_idle, setThr_opc, setThr_cl, setThr_thr]
  rw [sumA_map_same]
  intro x; simp [clCount, clView_wakeH]

theorem poolSleepers_spec (s : St) (c : Nat) (h : c ∈ poolSleepers s) : s.cl[c]!.pc = .next true := by
  simp only [poolSleepers, List.mem_filter, beq_iff_eq] at h
  exact h.2

theorem poolSleepers_pick (s : St) (k : Nat) (h : ¬ (poolSleepers s).isEmpty = true) :
    (poolSleepers s)[k % (poolSleepers s).length]! ∈ poolSleepers s := by
  have hne : poolSleepers s ≠ [] := by simpa using h
  have hlt : k % (poolSleepers s).length < (poolSleepers s).length := Nat.mod_lt _ (List.length_pos_iff.mpr hne)
  rw [getElem!_pos (poolSleepers s) _ hlt]
  exact List.getElem_mem hlt

theorem occ_signalPool (s : St) (k : Nat) (u : Nat) : occ (signalPool s k) u = occ s u := by
  unfold signalPool
  split
  · rename_i h; simp [occ, oHand, h]
  · dsimp only
    split
    · rfl
    · rename_i hne
      apply occ_setCl_same
      have := poolSleepers_spec s _ (poolSleepers_pick s k hne)
      generalize (poolSleepers s)[k % (poolSleepers s).length]! = c at this
      simp [clView, cHand, this]

@[simp] theorem signalRq_size (s : St) (c : Nat) : (signalRq s c).thr.size = s.thr.size := by
  unfold signalRq; simp
@[simp] theorem signalThr_size (s : St) (t : Nat) : (signalThr s t).thr.size = s.thr.size := by
  simp [signalThr, setThr]
@[simp] theorem signalPool_size (s : St) (k : Nat) : (signalPool s k).thr.size = s.thr.size := by
  unfold signalPool; split
  · rfl
  · dsimp only; split <;> simp

end TpK

namespace TpK

/-! ### steps never put a thread in a second place -/
def Le (s s' : St) : Prop := s.thr.size ≤ s'.thr.size ∧ ∀ u, occ s' u ≤ occ s u

theorem Excl.of_le {s s' : St} (h : Excl s) (hl : Le s s') : Excl s' :=
  ⟨fun u => Nat.le_trans (hl.2 u) (h.le1 u), fun u hu => by
    have := h.fresh u (Nat.le_trans hl.1 hu); have := hl.2 u; omega⟩

theorem count_singleton (t u : Nat) : [t].count u = if t = u then 1 else 0 := by
  simp [List.count_cons]

@[simp] theorem oHand_spawn (i : Nat) : oHand (.spawn i) = [] := rfl
@[simp] theorem oHand_joinC (i : Nat) : oHand (.joinC i) = [] := rfl
@[simp] theorem oHand_destroy (a : Bool) : oHand (.destroy a) = [] := rfl
@[simp] theorem oHand_kill (t : Nat) : oHand (.kill t) = [t] := rfl
@[simp] theorem oHand_joinW (t : Nat) : oHand (.joinW t) = [t] := rfl
@[simp] theorem oHand_done : oHand .done = [] := rfl
@[simp] theorem oHand_spawn_ite (c : Prop) [Decidable c] (a b : Nat) : oHand (if c then OPc.spawn a else OPc.joinC b) = [] := by
  split <;> rfl
@[simp] theorem oHand_joinC_ite (c : Prop) [Decidable c] (a : Nat) (b : Bool) : oHand (if c then OPc.joinC a else OPc.destroy b) = [] := by
  split <;> rfl
@[simp] theorem cHand_idle (o : Bool) : cHand .idle o = [] := rfl
@[simp] theorem cHand_start (o : Bool) : cHand .start o = [] := rfl
@[simp] theorem cHand_mkH (o : Bool) : cHand .mkH o = [] := rfl
@[simp] theorem cHand_next (a o : Bool) : cHand (.next a) o = [] := rfl
@[simp] theorem cHand_create (o : Bool) : cHand .create o = [] := rfl
@[simp] theorem cHand_assign (t : Nat) (o : Bool) : cHand (.assign t) o = [t] := rfl
@[simp] theorem cHand_enqueue (t : Nat) (o : Bool) : cHand (.enqueue t) o = if o then [t] else [] := rfl
@[simp] theorem cHand_finish (o : Bool) : cHand .finish o = [] := rfl
@[simp] theorem cHand_joinH (o : Bool) : cHand .joinH o = [] := rfl
@[simp] theorem cHand_done (o : Bool) : cHand .done o = [] := rfl
@[simp] theorem hHand_deq (a : Bool) : hHand (.deq a) = [] := rfl
@[simp] theorem hHand_waitRes (t : Nat) (a : Bool) : hHand (.waitRes t a) = [t] := rfl
@[simp] theorem hHand_giveBack (t : Nat) (r : Option Nat) : hHand (.giveBack t r) = [t] := rfl
@[simp] theorem hHand_callback (r : Option Nat) : hHand (.callback r) = [] := rfl
@[simp] theorem hHand_exited : hHand .exited = [] := rfl

@[simp] theorem signalThr_opc (s : St) (t : Nat) : (signalThr s t).opc = s.opc := rfl
@[simp] theorem signalThr_idle (s : St) (t : Nat) : (signalThr s t).idle = s.idle := rfl
@[simp] theorem signalThr_ordered (s : St) (t : Nat) : (signalThr s t).ordered = s.ordered := rfl
@[simp] theorem signalThr_count (s : St) (t : Nat) : (signalThr s t).count = s.count := rfl
@[simp] theorem signalThr_max (s : St) (t : Nat) : (signalThr s t).max = s.max := rfl
@[simp] theorem signalThr_clsize (s : St) (t : Nat) : (signalThr s t).cl.size = s.cl.size := by simp [signalThr]
@[simp] theorem signalRq_opc (s : St) (c : Nat) : (signalRq s c).opc = s.opc := rfl
@[simp] theorem signalRq_idle (s : St) (c : Nat) : (signalRq s c).idle = s.idle := rfl
@[simp] theorem signalRq_ordered (s : St) (c : Nat) : (signalRq s c).ordered = s.ordered := rfl
@[simp] theorem signalRq_count (s : St) (c : Nat) : (signalRq s c).count = s.count := rfl
@[simp] theorem signalRq_max (s : St) (c : Nat) : (signalRq s c).max = s.max := rfl
@[simp] theorem signalRq_clsize (s : St) (c : Nat) : (signalRq s c).cl.size = s.cl.size := by simp [signalRq]

/-- `occ` of a state given by its fields -/
theorem occ_mk (max njobs : Nat) (ordered : Bool) (cl : Array Client) (thr : Array Thr) (idle : List Nat) (count : Nat)
    (opc : OPc) (u : Nat) :
    occ { max, njobs, ordered, cl, thr, idle, count, opc } u =
      idle.count u + (oHand opc).count u + sumA cl (clCount ordered u) + wN thr[u]! := rfl

theorem le_stepOwner {s s' : St} (hs : stepOwner s = some s') : Le s s' := by
  unfold stepOwner at hs
  split at hs
  · -- spawn
    rename_i i ho
    injection hs with hs; subst hs
    refine ⟨by simp, fun u => ?_⟩
    rw [occ_mk]
    by_cases hi : i < s.cl.size
    · have := occ_setCl s i (fun _ => { pc := .start }) u hi
      simp only [occ, setCl_ordered, setCl_idle, setCl_opc, setCl_thr, setCl_cl, ho, clCount, clView] at this ⊢
      simp at this ⊢; omega
    · simp only [occ, setCl_ordered, setCl_idle, setCl_opc, setCl_thr, setCl_cl, sumA_modify_oob _ _ _ _ hi, ho]
      simp
  · -- joinC
    rename_i i ho
    split at hs
    · injection hs with hs; subst hs
      refine ⟨by simp, fun u => ?_⟩
      rw [occ_mk]; simp [occ, ho]
    · simp at hs
  · simp at hs
  · -- destroy false
    rename_i ho
    split at hs
    · injection hs with hs; subst hs
      exact ⟨by simp, fun u => by rw [occ_mk]; simp [occ, ho]⟩
    · split at hs
      · injection hs with hs; subst hs
        exact ⟨by simp, fun u => by rw [occ_mk]; simp [occ, ho]⟩
      · rename_i t rest hi
        injection hs with hs; subst hs
        refine ⟨by simp, fun u => ?_⟩
        rw [occ_mk]
        simp only [occ, ho, hi, List.count_cons, oHand_kill, oHand_destroy]
        simp
  · -- kill
    rename_i t ho
    injection hs with hs; subst hs
    refine ⟨by simp, fun u => ?_⟩
    rw [occ_signalThr]
    have h2 := occ_setThr_same s t (fun th => { th with running := true }) u (by simp [wN])
    rw [occ_mk, ← h2]
    simp [occ, ho]
  · -- joinW
    rename_i t ho
    split at hs
    · injection hs with hs; subst hs
      exact ⟨by simp, fun u => by rw [occ_mk]; simp [occ, ho]⟩
    · simp at hs
  · simp at hs


theorem wN_oob (s : St) (u : Nat) (h : s.thr.size ≤ u) : wN s.thr[u]! = 0 := by
  have : s.thr[u]! = default := by grind
  rw [this]; simp

/-- as `Le`, but the step may also create worker threads, each of which starts in at most one place -/
def LeF (s s' : St) : Prop :=
  s.thr.size ≤ s'.thr.size ∧ ∀ u, occ s' u ≤ occ s u + (if s.thr.size ≤ u ∧ u < s'.thr.size then 1 else 0)

theorem Le.toF {s s' : St} (h : Le s s') : LeF s s' := ⟨h.1, fun u => by have := h.2 u; omega⟩

theorem Excl.of_leF {s s' : St} (h : Excl s) (hl : LeF s s') : Excl s' := by
  refine ⟨fun u => ?_, fun u hu => ?_⟩
  · have h1 := hl.2 u
    by_cases hu : s.thr.size ≤ u
    · have := h.fresh u hu; split at h1 <;> omega
    · have := h.le1 u; rw [if_neg (by omega)] at h1; omega
  · have h1 := hl.2 u
    have := h.fresh u (Nat.le_trans hl.1 hu)
    rw [if_neg (by omega)] at h1; omega

theorem leF_stepClient {s s' : St} {c : Nat} (hs : stepClient s c = some s') : LeF s s' := by
  unfold stepClient at hs
  split at hs
  case isFalse => simp at hs
  rename_i hc
  dsimp only at hs
  split at hs
  · simp at hs
  · -- start
    rename_i hp
    injection hs with hs; subst hs
    exact Le.toF ⟨by simp, fun u => Nat.le_of_eq (occ_setCl_same _ _ _ _ (by simp [clView, hp]))⟩
  · -- mkH
    rename_i hp
    injection hs with hs; subst hs
    exact Le.toF ⟨by simp, fun u => Nat.le_of_eq (occ_setCl_same _ _ _ _ (by simp [clView, hp]))⟩
  · simp at hs
  · -- next false
    rename_i hp
    split at hs
    · injection hs with hs; subst hs
      exact Le.toF ⟨by simp, fun u => Nat.le_of_eq (occ_setCl_same _ _ _ _ (by simp [clView, hp]))⟩
    · split at hs
      · rename_i t rest hi
        injection hs with hs; subst hs
        refine Le.toF ⟨by simp, fun u => ?_⟩
        have := occ_setCl { s with idle := rest } c (fun cl => { cl with pc := .assign t }) u hc
        simp only [clCount, clView, hp] at this
        simp only [occ, hi] at this ⊢
        simp [List.count_cons] at this ⊢
        omega
      · split at hs
        · injection hs with hs; subst hs
          exact Le.toF ⟨by simp, fun u => Nat.le_of_eq (occ_setCl_same _ _ _ _ (by simp [clView, hp]))⟩
        · injection hs with hs; subst hs
          refine Le.toF ⟨by simp, fun u => Nat.le_of_eq ?_⟩
          rw [occ_setCl_same _ _ _ _ (by simp [clView, hp])]
          rfl
  · -- create
    rename_i hp
    injection hs with hs; subst hs
    refine ⟨by simp, fun u => ?_⟩
    have h1 := occ_setCl { s with thr := s.thr.push {} } c (fun cl => { cl with pc := .assign s.thr.size }) u hc
    simp only [clCount, clView, hp] at h1
    simp only [occ] at h1 ⊢
    have hpush := get_push s.thr {} u
    have hw : wN ({} : Thr) = 0 := rfl
    simp only [setCl_ordered, setCl_idle, setCl_opc, setCl_thr, setCl_cl, Array.size_push] at h1 ⊢
    rw [hpush] at h1 ⊢
    by_cases hu : u = s.thr.size
    · have hz := wN_oob s u (by omega)
      simp [hu, hw, List.count_cons] at h1 ⊢
      simp [hu] at hz
      omega
    · simp [hu, List.count_cons] at h1 ⊢
      have : ¬ s.thr.size = u := by omega
      simp [this] at h1
      split <;> omega
  · -- assign
    rename_i t hp
    injection hs with hs; subst hs
    refine Le.toF ⟨by simp, fun u => ?_⟩
    generalize hf : (fun th : Thr =>
      ({ th with rq := if s.ordered then none else some c, cb := some s.cl[c]!.nextJob, running := true } : Thr)) = f
    rw [occ_signalThr]
    have h1 := occ_setCl (setThr s t f) c (fun cl => { cl with pc := .enqueue t }) u (by simpa using hc)
    have h3 := occ_setThr s t f u
    simp only [clCount, clView, setThr_ordered, setThr_cl, hp, cHand_assign, cHand_enqueue] at h1
    have h5 : wN (f s.thr[t]!) ≤ wN s.thr[t]! + (if s.ordered then 0 else 1) := by
      subst hf; simp only [wN]; cases s.ordered <;> simp <;> split <;> omega
    by_cases hut : u = t ∧ t < s.thr.size
    · rw [if_pos hut, if_pos hut, hut.1] at h3
      rw [hut.1] at h1 ⊢
      cases ho : s.ordered <;> simp [ho, List.count_cons] at h1 h5 <;> omega
    · rw [if_neg hut, if_neg hut] at h3
      cases ho : s.ordered <;> simp [ho, List.count_cons] at h1 <;> omega
  · -- enqueue
    rename_i t hp
    injection hs with hs; subst hs
    have key : ∀ u, occ (setCl s c fun cl =>
        { cl with nthreads := cl.nthreads + 1, queue := if s.ordered then cl.queue ++ [t] else cl.queue,
                  pc := .next false, nextJob := cl.nextJob + 1 }) u = occ s u := by
      intro u
      have := occ_setCl s c (fun cl =>
        { cl with nthreads := cl.nthreads + 1, queue := if s.ordered then cl.queue ++ [t] else cl.queue,
                  pc := .next false, nextJob := cl.nextJob + 1 }) u hc
      simp only [clCount, clView, hp, cHand_enqueue, cHand_next] at this
      cases ho : s.ordered <;> simp [ho, List.count_cons, List.count_append] at this ⊢ <;> omega
    by_cases ho : s.ordered = true
    · simp only [setCl_ordered, ho, if_true] at key ⊢
      exact Le.toF ⟨by simp, fun u => Nat.le_of_eq (by rw [occ_signalRq, key])⟩
    · simp only [setCl_ordered, ho, if_false] at key ⊢
      exact Le.toF ⟨by simp, fun u => Nat.le_of_eq (key u)⟩
  · -- finish
    rename_i hp
    injection hs with hs; subst hs
    refine Le.toF ⟨by simp, fun u => Nat.le_of_eq ?_⟩
    rw [occ_signalRq]
    exact occ_setCl_same _ _ _ _ (by simp [clView, hp])
  · -- joinH
    rename_i hp
    split at hs
    · injection hs with hs; subst hs
      exact Le.toF ⟨by simp, fun u => Nat.le_of_eq (occ_setCl_same _ _ _ _ (by simp [clView, hp]))⟩
    · simp at hs
  · simp at hs

theorem le_stepWorker {s s' : St} {t : Nat} (hs : stepWorker s t = some s') : Le s s' := by
  unfold stepWorker at hs
  split at hs
  case isFalse => simp at hs
  rename_i ht
  dsimp only at hs
  split at hs
  · simp at hs
  · -- top false
    rename_i hp
    split at hs <;> (injection hs with hs; subst hs)
    · exact ⟨by simp, fun u => Nat.le_of_eq (occ_setThr_same _ _ _ _ (by simp [wN, hp]))⟩
    · exact ⟨by simp, fun u => Nat.le_of_eq (occ_setThr_same _ _ _ _ (by simp [wN, hp]))⟩
  · -- gotJob
    rename_i hp
    split at hs
    · injection hs with hs; subst hs
      exact ⟨by simp, fun u => Nat.le_of_eq (occ_setThr_same _ _ _ _ (by simp [wN, hp]))⟩
    · split at hs <;> (injection hs with hs; subst hs)
      · rename_i c hr
        exact ⟨by simp, fun u => Nat.le_of_eq (occ_setThr_same _ _ _ _ (by simp [wN, hp, hr]))⟩
      · rename_i hr
        exact ⟨by simp, fun u => Nat.le_of_eq (occ_setThr_same _ _ _ _ (by simp [wN, hp, hr]))⟩
  · -- selfEnq
    rename_i c hp
    injection hs with hs; subst hs
    refine ⟨by simp, fun u => ?_⟩
    rw [occ_signalRq]
    have h3 := occ_setThr s t (fun th => { th with pc := .top false }) u
    by_cases hc : c < s.cl.size
    · have h1 := occ_setCl (setThr s t fun th => { th with pc := .top false }) c
        (fun cl => { cl with queue := cl.queue ++ [t] }) u (by simpa using hc)
      simp only [clCount, clView, setThr_ordered, setThr_cl] at h1
      by_cases hut : u = t ∧ t < s.thr.size
      · rw [if_pos hut, if_pos hut, hut.1] at h3
        rw [hut.1] at h1 ⊢
        simp [wN, hp, List.count_append] at h1 h3
        omega
      · rw [if_neg hut, if_neg hut] at h3
        have : ¬ t = u := fun h => hut ⟨h.symm, ht⟩
        simp [List.count_append, List.count_cons, this] at h1
        omega
    · have h1 : occ (setCl (setThr s t fun th => { th with pc := .top false }) c
          (fun cl => { cl with queue := cl.queue ++ [t] })) u = occ (setThr s t fun th => { th with pc := .top false }) u := by
        simp only [occ, setCl_ordered, setCl_idle, setCl_opc, setCl_thr, setCl_cl]
        rw [sumA_modify_oob _ _ _ _ (by simpa using hc)]
      rw [h1]
      split at h3
      · rename_i hut; rw [hut.1] at h3 ⊢; simp [wN, hp] at h3; omega
      · omega
  · -- doneOrd
    rename_i hp
    injection hs with hs; subst hs
    refine ⟨by simp, fun u => Nat.le_of_eq ?_⟩
    rw [occ_signalThr]
    exact occ_setThr_same _ _ _ _ (by simp [wN, hp])
  · simp at hs

theorem le_stepHandler {s s' : St} {c k : Nat} (hs : stepHandler s c k = some s') : Le s s' := by
  unfold stepHandler at hs
  split at hs
  case isFalse => simp at hs
  rename_i hc
  dsimp only at hs
  split at hs
  · simp at hs
  split at hs
  · simp at hs
  · -- deq false
    rename_i hp
    split at hs
    · rename_i t rest hq
      injection hs with hs; subst hs
      refine ⟨by simp, fun u => Nat.le_of_eq ?_⟩
      have := occ_setCl s c (fun cl => { cl with queue := rest, nthreads := cl.nthreads - 1, hpc := .waitRes t false }) u hc
      simp only [clCount, clView, hp, hq] at this
      simp [List.count_cons, List.count_append] at this
      omega
    · split at hs <;> (injection hs with hs; subst hs)
      · exact ⟨by simp, fun u => Nat.le_of_eq (occ_setCl_same _ _ _ _ (by simp [clView, hp]))⟩
      · exact ⟨by simp, fun u => Nat.le_of_eq (occ_setCl_same _ _ _ _ (by simp [clView, hp]))⟩
  · simp at hs
  · -- waitRes t false
    rename_i t hp
    split at hs <;> (injection hs with hs; subst hs)
    · exact ⟨by simp, fun u => Nat.le_of_eq (occ_setCl_same _ _ _ _ (by simp [clView, hp]))⟩
    · refine ⟨by simp, fun u => Nat.le_of_eq ?_⟩
      rw [occ_setCl_same _ _ _ _ (by simp [clView, hp])]
      exact occ_setThr_same _ _ _ _ (by simp [wN])
  · -- giveBack
    rename_i t r hp
    injection hs with hs; subst hs
    refine ⟨by simp, fun u => Nat.le_of_eq ?_⟩
    rw [occ_signalPool]
    have := occ_setCl { s with idle := t :: s.idle } c (fun cl => { cl with hpc := .callback r }) u hc
    simp only [clCount, clView, hp] at this
    simp only [occ] at this ⊢
    simp [List.count_cons, List.count_append] at this ⊢
    omega
  · -- callback
    rename_i r hp
    injection hs with hs; subst hs
    exact ⟨by simp, fun u => Nat.le_of_eq (occ_setCl_same _ _ _ _ (by simp [clView, hp]))⟩
  · simp at hs


theorem le_spurious {s s' : St} {w : Who} (hs : step s (.spurious w) = some s') : Le s s' := by
  cases w with
  | owner =>
    simp only [step] at hs
    split at hs
    · rename_i ho; injection hs with hs; subst hs
      exact ⟨by simp, fun u => by rw [occ_mk]; simp [occ, ho]⟩
    · simp at hs
  | client c =>
    simp only [step] at hs
    split at hs
    · rename_i hp; injection hs with hs; subst hs
      refine ⟨by simp, fun u => Nat.le_of_eq (occ_setCl_same _ _ _ _ ?_)⟩
      have : s.cl[c]!.pc = .next true := by
        cases h : s.cl[c]? with
        | none => simp [h] at hp
        | some x => simp [h] at hp; simp [getElem!_def, h, hp]
      simp [clView, this]
    · simp at hs
  | handler c =>
    simp only [step] at hs
    split at hs
    · rename_i hp; injection hs with hs; subst hs
      refine ⟨by simp, fun u => Nat.le_of_eq (occ_setCl_same _ _ _ _ ?_)⟩
      have : s.cl[c]!.hpc = .deq true := by
        cases h : s.cl[c]? with
        | none => simp [h] at hp
        | some x => simp [h] at hp; simp [getElem!_def, h, hp]
      simp [clView, this]
    · rename_i t hp; injection hs with hs; subst hs
      refine ⟨by simp, fun u => Nat.le_of_eq (occ_setCl_same _ _ _ _ ?_)⟩
      have : s.cl[c]!.hpc = .waitRes t true := by
        cases h : s.cl[c]? with
        | none => simp [h] at hp
        | some x => simp [h] at hp; simp [getElem!_def, h, hp]
      simp [clView, this]
    · simp at hs
  | worker t =>
    simp only [step] at hs
    split at hs
    · rename_i hp; injection hs with hs; subst hs
      refine ⟨by simp, fun u => Nat.le_of_eq (occ_setThr_same _ _ _ _ ?_)⟩
      have : s.thr[t]!.pc = .top true := by
        cases h : s.thr[t]? with
        | none => simp [h] at hp
        | some x => simp [h] at hp; simp [getElem!_def, h, hp]
      simp [wN, this]
    · simp at hs

theorem leF_step {s s' : St} {l : Lbl} (hs : step s l = some s') : LeF s s' := by
  cases l with
  | spurious w => exact (le_spurious hs).toF
  | run w k =>
    cases w with
    | owner => exact (le_stepOwner hs).toF
    | client c => exact leF_stepClient hs
    | handler c => exact (le_stepHandler hs).toF
    | worker t => exact (le_stepWorker hs).toF

theorem excl_init (n max njobs : Nat) (o : Bool) : Excl (init n max njobs o) := by
  have h : ∀ u, occ (init n max njobs o) u = 0 := by
    intro u
    simp only [init, occ]
    rw [sumA_replicate _ _ _ (by simp [clCount, clView])]
    simp
  exact ⟨fun u => by rw [h]; omega, fun u _ => h u⟩

/-- EXCLUSIVE HAND-OUT, any number of clients: in every reachable state every worker thread is in at most one place -/
theorem excl_reachable {n max njobs : Nat} {o : Bool} {s : St} (hr : Reachable n max njobs o s) : Excl s := by
  induction hr with
  | init => exact excl_init _ _ _ _
  | step _ hs ih => exact ih.of_leF (leF_step hs)

/-! ### readable consequences -/
theorem list_two_le_sum {α : Type} (l : List α) (f : α → Nat) (i j : Nat) (hi : i < l.length) (hj : j < l.length)
    (hne : i ≠ j) : f l[i] + f l[j] ≤ (l.map f).sum := by
  induction l generalizing i j with
  | nil => simp at hi
  | cons a l ih =>
    cases i with
    | zero =>
      cases j with
      | zero => exact absurd rfl hne
      | succ j =>
        have hj' : j < l.length := by simpa using hj
        have := list_le_sum l f l[j] (List.getElem_mem hj')
        simp; omega
    | succ i =>
      cases j with
      | zero =>
        have hi' : i < l.length := by simpa using hi
        have := list_le_sum l f l[i] (List.getElem_mem hi')
        simp; omega
      | succ j =>
        have := ih i j (by simpa using hi) (by simpa using hj) (by omega)
        simp; omega

theorem sumA_two_le {α : Type} [Inhabited α] (a : Array α) (f : α → Nat) (i j : Nat) (hi : i < a.size) (hj : j < a.size)
    (hne : i ≠ j) : f a[i]! + f a[j]! ≤ sumA a f := by
  rw [getElem!_pos a i hi, getElem!_pos a j hj, sumA]
  have := list_two_le_sum a.toList f i j (by simpa using hi) (by simpa using hj) hne
  simpa using this

/-- no worker thread is held by two clients at once -/
theorem Excl.two_clients {s : St} (h : Excl s) {c1 c2 t : Nat} (h1 : c1 < s.cl.size) (h2 : c2 < s.cl.size) (hne : c1 ≠ c2)
    (m1 : t ∈ clView s.ordered s.cl[c1]!) : t ∉ clView s.ordered s.cl[c2]! := by
  intro m2
  have := sumA_two_le s.cl (clCount s.ordered t) c1 c2 h1 h2 hne
  have a1 : 0 < clCount s.ordered t s.cl[c1]! := List.count_pos_iff.mpr m1
  have a2 : 0 < clCount s.ordered t s.cl[c2]! := List.count_pos_iff.mpr m2
  have := h.le1 t
  simp only [occ] at this
  omega

/-- a thread a client holds is not in the idle list, not in the owner's hands, and is held once -/
theorem Excl.client_holds {s : St} (h : Excl s) {c t : Nat} (hc : c < s.cl.size) (m : t ∈ clView s.ordered s.cl[c]!) :
    t ∉ s.idle ∧ t ∉ oHand s.opc ∧ (clView s.ordered s.cl[c]!).count t = 1 ∧ t < s.thr.size ∧ wN s.thr[t]! = 0 := by
  have a1 : 0 < clCount s.ordered t s.cl[c]! := List.count_pos_iff.mpr m
  have a2 := sumA_le s.cl (clCount s.ordered t) c hc
  have a3 := h.le1 t
  simp only [occ] at a3
  refine ⟨fun hi => ?_, fun ho => ?_, ?_, ?_, by omega⟩
  · have : 0 < s.idle.count t := List.count_pos_iff.mpr hi; omega
  · have : 0 < (oHand s.opc).count t := List.count_pos_iff.mpr ho; omega
  · simp only [clCount] at a1 a2; omega
  · apply Classical.byContradiction; intro hn
    have := h.fresh t (by omega)
    simp only [occ] at this; omega

/-- an idle thread is in the list once and nobody holds it -/
theorem Excl.idle_free {s : St} (h : Excl s) {t : Nat} (m : t ∈ s.idle) :
    s.idle.count t = 1 ∧ t ∉ oHand s.opc ∧ (∀ c, c < s.cl.size → t ∉ clView s.ordered s.cl[c]!) ∧ wN s.thr[t]! = 0 ∧
      t < s.thr.size := by
  have a1 : 0 < s.idle.count t := List.count_pos_iff.mpr m
  have a3 := h.le1 t
  simp only [occ] at a3
  refine ⟨by omega, fun ho => ?_, fun c hc mc => ?_, by omega, ?_⟩
  · have : 0 < (oHand s.opc).count t := List.count_pos_iff.mpr ho; omega
  · have b1 : 0 < clCount s.ordered t s.cl[c]! := List.count_pos_iff.mpr mc
    have := sumA_le s.cl (clCount s.ordered t) c hc; omega
  · apply Classical.byContradiction; intro hn
    have := h.fresh t (by omega)
    simp only [occ] at this; omega

/-! ### the bound -/
@[simp] theorem signalPool_count (s : St) (k : Nat) : (signalPool s k).count = s.count := by
  unfold signalPool; split
  · rfl
  · dsimp only; split <;> simp
@[simp] theorem signalPool_max (s : St) (k : Nat) : (signalPool s k).max = s.max := by
  unfold signalPool; split
  · rfl
  · dsimp only; split <;> simp

theorem bound_step {s s' : St} {l : Lbl} (hs : step s l = some s') (h : s.count ≤ s.max) : s'.count ≤ s'.max := by
  cases l with
  | spurious w =>
    cases w <;> simp only [step] at hs <;> split at hs <;>
      first | (simp at hs; done) | (injection hs with hs; subst hs; simpa using h)
  | run w k =>
    cases w with
    | owner =>
      simp only [step, stepOwner] at hs
      repeat' split at hs
      all_goals first | (simp at hs; done) | (injection hs with hs; subst hs; simp; omega)
    | client c =>
      simp only [step, stepClient] at hs
      split at hs
      case isFalse => simp at hs
      repeat' split at hs
      all_goals first | (simp at hs; done) | (injection hs with hs; subst hs; simp; omega)
    | handler c =>
      simp only [step, stepHandler] at hs
      split at hs
      case isFalse => simp at hs
      repeat' split at hs
      all_goals first | (simp at hs; done) | (injection hs with hs; subst hs; simp; omega)
    | worker t =>
      simp only [step, stepWorker] at hs
      split at hs
      case isFalse => simp at hs
      repeat' split at hs
      all_goals first | (simp at hs; done) | (injection hs with hs; subst hs; simp; omega)

/-- THE BOUND, any number of clients: the pool never has more worker threads than its configured maximum -/
theorem bound_reachable {n max njobs : Nat} {o : Bool} {s : St} (hr : Reachable n max njobs o s) : s.count ≤ s.max := by
  induction hr with
  | init => simp [init]
  | step _ hs ih => exact bound_step hs ih

end TpK
