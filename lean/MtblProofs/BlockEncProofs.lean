import MtblModel.Format
import MtblModel.Block
import MtblProofs.BlockDefs
import MtblProofs.VarintProofs
/-
  Byte-level theorems for the block layer: every legally encoded block (`EBlock.encode`) decodes,
  through the reader-side functions of MtblModel/Block.lean, to exactly its abstract content
  (`BlockOK blk b.view`), for both restart-array widths; and the writer's block builder
  (MtblModel/BlockBuilder.lean) produces one particular legal encoding (`canonBlock`).
-/
namespace Mtbl

namespace BlockEnc

/-! ### A. `lcp` and `bcmp` -/

theorem lcp_le_left : ∀ (a b : Bytes), lcp a b ≤ a.length
  | [], _ => by simp [lcp]
  | _ :: _, [] => by simp [lcp]
  | x :: xs, y :: ys => by
    simp only [lcp, List.length_cons]
    split
    · have := lcp_le_left xs ys; omega
    · omega

theorem lcp_le_right : ∀ (a b : Bytes), lcp a b ≤ b.length
  | [], _ => by simp [lcp]
  | _ :: _, [] => by simp [lcp]
  | x :: xs, y :: ys => by
    simp only [lcp, List.length_cons]
    split
    · have := lcp_le_right xs ys; omega
    · omega

theorem lcp_nil_left (b : Bytes) : lcp [] b = 0 := by simp [lcp]

/-- any `sh` up to the longest common prefix is a common prefix -/
theorem take_eq_of_le_lcp : ∀ (a b : Bytes) (sh : Nat), sh ≤ lcp a b → a.take sh = b.take sh
  | [], b, sh => by
    intro h; rw [lcp_nil_left] at h
    have : sh = 0 := by omega
    subst this; simp
  | _ :: _, [], sh => by
    intro h; simp only [lcp] at h
    have : sh = 0 := by omega
    subst this; simp
  | x :: xs, y :: ys, sh => by
    intro h
    simp only [lcp] at h
    cases sh with
    | zero => simp
    | succ s =>
      by_cases hxy : x = y
      · rw [if_pos hxy] at h
        subst hxy
        simp only [List.take_succ_cons, List.cons.injEq, true_and]
        exact take_eq_of_le_lcp xs ys s (by omega)
      · rw [if_neg hxy] at h; omega

theorem lcp_take (a b : Bytes) : a.take (lcp a b) = b.take (lcp a b) :=
  take_eq_of_le_lcp a b _ (Nat.le_refl _)

/-- the elided prefix is recovered from the previous key -/
theorem take_append_drop_of_le_lcp (prev cur : Bytes) (sh : Nat) (h : sh ≤ lcp prev cur) :
    prev.take sh ++ cur.drop sh = cur := by
  rw [take_eq_of_le_lcp prev cur sh h, List.take_append_drop]

theorem bcmp_lt_trans : ∀ (a b c : Bytes), bcmp a b = .lt → bcmp b c = .lt → bcmp a c = .lt
  | [], [], _ => by simp [bcmp]
  | [], _ :: _, [] => by simp [bcmp]
  | [], _ :: _, _ :: _ => by simp [bcmp]
  | _ :: _, [], _ => by simp [bcmp]
  | _ :: _, _ :: _, [] => by simp [bcmp]
  | x :: xs, y :: ys, z :: zs => by
    intro h1 h2
    simp only [bcmp] at h1 h2 ⊢
    have ih := bcmp_lt_trans xs ys zs
    simp only [UInt8.lt_iff_toNat_lt] at h1 h2 ⊢
    by_cases hxy : x.toNat < y.toNat
    · by_cases hyz : y.toNat < z.toNat
      · rw [if_pos (by omega)]
      · rw [if_neg hyz] at h2
        by_cases hzy : z.toNat < y.toNat
        · rw [if_pos hzy] at h2; cases h2
        · rw [if_pos (by omega)]
    · rw [if_neg hxy] at h1
      by_cases hyx : y.toNat < x.toNat
      · rw [if_pos hyx] at h1; cases h1
      · rw [if_neg hyx] at h1
        by_cases hyz : y.toNat < z.toNat
        · rw [if_pos (by omega)]
        · rw [if_neg hyz] at h2
          by_cases hzy : z.toNat < y.toNat
          · rw [if_pos hzy] at h2; cases h2
          · rw [if_neg hzy] at h2
            rw [if_neg (by omega), if_neg (by omega)]
            exact ih h1 h2

/-- a relation that holds between neighbours and is transitive holds pairwise -/
theorem pairwise_of_adjacent {α : Type} (R : α → α → Prop) (htr : ∀ a b c, R a b → R b c → R a c) :
    ∀ (l : List α), (∀ i (h : i + 1 < l.length), R l[i] l[i+1]) → l.Pairwise R
  | [], _ => List.Pairwise.nil
  | a :: t, h => by
    have ht : ∀ i (h' : i + 1 < t.length), R t[i] t[i+1] := by
      intro i h'
      have := h (i + 1) (by simp only [List.length_cons]; omega)
      simpa using this
    rw [List.pairwise_cons]
    refine ⟨?_, pairwise_of_adjacent R htr t ht⟩
    intro b hb
    obtain ⟨j, hj, rfl⟩ := List.mem_iff_getElem.mp hb
    induction j with
    | zero =>
      have := h 0 (by simp only [List.length_cons]; omega)
      simpa using this
    | succ j ih =>
      exact htr _ _ _ (ih (by omega) (List.getElem_mem _)) (ht j hj)

/-! ### B. one entry: `decodeEntryAt` inverts `encEntry` -/

theorem venc32t_eq {v : Nat} (h : v < 2^32) : venc32t v = venc v := by
  unfold venc32t
  have p : (2:Nat)^32 = 4294967296 := by decide
  rw [Nat.mod_eq_of_lt (by omega), venc32_eq_venc h]

/-- header length of an entry -/
def _root_.Mtbl.hdrLen (sh : Nat) (e : Entry) : Nat := vlen sh + vlen (e.key.length - sh) + vlen e.val.length

theorem encEntry_eq (sh : Nat) (e : Entry) (hsh : sh ≤ e.key.length) (hk : e.key.length < 2^32)
    (hv : e.val.length < 2^32) :
    encEntry sh e = venc sh ++ (venc (e.key.length - sh) ++ (venc e.val.length ++ (e.key.drop sh ++ e.val))) := by
  unfold encEntry
  rw [venc32t_eq (show sh < 2^32 by omega), venc32t_eq (show e.key.length - sh < 2^32 by omega),
    venc32t_eq hv]
  simp only [List.append_assoc]

theorem encEntry_split (sh : Nat) (e : Entry) (hsh : sh ≤ e.key.length) (hk : e.key.length < 2^32)
    (hv : e.val.length < 2^32) :
    ∃ hdr : Bytes, encEntry sh e = hdr ++ (e.key.drop sh ++ e.val) ∧ hdr.length = hdrLen sh e :=
  ⟨venc sh ++ venc (e.key.length - sh) ++ venc e.val.length, by
    rw [encEntry_eq sh e hsh hk hv]; simp only [List.append_assoc], by
    simp only [List.length_append, venc_length, hdrLen]⟩

theorem encEntry_length (sh : Nat) (e : Entry) (hsh : sh ≤ e.key.length) (hk : e.key.length < 2^32)
    (hv : e.val.length < 2^32) :
    (encEntry sh e).length = hdrLen sh e + (e.key.length - sh) + e.val.length := by
  rw [encEntry_eq sh e hsh hk hv]
  simp only [List.length_append, venc_length, List.length_drop, hdrLen]
  omega

theorem hdrLen_ge (sh : Nat) (e : Entry) : 3 ≤ hdrLen sh e := by
  have := vlen_pos sh; have := vlen_pos (e.key.length - sh); have := vlen_pos e.val.length
  unfold hdrLen; omega

theorem _root_.Mtbl.decodeEntryAt_enc (pre post : Bytes) (sh : Nat) (e : Entry) (extra : Nat) (data : Bytes)
    (limit : Nat) (hd : data = pre ++ encEntry sh e ++ post)
    (hsh : sh ≤ e.key.length) (hk : e.key.length < 2^32) (hv : e.val.length < 2^32)
    (hlim : limit = pre.length + (encEntry sh e).length + extra) (hle : limit ≤ data.length) :
    ∃ p, decodeEntryAt data pre.length limit = some (sh, e.key.length - sh, e.val.length, p) ∧
      p = pre.length + hdrLen sh e ∧
      (data.drop p).take (e.key.length - sh) = e.key.drop sh ∧
      (data.drop (p + (e.key.length - sh))).take e.val.length = e.val ∧
      p + (e.key.length - sh) + e.val.length = pre.length + (encEntry sh e).length := by
  have hlen := encEntry_length sh e hsh hk hv
  have h3 := hdrLen_ge sh e
  have hpost : extra ≤ post.length := by
    rw [hd] at hle; simp only [List.length_append] at hle; omega
  have p32 : (2:Nat)^32 = 4294967296 := by decide
  refine ⟨pre.length + hdrLen sh e, ?_, rfl, ?_, ?_, by omega⟩
  · have hwin : (data.drop pre.length).take (limit - pre.length) =
        venc sh ++ (venc (e.key.length - sh) ++ (venc e.val.length ++
          (e.key.drop sh ++ e.val ++ post.take extra))) := by
      rw [hd, List.append_assoc, List.drop_left, hlim,
        show pre.length + (encEntry sh e).length + extra - pre.length = (encEntry sh e).length + extra by omega,
        List.take_append, List.take_of_length_le (by omega),
        show (encEntry sh e).length + extra - (encEntry sh e).length = extra by omega,
        encEntry_eq sh e hsh hk hv]
      simp only [List.append_assoc]
    unfold decodeEntryAt
    rw [if_neg (by omega)]
    simp only [hwin]
    rw [vdecR_venc _ 5 _ (vlen_le5 (by omega))]
    simp only
    rw [vdecR_venc _ 5 _ (vlen_le5 (by omega))]
    simp only
    rw [vdecR_venc _ 5 _ (vlen_le5 hv)]
    simp only
    have hl3 : (e.key.drop sh ++ e.val ++ post.take extra).length = (e.key.length - sh) + e.val.length + extra := by
      simp only [List.length_append, List.length_drop, List.length_take]; omega
    rw [hl3, if_neg (by omega)]
    simp only [U32, Option.some.injEq, Prod.mk.injEq]
    refine ⟨Nat.mod_eq_of_lt (by omega), Nat.mod_eq_of_lt (by omega), Nat.mod_eq_of_lt (by omega), by omega⟩
  · obtain ⟨hdr, hh, hl⟩ := encEntry_split sh e hsh hk hv
    have hd' : data = (pre ++ hdr) ++ (e.key.drop sh ++ (e.val ++ post)) := by
      rw [hd, hh]; simp only [List.append_assoc]
    have hpl : pre.length + hdrLen sh e = (pre ++ hdr).length := by
      rw [List.length_append, hl]
    rw [hd', hpl, List.drop_left]
    have : e.key.length - sh = (e.key.drop sh).length := by rw [List.length_drop]
    rw [this, List.take_left]
  · obtain ⟨hdr, hh, hl⟩ := encEntry_split sh e hsh hk hv
    have hd' : data = (pre ++ hdr ++ e.key.drop sh) ++ (e.val ++ post) := by
      rw [hd, hh]; simp only [List.append_assoc]
    have hpl : pre.length + hdrLen sh e + (e.key.length - sh) = (pre ++ hdr ++ e.key.drop sh).length := by
      simp only [List.length_append, hl, List.length_drop]
    rw [hd', hpl, List.drop_left, List.take_left]


/-! ### C. `EBlock.legal` as a proposition -/

/-- what `legal` demands of item `i` -/
structure ItemOK (b : EBlock) (i : Nat) (it : EEntry) : Prop where
  klen : it.e.key.length < 2^32
  vlen : it.e.val.length < 2^32
  first : i = 0 → it.shared = 0
  prev : 0 < i → ∃ pv, b.items[i - 1]? = some pv ∧ it.shared ≤ lcp pv.e.key it.e.key ∧
          bcmp pv.e.key it.e.key = .lt
  restart : i ∈ b.restarts → it.shared = 0

structure LegalP (b : EBlock) : Prop where
  head : b.restarts.head? = some 0
  mono : ∀ j (h : j + 1 < b.restarts.length), b.restarts[j] < b.restarts[j + 1]
  lt : ∀ r ∈ b.restarts, r < max b.items.length 1
  item : ∀ i it, b.items[i]? = some it → ItemOK b i it

theorem zip_tail_all (l : List Nat) :
    ((l.zip l.tail).all (fun (a, c) => decide (a < c)) = true) ↔
      ∀ j (h : j + 1 < l.length), l[j] < l[j + 1] := by
  rw [List.all_eq_true]
  constructor
  · intro h j hj
    have hz : j < (l.zip l.tail).length := by simp only [List.length_zip, List.length_tail]; omega
    have := h (l.zip l.tail)[j] (List.getElem_mem hz)
    rw [List.getElem_zip, List.getElem_tail] at this
    simpa using this
  · intro h x hx
    obtain ⟨j, hj, rfl⟩ := List.mem_iff_getElem.mp hx
    have hj' : j + 1 < l.length := by
      simp only [List.length_zip, List.length_tail] at hj; omega
    rw [List.getElem_zip, List.getElem_tail]
    simpa using h j hj'

theorem itemOK_iff (b : EBlock) (i : Nat) (it : EEntry) :
    (decide (it.e.key.length < 4294967296) && decide (it.e.val.length < 4294967296) &&
     (if i = 0 then it.shared == 0
      else match b.items[i - 1]? with
        | some prev => decide (it.shared ≤ lcp prev.e.key it.e.key) && blt prev.e.key it.e.key
        | none => false) &&
     (!b.restarts.contains i || it.shared == 0)) = true ↔ ItemOK b i it := by
  have p32 : (2:Nat)^32 = 4294967296 := by decide
  constructor
  · intro h
    simp only [Bool.and_eq_true, decide_eq_true_eq, Bool.or_eq_true, Bool.not_eq_true',
      beq_iff_eq] at h
    obtain ⟨⟨⟨hk, hv⟩, hp⟩, hr⟩ := h
    refine ⟨by omega, by omega, ?_, ?_, ?_⟩
    · intro hi; rw [if_pos hi] at hp; simpa using hp
    · intro hi
      rw [if_neg (by omega)] at hp
      cases hpv : b.items[i - 1]? with
      | none => rw [hpv] at hp; simp at hp
      | some pv =>
        rw [hpv] at hp
        simp only [Bool.and_eq_true, decide_eq_true_eq, blt, beq_iff_eq] at hp
        exact ⟨pv, rfl, hp.1, hp.2⟩
    · intro hi
      rcases hr with hr | hr
      · have := List.contains_iff_mem.mpr hi
        rw [this] at hr; cases hr
      · exact hr
  · intro h
    simp only [Bool.and_eq_true, decide_eq_true_eq, Bool.or_eq_true, Bool.not_eq_true',
      beq_iff_eq]
    refine ⟨⟨⟨by have := h.klen; omega, by have := h.vlen; omega⟩, ?_⟩, ?_⟩
    · by_cases hi : i = 0
      · rw [if_pos hi]; simpa using h.first hi
      · rw [if_neg hi]
        obtain ⟨pv, hpv, h1, h2⟩ := h.prev (by omega)
        rw [hpv]
        simp only [Bool.and_eq_true, decide_eq_true_eq, blt, beq_iff_eq]
        exact ⟨h1, h2⟩
    · by_cases hi : i ∈ b.restarts
      · right; exact h.restart hi
      · left
        cases hc : b.restarts.contains i with
        | false => rfl
        | true => exact absurd (List.contains_iff_mem.mp hc) hi

theorem legal_iff (b : EBlock) : b.legal = true ↔ LegalP b := by
  unfold EBlock.legal
  simp only [Bool.and_eq_true]
  rw [zip_tail_all, beq_iff_eq]
  constructor
  · rintro ⟨⟨⟨h1, h2⟩, h3⟩, h4⟩
    refine ⟨h1, h2, ?_, ?_⟩
    · intro r hr
      simpa using List.all_eq_true.mp h3 r hr
    · intro i it hi
      have := List.all_eq_true.mp h4 (it, i) (List.mem_zipIdx_iff_getElem?.mpr hi)
      exact (itemOK_iff b i it).mp this
  · intro h
    refine ⟨⟨⟨h.head, h.mono⟩, ?_⟩, ?_⟩
    · rw [List.all_eq_true]
      intro r hr
      simpa using h.lt r hr
    · rw [List.all_eq_true]
      rintro ⟨it, i⟩ hx
      have := h.item i it (List.mem_zipIdx_iff_getElem?.mp hx)
      exact (itemOK_iff b i it).mpr this


/-! ### D. structure of the entry region and of the restart array -/

/-- bytes of one item -/
def encIt (it : EEntry) : Bytes := encEntry it.shared it.e

theorem region_eq (b : EBlock) : b.region = b.items.flatMap encIt := rfl

theorem offsetOf_eq (b : EBlock) (i : Nat) : b.offsetOf i = ((b.items.take i).flatMap encIt).length := rfl

theorem offsetOf_zero (b : EBlock) : b.offsetOf 0 = 0 := by
  simp [offsetOf_eq]

theorem offsetOf_of_ge (b : EBlock) (i : Nat) (h : b.items.length ≤ i) :
    b.offsetOf i = b.region.length := by
  rw [offsetOf_eq, region_eq, List.take_of_length_le h]

theorem offsetOf_succ (b : EBlock) (i : Nat) (it : EEntry) (h : b.items[i]? = some it) :
    b.offsetOf (i + 1) = b.offsetOf i + (encIt it).length := by
  rw [offsetOf_eq, offsetOf_eq, List.take_add_one, h, List.flatMap_append]
  simp

theorem region_split (b : EBlock) (i : Nat) (it : EEntry) (h : b.items[i]? = some it) :
    b.region = (b.items.take i).flatMap encIt ++ encIt it ++ (b.items.drop (i + 1)).flatMap encIt := by
  have hi : i < b.items.length := by
    rcases Nat.lt_or_ge i b.items.length with h' | h'
    · exact h'
    · rw [List.getElem?_eq_none h'] at h; cases h
  have hit : b.items[i] = it := by
    rw [List.getElem?_eq_getElem hi] at h; exact Option.some.inj h
  conv => lhs; rw [region_eq, ← List.take_append_drop i b.items, List.drop_eq_getElem_cons hi, hit]
  simp [List.flatMap_append, List.flatMap_cons]

theorem offsetOf_le (b : EBlock) (i : Nat) : b.offsetOf i ≤ b.region.length := by
  rw [offsetOf_eq]
  conv => rhs; rw [region_eq, ← List.take_append_drop i b.items, List.flatMap_append]
  simp

theorem flatMap_const_length {α : Type} (g : α → Bytes) (w : Nat) (hg : ∀ x, (g x).length = w) :
    ∀ l : List α, (l.flatMap g).length = l.length * w
  | [] => by simp
  | x :: t => by
    rw [List.flatMap_cons, List.length_append, hg, flatMap_const_length g w hg t, List.length_cons,
      Nat.add_mul]
    omega

theorem flatMap_const_drop {α : Type} (g : α → Bytes) (w : Nat) (hg : ∀ x, (g x).length = w) :
    ∀ (l : List α) (j : Nat) (x : α), l[j]? = some x →
      (l.flatMap g).drop (j * w) = g x ++ (l.drop (j + 1)).flatMap g
  | [], j, x => by simp
  | y :: t, 0, x => by
    intro h
    simp only [List.getElem?_cons_zero, Option.some.injEq] at h
    subst h; simp
  | y :: t, j + 1, x => by
    intro h
    simp only [List.getElem?_cons_succ] at h
    have e : (j + 1) * w = (g y).length + j * w := by rw [hg y, Nat.add_mul]; omega
    rw [List.flatMap_cons, e, ← List.drop_drop, List.drop_left, List.drop_succ_cons]
    exact flatMap_const_drop g w hg t j x h


/-! ### E. `blockInit` on an encoded block -/

theorem subU64_eq {a b : Nat} (hb : b ≤ a) (ha : a < 2^64) : subU64 a b = a - b := by
  have p : (2:Nat)^64 = 18446744073709551616 := by decide
  unfold subU64 U64
  rw [Nat.mod_eq_of_lt (show b < 18446744073709551616 by omega)]
  omega

/-- width of a restart array slot -/
def rw_ (thr : Nat) (b : EBlock) : Nat := if b.region.length > thr then 8 else 4

/-- the restart array -/
def rarr (thr : Nat) (b : EBlock) : Bytes :=
  b.restarts.flatMap fun i => if b.region.length > thr then fixed64 (b.offsetOf i) else fixed32 (b.offsetOf i)

theorem encode_eq (thr : Nat) (b : EBlock) :
    b.encode thr = b.region ++ rarr thr b ++ fixed32 b.restarts.length := rfl

theorem rarr_slot_length (thr : Nat) (b : EBlock) (i : Nat) :
    (if b.region.length > thr then fixed64 (b.offsetOf i) else fixed32 (b.offsetOf i)).length = rw_ thr b := by
  unfold rw_
  split <;> rfl

theorem rarr_length (thr : Nat) (b : EBlock) : (rarr thr b).length = b.restarts.length * rw_ thr b :=
  flatMap_const_length _ _ (rarr_slot_length thr b) _

theorem encode_length (thr : Nat) (b : EBlock) :
    (b.encode thr).length = b.region.length + b.restarts.length * rw_ thr b + 4 := by
  rw [encode_eq, List.length_append, List.length_append, rarr_length, fixed32_length]

theorem encode_tail (thr : Nat) (b : EBlock) (hnr : b.restarts.length < 2^32) :
    dec32 ((b.encode thr).drop ((b.encode thr).length - 4)) = b.restarts.length := by
  have : (b.encode thr).length - 4 = (b.region ++ rarr thr b).length := by
    rw [encode_length, List.length_append, rarr_length]; omega
  rw [this, encode_eq, List.drop_left, ← List.append_nil (fixed32 _), dec32_fixed32 hnr]

theorem blockInit_encode (thr : Nat) (b : EBlock) (hpos : 0 < b.restarts.length)
    (hsize : (b.encode thr).length < 2^64) (hnr : b.restarts.length < 2^32 - 1) :
    blockInit thr (b.encode thr) =
      some { data := b.encode thr, size := (b.encode thr).length, restartOffset := b.region.length, thr := thr } := by
  have p64 : (2:Nat)^64 = 18446744073709551616 := by decide
  have p32 : (2:Nat)^32 = 4294967296 := by decide
  have hlen := encode_length thr b
  have htail := encode_tail thr b (by omega)
  unfold blockInit
  simp only [htail]
  generalize hS : (b.encode thr).length = S at *
  generalize hN : b.restarts.length = n at *
  generalize hR : b.region.length = R at *
  have hw : rw_ thr b = if R > thr then 8 else 4 := by unfold rw_; rw [hR]
  rw [hw] at hlen
  have h1n : (1 + n) % U32 = 1 + n := Nat.mod_eq_of_lt (by unfold U32; omega)
  rw [h1n]
  by_cases hbig : R > thr
  · rw [if_pos hbig] at hlen
    rw [subU64_eq (a := S) (b := (1 + n) * 4) (by omega) (by omega),
      subU64_eq (a := S) (b := 4) (by omega) (by omega),
      subU64_eq (a := S) (b := 4 + n * 8) (by omega) (by omega)]
    have e2 : S - (4 + n * 8) = R := by omega
    have hro : S - (1 + n) * 4 > thr := by omega
    rw [if_neg (by omega), if_neg (by omega)]
    simp only [if_pos hro, e2]
    rw [if_neg (by omega), if_neg (by omega)]
  · rw [if_neg hbig] at hlen
    rw [subU64_eq (a := S) (b := (1 + n) * 4) (by omega) (by omega),
      subU64_eq (a := S) (b := 4) (by omega) (by omega)]
    have e2 : S - (1 + n) * 4 = R := by omega
    rw [if_neg (by omega), if_neg (by omega)]
    simp only [e2, if_neg hbig]
    rw [if_neg (by omega), if_neg (by omega)]


end BlockEnc

/-- the abstract content of an encoder block -/
def EBlock.view (b : EBlock) : BlockView :=
  { ents := b.entries, offs := (List.range (b.items.length + 1)).map b.offsetOf, rs := b.restarts }

namespace BlockEnc

/-! ### F. the view of an encoder block -/

@[simp] theorem _root_.Mtbl.EBlock.view_n (b : EBlock) : b.view.n = b.items.length := by
  simp [EBlock.view, BlockView.n, EBlock.entries]

@[simp] theorem _root_.Mtbl.EBlock.view_nr (b : EBlock) : b.view.nr = b.restarts.length := rfl

@[simp] theorem _root_.Mtbl.EBlock.view_rs (b : EBlock) : b.view.rs = b.restarts := rfl

@[simp] theorem _root_.Mtbl.EBlock.view_ents (b : EBlock) : b.view.ents = b.entries := rfl

@[simp] theorem _root_.Mtbl.EBlock.view_r (b : EBlock) (j : Nat) : b.view.r j = b.restarts.getD j 0 := rfl

@[simp] theorem _root_.Mtbl.EBlock.view_off (b : EBlock) (i : Nat) (h : i ≤ b.items.length) : b.view.off i = b.offsetOf i := by
  simp only [EBlock.view, BlockView.off, List.getD_eq_getElem?_getD, List.getElem?_map]
  rw [List.getElem?_range (by omega)]
  rfl

@[simp] theorem _root_.Mtbl.EBlock.view_key (b : EBlock) (i : Nat) : b.view.key i = (b.items.getD i default).e.key := by
  simp only [EBlock.view, BlockView.key, EBlock.entries, List.getD_eq_getElem?_getD, List.getElem?_map]
  cases b.items[i]? <;> rfl

@[simp] theorem _root_.Mtbl.EBlock.view_val (b : EBlock) (i : Nat) : b.view.val i = (b.items.getD i default).e.val := by
  simp only [EBlock.view, BlockView.val, EBlock.entries, List.getD_eq_getElem?_getD, List.getElem?_map]
  cases b.items[i]? <;> rfl

theorem _root_.Mtbl.EBlock.view_key_of (b : EBlock) (i : Nat) (it : EEntry) (h : b.items[i]? = some it) :
    b.view.key i = it.e.key := by
  rw [EBlock.view_key, List.getD_eq_getElem?_getD, h]; rfl

theorem _root_.Mtbl.EBlock.view_val_of (b : EBlock) (i : Nat) (it : EEntry) (h : b.items[i]? = some it) :
    b.view.val i = it.e.val := by
  rw [EBlock.view_val, List.getD_eq_getElem?_getD, h]; rfl

theorem _root_.Mtbl.EBlock.view_offs_length (b : EBlock) : b.view.offs.length = b.view.n + 1 := by
  rw [EBlock.view_n]; simp [EBlock.view]

theorem getElem?_of_lt {α : Type} (l : List α) (i : Nat) (h : i < l.length) : ∃ x, l[i]? = some x :=
  ⟨l[i], List.getElem?_eq_getElem h⟩

theorem lt_of_getElem? {α : Type} (l : List α) (i : Nat) (x : α) (h : l[i]? = some x) : i < l.length := by
  rcases Nat.lt_or_ge i l.length with h' | h'
  · exact h'
  · rw [List.getElem?_eq_none h'] at h; cases h

/-- shared prefix never exceeds the key it abbreviates -/
theorem ItemOK.shared_le {b : EBlock} {i : Nat} {it : EEntry} (h : ItemOK b i it) :
    it.shared ≤ it.e.key.length := by
  rcases Nat.eq_zero_or_pos i with hi | hi
  · rw [h.first hi]; omega
  · obtain ⟨pv, _, h1, _⟩ := h.prev hi
    have := lcp_le_right pv.e.key it.e.key
    omega

theorem ItemOK.enc_length {b : EBlock} {i : Nat} {it : EEntry} (h : ItemOK b i it) :
    (encIt it).length = hdrLen it.shared it.e + (it.e.key.length - it.shared) + it.e.val.length :=
  encEntry_length it.shared it.e h.shared_le h.klen h.vlen

theorem entryOK_encode (thr : Nat) (b : EBlock) (hl : LegalP b) (sz : Nat) (i : Nat)
    (hi : i < b.items.length) :
    EntryOK { data := b.encode thr, size := sz, restartOffset := b.region.length, thr := thr } b.view i := by
  obtain ⟨it, hit⟩ := getElem?_of_lt b.items i hi
  have hok := hl.item i it hit
  have hsplit := region_split b i it hit
  have hdata : b.encode thr = (b.items.take i).flatMap encIt ++ encEntry it.shared it.e ++
      ((b.items.drop (i + 1)).flatMap encIt ++ rarr thr b ++ fixed32 b.restarts.length) := by
    rw [encode_eq, hsplit]; simp only [List.append_assoc, encIt]
  have hR : b.region.length = ((b.items.take i).flatMap encIt).length + (encEntry it.shared it.e).length +
      ((b.items.drop (i + 1)).flatMap encIt).length := by
    rw [hsplit]; simp only [List.length_append, encIt]
  obtain ⟨p, hdec, hp, hkey, hval, hnext⟩ := decodeEntryAt_enc _ _ it.shared it.e _ (b.encode thr)
    b.region.length hdata hok.shared_le hok.klen hok.vlen hR (by rw [encode_length]; omega)
  have hoff : b.view.off i = ((b.items.take i).flatMap encIt).length := by
    rw [EBlock.view_off b i (by omega)]; rfl
  refine ⟨it.shared, it.e.key.length - it.shared, it.e.val.length, p, ?_, hok.first, ?_, ?_, ?_, ?_, hok.restart⟩
  · rw [hoff]; exact hdec
  · rcases Nat.eq_zero_or_pos i with h0 | h0
    · rw [hok.first h0]; omega
    · obtain ⟨pv, hpv, h1, _⟩ := hok.prev h0
      rw [EBlock.view_key_of b (i - 1) pv hpv]
      have := lcp_le_left pv.e.key it.e.key
      omega
  · show b.view.key i = _ ++ List.take _ (List.drop p (b.encode thr))
    rw [EBlock.view_key_of b i it hit, hkey]
    rcases Nat.eq_zero_or_pos i with h0 | h0
    · rw [hok.first h0]; simp
    · obtain ⟨pv, hpv, h1, _⟩ := hok.prev h0
      rw [EBlock.view_key_of b (i - 1) pv hpv, take_append_drop_of_le_lcp _ _ _ h1]
  · show b.view.val i = List.take _ (List.drop _ (b.encode thr))
    rw [EBlock.view_val_of b i it hit, hval]
  · rw [EBlock.view_off b (i + 1) (by omega), hnext, offsetOf_succ b i it hit]
    rfl

/-! ### G. the remaining `BlockOK` fields -/

theorem off_mono_encode (b : EBlock) (hl : LegalP b) (i : Nat) (hi : i < b.items.length) :
    b.offsetOf i < b.offsetOf (i + 1) := by
  obtain ⟨it, hit⟩ := getElem?_of_lt b.items i hi
  have hok := hl.item i it hit
  rw [offsetOf_succ b i it hit, hok.enc_length]
  have := hdrLen_ge it.shared it.e
  omega

theorem LegalP.restarts_pos {b : EBlock} (hl : LegalP b) : 0 < b.restarts.length := by
  have := hl.head
  cases h : b.restarts with
  | nil => rw [h] at this; cases this
  | cons _ _ => simp

theorem LegalP.r_zero {b : EBlock} (hl : LegalP b) : b.restarts.getD 0 0 = 0 := by
  have := hl.head
  rw [List.head?_eq_getElem?] at this
  rw [List.getD_eq_getElem?_getD, this]; rfl

theorem getD_of_lt (l : List Nat) (j : Nat) (h : j < l.length) : l.getD j 0 = l[j] := by
  rw [List.getD_eq_getElem?_getD, List.getElem?_eq_getElem h]; rfl

theorem LegalP.r_lt {b : EBlock} (hl : LegalP b) (j : Nat) (hj : j < b.restarts.length) :
    b.restarts.getD j 0 < max b.items.length 1 := by
  rw [getD_of_lt _ _ hj]
  exact hl.lt _ (List.getElem_mem hj)

theorem sorted_encode (b : EBlock) (hl : LegalP b) : StrictSorted b.entries := by
  unfold StrictSorted
  apply pairwise_of_adjacent _ (fun a b c => bcmp_lt_trans a.key b.key c.key)
  intro i hi
  simp only [EBlock.entries, List.length_map] at hi
  obtain ⟨it, hit⟩ := getElem?_of_lt b.items (i + 1) hi
  obtain ⟨pv, hpv, _, hlt⟩ := (hl.item (i + 1) it hit).prev (by omega)
  simp only [Nat.add_sub_cancel] at hpv
  simp only [EBlock.entries, List.getElem_map]
  rw [List.getElem?_eq_getElem (by omega)] at hpv hit
  rw [Option.some.inj hpv, Option.some.inj hit]
  exact hlt

theorem restart_pt_encode (thr : Nat) (b : EBlock) (hl : LegalP b) (hthr : thr < 2^32)
    (hsize : (b.encode thr).length < 2^64) (sz : Nat) (bi : BI) (j : Nat)
    (hblk : bi.blk = { data := b.encode thr, size := sz, restartOffset := b.region.length, thr := thr })
    (hres : bi.restarts = b.region.length) (hj : j < b.restarts.length) :
    getRestartPoint bi j = b.view.off (b.view.r j) := by
  have hrj := hl.r_lt j hj
  rw [EBlock.view_r, EBlock.view_off b _ (by omega), getD_of_lt _ _ hj]
  have hget : b.restarts[j]? = some b.restarts[j] := List.getElem?_eq_getElem hj
  have hdrop := flatMap_const_drop _ _ (rarr_slot_length thr b) b.restarts j _ hget
  have hle := offsetOf_le b b.restarts[j]
  have hlen := encode_length thr b
  have hdata : (b.encode thr).drop (b.region.length + j * rw_ thr b) =
      (if b.region.length > thr then fixed64 (b.offsetOf b.restarts[j]) else fixed32 (b.offsetOf b.restarts[j])) ++
      ((b.restarts.drop (j + 1)).flatMap (fun i => if b.region.length > thr then fixed64 (b.offsetOf i)
          else fixed32 (b.offsetOf i)) ++ fixed32 b.restarts.length) := by
    rw [encode_eq, List.append_assoc, ← List.drop_drop, List.drop_left,
      List.drop_append_of_le_length (by
        rw [rarr_length]; exact Nat.mul_le_mul_right _ (by omega))]
    unfold rarr
    rw [hdrop, List.append_assoc]
  unfold getRestartPoint
  rw [hblk, hres]
  simp only
  unfold rw_ at hdata hlen
  by_cases hbig : b.region.length > thr
  · rw [if_pos hbig] at hdata hlen ⊢
    rw [hdata, if_pos hbig, dec64_fixed64 (by omega)]
  · rw [if_neg hbig] at hdata ⊢
    rw [hdata, if_neg hbig, dec32_fixed32 (by omega)]

end BlockEnc

open BlockEnc in
/-- Every legally encoded block is accepted by `block_init` and decodes, entry by entry and restart
    point by restart point, to its abstract content; both restart-array widths. -/
theorem EBlock.encode_ok (thr : Nat) (b : EBlock) (hl : b.legal = true) (hthr : thr < 2^32)
    (hsize : (b.encode thr).length < 2^64) (hnr : b.restarts.length < 2^32 - 1) :
    ∃ blk, blockInit thr (b.encode thr) = some blk ∧ blk.data = b.encode thr ∧ blk.thr = thr ∧
      blk.restartOffset = b.region.length ∧ BlockOK blk b.view := by
  have hl := (legal_iff b).mp hl
  have hpos := hl.restarts_pos
  refine ⟨_, blockInit_encode thr b hpos hsize hnr, rfl, rfl, rfl, ?_⟩
  have hlen := encode_length thr b
  have hw : 4 ≤ rw_ thr b := by unfold rw_; split <;> omega
  have hmul : 4 ≤ b.restarts.length * rw_ thr b :=
    Nat.le_trans hw (Nat.le_mul_of_pos_left _ hpos)
  refine
    { size_ok := ?_, nr_ok := ?_, nr_pos := hpos, offs_len := EBlock.view_offs_length b, off_zero := ?_,
      off_last := ?_, off_mono := ?_, entry := ?_, r_zero := hl.r_zero, r_mono := ?_, r_lt := ?_,
      restart_pt := ?_, sorted := sorted_encode b hl }
  · show 8 ≤ (b.encode thr).length
    omega
  · exact encode_tail thr b (by omega)
  · rw [EBlock.view_off b 0 (by omega), offsetOf_zero]
  · rw [EBlock.view_n, EBlock.view_off b _ (Nat.le_refl _), offsetOf_of_ge b _ (Nat.le_refl _)]
  · intro i hi
    rw [EBlock.view_n] at hi
    rw [EBlock.view_off b i (by omega), EBlock.view_off b (i + 1) (by omega)]
    exact off_mono_encode b hl i hi
  · intro i hi
    rw [EBlock.view_n] at hi
    exact entryOK_encode thr b hl _ i hi
  · intro j hj
    rw [EBlock.view_nr] at hj
    rw [EBlock.view_r, EBlock.view_r, getD_of_lt _ _ (by omega), getD_of_lt _ _ hj]
    exact hl.mono j hj
  · intro j hj
    rw [EBlock.view_nr] at hj
    rw [EBlock.view_r, EBlock.view_n]
    exact hl.r_lt j hj
  · intro bi j hblk hres hj
    exact restart_pt_encode thr b hl hthr hsize _ bi j hblk hres hj


/-! ### H. the block builder makes one particular legal choice -/

/-- the choices block_builder.c makes: a restart every `interval` entries, maximal sharing in between.
    `counter` = entries since the last restart, `prev` = the previous key. -/
def canonItems (interval : Nat) : (counter : Nat) → (prev : Bytes) → List Entry → List EEntry
  | _, _, [] => []
  | c, prev, e :: es =>
    if c < interval then ⟨lcp prev e.key, e⟩ :: canonItems interval (c + 1) e.key es
    else ⟨0, e⟩ :: canonItems interval 1 e.key es

/-- indices (relative to the next entry to be added) at which the builder starts a new restart run
    while adding `n` more entries, when `counter` entries have been added since the last restart -/
def canonRestartsFrom (interval : Nat) : (counter : Nat) → (n : Nat) → List Nat
  | _, 0 => []
  | c, n + 1 =>
    if c < interval then (canonRestartsFrom interval (c + 1) n).map (· + 1)
    else 0 :: (canonRestartsFrom interval 1 n).map (· + 1)

/-- restart entry indices of a block of `n` entries: `0, interval, 2*interval, …` below `max n 1`
    (see `mem_canonRestarts`) -/
def canonRestarts (interval n : Nat) : List Nat := 0 :: canonRestartsFrom interval 0 n

def canonBlock (interval : Nat) (es : List Entry) : EBlock :=
  { items := canonItems interval 0 [] es, restarts := canonRestarts interval es.length }

namespace BlockEnc

theorem canonItems_nil (I c : Nat) (prev : Bytes) : canonItems I c prev [] = [] := by
  simp [canonItems]

theorem canonItems_cons_lt (I c : Nat) (prev : Bytes) (e : Entry) (es : List Entry) (h : c < I) :
    canonItems I c prev (e :: es) = ⟨lcp prev e.key, e⟩ :: canonItems I (c + 1) e.key es := by
  simp [canonItems, h]

theorem canonItems_cons_ge (I c : Nat) (prev : Bytes) (e : Entry) (es : List Entry) (h : ¬ c < I) :
    canonItems I c prev (e :: es) = ⟨0, e⟩ :: canonItems I 1 e.key es := by
  simp [canonItems, h]

theorem crf_zero (I c : Nat) : canonRestartsFrom I c 0 = [] := by
  simp [canonRestartsFrom]

theorem crf_succ_lt (I c n : Nat) (h : c < I) :
    canonRestartsFrom I c (n + 1) = (canonRestartsFrom I (c + 1) n).map (· + 1) := by
  simp [canonRestartsFrom, h]

theorem crf_succ_ge (I c n : Nat) (h : ¬ c < I) :
    canonRestartsFrom I c (n + 1) = 0 :: (canonRestartsFrom I 1 n).map (· + 1) := by
  simp [canonRestartsFrom, h]

/-! #### the builder state after `addAll` -/

theorem addAll_nil (b : BB) : b.addAll [] = b := rfl
theorem addAll_cons (b : BB) (e : Entry) (es : List Entry) : b.addAll (e :: es) = (b.add e).addAll es := rfl

theorem add_lt (b : BB) (e : Entry) (h : b.counter < b.interval) :
    b.add e = { b with buf := b.buf ++ encEntry (lcp b.lastKey e.key) e, lastKey := e.key,
                       counter := b.counter + 1 } := by
  unfold BB.add; rw [if_pos h]

theorem add_ge (b : BB) (e : Entry) (h : ¬ b.counter < b.interval) :
    b.add e = { b with restarts := b.restarts ++ [b.buf.length], buf := b.buf ++ encEntry 0 e,
                       lastKey := e.key, counter := 1 } := by
  unfold BB.add; rw [if_neg h]

theorem addAll_interval_thr (es : List Entry) : ∀ (b : BB),
    (b.addAll es).interval = b.interval ∧ (b.addAll es).thr = b.thr := by
  induction es with
  | nil => intro b; exact ⟨rfl, rfl⟩
  | cons e es ih =>
    intro b
    rw [addAll_cons]
    have := ih (b.add e)
    by_cases h : b.counter < b.interval
    · rw [add_lt b e h] at this ⊢; exact this
    · rw [add_ge b e h] at this ⊢; exact this

theorem addAll_buf (es : List Entry) : ∀ (b : BB),
    (b.addAll es).buf = b.buf ++ (canonItems b.interval b.counter b.lastKey es).flatMap encIt := by
  induction es with
  | nil => intro b; simp [addAll_nil, canonItems_nil]
  | cons e es ih =>
    intro b
    rw [addAll_cons, ih (b.add e)]
    by_cases h : b.counter < b.interval
    · rw [add_lt b e h, canonItems_cons_lt _ _ _ _ _ h]
      simp [encIt]
    · rw [add_ge b e h, canonItems_cons_ge _ _ _ _ _ h]
      simp [encIt]

theorem addAll_restarts (es : List Entry) : ∀ (b : BB),
    (b.addAll es).restarts = b.restarts ++
      (canonRestartsFrom b.interval b.counter es.length).map fun i =>
        b.buf.length + (((canonItems b.interval b.counter b.lastKey es).take i).flatMap encIt).length := by
  induction es with
  | nil => intro b; simp [addAll_nil, crf_zero]
  | cons e es ih =>
    intro b
    rw [addAll_cons, ih (b.add e)]
    by_cases h : b.counter < b.interval
    · rw [add_lt b e h, canonItems_cons_lt _ _ _ _ _ h, List.length_cons, crf_succ_lt _ _ _ h]
      simp only [List.map_map, List.length_append]
      congr 1
      apply List.map_congr_left
      intro i _
      simp only [Function.comp, List.take_succ_cons, List.flatMap_cons, List.length_append, encIt]
      omega
    · rw [add_ge b e h, canonItems_cons_ge _ _ _ _ _ h, List.length_cons, crf_succ_ge _ _ _ h]
      simp only [List.map_cons, List.map_map, List.length_append, List.take_zero, List.flatMap_nil,
        List.length_nil, Nat.add_zero, List.append_assoc, List.singleton_append]
      congr 2
      apply List.map_congr_left
      intro i _
      simp only [Function.comp, List.take_succ_cons, List.flatMap_cons, List.length_append, encIt]
      omega

theorem flatMap_map' {α β γ : Type} (f : α → β) (g : β → List γ) : ∀ l : List α,
    (l.map f).flatMap g = l.flatMap (fun x => g (f x))
  | [] => rfl
  | x :: t => by simp [List.flatMap_cons, flatMap_map' f g t]

end BlockEnc

set_option linter.unusedVariables false in
open BlockEnc in
/-- `block_builder_finish` after adding `es` writes exactly the canonical encoder block.
    (`hi` is not needed for this equation; it is kept to match the companion statements.) -/
theorem BB_finish_eq (interval thr : Nat) (es : List Entry) (hi : 1 ≤ interval) :
    (BB.addAll { interval := interval, thr := thr } es).finish = (canonBlock interval es).encode thr := by
  have hb := addAll_buf es { interval := interval, thr := thr }
  have hr := addAll_restarts es { interval := interval, thr := thr }
  have ht := (addAll_interval_thr es { interval := interval, thr := thr }).2
  simp only [List.nil_append, List.length_nil, Nat.zero_add] at hb hr ht
  have hreg : (canonBlock interval es).region = (canonItems interval 0 [] es).flatMap encIt := rfl
  have hrs : (BB.addAll { interval := interval, thr := thr } es).restarts =
      (canonBlock interval es).restarts.map (canonBlock interval es).offsetOf := by
    rw [hr]
    show _ = List.map _ (0 :: canonRestartsFrom interval 0 es.length)
    rw [List.map_cons, offsetOf_zero]
    rfl
  unfold BB.finish EBlock.encode
  simp only [hb, ht, hrs, hreg, List.length_map, flatMap_map']


namespace BlockEnc

/-! #### legality of the canonical block -/

theorem crf_lt (I : Nat) : ∀ (n c : Nat), ∀ x ∈ canonRestartsFrom I c n, x < n := by
  intro n
  induction n with
  | zero => intro c x hx; rw [crf_zero] at hx; cases hx
  | succ n ih =>
    intro c x hx
    by_cases h : c < I
    · rw [crf_succ_lt _ _ _ h, List.mem_map] at hx
      obtain ⟨y, hy, rfl⟩ := hx
      have := ih _ y hy; omega
    · rw [crf_succ_ge _ _ _ h, List.mem_cons, List.mem_map] at hx
      rcases hx with rfl | ⟨y, hy, rfl⟩
      · omega
      · have := ih _ y hy; omega

theorem crf_pos (I c n : Nat) (h : c < I) : ∀ x ∈ canonRestartsFrom I c n, 0 < x := by
  cases n with
  | zero => intro x hx; rw [crf_zero] at hx; cases hx
  | succ n =>
    intro x hx
    rw [crf_succ_lt _ _ _ h, List.mem_map] at hx
    obtain ⟨y, _, rfl⟩ := hx
    omega

theorem crf_pairwise (I : Nat) : ∀ (n c : Nat), (canonRestartsFrom I c n).Pairwise (· < ·) := by
  intro n
  induction n with
  | zero => intro c; rw [crf_zero]; exact List.Pairwise.nil
  | succ n ih =>
    intro c
    have hm : ∀ c', ((canonRestartsFrom I c' n).map (· + 1)).Pairwise (· < ·) := fun c' =>
      List.Pairwise.map _ (fun a b hab => by omega) (ih c')
    by_cases h : c < I
    · rw [crf_succ_lt _ _ _ h]; exact hm _
    · rw [crf_succ_ge _ _ _ h, List.pairwise_cons]
      refine ⟨?_, hm _⟩
      intro x hx
      rw [List.mem_map] at hx
      obtain ⟨y, _, rfl⟩ := hx
      omega

theorem canonRestarts_pairwise (I n : Nat) (hi : 1 ≤ I) : (canonRestarts I n).Pairwise (· < ·) := by
  unfold canonRestarts
  rw [List.pairwise_cons]
  exact ⟨crf_pos I 0 n (by omega), crf_pairwise I n 0⟩

theorem canonItems_map_e (I : Nat) (es : List Entry) : ∀ (c : Nat) (prev : Bytes),
    (canonItems I c prev es).map (·.e) = es := by
  induction es with
  | nil => intro c prev; rw [canonItems_nil]; rfl
  | cons e es ih =>
    intro c prev
    by_cases h : c < I
    · rw [canonItems_cons_lt _ _ _ _ _ h, List.map_cons, ih]
    · rw [canonItems_cons_ge _ _ _ _ _ h, List.map_cons, ih]

theorem canonItems_length (I c : Nat) (prev : Bytes) (es : List Entry) :
    (canonItems I c prev es).length = es.length := by
  have := congrArg List.length (canonItems_map_e I es c prev)
  simpa using this

theorem canonItems_getElem?_e (I c : Nat) (prev : Bytes) (es : List Entry) (i : Nat) (it : EEntry)
    (h : (canonItems I c prev es)[i]? = some it) : es[i]? = some it.e := by
  have := congrArg (fun l => l[i]?) (canonItems_map_e I es c prev)
  simp only [List.getElem?_map, h, Option.map_some] at this
  exact this.symm

/-- the builder never shares more than the longest common prefix with the previous key -/
theorem canonItems_shared (I : Nat) (es : List Entry) : ∀ (c : Nat) (prev : Bytes) (i : Nat) (it : EEntry),
    (canonItems I c prev es)[i]? = some it →
      (i = 0 → it.shared ≤ lcp prev it.e.key) ∧
      (0 < i → ∃ pv, es[i - 1]? = some pv ∧ it.shared ≤ lcp pv.key it.e.key) := by
  induction es with
  | nil => intro c prev i it h; rw [canonItems_nil] at h; simp at h
  | cons e es ih =>
    intro c prev i it h
    have hcases : ∃ sh c', sh ≤ lcp prev e.key ∧
        canonItems I c prev (e :: es) = ⟨sh, e⟩ :: canonItems I c' e.key es := by
      by_cases hc : c < I
      · exact ⟨_, _, Nat.le_refl _, canonItems_cons_lt _ _ _ _ _ hc⟩
      · exact ⟨0, _, Nat.zero_le _, canonItems_cons_ge _ _ _ _ _ hc⟩
    obtain ⟨sh, c', hsh, heq⟩ := hcases
    rw [heq] at h
    cases i with
    | zero =>
      simp only [List.getElem?_cons_zero, Option.some.injEq] at h
      subst h
      exact ⟨fun _ => hsh, fun h0 => absurd h0 (by omega)⟩
    | succ i =>
      simp only [List.getElem?_cons_succ] at h
      have := ih c' e.key i it h
      refine ⟨fun h0 => absurd h0 (by omega), fun _ => ?_⟩
      simp only [Nat.add_sub_cancel]
      cases i with
      | zero => exact ⟨e, rfl, this.1 rfl⟩
      | succ i =>
        obtain ⟨pv, hpv, hle⟩ := this.2 (by omega)
        simp only [Nat.add_sub_cancel] at hpv
        exact ⟨pv, by simpa using hpv, hle⟩

/-- at a restart point the builder shares nothing -/
theorem canonItems_restart (I : Nat) (es : List Entry) : ∀ (c : Nat) (prev : Bytes) (i : Nat) (it : EEntry),
    (canonItems I c prev es)[i]? = some it → i ∈ canonRestartsFrom I c es.length → it.shared = 0 := by
  induction es with
  | nil => intro c prev i it h; rw [canonItems_nil] at h; simp at h
  | cons e es ih =>
    intro c prev i it h hm
    rw [List.length_cons] at hm
    by_cases hc : c < I
    · rw [canonItems_cons_lt _ _ _ _ _ hc] at h
      rw [crf_succ_lt _ _ _ hc, List.mem_map] at hm
      obtain ⟨y, hy, rfl⟩ := hm
      simp only [List.getElem?_cons_succ] at h
      exact ih _ _ y it h hy
    · rw [canonItems_cons_ge _ _ _ _ _ hc] at h
      rw [crf_succ_ge _ _ _ hc, List.mem_cons, List.mem_map] at hm
      rcases hm with rfl | ⟨y, hy, rfl⟩
      · simp only [List.getElem?_cons_zero, Option.some.injEq] at h
        subst h; rfl
      · simp only [List.getElem?_cons_succ] at h
        exact ih _ _ y it h hy

theorem canonBlock_legalP (interval : Nat) (es : List Entry) (hi : 1 ≤ interval) (hs : StrictSorted es)
    (hlen : ∀ e ∈ es, e.key.length < 2^32 ∧ e.val.length < 2^32) : LegalP (canonBlock interval es) := by
  have hitems : (canonBlock interval es).items = canonItems interval 0 [] es := rfl
  have hrs : (canonBlock interval es).restarts = canonRestarts interval es.length := rfl
  refine ⟨rfl, ?_, ?_, ?_⟩
  · intro j hj
    have hj' : j + 1 < (canonRestarts interval es.length).length := hj
    exact List.pairwise_iff_getElem.mp (canonRestarts_pairwise interval es.length hi) j (j + 1)
      (by omega) hj' (by omega)
  · intro r hr
    rw [hrs, canonRestarts, List.mem_cons] at hr
    rw [hitems, canonItems_length]
    rcases hr with rfl | hr
    · omega
    · have := crf_lt interval es.length 0 r hr; omega
  · intro i it hit
    rw [hitems] at hit
    have he := canonItems_getElem?_e _ _ _ _ _ _ hit
    have hmem : it.e ∈ es := List.mem_of_getElem? he
    have hsh := canonItems_shared interval es 0 [] i it hit
    refine ⟨(hlen _ hmem).1, (hlen _ hmem).2, ?_, ?_, ?_⟩
    · intro h0
      have := hsh.1 h0
      rw [lcp_nil_left] at this; omega
    · intro h0
      obtain ⟨pv, hpv, hle⟩ := hsh.2 h0
      have hi1 : i - 1 < (canonItems interval 0 [] es).length := by
        rw [canonItems_length]; exact lt_of_getElem? _ _ _ hpv
      obtain ⟨pit, hpit⟩ := getElem?_of_lt _ _ hi1
      have hpe := canonItems_getElem?_e _ _ _ _ _ _ hpit
      rw [hpv] at hpe
      have hpe : pv = pit.e := Option.some.inj hpe
      refine ⟨pit, by rw [hitems]; exact hpit, by rw [← hpe]; exact hle, ?_⟩
      rw [← hpe]
      have h1 := lt_of_getElem? _ _ _ hpv
      have h2 := lt_of_getElem? _ _ _ he
      have := List.pairwise_iff_getElem.mp hs (i - 1) i h1 h2 (by omega)
      rw [List.getElem?_eq_getElem h1] at hpv
      rw [List.getElem?_eq_getElem h2] at he
      rw [Option.some.inj hpv, Option.some.inj he] at this
      exact this
    · intro hm
      rw [hrs, canonRestarts, List.mem_cons] at hm
      rcases hm with rfl | hm
      · have := hsh.1 rfl
        rw [lcp_nil_left] at this; omega
      · exact canonItems_restart interval es 0 [] i it hit hm

end BlockEnc

open BlockEnc in
theorem canonBlock_legal (interval : Nat) (es : List Entry) (hi : 1 ≤ interval) (hs : StrictSorted es)
    (hlen : ∀ e ∈ es, e.key.length < 2^32 ∧ e.val.length < 2^32) :
    (canonBlock interval es).legal = true :=
  (legal_iff _).mpr (canonBlock_legalP interval es hi hs hlen)

open BlockEnc in
theorem canonBlock_entries (interval : Nat) (es : List Entry) : (canonBlock interval es).entries = es :=
  canonItems_map_e interval es 0 []

open BlockEnc in
/-- What the block builder writes is accepted by `block_init` and decodes to exactly the entries added. -/
theorem BB_block_ok (interval thr : Nat) (es : List Entry) (hi : 1 ≤ interval) (hs : StrictSorted es)
    (hlen : ∀ e ∈ es, e.key.length < 2^32 ∧ e.val.length < 2^32) (hthr : thr < 2^32)
    (hsize : ((BB.addAll { interval := interval, thr := thr } es).finish).length < 2^64)
    (hnr : (canonRestarts interval es.length).length < 2^32 - 1) :
    ∃ blk, blockInit thr (BB.addAll { interval := interval, thr := thr } es).finish = some blk ∧
      blk.data = (BB.addAll { interval := interval, thr := thr } es).finish ∧ blk.thr = thr ∧
      blk.restartOffset = (canonBlock interval es).region.length ∧
      BlockOK blk (canonBlock interval es).view ∧ (canonBlock interval es).view.ents = es := by
  rw [BB_finish_eq interval thr es hi] at hsize ⊢
  obtain ⟨blk, h1, h2, h3, h4, h5⟩ :=
    EBlock.encode_ok thr (canonBlock interval es) (canonBlock_legal interval es hi hs hlen) hthr hsize hnr
  exact ⟨blk, h1, h2, h3, h4, h5, canonBlock_entries interval es⟩


namespace BlockEnc

/-! #### closed form of the canonical restart indices -/

theorem mem_crf (I : Nat) (hi : 1 ≤ I) : ∀ (n c i : Nat), 1 ≤ c → c ≤ I →
    (i ∈ canonRestartsFrom I c n ↔ i < n ∧ (i + c) % I = 0) := by
  intro n
  induction n with
  | zero => intro c i _ _; rw [crf_zero]; simp
  | succ n ih =>
    intro c i hc1 hcI
    by_cases h : c < I
    · rw [crf_succ_lt _ _ _ h, List.mem_map]
      constructor
      · rintro ⟨y, hy, rfl⟩
        have := (ih (c + 1) y (by omega) (by omega)).mp hy
        refine ⟨by omega, ?_⟩
        rw [show y + 1 + c = y + (c + 1) by omega]; exact this.2
      · rintro ⟨h1, h2⟩
        cases i with
        | zero =>
          rw [Nat.zero_add, Nat.mod_eq_of_lt h] at h2; omega
        | succ y =>
          refine ⟨y, (ih (c + 1) y (by omega) (by omega)).mpr ⟨by omega, ?_⟩, rfl⟩
          rw [show y + (c + 1) = y + 1 + c by omega]; exact h2
    · have hc : c = I := by omega
      subst hc
      rw [crf_succ_ge _ _ _ h, List.mem_cons, List.mem_map]
      constructor
      · rintro (rfl | ⟨y, hy, rfl⟩)
        · exact ⟨by omega, by rw [Nat.zero_add, Nat.mod_self]⟩
        · have := (ih 1 y (by omega) hi).mp hy
          refine ⟨by omega, ?_⟩
          rw [Nat.add_mod_right]; exact this.2
      · rintro ⟨h1, h2⟩
        cases i with
        | zero => left; rfl
        | succ y =>
          right
          rw [Nat.add_mod_right] at h2
          exact ⟨y, (ih 1 y (by omega) hi).mpr ⟨by omega, h2⟩, rfl⟩

end BlockEnc

open BlockEnc in
/-- the canonical restart points of an `n`-entry block are the multiples of `interval` below `max n 1` -/
theorem mem_canonRestarts (interval n i : Nat) (hi : 1 ≤ interval) :
    i ∈ canonRestarts interval n ↔ i < max n 1 ∧ i % interval = 0 := by
  unfold canonRestarts
  rw [List.mem_cons]
  cases n with
  | zero =>
    rw [crf_zero]
    constructor
    · rintro (rfl | h)
      · exact ⟨by omega, Nat.zero_mod _⟩
      · cases h
    · rintro ⟨h, _⟩; left; omega
  | succ n =>
    rw [crf_succ_lt _ _ _ (show 0 < interval by omega), List.mem_map]
    constructor
    · rintro (rfl | ⟨y, hy, rfl⟩)
      · exact ⟨by omega, Nat.zero_mod _⟩
      · have := (mem_crf interval hi n 1 y (by omega) hi).mp hy
        exact ⟨by omega, this.2⟩
    · rintro ⟨h1, h2⟩
      cases i with
      | zero => left; rfl
      | succ y =>
        right
        exact ⟨y, (mem_crf interval hi n 1 y (by omega) hi).mpr ⟨by omega, h2⟩, rfl⟩

/-- the empty block: `00 00 00 00  01 00 00 00` -/
theorem canonBlock_nil_encode (interval thr : Nat) :
    (canonBlock interval []).encode thr = [0, 0, 0, 0, 1, 0, 0, 0] := by
  simp [canonBlock, canonItems, canonRestarts, canonRestartsFrom, EBlock.encode, EBlock.region,
    EBlock.offsetOf, fixed32]


end Mtbl
