import MtblModel.Writer
import MtblModel.Format
import MtblProofs.BlockEncProofs
import MtblProofs.GateProofs
import MtblProofs.OrderProofs
import MtblProofs.VarintProofs
/-
  Theorem W: the writer refines the format (C09, C10; with the reader theorems, C01).

  For every configuration and every strictly increasing entry list, the bytes written by the model of
  mtbl/writer.c are exactly the output of the independent encoder (MtblModel/Format.lean) for one particular
  LEGAL choice of blocks / restarts / sharing / separators (`canonFile`); the choices obey the writer's cadence
  and size rules; the trailer fields equal their recount.
-/
namespace Mtbl

/-! ### the canonical choices -/

/-- key of the last entry of a block (`[]` for the empty block) -/
def lastKeyOf (b : List Entry) : Bytes := match b.getLast? with | some e => e.key | none => []

/-- key of the first entry of a block (`[]` for the empty block) -/
def firstKeyOf (b : List Entry) : Bytes := match b.head? with | some e => e.key | none => []

/-- the fresh block builder of a writer with configuration `cfg` -/
def bb0 (cfg : WCfg) : BB := { interval := cfg.interval, thr := cfg.thr }

/-- the block-cut test of `mtbl_writer_add`, on the entries `cur` of the block under construction:
    `block_builder_current_size_estimate(data) + 15 + len_key + len_val >= opt.block_size` -/
def cutTest (cfg : WCfg) (cur : List Entry) (e : Entry) : Prop :=
  BB.estimate (BB.addAll (bb0 cfg) cur) + 15 + e.key.length + e.val.length ≥ cfg.effBlockSize

instance (cfg : WCfg) (cur : List Entry) (e : Entry) : Decidable (cutTest cfg cur e) := by
  unfold cutTest; infer_instance

/-- split the accepted entries into data blocks exactly as mtbl_writer_add does: an entry starts a new block when
    the current block is non-empty and `estimate(current block) + 15 + |k| + |v| ≥ effBlockSize`.
    (`cur` = the entries of the block under construction.) -/
def splitBlocks (cfg : WCfg) : (cur : List Entry) → List Entry → List (List Entry)
  | cur, [] => if cur = [] then [] else [cur]
  | cur, e :: es =>
    if cur ≠ [] ∧ cutTest cfg cur e then cur :: splitBlocks cfg [e] es
    else splitBlocks cfg (cur ++ [e]) es

/-- the index keys: `bytes_shortest_separator(last key of block j, first key of block j+1)`, and the last key
    itself for the final block -/
def canonSeps : List (List Entry) → List Bytes
  | [] => []
  | [b] => [lastKeyOf b]
  | b :: b' :: rest => shortestSep (lastKeyOf b) (firstKeyOf b') :: canonSeps (b' :: rest)

/-- the choices mtbl/writer.c makes -/
def canonFile (cfg : WCfg) (pre : Bytes) (es : List Entry) : EFile :=
  { version := .v2, pre := pre,
    blocks := (splitBlocks cfg [] es).map (canonBlock cfg.interval),
    seps := canonSeps (splitBlocks cfg [] es),
    indexShared := (canonItems cfg.interval 0 []
                      ((canonSeps (splitBlocks cfg [] es)).map fun k => ({ key := k, val := [] } : Entry))).map (·.shared),
    indexRestarts := canonRestarts cfg.interval (splitBlocks cfg [] es).length,
    compression := cfg.compression, blockSizeField := cfg.effBlockSize, thr := cfg.thr }

namespace WriterP

open BlockEnc

/-! ### A. the block builder -/

theorem venc32_ne_nil (v : Nat) : venc32 v ≠ [] := by
  unfold venc32
  split
  · simp
  · split
    · simp
    · split
      · simp
      · split <;> simp

theorem encEntry_ne_nil (sh : Nat) (e : Entry) : encEntry sh e ≠ [] := by
  unfold encEntry venc32t
  have := venc32_ne_nil (sh % 4294967296)
  cases h : venc32 (sh % 4294967296) with
  | nil => exact absurd h this
  | cons a t => simp

theorem bb0_addAll_nil (cfg : WCfg) : BB.addAll (bb0 cfg) [] = bb0 cfg := rfl

theorem addAll_snoc (b : BB) (cur : List Entry) (e : Entry) :
    (BB.addAll b cur).add e = BB.addAll b (cur ++ [e]) := by
  simp [BB.addAll, List.foldl_append]

theorem addAll_append (b : BB) (l1 l2 : List Entry) :
    BB.addAll b (l1 ++ l2) = BB.addAll (BB.addAll b l1) l2 := by
  simp [BB.addAll, List.foldl_append]

theorem addAll_empty (cfg : WCfg) (cur : List Entry) :
    (BB.addAll (bb0 cfg) cur).empty = true ↔ cur = [] := by
  have hb := addAll_buf cur (bb0 cfg)
  unfold BB.empty
  rw [hb]
  cases cur with
  | nil => simp [bb0, canonItems_nil]
  | cons e t =>
    simp only [bb0, List.nil_append, reduceCtorEq, iff_false]
    have : ∃ it rest, canonItems cfg.interval 0 [] (e :: t) = it :: rest := by
      by_cases h : 0 < cfg.interval
      · exact ⟨_, _, canonItems_cons_lt _ _ _ _ _ h⟩
      · exact ⟨_, _, canonItems_cons_ge _ _ _ _ _ h⟩
    obtain ⟨it, rest, h⟩ := this
    rw [h]
    have := encEntry_ne_nil it.shared it.e
    simp only [List.flatMap_cons, encIt, List.length_append, beq_iff_eq]
    cases h2 : encEntry it.shared it.e with
    | nil => exact absurd h2 this
    | cons a t => simp

theorem addAll_reset (cfg : WCfg) (cur : List Entry) : (BB.addAll (bb0 cfg) cur).reset = bb0 cfg := by
  have := addAll_interval_thr cur (bb0 cfg)
  unfold BB.reset
  rw [this.1, this.2]
  rfl

theorem addAll_finish (cfg : WCfg) (cur : List Entry) :
    (BB.addAll (bb0 cfg) cur).finish = (canonBlock cfg.interval cur).encode cfg.thr := by
  have hb := addAll_buf cur (bb0 cfg)
  have hr := addAll_restarts cur (bb0 cfg)
  have ht := (addAll_interval_thr cur (bb0 cfg)).2
  simp only [bb0, List.nil_append, List.length_nil, Nat.zero_add] at hb hr ht
  have hreg : (canonBlock cfg.interval cur).region = (canonItems cfg.interval 0 [] cur).flatMap encIt := rfl
  have hrs : (BB.addAll (bb0 cfg) cur).restarts =
      (canonBlock cfg.interval cur).restarts.map (canonBlock cfg.interval cur).offsetOf := by
    unfold bb0
    rw [hr]
    show _ = List.map _ (0 :: canonRestartsFrom cfg.interval 0 cur.length)
    rw [List.map_cons, offsetOf_zero]
    rfl
  unfold BB.finish EBlock.encode
  rw [hrs]
  simp only [bb0, hb, ht, hreg, List.length_map, flatMap_map']

/-! ### B. one step of the writer -/

/-- what is stored for a raw block: the block itself, or its compressed form -/
def stored (cfg : WCfg) (comp : Bytes → Bytes) (raw : Bytes) : Bytes :=
  if cfg.compression = 0 then raw else comp raw

/-- the frame the writer emits for the data block holding the entries `B` -/
def blockFrame (cfg : WCfg) (comp : Bytes → Bytes) (B : List Entry) : Bytes :=
  frame (stored cfg comp ((canonBlock cfg.interval B).encode cfg.thr))

theorem flush_empty (w : W) (h : w.data.empty = true) : w.flush = w := by
  unfold W.flush; simp [h]

theorem flush_nonempty (w : W) (comp : Bytes → Bytes) (hc : w.cfg.comp = fun raw => some (comp raw))
    (h : w.data.empty = false) :
    w.flush = { w with data := w.data.reset,
                       out := w.out ++ frame (stored w.cfg comp w.data.finish),
                       lastOffset := w.pendingOffset,
                       pendingOffset := w.pendingOffset + (frame (stored w.cfg comp w.data.finish)).length,
                       m := { w.m with bytesDataBlocks := w.m.bytesDataBlocks +
                                         (frame (stored w.cfg comp w.data.finish)).length,
                                       countDataBlocks := w.m.countDataBlocks + 1 },
                       index := w.index.add { key := w.lastKey, val := venc w.pendingOffset } } := by
  unfold W.flush stored
  simp only [h, Bool.false_eq_true, if_false, hc]
  by_cases hz : w.cfg.compression = 0
  · simp only [hz, if_true]
  · simp only [hz, if_false]

/-- the writer state as far as the proof cares: configuration, current block = `cur`, last key, gate counter -/
structure St (cfg : WCfg) (w : W) (cur : List Entry) : Prop where
  cfg_eq : w.cfg = cfg
  data_eq : w.data = BB.addAll (bb0 cfg) cur
  last_eq : cur ≠ [] → w.lastKey = lastKeyOf cur
  cnt_eq : cur = [] → w.m.countEntries = 0

/-- the statistics after accepting one more entry -/
def addEntryStats (m : Meta) (e : Entry) : Meta :=
  { m with countEntries := m.countEntries + 1, bytesKeys := m.bytesKeys + e.key.length,
           bytesValues := m.bytesValues + e.val.length }

/-- the statistics after writing one more data block whose frame has `n` bytes -/
def addBlockStats (m : Meta) (n : Nat) : Meta :=
  { m with bytesDataBlocks := m.bytesDataBlocks + n, countDataBlocks := m.countDataBlocks + 1 }

theorem lastKeyOf_snoc (cur : List Entry) (e : Entry) : lastKeyOf (cur ++ [e]) = e.key := by
  simp [lastKeyOf]

theorem lastKeyOf_single (e : Entry) : lastKeyOf [e] = e.key := rfl

/-- the gate lets a strictly larger key through -/
theorem gate_pass {cfg : WCfg} {w : W} {cur : List Entry} (hs : St cfg w cur) (e : Entry)
    (hlt : cur ≠ [] → bcmp (lastKeyOf cur) e.key = .lt) :
    ¬ (w.m.countEntries > 0 ∧ (bcmp e.key w.lastKey != .gt) = true) := by
  rintro ⟨h1, h2⟩
  by_cases hc : cur = []
  · have := hs.cnt_eq hc; omega
  · have h3 := hlt hc
    rw [← hs.last_eq hc] at h3
    have := (bcmp_swap _ _).mp h3
    simp [this] at h2

/-- step A: the add closes the current block -/
theorem add_cut {cfg : WCfg} {comp : Bytes → Bytes} (hc : cfg.comp = fun raw => some (comp raw))
    {w : W} {cur : List Entry} (hs : St cfg w cur) (e : Entry)
    (hlt : cur ≠ [] → bcmp (lastKeyOf cur) e.key = .lt) (hne : cur ≠ []) (hcut : cutTest cfg cur e) :
    St cfg (w.add e.key e.val).2 [e] ∧
    (w.add e.key e.val).2.out = w.out ++ blockFrame cfg comp cur ∧
    (w.add e.key e.val).2.index =
      w.index.add { key := shortestSep (lastKeyOf cur) e.key, val := venc w.pendingOffset } ∧
    (w.add e.key e.val).2.pendingOffset = w.pendingOffset + (blockFrame cfg comp cur).length ∧
    (w.add e.key e.val).2.m = addEntryStats (addBlockStats w.m (blockFrame cfg comp cur).length) e := by
  have hcutw : Gate.cut w e.key e.val =
      ({ w with lastKey := shortestSep w.lastKey e.key,
                aborted := w.aborted || !sepAssertOk w.lastKey e.key } : W).flush := by
    unfold Gate.cut
    rw [if_pos]
    rw [hs.data_eq, hs.cfg_eq]; exact hcut
  have hemp : (BB.addAll (bb0 cfg) cur).empty = false := by
    cases h : (BB.addAll (bb0 cfg) cur).empty with
    | false => rfl
    | true => exact absurd ((addAll_empty cfg cur).mp h) hne
  rw [flush_nonempty _ comp (by show w.cfg.comp = _; rw [hs.cfg_eq]; exact hc)
        (by show w.data.empty = false; rw [hs.data_eq]; exact hemp)] at hcutw
  rw [Gate.add_eq, if_neg (gate_pass hs e hlt), hcutw]
  refine ⟨⟨hs.cfg_eq, ?_, fun _ => rfl, fun h => by cases h⟩, ?_, ?_, ?_, ?_⟩
  · show (w.data.reset).add e = _
    rw [hs.data_eq, addAll_reset]; rfl
  · show w.out ++ frame (stored w.cfg comp w.data.finish) = _
    rw [hs.data_eq, hs.cfg_eq, addAll_finish]; rfl
  · show w.index.add { key := shortestSep w.lastKey e.key, val := venc w.pendingOffset } = _
    rw [hs.last_eq hne]
  · show w.pendingOffset + (frame (stored w.cfg comp w.data.finish)).length = _
    rw [hs.data_eq, hs.cfg_eq, addAll_finish]; rfl
  · show addEntryStats (addBlockStats w.m (frame (stored w.cfg comp w.data.finish)).length) e = _
    rw [hs.data_eq, hs.cfg_eq, addAll_finish]; rfl

/-- step B: the add appends to the current block -/
theorem add_nocut {cfg : WCfg} {w : W} {cur : List Entry} (hs : St cfg w cur) (e : Entry)
    (hlt : cur ≠ [] → bcmp (lastKeyOf cur) e.key = .lt) (hno : ¬ (cur ≠ [] ∧ cutTest cfg cur e)) :
    St cfg (w.add e.key e.val).2 (cur ++ [e]) ∧
    (w.add e.key e.val).2.out = w.out ∧
    (w.add e.key e.val).2.index = w.index ∧
    (w.add e.key e.val).2.pendingOffset = w.pendingOffset ∧
    (w.add e.key e.val).2.m = addEntryStats w.m e := by
  have hcutw : ∃ lk ab, Gate.cut w e.key e.val = ({ w with lastKey := lk, aborted := ab } : W) := by
    unfold Gate.cut
    split
    · next hge =>
      refine ⟨_, _, flush_empty _ ?_⟩
      show w.data.empty = true
      rw [hs.data_eq, addAll_empty]
      false_or_by_contra
      next hne =>
      apply hno
      refine ⟨hne, ?_⟩
      rw [hs.data_eq, hs.cfg_eq] at hge; exact hge
    · exact ⟨w.lastKey, w.aborted, rfl⟩
  obtain ⟨lk, ab, hcutw⟩ := hcutw
  rw [Gate.add_eq, if_neg (gate_pass hs e hlt), hcutw]
  refine ⟨⟨hs.cfg_eq, ?_, fun _ => (lastKeyOf_snoc cur e).symm, fun h => by simp at h⟩, rfl, rfl, rfl, rfl⟩
  show w.data.add e = _
  rw [hs.data_eq, addAll_snoc]

/-! ### C. the block split -/

theorem splitBlocks_nil_nil (cfg : WCfg) : splitBlocks cfg [] [] = [] := by simp [splitBlocks]

theorem splitBlocks_nil_ne (cfg : WCfg) {cur : List Entry} (h : cur ≠ []) : splitBlocks cfg cur [] = [cur] := by
  simp [splitBlocks, h]

theorem splitBlocks_cut (cfg : WCfg) {cur : List Entry} {e : Entry} (es : List Entry)
    (h : cur ≠ [] ∧ cutTest cfg cur e) :
    splitBlocks cfg cur (e :: es) = cur :: splitBlocks cfg [e] es := by
  rw [splitBlocks, if_pos h]

theorem splitBlocks_nocut (cfg : WCfg) {cur : List Entry} {e : Entry} (es : List Entry)
    (h : ¬ (cur ≠ [] ∧ cutTest cfg cur e)) :
    splitBlocks cfg cur (e :: es) = splitBlocks cfg (cur ++ [e]) es := by
  rw [splitBlocks, if_neg h]

/-- the first block starts with the block under construction -/
theorem splitBlocks_head (cfg : WCfg) (es : List Entry) : ∀ (cur : List Entry), cur ≠ [] →
    ∃ t rest, splitBlocks cfg cur es = (cur ++ t) :: rest := by
  induction es with
  | nil => intro cur h; exact ⟨[], [], by rw [splitBlocks_nil_ne cfg h, List.append_nil]⟩
  | cons e es ih =>
    intro cur h
    by_cases hc : cur ≠ [] ∧ cutTest cfg cur e
    · exact ⟨[], _, by rw [splitBlocks_cut cfg es hc, List.append_nil]⟩
    · obtain ⟨t, rest, ht⟩ := ih (cur ++ [e]) (by simp)
      exact ⟨[e] ++ t, rest, by rw [splitBlocks_nocut cfg es hc, ht, List.append_assoc]⟩

theorem firstKeyOf_append {cur : List Entry} (h : cur ≠ []) (t : List Entry) :
    firstKeyOf (cur ++ t) = firstKeyOf cur := by
  cases cur with
  | nil => exact absurd rfl h
  | cons a l => rfl

theorem canonSeps_cons_head (B : List Entry) {e : Entry} (t : List Entry) (rest : List (List Entry)) :
    canonSeps (B :: ([e] ++ t) :: rest) = shortestSep (lastKeyOf B) e.key :: canonSeps (([e] ++ t) :: rest) := rfl

/-- every block of the split is non-empty -/
theorem splitBlocks_ne_nil (cfg : WCfg) (es : List Entry) : ∀ (cur : List Entry),
    ∀ B ∈ splitBlocks cfg cur es, B ≠ [] := by
  induction es with
  | nil =>
    intro cur B hB
    by_cases h : cur = []
    · subst h; rw [splitBlocks_nil_nil] at hB; cases hB
    · rw [splitBlocks_nil_ne cfg h] at hB
      simp only [List.mem_singleton] at hB; subst hB; exact h
  | cons e es ih =>
    intro cur B hB
    by_cases hc : cur ≠ [] ∧ cutTest cfg cur e
    · rw [splitBlocks_cut cfg es hc, List.mem_cons] at hB
      rcases hB with rfl | hB
      · exact hc.1
      · exact ih _ B hB
    · rw [splitBlocks_nocut cfg es hc] at hB
      exact ih _ B hB

/-- the split loses and reorders nothing -/
theorem splitBlocks_flatten (cfg : WCfg) (es : List Entry) : ∀ (cur : List Entry),
    (splitBlocks cfg cur es).flatten = cur ++ es := by
  induction es with
  | nil =>
    intro cur
    by_cases h : cur = []
    · subst h; rw [splitBlocks_nil_nil]; rfl
    · rw [splitBlocks_nil_ne cfg h]; simp
  | cons e es ih =>
    intro cur
    by_cases hc : cur ≠ [] ∧ cutTest cfg cur e
    · rw [splitBlocks_cut cfg es hc, List.flatten_cons, ih]; rfl
    · rw [splitBlocks_nocut cfg es hc, ih]; simp

/-! ### D. the invariant over `W.addAll` -/

def frames (cfg : WCfg) (comp : Bytes → Bytes) (bl : List (List Entry)) : List Bytes :=
  bl.map (blockFrame cfg comp)

/-- the index entries: separator key, varint of the block's file offset -/
def idxEntries (seps : List Bytes) (offs : List Nat) : List Entry :=
  (seps.zip offs).map fun p => { key := p.1, val := venc p.2 }

/-- statistics after accepting `es` and writing `nblk` data blocks of `fl` framed bytes in total -/
def addStats (m : Meta) (es : List Entry) (nblk fl : Nat) : Meta :=
  { m with countEntries := m.countEntries + es.length,
           bytesKeys := m.bytesKeys + (es.map (·.key.length)).sum,
           bytesValues := m.bytesValues + (es.map (·.val.length)).sum,
           bytesDataBlocks := m.bytesDataBlocks + fl,
           countDataBlocks := m.countDataBlocks + nblk }

/-- the state `w'` reached from `w` (current block `cur`) by adding `es` and flushing -/
structure Fin (cfg : WCfg) (comp : Bytes → Bytes) (w w' : W) (cur es : List Entry) : Prop where
  out_eq : w'.out = w.out ++ (frames cfg comp (splitBlocks cfg cur es)).flatten
  index_eq : w'.index = w.index.addAll
      (idxEntries (canonSeps (splitBlocks cfg cur es))
        (frameOffsets w.pendingOffset (frames cfg comp (splitBlocks cfg cur es))))
  pend_eq : w'.pendingOffset = w.pendingOffset + (frames cfg comp (splitBlocks cfg cur es)).flatten.length
  m_eq : w'.m = addStats w.m es (splitBlocks cfg cur es).length
      (frames cfg comp (splitBlocks cfg cur es)).flatten.length

theorem addStats_nil (m : Meta) : addStats m [] 0 0 = m := by
  simp [addStats]

theorem addStats_block (m : Meta) (n : Nat) : addStats m [] 1 n = addBlockStats m n := by
  simp [addStats, addBlockStats]

theorem addStats_cons_cut (m : Meta) (e : Entry) (es : List Entry) (n nblk fl : Nat) :
    addStats (addEntryStats (addBlockStats m n) e) es nblk fl = addStats m (e :: es) (nblk + 1) (n + fl) := by
  simp only [addStats, addEntryStats, addBlockStats, List.length_cons, List.map_cons, List.sum_cons,
    Meta.mk.injEq, true_and]
  omega

theorem addStats_cons_nocut (m : Meta) (e : Entry) (es : List Entry) (nblk fl : Nat) :
    addStats (addEntryStats m e) es nblk fl = addStats m (e :: es) nblk fl := by
  simp only [addStats, addEntryStats, List.length_cons, List.map_cons, List.sum_cons,
    Meta.mk.injEq, true_and]
  omega

theorem run_gen (cfg : WCfg) (comp : Bytes → Bytes) (hc : cfg.comp = fun raw => some (comp raw))
    (es : List Entry) : ∀ (cur : List Entry) (w : W), St cfg w cur → StrictSorted es →
      (cur ≠ [] → ∀ e ∈ es, bcmp (lastKeyOf cur) e.key = .lt) →
      Fin cfg comp w (w.addAll es).2.flush cur es := by
  induction es with
  | nil =>
    intro cur w hs _ _
    rw [Gate.addAll_nil]
    by_cases h : cur = []
    · subst h
      rw [flush_empty w (by rw [hs.data_eq]; rfl)]
      refine ⟨?_, ?_, ?_, ?_⟩ <;> rw [splitBlocks_nil_nil]
      · simp [frames]
      · rfl
      · simp [frames]
      · simp [frames, addStats_nil]
    · have hemp : w.data.empty = false := by
        cases h2 : w.data.empty with
        | false => rfl
        | true => rw [hs.data_eq] at h2; exact absurd ((addAll_empty cfg cur).mp h2) h
      rw [flush_nonempty w comp (by rw [hs.cfg_eq]; exact hc) hemp]
      have hfr : frame (stored w.cfg comp w.data.finish) = blockFrame cfg comp cur := by
        rw [hs.data_eq, hs.cfg_eq, addAll_finish]; rfl
      refine ⟨?_, ?_, ?_, ?_⟩ <;> rw [splitBlocks_nil_ne cfg h]
      · show w.out ++ frame _ = _
        rw [hfr]; simp [frames]
      · show w.index.add { key := w.lastKey, val := venc w.pendingOffset } = _
        rw [hs.last_eq h]; rfl
      · show w.pendingOffset + (frame _).length = _
        rw [hfr]; simp [frames]
      · show addBlockStats w.m (frame _).length = _
        rw [hfr, ← addStats_block]; simp [frames]
  | cons e es ih =>
    intro cur w hs hsort hlt
    obtain ⟨hlt_e, hsort'⟩ := StrictSorted_cons.mp hsort
    rw [Gate.addAll_cons]
    show Fin cfg comp w ((w.add e.key e.val).2.addAll es).2.flush cur (e :: es)
    have hlt1 : cur ≠ [] → bcmp (lastKeyOf cur) e.key = .lt := fun h => hlt h e List.mem_cons_self
    by_cases hcut : cur ≠ [] ∧ cutTest cfg cur e
    · obtain ⟨hs2, ho, hi, hp, hm⟩ := add_cut hc hs e hlt1 hcut.1 hcut.2
      have := ih [e] _ hs2 hsort' (fun _ x hx => by rw [lastKeyOf_single]; exact hlt_e x hx)
      obtain ⟨t, rest, hsplit⟩ := splitBlocks_head cfg es [e] (by simp)
      refine ⟨?_, ?_, ?_, ?_⟩ <;> rw [splitBlocks_cut cfg es hcut]
      · rw [this.out_eq, ho]; simp [frames]
      · rw [this.index_eq, hi, hp, hsplit, canonSeps_cons_head]
        rfl
      · rw [this.pend_eq, hp]; simp [frames]; omega
      · rw [this.m_eq, hm, addStats_cons_cut]; simp [frames]
    · obtain ⟨hs2, ho, hi, hp, hm⟩ := add_nocut hs e hlt1 hcut
      have := ih (cur ++ [e]) _ hs2 hsort' (fun _ x hx => by rw [lastKeyOf_snoc]; exact hlt_e x hx)
      refine ⟨?_, ?_, ?_, ?_⟩ <;> rw [splitBlocks_nocut cfg es hcut]
      · rw [this.out_eq, ho]
      · rw [this.index_eq, hi, hp]
      · rw [this.pend_eq, hp]
      · rw [this.m_eq, hm, addStats_cons_nocut]

/-! ### E. the encoder on the canonical choices -/

theorem eframe_v2 (x : Bytes) : eframe .v2 x = frame x := rfl

theorem canonFile_dataFrames (cfg : WCfg) (pre : Bytes) (es : List Entry) (comp : Bytes → Bytes) :
    (canonFile cfg pre es).dataFrames comp = frames cfg comp (splitBlocks cfg [] es) := by
  unfold EFile.dataFrames canonFile frames
  simp only [List.map_map]
  rfl

theorem flatMap_entries (I : Nat) (bl : List (List Entry)) :
    (bl.map (canonBlock I)).flatMap (·.entries) = bl.flatten := by
  induction bl with
  | nil => rfl
  | cons B t ih => simp only [List.map_cons, List.flatMap_cons, canonBlock_entries, ih, List.flatten_cons]

theorem canonFile_allEntries (cfg : WCfg) (pre : Bytes) (es : List Entry) :
    (canonFile cfg pre es).blocks.flatMap (·.entries) = es := by
  show ((splitBlocks cfg [] es).map (canonBlock cfg.interval)).flatMap (·.entries) = es
  rw [flatMap_entries, splitBlocks_flatten]; rfl

theorem canonSeps_length : ∀ (bl : List (List Entry)), (canonSeps bl).length = bl.length
  | [] => rfl
  | [_] => rfl
  | _ :: b' :: rest => by
    simp only [canonSeps, List.length_cons, canonSeps_length (b' :: rest)]

theorem frameOffsets_length : ∀ (frs : List Bytes) (start : Nat), (frameOffsets start frs).length = frs.length
  | [], _ => rfl
  | _ :: rest, start => by simp only [frameOffsets, List.length_cons, frameOffsets_length rest]

/-- the sharing the block builder picks depends on the keys only -/
theorem canonItems_shared_keys (I : Nat) (es : List Entry) : ∀ (es' : List Entry) (c : Nat) (prev : Bytes),
    es.map (·.key) = es'.map (·.key) →
    (canonItems I c prev es).map (·.shared) = (canonItems I c prev es').map (·.shared) := by
  induction es with
  | nil =>
    intro es' c prev h
    cases es' with
    | nil => rfl
    | cons _ _ => simp at h
  | cons e es ih =>
    intro es' c prev h
    cases es' with
    | nil => simp at h
    | cons e' es' =>
      simp only [List.map_cons, List.cons.injEq] at h
      obtain ⟨hk, ht⟩ := h
      by_cases hc : c < I
      · rw [canonItems_cons_lt _ _ _ _ _ hc, canonItems_cons_lt _ _ _ _ _ hc, List.map_cons, List.map_cons, hk,
          ih es' _ _ ht]
      · rw [canonItems_cons_ge _ _ _ _ _ hc, canonItems_cons_ge _ _ _ _ _ hc, List.map_cons, List.map_cons, hk,
          ih es' _ _ ht]

theorem idxEntries_keys (seps : List Bytes) (offs : List Nat) (h : seps.length ≤ offs.length) :
    (idxEntries seps offs).map (·.key) = seps := by
  unfold idxEntries
  rw [List.map_map]
  show (seps.zip offs).map Prod.fst = seps
  exact List.map_fst_zip h

/-- rebuilding a list of encoder entries from its entries and its sharing choices -/
theorem rebuild_items (C : List EEntry) (ps : List (Bytes × Nat))
    (h : C.map (·.e) = ps.map fun p => ({ key := p.1, val := venc p.2 } : Entry)) :
    (ps.zipIdx.map fun x => match x with
        | ((k, off), i) => ({ shared := (C.map (·.shared)).getD i 0, e := { key := k, val := venc off } } : EEntry)) = C := by
  apply List.ext_getElem?
  intro i
  have hi := congrArg (fun l => l[i]?) h
  simp only [List.getElem?_map] at hi
  simp only [List.getElem?_map, List.getElem?_zipIdx, Nat.zero_add]
  cases hp : ps[i]? with
  | none =>
    rw [hp] at hi
    cases hC : C[i]? with
    | none => rfl
    | some c => rw [hC] at hi; simp at hi
  | some p =>
    rw [hp] at hi
    cases hC : C[i]? with
    | none => rw [hC] at hi; simp at hi
    | some c =>
      rw [hC] at hi
      simp only [Option.map_some, Option.some.injEq] at hi
      obtain ⟨k, off⟩ := p
      simp only [Option.map_some, Option.some.injEq]
      have : (C.map (·.shared)).getD i 0 = c.shared := by
        simp [List.getD, List.getElem?_map, hC]
      rw [this, ← hi]

theorem canonFile_indexBlock (cfg : WCfg) (pre : Bytes) (es : List Entry) (comp : Bytes → Bytes) :
    (canonFile cfg pre es).indexBlock comp =
      canonBlock cfg.interval (idxEntries (canonSeps (splitBlocks cfg [] es))
        (frameOffsets pre.length (frames cfg comp (splitBlocks cfg [] es)))) := by
  have hlen : (canonSeps (splitBlocks cfg [] es)).length =
      (frameOffsets pre.length (frames cfg comp (splitBlocks cfg [] es))).length := by
    rw [canonSeps_length, frameOffsets_length, frames, List.length_map]
  unfold EFile.indexBlock
  rw [canonFile_dataFrames]
  unfold canonBlock
  simp only [EBlock.mk.injEq]
  constructor
  · show (List.map _ (List.zipIdx (List.zip (canonSeps (splitBlocks cfg [] es)) _))) = _
    have hsh : (canonFile cfg pre es).indexShared =
        (canonItems cfg.interval 0 [] (idxEntries (canonSeps (splitBlocks cfg [] es))
          (frameOffsets pre.length (frames cfg comp (splitBlocks cfg [] es))))).map (·.shared) := by
      show List.map _ (canonItems cfg.interval 0 [] _) = _
      apply canonItems_shared_keys
      rw [idxEntries_keys _ _ (by omega), List.map_map]
      show List.map (fun k => k) _ = _
      exact List.map_id _
    rw [hsh]
    apply rebuild_items
    rw [canonItems_map_e]
    rfl
  · show canonRestarts cfg.interval (splitBlocks cfg [] es).length = _
    unfold idxEntries
    rw [List.length_map, List.length_zip, ← hlen, Nat.min_self, canonSeps_length]

/-- the trailer the encoder computes by recount, on the canonical choices -/
def canonMeta (cfg : WCfg) (pre : Bytes) (es : List Entry) (comp : Bytes → Bytes) : Meta :=
  { indexBlockOffset := pre.length + (frames cfg comp (splitBlocks cfg [] es)).flatten.length,
    dataBlockSize := cfg.effBlockSize, compression := cfg.compression,
    countEntries := es.length, countDataBlocks := (splitBlocks cfg [] es).length,
    bytesDataBlocks := (frames cfg comp (splitBlocks cfg [] es)).flatten.length,
    bytesIndexBlock := (frame ((canonBlock cfg.interval (idxEntries (canonSeps (splitBlocks cfg [] es))
        (frameOffsets pre.length (frames cfg comp (splitBlocks cfg [] es))))).encode cfg.thr)).length,
    bytesKeys := (es.map (·.key.length)).sum, bytesValues := (es.map (·.val.length)).sum }

theorem canonFile_encode (cfg : WCfg) (pre : Bytes) (es : List Entry) (comp : Bytes → Bytes) :
    (canonFile cfg pre es).encode comp =
      pre ++ (frames cfg comp (splitBlocks cfg [] es)).flatten ++
        frame ((canonBlock cfg.interval (idxEntries (canonSeps (splitBlocks cfg [] es))
          (frameOffsets pre.length (frames cfg comp (splitBlocks cfg [] es))))).encode cfg.thr) ++
        (canonMeta cfg pre es comp).write := by
  have hbl : (canonFile cfg pre es).blocks.length = (splitBlocks cfg [] es).length := by
    simp [canonFile]
  unfold EFile.encode
  simp only [canonFile_dataFrames, canonFile_indexBlock, canonFile_allEntries, List.flatMap_id, hbl]
  rfl

/-! ### F. the writer's file -/

theorem St_new (cfg : WCfg) (pre : Nat) : St cfg (W.new cfg pre) [] :=
  ⟨rfl, rfl, fun h => absurd rfl h, fun _ => rfl⟩

theorem finish_eq (w : W) : w.finish = w.flush.out ++ frame w.flush.index.finish ++ w.finishMeta.write := rfl

theorem fin_new (cfg : WCfg) (comp : Bytes → Bytes) (hc : cfg.comp = fun raw => some (comp raw))
    (pre : Nat) (es : List Entry) (hs : StrictSorted es) :
    Fin cfg comp (W.new cfg pre) ((W.new cfg pre).addAll es).2.flush [] es :=
  run_gen cfg comp hc es [] _ (St_new cfg pre) hs (fun h => absurd rfl h)

theorem index_finish_run (cfg : WCfg) (comp : Bytes → Bytes) (hc : cfg.comp = fun raw => some (comp raw))
    (pre : Nat) (es : List Entry) (hs : StrictSorted es) :
    ((W.new cfg pre).addAll es).2.flush.index.finish =
      (canonBlock cfg.interval (idxEntries (canonSeps (splitBlocks cfg [] es))
          (frameOffsets pre (frames cfg comp (splitBlocks cfg [] es))))).encode cfg.thr := by
  rw [(fin_new cfg comp hc pre es hs).index_eq]
  exact addAll_finish cfg _

theorem finishMeta_run (cfg : WCfg) (comp : Bytes → Bytes) (hc : cfg.comp = fun raw => some (comp raw))
    (pre : Bytes) (es : List Entry) (hs : StrictSorted es) :
    ((W.new cfg pre.length).addAll es).2.finishMeta = canonMeta cfg pre es comp := by
  have hf := fin_new cfg comp hc pre.length es hs
  show ({ ((W.new cfg pre.length).addAll es).2.flush.m with
          indexBlockOffset := ((W.new cfg pre.length).addAll es).2.flush.pendingOffset,
          bytesIndexBlock := (frame ((W.new cfg pre.length).addAll es).2.flush.index.finish).length } : Meta) = _
  rw [index_finish_run cfg comp hc pre.length es hs, hf.m_eq, hf.pend_eq]
  simp [addStats, canonMeta, W.new]

/-! ### G. legality of the canonical choices -/

theorem block_last {B : List Entry} (h : B ≠ []) :
    ∃ l, B.getLast? = some l ∧ l ∈ B ∧ lastKeyOf B = l.key := by
  cases hl : B.getLast? with
  | none => exact absurd (List.getLast?_eq_none_iff.mp hl) h
  | some l => exact ⟨l, rfl, List.mem_of_getLast? hl, by simp [lastKeyOf, hl]⟩

theorem block_first {B : List Entry} (h : B ≠ []) : ∃ x t, B = x :: t ∧ firstKeyOf B = x.key := by
  cases B with
  | nil => exact absurd rfl h
  | cons x t => exact ⟨x, t, rfl, rfl⟩

theorem head_le_all {x : Entry} {t : List Entry} (hs : StrictSorted (x :: t)) :
    ∀ e ∈ x :: t, bcmp x.key e.key ≠ .gt := by
  intro e he
  rcases List.mem_cons.mp he with rfl | he
  · rw [bcmp_refl]; simp
  · have := (StrictSorted_cons.mp hs).1 e he; rw [this]; simp

theorem adj_lt {b b' R : List Entry} (hs : StrictSorted (b ++ (b' ++ R))) (hb : b ≠ []) (hb' : b' ≠ []) :
    bcmp (lastKeyOf b) (firstKeyOf b') = .lt := by
  obtain ⟨l, _, hl, hlk⟩ := block_last hb
  obtain ⟨x, t, rfl, hxk⟩ := block_first hb'
  rw [hlk, hxk]
  exact (List.pairwise_append.mp hs).2.2 l hl x (by simp)

/-- the index keys are strictly increasing (and above any strict lower bound of the entries) -/
theorem seps_sorted : ∀ (bl : List (List Entry)), (∀ B ∈ bl, B ≠ []) → StrictSorted bl.flatten →
    (canonSeps bl).Pairwise (fun a b => bcmp a b = .lt) ∧
    ∀ lo, (∀ e ∈ bl.flatten, bcmp lo e.key = .lt) → ∀ s ∈ canonSeps bl, bcmp lo s = .lt
  | [], _, _ => ⟨List.Pairwise.nil, fun _ _ s hs => by cases hs⟩
  | [b], hne, _ => by
    refine ⟨List.pairwise_singleton _ _, fun lo hlo s hs => ?_⟩
    simp only [canonSeps, List.mem_singleton] at hs
    subst hs
    obtain ⟨l, _, hl, hlk⟩ := block_last (hne b List.mem_cons_self)
    rw [hlk]
    exact hlo l (by simp [hl])
  | b :: b' :: rest, hne, hs => by
    have hb : b ≠ [] := hne b List.mem_cons_self
    have hb' : b' ≠ [] := hne b' (by simp)
    have hfl : (b :: b' :: rest).flatten = b ++ (b' ++ rest.flatten) := by simp
    rw [hfl] at hs
    have hs' : StrictSorted (b' ++ rest.flatten) := (List.pairwise_append.mp hs).2.1
    have ih := seps_sorted (b' :: rest) (fun B hB => hne B (List.mem_cons_of_mem _ hB))
      (by rw [List.flatten_cons]; exact hs')
    have hadj := adj_lt hs hb hb'
    have sp := sep_spec hadj
    have hsep_lo : ∀ e ∈ (b' :: rest).flatten, bcmp (shortestSep (lastKeyOf b) (firstKeyOf b')) e.key = .lt := by
      intro e he
      rw [List.flatten_cons] at he
      obtain ⟨x, t, hx, hxk⟩ := block_first hb'
      rw [hxk] at sp ⊢
      subst hx
      exact bcmp_lt_le_trans sp.2 (head_le_all (t := t ++ rest.flatten) hs' e he)
    have hcs : canonSeps (b :: b' :: rest) =
        shortestSep (lastKeyOf b) (firstKeyOf b') :: canonSeps (b' :: rest) := rfl
    rw [hcs]
    refine ⟨List.pairwise_cons.mpr ⟨fun s hs => ih.2 _ hsep_lo s hs, ih.1⟩, fun lo hlo s hs => ?_⟩
    rcases List.mem_cons.mp hs with rfl | hs
    · obtain ⟨l, _, hl, hlk⟩ := block_last hb
      have : bcmp lo (lastKeyOf b) = .lt := by
        rw [hlk]; exact hlo l (by rw [hfl]; exact List.mem_append_left _ hl)
      exact bcmp_lt_le_trans this sp.1
    · exact ih.2 lo (fun e he => hlo e (by
        rw [hfl]; rw [List.flatten_cons] at he; exact List.mem_append_right _ he)) s hs

/-- block `j`'s index key: at least the block's last key, not longer than it, and strictly below the first key of
    block `j+1` -/
theorem seps_spec : ∀ (bl : List (List Entry)), (∀ B ∈ bl, B ≠ []) → StrictSorted bl.flatten →
    ∀ j B, bl[j]? = some B → ∃ sep, (canonSeps bl)[j]? = some sep ∧ bcmp (lastKeyOf B) sep ≠ .gt ∧
      sep.length ≤ (lastKeyOf B).length ∧
      ∀ B', bl[j + 1]? = some B' → bcmp sep (firstKeyOf B') = .lt
  | [], _, _ => fun j B h => by simp at h
  | [b], _, _ => fun j B h => by
    cases j with
    | zero =>
      simp only [List.getElem?_cons_zero, Option.some.injEq] at h
      subst h
      exact ⟨lastKeyOf b, rfl, by rw [bcmp_refl]; simp, Nat.le_refl _, fun B' h' => by simp at h'⟩
    | succ j => simp at h
  | b :: b' :: rest, hne, hs => fun j B h => by
    have hb : b ≠ [] := hne b List.mem_cons_self
    have hb' : b' ≠ [] := hne b' (by simp)
    have hfl : (b :: b' :: rest).flatten = b ++ (b' ++ rest.flatten) := by simp
    rw [hfl] at hs
    have hs' : StrictSorted (b' ++ rest.flatten) := (List.pairwise_append.mp hs).2.1
    have hcs : canonSeps (b :: b' :: rest) =
        shortestSep (lastKeyOf b) (firstKeyOf b') :: canonSeps (b' :: rest) := rfl
    rw [hcs]
    cases j with
    | zero =>
      simp only [List.getElem?_cons_zero, Option.some.injEq] at h
      subst h
      have sp := sep_spec (adj_lt hs hb hb')
      refine ⟨_, rfl, sp.1, sep_length_le _ _, fun B' h' => ?_⟩
      simp only [Nat.zero_add, List.getElem?_cons_succ, List.getElem?_cons_zero, Option.some.injEq] at h'
      subst h'
      exact sp.2
    | succ j =>
      simp only [List.getElem?_cons_succ] at h ⊢
      exact seps_spec (b' :: rest) (fun B hB => hne B (List.mem_cons_of_mem _ hB))
        (by rw [List.flatten_cons]; exact hs') j B h

theorem canonBlock_getLast (I : Nat) (B : List Entry) (l : Entry) (h : B.getLast? = some l) :
    ∃ it, (canonBlock I B).items.getLast? = some it ∧ it.e = l := by
  have := congrArg List.getLast? (canonItems_map_e I B 0 [])
  rw [List.getLast?_map, h] at this
  cases hit : (canonItems I 0 [] B).getLast? with
  | none => rw [hit] at this; simp at this
  | some it =>
    rw [hit] at this
    simp only [Option.map_some, Option.some.injEq] at this
    exact ⟨it, hit, this⟩

theorem canonBlock_head (I : Nat) (B : List Entry) (x : Entry) (h : B.head? = some x) :
    ∃ it, (canonBlock I B).items.head? = some it ∧ it.e = x := by
  have := congrArg List.head? (canonItems_map_e I B 0 [])
  rw [List.head?_map, h] at this
  cases hit : (canonItems I 0 [] B).head? with
  | none => rw [hit] at this; simp at this
  | some it =>
    rw [hit] at this
    simp only [Option.map_some, Option.some.injEq] at this
    exact ⟨it, hit, this⟩

theorem mem_split_sub (cfg : WCfg) (es : List Entry) {B : List Entry} (hB : B ∈ splitBlocks cfg [] es) :
    B.Sublist es := by
  have := List.sublist_flatten_of_mem hB
  rw [splitBlocks_flatten] at this
  exact this

theorem frameOffsets_le : ∀ (frs : List Bytes) (start : Nat), ∀ off ∈ frameOffsets start frs,
    off ≤ start + frs.flatten.length
  | [], _, off, h => by cases h
  | fr :: rest, start, off, h => by
    simp only [frameOffsets, List.mem_cons] at h
    rcases h with rfl | h
    · omega
    · have := frameOffsets_le rest _ off h
      simp only [List.flatten_cons, List.length_append]; omega

theorem vlen_mono_lt64 {v : Nat} (h : v < 2^64) : vlen v < 2^32 := by
  have := vlen_le10 h; omega

/-- legality, with the weakest size hypothesis: the varint of every data block offset is shorter than 4 GiB -/
theorem legal_of (cfg : WCfg) (comp : Bytes → Bytes) (pre : Bytes) (es : List Entry)
    (hi : 1 ≤ cfg.interval) (hs : StrictSorted es)
    (hlen : ∀ e ∈ es, e.key.length < 2^32 ∧ e.val.length < 2^32)
    (hoff : ∀ off ∈ frameOffsets pre.length ((canonFile cfg pre es).dataFrames comp), vlen off < 2^32) :
    (canonFile cfg pre es).legal comp = true := by
  have hne := splitBlocks_ne_nil cfg es []
  have hfl : (splitBlocks cfg [] es).flatten = es := by rw [splitBlocks_flatten]; rfl
  have hsf : StrictSorted (splitBlocks cfg [] es).flatten := by rw [hfl]; exact hs
  have hblocks : (canonFile cfg pre es).blocks = (splitBlocks cfg [] es).map (canonBlock cfg.interval) := rfl
  have hseps : (canonFile cfg pre es).seps = canonSeps (splitBlocks cfg [] es) := rfl
  unfold EFile.legal
  simp only [Bool.and_eq_true]
  refine ⟨⟨⟨?_, ?_⟩, ?_⟩, ?_⟩
  · -- every data block legal and non-empty
    rw [List.all_eq_true]
    intro b hb
    rw [hblocks] at hb
    obtain ⟨B, hB, rfl⟩ := List.mem_map.mp hb
    have hsub := mem_split_sub cfg es hB
    have hleg := canonBlock_legal cfg.interval B hi (List.Pairwise.sublist hsub hs)
      (fun e he => hlen e (hsub.subset he))
    rw [hleg, Bool.true_and]
    have hl : (canonBlock cfg.interval B).items.length = B.length := canonItems_length _ _ _ _
    cases hit : (canonBlock cfg.interval B).items with
    | nil =>
      rw [hit] at hl
      have : B = [] := List.eq_nil_of_length_eq_zero hl.symm
      exact absurd this (hne B hB)
    | cons _ _ => rfl
  · rw [hblocks, hseps, canonSeps_length, List.length_map]; simp
  · -- the index block
    rw [canonFile_indexBlock]
    rw [canonFile_dataFrames] at hoff
    apply canonBlock_legal _ _ hi
    · -- strictly increasing index keys
      have hk := idxEntries_keys (canonSeps (splitBlocks cfg [] es))
        (frameOffsets pre.length (frames cfg comp (splitBlocks cfg [] es)))
        (by rw [canonSeps_length, frameOffsets_length, frames, List.length_map]; omega)
      have := (seps_sorted _ hne hsf).1
      rw [← hk, List.pairwise_map] at this
      exact this
    · intro e he
      unfold idxEntries at he
      obtain ⟨⟨k, off⟩, hp, rfl⟩ := List.mem_map.mp he
      obtain ⟨hk, ho⟩ := List.of_mem_zip hp
      refine ⟨?_, ?_⟩
      · show k.length < 2^32
        obtain ⟨j, hj, rfl⟩ := List.mem_iff_getElem.mp hk
        rw [canonSeps_length] at hj
        obtain ⟨sep, h1, _, h3, _⟩ := seps_spec _ hne hsf j _ (List.getElem?_eq_getElem hj)
        have hjs : j < (canonSeps (splitBlocks cfg [] es)).length := by rw [canonSeps_length]; exact hj
        rw [List.getElem?_eq_getElem hjs, Option.some.injEq] at h1
        rw [h1]
        have hBm : (splitBlocks cfg [] es)[j] ∈ splitBlocks cfg [] es := List.getElem_mem hj
        obtain ⟨l, _, hl, hlk⟩ := block_last (hne _ hBm)
        rw [hlk] at h3
        have := (hlen l ((mem_split_sub cfg es hBm).subset hl)).1
        omega
      · show (venc off).length < 2^32
        rw [venc_length]; exact hoff off ho
  · -- separators between the blocks
    rw [List.all_eq_true]
    rintro ⟨b, j⟩ hx
    have hbj : (canonFile cfg pre es).blocks[j]? = some b := List.mem_zipIdx_iff_getElem?.mp hx
    rw [hblocks, List.getElem?_map] at hbj
    cases hBj : (splitBlocks cfg [] es)[j]? with
    | none => rw [hBj] at hbj; simp at hbj
    | some B =>
      rw [hBj] at hbj
      simp only [Option.map_some, Option.some.injEq] at hbj
      subst hbj
      have hBm : B ∈ splitBlocks cfg [] es := List.mem_of_getElem? hBj
      obtain ⟨sep, h1, h2, _, h4⟩ := seps_spec _ hne hsf j B hBj
      obtain ⟨l, hl, _, hlk⟩ := block_last (hne B hBm)
      obtain ⟨it, hit, hite⟩ := canonBlock_getLast cfg.interval B l hl
      simp only [hit, hseps, h1]
      rw [Bool.and_eq_true]
      constructor
      · simp only [ble, hite, ← hlk, bne_iff_ne]
        exact h2
      · rw [hblocks, List.getElem?_map]
        cases hB' : (splitBlocks cfg [] es)[j + 1]? with
        | none => rfl
        | some B' =>
          simp only [Option.map_some]
          have hB'm : B' ∈ splitBlocks cfg [] es := List.mem_of_getElem? hB'
          obtain ⟨x, t, hx', hxk⟩ := block_first (hne B' hB'm)
          obtain ⟨it', hit', hite'⟩ := canonBlock_head cfg.interval B' x (by rw [hx']; rfl)
          simp only [hit', blt, hite', ← hxk, beq_iff_eq]
          exact h4 B' hB'

/-! ### H. cadence, size estimate, cut rule (C09) -/

/-- `block_builder_current_size_estimate` is exact: it is the length of what `block_builder_finish` writes -/
theorem estimate_eq_finish_length (b : BB) : b.estimate = b.finish.length := by
  have hl : (b.restarts.flatMap fun r => if b.buf.length > b.thr then fixed64 r else fixed32 r).length =
      b.restarts.length * (if b.buf.length > b.thr then 8 else 4) :=
    flatMap_const_length _ _ (fun r => by
      by_cases hP : b.buf.length > b.thr
      · rw [if_pos hP, if_pos hP]; rfl
      · rw [if_neg hP, if_neg hP]; rfl) _
  unfold BB.estimate
  show _ = (b.buf ++ _ ++ fixed32 _).length
  rw [List.length_append, List.length_append, hl, fixed32_length]
  split <;> omega

theorem estimate_eq_encode_length (cfg : WCfg) (B : List Entry) :
    (BB.addAll (bb0 cfg) B).estimate = ((canonBlock cfg.interval B).encode cfg.thr).length := by
  rw [estimate_eq_finish_length, addAll_finish]

theorem hdr_le (sh : Nat) (e : Entry) (hsh : sh ≤ e.key.length) (hk : e.key.length < 2^32)
    (hv : e.val.length < 2^32) : hdrLen sh e ≤ 15 := by
  have h1 := vlen_le5 (show sh < 2^32 by omega)
  have h2 := vlen_le5 (show e.key.length - sh < 2^32 by omega)
  have h3 := vlen_le5 hv
  unfold hdrLen; omega

theorem hdr0_le (e : Entry) (hk : e.key.length < 2^32) (hv : e.val.length < 2^32) : hdrLen 0 e ≤ 11 := by
  have h1 : vlen 0 = 1 := VarintAux.vlen_lt (by omega)
  have h2 := vlen_le5 (show e.key.length - 0 < 2^32 by omega)
  have h3 := vlen_le5 hv
  unfold hdrLen; omega

/-- one more entry costs at most its header allowance of 15 bytes plus key and value, whatever the restart-slot
    width; the extra term is the price of the 8-byte slots -/
theorem est_add_gen (b : BB) (e : Entry) (hk : e.key.length < 2^32) (hv : e.val.length < 2^32) :
    (b.add e).estimate ≤ b.estimate + 15 + e.key.length + e.val.length +
      (if (b.add e).buf.length > b.thr then
         (if b.buf.length > b.thr then 4 else 4 * (b.add e).restarts.length) else 0) := by
  by_cases h : b.counter < b.interval
  · have hl := encEntry_length (lcp b.lastKey e.key) e (lcp_le_right _ _) hk hv
    have hh := hdr_le (lcp b.lastKey e.key) e (lcp_le_right _ _) hk hv
    rw [add_lt b e h]
    simp only [BB.estimate, List.length_append]
    split <;> split <;> omega
  · have hl := encEntry_length 0 e (Nat.zero_le _) hk hv
    have hh := hdr0_le e hk hv
    rw [add_ge b e h]
    simp only [BB.estimate, List.length_append, List.length_cons, List.length_nil]
    split <;> split <;> omega

/-- the key lemma of the size rule -/
theorem est_add (b : BB) (e : Entry) (hk : e.key.length < 2^32) (hv : e.val.length < 2^32)
    (hthr : (b.add e).buf.length ≤ b.thr) :
    (b.add e).estimate ≤ b.estimate + 15 + e.key.length + e.val.length := by
  have := est_add_gen b e hk hv
  rw [if_neg (by omega)] at this
  exact this

theorem addAll_bb0_thr (cfg : WCfg) (B : List Entry) : (BB.addAll (bb0 cfg) B).thr = cfg.thr :=
  (addAll_interval_thr B (bb0 cfg)).2

theorem addAll_bb0_buf (cfg : WCfg) (B : List Entry) :
    (BB.addAll (bb0 cfg) B).buf = (canonBlock cfg.interval B).region := by
  have := addAll_buf B (bb0 cfg)
  simp only [bb0, List.nil_append] at this
  exact this

/-- inside a block no entry but the first passed the cut test -/
theorem nocut_inside (cfg : WCfg) (es : List Entry) : ∀ (cur : List Entry) (j : Nat) (B : List Entry),
    (splitBlocks cfg cur es)[j]? = some B → ∀ (B1 : List Entry) (e : Entry) (B2 : List Entry),
    B = B1 ++ e :: B2 → B1 ≠ [] → (j = 0 → cur.length ≤ B1.length) → ¬ cutTest cfg B1 e := by
  induction es with
  | nil =>
    intro cur j B hB B1 e B2 hsplit _ hj
    by_cases hc : cur = []
    · subst hc; rw [splitBlocks_nil_nil] at hB; simp at hB
    · rw [splitBlocks_nil_ne cfg hc] at hB
      cases j with
      | zero =>
        simp only [List.getElem?_cons_zero, Option.some.injEq] at hB
        have := hj rfl
        have h2 := congrArg List.length hsplit
        simp only [List.length_append, List.length_cons] at h2
        rw [hB] at this; omega
      | succ j => simp at hB
  | cons x es ih =>
    intro cur j B hB B1 e B2 hsplit hne hj
    by_cases hcut : cur ≠ [] ∧ cutTest cfg cur x
    · rw [splitBlocks_cut cfg es hcut] at hB
      cases j with
      | zero =>
        simp only [List.getElem?_cons_zero, Option.some.injEq] at hB
        have := hj rfl
        have h2 := congrArg List.length hsplit
        simp only [List.length_append, List.length_cons] at h2
        rw [hB] at this; omega
      | succ j =>
        simp only [List.getElem?_cons_succ] at hB
        refine ih [x] j B hB B1 e B2 hsplit hne (fun _ => ?_)
        cases B1 with
        | nil => exact absurd rfl hne
        | cons _ _ => simp
    · rw [splitBlocks_nocut cfg es hcut] at hB
      by_cases hlen : j = 0 ∧ B1.length = cur.length
      · obtain ⟨hj0, hlen⟩ := hlen
        subst hj0
        obtain ⟨t, rest, hsp⟩ := splitBlocks_head cfg es (cur ++ [x]) (by simp)
        rw [hsp] at hB
        simp only [List.getElem?_cons_zero, Option.some.injEq] at hB
        rw [← hB, List.append_assoc] at hsplit
        obtain ⟨h1, h2⟩ := List.append_inj hsplit hlen.symm
        simp only [List.singleton_append, List.cons.injEq] at h2
        subst h1
        rw [← h2.1]
        exact fun hc => hcut ⟨hne, hc⟩
      · refine ih (cur ++ [x]) j B hB B1 e B2 hsplit hne (fun hj0 => ?_)
        have := hj hj0
        simp only [List.length_append, List.length_cons, List.length_nil]
        omega

/-- a block was closed only because the next entry passed the cut test -/
theorem cut_between (cfg : WCfg) (es : List Entry) : ∀ (cur : List Entry) (j : Nat) (B : List Entry) (e : Entry)
    (t : List Entry), (splitBlocks cfg cur es)[j]? = some B → (splitBlocks cfg cur es)[j + 1]? = some (e :: t) →
    cutTest cfg B e := by
  induction es with
  | nil =>
    intro cur j B e t hB hB'
    by_cases hc : cur = []
    · subst hc; rw [splitBlocks_nil_nil] at hB; simp at hB
    · rw [splitBlocks_nil_ne cfg hc] at hB'; simp at hB'
  | cons x es ih =>
    intro cur j B e t hB hB'
    by_cases hcut : cur ≠ [] ∧ cutTest cfg cur x
    · rw [splitBlocks_cut cfg es hcut] at hB hB'
      cases j with
      | zero =>
        simp only [List.getElem?_cons_zero, Option.some.injEq] at hB
        obtain ⟨t', rest, hsp⟩ := splitBlocks_head cfg es [x] (by simp)
        rw [hsp] at hB'
        simp only [Nat.zero_add, List.getElem?_cons_succ, List.getElem?_cons_zero, Option.some.injEq,
          List.singleton_append, List.cons.injEq] at hB'
        rw [← hB, ← hB'.1]
        exact hcut.2
      | succ j =>
        simp only [List.getElem?_cons_succ] at hB hB'
        exact ih [x] j B e t hB hB'
    · rw [splitBlocks_nocut cfg es hcut] at hB hB'
      exact ih _ j B e t hB hB'

/-- exact sharing: nothing at a restart point, the longest common prefix with the previous key elsewhere -/
theorem canonItems_shared_exact (I : Nat) (es : List Entry) : ∀ (c : Nat) (prev : Bytes) (i : Nat) (it : EEntry),
    (canonItems I c prev es)[i]? = some it →
    it.shared = if i ∈ canonRestartsFrom I c es.length then 0
                else lcp (if i = 0 then prev else ((es[i - 1]?).map (·.key)).getD []) it.e.key := by
  induction es with
  | nil => intro c prev i it h; rw [canonItems_nil] at h; simp at h
  | cons e es ih =>
    intro c prev i it h
    rw [List.length_cons]
    by_cases hc : c < I
    · rw [canonItems_cons_lt _ _ _ _ _ hc] at h
      rw [crf_succ_lt _ _ _ hc]
      cases i with
      | zero =>
        simp only [List.getElem?_cons_zero, Option.some.injEq] at h
        subst h
        simp
      | succ i =>
        simp only [List.getElem?_cons_succ] at h
        rw [ih _ _ i it h]
        have hm : (i + 1 ∈ (canonRestartsFrom I (c + 1) es.length).map (· + 1)) ↔
            i ∈ canonRestartsFrom I (c + 1) es.length := by simp
        simp only [hm, Nat.add_sub_cancel, Nat.succ_ne_zero, if_false]
        cases i with
        | zero => simp
        | succ i => simp
    · rw [canonItems_cons_ge _ _ _ _ _ hc] at h
      rw [crf_succ_ge _ _ _ hc]
      cases i with
      | zero =>
        simp only [List.getElem?_cons_zero, Option.some.injEq] at h
        subst h
        simp
      | succ i =>
        simp only [List.getElem?_cons_succ] at h
        rw [ih _ _ i it h]
        have hm : (i + 1 ∈ 0 :: (canonRestartsFrom I 1 es.length).map (· + 1)) ↔
            i ∈ canonRestartsFrom I 1 es.length := by simp
        simp only [hm, Nat.add_sub_cancel, Nat.succ_ne_zero, if_false]
        cases i with
        | zero => simp
        | succ i => simp

theorem addAll_bb0_restarts_length (cfg : WCfg) (B : List Entry) :
    (BB.addAll (bb0 cfg) B).restarts.length = (canonBlock cfg.interval B).restarts.length := by
  have hr := addAll_restarts B (bb0 cfg)
  rw [hr]
  simp [bb0, canonBlock, canonRestarts]

end WriterP

open WriterP

/-! ### Theorem W -/

/-- **W (1)**: on strictly increasing input the writer's bytes are exactly the independent encoder's output for
    the canonical choices.  (Neither `1 ≤ interval` nor the 32-bit length bounds are needed for this equation:
    both sides truncate the entry header fields in the same way.) -/
theorem W_refines_format (cfg : WCfg) (comp : Bytes → Bytes) (hc : cfg.comp = fun raw => some (comp raw))
    (pre : Bytes) (es : List Entry) (hs : StrictSorted es) :
    pre ++ Writer.run cfg pre.length es = (canonFile cfg pre es).encode comp := by
  have hf := fin_new cfg comp hc pre.length es hs
  unfold Writer.run
  rw [canonFile_encode, finish_eq, finishMeta_run cfg comp hc pre es hs,
    index_finish_run cfg comp hc pre.length es hs, hf.out_eq]
  simp [W.new]

/-- **W (3)**: the canonical file holds exactly the entries given -/
theorem canonFile_entries (cfg : WCfg) (pre : Bytes) (es : List Entry) : (canonFile cfg pre es).entries = es :=
  canonFile_allEntries cfg pre es

/-- **W (2)**: the canonical choices are legal.  Besides the requested hypotheses a size bound is needed:
    `EBlock.legal` demands that every value is shorter than 4 GiB, and the values of the index block are the
    varints of the block offsets; without any bound on `pre.length` that can fail (mathematically: a foreign
    prefix of `128^(2^32)` bytes).  "The file is smaller than 2^64 bytes" is more than enough. -/
theorem canonFile_legal (cfg : WCfg) (comp : Bytes → Bytes) (pre : Bytes) (es : List Entry)
    (hi : 1 ≤ cfg.interval) (hs : StrictSorted es)
    (hlen : ∀ e ∈ es, e.key.length < 2^32 ∧ e.val.length < 2^32)
    (hsize : ((canonFile cfg pre es).encode comp).length < 2^64) :
    (canonFile cfg pre es).legal comp = true := by
  apply legal_of cfg comp pre es hi hs hlen
  intro off ho
  rw [canonFile_dataFrames] at ho
  have h1 := frameOffsets_le _ _ off ho
  rw [canonFile_encode] at hsize
  simp only [List.length_append] at hsize
  exact vlen_mono_lt64 (by omega)

/-- the same with the weakest size hypothesis -/
theorem canonFile_legal' (cfg : WCfg) (comp : Bytes → Bytes) (pre : Bytes) (es : List Entry)
    (hi : 1 ≤ cfg.interval) (hs : StrictSorted es)
    (hlen : ∀ e ∈ es, e.key.length < 2^32 ∧ e.val.length < 2^32)
    (hoff : ∀ off ∈ frameOffsets pre.length ((canonFile cfg pre es).dataFrames comp), vlen off < 2^32) :
    (canonFile cfg pre es).legal comp = true :=
  legal_of cfg comp pre es hi hs hlen hoff

/-! ### C09: cadence, cut rule, size rule -/

/-- every data block of the canonical file is the canonical block of one group of the split -/
theorem C09_blocks (cfg : WCfg) (pre : Bytes) (es : List Entry) :
    (canonFile cfg pre es).blocks = (splitBlocks cfg [] es).map (canonBlock cfg.interval) := rfl

/-- **C09 (cadence)**: in a data block the restart points are exactly the entry indices `0, interval, 2·interval, …`
    (strictly increasing), an entry at a restart point shares nothing, and every other entry shares exactly the
    longest common prefix with its predecessor. -/
theorem C09_cadence (interval : Nat) (hi : 1 ≤ interval) (B : List Entry) :
    (∀ i, i ∈ (canonBlock interval B).restarts ↔ i < max B.length 1 ∧ i % interval = 0) ∧
    (canonBlock interval B).restarts.Pairwise (· < ·) ∧
    (∀ i it, (canonBlock interval B).items[i]? = some it →
      B[i]? = some it.e ∧
      it.shared = if i % interval = 0 then 0 else lcp (((B[i - 1]?).map (·.key)).getD []) it.e.key) := by
  refine ⟨fun i => mem_canonRestarts interval B.length i hi, BlockEnc.canonRestarts_pairwise interval B.length hi,
    fun i it h => ?_⟩
  have he := BlockEnc.canonItems_getElem?_e _ _ _ _ _ _ h
  have hx := canonItems_shared_exact interval B 0 [] i it h
  refine ⟨he, ?_⟩
  cases i with
  | zero =>
    rw [Nat.zero_mod, if_pos rfl]
    rw [hx]
    split
    · rfl
    · simp [BlockEnc.lcp_nil_left]
  | succ i =>
    have hlt : i + 1 < B.length := BlockEnc.lt_of_getElem? _ _ _ he
    have hm := mem_canonRestarts interval B.length (i + 1) hi
    have hm' : i + 1 ∈ canonRestarts interval B.length ↔ i + 1 ∈ canonRestartsFrom interval 0 B.length := by
      unfold canonRestarts; simp
    rw [hx]
    by_cases hmod : (i + 1) % interval = 0
    · rw [if_pos hmod, if_pos (hm'.mp (hm.mpr ⟨by omega, hmod⟩))]
    · rw [if_neg hmod, if_neg (fun hc => hmod (hm.mp (hm'.mpr hc)).2)]
      simp

/-- **C09 (cut rule)**: block `j` was closed only because the first entry `(k, v)` of block `j+1` made
    `block_builder_current_size_estimate(block j) + 15 + |k| + |v| ≥ block_size`.  (The estimate is exact: it
    is the length of the finished block, `estimate_eq_encode_length`.) -/
theorem C09_cut_rule (cfg : WCfg) (es : List Entry) (j : Nat) (B : List Entry) (e : Entry) (t : List Entry)
    (hB : (splitBlocks cfg [] es)[j]? = some B) (hB' : (splitBlocks cfg [] es)[j + 1]? = some (e :: t)) :
    BB.estimate (BB.addAll (bb0 cfg) B) + 15 + e.key.length + e.val.length ≥ cfg.effBlockSize ∧
    ((canonBlock cfg.interval B).encode cfg.thr).length + 15 + e.key.length + e.val.length ≥ cfg.effBlockSize := by
  have := cut_between cfg es [] j B e t hB hB'
  refine ⟨this, ?_⟩
  rw [← estimate_eq_encode_length]; exact this

/-- **C09 (no early cut)**: conversely, inside a block every entry but the first failed the cut test -/
theorem C09_nocut_rule (cfg : WCfg) (es : List Entry) (B : List Entry) (hB : B ∈ splitBlocks cfg [] es)
    (B1 : List Entry) (e : Entry) (B2 : List Entry) (hsplit : B = B1 ++ e :: B2) (hne : B1 ≠ []) :
    ((canonBlock cfg.interval B1).encode cfg.thr).length + 15 + e.key.length + e.val.length < cfg.effBlockSize := by
  obtain ⟨j, hj, rfl⟩ := List.mem_iff_getElem.mp hB
  have := nocut_inside cfg es [] j _ (List.getElem?_eq_getElem hj) B1 e B2 hsplit hne (fun _ => Nat.zero_le _)
  unfold cutTest at this
  rw [estimate_eq_encode_length] at this
  omega

/-- **C09 (size rule), general form**: a data block with more than one entry is shorter than the block size, plus
    an excess that is only there when the block's entry region exceeds the restart-width threshold `thr`
    (`UINT32_MAX` in C): 4 bytes when the region was already above the threshold before the last entry (an 8-byte
    restart slot does not fit the 15-byte allowance), and 4 bytes per restart point when the last entry crosses the
    threshold (the estimate had been computed with 4-byte slots). -/
theorem C09_size_rule_gen (cfg : WCfg) (es : List Entry)
    (hlen : ∀ e ∈ es, e.key.length < 2^32 ∧ e.val.length < 2^32)
    (B : List Entry) (hB : B ∈ splitBlocks cfg [] es) (B1 : List Entry) (e : Entry) (hsplit : B = B1 ++ [e])
    (hne : B1 ≠ []) :
    ((canonBlock cfg.interval B).encode cfg.thr).length <
      cfg.effBlockSize +
        (if (canonBlock cfg.interval B).region.length > cfg.thr then
           (if (canonBlock cfg.interval B1).region.length > cfg.thr then 4
            else 4 * (canonBlock cfg.interval B).restarts.length) else 0) := by
  have hnc := C09_nocut_rule cfg es B hB B1 e [] hsplit hne
  have hmem : e ∈ es := (mem_split_sub cfg es hB).subset (by rw [hsplit]; simp)
  have := est_add_gen (BB.addAll (bb0 cfg) B1) e (hlen e hmem).1 (hlen e hmem).2
  rw [addAll_snoc, ← hsplit, estimate_eq_encode_length, estimate_eq_encode_length, addAll_bb0_thr,
    addAll_bb0_buf, addAll_bb0_buf, addAll_bb0_restarts_length] at this
  omega

/-- **C09 (size rule)**: a data block holding more than one entry whose entry region is at most `thr` bytes
    (always the case below 4 GiB) is shorter than the block size. -/
theorem C09_size_rule_lt (cfg : WCfg) (es : List Entry)
    (hlen : ∀ e ∈ es, e.key.length < 2^32 ∧ e.val.length < 2^32)
    (B : List Entry) (hB : B ∈ splitBlocks cfg [] es) (h1 : 1 < B.length)
    (hreg : (canonBlock cfg.interval B).region.length ≤ cfg.thr) :
    ((canonBlock cfg.interval B).encode cfg.thr).length < cfg.effBlockSize := by
  have hBne : B ≠ [] := by intro h; rw [h] at h1; simp at h1
  have hsplit : B = B.dropLast ++ [B.getLast hBne] := (List.dropLast_concat_getLast hBne).symm
  have hne : B.dropLast ≠ [] := by
    intro h
    have := congrArg List.length h
    simp only [List.length_dropLast, List.length_nil] at this
    omega
  have := C09_size_rule_gen cfg es hlen B hB _ _ hsplit hne
  rw [if_neg (by omega)] at this
  exact this

theorem C09_size_rule (cfg : WCfg) (es : List Entry)
    (hlen : ∀ e ∈ es, e.key.length < 2^32 ∧ e.val.length < 2^32)
    (B : List Entry) (hB : B ∈ splitBlocks cfg [] es) (h1 : 1 < B.length)
    (hreg : (canonBlock cfg.interval B).region.length ≤ cfg.thr) :
    ((canonBlock cfg.interval B).encode cfg.thr).length ≤ cfg.effBlockSize :=
  Nat.le_of_lt (C09_size_rule_lt cfg es hlen B hB h1 hreg)

/-- above the threshold (8-byte restart slots throughout): at most 3 bytes over -/
theorem C09_size_rule_big (cfg : WCfg) (es : List Entry)
    (hlen : ∀ e ∈ es, e.key.length < 2^32 ∧ e.val.length < 2^32)
    (B : List Entry) (hB : B ∈ splitBlocks cfg [] es) (B1 : List Entry) (e : Entry) (hsplit : B = B1 ++ [e])
    (hreg : (canonBlock cfg.interval B1).region.length > cfg.thr) :
    ((canonBlock cfg.interval B).encode cfg.thr).length < cfg.effBlockSize + 4 := by
  have hne : B1 ≠ [] := by
    intro h; rw [h] at hreg
    simp [canonBlock, canonItems, EBlock.region] at hreg
  have := C09_size_rule_gen cfg es hlen B hB B1 e hsplit hne
  rw [if_pos hreg] at this
  split at this <;> omega

/-- the threshold condition of the size rule cannot be dropped: with `thr = 30`, `interval = 1` and block size 77
    the eighth 4-byte entry crosses the threshold and the block (8 entries, 100 bytes) is 23 bytes too long -/
example :
    let cfg : WCfg := { blockSize := 77, minBlockSize := 16, interval := 1, thr := 30 }
    let es : List Entry := (List.range 8).map fun i => ⟨[i.toUInt8], []⟩
    splitBlocks cfg [] es = [es] ∧ ((canonBlock cfg.interval es).encode cfg.thr).length = 100 := by
  decide +kernel

/-! ### C10: the trailer statistics -/

/-- the trailer as the independent encoder recounts it from the choices `f` -/
def EFile.recount (f : EFile) (comp : Bytes → Bytes) : Meta :=
  { indexBlockOffset := f.pre.length + ((f.dataFrames comp).flatMap id).length,
    dataBlockSize := f.blockSizeField, compression := f.compression,
    countEntries := f.entries.length, countDataBlocks := f.blocks.length,
    bytesDataBlocks := ((f.dataFrames comp).flatMap id).length,
    bytesIndexBlock := (eframe f.version ((f.indexBlock comp).encode f.thr)).length,
    bytesKeys := (f.entries.map (·.key.length)).sum, bytesValues := (f.entries.map (·.val.length)).sum }

/-- `EFile.recount` is literally the trailer `EFile.encode` writes -/
theorem EFile.encode_trailer (f : EFile) (comp : Bytes → Bytes) :
    f.encode comp = f.pre ++ (f.dataFrames comp).flatMap id ++ eframe f.version ((f.indexBlock comp).encode f.thr) ++
      ((f.recount comp).fields.flatMap fixed64 ++
        List.replicate (METADATA_SIZE - ((f.recount comp).fields.flatMap fixed64).length - 4) (0 : UInt8) ++
        fixed32 (match f.version with | .v1 => MAGIC_V1 | .v2 => MAGIC_V2)) := rfl

/-- the metadata the writer stores is the recount of the canonical file -/
theorem C10_meta (cfg : WCfg) (comp : Bytes → Bytes) (hc : cfg.comp = fun raw => some (comp raw))
    (pre : Bytes) (es : List Entry) (hs : StrictSorted es) :
    ((W.new cfg pre.length).addAll es).2.finishMeta = (canonFile cfg pre es).recount comp := by
  rw [finishMeta_run cfg comp hc pre es hs]
  have hbl : (canonFile cfg pre es).blocks.length = (splitBlocks cfg [] es).length := by
    simp [canonFile]
  unfold EFile.recount
  rw [canonFile_entries, canonFile_dataFrames, canonFile_indexBlock, List.flatMap_id, hbl]
  rfl

/-- **C10**: every statistic in the trailer equals its recount -/
theorem C10_stats (cfg : WCfg) (comp : Bytes → Bytes) (hc : cfg.comp = fun raw => some (comp raw))
    (pre : Bytes) (es : List Entry) (hs : StrictSorted es) :
    let m := ((W.new cfg pre.length).addAll es).2.finishMeta
    let f := canonFile cfg pre es
    m.countEntries = es.length ∧
    m.bytesKeys = (es.map (·.key.length)).sum ∧
    m.bytesValues = (es.map (·.val.length)).sum ∧
    m.countDataBlocks = (splitBlocks cfg [] es).length ∧
    m.bytesDataBlocks = ((f.dataFrames comp).map List.length).sum ∧
    m.indexBlockOffset = pre.length + m.bytesDataBlocks ∧
    m.bytesIndexBlock = (eframe .v2 ((f.indexBlock comp).encode cfg.thr)).length ∧
    m.dataBlockSize = cfg.effBlockSize ∧
    m.compression = cfg.compression := by
  intro m f
  have hm : m = f.recount comp := C10_meta cfg comp hc pre es hs
  have hbl : f.blocks.length = (splitBlocks cfg [] es).length := by simp [f, canonFile]
  have hsum : ∀ l : List Bytes, (l.flatMap id).length = (l.map List.length).sum := by
    intro l; rw [List.flatMap_id, List.length_flatten]
  have he : f.entries = es := canonFile_entries cfg pre es
  rw [hm]
  refine ⟨?_, ?_, ?_, hbl, hsum _, ?_, rfl, rfl, rfl⟩
  · show f.entries.length = _
    rw [he]
  · show (f.entries.map _).sum = _
    rw [he]
  · show (f.entries.map _).sum = _
    rw [he]
  · rfl

/-- the trailer is the last thing the writer emits, and it is `metadata_write` of those statistics -/
theorem C10_trailer (w : W) : ∃ body, w.finish = body ++ w.finishMeta.write :=
  ⟨_, finish_eq w⟩

/-! ### arbitrary add sequences: the gate, then the format -/

/-- **W (6)**: whatever is offered to `mtbl_writer_add`, the file is the canonical file of the accepted entries -/
theorem W_refines_format_any (cfg : WCfg) (comp : Bytes → Bytes) (hc : cfg.comp = fun raw => some (comp raw))
    (pre : Bytes) (adds : List Entry) :
    pre ++ ((W.new cfg pre.length).addAll adds).2.finish =
      (canonFile cfg pre (acceptedOf none adds)).encode comp := by
  rw [C08_history_state]
  exact W_refines_format cfg comp hc pre _ (C08_accepted_sorted adds)

/-- **C10 for arbitrary add sequences**: refused adds leave no trace in the statistics -/
theorem C10_stats_any (cfg : WCfg) (comp : Bytes → Bytes) (hc : cfg.comp = fun raw => some (comp raw))
    (pre : Bytes) (adds : List Entry) :
    ((W.new cfg pre.length).addAll adds).2.finishMeta =
      (canonFile cfg pre (acceptedOf none adds)).recount comp ∧
    ((W.new cfg pre.length).addAll adds).2.finishMeta.countEntries = (acceptedOf none adds).length ∧
    ((W.new cfg pre.length).addAll adds).2.finishMeta.bytesKeys =
      ((acceptedOf none adds).map (·.key.length)).sum ∧
    ((W.new cfg pre.length).addAll adds).2.finishMeta.bytesValues =
      ((acceptedOf none adds).map (·.val.length)).sum := by
  rw [C08_history_state]
  have h := C10_stats cfg comp hc pre _ (C08_accepted_sorted adds)
  exact ⟨C10_meta cfg comp hc pre _ (C08_accepted_sorted adds), h.1, h.2.1, h.2.2.1⟩

/-- with a total compressor no assertion of the writer fires (from the gate theorems), so the bytes above are
    really written -/
theorem W_no_abort (cfg : WCfg) (comp : Bytes → Bytes) (hc : cfg.comp = fun raw => some (comp raw))
    (pre : Nat) (adds : List Entry) : ((W.new cfg pre).addAll adds).2.aborted = false :=
  C08_no_abort_history cfg pre adds (fun raw _ => by rw [hc]; rfl)

/-- legality for arbitrary add sequences -/
theorem canonFile_legal_any (cfg : WCfg) (comp : Bytes → Bytes) (pre : Bytes) (adds : List Entry)
    (hi : 1 ≤ cfg.interval)
    (hlen : ∀ e ∈ acceptedOf none adds, e.key.length < 2^32 ∧ e.val.length < 2^32)
    (hsize : ((canonFile cfg pre (acceptedOf none adds)).encode comp).length < 2^64) :
    (canonFile cfg pre (acceptedOf none adds)).legal comp = true :=
  canonFile_legal cfg comp pre _ hi (C08_accepted_sorted adds) hlen hsize

/-! ### non-vacuity -/

namespace WriterEx

def cfg : WCfg := { blockSize := 32, minBlockSize := 16, interval := 2 }

/-- seven entries: the empty key first, one entry (40-byte value) larger than the 32-byte block size -/
def es : List Entry :=
  [⟨[], [1]⟩, ⟨[1], [2, 3]⟩, ⟨[1, 2], []⟩, ⟨[1, 2, 3], List.replicate 40 7⟩, ⟨[2], [9]⟩, ⟨[2, 0], [9]⟩, ⟨[2, 1], [9]⟩]

/-- five blocks; the oversized entry sits alone in the third -/
example : (splitBlocks cfg [] es).map List.length = [2, 1, 1, 2, 1] := by decide +kernel

example : canonSeps (splitBlocks cfg [] es) = [[1], [1, 2], [1, 2, 3], [2, 0], [2, 1]] := by decide +kernel

set_option maxRecDepth 100000 in
example : [0xAA, 0xBB] ++ Writer.run cfg 2 es = (canonFile cfg [0xAA, 0xBB] es).encode id := by decide +kernel

set_option maxRecDepth 100000 in
example : (canonFile cfg [0xAA, 0xBB] es).legal id = true := by decide +kernel

example : (canonFile cfg [0xAA, 0xBB] es).entries = es := by decide +kernel

/-- the same run through a (toy) compressor: `compression = 1`, every data block stored reversed -/
def cfgZ : WCfg := { cfg with compression := 1, comp := fun raw => some raw.reverse }

set_option maxRecDepth 100000 in
example : [0xAA, 0xBB] ++ Writer.run cfgZ 2 es = (canonFile cfgZ [0xAA, 0xBB] es).encode List.reverse ∧
    Writer.run cfgZ 2 es ≠ Writer.run cfg 2 es := by decide +kernel

/-- with the adds out of order: the refused ones leave no trace -/
example : Writer.run cfg 0 ([⟨[], [1]⟩, ⟨[], [5]⟩, ⟨[1], [2, 3]⟩, ⟨[0], [4]⟩] ++ es.drop 2) = Writer.run cfg 0 es := by
  decide +kernel

end WriterEx

end Mtbl
